(* Proofs/StrStoreP.v — the packed string store returns the idx-th stored string, and Str2Str
   (StrMap[int] over offsets into the store) answers like an association list. *)
From GV Require Import Lib.Bytes Lib.Res Gen.Consts Model.StrMap Model.StrStore Spec.StrMap
  Proofs.StrMapLib Proofs.StrMapP.
From Coq Require Import ZifyN ZifyNat ZifyBool Permutation Sorted.
Open Scope N_scope.

Lemma strlen_size_4 : strlen_size = 4.
Proof. reflexivity. Qed.

Lemma le32_len x : len (le32 x) = 4.
Proof. unfold le32, len. rewrite rev_length, be_length. reflexivity. Qed.

Lemma unle_le32 x : x < two32 -> unle (le32 x) = x.
Proof.
  intros H. unfold unle, le32. rewrite rev_involutive, unbe_be.
  apply N.mod_small. exact H.
Qed.

Lemma slice_range_mid {A} (pre k post : list A) :
  slice_range (pre ++ k ++ post) (len pre) (len pre + len k) = Ok k.
Proof.
  unfold slice_range.
  destruct (N.leb_spec (len pre) (len pre + len k)) as [_|]; [|lia].
  destruct (N.leb_spec (len pre + len k) (len (pre ++ k ++ post))) as [_|Hc];
    [|rewrite !len_app in Hc; lia].
  cbn [andb]. replace (len pre + len k - len pre) with (len k) by lia.
  rewrite drop_app_len, take_app_len. reflexivity.
Qed.

(* the packed image of a list of strings, and the offset of each *)
Definition enc1 (s : bytes) : bytes := le32 (len s mod two32) ++ s.
Definition enc (ss : list bytes) : bytes := concat (map enc1 ss).
Fixpoint offsets (off : N) (ss : list bytes) : list Z :=
  match ss with
  | [] => []
  | s :: r => Z.of_N off :: offsets (off + strlen_size + len s) r
  end.
Definition sumlen (ss : list bytes) : N := fold_right (fun s a => len s + a) 0 ss.

Lemma enc1_len s : len (enc1 s) = 4 + len s.
Proof. unfold enc1. now rewrite len_app, le32_len. Qed.

Lemma enc_cons s r : enc (s :: r) = enc1 s ++ enc r.
Proof. reflexivity. Qed.

Lemma enc_len ss : len (enc ss) = 4 * len ss + sumlen ss.
Proof.
  induction ss as [|s r IH]; [reflexivity|].
  rewrite enc_cons, len_app, enc1_len, IH, len_cons. cbn [sumlen fold_right]. fold (sumlen r). lia.
Qed.

Lemma offsets_length off ss : length (offsets off ss) = length ss.
Proof. revert off; induction ss as [|s r IH]; intros off; cbn [offsets length]; [reflexivity|now rewrite IH]. Qed.

Lemma store_total_spec ss : forall acc, Forall small ss -> store_total acc ss = Ok (acc + sumlen ss).
Proof.
  induction ss as [|s r IH]; intros acc Hsm; cbn [store_total sumlen fold_right].
  - f_equal. lia.
  - inversion Hsm as [|? ? Hs Hsm']; subst. unfold small in Hs.
    destruct (N.ltb_spec max_uint32 (len s)) as [|_]; [lia|].
    rewrite IH by exact Hsm'. fold (sumlen r). f_equal. lia.
Qed.

Lemma store_write_spec ss : forall rest off,
  len (enc ss) <= len rest ->
  store_write rest off ss = Ok (enc ss ++ drop (len (enc ss)) rest, offsets off ss).
Proof.
  induction ss as [|s r IH]; intros rest off Hlen.
  - reflexivity.
  - rewrite enc_cons, len_app, enc1_len in Hlen. cbn [store_write offsets].
    rewrite strlen_size_4.
    destruct (N.eqb_spec (len rest) 0) as [|_]; [lia|].
    destruct (N.ltb_spec (len rest) 4) as [|_]; [lia|].
    destruct (N.ltb_spec (len rest) (4 + len s)) as [|_]; [lia|].
    rewrite IH by (rewrite drop_len; lia). cbn [bind].
    rewrite drop_drop. f_equal. f_equal.
    rewrite enc_cons. unfold enc1. rewrite <- !app_assoc. do 3 f_equal.
    rewrite !len_app, le32_len. f_equal. lia.
Qed.

Lemma store_get_at pre s post sp : small s ->
  store_get (mkstore (pre ++ enc1 s ++ post) sp) (Z.of_N (len pre)) = Ok s.
Proof.
  intros Hs. unfold store_get. cbn [sbuf sspare]. rewrite strlen_size_4.
  assert (Hl : len (pre ++ enc1 s ++ post) = len pre + (4 + len s) + len post)
    by (rewrite !len_app, enc1_len; lia).
  destruct (Z.ltb_spec (Z.of_N (len pre)) 0) as [|_]; [lia|].
  destruct (Z.leb_spec (Z.of_N (len (pre ++ enc1 s ++ post))) (Z.of_N (len pre))) as [|_]; [lia|].
  cbn [orb]. rewrite N2Z.id.
  destruct (N.ltb_spec (len (pre ++ enc1 s ++ post)) (len pre + 4)) as [|_]; [lia|].
  rewrite drop_app_len. unfold enc1. rewrite <- !app_assoc.
  assert (Hm : len s mod two32 = len s).
  { apply N.mod_small. unfold small, max_uint32, two32 in *. lia. }
  rewrite Hm.
  assert (Ht : take 4 (le32 (len s) ++ s ++ post) = le32 (len s))
    by (rewrite <- (le32_len (len s)); apply take_app_len).
  rewrite Ht, unle_le32 by (unfold small, max_uint32, two32 in *; lia).
  replace (pre ++ le32 (len s) ++ s ++ post ++ sp) with ((pre ++ le32 (len s)) ++ s ++ (post ++ sp))
    by (rewrite <- !app_assoc; reflexivity).
  replace (len pre + 4) with (len (pre ++ le32 (len s))) by (rewrite len_app, le32_len; reflexivity).
  apply slice_range_mid.
Qed.

Lemma store_get_enc ss : forall pre post sp,
  Forall small ss ->
  Forall2 (fun id s => store_get (mkstore (pre ++ enc ss ++ post) sp) id = Ok s)
          (offsets (len pre) ss) ss.
Proof.
  induction ss as [|s r IH]; intros pre post sp Hsm; cbn [offsets]; [constructor|].
  inversion Hsm as [|? ? Hs Hsm']; subst.
  rewrite enc_cons. constructor.
  - rewrite <- app_assoc. now apply store_get_at.
  - specialize (IH (pre ++ enc1 s) post sp Hsm').
    rewrite len_app, enc1_len, strlen_size_4 in *.
    replace (len pre + 4 + len s) with (len pre + (4 + len s)) by lia.
    replace (pre ++ (enc1 s ++ enc r) ++ post) with ((pre ++ enc1 s) ++ enc r ++ post)
      by (rewrite <- !app_assoc; reflexivity).
    exact IH.
Qed.

(* StrStore.Load then Get(idx_i) returns the i-th string, whatever the store held before *)
Theorem store_load_spec st ss : Forall small ss ->
  exists st' ids, store_load st ss = (st', Ok ids) /\ length ids = length ss /\
    Forall2 (fun id s => store_get st' id = Ok s) ids ss.
Proof.
  intros Hsm. unfold store_load. rewrite store_total_spec by exact Hsm.
  rewrite strlen_size_4, <- enc_len.
  set (total := len (enc ss)).
  set (bs := if len (sbuf st ++ sspare st) <? total then (nrepeat 0 total, [])
             else (take total (sbuf st ++ sspare st), drop total (sbuf st ++ sspare st))).
  assert (Hb : len (fst bs) = total).
  { unfold bs. destruct (N.ltb_spec (len (sbuf st ++ sspare st)) total); cbn [fst].
    - apply nrepeat_len.
    - now apply take_len. }
  destruct bs as [buf sp]. cbn [fst] in Hb.
  rewrite store_write_spec by (fold total; lia). fold total.
  assert (Hd : drop total buf = []).
  { unfold drop. apply skipn_all2. unfold len in Hb. lia. }
  rewrite Hd, app_nil_r.
  eexists. eexists. split; [reflexivity|]. split; [apply offsets_length|].
  pose proof (store_get_enc ss [] [] sp Hsm) as H. cbn [app] in H. rewrite app_nil_r in H.
  exact H.
Qed.

(* ================= Str2Str ================= *)
Lemma assoc_rel {A B} (P : A -> B -> Prop) kk : forall aa bb s,
  Forall2 P aa bb ->
  match assoc kk aa s, assoc kk bb s with
  | Some a, Some b => P a b
  | None, None => True
  | _, _ => False
  end.
Proof.
  induction kk as [|k kk IH]; intros aa bb s H; cbn [assoc]; [exact I|].
  destruct H as [|a b aa bb Hab H]; [exact I|].
  destruct (beqb k s); [exact Hab|]. now apply IH.
Qed.

Section S2S.
Variable hash : bytes -> N.
Variable sort : list (item Z) -> list (item Z).
Hypothesis sort_is_ok : sort_ok sort.

Theorem s2s_spec st kk vv s :
  length kk = length vv -> NoDup kk -> loadable kk -> Forall small vv ->
  snd (s2s_load hash sort st kk vv) = Ok tt /\
  s2s_get hash (fst (s2s_load hash sort st kk vv)) s = Ok (assoc kk vv s) /\
  s2s_len (fst (s2s_load hash sort st kk vv)) = Ok (len kk).
Proof.
  intros Hlen Hnd Hld Hsm. unfold s2s_load.
  destruct (N.eqb_spec (len kk) (len vv)) as [_|Hne]; [|unfold len in Hne; lia]. cbn [negb].
  rewrite (no_large_of_small hash kk (proj1 Hld)).
  set (store := match s2s_store st with Some x => x | None => new_store end).
  destruct (store_load_spec store vv Hsm) as (store' & ids & Hsl & Hil & Hget).
  rewrite Hsl.
  set (m := match s2s_map st with Some x => x | None => new_map end).
  assert (Hl' : length kk = length ids) by lia.
  destruct (get_spec Z hash sort sort_is_ok m kk ids s Hl' Hnd Hld) as [Hok Hg].
  pose proof (len_spec Z hash sort sort_is_ok m kk ids Hl' Hld) as Hlen'.
  destruct (load hash sort m kk ids) as [m' r'] eqn:El. cbn [fst snd] in *.
  split; [exact Hok|]. split.
  - unfold s2s_get. cbn [s2s_map s2s_store]. rewrite Hg. cbn [bind].
    pose proof (assoc_rel _ kk ids vv s Hget) as Hr.
    destruct (assoc kk ids s) as [id|], (assoc kk vv s) as [v|]; try contradiction; [|reflexivity].
    rewrite Hr. reflexivity.
  - unfold s2s_len. cbn [s2s_map]. now rewrite Hlen'.
Qed.

Theorem s2s_load_fail_noop st kk vv :
  length kk <> length vv -> s2s_load hash sort st kk vv = (st, Err 1).
Proof.
  intros H. unfold s2s_load. destruct (N.eqb_spec (len kk) (len vv)) as [He|_]; [|reflexivity].
  unfold len in He. lia.
Qed.

(* a load refused because a key is too large leaves the Str2Str as it was: the test is made before the
   value store is replaced (since the repair of /repo) *)
Theorem s2s_load_fail_noop_large st (kk vv : list bytes) :
  length kk = length vv -> existsb (fun k : bytes => max_uint32 <? len k) kk = true ->
  s2s_load hash sort st kk vv = (st, Err 2).
Proof.
  intros Hl E. unfold s2s_load.
  assert (Heq : (len kk =? len vv) = true) by (apply N.eqb_eq; unfold len; lia).
  rewrite Heq. cbn [negb].
  match goal with |- (if ?c then _ else _) = _ => replace c with true by (symmetry; exact E) end. reflexivity.
Qed.

Theorem s2s_unloaded s : s2s_get hash new_s2s s = Ok None /\ s2s_len new_s2s = Ok 0.
Proof. split; reflexivity. Qed.

(* the zero value Str2Str{} (both parts nil): Get and Len test the inner map for nil, so it
   answers "absent" / 0 until a load has been accepted -- also after refused loads, which leave
   it the zero value *)
Theorem s2s_zero_unloaded s : s2s_get hash zero_s2s s = Ok None /\ s2s_len zero_s2s = Ok 0.
Proof. split; reflexivity. Qed.

Theorem s2s_zero_refused kk vv s :
  length kk <> length vv ->
  s2s_get hash (fst (s2s_load hash sort zero_s2s kk vv)) s = Ok None /\
  s2s_len (fst (s2s_load hash sort zero_s2s kk vv)) = Ok 0.
Proof. intros H. rewrite s2s_load_fail_noop by exact H. apply s2s_zero_unloaded. Qed.

Theorem s2s_load_map_spec st kk vv visit s :
  length kk = length vv -> NoDup kk -> loadable kk -> Forall small vv ->
  Permutation visit (combine kk vv) ->
  snd (s2s_load_map hash sort st visit) = Ok tt /\
  s2s_get hash (fst (s2s_load_map hash sort st visit)) s = Ok (assoc kk vv s) /\
  s2s_len (fst (s2s_load_map hash sort st visit)) = Ok (len kk).
Proof.
  intros Hlen Hnd [Hsm Hn] Hsv Hp. unfold s2s_load_map.
  assert (Hl : length (map fst visit) = length (map snd visit)) by now rewrite !map_length.
  assert (Hpk : Permutation (map fst visit) kk).
  { rewrite <- (map_fst_combine kk vv Hlen). now apply Permutation_map. }
  assert (Hpv : Permutation (map snd visit) vv).
  { rewrite <- (map_snd_combine kk vv Hlen). now apply Permutation_map. }
  assert (Hld : loadable (map fst visit)).
  { split.
    - eapply Permutation_Forall; [apply Permutation_sym; exact Hpk|exact Hsm].
    - unfold len. rewrite (Permutation_length Hpk). exact Hn. }
  assert (Hnd' : NoDup (map fst visit)) by (eapply Permutation_NoDup; [apply Permutation_sym; exact Hpk|exact Hnd]).
  assert (Hsv' : Forall small (map snd visit)) by (eapply Permutation_Forall; [apply Permutation_sym; exact Hpv|exact Hsv]).
  destruct (s2s_spec st _ _ s Hl Hnd' Hld Hsv') as (Hok & Hget & Hlen').
  split; [exact Hok|]. split.
  - rewrite Hget. f_equal. rewrite !assoc_combine, combine_map_fst_snd.
    apply assoc_pairs_perm; [exact Hp|].
    eapply Permutation_NoDup; [apply Permutation_sym; apply Permutation_map; exact Hp|].
    now rewrite map_fst_combine.
  - rewrite Hlen'. unfold len. now rewrite (Permutation_length Hpk).
Qed.

End S2S.
