(* Proofs/RefLib.v — lemmas about the grammar combinators of Spec/ThriftGrammar.v
   (hasn, gstring, gpair, gelems, gfields) used by the C08 proofs: bounds, heights,
   monotonicity in the element parser and in the fuel, the closed form of a counted loop
   over a fixed-size element (the fast paths). *)
From GV Require Import Lib.Bytes Lib.Res Spec.ThriftGrammar Spec.RefParse.
From Coq Require Import ZifyN ZifyNat ZifyBool Lia.
Open Scope N_scope.

(* ---------- hasn, drop, take ---------- *)
Lemma hasn_le r n : hasn r n = (n <=? len r).
Proof.
  revert n; induction r as [|x r IH]; intros n; cbn [hasn].
  - change (len (@nil N)) with 0. destruct (N.eqb_spec n 0); destruct (N.leb_spec n 0); try reflexivity; lia.
  - rewrite IH, len_cons.
    destruct (N.eqb_spec n 0); destruct (N.leb_spec n (1 + len r));
      destruct (N.leb_spec (N.pred n) (len r)); try reflexivity; lia.
Qed.

Lemma len_drop {A} n (l : list A) : len (drop n l) = len l - n.
Proof. unfold drop, len. rewrite skipn_length. lia. Qed.

Lemma length_drop_lt {A} n (l : list A) : 1 <= n -> l <> [] -> (length (drop n l) < length l)%nat.
Proof.
  intros Hn Hl. unfold drop. rewrite skipn_length. destruct l; [congruence|]. cbn [length]. lia.
Qed.

Lemma drop_nil {A} n : drop n (@nil A) = [].
Proof. unfold drop. apply skipn_nil. Qed.

Lemma len_length {A} (l : list A) : len l = N.of_nat (length l).
Proof. reflexivity. Qed.

Lemma drop_cons_succ {A} (x : A) l n : drop (1 + n) (x :: l) = drop n l.
Proof. unfold drop. replace (N.to_nat (1 + n)) with (S (N.to_nat n)) by lia. reflexivity. Qed.

Lemma drop_1_cons {A} (x : A) l : drop 1 (x :: l) = l.
Proof. reflexivity. Qed.
Lemma drop_2_cons {A} (x y : A) l : drop 2 (x :: y :: l) = l.
Proof. reflexivity. Qed.

(* ---------- kinds ---------- *)
Lemma kind_fixed_width t w : kind_of t = KFixed w -> w = 1 \/ w = 2 \/ w = 4 \/ w = 8.
Proof.
  unfold kind_of.
  repeat match goal with |- context [if ?c then _ else _] => destruct c end;
    intros H; inversion H; auto; discriminate.
Qed.
Lemma kind_fixed_pos t w : kind_of t = KFixed w -> 1 <= w.
Proof. intros H. apply kind_fixed_width in H. lia. Qed.

(* ---------- results ---------- *)
Definition good (f : bytes -> pres) : Prop := forall r n h, f r = Ok (n, h) -> 1 <= n <= len r.
Definition nocrash (f : bytes -> pres) : Prop := forall r, (exists x, f r = Ok x) \/ (exists e, f r = Err e).
Definition hbound (H : nat) (f : bytes -> pres) : Prop := forall r n h, f r = Ok (n, h) -> (h <= H)%nat.

Ltac ok_inv H :=
  let H1 := fresh "Hn" in let H2 := fresh "Hh" in
  match type of H with
  | Ok (?a, ?b) = Ok (?c, ?d) =>
    assert (H1 : c = a) by congruence; assert (H2 : d = b) by congruence; clear H;
    try subst c; try subst d
  end.

Tactic Notation "inv_bind" hyp(H) "as" ident(n) ident(h) ident(E) :=
  match type of H with
  | bind ?x _ = _ =>
    destruct x as [[n h]| ? | ? |] eqn:E; cbn [bind] in H; try discriminate H
  end.

Lemma gstring_good : good gstring.
Proof.
  intros r n h H. unfold gstring in H. rewrite !hasn_le in H.
  destruct (N.leb_spec 4 (len r)); [|discriminate].
  destruct (two31 <=? unbe (take 4 r)); [discriminate|].
  rewrite len_drop in H.
  destruct (N.leb_spec (unbe (take 4 r)) (len r - 4)); [|discriminate].
  ok_inv H. lia.
Qed.
Lemma gstring_nocrash : nocrash gstring.
Proof.
  intros r. unfold gstring.
  destruct (hasn r 4); [|right; eauto].
  destruct (two31 <=? _); [right; eauto|].
  destruct (hasn _ _); [left|right]; eauto.
Qed.
Lemma gstring_h r n h : gstring r = Ok (n, h) -> h = O.
Proof.
  unfold gstring. destruct (hasn r 4); [|discriminate].
  destruct (two31 <=? _); [discriminate|]. destruct (hasn _ _); [|discriminate].
  intros H; ok_inv H; reflexivity.
Qed.

Lemma leaf_good t : good (leaf t).
Proof.
  intros r n h H. unfold leaf in H. destruct (kind_of t) eqn:K; try discriminate.
  - rewrite hasn_le in H. destruct (N.leb_spec width (len r)); [|discriminate].
    ok_inv H. apply kind_fixed_pos in K. lia.
  - eapply gstring_good; eauto.
Qed.
Lemma leaf_nocrash t : nocrash (leaf t).
Proof.
  intros r. unfold leaf. destruct (kind_of t); try (right; eauto; fail).
  - destruct (hasn r width); [left|right]; eauto.
  - apply gstring_nocrash.
Qed.
Lemma leaf_h t r n h : leaf t r = Ok (n, h) -> h = O.
Proof.
  unfold leaf. destruct (kind_of t); try discriminate.
  - destruct (hasn _ _); [|discriminate]. intros H; ok_inv H; reflexivity.
  - apply gstring_h.
Qed.

(* ---------- gpair ---------- *)
Lemma gpair_good e1 e2 : good e1 -> good e2 -> good (gpair e1 e2).
Proof.
  intros G1 G2 r n h H. unfold gpair in H. inv_bind H as a ha Ea. inv_bind H as b hb Eb. ok_inv H.
  apply G1 in Ea. apply G2 in Eb. rewrite len_drop in Eb. lia.
Qed.
Lemma gpair_nocrash e1 e2 : nocrash e1 -> nocrash e2 -> nocrash (gpair e1 e2).
Proof.
  intros N1 N2 r. unfold gpair.
  destruct (N1 r) as [[[n h] E]|[e E]]; rewrite E; cbn [bind]; [|right; eauto].
  destruct (N2 (drop n r)) as [[[m h'] E']|[e E']]; rewrite E'; cbn [bind]; [left|right]; eauto.
Qed.
Lemma gpair_h H e1 e2 : hbound H e1 -> hbound H e2 -> hbound H (gpair e1 e2).
Proof.
  intros H1 H2 r n h E. unfold gpair in E. inv_bind E as a ha Ea. inv_bind E as b hb Eb. ok_inv E.
  apply H1 in Ea. apply H2 in Eb. lia.
Qed.

(* ---------- gelems ---------- *)
Lemma gelems_bound f e : good e -> forall c r n h,
  gelems f e c r = Ok (n, h) -> n <= len r /\ (c <> 0 -> 1 <= n).
Proof.
  intros G. induction f as [|f IH]; intros c r n h H; cbn [gelems] in H.
  - destruct (N.eqb_spec c 0); [|discriminate]. ok_inv H. lia.
  - destruct (N.eqb_spec c 0); [ok_inv H; lia|].
    inv_bind H as a ha Ea. inv_bind H as b hb Eb. ok_inv H.
    apply G in Ea. apply IH in Eb. rewrite len_drop in Eb. lia.
Qed.
Lemma gelems_nocrash f e : nocrash e -> forall c r,
  (exists x, gelems f e c r = Ok x) \/ (exists er, gelems f e c r = Err er).
Proof.
  intros Nc. induction f as [|f IH]; intros c r; cbn [gelems].
  - destruct (c =? 0); [left|right]; eauto.
  - destruct (c =? 0); [left; eauto|].
    destruct (Nc r) as [[[n h] E]|[er E]]; rewrite E; cbn [bind]; [|right; eauto].
    destruct (IH (N.pred c) (drop n r)) as [[[m h'] E']|[er E']]; rewrite E'; cbn [bind]; [left|right]; eauto.
Qed.
Lemma gelems_h H f e : hbound H e -> forall c r n h, gelems f e c r = Ok (n, h) -> (h <= H)%nat.
Proof.
  intros Hb. induction f as [|f IH]; intros c r n h E; cbn [gelems] in E.
  - destruct (c =? 0); [|discriminate]. ok_inv E; lia.
  - destruct (c =? 0); [ok_inv E; lia|].
    inv_bind E as a ha Ea. inv_bind E as b hb Eb. ok_inv E. apply Hb in Ea. apply IH in Eb. lia.
Qed.

(* monotone in the element parser (on inputs no longer than L, for results of height <= H),
   and any fuel above the input length is enough *)
Lemma gelems_mono (L : nat) (H : nat) e1 e2 :
  good e1 ->
  (forall r n h, (length r <= L)%nat -> e1 r = Ok (n, h) -> (h <= H)%nat -> e2 r = Ok (n, h)) ->
  forall f1 f2 c r n h,
    (length r <= L)%nat -> (length r < f2)%nat ->
    gelems f1 e1 c r = Ok (n, h) -> (h <= H)%nat -> gelems f2 e2 c r = Ok (n, h).
Proof.
  intros G M. induction f1 as [|f1 IH]; intros f2 c r n h HL Hf E Hh; cbn [gelems] in E.
  - destruct (N.eqb_spec c 0) as [->|]; [|discriminate]. ok_inv E.
    destruct f2; cbn [gelems]; reflexivity.
  - destruct f2 as [|f2]; [lia|]. cbn [gelems].
    destruct (N.eqb_spec c 0); [exact E|].
    inv_bind E as a ha Ea. inv_bind E as m hm Em. ok_inv E.
    pose proof (G _ _ _ Ea) as Gb.
    rewrite (M r a ha HL Ea) by lia. cbn [bind].
    assert (Hd : (length (drop a r) < length r)%nat).
    { apply length_drop_lt; [lia|]. intros ->. change (len (@nil N)) with 0 in Gb. lia. }
    rewrite (IH f2 (N.pred c) (drop a r) m hm); [reflexivity|lia|lia|exact Em|lia].
Qed.

(* closed form over a fixed-size element: the fast paths *)
Definition fixedp (w : N) (r : bytes) : pres := if hasn r w then Ok (w, O) else Err E_TRUNC.

Lemma gelems_fixed w : 1 <= w -> forall f c r, (length r < f)%nat ->
  gelems f (fixedp w) c r = if hasn r (c * w) then Ok (c * w, O) else Err E_TRUNC.
Proof.
  intros Hw. induction f as [|f IH]; intros c r Hf; [lia|]. cbn [gelems].
  destruct (N.eqb_spec c 0) as [->|Hc].
  - rewrite N.mul_0_l, hasn_le. destruct (N.leb_spec 0 (len r)); [reflexivity|lia].
  - unfold fixedp at 1. rewrite !hasn_le.
    destruct (N.leb_spec w (len r)) as [Hl|Hl]; cbn [bind].
    + assert (Hd : (length (drop w r) < f)%nat).
      { unfold drop. rewrite skipn_length. unfold len in Hl. lia. }
      rewrite (IH (N.pred c) (drop w r) Hd). rewrite hasn_le, len_drop.
      replace (c * w) with (w + N.pred c * w) by nia.
      destruct (N.leb_spec (N.pred c * w) (len r - w)); destruct (N.leb_spec (w + N.pred c * w) (len r));
        try lia; cbn [bind]; reflexivity.
    + destruct (N.leb_spec (c * w) (len r)); [nia|reflexivity].
Qed.

Lemma gpair_fixed kw vw r : gpair (fixedp kw) (fixedp vw) r = fixedp (kw + vw) r.
Proof.
  unfold gpair, fixedp. rewrite !hasn_le.
  destruct (N.leb_spec kw (len r)); cbn [bind].
  - rewrite hasn_le, len_drop.
    destruct (N.leb_spec vw (len r - kw)); destruct (N.leb_spec (kw + vw) (len r)); try lia; reflexivity.
  - destruct (N.leb_spec (kw + vw) (len r)); [lia|reflexivity].
Qed.

(* ---------- gfields ---------- *)
Lemma gfields_bound f e : (forall ft, forall r n h, e ft r = Ok (n, h) -> n <= len r) ->
  forall r n h, gfields f e r = Ok (n, h) -> 1 <= n <= len r.
Proof.
  intros G. induction f as [|f IH]; intros r n h H; cbn [gfields] in H; [discriminate|].
  destruct r as [|ft r1]; [discriminate|].
  destruct (ft =? T_STOP). { ok_inv H. rewrite len_cons. lia. }
  rewrite hasn_le in H. destruct (N.leb_spec 2 (len r1)); [|discriminate].
  inv_bind H as a ha Ea. inv_bind H as m hm Em. ok_inv H.
  apply G in Ea. apply IH in Em. rewrite !len_drop in *. rewrite len_cons. lia.
Qed.
Lemma gfields_nocrash f e : (forall ft, nocrash (e ft)) -> forall r,
  (exists x, gfields f e r = Ok x) \/ (exists er, gfields f e r = Err er).
Proof.
  intros Nc. induction f as [|f IH]; intros r; cbn [gfields]; [right; eauto|].
  destruct r as [|ft r1]; [right; eauto|].
  destruct (ft =? T_STOP); [left; eauto|].
  destruct (hasn r1 2); [|right; eauto].
  destruct (Nc ft (drop 2 r1)) as [[[n h] E]|[er E]]; rewrite E; cbn [bind]; [|right; eauto].
  destruct (IH (drop n (drop 2 r1))) as [[[m h'] E']|[er E']]; rewrite E'; cbn [bind]; [left|right]; eauto.
Qed.
Lemma gfields_h H f e : (forall ft, hbound H (e ft)) -> forall r n h,
  gfields f e r = Ok (n, h) -> (h <= H)%nat.
Proof.
  intros Hb. induction f as [|f IH]; intros r n h E; cbn [gfields] in E; [discriminate|].
  destruct r as [|ft r1]; [discriminate|].
  destruct (ft =? T_STOP); [ok_inv E; lia|].
  destruct (hasn r1 2); [|discriminate].
  inv_bind E as a ha Ea. inv_bind E as m hm Em. ok_inv E. apply Hb in Ea. apply IH in Em. lia.
Qed.
Lemma gfields_mono (L : nat) (H : nat) e1 e2 :
  (forall ft r n h, (length r <= L)%nat -> e1 ft r = Ok (n, h) -> (h <= H)%nat -> e2 ft r = Ok (n, h)) ->
  forall f1 f2 r n h,
    (length r <= L)%nat -> (length r < f2)%nat ->
    gfields f1 e1 r = Ok (n, h) -> (h <= H)%nat -> gfields f2 e2 r = Ok (n, h).
Proof.
  intros M. induction f1 as [|f1 IH]; intros f2 r n h HL Hf E Hh; cbn [gfields] in E; [discriminate|].
  destruct f2 as [|f2]; [lia|]. cbn [gfields].
  destruct r as [|ft r1]; [discriminate|].
  destruct (ft =? T_STOP); [exact E|].
  destruct (hasn r1 2); [|discriminate].
  inv_bind E as a ha Ea. inv_bind E as m hm Em. ok_inv E.
  assert (Hd : (length (drop 2 r1) <= length r1)%nat) by (unfold drop; rewrite skipn_length; lia).
  cbn [length] in HL, Hf.
  rewrite (M ft (drop 2 r1) a ha) by (try exact Ea; lia). cbn [bind].
  assert (Hd2 : (length (drop a (drop 2 r1)) <= length r1)%nat) by (unfold drop; rewrite !skipn_length; lia).
  rewrite (IH f2 (drop a (drop 2 r1)) m hm); [reflexivity|lia|lia|exact Em|lia].
Qed.
