(* Proofs/GenCorollariesStrMap.v — headline theorems of C07 (Properties/C07.v: C07_get_spec, C07_len_spec,
   C07_item_spec's transfer, C07_get_unloaded) restated for StrMap[V].Get / Len / Item REGENERATED
   FROM THE GO SOURCE on every run (Gen/Funcs.v g_strmap_Get / _Len / _Item, tools/gotrans phase 3), by
   rewriting with Proofs/GenEquivStrMap.v.

   The state is the one LoadFromSlice produces (hand model [load]; the loader itself — append,
   sort.Sort, make — is outside the translated subset and stays tied by the correspondence run):
   for every value type V with any zero value zV, EVERY hash function, every admissible sort, every
   previous state, every probe string; the key bytes fit Go's int. *)
From GV Require Import Lib.Bytes Lib.Res Lib.GoSem Gen.Consts Gen.Funcs Model.StrMap Spec.StrMap
     Proofs.StrMapP Proofs.GenLib Proofs.GenLib3 Proofs.GenEquivStrMap.
From Coq Require Import ZifyN ZifyNat ZifyBool Permutation Sorted.
Open Scope N_scope.

Section C07.
  Variable V : Type.
  Variable zV : V.
  Variable hash : bytes -> N.
  Variable sort : list (item V) -> list (item V).
  Hypothesis sort_good : sort_ok sort.

  Lemma good_item_ok d u (e : item V) : glen_ok d -> good V hash d u e -> item_ok V e.
  Proof.
    intros Hd [Hk _]. unfold key_of, slice_range in Hk. unfold item_ok, glen_ok, glen in *.
    destruct (N.leb_spec (ioff e) (ioff e + isz e)); cbn [andb] in Hk; [|discriminate].
    destruct (N.leb_spec (ioff e + isz e) (len d)); [|discriminate]. lia.
  Qed.

  Lemma loaded_ok (st : strmap V) : loaded V hash st -> glen_ok (data st) ->
    len (items st) < two31 /\ Forall (item_ok V) (items st).
  Proof.
    intros L Hd. split; [apply (ld_n V hash st L)|].
    pose proof (ld_good V hash st L) as G. rewrite Forall_forall in *. intros e He.
    apply (good_item_ok (data st) (len (table st)) e Hd). apply G. exact He.
  Qed.

  (* C07_get_spec: every loaded key returns its value, every other string is absent *)
  Theorem g_C07_get_spec (st : strmap V) kk vv s fuel :
    length kk = length vv -> NoDup kk -> loadable kk ->
    let st' := fst (load hash sort st kk vv) in
    glen_ok (data st') -> (S (length kk) < fuel)%nat ->
    g_strmap_Get V zV (xhash hash) fuel false (data st') (gitems V st') (table st') s
    = Ok (data st', gitems V st', table st',
          match assoc kk vv s with Some v => v | None => zV end,
          match assoc kk vv s with Some _ => true | None => false end).
  Proof.
    intros Hlen Hnd Hld st' Hd Hf. destruct Hld as [Hsm Hn].
    destruct (load_ok V hash sort sort_good st kk vv Hlen Hsm Hn) as (st1 & Hl & L & Hp).
    assert (st' = st1) as E by (unfold st'; rewrite Hl; reflexivity). rewrite E in *. clear E st'.
    destruct (loaded_ok st1 L Hd) as [H1 H2].
    assert (length (items st1) = length kk) as Hlen'.
    { apply Permutation_length in Hp. rewrite map_length, combine_length in Hp. lia. }
    pose proof (g_strmap_Get_sim V zV hash st1 s fuel H1 H2 ltac:(lia)) as S.
    destruct (get_spec V hash sort sort_good st kk vv s Hlen Hnd (conj Hsm Hn)) as [_ G]. rewrite Hl in G. cbn [fst] in G.
    rewrite G in S. destruct (assoc kk vv s); exact S.
  Qed.

  (* C07_len_spec *)
  Theorem g_C07_len_spec (st : strmap V) kk vv :
    length kk = length vv -> loadable kk ->
    let st' := fst (load hash sort st kk vv) in
    g_strmap_Len V zV false (data st') (gitems V st') (table st') = Ok (data st', gitems V st', table st', Z.of_N (len kk)).
  Proof.
    intros Hlen Hld st'. rewrite g_strmap_Len_eq. unfold st'. rewrite (len_spec V hash sort sort_good st kk vv Hlen Hld). reflexivity.
  Qed.

  (* Item(i): whatever the hand model returns (C07_items_spec / C07_item_spec are about [item_at]) *)
  Theorem g_C07_item_transfer (st : strmap V) kk vv i k v :
    length kk = length vv -> loadable kk ->
    let st' := fst (load hash sort st kk vv) in
    glen_ok (data st') -> item_at st' i = Ok (k, v) ->
    g_strmap_Item V zV false (data st') (gitems V st') (table st') i = Ok (data st', gitems V st', table st', k, v).
  Proof.
    intros Hlen Hld st' Hd E. destruct Hld as [Hsm Hn].
    destruct (load_ok V hash sort sort_good st kk vv Hlen Hsm Hn) as (st1 & Hl & L & Hp).
    assert (st' = st1) as E' by (unfold st'; rewrite Hl; reflexivity). rewrite E' in *. clear E' st'.
    destruct (loaded_ok st1 L Hd) as [_ H2].
    pose proof (g_strmap_Item_sim V zV hash st1 i H2) as S. rewrite E in S. exact S.
  Qed.

  (* C07_get_unloaded: a map that was never loaded answers "absent" *)
  Theorem g_C07_get_unloaded s fuel :
    g_strmap_Get V zV (xhash hash) fuel false [] [] [] s = Ok ([], [], [], zV, false).
  Proof. reflexivity. Qed.
End C07.

(* non-vacuity: three keys, two of them colliding under the hash "first byte" (isort: the concrete
   stable sort of the model) *)
Example g_strmap_nonvacuous :
  let hash := fun (k : bytes) => match k with x :: _ => x | [] => 0 end in
  let st := fst (load hash (@isort Z) (@new_map Z) [[1; 1]; [2]; [1; 2]] [10%Z; 20%Z; 30%Z]) in
  g_strmap_Get Z 0%Z (xhash hash) 10 false (data st) (gitems Z st) (table st) [1; 2] = Ok (data st, gitems Z st, table st, 30%Z, true) /\
  g_strmap_Get Z 0%Z (xhash hash) 10 false (data st) (gitems Z st) (table st) [1; 3] = Ok (data st, gitems Z st, table st, 0%Z, false) /\
  g_strmap_Get Z 0%Z (xhash hash) 1 false (data st) (gitems Z st) (table st) [1; 3] = Err gfuel /\
  (exists w, g_strmap_Get Z 0%Z (xhash hash) 10 true [] [] [] [1] = Panic w) /\
  g_strmap_Len Z 0%Z false (data st) (gitems Z st) (table st) = Ok (data st, gitems Z st, table st, 3%Z) /\
  (exists w, g_strmap_Item Z 0%Z false (data st) (gitems Z st) (table st) 3 = Panic w).
Proof. vm_compute. repeat split; eexists; reflexivity. Qed.
