(* Proofs/BufWriterLog.v — facts about the Log specification itself (property C05): which error
   classes it can show, what a history without Flush leaves alone, and the flush-free reading:
   for a history in which no call fails, the sink log concatenated over all flushes followed by
   the unflushed rest is the one string of everything written ([stream_run]). *)
From GV Require Import Lib.Bytes Spec.Log Proofs.BufWriterLib.
From Coq Require Import ZifyN ZifyNat ZifyBool.
Open Scope N_scope.

Lemma log_run_cons' s o h :
  log_run s (o :: h) =
  (fst (log_run (fst (log_step s o)) h), snd (log_step s o) :: snd (log_run (fst (log_step s o)) h)).
Proof.
  cbn [log_run]. destruct (log_step s o) as [s1 ob]. cbn [fst snd].
  destruct (log_run s1 h) as [s2 obs']. reflexivity.
Qed.

(* ---------- error classes ---------- *)
Definition errv (s : lstate) : Prop := lerr s = None \/ lerr s = Some E_SINK.

Definition err_known (e : Z) : Prop := e = E_NONE \/ e = E_NEG \/ e = E_SINK \/ e = E_INVALID.

Lemma log_step_errs s o :
  errv s -> errv (fst (log_step s o)) /\ err_known (o_err (snd (log_step s o))).
Proof.
  unfold errv, err_known. intros H. destruct o as [n|bs|k off data| |]; cbn [log_step].
  - destruct (lerr s) as [e|] eqn:Ee.
    + cbn [fst snd o_err]. split; [now rewrite Ee|]. destruct H as [H|H]; [discriminate|]. inversion H. auto.
    + destruct (n <? 0)%Z; cbn [fst snd o_err log_append lerr]; auto.
  - destruct (lerr s) as [e|] eqn:Ee.
    + cbn [fst snd o_err]. split; [now rewrite Ee|]. destruct H as [H|H]; [discriminate|]. inversion H. auto.
    + cbn [fst snd o_err log_append lerr]. auto.
  - destruct (window_at s k) as [[a n]|]; [destruct (off + len data <=? n)|]; cbn [fst snd o_err set_L lerr]; auto.
  - destruct (lerr s) as [e|] eqn:Ee.
    + cbn [fst snd o_err]. split; [now rewrite Ee|]. destruct H as [H|H]; [discriminate|]. inversion H. auto.
    + destruct (lnil s); [cbn [fst snd o_err]; rewrite Ee; auto|].
      destruct (negb (lfake s) && (lcalls s + 1 =? lfail s)); cbn [fst snd o_err lerr]; auto.
  - cbn [fst snd o_err]. auto.
Qed.

Lemma log_run_errs h : forall s,
  errv s -> Forall (fun ob => err_known (o_err ob)) (snd (log_run s h)).
Proof.
  induction h as [|o h IH]; intros s H.
  - constructor.
  - rewrite log_run_cons'. cbn [snd]. destruct (log_step_errs s o H) as (H1 & H2).
    constructor; [exact H2 | apply IH, H1].
Qed.

(* a Flush that does not return nil leaves the error set; one that returns nil leaves nothing unflushed *)
Lemma log_flush_result s :
  let s' := fst (log_step s OFlush) in
  let ob := snd (log_step s OFlush) in
  (o_err ob <> E_NONE -> lerr s' = Some (o_err ob) /\ o_sink ob = None /\ lK s' = lK s) /\
  (o_err ob = E_NONE -> errv s -> lnil s' = true /\ lerr s' = None).
Proof.
  cbn [log_step]. destruct (lerr s) as [e|] eqn:Ee.
  - cbn [fst snd o_err o_sink]. split; [auto|]. intros -> [H|H]; [congruence|]. rewrite Ee in H. discriminate.
  - destruct (lnil s) eqn:En; [cbn [fst snd o_err o_sink]; split; [congruence | auto]|].
    destruct (negb (lfake s) && (lcalls s + 1 =? lfail s)); cbn [fst snd o_err o_sink lerr lnil lK].
    + split; [auto | discriminate].
    + split; [congruence | auto].
Qed.

(* ---------- what never changes / what only Flush changes ---------- *)
Lemma log_step_fake s o : lfake (fst (log_step s o)) = lfake s.
Proof.
  destruct o as [n|bs|k off data| |]; cbn [log_step].
  - destruct (lerr s); [reflexivity|]. destruct (n <? 0)%Z; reflexivity.
  - destruct (lerr s); reflexivity.
  - destruct (window_at s k) as [[a n]|]; [destruct (off + len data <=? n)|]; reflexivity.
  - destruct (lerr s); [reflexivity|]. destruct (lnil s); [reflexivity|].
    destruct (negb (lfake s) && (lcalls s + 1 =? lfail s)); reflexivity.
  - reflexivity.
Qed.

Lemma log_step_noflush s o :
  is_flush o = false ->
  let s' := fst (log_step s o) in
  lK s' = lK s /\ ltarget s' = ltarget s /\ lerr s' = lerr s /\ (lnil s = false -> lnil s' = false).
Proof.
  intros Hf. destruct o as [n|bs|k off data| |]; try discriminate; cbn [log_step].
  - destruct (lerr s) eqn:Ee; [cbn [fst]; rewrite ?Ee; auto|].
    destruct (n <? 0)%Z; cbn [fst log_append lK ltarget lerr lnil]; rewrite ?Ee; auto.
    repeat split; auto. intros ->. reflexivity.
  - destruct (lerr s) eqn:Ee; [cbn [fst]; rewrite ?Ee; auto|]. cbn [fst log_append lK ltarget lerr lnil].
    rewrite ?Ee. repeat split; auto. intros ->. reflexivity.
  - destruct (window_at s k) as [[a n]|]; [destruct (off + len data <=? n)|]; cbn [fst set_L lK ltarget lerr lnil]; auto.
  - cbn [fst]. auto.
Qed.

Lemma log_run_noflush h : forall s,
  forallb (fun o => negb (is_flush o)) h = true ->
  let s' := fst (log_run s h) in
  lK s' = lK s /\ ltarget s' = ltarget s /\ lerr s' = lerr s /\ (lnil s = false -> lnil s' = false).
Proof.
  induction h as [|o h IH]; intros s Hh.
  - cbn [log_run fst]. auto.
  - cbn [forallb] in Hh. apply andb_true_iff in Hh as (Ho & Hh). apply negb_true_iff in Ho.
    rewrite log_run_cons'. cbn [fst].
    destruct (log_step_noflush s o Ho) as (A1 & A2 & A3 & A4).
    destruct (IH (fst (log_step s o)) Hh) as (B1 & B2 & B3 & B4).
    repeat split; try congruence. auto.
Qed.

(* ---------- the flush-free reading ---------- *)
Definition shiftw (d : N) (w : N * N) : N * N := (fst w + d, snd w).

Record Flat (s : lstate) (t : sst) : Prop := mkFlat {
  fl_S : concat (lK s) ++ lL s = sS t;
  fl_W : exists older, sW t = map (shiftw (len (concat (lK s)))) (lwin s) ++ older /\ length older = lstale s;
  fl_err : lerr s = None }.

Lemma err_clean_invalid : ~ (E_INVALID = E_NONE \/ E_INVALID = E_NEG).
Proof. unfold E_INVALID, E_NONE, E_NEG. lia. Qed.

Lemma err_clean_sink : ~ (E_SINK = E_NONE \/ E_SINK = E_NEG).
Proof. unfold E_SINK, E_NONE, E_NEG. lia. Qed.

Lemma flat_step s t o :
  Flat s t ->
  (let e := o_err (snd (log_step s o)) in e = E_NONE \/ e = E_NEG) ->
  Flat (fst (log_step s o)) (stream_step t o).
Proof.
  intros [HS (older & HW & Hold) He] Hc. cbn zeta in Hc.
  assert (HlenS : len (sS t) = len (lL s) + len (concat (lK s))) by (rewrite <- HS, len_app; lia).
  destruct o as [n|bs|k off data| |]; cbn [log_step stream_step] in *.
  - rewrite He in *. destruct (n <? 0)%Z.
    + cbn [fst]. constructor; eauto.
    + cbn [fst]. constructor; unfold log_append; cbn [lK lL lwin lstale lerr sS sW].
      * rewrite app_assoc, HS. reflexivity.
      * exists older. split; [|exact Hold]. cbn [map app]. unfold shiftw at 1. cbn [fst snd].
        rewrite HW, HlenS. reflexivity.
      * exact He.
  - rewrite He in *. cbn [fst]. constructor; unfold log_append; cbn [lK lL lwin lstale lerr sS sW app].
    + rewrite app_assoc, HS. reflexivity.
    + exists older. split; [exact HW | exact Hold].
    + exact He.
  - unfold window_at in *. rewrite HW, rev_app_distr.
    destruct (Nat.ltb_spec k (lstale s)) as [Hlt|Hge].
    { cbn [snd o_err] in Hc. exfalso. exact (err_clean_invalid Hc). }
    rewrite nth_error_app2 by (rewrite rev_length; lia). rewrite rev_length, Hold.
    rewrite <- map_rev, nth_error_map.
    destruct (nth_error (rev (lwin s)) (k - lstale s)) as [[a n]|]; cbn [option_map].
    2:{ cbn [snd o_err] in Hc. exfalso. exact (err_clean_invalid Hc). }
    unfold shiftw at 1. cbn [fst snd].
    destruct (off + len data <=? n).
    2:{ cbn [snd o_err] in Hc. exfalso. exact (err_clean_invalid Hc). }
    cbn [fst]. constructor; unfold set_L; cbn [lK lL lwin lstale lerr sS sW].
    + rewrite <- HS. rewrite psplice_app_r by lia. f_equal. f_equal. lia.
    + exists older. split; [first [exact HW | reflexivity] | exact Hold].
    + exact He.
  - rewrite He in *. destruct (lnil s).
    + cbn [fst]. constructor; eauto.
    + destruct (negb (lfake s) && (lcalls s + 1 =? lfail s)).
      * cbn [snd o_err] in Hc. exfalso. exact (err_clean_sink Hc).
      * cbn [fst]. constructor; cbn [lK lL lwin lstale lerr].
        -- rewrite concat_app. cbn [concat]. rewrite !app_nil_r. exact HS.
        -- exists (map (shiftw (len (concat (lK s)))) (lwin s) ++ older). split; [exact HW|].
           rewrite app_length, map_length. lia.
        -- reflexivity.
  - cbn [fst]. constructor; eauto.
Qed.

Lemma clean_cons {X} (ob : obs X) os : clean (ob :: os) <-> (o_err ob = E_NONE \/ o_err ob = E_NEG) /\ clean os.
Proof. unfold clean. split; [intros H; inversion H; auto | intros [H1 H2]; constructor; auto]. Qed.

Lemma flat_run h : forall s t,
  Flat s t -> clean (snd (log_run s h)) -> Flat (fst (log_run s h)) (stream_run t h).
Proof.
  induction h as [|o h IH]; intros s t HF Hc.
  - exact HF.
  - rewrite log_run_cons' in *. cbn [fst snd] in *. apply clean_cons in Hc as (Hc1 & Hc2).
    unfold stream_run. cbn [fold_left]. apply IH; [|exact Hc2]. now apply flat_step.
Qed.

Lemma flat_init_default failk : Flat (log_new failk) (mksst [] []).
Proof. constructor; cbn; auto. exists []. auto. Qed.

Lemma flat_init_bytes_nil : Flat (log_new_bytes None) (mksst [] []).
Proof. constructor; cbn; auto. exists []. auto. Qed.

Lemma flat_init_bytes b : Flat (log_new_bytes (Some b)) (mksst (map Some b) []).
Proof. constructor; cbn; auto. exists []. auto. Qed.

(* a stream that starts with a prefix P: the prefix stays, everything else is shifted *)
Lemma stream_step_prefix P S W o :
  let r := stream_step (mksst S W) o in
  stream_step (mksst (P ++ S) (map (shiftw (len P)) W)) o = mksst (P ++ sS r) (map (shiftw (len P)) (sW r)).
Proof.
  destruct o as [n|bs|k off data| |]; cbn [stream_step sS sW]; try reflexivity.
  - destruct (n <? 0)%Z; cbn [sS sW]; [reflexivity|].
    rewrite <- app_assoc. cbn [map]. unfold shiftw at 2. cbn [fst snd]. rewrite len_app.
    rewrite (N.add_comm (len P)). reflexivity.
  - now rewrite <- app_assoc.
  - rewrite <- map_rev, nth_error_map.
    destruct (nth_error (rev W) k) as [[a n]|]; cbn [option_map]; [|reflexivity].
    unfold shiftw at 1. cbn [fst snd].
    destruct (off + len data <=? n); cbn [sS sW]; [|reflexivity].
    rewrite psplice_app_r by lia. do 3 f_equal. lia.
Qed.

Lemma stream_run_prefix P h : forall S W,
  let r := stream_run (mksst S W) h in
  stream_run (mksst (P ++ S) (map (shiftw (len P)) W)) h = mksst (P ++ sS r) (map (shiftw (len P)) (sW r)).
Proof.
  induction h as [|o h IH]; intros S W; cbn zeta.
  - reflexivity.
  - unfold stream_run. cbn [fold_left]. fold (stream_run (stream_step (mksst S W) o) h).
    rewrite stream_step_prefix. cbn zeta.
    destruct (stream_step (mksst S W) o) as [S1 W1] eqn:E1. cbn [sS sW].
    apply (IH S1 W1).
Qed.

Lemma stream_run_initial b h : sS (stream_run (mksst b []) h) = b ++ written h.
Proof.
  pose proof (stream_run_prefix b h [] []) as H. cbn zeta in H. cbn [map] in H. rewrite app_nil_r in H.
  rewrite H. reflexivity.
Qed.

(* ---------- matches ---------- *)
Lemma matches_concat ss bs : Forall2 matches ss bs -> matches (concat ss) (concat bs).
Proof. intros H. induction H; cbn [concat]; [constructor | now apply matches_app]. Qed.

Lemma matches_determined s b : matches s b -> determined s = true -> s = map Some b.
Proof.
  intros H. induction H as [|o x s b Ho H IH]; cbn [determined forallb map]; [reflexivity|].
  intros Hd. apply andb_true_iff in Hd as (H1 & H2).
  destruct Ho as [->| ->]; [discriminate|]. f_equal. now apply IH.
Qed.

Lemma matches_nil_l b : matches [] b -> b = [].
Proof. intros H. inversion H. reflexivity. Qed.

Lemma matches_nil_r s : matches s [] -> s = [].
Proof. intros H. inversion H. reflexivity. Qed.

Lemma obs_okb_spec sp im : obs_okb sp im = true <-> obs_ok sp im.
Proof.
  unfold obs_okb, obs_ok. rewrite !andb_true_iff, Z.eqb_eq, N.eqb_eq.
  destruct (o_sink sp) as [x|], (o_sink im) as [y|]; try rewrite matches_b_spec; intuition congruence.
Qed.
