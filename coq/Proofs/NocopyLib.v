(* Proofs/NocopyLib.v — list lemmas and the algebra of the abstract splice [ins] (C15). *)
From GV Require Import Lib.Bytes Lib.Res Model.Binary Spec.Wire Model.Nocopy Spec.FastSpec.
From Coq Require Import ZifyN ZifyNat ZifyBool.
Open Scope N_scope.

(* ---------- take / drop over append ---------- *)
Lemma drop_app_le {A} n (a b : list A) : n <= len a -> drop n (a ++ b) = drop n a ++ b.
Proof.
  unfold drop, len. intros H. rewrite skipn_app.
  replace (N.to_nat n - length a)%nat with O by lia. reflexivity.
Qed.

Lemma take_app_le {A} n (a b : list A) : n <= len a -> take n (a ++ b) = take n a.
Proof.
  unfold take, len. intros H. rewrite firstn_app.
  replace (N.to_nat n - length a)%nat with O by lia. cbn [firstn]. now rewrite app_nil_r.
Qed.

Lemma take_app_ge {A} n (a b : list A) : len a <= n -> take n (a ++ b) = a ++ take (n - len a) b.
Proof.
  unfold take, len. intros H. rewrite firstn_app.
  rewrite firstn_all2 by lia. f_equal. f_equal. lia.
Qed.

Lemma take_all {A} n (a : list A) : len a <= n -> take n a = a.
Proof. unfold take, len. intros H. apply firstn_all2. lia. Qed.

Lemma drop_all {A} n (a : list A) : len a <= n -> drop n a = [].
Proof. unfold drop, len. intros H. apply skipn_all2. lia. Qed.

Lemma len_drop {A} n (l : list A) : len (drop n l) = len l - n.
Proof. unfold drop, len. rewrite skipn_length. lia. Qed.

Lemma len_take {A} n (l : list A) : len (take n l) = N.min n (len l).
Proof. unfold take, len. rewrite firstn_length. lia. Qed.

Lemma len_repeat {A} (x : A) n : len (repeat x n) = N.of_nat n.
Proof. unfold len. now rewrite repeat_length. Qed.

(* ---------- well-formed piece lists: positions non-decreasing, within the linear part ---------- *)
Fixpoint wfp (start L : N) (pcs : list (bytes * N)) : Prop :=
  match pcs with
  | [] => start <= L
  | (_, pos) :: r => start <= pos /\ wfp pos L r
  end.

Lemma wfp_le start L pcs : wfp start L pcs -> start <= L.
Proof.
  revert start; induction pcs as [|[w pos] r IH]; intros start H; cbn [wfp] in H; [exact H|].
  destruct H as [H1 H2]. specialize (IH _ H2). lia.
Qed.

Lemma wfp_mono start L L' pcs : L <= L' -> wfp start L pcs -> wfp start L' pcs.
Proof.
  intros HL. revert start; induction pcs as [|[w pos] r IH]; intros start H; cbn [wfp] in *; [lia|].
  destruct H as [H1 H2]. split; [exact H1|now apply IH].
Qed.

Lemma wfp_snoc start L pcs w : wfp start L pcs -> wfp start L (pcs ++ [(w, L)]).
Proof.
  revert start; induction pcs as [|[w' pos] r IH]; intros start H; cbn [wfp app] in *.
  - split; [exact H|lia].
  - destruct H as [H1 H2]. split; [exact H1|now apply IH].
Qed.

(* appending to the linear part appends to the stream *)
Lemma ins_app lin x start pcs :
  wfp start (len lin) pcs -> ins (lin ++ x) start pcs = ins lin start pcs ++ x.
Proof.
  revert start; induction pcs as [|[w pos] r IH]; intros start H; cbn [wfp ins] in *.
  - now apply drop_app_le.
  - destruct H as [H1 H2]. pose proof (wfp_le _ _ _ H2) as H3.
    rewrite drop_app_le by lia.
    rewrite take_app_le by (rewrite len_drop; lia).
    rewrite IH by exact H2. now rewrite <- !app_assoc.
Qed.

(* a piece inserted at the current end of the linear part is appended to the stream *)
Lemma ins_snoc lin w start pcs :
  wfp start (len lin) pcs -> ins lin start (pcs ++ [(w, len lin)]) = ins lin start pcs ++ w.
Proof.
  revert start; induction pcs as [|[w' pos] r IH]; intros start H; cbn [wfp ins app] in *.
  - rewrite take_all by (rewrite len_drop; lia).
    rewrite (drop_all (len lin) lin) by lia. now rewrite app_nil_r.
  - destruct H as [H1 H2]. rewrite IH by exact H2. now rewrite <- !app_assoc.
Qed.

Lemma pieces_len_app a b : pieces_len (a ++ b) = pieces_len a + pieces_len b.
Proof.
  unfold pieces_len. induction a as [|x a IH]; cbn [fold_right app]; [lia|]. rewrite IH. lia.
Qed.

(* pieces by linear position -> WriteDirect record (remainCap = T - position) *)
Definition rcs (T : N) (pcs : list (bytes * N)) : list dpair :=
  map (fun p => (fst p, T - snd p)) pcs.

Lemma rcs_app T a b : rcs T (a ++ b) = rcs T a ++ rcs T b.
Proof. unfold rcs. apply map_app. Qed.

Lemma pieces_len_rcs T pcs : pieces_len (rcs T pcs) = pieces_len pcs.
Proof.
  unfold pieces_len, rcs. induction pcs as [|x r IH]; cbn [map fold_right fst]; [reflexivity|].
  now rewrite IH.
Qed.

Lemma positions_rcs T L pcs start :
  wfp start L pcs -> L <= T -> positions T (rcs T pcs) = pcs.
Proof.
  intros H HL. revert start H; induction pcs as [|[w pos] r IH]; intros start H; cbn [wfp] in *.
  - reflexivity.
  - destruct H as [H1 H2]. pose proof (wfp_le _ _ _ H2).
    unfold positions, rcs in *. cbn [map fst snd]. rewrite (IH _ H2).
    f_equal. f_equal. lia.
Qed.

(* ---------- the reference splicer computes [ins] ---------- *)
Lemma splice_loop_ins lin tail pcs start ret :
  wfp start (len lin) pcs ->
  exists ret' start',
    splice_loop (lin ++ tail) (rcs (len (lin ++ tail)) pcs) start ret = Ok (ret', start') /\
    ret' ++ drop start' lin = ret ++ ins lin start pcs /\
    start' <= len lin /\ start <= start' /\
    len ret' + start = len ret + start' + pieces_len pcs.
Proof.
  revert start ret; induction pcs as [|[w pos] r IH]; intros start ret H; cbn [wfp] in H.
  - exists ret, start. cbn [rcs map splice_loop ins pieces_len fold_right]. repeat split; lia.
  - destruct H as [H1 H2]. pose proof (wfp_le _ _ _ H2) as H3.
    cbn [rcs map splice_loop fst snd]. fold (rcs (len (lin ++ tail)) r).
    rewrite len_app.
    destruct (N.ltb_spec (len lin + len tail) (len lin + len tail - pos)); [lia|].
    replace (len lin + len tail - (len lin + len tail - pos)) with pos by lia.
    unfold slice_range. rewrite len_app.
    destruct (N.leb_spec start pos); [|lia].
    destruct (N.leb_spec pos (len lin + len tail)); [|lia].
    cbn [andb bind].
    rewrite drop_app_le by lia. rewrite take_app_le by (rewrite len_drop; lia).
    rewrite <- len_app.
    destruct (IH pos (ret ++ take (pos - start) (drop start lin) ++ w) H2)
      as (ret' & start' & E & E1 & E2 & E3 & E4).
    exists ret', start'. split; [exact E|]. split.
    + rewrite E1. cbn [ins]. now rewrite <- !app_assoc.
    + split; [exact E2|]. split; [lia|].
      rewrite !len_app, len_take, len_drop in E4.
      unfold pieces_len in *. cbn [fold_right fst]. lia.
Qed.

Lemma splice_ins lin tail pcs :
  wfp 0 (len lin) pcs -> pieces_len pcs <= len tail ->
  splice (lin ++ tail) (rcs (len (lin ++ tail)) pcs) =
  Ok (ins lin 0 pcs ++ take (len tail - pieces_len pcs) tail).
Proof.
  intros H Hroom.
  destruct (splice_loop_ins lin tail pcs 0 [] H) as (ret' & start' & E & E1 & E2 & _ & E4).
  unfold splice. rewrite E. cbn [bind].
  cbn [app] in E1. change (len (@nil N)) with 0 in E4.
  rewrite len_app.
  destruct (Z.ltb_spec (Z.of_N start' + Z.of_N (len lin + len tail) - Z.of_N (len ret')) 0); [lia|].
  replace (Z.to_N (Z.of_N start' + Z.of_N (len lin + len tail) - Z.of_N (len ret')))
    with (len lin + len tail - pieces_len pcs) by lia.
  unfold slice_range. rewrite len_app.
  destruct (N.leb_spec start' (len lin + len tail - pieces_len pcs)); [|lia].
  destruct (N.leb_spec (len lin + len tail - pieces_len pcs) (len lin + len tail)); [|lia].
  cbn [andb bind].
  rewrite drop_app_le by lia.
  rewrite take_app_ge by (rewrite len_drop; lia).
  rewrite len_drop.
  replace (len lin + len tail - pieces_len pcs - start' - (len lin - start')) with (len tail - pieces_len pcs) by lia.
  rewrite app_assoc, E1.
  rewrite !len_app, len_take.
  assert (Hl : len (ins lin 0 pcs) = len ret' + (len lin - start')).
  { rewrite <- E1, len_app, len_drop. reflexivity. }
  rewrite Hl.
  destruct (N.eqb_spec (len ret' + (len lin - start') + N.min (len tail - pieces_len pcs) (len tail)) (len lin + len tail)); [reflexivity|lia].
Qed.
