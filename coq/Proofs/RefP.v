(* Proofs/RefP.v — the bounded reference parser [rp]/[refparse] against the unbounded grammar
   [gp]/[gparse]: soundness (never a different extent, never accepts what the grammar rejects,
   height <= budget), completeness below the budget, rejection above it.

   Both parsers are instances of one "level" combinator [lvl] (one container level given the
   parsers of its members), so every structural fact is proved once for [lvl]. *)
From GV Require Import Lib.Bytes Lib.Res Spec.ThriftGrammar Spec.RefParse Proofs.RefLib.
From Coq Require Import ZifyN ZifyNat ZifyBool Lia.
Open Scope N_scope.

(* one level: [es ft] parses a struct member, [em kt vt] a map entry, [el et] a list element *)
Definition lvl (fu : nat) (es : N -> bytes -> pres) (em : N -> N -> bytes -> pres)
           (el : N -> bytes -> pres) (t : N) (r : bytes) : pres :=
  match kind_of t with
  | KFixed w => if hasn r w then Ok (w, O) else Err E_TRUNC
  | KString => gstring r
  | KStruct => do (n, h) <- gfields fu es r; Ok (n, S h)
  | KMap =>
    match r with
    | kt :: vt :: r2 =>
      if hasn r2 4 then
        let c := unbe (take 4 r2) in
        if two31 <=? c then Err E_NEGSIZE else
        do (n, h) <- gelems fu (em kt vt) c (drop 4 r2);
        Ok (6 + n, S h)
      else Err E_TRUNC
    | _ => Err E_TRUNC
    end
  | KList =>
    match r with
    | et :: r1 =>
      if hasn r1 4 then
        let c := unbe (take 4 r1) in
        if two31 <=? c then Err E_NEGSIZE else
        do (n, h) <- gelems fu (el et) c (drop 4 r1);
        Ok (5 + n, S h)
      else Err E_TRUNC
    | [] => Err E_TRUNC
    end
  | KBad => Err E_BADTYPE
  end.

Definition rp_es (i : inl) (rec : N -> bytes -> pres) := member (in_struct_fixed i) (in_struct_str i) rec.
Definition rp_m (i : inl) (rec : N -> bytes -> pres) (kt vt : N) :=
  member ((is_fixed kt && is_fixed vt) || in_map_fixed i) (in_map_str i) rec.
Definition rp_em (i : inl) (rec : N -> bytes -> pres) (kt vt : N) :=
  gpair (rp_m i rec kt vt kt) (rp_m i rec kt vt vt).
Definition rp_el (i : inl) (rec : N -> bytes -> pres) := member true (in_list_str i) rec.

Lemma rp_S i d t r :
  rp i (S d) t r = lvl (S (length r)) (rp_es i (rp i d)) (rp_em i (rp i d)) (rp_el i (rp i d)) t r.
Proof.
  cbn [rp]. unfold lvl, leaf. destruct (kind_of t) eqn:K; try reflexivity.
Qed.
Lemma gp_S f t r :
  gp (S f) t r = lvl (S f) (gp f) (fun kt vt => gpair (gp f kt) (gp f vt)) (gp f) t r.
Proof. cbn [gp]. unfold lvl. destruct (kind_of t); reflexivity. Qed.

Tactic Notation "inv_bind" hyp(H) "as" ident(n) ident(h) ident(E) :=
  match type of H with
  | bind ?x _ = _ =>
    destruct x as [[n h]| ? | ? |] eqn:E; cbn [bind] in H; try discriminate H
  end.

(* ---------- structural facts about one level ---------- *)
Section Level.
  Variables (fu : nat) (es : N -> bytes -> pres) (em : N -> N -> bytes -> pres) (el : N -> bytes -> pres).

  Lemma lvl_good :
    (forall ft, good (es ft)) -> (forall kt vt, good (em kt vt)) -> (forall et, good (el et)) ->
    forall t, good (lvl fu es em el t).
  Proof.
    intros Gs Gm Gl t r n h H. unfold lvl in H. destruct (kind_of t) eqn:K.
    - rewrite hasn_le in H. destruct (N.leb_spec width (len r)); [|discriminate].
      ok_inv H. apply kind_fixed_pos in K. lia.
    - eapply gstring_good; eauto.
    - inv_bind H as a ha Ea. ok_inv H.
      eapply gfields_bound in Ea; [exact Ea|]. intros ft r0 n0 h0 E0. apply Gs in E0. lia.
    - destruct r as [|kt [|vt r2]]; try discriminate.
      rewrite hasn_le in H. destruct (N.leb_spec 4 (len r2)); [|discriminate].
      destruct (two31 <=? _); [discriminate|].
      inv_bind H as a ha Ea. ok_inv H.
      apply gelems_bound in Ea; [|apply Gm]. rewrite len_drop in Ea. rewrite !len_cons. lia.
    - destruct r as [|et r1]; try discriminate.
      rewrite hasn_le in H. destruct (N.leb_spec 4 (len r1)); [|discriminate].
      destruct (two31 <=? _); [discriminate|].
      inv_bind H as a ha Ea. ok_inv H.
      apply gelems_bound in Ea; [|apply Gl]. rewrite len_drop in Ea. rewrite !len_cons. lia.
    - discriminate.
  Qed.

  Lemma lvl_nocrash :
    (forall ft, nocrash (es ft)) -> (forall kt vt, nocrash (em kt vt)) -> (forall et, nocrash (el et)) ->
    forall t, nocrash (lvl fu es em el t).
  Proof.
    intros Ns Nm Nl t r. unfold lvl. destruct (kind_of t) eqn:K.
    - destruct (hasn r width); [left|right]; eauto.
    - apply gstring_nocrash.
    - destruct (gfields_nocrash fu es Ns r) as [[[n h] E]|[e E]]; rewrite E; cbn [bind]; [left|right]; eauto.
    - destruct r as [|kt [|vt r2]]; try (right; eauto; fail).
      destruct (hasn r2 4); [|right; eauto]. cbv zeta.
      destruct (two31 <=? _); [right; eauto|].
      destruct (gelems_nocrash fu (em kt vt) (Nm kt vt) (unbe (take 4 r2)) (drop 4 r2)) as [[[n h] E]|[e E]];
        rewrite E; cbn [bind]; [left|right]; eauto.
    - destruct r as [|et r1]; try (right; eauto; fail).
      destruct (hasn r1 4); [|right; eauto]. cbv zeta.
      destruct (two31 <=? _); [right; eauto|].
      destruct (gelems_nocrash fu (el et) (Nl et) (unbe (take 4 r1)) (drop 4 r1)) as [[[n h] E]|[e E]];
        rewrite E; cbn [bind]; [left|right]; eauto.
    - right; eauto.
  Qed.

  Lemma lvl_h H :
    (forall ft, hbound H (es ft)) -> (forall kt vt, hbound H (em kt vt)) -> (forall et, hbound H (el et)) ->
    forall t, hbound (S H) (lvl fu es em el t).
  Proof.
    intros Hs Hm Hl t r n h E. unfold lvl in E. destruct (kind_of t) eqn:K.
    - destruct (hasn r width); [|discriminate]. ok_inv E. lia.
    - apply gstring_h in E. lia.
    - inv_bind E as a ha Ea. ok_inv E. apply (gfields_h H) in Ea; [lia|exact Hs].
    - destruct r as [|kt [|vt r2]]; try discriminate.
      destruct (hasn r2 4); [|discriminate]. cbv zeta in E.
      destruct (two31 <=? _); [discriminate|].
      inv_bind E as a ha Ea. ok_inv E. apply (gelems_h H) in Ea; [lia|apply Hm].
    - destruct r as [|et r1]; try discriminate.
      destruct (hasn r1 4); [|discriminate]. cbv zeta in E.
      destruct (two31 <=? _); [discriminate|].
      inv_bind E as a ha Ea. ok_inv E. apply (gelems_h H) in Ea; [lia|apply Hl].
    - discriminate.
  Qed.
End Level.

(* monotone in the member parsers (on strictly shorter inputs, for heights <= H); any fuel
   above the input length is enough *)
Lemma lvl_mono (H : nat) f1 f2 es1 es2 em1 em2 el1 el2 t r n h :
  (forall ft r' n h, (length r' < length r)%nat -> es1 ft r' = Ok (n, h) -> (h <= H)%nat -> es2 ft r' = Ok (n, h)) ->
  (forall kt vt r' n h, (length r' < length r)%nat -> em1 kt vt r' = Ok (n, h) -> (h <= H)%nat -> em2 kt vt r' = Ok (n, h)) ->
  (forall et r' n h, (length r' < length r)%nat -> el1 et r' = Ok (n, h) -> (h <= H)%nat -> el2 et r' = Ok (n, h)) ->
  (forall kt vt, good (em1 kt vt)) -> (forall et, good (el1 et)) ->
  (length r < f2)%nat ->
  lvl f1 es1 em1 el1 t r = Ok (n, h) -> (h <= S H)%nat -> lvl f2 es2 em2 el2 t r = Ok (n, h).
Proof.
  intros Ms Mm Ml Gm Gl Hf E Hh. unfold lvl in *. destruct (kind_of t) eqn:K; try exact E.
  - inv_bind E as a ha Ea. ok_inv E.
    destruct r as [|x r1]. { destruct f1; cbn [gfields] in Ea; discriminate. }
    (* gfields looks at members only after the 3-byte header: all on inputs shorter than r *)
    destruct f1 as [|f1]; [discriminate|]. destruct f2 as [|f2]; [lia|].
    cbn [gfields] in Ea |- *.
    destruct (x =? T_STOP). { rewrite Ea. reflexivity. }
    destruct (hasn r1 2); [|discriminate].
    inv_bind Ea as b hb Eb. inv_bind Ea as m hm Em. ok_inv Ea.
    assert (Hd : (length (drop 2 r1) <= length r1)%nat) by (unfold drop; rewrite skipn_length; lia).
    cbn [length] in Ms, Hf.
    rewrite (Ms x (drop 2 r1) b hb) by (try exact Eb; lia). cbn [bind].
    assert (Hd2 : (length (drop b (drop 2 r1)) <= length r1)%nat) by (unfold drop; rewrite !skipn_length; lia).
    rewrite (gfields_mono (length r1) H es1 es2) with (f1 := f1) (n := m) (h := hm);
      [reflexivity| |lia|lia|exact Em|lia].
    intros ft r' n' h' Hl' E' Hh'. apply Ms; [lia|exact E'|exact Hh'].
  - destruct r as [|kt [|vt r2]]; try discriminate.
    destruct (hasn r2 4); [|exact E]. cbv zeta in *.
    destruct (two31 <=? _); [exact E|].
    inv_bind E as a ha Ea. ok_inv E.
    assert (Hd : (length (drop 4 r2) <= length r2)%nat) by (unfold drop; rewrite skipn_length; lia).
    cbn [length] in Mm, Hf.
    rewrite (gelems_mono (length r2) H (em1 kt vt) (em2 kt vt)) with (f1 := f1) (n := a) (h := ha);
      [reflexivity|apply Gm| |lia|lia|exact Ea|lia].
    intros r' n' h' Hl' E' Hh'. apply Mm; [lia|exact E'|exact Hh'].
  - destruct r as [|et r1]; try discriminate.
    destruct (hasn r1 4); [|exact E]. cbv zeta in *.
    destruct (two31 <=? _); [exact E|].
    inv_bind E as a ha Ea. ok_inv E.
    assert (Hd : (length (drop 4 r1) <= length r1)%nat) by (unfold drop; rewrite skipn_length; lia).
    cbn [length] in Ml, Hf.
    rewrite (gelems_mono (length r1) H (el1 et) (el2 et)) with (f1 := f1) (n := a) (h := ha);
      [reflexivity|apply Gl| |lia|lia|exact Ea|lia].
    intros r' n' h' Hl' E' Hh'. apply Ml; [lia|exact E'|exact Hh'].
Qed.

Lemma gpair_mono (P : bytes -> Prop) (H : nat) a1 a2 b1 b2 :
  (forall r n h, P r -> a1 r = Ok (n, h) -> (h <= H)%nat -> a2 r = Ok (n, h)) ->
  (forall r n h, P r -> b1 r = Ok (n, h) -> (h <= H)%nat -> b2 r = Ok (n, h)) ->
  (forall r n, P r -> P (drop n r)) ->
  forall r n h, P r -> gpair a1 b1 r = Ok (n, h) -> (h <= H)%nat -> gpair a2 b2 r = Ok (n, h).
Proof.
  intros Ma Mb Pd r n h Pr E Hh. unfold gpair in *.
  inv_bind E as a ha Ea. inv_bind E as b hb Eb. ok_inv E.
  rewrite (Ma r a ha Pr Ea) by lia. cbn [bind].
  rewrite (Mb (drop a r) b hb (Pd r a Pr) Eb) by lia. reflexivity.
Qed.

(* ---------- members ---------- *)
Lemma member_good fx st rec t : good (rec t) -> good (member fx st rec t).
Proof. intros G. unfold member. destruct (_ || _); [apply leaf_good|exact G]. Qed.
Lemma member_nocrash fx st rec t : nocrash (rec t) -> nocrash (member fx st rec t).
Proof. intros G. unfold member. destruct (_ || _); [apply leaf_nocrash|exact G]. Qed.
Lemma member_h H fx st rec t : hbound H (rec t) -> hbound H (member fx st rec t).
Proof.
  intros G. unfold member. destruct (_ || _); [|exact G].
  intros r n h E. apply leaf_h in E. lia.
Qed.

(* ---------- rp ---------- *)
Lemma rp_good i d : forall t, good (rp i d t).
Proof.
  induction d as [|d IH]; intros t r n h E; [discriminate|].
  rewrite rp_S in E. revert E. apply lvl_good.
  - intros ft. apply member_good, IH.
  - intros kt vt. apply gpair_good; apply member_good, IH.
  - intros et. apply member_good, IH.
Qed.
Lemma rp_nocrash i d : forall t, nocrash (rp i d t).
Proof.
  induction d as [|d IH]; intros t r; [right; eexists; reflexivity|].
  rewrite rp_S. apply lvl_nocrash.
  - intros ft. apply member_nocrash, IH.
  - intros kt vt. apply gpair_nocrash; apply member_nocrash, IH.
  - intros et. apply member_nocrash, IH.
Qed.
Lemma rp_h i d : forall t, hbound d (rp i d t).
Proof.
  induction d as [|d IH]; intros t r n h E; [discriminate|].
  rewrite rp_S in E. revert E. apply lvl_h.
  - intros ft. apply member_h, IH.
  - intros kt vt. apply gpair_h; apply member_h, IH.
  - intros et. apply member_h, IH.
Qed.

(* ---------- gp ---------- *)
Lemma gp_good f : forall t, good (gp f t).
Proof.
  induction f as [|f IH]; intros t r n h E; [discriminate|].
  rewrite gp_S in E. revert E. apply lvl_good.
  - exact IH.
  - intros kt vt. apply gpair_good; apply IH.
  - exact IH.
Qed.

Lemma gp_leaf f t r x : (is_fixed t || is_str t) = true -> gp f t r = Ok x -> leaf t r = Ok x.
Proof.
  intros L E. destruct f as [|f]; [discriminate|].
  cbn [gp] in E. unfold leaf, is_fixed, is_str in *. destruct (kind_of t); try discriminate; exact E.
Qed.
Lemma leaf_gp f t r x : (is_fixed t || is_str t) = true -> leaf t r = Ok x -> gp (S f) t r = Ok x.
Proof.
  intros L E. cbn [gp]. unfold leaf, is_fixed, is_str in *. destruct (kind_of t); try discriminate; exact E.
Qed.
Lemma member_leaf_cond fx st t : ((fx && is_fixed t) || (st && is_str t)) = true -> (is_fixed t || is_str t) = true.
Proof. destruct fx, st, (is_fixed t), (is_str t); cbn; congruence. Qed.

(* soundness: what the bounded parser accepts, the grammar accepts with the same extent and height *)
Lemma rp_sound i d : forall t r n h f, (length r < f)%nat -> rp i d t r = Ok (n, h) -> gp f t r = Ok (n, h).
Proof.
  induction d as [|d IH]; intros t r n h f Hf E; [discriminate|].
  destruct f as [|f]; [lia|]. rewrite rp_S in E. rewrite gp_S.
  assert (Mem : forall fx st ft r' n' h', (length r' < length r)%nat ->
            member fx st (rp i d) ft r' = Ok (n', h') -> gp f ft r' = Ok (n', h')).
  { intros fx st ft r' n' h' Hl E'. unfold member in E'.
    destruct (_ || _) eqn:C.
    - destruct f as [|f]; [lia|]. apply leaf_gp; [eapply member_leaf_cond; eauto|exact E'].
    - apply IH; [lia|exact E']. }
  eapply (lvl_mono h) with (f1 := S (length r)); try exact E; try lia.
  - intros ft r' n' h' Hl E' _. eapply Mem; eauto.
  - intros kt vt r' n' h' Hl E' Hh. unfold rp_em in E'.
    eapply (gpair_mono (fun x => (length x < length r)%nat) h); try exact E'; try exact Hh; try exact Hl.
    + intros r0 n0 h0 P0 E0 _. eapply Mem; eauto.
    + intros r0 n0 h0 P0 E0 _. eapply Mem; eauto.
    + intros r0 n0 P0. unfold drop. rewrite skipn_length. lia.
  - intros et r' n' h' Hl E' _. eapply Mem; eauto.
  - intros kt vt. apply gpair_good; apply member_good, rp_good.
  - intros et. apply member_good, rp_good.
Qed.

(* completeness below the budget *)
Lemma rp_complete i : forall f d t r n h, gp f t r = Ok (n, h) -> (h < d)%nat -> rp i d t r = Ok (n, h).
Proof.
  induction f as [|f IH]; intros d t r n h E Hh; [discriminate|].
  destruct d as [|d]; [lia|]. rewrite gp_S in E. rewrite rp_S.
  assert (Mem : forall fx st ft r' n' h', gp f ft r' = Ok (n', h') -> (h' < d)%nat ->
            member fx st (rp i d) ft r' = Ok (n', h')).
  { intros fx st ft r' n' h' E' Hh'. unfold member. destruct (_ || _) eqn:C.
    - eapply gp_leaf; [eapply member_leaf_cond; eauto|exact E'].
    - apply IH; assumption. }
  destruct h as [|h0].
  { (* height 0: a leaf; no member is parsed *)
    unfold lvl in *. destruct (kind_of t); try exact E.
    - inv_bind E as a ha Ea.
    - destruct r as [|kt [|vt r2]]; try discriminate. destruct (hasn r2 4); [|discriminate].
      cbv zeta in E. destruct (two31 <=? _); [discriminate|]. inv_bind E as a ha Ea.
    - destruct r as [|et r1]; try discriminate. destruct (hasn r1 4); [|discriminate].
      cbv zeta in E. destruct (two31 <=? _); [discriminate|]. inv_bind E as a ha Ea. }
  eapply (lvl_mono h0) with (f1 := S f); try exact E; try lia.
  - intros ft r' n' h' _ E' Hh'. apply Mem; [exact E'|lia].
  - intros kt vt r' n' h' _ E' Hh'. unfold rp_em.
    eapply (gpair_mono (fun _ => True) h0); try exact E'; try exact Hh'; auto.
    + intros r0 n0 h1 _ E0 H0. apply Mem; [exact E0|lia].
    + intros r0 n0 h1 _ E0 H0. apply Mem; [exact E0|lia].
  - intros et r' n' h' _ E' Hh'. apply Mem; [exact E'|lia].
  - intros kt vt. apply gpair_good; apply gp_good.
  - intros et. apply gp_good.
Qed.

(* ---------- the statements of DESIGN §5 C08 about the reference ---------- *)
Lemma ref_inv i d t r n : refparse i d t r = Ok n <-> exists h, rp i d t r = Ok (n, h).
Proof.
  unfold refparse. split.
  - intros H. destruct (rp i d t r) as [[a ha]| | |]; cbn [bind] in H; try discriminate.
    exists ha. congruence.
  - intros [h E]. rewrite E. reflexivity.
Qed.

Lemma ref_sound i d t r n :
  refparse i d t r = Ok n -> exists h, (h <= d)%nat /\ gparse t r = Ok (n, h).
Proof.
  intros H. apply ref_inv in H as [h E]. exists h. split.
  - eapply rp_h; eauto.
  - unfold gparse. eapply rp_sound; eauto.
Qed.

Lemma ref_agrees i d t r n h :
  gparse t r = Ok (n, h) -> (h < d)%nat -> refparse i d t r = Ok n.
Proof. intros G Hh. apply ref_inv. exists h. eapply rp_complete; eauto. Qed.

Lemma ref_total i d t r : (exists n, refparse i d t r = Ok n) \/ (exists e, refparse i d t r = Err e).
Proof.
  unfold refparse. destruct (rp_nocrash i d t r) as [[[n h] E]|[e E]]; rewrite E; cbn [bind]; [left|right]; eauto.
Qed.

Lemma ref_rejects i d t r n h :
  gparse t r = Ok (n, h) -> (d < h)%nat -> exists e, refparse i d t r = Err e.
Proof.
  intros G Hh. destruct (ref_total i d t r) as [[n' E]|E]; [|exact E].
  apply ref_sound in E as [h' [Hle G']]. rewrite G in G'. assert (h = h') by congruence. lia.
Qed.

(* the grammar rejects => the reference rejects *)
Lemma ref_rejects_bad i d t r e : gparse t r = Err e -> exists e', refparse i d t r = Err e'.
Proof.
  intros G. destruct (ref_total i d t r) as [[n' E]|E]; [|exact E].
  apply ref_sound in E as [h' [_ G']]. rewrite G in G'. discriminate.
Qed.
