(* Proofs/GenLib.v — lemmas about the translator's support library Lib/GoSem.v that the
   equivalence proofs Proofs/GenEquiv*.v share.  Independent of Gen/Funcs.v and of the models. *)
From GV Require Import Lib.Bytes Lib.Res Lib.GoSem.
From Coq Require Import ZifyN ZifyNat ZifyBool.
Open Scope N_scope.

Lemma slice_from_ok {A} (b : list A) off : off <= len b -> slice_from b off = Ok (drop off b).
Proof. intros H. unfold slice_from. destruct (N.leb_spec off (len b)); [reflexivity|lia]. Qed.

(* ---------- boundary conversions ---------- *)
(* (v, l) of the hand model with the length as a Go int *)
Definition zl {A} (p : A * N) : A * Z := (fst p, Z.of_N (snd p)).
Definition glen_ok {A} (l : list A) : Prop := (glen l < 2 ^ 63)%Z.

(* ---------- helper lemmas ---------- *)
Lemma glen_ltb {A} (b : list A) (k : N) : (glen b <? Z.of_N k)%Z = (len b <? k).
Proof. unfold glen. destruct (Z.ltb_spec (Z.of_N (len b)) (Z.of_N k)); destruct (N.ltb_spec (len b) k); lia. Qed.

Lemma wf_take n l : wf l -> wf (take n l).
Proof.
  unfold wf, take. intros H. rewrite <- (firstn_skipn (N.to_nat n) l) in H.
  apply Forall_app in H. tauto.
Qed.
Lemma wf_drop n l : wf l -> wf (drop n l).
Proof.
  unfold wf, drop. intros H. rewrite <- (firstn_skipn (N.to_nat n) l) in H.
  apply Forall_app in H. tauto.
Qed.

Lemma unbe_take_lt k l : wf l -> k <= len l -> unbe (take k l) < 256 ^ k.
Proof.
  intros H Hk. pose proof (unbe_lt (take k l) (wf_take k l H)) as Hlt.
  rewrite take_len in Hlt by exact Hk. exact Hlt.
Qed.

Lemma gbe_load_ok k b : N.of_nat k <= len b -> gbe_load k b = Ok (Z.of_N (unbe (take (N.of_nat k) b))).
Proof. intros H. unfold gbe_load. destruct (N.ltb_spec (len b) (N.of_nat k)); [lia|reflexivity]. Qed.

Lemma nth_error_nth_len (b : bytes) i : i < len b -> nth_error b (N.to_nat i) = Some (nth (N.to_nat i) b 0).
Proof. intros H. apply nth_error_nth'. unfold len in H. lia. Qed.

Lemma gindex_ok b i : (0 <= i < glen b)%Z -> gindex b i = Ok (Z.of_N (nth (Z.to_nat i) b 0)).
Proof.
  unfold glen. intros H. unfold gindex, index. destruct (Z.ltb_spec i 0); [lia|].
  rewrite nth_error_nth_len by lia. cbn [bind]. do 3 f_equal. lia.
Qed.

Lemma nth_wf (b : bytes) i : wf b -> nth i b 0 < 256.
Proof.
  intros H. destruct (Nat.lt_ge_cases i (length b)) as [Hi|Hi].
  - unfold wf in H. rewrite Forall_forall in H. apply H. apply nth_In. exact Hi.
  - rewrite nth_overflow by exact Hi. lia.
Qed.

Lemma gslice_from_ok (b : bytes) off : (0 <= off <= glen b)%Z -> gslice_from b off = Ok (drop (Z.to_N off) b).
Proof.
  unfold glen. intros H. unfold gslice_from. destruct (Z.ltb_spec off 0); [lia|].
  apply slice_from_ok. lia.
Qed.

(* intW(u): the generated conversion is the hand model's *)
Lemma wraps_ts8 u : u < 256 -> wraps 8 (Z.of_N u) = to_signed 8 u.
Proof. intros H. apply (wraps_to_signed 8 u); [lia|exact H]. Qed.
Lemma wraps_ts16 u : u < 65536 -> wraps 16 (Z.of_N u) = to_signed 16 u.
Proof. intros H. apply (wraps_to_signed 16 u); [lia|exact H]. Qed.
Lemma wraps_ts32 u : u < 4294967296 -> wraps 32 (Z.of_N u) = to_signed 32 u.
Proof. intros H. apply (wraps_to_signed 32 u); [lia|exact H]. Qed.
Lemma wraps_ts64 u : u < 18446744073709551616 -> wraps 64 (Z.of_N u) = to_signed 64 u.
Proof. intros H. apply (wraps_to_signed 64 u); [lia|exact H]. Qed.

Lemma wraps64_small z : (- 2 ^ 63 <= z < 2 ^ 63)%Z -> wraps 64 z = z.
Proof. intros H. apply wraps_id; [lia|exact H]. Qed.

(* the length test `len(buf) < k` of the generated function and of the hand model, decided together *)
Ltac lentest b kz k H :=
  destruct (Z.ltb_spec (glen b) kz) as [H|H];
  destruct (N.ltb_spec (len b) k); unfold glen in H; try lia; clear H;
  match goal with H' : (_ < _) |- _ => rename H' into H | H' : (_ <= _) |- _ => rename H' into H end.

Lemma gbe_load_drop k off buf :
  off + N.of_nat k <= len buf ->
  gbe_load k (drop off buf) = Ok (Z.of_N (unbe (take (N.of_nat k) (drop off buf)))).
Proof. intros H. apply gbe_load_ok. rewrite drop_len by lia. lia. Qed.

Lemma unbe_take_drop_lt k off l : wf l -> off + k <= len l -> unbe (take k (drop off l)) < 256 ^ k.
Proof. intros W H. apply unbe_take_lt; [apply wf_drop; exact W|]. rewrite drop_len by lia. lia. Qed.

(* ---------- a stronger form, for functions that are called by other generated functions:
   the generated function returns the embedded value with a nil error exactly when the hand
   model returns Ok, returns SOME tuple with the hand model's error code when it returns Err,
   and panics alike; it never produces an [Err] outcome itself ---------- *)
Definition sim {A B} (f : A -> B) (g : res (B * gerror)) (h : res A) : Prop :=
  match h with
  | Ok a => g = Ok (f a, gnil)
  | Err e => exists x, g = Ok (x, Some e)
  | Panic w => g = Panic w
  | OOB => g = OOB
  end.

Lemma sim_unerr {A B} (f : A -> B) g h : sim f g h -> unerr g = rmap f h.
Proof.
  unfold sim. destruct h as [a|e|w|]; [intros ->|intros [x ->]|intros ->|intros ->]; reflexivity.
Qed.

Lemma gslice_range_ok (b : bytes) lo hi :
  (0 <= lo <= hi)%Z -> (hi <= glen b)%Z ->
  gslice_range b lo hi = Ok (take (Z.to_N hi - Z.to_N lo) (drop (Z.to_N lo) b)).
Proof.
  unfold glen. intros H1 H2. unfold gslice_range, slice_range.
  destruct (Z.ltb_spec lo 0); [lia|]. destruct (Z.ltb_spec hi 0); [lia|]. cbn [orb].
  destruct (N.leb_spec (Z.to_N lo) (Z.to_N hi)); [|lia].
  destruct (N.leb_spec (Z.to_N hi) (len b)); [|lia]. reflexivity.
Qed.

Lemma Z_land_of_N a b : Z.land (Z.of_N a) (Z.of_N b) = Z.of_N (N.land a b).
Proof. destruct a, b; reflexivity. Qed.


(* ---------- phase 2: indexing ---------- *)
Lemma index_lt {A} (l : list A) i x : index l i = Ok x -> i < len l.
Proof.
  unfold index. destruct (nth_error l (N.to_nat i)) eqn:E; [|discriminate]. intros _.
  assert (nth_error l (N.to_nat i) <> None) as H by congruence. apply nth_error_Some in H. unfold len. lia.
Qed.

Lemma gindex_index b i : gindex b (Z.of_N i) = do x <- index b i; Ok (Z.of_N x).
Proof. unfold gindex. destruct (Z.ltb_spec (Z.of_N i) 0); [lia|]. rewrite N2Z.id. reflexivity. Qed.

Lemma index_wf (l : bytes) i x : wf l -> index l i = Ok x -> x < 256.
Proof.
  intros W. unfold index. destruct (nth_error l (N.to_nat i)) eqn:E; [|discriminate].
  intros H. inversion H; subst. apply nth_error_In in E. unfold wf in W. rewrite Forall_forall in W. apply W, E.
Qed.

Lemma index_not_err {A} (l : list A) i e : index l i <> Err e.
Proof. unfold index. destruct (nth_error l (N.to_nat i)); discriminate. Qed.
