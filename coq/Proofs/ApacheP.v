(* Proofs/ApacheP.v — lemmas about Model/Apache.v (protocol/thrift/apache). *)
From GV Require Import Lib.Bytes Lib.Res Model.Apache.
From Coq Require Import ZifyN ZifyNat ZifyBool.
Open Scope N_scope.

(* ---------- the two handles ---------- *)
Lemma exec_handle_irrelevant h1 h2 b s : exec (Via h1 b) s = exec (Via h2 b) s.
Proof. destruct h1, h2; reflexivity. Qed.

(* two operations that differ at most in the handle they go through *)
Inductive same_mod_handle : op -> op -> Prop :=
| smh_via h1 h2 b : same_mod_handle (Via h1 b) (Via h2 b)
| smh_tr t : same_mod_handle (Tr t) (Tr t).

Lemma exec_same_mod_handle o o' s : same_mod_handle o o' -> exec o s = exec o' s.
Proof. intros H. destruct H; [apply exec_handle_irrelevant|reflexivity]. Qed.

Lemma run_same_mod_handle h h' : Forall2 same_mod_handle h h' -> forall s, run h s = run h' s.
Proof.
  induction 1 as [|o o' r r' Ho _ IH]; intros s; cbn [run]; [reflexivity|].
  rewrite (exec_same_mod_handle o o' s Ho). destruct (exec o' s) as [s1 x].
  rewrite (IH s1). reflexivity.
Qed.

(* every call redirected to the plain *bytes.Buffer handle *)
Definition on_buffer (o : op) : op :=
  match o with Via _ b => Via HBuffer b | Tr t => Tr t end.

Lemma on_buffer_smh h : Forall2 same_mod_handle h (map on_buffer h).
Proof.
  induction h as [|o r IH]; cbn [map]; constructor; [|exact IH].
  destruct o as [a b|t]; constructor.
Qed.

Lemma run_on_buffer h s : run h s = run (map on_buffer h) s.
Proof. apply run_same_mod_handle, on_buffer_smh. Qed.

(* the same history on ONE plain bytes.Buffer, no transport type in sight *)
Fixpoint run_buf (h : list bop) (s : buffer) : buffer * list obs :=
  match h with
  | [] => (s, [])
  | b :: r => let '(s1, x) := buf_exec b s in
              let '(s2, xs) := run_buf r s1 in (s2, x :: xs)
  end.

(* what an operation does to the buffer, as plain buffer operations: Close is Reset, the other
   transport-only methods do nothing *)
Definition erase1 (o : op) : list bop :=
  match o with
  | Via _ b => [b]
  | Tr Close => [Reset]
  | Tr _ => []
  end.
Definition erase (h : list op) : list bop := flat_map erase1 h.

Lemma exec_state o s : fst (exec o s) = fst (run_buf (erase1 o) s).
Proof.
  destruct o as [a b|t].
  - replace (exec (Via a b) s) with (buf_exec b s) by (destruct a; reflexivity).
    cbn [erase1 run_buf]. destruct (buf_exec b s) as [s1 x]. reflexivity.
  - destruct t; reflexivity.
Qed.

Lemma run_buf_app a b s :
  fst (run_buf (a ++ b) s) = fst (run_buf b (fst (run_buf a s))).
Proof.
  revert s; induction a as [|o r IH]; intros s; cbn [app run_buf]; [reflexivity|].
  destruct (buf_exec o s) as [s1 x]. specialize (IH s1).
  destruct (run_buf (r ++ b) s1) as [s2 xs]. destruct (run_buf r s1) as [s3 ys].
  cbn [fst] in *. exact IH.
Qed.

Lemma run_state h s : fst (run h s) = fst (run_buf (erase h) s).
Proof.
  revert s; induction h as [|o r IH]; intros s; [reflexivity|].
  unfold erase. cbn [flat_map]. fold (erase r). rewrite run_buf_app, <- exec_state, <- IH.
  cbn [run]. destruct (exec o s) as [s1 x]. cbn [fst]. destruct (run r s1) as [s2 xs]. reflexivity.
Qed.

(* histories that only use bytes.Buffer methods (through either handle) *)
Definition bop_of (o : op) : option bop := match o with Via _ b => Some b | Tr _ => None end.

Lemma run_via_only h bs : map bop_of h = map Some bs -> forall s, run h s = run_buf bs s.
Proof.
  revert bs; induction h as [|o r IH]; intros [|b bs] E s; try discriminate; [reflexivity|].
  cbn [map] in E. inversion E as [[Eo Er]]. destruct o as [a b'|t]; [|discriminate].
  cbn [bop_of] in Eo. inversion Eo; subst b'. cbn [run run_buf].
  replace (exec (Via a b) s) with (buf_exec b s) by (destruct a; reflexivity).
  destruct (buf_exec b s) as [s1 x]. rewrite (IH bs Er s1). reflexivity.
Qed.

Lemma handles_same_state h s :
  run h s = run (map on_buffer h) s /\
  fst (run h s) = fst (run_buf (erase h) s) /\
  (forall h', Forall2 same_mod_handle h h' -> run h' s = run h s) /\
  (forall b, exec (Via HBuffer b) (fst (run h s)) = exec (Via HTransport b) (fst (run h s))).
Proof.
  split; [apply run_on_buffer|]. split; [apply run_state|]. split.
  - intros h' H. symmetry. now apply run_same_mod_handle.
  - intros b. apply exec_handle_irrelevant.
Qed.

(* ---------- RemainingBytes ---------- *)
Lemma two64_pow : 2 ^ 64 = two64.
Proof. reflexivity. Qed.

Lemma bt_remaining_mod s : bt_remaining s = len s mod two64.
Proof.
  unfold bt_remaining, to_unsigned, buf_len. rewrite two64_pow.
  rewrite <- N2Z.inj_mod. apply N2Z.id.
Qed.

Lemma bt_remaining_len s : len s < two64 -> bt_remaining s = len s.
Proof.
  intros H. unfold bt_remaining, to_unsigned, buf_len. rewrite two64_pow.
  rewrite Z.mod_small by (unfold two64 in *; lia). lia.
Qed.

Lemma remaining_eq_len h s :
  let s' := fst (run h s) in
  len s' < two64 ->
  snd (exec (Tr RemainingBytes) s') = ORemaining (len s') /\
  fst (exec (Tr RemainingBytes) s') = s' /\
  (forall hd, snd (exec (Via hd Len) s') = OLen (Z.of_N (len s'))).
Proof.
  intros s' H. cbn [exec tr_exec snd fst]. rewrite (bt_remaining_len s' H).
  split; [reflexivity|]. split; [reflexivity|]. intros [|]; reflexivity.
Qed.

(* ---------- Close ---------- *)
Lemma close_empties s :
  let s' := fst (exec (Tr Close) s) in
  s' = [] /\ snd (exec (Tr Close) s) = ONilErr /\
  snd (exec (Tr RemainingBytes) s') = ORemaining 0 /\
  (forall hd, snd (exec (Via hd Len) s') = OLen 0%Z) /\
  (forall hd k, 0 < k -> exec (Via hd (Read k)) s' = ([], ORead [] true)).
Proof.
  intros s'. assert (E : s' = []) by reflexivity. rewrite E. clear E s'.
  split; [reflexivity|]. split; [reflexivity|]. split; [reflexivity|]. split.
  - intros [|]; reflexivity.
  - intros hd k Hk.
    replace (exec (Via hd (Read k)) []) with (buf_exec (Read k) []) by (destruct hd; reflexivity).
    cbn [buf_exec]. unfold buf_read. change (len (@nil N) =? 0) with true. cbv iota.
    destruct (N.eqb_spec k 0); [lia|]. reflexivity.
Qed.

(* ---------- bytes.Buffer contract: what Read and Write mean for the content ---------- *)
Lemma read_spec k s :
  let '(s', (d, e)) := buf_read k s in
  d ++ s' = s /\ len d = N.min k (len s) /\ (e = true <-> (s = [] /\ 0 < k)).
Proof.
  unfold buf_read. destruct (N.eqb_spec (len s) 0) as [E|E].
  - assert (s = []) as -> by (destruct s; [reflexivity|rewrite len_cons in E; lia]).
    cbn [app]. split; [reflexivity|]. split; [cbn; lia|].
    destruct (N.eqb_spec k 0); cbn [negb]; split; try discriminate; try lia; intros; try split; auto; lia.
  - split; [apply take_drop|]. split; [apply take_len; lia|].
    split; [discriminate|]. intros [-> _]. cbn in E. lia.
Qed.

Lemma write_spec p s : buf_write p s = (s ++ p, len p).
Proof. reflexivity. Qed.

(* ---------- defaultTransport.RemainingBytes ---------- *)
Lemma max_uint64_val : max_uint64 = 18446744073709551615.
Proof. reflexivity. Qed.

Lemma to_unsigned_pos n : (0 <= n)%Z -> in_signed 64 n -> to_unsigned 64 n = Z.to_N n.
Proof.
  intros H0 [_ Hhi]. unfold to_unsigned.
  change (Z.of_N (2 ^ 64)) with 18446744073709551616%Z.
  change (Z.of_N (2 ^ (64 - 1))) with 9223372036854775808%Z in Hhi.
  rewrite Z.mod_small by lia. reflexivity.
Qed.

Lemma default_remaining_spec o :
  match o with
  | RWReadable n =>
      in_signed 64 n ->
      ((0 < n)%Z -> default_remaining o = Z.to_N n) /\
      ((n <= 0)%Z -> default_remaining o = 18446744073709551615)
  | _ => default_remaining o = 18446744073709551615
  end.
Proof.
  destruct o as [s|n|]; cbn [default_remaining]; try reflexivity.
  intros Hr. split; intros H.
  - destruct (Z.ltb_spec 0 n); [|lia]. apply to_unsigned_pos; [lia|exact Hr].
  - destruct (Z.ltb_spec 0 n); [lia|]. reflexivity.
Qed.

Lemma new_default_transport_spec o :
  match o with
  | RWBuffer s => new_default_transport o = TBuffer s /\
                  (len s < two64 -> transport_remaining (new_default_transport o) = len s)
  | _ => new_default_transport o = TDefault o /\
         transport_remaining (new_default_transport o) = default_remaining o
  end.
Proof.
  destruct o as [s|n|]; cbn [new_default_transport transport_remaining]; split; try reflexivity.
  apply bt_remaining_len.
Qed.

(* ---------- registry ---------- *)
Section RegistryP.
  Context {A E : Type}.
  Implicit Types (r : registry A E) (f : fnval A E).

  Definition slot_eqb (a b : slotid) : bool :=
    match a, b with
    | SCheck, SCheck | SRead, SRead | SWrite, SWrite => true
    | _, _ => false
    end.

  Lemma slot_eqb_spec a b : slot_eqb a b = true <-> a = b.
  Proof. destruct a, b; cbn; split; congruence. Qed.

  Lemma get_register_same s f r : get (register s f r) s = f.
  Proof. destruct s; reflexivity. Qed.

  Lemma get_register_other s s' f r : s' <> s -> get (register s f r) s' = get r s'.
  Proof. destruct s, s'; intros H; try congruence; reflexivity. Qed.

  Lemma callback_passthrough r s fn a :
    get r s = Some fn -> dispatch r s a = Ok (RetCallback (fn a)).
  Proof. unfold dispatch. intros ->. reflexivity. Qed.

  Lemma unregistered_specific_error r s a :
    get r s = None -> dispatch r s a = Ok (RetNotRegistered s).
  Proof. unfold dispatch. intros ->. reflexivity. Qed.

  (* never a nil call *)
  Lemma dispatch_safe r s a : safe (dispatch r s a).
  Proof. unfold dispatch. destruct (get r s); exact I. Qed.

  Lemma dispatch_total r s a :
    dispatch r s a = match get r s with
                     | Some fn => Ok (RetCallback (fn a))
                     | None => Ok (RetNotRegistered s)
                     end.
  Proof. unfold dispatch. destruct (get r s); reflexivity. Qed.

  Lemma unregistered_spec r s a :
    (get r s = None -> dispatch r s a = Ok (RetNotRegistered s)) /\
    safe (dispatch r s a) /\
    dispatch empty_registry s a = Ok (RetNotRegistered s : result E).
  Proof.
    split; [apply unregistered_specific_error|]. split; [apply dispatch_safe|].
    destruct s; reflexivity.
  Qed.

  (* any sequence of Register* calls: the last one for the slot decides *)
  Fixpoint apply_regs (l : list (slotid * fnval A E)) r : registry A E :=
    match l with
    | [] => r
    | (s, f) :: t => apply_regs t (register s f r)
    end.

  Fixpoint last_for (s : slotid) (l : list (slotid * fnval A E)) (cur : fnval A E) : fnval A E :=
    match l with
    | [] => cur
    | (s', f) :: t => last_for s t (if slot_eqb s' s then f else cur)
    end.

  Lemma get_apply_regs l r s : get (apply_regs l r) s = last_for s l (get r s).
  Proof.
    revert r; induction l as [|[s' f] t IH]; intros r; cbn [apply_regs last_for]; [reflexivity|].
    rewrite IH. f_equal. destruct (slot_eqb s' s) eqn:Es.
    - apply slot_eqb_spec in Es. subst. apply get_register_same.
    - apply get_register_other. intros ->. destruct s'; discriminate.
  Qed.

  Lemma dispatch_after_regs l s a :
    dispatch (apply_regs l empty_registry) s a =
    match last_for s l None with
    | Some fn => Ok (RetCallback (fn a))
    | None => Ok (RetNotRegistered s)
    end.
  Proof.
    rewrite dispatch_total, get_apply_regs. destruct s; reflexivity.
  Qed.
End RegistryP.
