(* Proofs/SpanEx.v — non-vacuity: concrete instances of the C16 hypothesis sets. *)
From GV Require Import Lib.Bytes Lib.Res Lib.Heap Gen.Consts Model.Binary Model.Unsafex Model.BufReader Model.Span Spec.Indep Proofs.SpanHeap Proofs.SpanP Proofs.SpanThm Proofs.SpanHist.
From Coq Require Import ZifyN ZifyNat ZifyBool Lia.
Open Scope N_scope.

(* ================= non-vacuity: concrete instances of the hypothesis sets ================= *)
(* a small allocator (spans of 300 bytes) so that everything evaluates quickly *)
Definition ex_cache : cache := Eval vm_compute in match new_cache 1 300 with Ok (c, _) => c | _ => [] end.
Definition ex_input : bytes := [0; 0; 0; 1; 65; 0; 0; 0; 200] ++ repeat 7 200.
Definition ex_heap : heap := [static_table] ++ repeat (repeat 0 300%nat) 10 ++ [ex_input].
(* input buffers: the whole block 11, and its tail from offset 5 *)
Definition ex_in1 : gslice := {| sptr := Some (11%nat, 0); slen := 209; scap := 209 |}.
Definition ex_in2 : gslice := {| sptr := Some (11%nat, 5); slen := 204; scap := 204 |}.

Lemma ex_hinv : hinv ex_heap ex_cache.
Proof.
  assert (H1 : (0 <= 300 <= 2147483648)%Z) by lia.
  assert (H2 : (0 <= span_spanCacheSize)%Z) by (destruct consts_ok_span as [_ [-> _]]; lia).
  assert (H3 : (span_spanCacheSize + span_minSpanClass <= 32)%Z)
    by (destruct consts_ok_span as [_ [-> [-> _]]]; lia).
  destruct (new_cache_inv 300 [2048] H1 H2 H3) as [c [al [E [Hc _]]]].
  change (length [2048]) with 1%nat in E.
  assert (Ec : ex_cache = c).
  { assert (E2 : new_cache 1 300 = Ok (ex_cache, repeat 300 10)) by (vm_compute; reflexivity).
    rewrite E in E2. now inversion E2. }
  assert (Eal : al = repeat 300 10).
  { assert (E2 : exists c0, new_cache 1 300 = Ok (c0, repeat 300 10)) by (eexists; vm_compute; reflexivity).
    destruct E2 as [c0 E2]. rewrite E in E2. now inversion E2. }
  subst al. rewrite Ec. unfold hinv.
  assert (Es : sizes ex_heap = ([2048] ++ repeat 300 10) ++ [209]) by (vm_compute; reflexivity).
  rewrite Es. now apply cinv_grow.
Qed.

Lemma ex_static : static_ok ex_heap ex_cache 0.
Proof.
  split; [|split].
  - split; [vm_compute; lia|]. vm_compute. discriminate.
  - unfold allocd. apply Forall_forall. intros sp Hin. left. unfold ex_cache in Hin.
    cbn [In] in Hin. cbn [r_blk static_region].
    repeat (destruct Hin as [<-|Hin]; [cbn [s_blk]; lia|]). contradiction.
  - vm_compute. reflexivity.
Qed.

Lemma ex_in_valid : slice_valid ex_heap ex_in1 /\ slice_valid ex_heap ex_in2 /\
                    go_int (Z.of_N (slen ex_in1)) /\ go_int (Z.of_N (slen ex_in2)) /\
                    wf (slice_bytes ex_heap ex_in1) /\ wf (slice_bytes ex_heap ex_in2).
Proof.
  repeat split; try (vm_compute; (reflexivity || discriminate || lia)).
  - apply wfbb_wf. vm_compute. reflexivity.
  - apply wfbb_wf. vm_compute. reflexivity.
Qed.

(* a one-byte string with the span cache off and then a 200-byte binary with the span cache on *)
Lemma ex_decodes :
  (exists h' c' s, read_string false 0 ex_heap ex_cache ex_in1 false true [] = Ok (h', c', s, 5) /\
                   string_bytes h' s = [65] /\ tptr s = Some (0%nat, 520)) /\
  (exists h' c' b, read_binary true ex_heap ex_cache ex_in2 false 0 [] = Ok (h', c', b, 204) /\
                   slice_bytes h' b = repeat 7 200 /\ sptr b = Some (1%nat, 0) /\ scap b = 200).
Proof.
  split.
  - do 3 eexists. split; [vm_compute; reflexivity|]. split; vm_compute; reflexivity.
  - do 3 eexists. split; [vm_compute; reflexivity|]. repeat split; vm_compute; reflexivity.
Qed.

(* the allocator on a concrete request sequence: bump, wrap to a new block, fall back *)
Lemma ex_makes :
  match run_makes ex_cache 12 [(200, false); (200, false); (50, false); (100, false); (200, true); (299, false)]%Z with
  | Ok (_, nb, sl, al) =>
    map (fun b => (sptr b, slen b, scap b)) sl =
      [(Some (1%nat, 0), 200, 200); (Some (12%nat, 0), 200, 200); (Some (13%nat, 0), 50, 50);
       (Some (14%nat, 0), 100, 100); (Some (15%nat, 0), 200, 200); (Some (2%nat, 0), 299, 299)] /\
    al = [300; 50; 100; 200] /\ nb = 16%nat
  | _ => False
  end.
Proof. vm_compute. repeat split; reflexivity. Qed.

(* stream reader: a fresh block per value *)
Lemma ex_stream :
  exists st' h' b,
    stream_read_binary [[1; 2]] (new_reader {| sdata := [0; 0; 0; 3; 9; 8; 7]; sfinal := e_eof; swith := true;
                                              schunks := [2; 1]; spos := 0 |}) [5; 5; 5; 5]
      = (st', Ok (h', b, None)) /\ slice_bytes h' b = [9; 8; 7] /\ sptr b = Some (1%nat, 0).
Proof. do 3 eexists. split; [vm_compute; reflexivity|]. split; vm_compute; reflexivity. Qed.

(* a good initial state of a history: the caller owns the input block, nothing decoded yet *)
Definition ex_state : hstate :=
  {| hs_h := ex_heap; hs_c := ex_cache;
     hs_own := [({| r_blk := 11%nat; r_off := 0; r_ext := 209 |}, ex_input)]; hs_lvs := [] |}.

Lemma ex_good : good 0 ex_state.
Proof.
  unfold good, ex_state. cbn [hs_h hs_c hs_own hs_lvs].
  split; [exact ex_hinv|]. split; [exact ex_static|]. split.
  - constructor; [|constructor]. unfold own_ok. cbn [fst snd]. split; [|split; [|split]].
    + split; [vm_compute; lia|]. vm_compute. discriminate.
    + unfold allocd. apply Forall_forall. intros sp Hin. left. unfold ex_cache in Hin.
      cbn [In] in Hin. cbn [r_blk].
      repeat (destruct Hin as [<-|Hin]; [cbn [s_blk]; lia|]). contradiction.
    + left. cbn. lia.
    + vm_compute. reflexivity.
  - split; [constructor|]. split.
    + intros i j a b _ Ha. destruct i; discriminate.
    + intros lv ow [].
Qed.

(* ... and a step from it: the 200-byte value decoded with the span cache on *)
Lemma ex_step : exists s', hstep 0 ex_state s' /\ length (hs_lvs s') = 1%nat.
Proof.
  destruct ex_decodes as [_ [h' [c' [b [E [Hb [Hp Hc]]]]]]].
  destruct ex_in_valid as [_ [V2 [_ [I2 _]]]].
  eexists. split.
  - eapply (hs_binary 0 ex_state true ex_in2 false 0 [] h' c' b 204); try eassumption.
    unfold slice_region. rewrite Hp. reflexivity.
  - reflexivity.
Qed.
