(* Proofs/SpanHeap.v — generic facts about Lib/Heap.v used by the C16 proofs:
   reading regions, writes and appends leave disjoint regions untouched. *)
From GV Require Import Lib.Bytes Lib.Heap Spec.Indep.
From Coq Require Import ZifyN ZifyNat ZifyBool Lia.
Open Scope N_scope.

(* ---------- lists ---------- *)
Lemma take_app_le {A} (a b : list A) n : n <= len a -> take n (a ++ b) = take n a.
Proof.
  unfold take, len. intros H. rewrite firstn_app.
  replace (N.to_nat n - length a)%nat with O by lia. cbn [firstn]. now rewrite app_nil_r.
Qed.

Lemma drop_app_le {A} (a b : list A) n : n <= len a -> drop n (a ++ b) = drop n a ++ b.
Proof.
  unfold drop, len. intros H. rewrite skipn_app.
  replace (N.to_nat n - length a)%nat with O by lia. reflexivity.
Qed.

Lemma drop_app_ge {A} (a b : list A) n : len a <= n -> drop n (a ++ b) = drop (n - len a) b.
Proof.
  unfold drop, len. intros H. rewrite skipn_app.
  rewrite (skipn_all2 a) by lia. cbn [app]. f_equal. lia.
Qed.

Lemma take_all {A} (l : list A) n : len l <= n -> take n l = l.
Proof. unfold take, len. intros H. apply firstn_all2. lia. Qed.

Lemma drop_all {A} (l : list A) n : len l <= n -> drop n l = [].
Proof. unfold drop, len. intros H. apply skipn_all2. lia. Qed.

Lemma take_0' {A} (l : list A) : take 0 l = [].
Proof. reflexivity. Qed.

Lemma len_repeat {A} (x : A) n : len (repeat x n) = N.of_nat n.
Proof. unfold len. now rewrite repeat_length. Qed.

Lemma len_take_le {A} (l : list A) n : len (take n l) <= n.
Proof. unfold take, len. rewrite firstn_length. lia. Qed.

Lemma len_take_le' {A} (l : list A) n : len (take n l) <= len l.
Proof. unfold take, len. rewrite firstn_length. lia. Qed.

(* a window of a list that lies inside a prefix does not depend on what follows *)
Lemma window_prefix {A} (a r : list A) o e :
  o + e <= len a -> take e (drop o (a ++ r)) = take e (drop o a).
Proof.
  intros H. rewrite drop_app_le by lia. apply take_app_le. rewrite drop_len by lia. lia.
Qed.

Lemma drop_take_comm {A} (l : list A) o k : drop o (take (o + k) l) = take k (drop o l).
Proof.
  unfold drop, take. rewrite firstn_skipn_comm. f_equal. f_equal. lia.
Qed.

(* ---------- splice ---------- *)
Lemma splice_len l off v : off + len v <= len l -> len (splice l off v) = len l.
Proof.
  intros H. unfold splice. rewrite !len_app, take_len, drop_len by lia. lia.
Qed.

Lemma splice_window_before l off v o e :
  off + len v <= len l -> o + e <= off ->
  take e (drop o (splice l off v)) = take e (drop o l).
Proof.
  intros H Hb. unfold splice.
  rewrite window_prefix by (rewrite take_len by lia; lia).
  rewrite <- (take_drop off l) at 2.
  now rewrite window_prefix by (rewrite take_len by lia; lia).
Qed.

Lemma splice_window_after l off v o e :
  off + len v <= len l -> off + len v <= o ->
  take e (drop o (splice l off v)) = take e (drop o l).
Proof.
  intros H Ha. unfold splice. f_equal.
  rewrite drop_app_ge by (rewrite take_len by lia; lia).
  rewrite drop_app_ge by (rewrite take_len by lia; lia).
  rewrite take_len by lia. rewrite drop_drop. f_equal. lia.
Qed.

Lemma splice_window_self l off v :
  off + len v <= len l -> take (len v) (drop off (splice l off v)) = v.
Proof.
  intros H. unfold splice.
  rewrite drop_app_ge by (rewrite take_len by lia; lia).
  rewrite take_len by lia. rewrite N.sub_diag, drop_0. apply take_app_len.
Qed.

Lemma splice_nil l off : off <= len l -> splice l off [] = l.
Proof. intros H. unfold splice. cbn [app len length]. rewrite N.add_0_r. apply take_drop. Qed.

(* ---------- blocks ---------- *)
Lemma block_set_nth_eq h b x : (b < length h)%nat -> block (set_nth b x h) b = x.
Proof. intros H. unfold block. now apply nth_set_nth_eq. Qed.

Lemma block_set_nth_ne h b b' x : b <> b' -> block (set_nth b x h) b' = block h b'.
Proof. intros H. unfold block. now apply nth_set_nth_ne. Qed.

Lemma block_app_old h x b : (b < length h)%nat -> block (h ++ [x]) b = block h b.
Proof. intros H. unfold block. now rewrite app_nth1. Qed.

Lemma block_app_new h (x : bytes) : block (h ++ [x]) (length h) = x.
Proof. unfold block. rewrite app_nth2 by lia. now rewrite Nat.sub_diag. Qed.

Lemma block_out h b : (length h <= b)%nat -> block h b = [].
Proof. intros H. unfold block. now apply nth_overflow. Qed.

Lemma write_length h p v : length (write h p v) = length h.
Proof. destruct p as [b off]. unfold write. apply set_nth_length. Qed.

Lemma write_block_ne h b off v b' : b <> b' -> block (write h (b, off) v) b' = block h b'.
Proof. intros H. unfold write. now apply block_set_nth_ne. Qed.

Lemma write_block_eq h b off v :
  (b < length h)%nat -> block (write h (b, off) v) b = splice (block h b) off v.
Proof. intros H. unfold write. now apply block_set_nth_eq. Qed.

Lemma write_block_len h b off v b' :
  off + len v <= len (block h b) -> len (block (write h (b, off) v) b') = len (block h b').
Proof.
  intros H. destruct (Nat.eq_dec b b') as [<-|Hne].
  - destruct (Nat.lt_ge_cases b (length h)) as [Hb|Hb].
    + rewrite write_block_eq by assumption. now apply splice_len.
    + rewrite !block_out; [reflexivity|lia|rewrite write_length; lia].
  - now rewrite write_block_ne.
Qed.

(* ---------- regions ---------- *)
Lemma region_bytes_len h r : region_valid h r -> len (region_bytes h r) = r_ext r.
Proof.
  intros [_ H]. unfold region_bytes, read. rewrite take_len; [reflexivity|]. rewrite drop_len; lia.
Qed.

(* a write inside a region W leaves every region disjoint from W unchanged *)
Lemma write_frame h b off v x :
  off + len v <= len (block h b) ->
  rdisj {| r_blk := b; r_off := off; r_ext := len v |} x ->
  region_bytes (write h (b, off) v) x = region_bytes h x.
Proof.
  intros Hin Hd. unfold region_bytes, read.
  destruct (Nat.eq_dec b (r_blk x)) as [E|Hne]; [|now rewrite write_block_ne].
  destruct (Nat.lt_ge_cases b (length h)) as [Hb|Hb].
  2:{ rewrite !block_out; [reflexivity|lia|rewrite write_length; lia]. }
  rewrite <- E. rewrite write_block_eq by assumption.
  unfold rdisj in Hd. cbn [r_blk r_off r_ext] in Hd.
  destruct Hd as [Hd|[Hd|[Hd|[Hd|Hd]]]].
  - congruence.
  - assert (v = []) as -> by (destruct v; [reflexivity|rewrite len_cons in Hd; lia]).
    rewrite splice_nil; [reflexivity|]. cbn [len length] in Hin. lia.
  - rewrite Hd. reflexivity.
  - now apply splice_window_after.
  - now apply splice_window_before.
Qed.

Lemma write_readback h b off v :
  (b < length h)%nat -> off + len v <= len (block h b) ->
  read (write h (b, off) v) (Some (b, off)) (len v) = v.
Proof.
  intros Hb Hin. unfold read. rewrite write_block_eq by assumption. now apply splice_window_self.
Qed.

(* validity of regions is about block lengths only *)
Lemma region_valid_ext h h' r :
  (length h <= length h')%nat ->
  (forall b, (b < length h)%nat -> len (block h' b) = len (block h b)) ->
  region_valid h r -> region_valid h' r.
Proof.
  intros Hl Hb [H1 H2]. split; [lia|]. rewrite Hb; assumption.
Qed.

(* ---------- append ---------- *)
Lemma slice_valid_region h s r :
  slice_valid h s -> slice_region s = Some r -> region_valid h r.
Proof.
  unfold slice_valid, slice_region. intros [_ H]. destruct (sptr s) as [[b o]|]; [|discriminate].
  intros E. inversion E; subst. cbn. exact H.
Qed.

(* append never touches a region (of the old heap) disjoint from the slice's capacity region;
   block lengths and old block ids are preserved *)
Lemma go_append_frame h s x nc h' s' rs :
  go_append h s x nc = (h', s') -> slice_valid h s -> slice_region s = Some rs ->
  (forall xr, (r_blk xr < length h)%nat -> rdisj rs xr -> region_bytes h' xr = region_bytes h xr) /\
  (length h <= length h')%nat /\
  (forall b, (b < length h)%nat -> len (block h' b) = len (block h b)).
Proof.
  intros E Hv Hr. unfold slice_region in Hr. destruct (sptr s) as [[b o]|] eqn:Hp; [|discriminate].
  inversion Hr; subst rs; clear Hr.
  destruct Hv as [Hlc Hv]. rewrite Hp in Hv. destruct Hv as [Hb Hin].
  unfold go_append in E. rewrite Hp in E.
  destruct (N.leb_spec (slen s + len x) (scap s)) as [Hfit|Hno].
  - inversion E; subst h' s'; clear E.
    assert (Hw : o + slen s + len x <= len (block h b)) by lia.
    split; [|split].
    + intros xr _ Hd. apply write_frame; [lia|].
      unfold rdisj in *. cbn [r_blk r_off r_ext] in *. lia.
    + rewrite set_nth_length. lia.
    + intros b' _. apply (write_block_len h b (o + slen s) x b'). lia.
  - unfold alloc in E. inversion E; subst h' s'; clear E. split; [|split].
    + intros xr Hx _. unfold region_bytes, read. now rewrite block_app_old.
    + rewrite app_length. lia.
    + intros b' Hb'. now rewrite block_app_old.
Qed.

(* with cap = len a non-empty append reallocates: no existing block changes at all, the result
   is a new block holding the old bytes followed by x *)
Lemma go_append_full_moves h s x nc h' s' :
  go_append h s x nc = (h', s') -> scap s = slen s -> x <> [] ->
  (forall b, (b < length h)%nat -> block h' b = block h b) /\
  (exists cp, sptr s' = Some (length h, 0) /\ scap s' = cp /\ slen s + len x <= cp) /\
  slen s' = slen s + len x.
Proof.
  intros E Hc Hx. unfold go_append in E.
  assert (Hl : 0 < len x) by (destruct x; [congruence|rewrite len_cons; lia]).
  destruct (N.leb_spec (slen s + len x) (scap s)) as [Hfit|Hno]; [lia|].
  unfold alloc in E. inversion E; subst h' s'; clear E. cbn [sptr slen scap]. repeat split.
  - intros b Hb. now apply block_app_old.
  - eexists. repeat split. lia.
Qed.

(* contents of the appended slice (slice inside its block) *)
Lemma go_append_content h s x nc h' s' :
  go_append h s x nc = (h', s') -> slice_valid h s -> (sptr s = None -> x = []) ->
  slice_bytes h' s' = slice_bytes h s ++ x.
Proof.
  intros E [Hlc Hv] Hnil. unfold go_append in E.
  destruct (N.leb_spec (slen s + len x) (scap s)) as [Hfit|Hno].
  - destruct (sptr s) as [[b o]|] eqn:Hp.
    + destruct Hv as [Hb Hin].
      remember (write h (b, o + slen s) x) as hw eqn:Ehw.
      inversion E; subst h' s'; clear E. subst hw.
      unfold slice_bytes, read. cbn [sptr slen]. rewrite Hp.
      rewrite write_block_eq by assumption.
      set (l := block h b) in *.
      assert (Hs : o + slen s <= len l) by lia.
      unfold splice.
      rewrite drop_app_le by (rewrite take_len by lia; lia).
      rewrite drop_take_comm.
      set (M := take (slen s) (drop o l)).
      assert (Hd : len M = slen s) by (unfold M; rewrite take_len; [reflexivity|rewrite drop_len; lia]).
      rewrite app_assoc.
      replace (N.add (slen s) (len x)) with (len (M ++ x)) by (rewrite len_app; lia).
      apply take_app_len.
    + inversion E; subst h' s'; clear E. rewrite (Hnil eq_refl), app_nil_r. reflexivity.
  - unfold alloc in E. inversion E; subst h' s'; clear E.
    unfold slice_bytes at 1. unfold read. cbn [sptr slen]. rewrite block_app_new, drop_0.
    assert (Hc : len (slice_bytes h s) = slen s).
    { unfold slice_bytes, read. destruct (sptr s) as [[b o]|] eqn:Hp.
      - destruct Hv as [Hb Hin]. rewrite take_len; [reflexivity|]. rewrite drop_len; lia.
      - rewrite len_nil. lia. }
    rewrite app_assoc. rewrite <- Hc, <- len_app. apply take_app_len.
Qed.
