(* Proofs/BinaryP.v — C01 (buffer part): writers, append writers, lengths and readers against
   Spec/Wire.enc. *)
From GV Require Import Lib.Bytes Lib.Res Gen.Consts Model.Binary Spec.Wire.
From Coq Require Import ZifyN ZifyNat ZifyBool Znumtheory.
Open Scope N_scope.

(* ---------- constants the property fixes ---------- *)
Lemma consts_ok_binary :
  thrift_STOP = 0%Z /\ thrift_msgVersion1 = 2147549184%Z /\
  thrift_msgVersionMask = 4294901760%Z /\ thrift_msgTypeMask = 65535%Z.
Proof. repeat split; reflexivity. Qed.

(* ---------- numeric helpers ---------- *)
Lemma p8 : 2 ^ 8 = 256. Proof. reflexivity. Qed.
Lemma p16 : 2 ^ 16 = 65536. Proof. reflexivity. Qed.
Lemma p32 : 2 ^ 32 = 4294967296. Proof. reflexivity. Qed.
Lemma p64 : 2 ^ 64 = 18446744073709551616. Proof. reflexivity. Qed.
Lemma p256_1 : 256 ^ 1 = 256. Proof. reflexivity. Qed.
Lemma p256_2 : 256 ^ 2 = 65536. Proof. reflexivity. Qed.
Lemma p256_4 : 256 ^ 4 = 4294967296. Proof. reflexivity. Qed.
Lemma p256_8 : 256 ^ 8 = 18446744073709551616. Proof. reflexivity. Qed.

Lemma u8_lt z : u8 z < 256. Proof. unfold u8. pose proof (to_unsigned_lt 8 z). now rewrite p8 in H. Qed.
Lemma u16_lt z : u16 z < 65536. Proof. unfold u16. pose proof (to_unsigned_lt 16 z). now rewrite p16 in H. Qed.
Lemma u32_lt z : u32 z < 4294967296. Proof. unfold u32. pose proof (to_unsigned_lt 32 z). now rewrite p32 in H. Qed.
Lemma u64_lt z : u64 z < 18446744073709551616. Proof. unfold u64. pose proof (to_unsigned_lt 64 z). now rewrite p64 in H. Qed.

Lemma i8_u8 z : in_signed 8 z -> i8 (u8 z) = z.
Proof. intros H. apply signed_unsigned; [lia|exact H]. Qed.
Lemma i16_u16 z : in_signed 16 z -> i16 (u16 z) = z.
Proof. intros H. apply signed_unsigned; [lia|exact H]. Qed.
Lemma i32_u32 z : in_signed 32 z -> i32 (u32 z) = z.
Proof. intros H. apply signed_unsigned; [lia|exact H]. Qed.
Lemma i64_u64 z : in_signed 64 z -> i64 (u64 z) = z.
Proof. intros H. apply signed_unsigned; [lia|exact H]. Qed.
Lemma u32_i32 u : u < 4294967296 -> u32 (i32 u) = u.
Proof. intros H. apply unsigned_signed; [lia|now rewrite p32]. Qed.

Lemma u32_nonneg z : (0 <= z < 4294967296)%Z -> u32 z = Z.to_N z.
Proof.
  intros H. unfold u32, to_unsigned. rewrite p32.
  rewrite Z.mod_small by lia. reflexivity.
Qed.

(* ---------- list helpers ---------- *)
Lemma take_app_exact {A} (a b : list A) n : n = len a -> take n (a ++ b) = a.
Proof. intros ->. apply take_app_len. Qed.
Lemma drop_app_exact {A} (a b : list A) n : n = len a -> drop n (a ++ b) = b.
Proof. intros ->. apply drop_app_len. Qed.
Lemma take_0 {A} (l : list A) : take 0 l = [].
Proof. reflexivity. Qed.

Lemma put0 buf bs : len bs <= len buf -> put buf 0 bs = Ok (bs ++ drop (len bs) buf).
Proof.
  intros H. unfold put. rewrite N.add_0_l.
  destruct (N.leb_spec (len bs) (len buf)); [|lia]. now rewrite take_0.
Qed.

(* writing bs at offset |pre| of (pre ++ old ++ rest) where |old| = |bs| *)
Lemma put_at pre old rest bs off :
  off = len pre -> len old = len bs ->
  put (pre ++ old ++ rest) off bs = Ok (pre ++ bs ++ rest).
Proof.
  intros -> Hl. unfold put. rewrite !len_app.
  destruct (N.leb_spec (len pre + len bs) (len pre + (len old + len rest))); [|lia].
  rewrite take_app_len. f_equal. f_equal. f_equal.
  rewrite <- Hl. rewrite app_assoc. rewrite <- len_app. apply drop_app_len.
Qed.

(* splitting a buffer that is long enough *)
Lemma split_buf (buf : bytes) n : n <= len buf -> exists old rest, buf = old ++ rest /\ len old = n /\ rest = drop n buf.
Proof.
  intros H. exists (take n buf), (drop n buf). split; [now rewrite take_drop|]. split; [now apply take_len|reflexivity].
Qed.

(* ---------- shift-and-truncate = big endian ---------- *)
Lemma be1 x : be 1 x = [x mod 256]. Proof. reflexivity. Qed.
Lemma be2 x : be 2 x = [(x / 256) mod 256; x mod 256]. Proof. reflexivity. Qed.
Lemma be4_shr v : [shrb v 24; shrb v 16; shrb v 8; shrb v 0] = be 4 v.
Proof.
  unfold shrb. cbn [be app]. rewrite !N.div_div by lia.
  change (2 ^ 24) with (256 * 256 * 256). change (2 ^ 16) with (256 * 256).
  change (2 ^ 8) with 256. change (2 ^ 0) with 1. rewrite N.div_1_r.
  repeat f_equal; lia.
Qed.
Lemma be8_shr v :
  [shrb v 56; shrb v 48; shrb v 40; shrb v 32; shrb v 24; shrb v 16; shrb v 8; shrb v 0] = be 8 v.
Proof.
  unfold shrb. cbn [be app]. rewrite !N.div_div by lia.
  change (2 ^ 56) with (256 * 256 * 256 * 256 * 256 * 256 * 256).
  change (2 ^ 48) with (256 * 256 * 256 * 256 * 256 * 256).
  change (2 ^ 40) with (256 * 256 * 256 * 256 * 256).
  change (2 ^ 32) with (256 * 256 * 256 * 256).
  change (2 ^ 24) with (256 * 256 * 256). change (2 ^ 16) with (256 * 256).
  change (2 ^ 8) with 256. change (2 ^ 0) with 1. rewrite N.div_1_r.
  repeat f_equal; lia.
Qed.

Lemma app_u32_be buf v : app_u32 buf v = buf ++ be 4 v.
Proof. unfold app_u32. now rewrite be4_shr. Qed.
Lemma app_u64_be buf v : app_u64 buf v = buf ++ be 8 v.
Proof. unfold app_u64. now rewrite be8_shr. Qed.

Lemma u8_of_u16 z : u8 z = u16 z mod 256.
Proof.
  unfold u8, u16, to_unsigned. rewrite p8, p16.
  change (Z.of_N 256) with 256%Z. change (Z.of_N 65536) with 65536%Z.
  apply N2Z.inj. rewrite N2Z.inj_mod. rewrite !Z2N.id by (apply Z.mod_pos_bound; lia).
  change (Z.of_N 256) with 256%Z.
  apply Zmod_div_mod; [lia|lia|exists 256%Z; reflexivity].
Qed.

(* bits 8..15 of id: byte(uint16(id>>8)) = byte(uint16(id)>>8) *)
Lemma hi_byte_shift id : (u16 (id / 256)%Z) mod 256 = (u16 id / 256) mod 256.
Proof.
  unfold u16, to_unsigned. rewrite p16. change (Z.of_N 65536) with 65536%Z.
  apply N2Z.inj. rewrite !N2Z.inj_mod, N2Z.inj_div. rewrite !Z2N.id by (apply Z.mod_pos_bound; lia).
  change (Z.of_N 256) with 256%Z.
  rewrite <- (Zmod_div_mod 256 65536) by (try lia; exists 256%Z; reflexivity).
  (* (id/256) mod 256 = ((id mod 65536)/256) mod 256 *)
  rewrite (Z.div_mod id 65536) at 1 by lia.
  replace (65536 * (id / 65536) + id mod 65536)%Z with (id mod 65536 + (256 * (id / 65536)) * 256)%Z by lia.
  rewrite Z.div_add by lia. rewrite Z.mul_comm. now rewrite Z.mod_add by lia.
Qed.

(* ---------- append writers = buf ++ enc ---------- *)
Lemma a_i32_be buf v : a_i32 buf v = buf ++ be 4 (u32 v).
Proof. unfold a_i32. apply app_u32_be. Qed.

Lemma a_item_enc buf it : a_item buf it = buf ++ enc it.
Proof.
  destruct it as [b|v|v|v|v|bits|v|v|t id| |kt vt sz|et sz|et sz]; cbn [a_item enc].
  - reflexivity.
  - reflexivity.
  - unfold a_i16, shrb. rewrite be2. change (2 ^ 8) with 256. now rewrite u8_of_u16.
  - apply a_i32_be.
  - unfold a_i64. apply app_u64_be.
  - unfold a_double. apply app_u64_be.
  - unfold a_binary. rewrite a_i32_be, u32_i32, <- app_assoc; [reflexivity|].
    unfold two32. apply N.mod_lt. lia.
  - unfold a_binary. rewrite a_i32_be, u32_i32, <- app_assoc; [reflexivity|].
    unfold two32. apply N.mod_lt. lia.
  - unfold a_field_begin. rewrite be2, hi_byte_shift, (u8_of_u16 id). reflexivity.
  - reflexivity.
  - unfold a_map_begin. rewrite a_i32_be, u32_i32 by apply u32_lt. now rewrite <- app_assoc.
  - unfold a_list_begin. rewrite a_i32_be, u32_i32 by apply u32_lt. now rewrite <- app_assoc.
  - unfold a_list_begin. rewrite a_i32_be, u32_i32 by apply u32_lt. now rewrite <- app_assoc.
Qed.

Lemma a_message_begin_enc buf name ty seq :
  a_message_begin buf name ty seq = buf ++ be 4 (msg_first_word ty) ++ be 4 (len name mod two32) ++ name ++ be 4 (u32 seq).
Proof.
  unfold a_message_begin, a_binary. rewrite !a_i32_be, app_u32_be, u32_i32.
  - now rewrite <- !app_assoc.
  - unfold two32. apply N.mod_lt. lia.
Qed.

(* ---------- lengths ---------- *)
Lemma l_item_enc it : l_item it = len (enc it).
Proof.
  destruct it; cbn [l_item enc]; rewrite ?len_app, ?be_len; try reflexivity; cbn; lia.
Qed.

(* ---------- in-place writers ---------- *)
Lemma copy_to_at pre old rest v off :
  off = len pre -> len old = len v ->
  copy_to (pre ++ old ++ rest) off v = Ok (pre ++ v ++ rest, len v).
Proof.
  intros -> Hl. unfold copy_to. rewrite !len_app.
  destruct (N.leb_spec (len pre) (len pre + (len old + len rest))); [|lia].
  replace (N.min (len v) (len pre + (len old + len rest) - len pre)) with (len v) by lia.
  rewrite take_app_len. unfold take at 1. unfold len at 1. rewrite Nat2N.id, firstn_all.
  f_equal. f_equal. f_equal. f_equal.
  rewrite <- Hl. rewrite app_assoc. rewrite <- len_app. apply drop_app_len.
Qed.

Ltac explode l H :=
  repeat (let x := fresh "x" in destruct l as [|x l]; [try (exfalso; unfold len in H; cbn [length] in H; lia)|]);
  try (exfalso; unfold len in H; cbn [length] in H; lia).

Lemma len1 {A} (l : list A) : len l = 1 -> exists a, l = [a].
Proof. destruct l as [|a [|b l]]; unfold len; cbn [length]; intros H; try lia. now exists a. Qed.
Lemma len_split {A} (l : list A) a b : len l = a + b -> exists l1 l2, l = l1 ++ l2 /\ len l1 = a /\ len l2 = b.
Proof.
  intros H. exists (take a l), (drop a l). split; [now rewrite take_drop|].
  split; [apply take_len; lia|rewrite drop_len; lia].
Qed.

Lemma w_item_enc buf it :
  len (enc it) <= len buf ->
  w_item buf it = Ok (enc it ++ drop (len (enc it)) buf, len (enc it)).
Proof.
  intros Hfit.
  destruct (split_buf buf (len (enc it)) Hfit) as (old & rest & -> & Hold & Hrest).
  rewrite <- Hrest. clear Hrest Hfit.
  destruct it as [b|v|v|v|v|bits|v|v|t id| |kt vt sz|et sz|et sz]; cbn [w_item enc] in *.
  - unfold w_bool. rewrite (put_at [] old rest) by (auto). reflexivity.
  - unfold w_byte. rewrite (put_at [] old rest) by auto. reflexivity.
  - unfold w_i16. rewrite (put_at [] old rest) by auto. cbn [bind app]. now rewrite be_len.
  - unfold w_i32. rewrite (put_at [] old rest) by auto. cbn [bind app]. now rewrite be_len.
  - unfold w_i64. rewrite (put_at [] old rest) by auto. cbn [bind app]. now rewrite be_len.
  - unfold w_double. rewrite (put_at [] old rest) by auto. cbn [bind app]. now rewrite be_len.
  - rewrite len_app, be_len in Hold. destruct (len_split old _ _ Hold) as (o1 & o2 & -> & H1 & H2).
    unfold w_binary. rewrite <- app_assoc.
    rewrite (put_at [] o1 (o2 ++ rest)) by (rewrite ?be_len; auto). cbn [bind app].
    rewrite (copy_to_at (be 4 (len v mod two32)) o2 rest v) by (rewrite ?be_len; auto).
    cbn [bind]. rewrite len_app, be_len, <- app_assoc. reflexivity.
  - rewrite len_app, be_len in Hold. destruct (len_split old _ _ Hold) as (o1 & o2 & -> & H1 & H2).
    unfold w_binary. rewrite <- app_assoc.
    rewrite (put_at [] o1 (o2 ++ rest)) by (rewrite ?be_len; auto). cbn [bind app].
    rewrite (copy_to_at (be 4 (len v mod two32)) o2 rest v) by (rewrite ?be_len; auto).
    cbn [bind]. rewrite len_app, be_len, <- app_assoc. reflexivity.
  - rewrite len_app, be_len in Hold. destruct (len_split old _ _ Hold) as (o1 & o2 & -> & H1 & H2).
    unfold w_field_begin. rewrite <- app_assoc.
    rewrite (put_at [] o1 (o2 ++ rest)) by auto. cbn [bind app].
    rewrite (put_at [u8 t] o2 rest) by (rewrite ?be_len; auto). cbn [bind app].
    rewrite len_cons, be_len. reflexivity.
  - unfold w_field_stop. rewrite (put_at [] old rest) by auto. reflexivity.
  - change ([u8 kt; u8 vt] ++ be 4 (u32 sz)) with ([u8 kt] ++ [u8 vt] ++ be 4 (u32 sz)) in *.
    rewrite !len_app, be_len in Hold.
    destruct (len_split old _ _ Hold) as (o1 & o23 & -> & H1 & H23).
    destruct (len_split o23 _ _ H23) as (o2 & o3 & -> & H2 & H3).
    unfold w_map_begin. rewrite <- !app_assoc.
    rewrite (put_at [] o1 (o2 ++ o3 ++ rest)) by auto. cbn [bind app].
    rewrite (put_at [u8 kt] o2 (o3 ++ rest)) by auto. cbn [bind app].
    change (u8 kt :: u8 vt :: o3 ++ rest) with ([u8 kt; u8 vt] ++ o3 ++ rest).
    rewrite (put_at [u8 kt; u8 vt] o3 rest) by (rewrite ?be_len; auto). cbn [bind app].
    rewrite !len_cons, be_len. reflexivity.
  - rewrite len_app, be_len in Hold. destruct (len_split old _ _ Hold) as (o1 & o2 & -> & H1 & H2).
    unfold w_list_begin. rewrite <- app_assoc.
    rewrite (put_at [] o1 (o2 ++ rest)) by auto. cbn [bind app].
    rewrite (put_at [u8 et] o2 rest) by (rewrite ?be_len; auto). cbn [bind app].
    rewrite len_cons, be_len. reflexivity.
  - rewrite len_app, be_len in Hold. destruct (len_split old _ _ Hold) as (o1 & o2 & -> & H1 & H2).
    unfold w_list_begin. rewrite <- app_assoc.
    rewrite (put_at [] o1 (o2 ++ rest)) by auto. cbn [bind app].
    rewrite (put_at [u8 et] o2 rest) by (rewrite ?be_len; auto). cbn [bind app].
    rewrite len_cons, be_len. reflexivity.
Qed.

(* ---------- readers on enc ++ rest ---------- *)
Lemma need_ok buf k e : k <= len buf -> need buf k e = Ok tt.
Proof. intros H. unfold need. destruct (N.ltb_spec (len buf) k); [lia|reflexivity]. Qed.
Lemma need_err buf k e : len buf < k -> need buf k e = Err e.
Proof. intros H. unfold need. destruct (N.ltb_spec (len buf) k); [reflexivity|lia]. Qed.

Lemma take_be k x rest : take (N.of_nat k) (be k x ++ rest) = be k x.
Proof. apply take_app_exact. now rewrite be_len. Qed.
Lemma drop_be k x rest : drop (N.of_nat k) (be k x ++ rest) = rest.
Proof. apply drop_app_exact. now rewrite be_len. Qed.

Lemma take_be2 x rest : take 2 (be 2 x ++ rest) = be 2 x.
Proof. apply take_app_exact. now rewrite be_len. Qed.
Lemma take_be4 x rest : take 4 (be 4 x ++ rest) = be 4 x.
Proof. apply take_app_exact. now rewrite be_len. Qed.
Lemma take_be8 x rest : take 8 (be 8 x ++ rest) = be 8 x.
Proof. apply take_app_exact. now rewrite be_len. Qed.
Lemma drop_be4 x rest : drop 4 (be 4 x ++ rest) = rest.
Proof. apply drop_app_exact. now rewrite be_len. Qed.

Lemma unbe_be2 x : x < 65536 -> unbe (be 2 x) = x.
Proof. intros H. rewrite unbe_be. change (N.of_nat 2) with 2. rewrite p256_2. now apply N.mod_small. Qed.
Lemma unbe_be4 x : x < 4294967296 -> unbe (be 4 x) = x.
Proof. intros H. rewrite unbe_be. change (N.of_nat 4) with 4. rewrite p256_4. now apply N.mod_small. Qed.
Lemma unbe_be8 x : x < 18446744073709551616 -> unbe (be 8 x) = x.
Proof. intros H. rewrite unbe_be. change (N.of_nat 8) with 8. rewrite p256_8. now apply N.mod_small. Qed.

Lemma r_i32_be x rest : x < 4294967296 -> r_i32 (be 4 x ++ rest) = Ok (i32 x, 4).
Proof.
  intros H. unfold r_i32. rewrite need_ok by (rewrite len_app, be_len; lia). cbn [bind].
  now rewrite take_be4, unbe_be4.
Qed.
Lemma r_i32_enc v rest : in_signed 32 v -> r_i32 (be 4 (u32 v) ++ rest) = Ok (v, 4).
Proof. intros H. rewrite r_i32_be by apply u32_lt. now rewrite i32_u32. Qed.

Lemma i32_small u : u < two31 -> i32 u = Z.of_N u.
Proof.
  unfold two31. intros H. unfold i32, to_signed. change (2 ^ (32 - 1)) with 2147483648.
  destruct (N.ltb_spec u 2147483648); [reflexivity|lia].
Qed.

Lemma r_binary_gen_enc e v rest :
  len v < two31 -> r_binary_gen e (be 4 (len v mod two32) ++ v ++ rest) = Ok (v, 4 + len v).
Proof.
  intros H. unfold r_binary_gen. unfold two31, two32 in *.
  rewrite N.mod_small by lia.
  rewrite r_i32_be by lia. rewrite i32_small by (unfold two31; lia).
  destruct (Z.ltb_spec (Z.of_N (len v)) 0); [lia|]. rewrite N2Z.id.
  rewrite !len_app, be_len.
  destruct (N.ltb_spec (N.of_nat 4 + (len v + len rest)) (4 + len v)); [lia|].
  rewrite drop_be4. now rewrite take_app_len.
Qed.

Lemma in8 v : in_signedb 8 v = true -> in_signed 8 v. Proof. apply in_signedb_spec. Qed.
Lemma in16 v : in_signedb 16 v = true -> in_signed 16 v. Proof. apply in_signedb_spec. Qed.
Lemma in32 v : in_signedb 32 v = true -> in_signed 32 v. Proof. apply in_signedb_spec. Qed.
Lemma in64 v : in_signedb 64 v = true -> in_signed 64 v. Proof. apply in_signedb_spec. Qed.

Lemma len_cons_app_ge {A} (x : A) l r k : k <= 1 + len l + len r -> k <= len ((x :: l) ++ r).
Proof. rewrite len_app, len_cons. lia. Qed.

Lemma r_item_enc_0 b rest :
  item_ok (IBool b) = true -> r_item (kind_of (IBool b)) (enc (IBool b) ++ rest) = Ok (IBool b, len (enc (IBool b))).
Proof.
  intros Hok. cbn [item_ok kind_of r_item enc] in *.
  - unfold r_bool. cbn [app]. rewrite need_ok by (rewrite len_cons; lia). cbn [bind nth].
    destruct b; reflexivity.
Qed.

Lemma r_item_enc_1 v rest :
  item_ok (IByte v) = true -> r_item (kind_of (IByte v)) (enc (IByte v) ++ rest) = Ok (IByte v, len (enc (IByte v))).
Proof.
  intros Hok. cbn [item_ok kind_of r_item enc] in *.
  - unfold r_byte. cbn [app]. rewrite need_ok by (rewrite len_cons; lia). cbn [bind nth].
    now rewrite i8_u8 by now apply in8.
Qed.

Lemma r_item_enc_2 v rest :
  item_ok (II16 v) = true -> r_item (kind_of (II16 v)) (enc (II16 v) ++ rest) = Ok (II16 v, len (enc (II16 v))).
Proof.
  intros Hok. cbn [item_ok kind_of r_item enc] in *.
  - unfold r_i16. rewrite need_ok by (rewrite len_app, be_len; lia). cbn [bind].
    rewrite take_be2, unbe_be2 by apply u16_lt.
    rewrite i16_u16 by now apply in16. now rewrite be_len.
Qed.

Lemma r_item_enc_3 v rest :
  item_ok (II32 v) = true -> r_item (kind_of (II32 v)) (enc (II32 v) ++ rest) = Ok (II32 v, len (enc (II32 v))).
Proof.
  intros Hok. cbn [item_ok kind_of r_item enc] in *.
  - rewrite r_i32_enc by now apply in32. cbn [bind]. now rewrite be_len.
Qed.

Lemma r_item_enc_4 v rest :
  item_ok (II64 v) = true -> r_item (kind_of (II64 v)) (enc (II64 v) ++ rest) = Ok (II64 v, len (enc (II64 v))).
Proof.
  intros Hok. cbn [item_ok kind_of r_item enc] in *.
  - unfold r_i64. rewrite need_ok by (rewrite len_app, be_len; lia). cbn [bind].
    rewrite take_be8, unbe_be8 by apply u64_lt.
    rewrite i64_u64 by now apply in64. now rewrite be_len.
Qed.

Lemma r_item_enc_5 bits rest :
  item_ok (IDouble bits) = true -> r_item (kind_of (IDouble bits)) (enc (IDouble bits) ++ rest) = Ok (IDouble bits, len (enc (IDouble bits))).
Proof.
  intros Hok. cbn [item_ok kind_of r_item enc] in *.
  - unfold r_double. rewrite need_ok by (rewrite len_app, be_len; lia). cbn [bind].
    assert (Hb : bits < two64) by lia.
    rewrite (N.mod_small bits two64 Hb).
    rewrite take_be8, (unbe_be8 bits Hb). now rewrite be_len.
Qed.

Lemma r_item_enc_6 v rest :
  item_ok (IBinary v) = true -> r_item (kind_of (IBinary v)) (enc (IBinary v) ++ rest) = Ok (IBinary v, len (enc (IBinary v))).
Proof.
  intros Hok. cbn [item_ok kind_of r_item enc] in *.
  - apply andb_true_iff in Hok as [Hl _]. unfold r_binary. rewrite <- app_assoc.
    rewrite r_binary_gen_enc by lia. cbn [bind]. now rewrite len_app, be_len.
Qed.

Lemma r_item_enc_7 v rest :
  item_ok (IString v) = true -> r_item (kind_of (IString v)) (enc (IString v) ++ rest) = Ok (IString v, len (enc (IString v))).
Proof.
  intros Hok. cbn [item_ok kind_of r_item enc] in *.
  - apply andb_true_iff in Hok as [Hl _]. unfold r_string. rewrite <- app_assoc.
    rewrite r_binary_gen_enc by lia. cbn [bind]. now rewrite len_app, be_len.
Qed.

Lemma r_item_enc_8 t id rest :
  item_ok (IFieldBegin t id) = true -> r_item (kind_of (IFieldBegin t id)) (enc (IFieldBegin t id) ++ rest) = Ok (IFieldBegin t id, len (enc (IFieldBegin t id))).
Proof.
  intros Hok. cbn [item_ok kind_of r_item enc] in *.
  - apply andb_true_iff in Hok as [Hok Hnz]. apply andb_true_iff in Hok as [Ht Hid].
    unfold r_field_begin. cbn [app].
    rewrite need_ok by (rewrite len_cons; lia). cbn [bind nth].
    rewrite i8_u8 by now apply in8.
    change thrift_STOP with 0%Z.
    destruct (Z.eqb_spec t 0) as [->|Hne]; [discriminate|].
    rewrite need_ok by (rewrite len_cons, len_app, be_len; lia). cbn [bind].
    destruct (Z.eqb_spec t 0) as [->|_]; [congruence|].
    change (drop 1 (u8 t :: be 2 (u16 id) ++ rest)) with (be 2 (u16 id) ++ rest).
    rewrite take_be2, unbe_be2 by apply u16_lt.
    rewrite i16_u16 by now apply in16. rewrite len_cons, be_len. reflexivity.
Qed.

Lemma r_item_enc_9  rest :
  item_ok (IFieldStop) = true -> r_item (kind_of (IFieldStop)) (enc (IFieldStop) ++ rest) = Ok (IFieldStop, len (enc (IFieldStop))).
Proof.
  intros Hok. cbn [item_ok kind_of r_item enc] in *.
  - unfold r_field_begin. cbn [app]. rewrite need_ok by (rewrite len_cons; lia). cbn [bind nth].
    change (i8 0) with 0%Z. change thrift_STOP with 0%Z. cbn [Z.eqb bind]. reflexivity.
Qed.

Lemma r_item_enc_10 kt vt sz rest :
  item_ok (IMapBegin kt vt sz) = true -> r_item (kind_of (IMapBegin kt vt sz)) (enc (IMapBegin kt vt sz) ++ rest) = Ok (IMapBegin kt vt sz, len (enc (IMapBegin kt vt sz))).
Proof.
  intros Hok. cbn [item_ok kind_of r_item enc] in *.
  - apply andb_true_iff in Hok as [Hok H]. apply andb_true_iff in Hok as [Hok H0].
    apply andb_true_iff in Hok as [Hkt H1].
    unfold r_map_begin. cbn [app].
    rewrite need_ok by (rewrite !len_cons, len_app, be_len; lia). cbn [bind nth].
    rewrite (i8_u8 kt), (i8_u8 vt) by now apply in8.
    change (drop 2 (u8 kt :: u8 vt :: be 4 (u32 sz) ++ rest)) with (be 4 (u32 sz) ++ rest).
    rewrite take_be4, unbe_be4 by apply u32_lt.
    unfold two32 in *. rewrite u32_nonneg by lia. rewrite Z2N.id by lia.
    rewrite !len_cons, be_len. reflexivity.
Qed.

Lemma r_item_enc_11 et sz rest :
  item_ok (IListBegin et sz) = true -> r_item (kind_of (IListBegin et sz)) (enc (IListBegin et sz) ++ rest) = Ok (IListBegin et sz, len (enc (IListBegin et sz))).
Proof.
  intros Hok. cbn [item_ok kind_of r_item enc] in *.
  - apply andb_true_iff in Hok as [Hok H]. apply andb_true_iff in Hok as [Het H0].
    unfold r_list_begin, r_list_begin_gen. cbn [app].
    rewrite need_ok by (rewrite !len_cons, len_app, be_len; lia). cbn [bind nth].
    rewrite !i8_u8 by now apply in8.
    change (drop 1 (u8 et :: be 4 (u32 sz) ++ rest)) with (be 4 (u32 sz) ++ rest).
    rewrite take_be4, unbe_be4 by apply u32_lt.
    unfold two32 in *. rewrite u32_nonneg by lia. rewrite Z2N.id by lia.
    rewrite !len_cons, be_len. reflexivity.
Qed.

Lemma r_item_enc_12 et sz rest :
  item_ok (ISetBegin et sz) = true -> r_item (kind_of (ISetBegin et sz)) (enc (ISetBegin et sz) ++ rest) = Ok (ISetBegin et sz, len (enc (ISetBegin et sz))).
Proof.
  intros Hok. cbn [item_ok kind_of r_item enc] in *.
  - apply andb_true_iff in Hok as [Hok H]. apply andb_true_iff in Hok as [Het H0].
    unfold r_set_begin, r_list_begin_gen. cbn [app].
    rewrite need_ok by (rewrite !len_cons, len_app, be_len; lia). cbn [bind nth].
    rewrite !i8_u8 by now apply in8.
    change (drop 1 (u8 et :: be 4 (u32 sz) ++ rest)) with (be 4 (u32 sz) ++ rest).
    rewrite take_be4, unbe_be4 by apply u32_lt.
    unfold two32 in *. rewrite u32_nonneg by lia. rewrite Z2N.id by lia.
    rewrite !len_cons, be_len. reflexivity.
Qed.

Lemma r_item_enc it rest :
  item_ok it = true -> r_item (kind_of it) (enc it ++ rest) = Ok (it, len (enc it)).
Proof.
  destruct it as [b|v|v|v|v|bits|v|v|t id| |kt vt sz|et sz|et sz].
  - apply r_item_enc_0. - apply r_item_enc_1. - apply r_item_enc_2. - apply r_item_enc_3.
  - apply r_item_enc_4. - apply r_item_enc_5. - apply r_item_enc_6. - apply r_item_enc_7.
  - apply r_item_enc_8. - apply r_item_enc_9. - apply r_item_enc_10. - apply r_item_enc_11.
  - apply r_item_enc_12.
Qed.

(* ====================================================================================== *)
(* ---------- in-place writers at an offset: Binary.WriteX(buf[off:], v) ---------- *)
Lemma slice_from_ok {A} (b : list A) off : off <= len b -> slice_from b off = Ok (drop off b).
Proof. intros H. unfold slice_from. destruct (N.leb_spec off (len b)); [reflexivity|lia]. Qed.

Lemma w_at_enc buf off it :
  off + len (enc it) <= len buf ->
  w_at buf off it = Ok (take off buf ++ enc it ++ drop (off + len (enc it)) buf, len (enc it)).
Proof.
  intros H. unfold w_at. rewrite slice_from_ok by lia. cbn [bind].
  rewrite w_item_enc by (rewrite drop_len; lia). cbn [bind].
  now rewrite drop_drop.
Qed.

Lemma nth_skipn' {A} (l : list A) n i d : nth i (skipn n l) d = nth (n + i) l d.
Proof.
  revert l; induction n as [|n IH]; intros l; [reflexivity|].
  destruct l as [|x l]; cbn [skipn Nat.add nth]; [now destruct i|apply IH].
Qed.

(* every position outside [off, off + |enc it|) keeps its byte *)
Lemma nth_app_l_len {A} (a b : list A) i d : (i < length a)%nat -> nth i (a ++ b) d = nth i a d.
Proof. intros H. now apply app_nth1. Qed.

Lemma w_at_frame buf off it b' n i d :
  off + len (enc it) <= len buf -> w_at buf off it = Ok (b', n) ->
  (N.of_nat i < off \/ off + len (enc it) <= N.of_nat i) -> nth i b' d = nth i buf d.
Proof.
  intros Hfit Hw Hi. rewrite w_at_enc in Hw by exact Hfit. inversion Hw; subst b' n. clear Hw.
  transitivity (nth i (take off buf ++ drop off buf) d); [|now rewrite take_drop].
  assert (Hlt : length (take off buf) = N.to_nat off).
  { pose proof (take_len off buf ltac:(lia)) as Hl. unfold len in Hl. lia. }
  destruct Hi as [Hi|Hi].
  - rewrite !app_nth1 by lia. reflexivity.
  - rewrite (app_nth2 (take off buf) (enc it ++ _)) by lia.
    rewrite (app_nth2 (take off buf) (drop off buf)) by lia. rewrite Hlt.
    assert (Hle : length (enc it) = N.to_nat (len (enc it))) by (unfold len; lia).
    rewrite app_nth2 by lia.
    unfold drop. rewrite !nth_skipn'. f_equal. lia.
Qed.

Lemma w_at_len buf off it b' n :
  off + len (enc it) <= len buf -> w_at buf off it = Ok (b', n) -> len b' = len buf.
Proof.
  intros Hfit Hw. rewrite w_at_enc in Hw by exact Hfit. inversion Hw; subst.
  rewrite !len_app, take_len, drop_len by lia. lia.
Qed.

(* ---------- bool decodes as "byte = 1" ---------- *)
Lemma r_bool_decodes x rest : r_bool (x :: rest) = Ok (x =? 1, 1).
Proof. unfold r_bool. rewrite need_ok by (rewrite len_cons; lia). reflexivity. Qed.

(* ---------- totality and extent bounds of the buffer readers on ARBITRARY bytes ---------- *)
Ltac need_case b k :=
  unfold need; destruct (N.ltb_spec (len b) k); cbn [bind safe].

Lemma r_bool_total b : safe (r_bool b).
Proof. unfold r_bool. need_case b 1; exact I. Qed.
Lemma r_byte_total b : safe (r_byte b).
Proof. unfold r_byte. need_case b 1; exact I. Qed.
Lemma r_i16_total b : safe (r_i16 b).
Proof. unfold r_i16. need_case b 2; exact I. Qed.
Lemma r_i32_total b : safe (r_i32 b).
Proof. unfold r_i32. need_case b 4; exact I. Qed.
Lemma r_i64_total b : safe (r_i64 b).
Proof. unfold r_i64. need_case b 8; exact I. Qed.
Lemma r_double_total b : safe (r_double b).
Proof. unfold r_double. need_case b 8; exact I. Qed.

Lemma r_i32_cases b : (len b < 4 /\ r_i32 b = Err e_read_i32) \/ (4 <= len b /\ r_i32 b = Ok (i32 (unbe (take 4 b)), 4)).
Proof. unfold r_i32. need_case b 4; [left|right]; split; auto. Qed.

Lemma r_binary_gen_total e b : safe (r_binary_gen e b).
Proof.
  unfold r_binary_gen. destruct (r_i32_cases b) as [[_ ->]|[_ ->]]; [exact I|].
  destruct (Z.ltb_spec (i32 (unbe (take 4 b))) 0); [exact I|].
  destruct (N.ltb_spec (len b) (4 + Z.to_N (i32 (unbe (take 4 b))))); exact I.
Qed.
Lemma r_binary_total b : safe (r_binary b). Proof. apply r_binary_gen_total. Qed.
Lemma r_string_total b : safe (r_string b). Proof. apply r_binary_gen_total. Qed.

Lemma r_field_begin_total b : safe (r_field_begin b).
Proof.
  unfold r_field_begin. need_case b 1; [exact I|].
  destruct (Z.eqb (i8 (nth 0 b 0)) thrift_STOP); [exact I|]. need_case b 3; exact I.
Qed.
Lemma r_map_begin_total b : safe (r_map_begin b).
Proof. unfold r_map_begin. need_case b 6; exact I. Qed.
Lemma r_list_begin_total b : safe (r_list_begin b).
Proof. unfold r_list_begin, r_list_begin_gen. need_case b 5; exact I. Qed.
Lemma r_set_begin_total b : safe (r_set_begin b).
Proof. unfold r_set_begin, r_list_begin_gen. need_case b 5; exact I. Qed.

Ltac need_inv b k H :=
  let Hk := fresh "Hk" in
  unfold need in H; destruct (N.ltb_spec (len b) k) as [Hk|Hk]; cbn [bind] in H; [discriminate|inversion H; subst; lia].

Lemma r_bool_bounded b v n : r_bool b = Ok (v, n) -> n <= len b.
Proof. intros H. unfold r_bool in H. need_inv b 1 H. Qed.
Lemma r_byte_bounded b v n : r_byte b = Ok (v, n) -> n <= len b.
Proof. intros H. unfold r_byte in H. need_inv b 1 H. Qed.
Lemma r_i16_bounded b v n : r_i16 b = Ok (v, n) -> n <= len b.
Proof. intros H. unfold r_i16 in H. need_inv b 2 H. Qed.
Lemma r_i32_bounded b v n : r_i32 b = Ok (v, n) -> n <= len b.
Proof. intros H. unfold r_i32 in H. need_inv b 4 H. Qed.
Lemma r_i64_bounded b v n : r_i64 b = Ok (v, n) -> n <= len b.
Proof. intros H. unfold r_i64 in H. need_inv b 8 H. Qed.
Lemma r_double_bounded b v n : r_double b = Ok (v, n) -> n <= len b.
Proof. intros H. unfold r_double in H. need_inv b 8 H. Qed.

(* exact shape of a successful string read *)
Lemma r_binary_gen_ok e b v n :
  r_binary_gen e b = Ok (v, n) ->
  exists sz, 4 <= len b /\ i32 (unbe (take 4 b)) = Z.of_N sz /\ n = 4 + sz /\ n <= len b /\ v = take sz (drop 4 b).
Proof.
  unfold r_binary_gen. destruct (r_i32_cases b) as [[_ ->]|[H4 ->]]; [discriminate|].
  destruct (Z.ltb_spec (i32 (unbe (take 4 b))) 0); [discriminate|].
  destruct (N.ltb_spec (len b) (4 + Z.to_N (i32 (unbe (take 4 b))))); [discriminate|].
  intros Hx. inversion Hx; subst. exists (Z.to_N (i32 (unbe (take 4 b)))).
  split; [exact H4|]. split; [lia|]. split; [reflexivity|]. split; [assumption|reflexivity].
Qed.
Lemma r_binary_gen_bounded e b v n : r_binary_gen e b = Ok (v, n) -> n <= len b.
Proof. intros H. apply r_binary_gen_ok in H as (sz & _ & _ & _ & H & _). exact H. Qed.
Lemma r_binary_bounded b v n : r_binary b = Ok (v, n) -> n <= len b.
Proof. apply r_binary_gen_bounded. Qed.
Lemma r_string_bounded b v n : r_string b = Ok (v, n) -> n <= len b.
Proof. apply r_binary_gen_bounded. Qed.
(* the errors of the string readers *)
Lemma r_binary_gen_err e b x : r_binary_gen e b = Err x -> x = e \/ x = e_neg_size.
Proof.
  unfold r_binary_gen. destruct (r_i32_cases b) as [[_ ->]|[H4 ->]]; [intros Hx; inversion Hx; auto|].
  destruct (Z.ltb_spec (i32 (unbe (take 4 b))) 0) as [Hn|Hn]; [intros Hx; inversion Hx; auto|].
  destruct (N.ltb_spec (len b) (4 + Z.to_N (i32 (unbe (take 4 b))))) as [Hs|Hs]; intros Hx; inversion Hx; auto.
Qed.

Lemma r_field_begin_bounded b t id n : r_field_begin b = Ok (t, id, n) -> n <= len b.
Proof.
  unfold r_field_begin. unfold need. destruct (N.ltb_spec (len b) 1) as [H1|H1]; cbn [bind]; [discriminate|].
  destruct (Z.eqb (i8 (nth 0 b 0)) thrift_STOP); [intros Hx; inversion Hx; subst; lia|].
  destruct (N.ltb_spec (len b) 3) as [H3|H3]; cbn [bind]; [discriminate|]. intros Hx; inversion Hx; subst; lia.
Qed.
Lemma r_map_begin_bounded b kt vt sz n : r_map_begin b = Ok (kt, vt, sz, n) -> n <= len b.
Proof. intros H. unfold r_map_begin in H. need_inv b 6 H. Qed.
Lemma r_list_begin_bounded b et sz n : r_list_begin b = Ok (et, sz, n) -> n <= len b.
Proof. intros H. unfold r_list_begin, r_list_begin_gen in H. need_inv b 5 H. Qed.
Lemma r_set_begin_bounded b et sz n : r_set_begin b = Ok (et, sz, n) -> n <= len b.
Proof. intros H. unfold r_set_begin, r_list_begin_gen in H. need_inv b 5 H. Qed.

Lemma r_item_total k b : safe (r_item k b).
Proof.
  destruct k; cbn [r_item].
  - pose proof (r_bool_total b). destruct (r_bool b) as [[? ?]| | |]; cbn [bind safe] in *; auto.
  - pose proof (r_byte_total b). destruct (r_byte b) as [[? ?]| | |]; cbn [bind safe] in *; auto.
  - pose proof (r_i16_total b). destruct (r_i16 b) as [[? ?]| | |]; cbn [bind safe] in *; auto.
  - pose proof (r_i32_total b). destruct (r_i32 b) as [[? ?]| | |]; cbn [bind safe] in *; auto.
  - pose proof (r_i64_total b). destruct (r_i64 b) as [[? ?]| | |]; cbn [bind safe] in *; auto.
  - pose proof (r_double_total b). destruct (r_double b) as [[? ?]| | |]; cbn [bind safe] in *; auto.
  - pose proof (r_binary_total b). destruct (r_binary b) as [[? ?]| | |]; cbn [bind safe] in *; auto.
  - pose proof (r_string_total b). destruct (r_string b) as [[? ?]| | |]; cbn [bind safe] in *; auto.
  - pose proof (r_field_begin_total b). destruct (r_field_begin b) as [[[? ?] ?]| | |]; cbn [bind safe] in *; auto.
  - pose proof (r_map_begin_total b). destruct (r_map_begin b) as [[[[? ?] ?] ?]| | |]; cbn [bind safe] in *; auto.
  - pose proof (r_list_begin_total b). destruct (r_list_begin b) as [[[? ?] ?]| | |]; cbn [bind safe] in *; auto.
  - pose proof (r_set_begin_total b). destruct (r_set_begin b) as [[[? ?] ?]| | |]; cbn [bind safe] in *; auto.
Qed.

Lemma r_item_bounded k b it n : r_item k b = Ok (it, n) -> n <= len b.
Proof.
  destruct k; cbn [r_item].
  - destruct (r_bool b) as [[v m]| | |] eqn:E; cbn [bind]; try discriminate. intros H; inversion H; subst. eapply r_bool_bounded; eauto.
  - destruct (r_byte b) as [[v m]| | |] eqn:E; cbn [bind]; try discriminate. intros H; inversion H; subst. eapply r_byte_bounded; eauto.
  - destruct (r_i16 b) as [[v m]| | |] eqn:E; cbn [bind]; try discriminate. intros H; inversion H; subst. eapply r_i16_bounded; eauto.
  - destruct (r_i32 b) as [[v m]| | |] eqn:E; cbn [bind]; try discriminate. intros H; inversion H; subst. eapply r_i32_bounded; eauto.
  - destruct (r_i64 b) as [[v m]| | |] eqn:E; cbn [bind]; try discriminate. intros H; inversion H; subst. eapply r_i64_bounded; eauto.
  - destruct (r_double b) as [[v m]| | |] eqn:E; cbn [bind]; try discriminate. intros H; inversion H; subst. eapply r_double_bounded; eauto.
  - destruct (r_binary b) as [[v m]| | |] eqn:E; cbn [bind]; try discriminate. intros H; inversion H; subst. eapply r_binary_bounded; eauto.
  - destruct (r_string b) as [[v m]| | |] eqn:E; cbn [bind]; try discriminate. intros H; inversion H; subst. eapply r_string_bounded; eauto.
  - destruct (r_field_begin b) as [[[t id] m]| | |] eqn:E; cbn [bind]; try discriminate. intros H; inversion H; subst. eapply r_field_begin_bounded; eauto.
  - destruct (r_map_begin b) as [[[[kt vt] sz] m]| | |] eqn:E; cbn [bind]; try discriminate. intros H; inversion H; subst. eapply r_map_begin_bounded; eauto.
  - destruct (r_list_begin b) as [[[et sz] m]| | |] eqn:E; cbn [bind]; try discriminate. intros H; inversion H; subst. eapply r_list_begin_bounded; eauto.
  - destruct (r_set_begin b) as [[[et sz] m]| | |] eqn:E; cbn [bind]; try discriminate. intros H; inversion H; subst. eapply r_set_begin_bounded; eauto.
Qed.

(* ---------- a sequence of in-place writes ---------- *)
Lemma w_seq_enc its : forall buf off,
  off + len (concat (map enc its)) <= len buf ->
  w_seq buf off its =
    Ok (take off buf ++ concat (map enc its) ++ drop (off + len (concat (map enc its))) buf, map (fun it => len (enc it)) its).
Proof.
  induction its as [|it its IH]; intros buf off Hfit; cbn [w_seq map concat] in *.
  - cbn [app]. rewrite len_nil, N.add_0_r. now rewrite take_drop.
  - rewrite len_app in Hfit. rewrite w_at_enc by lia. cbn [bind].
    set (b1 := take off buf ++ enc it ++ drop (off + len (enc it)) buf).
    assert (Hl1 : len b1 = len buf).
    { unfold b1. rewrite !len_app, take_len, drop_len by lia. lia. }
    rewrite IH by lia. cbn [bind]. f_equal. f_equal.
    assert (Ht : take (off + len (enc it)) b1 = take off buf ++ enc it).
    { unfold b1. rewrite app_assoc. apply take_app_exact. rewrite len_app, take_len by lia. reflexivity. }
    assert (Hd : drop (off + len (enc it) + len (concat (map enc its))) b1 =
                 drop (off + (len (enc it) + len (concat (map enc its)))) buf).
    { unfold b1. rewrite app_assoc.
      replace (off + len (enc it) + len (concat (map enc its)))
        with (len (take off buf ++ enc it) + len (concat (map enc its)))
        by (rewrite len_app, take_len by lia; reflexivity).
      rewrite <- drop_drop, drop_app_len, drop_drop. f_equal. lia. }
    rewrite Ht, Hd, len_app, <- !app_assoc. reflexivity.
Qed.

(* field headers read directly *)
Lemma r_field_begin_enc t id rest :
  in_signed 8 t -> in_signed 16 id -> t <> 0%Z ->
  r_field_begin (enc (IFieldBegin t id) ++ rest) = Ok (t, id, 3).
Proof.
  intros Ht Hid Hnz. cbn [enc]. unfold r_field_begin. cbn [app].
  rewrite need_ok by (rewrite len_cons; lia). cbn [bind nth].
  rewrite i8_u8 by exact Ht. change thrift_STOP with 0%Z.
  destruct (Z.eqb_spec t 0) as [->|_]; [congruence|].
  rewrite need_ok by (rewrite len_cons, len_app, be_len; lia). cbn [bind].
  change (drop 1 (u8 t :: be 2 (u16 id) ++ rest)) with (be 2 (u16 id) ++ rest).
  rewrite take_be2, unbe_be2 by apply u16_lt. now rewrite i16_u16.
Qed.
Lemma r_field_begin_stop rest : r_field_begin (0 :: rest) = Ok (0%Z, 0%Z, 1).
Proof.
  unfold r_field_begin. rewrite need_ok by (rewrite len_cons; lia). cbn [bind nth].
  change (i8 0) with 0%Z. change thrift_STOP with 0%Z. reflexivity.
Qed.

(* ---------- ReadMessageBegin on arbitrary bytes ---------- *)
(* totality and extent bound on arbitrary bytes *)
Lemma to_msg_err_ok {A} (r : res A) x : to_msg_err r = Ok x -> r = Ok x.
Proof. destruct r; cbn [to_msg_err]; congruence. Qed.
Lemma to_msg_err_safe {A} (r : res A) : safe r -> safe (to_msg_err r).
Proof. destruct r; cbn [to_msg_err safe]; auto. Qed.

Lemma r_message_begin_total b : safe (r_message_begin b).
Proof.
  unfold r_message_begin. destruct (N.ltb_spec (len b) 4) as [H4|H4]; [exact I|].
  destruct (negb _); [exact I|].
  rewrite slice_from_ok by lia. cbn [bind].
  pose proof (r_string_total (drop 4 b)) as Hs.
  destruct (r_string (drop 4 b)) as [[name l]|e|w|] eqn:E; cbn [to_msg_err to_msg_err_name bind safe] in *; auto;
    [|destruct (e =? e_neg_size)%Z; exact I].
  apply r_string_bounded in E. rewrite drop_len in E by lia.
  rewrite slice_from_ok by lia. cbn [bind].
  pose proof (r_i32_total (drop (4 + l) b)) as Hi.
  destruct (r_i32 (drop (4 + l) b)) as [[sq l2]|e|w|]; cbn [to_msg_err to_msg_err_name bind safe] in *; auto.
Qed.

Lemma r_message_begin_bounded b name ty seq n : r_message_begin b = Ok (name, ty, seq, n) -> n <= len b.
Proof.
  unfold r_message_begin. destruct (N.ltb_spec (len b) 4) as [H4|H4]; [discriminate|].
  destruct (negb _); [discriminate|].
  rewrite slice_from_ok by lia. cbn [bind].
  destruct (r_string (drop 4 b)) as [[nm l]|e|w|] eqn:E; cbn [to_msg_err to_msg_err_name bind]; try discriminate;
    [|destruct (e =? e_neg_size)%Z; discriminate].
  apply r_string_bounded in E. rewrite drop_len in E by lia.
  rewrite slice_from_ok by lia. cbn [bind].
  destruct (r_i32 (drop (4 + l) b)) as [[sq l2]|e|w|] eqn:E2; cbn [to_msg_err to_msg_err_name bind]; try discriminate.
  apply r_i32_bounded in E2. rewrite drop_len in E2 by lia.
  intros Hx. assert (Hn : n = 4 + l + l2) by congruence. lia.
Qed.

(* the only errors of the buffer reader *)
Lemma r_message_begin_errs b e : r_message_begin b = Err e ->
  e = e_read_message \/ e = e_bad_version \/ e = e_neg_size.
Proof.
  unfold r_message_begin. destruct (N.ltb_spec (len b) 4) as [H4|H4]; [intros Hx; inversion Hx; auto|].
  destruct (negb _); [intros Hx; inversion Hx; auto|].
  rewrite slice_from_ok by lia. cbn [bind].
  destruct (r_string (drop 4 b)) as [[nm l]|x|w|] eqn:E; cbn [to_msg_err to_msg_err_name bind]; try discriminate;
    [|destruct (x =? e_neg_size)%Z; intros Hx; inversion Hx; auto].
  apply r_string_bounded in E. rewrite drop_len in E by lia.
  rewrite slice_from_ok by lia. cbn [bind].
  destruct (r_i32 (drop (4 + l) b)) as [[sq l2]|x|w|] eqn:E2; cbn [to_msg_err to_msg_err_name bind]; try discriminate.
  intros Hx; inversion Hx; auto.
Qed.

