(* Proofs/StreamReaderP.v — C01 / C12, stream reader: thrift.BufferReader over any bufiox reader
   state that satisfies the reader contract.

   The contract (the hypotheses named RC_...) is what the refinement of the buffered reader (property C04)
   provides: [At S c st] = "st is a reachable reader state positioned at cursor c of stream S
   whose fragmentation script cannot stall".  Quantifying over [At] is quantifying over every
   source, every fragmentation script (1-byte reads, short reads, empty reads, data delivered
   together with the final error), every history that led to st.  The theorems are closed by
   the Section: they take the contract as explicit premises. *)
From GV Require Import Lib.Bytes Lib.Res Gen.Consts Model.Binary Model.BufReader Model.StreamCodec Spec.Wire
     Proofs.BinaryP Proofs.MessageP.
From Coq Require Import ZifyN ZifyNat ZifyBool.
Open Scope N_scope.

Section ReaderContract.
  Variable At : bytes -> N -> rstate -> Prop.

  Hypothesis RC_next_ok : forall S c st n, At S c st -> c + n <= len S ->
    exists st', r_next st (Z.of_N n) = (st', OBytes (take n (drop c S))) /\ At S (c + n) st' /\
                r_readlen st' = r_readlen st + n.
  Hypothesis RC_next_short : forall S c st n, At S c st -> len S < c + n ->
    exists st' e, r_next st (Z.of_N n) = (st', OErr e) /\ At S c st' /\ r_readlen st' = r_readlen st.
  Hypothesis RC_readbinary_ok : forall S c st k, At S c st -> c + k <= len S ->
    exists st', r_readbinary st k = (st', ORead k (take k (drop c S)) None) /\ At S (c + k) st' /\
                r_readlen st' = r_readlen st + k.
  Hypothesis RC_readbinary_short : forall S c st k, At S c st -> len S < c + k ->
    exists st' m e, r_readbinary st k = (st', ORead m (take m (drop c S)) (Some e)) /\ m < k /\
                    At S (c + m) st' /\ r_readlen st' = r_readlen st + m.

  (* ---------- the stream has X at the cursor ---------- *)
  Lemma have_at (S : bytes) c X rest : drop c S = X ++ rest -> X <> [] ->
    c + len X <= len S /\ take (len X) (drop c S) = X /\ drop (c + len X) S = rest.
  Proof.
    intros Hd Hne.
    assert (Hc : c < len S).
    { destruct (N.ltb_spec c (len S)) as [H|H]; [exact H|].
      rewrite drop_all in Hd by exact H. destruct X; [congruence|discriminate]. }
    assert (Hl : len (drop c S) = len S - c) by (apply drop_len; lia).
    rewrite Hd, len_app in Hl. split; [lia|]. split.
    - rewrite Hd. apply take_app_len.
    - rewrite <- drop_drop, Hd. apply drop_app_len.
  Qed.

  Lemma sr_next_have S c st X rest :
    At S c st -> drop c S = X ++ rest -> X <> [] ->
    exists st', sr_next st (Z.of_N (len X)) = (st', Ok X) /\ At S (c + len X) st' /\
                r_readlen st' = r_readlen st + len X /\ drop (c + len X) S = rest.
  Proof.
    intros Ha Hd Hne. destruct (have_at S c X rest Hd Hne) as (Hfit & Ht & Hr).
    destruct (RC_next_ok S c st (len X) Ha Hfit) as (st' & Hn & Ha' & Hl).
    exists st'. unfold sr_next. rewrite Hn, Ht. auto.
  Qed.

  Lemma sr_next_short S c st n :
    At S c st -> len S < c + n ->
    exists st' e, sr_next st (Z.of_N n) = (st', Err (wrap e)) /\ At S c st' /\ r_readlen st' = r_readlen st.
  Proof.
    intros Ha Hs. destruct (RC_next_short S c st n Ha Hs) as (st' & e & Hn & Ha' & Hl).
    exists st', e. unfold sr_next. rewrite Hn. auto.
  Qed.

  Lemma enc_nonempty it : enc it <> [].
  Proof.
    intros H. apply (f_equal len) in H. rewrite <- l_item_enc, len_nil in H. destruct it; cbn [l_item] in H; lia.
  Qed.
  Lemma be_nonempty k x : be (S k) x <> [].
  Proof. cbn [be]. intros H. apply (f_equal (@length N)) in H. rewrite app_length in H. cbn in H. lia. Qed.

  Lemma get_be_be k x : x < 256 ^ N.of_nat k -> get_be (N.of_nat k) (be k x) = Ok x.
  Proof.
    intros H. unfold get_be. rewrite be_len. rewrite N.ltb_irrefl.
    rewrite <- (app_nil_r (be k x)) at 1. rewrite take_be, unbe_be. now rewrite N.mod_small.
  Qed.

  Lemma index0 {A} (x : A) l : index (x :: l) 0 = Ok x. Proof. reflexivity. Qed.
  Lemma index1 {A} (x y : A) l : index (x :: y :: l) 1 = Ok y. Proof. reflexivity. Qed.
  Lemma get_be2 x : x < 65536 -> get_be 2 (be 2 x) = Ok x.
  Proof. intros H. apply (get_be_be 2). exact H. Qed.
  Lemma get_be4 x : x < 4294967296 -> get_be 4 (be 4 x) = Ok x.
  Proof. intros H. apply (get_be_be 4). exact H. Qed.
  Lemma get_be8 x : x < 18446744073709551616 -> get_be 8 (be 8 x) = Ok x.
  Proof. intros H. apply (get_be_be 8). exact H. Qed.

  (* ---------- fixed-size scalars ---------- *)
  Definition rd_ok {A} (S : bytes) (c : N) (st : rstate) (r : srd A) (v : A) (n : N) (rest : bytes) : Prop :=
    exists st', r = (st', Ok v) /\ At S (c + n) st' /\ r_readlen st' = r_readlen st + n /\ drop (c + n) S = rest.

  Lemma sr_bool_enc S c st b rest : At S c st -> drop c S = enc (IBool b) ++ rest ->
    rd_ok S c st (sr_bool st) b 1 rest.
  Proof.
    intros Ha Hd. destruct (sr_next_have S c st _ rest Ha Hd (enc_nonempty _)) as (st' & Hn & Ha' & Hl & Hr).
    exists st'. unfold sr_bool. change (Z.of_N (len (enc (IBool b)))) with 1%Z in Hn. rewrite Hn.
    change (len (enc (IBool b))) with 1 in *. repeat split; auto. destruct b; reflexivity.
  Qed.

  Lemma sr_byte_enc S c st v rest : At S c st -> drop c S = enc (IByte v) ++ rest -> in_signed 8 v ->
    rd_ok S c st (sr_byte st) v 1 rest.
  Proof.
    intros Ha Hd Hv. destruct (sr_next_have S c st _ rest Ha Hd (enc_nonempty _)) as (st' & Hn & Ha' & Hl & Hr).
    exists st'. unfold sr_byte. change (Z.of_N (len (enc (IByte v)))) with 1%Z in Hn. rewrite Hn.
    change (len (enc (IByte v))) with 1 in *. repeat split; auto.
    cbn [enc bind]. rewrite index0. cbn [bind]. now rewrite i8_u8.
  Qed.

  Lemma sr_i16_enc S c st v rest : At S c st -> drop c S = enc (II16 v) ++ rest -> in_signed 16 v ->
    rd_ok S c st (sr_i16 st) v 2 rest.
  Proof.
    intros Ha Hd Hv. destruct (sr_next_have S c st _ rest Ha Hd (enc_nonempty _)) as (st' & Hn & Ha' & Hl & Hr).
    exists st'. unfold sr_i16. cbn [enc] in *. rewrite be_len in *. change (Z.of_N (N.of_nat 2)) with 2%Z in Hn. rewrite Hn.
    change (N.of_nat 2) with 2 in *. repeat split; auto.
    cbn [bind]. rewrite get_be2 by apply u16_lt. cbn [bind]. now rewrite i16_u16.
  Qed.

  Lemma sr_i32_be S c st x rest : At S c st -> drop c S = be 4 x ++ rest -> x < 4294967296 ->
    rd_ok S c st (sr_i32 st) (i32 x) 4 rest.
  Proof.
    intros Ha Hd Hx. destruct (sr_next_have S c st _ rest Ha Hd (be_nonempty 3 x)) as (st' & Hn & Ha' & Hl & Hr).
    exists st'. unfold sr_i32. rewrite be_len in *. change (Z.of_N (N.of_nat 4)) with 4%Z in Hn. rewrite Hn.
    change (N.of_nat 4) with 4 in *. repeat split; auto.
    cbn [bind]. rewrite get_be4 by exact Hx. reflexivity.
  Qed.
  Lemma sr_i32_enc S c st v rest : At S c st -> drop c S = enc (II32 v) ++ rest -> in_signed 32 v ->
    rd_ok S c st (sr_i32 st) v 4 rest.
  Proof.
    intros Ha Hd Hv. cbn [enc] in Hd. pose proof (sr_i32_be S c st (u32 v) rest Ha Hd (u32_lt v)) as H.
    now rewrite i32_u32 in H.
  Qed.

  Lemma sr_i64_enc S c st v rest : At S c st -> drop c S = enc (II64 v) ++ rest -> in_signed 64 v ->
    rd_ok S c st (sr_i64 st) v 8 rest.
  Proof.
    intros Ha Hd Hv. destruct (sr_next_have S c st _ rest Ha Hd (enc_nonempty _)) as (st' & Hn & Ha' & Hl & Hr).
    exists st'. unfold sr_i64. cbn [enc] in *. rewrite be_len in *. change (Z.of_N (N.of_nat 8)) with 8%Z in Hn. rewrite Hn.
    change (N.of_nat 8) with 8 in *. repeat split; auto.
    cbn [bind]. rewrite get_be8 by apply u64_lt. cbn [bind]. now rewrite i64_u64.
  Qed.

  Lemma sr_double_enc S c st bits rest : At S c st -> drop c S = enc (IDouble bits) ++ rest -> bits < two64 ->
    rd_ok S c st (sr_double st) bits 8 rest.
  Proof.
    intros Ha Hd Hv. destruct (sr_next_have S c st _ rest Ha Hd (enc_nonempty _)) as (st' & Hn & Ha' & Hl & Hr).
    exists st'. unfold sr_double. cbn [enc] in *. rewrite be_len in *. change (Z.of_N (N.of_nat 8)) with 8%Z in Hn. rewrite Hn.
    change (N.of_nat 8) with 8 in *. repeat split; auto.
    cbn [bind]. rewrite (N.mod_small bits two64 Hv). now rewrite get_be8 by exact Hv.
  Qed.

  (* ---------- strings ---------- *)
  Lemma sr_binary_enc S c st v rest : At S c st -> drop c S = be 4 (len v mod two32) ++ v ++ rest -> len v < two31 ->
    rd_ok S c st (sr_binary st) v (4 + len v) rest.
  Proof.
    intros Ha Hd Hv. unfold two31, two32 in *. rewrite N.mod_small in Hd by lia.
    destruct (sr_i32_be S c st (len v) (v ++ rest) Ha Hd ltac:(lia)) as (st1 & H1 & Ha1 & Hl1 & Hr1).
    unfold sr_binary. rewrite H1. rewrite i32_small by (unfold two31; lia).
    destruct (Z.ltb_spec (Z.of_N (len v)) 0) as [Hneg|_]; [lia|]. rewrite N2Z.id.
    assert (Hfit : c + 4 + len v <= len S).
    { assert (Hc : c + 4 <= len S).
      { destruct (have_at S c (be 4 (len v)) (v ++ rest) Hd (be_nonempty 3 _)) as (H & _ & _).
        rewrite be_len in H. exact H. }
      pose proof (drop_len (c + 4) S Hc) as Hdl. rewrite Hr1, len_app in Hdl. lia. }
    destruct (RC_readbinary_ok S (c + 4) st1 (len v) Ha1 Hfit) as (st2 & H2 & Ha2 & Hl2).
    rewrite H2, N.eqb_refl. exists st2. rewrite Hr1, take_app_len.
    replace (c + (4 + len v)) with (c + 4 + len v) by lia.
    repeat split; auto; [lia|]. rewrite <- drop_drop, Hr1. apply drop_app_len.
  Qed.

  (* ---------- headers ---------- *)
  Lemma sr_field_begin_enc S c st t id rest :
    At S c st -> drop c S = enc (IFieldBegin t id) ++ rest -> in_signed 8 t -> in_signed 16 id -> t <> 0%Z ->
    rd_ok S c st (sr_field_begin st) (t, id) 3 rest.
  Proof.
    intros Ha Hd Ht Hid Hnz. cbn [enc] in Hd. rewrite <- app_assoc in Hd.
    destruct (sr_next_have S c st [u8 t] (be 2 (u16 id) ++ rest) Ha Hd ltac:(discriminate)) as (st1 & H1 & Ha1 & Hl1 & Hr1).
    change (len [u8 t]) with 1 in *. change (Z.of_N 1) with 1%Z in H1.
    unfold sr_field_begin. rewrite H1. cbn [bind]. rewrite index0.
    rewrite i8_u8 by exact Ht. change thrift_STOP with 0%Z.
    destruct (Z.eqb_spec t 0) as [->|_]; [congruence|].
    destruct (sr_next_have S (c + 1) st1 (be 2 (u16 id)) rest Ha1 Hr1 (be_nonempty 1 _)) as (st2 & H2 & Ha2 & Hl2 & Hr2).
    rewrite be_len in *. change (N.of_nat 2) with 2 in *. change (Z.of_N 2) with 2%Z in H2. rewrite H2.
    exists st2. replace (c + 3) with (c + 1 + 2) by lia. repeat split; auto; [|lia].
    cbn [bind]. rewrite get_be2 by apply u16_lt. cbn [bind]. now rewrite i16_u16.
  Qed.

  Lemma sr_field_stop_enc S c st rest :
    At S c st -> drop c S = enc IFieldStop ++ rest -> rd_ok S c st (sr_field_begin st) (0%Z, 0%Z) 1 rest.
  Proof.
    intros Ha Hd.
    destruct (sr_next_have S c st [0] rest Ha Hd ltac:(discriminate)) as (st1 & H1 & Ha1 & Hl1 & Hr1).
    change (len [0]) with 1 in *. change (Z.of_N 1) with 1%Z in H1.
    unfold sr_field_begin. rewrite H1. cbn [bind]. rewrite index0.
    change (i8 0) with 0%Z. change thrift_STOP with 0%Z. cbn [Z.eqb]. exists st1. auto.
  Qed.

  Lemma u32_size sz : (0 <= sz < 4294967296)%Z -> Z.of_N (u32 sz) = sz.
  Proof. intros H. rewrite u32_nonneg by exact H. lia. Qed.

  Lemma sr_map_begin_enc S c st kt vt sz rest :
    At S c st -> drop c S = enc (IMapBegin kt vt sz) ++ rest ->
    in_signed 8 kt -> in_signed 8 vt -> (0 <= sz < 4294967296)%Z ->
    rd_ok S c st (sr_map_begin st) (kt, vt, sz) 6 rest.
  Proof.
    intros Ha Hd Hk Hv Hs.
    destruct (sr_next_have S c st _ rest Ha Hd (enc_nonempty _)) as (st1 & H1 & Ha1 & Hl1 & Hr1).
    assert (Hlen : len (enc (IMapBegin kt vt sz)) = 6) by (rewrite <- l_item_enc; reflexivity).
    rewrite Hlen in *. change (Z.of_N 6) with 6%Z in H1. unfold sr_map_begin. rewrite H1.
    exists st1. repeat split; auto.
    cbn [enc app bind]. rewrite index0. cbn [bind]. rewrite index1. cbn [bind].
    rewrite slice_from_ok by (rewrite !len_cons, be_len; lia). cbn [bind].
    change (drop 2 (u8 kt :: u8 vt :: be 4 (u32 sz))) with (be 4 (u32 sz)).
    rewrite get_be4 by apply u32_lt. cbn [bind].
    now rewrite !i8_u8, u32_size by assumption.
  Qed.

  Lemma sr_list_begin_enc S c st et sz rest :
    At S c st -> drop c S = enc (IListBegin et sz) ++ rest ->
    in_signed 8 et -> (0 <= sz < 4294967296)%Z ->
    rd_ok S c st (sr_list_begin st) (et, sz) 5 rest.
  Proof.
    intros Ha Hd He Hs.
    destruct (sr_next_have S c st _ rest Ha Hd (enc_nonempty _)) as (st1 & H1 & Ha1 & Hl1 & Hr1).
    assert (Hlen : len (enc (IListBegin et sz)) = 5) by (rewrite <- l_item_enc; reflexivity).
    rewrite Hlen in *. change (Z.of_N 5) with 5%Z in H1. unfold sr_list_begin. rewrite H1.
    exists st1. repeat split; auto.
    cbn [enc app bind]. rewrite index0. cbn [bind].
    rewrite slice_from_ok by (rewrite !len_cons, be_len; lia). cbn [bind].
    change (drop 1 (u8 et :: be 4 (u32 sz))) with (be 4 (u32 sz)).
    rewrite get_be4 by apply u32_lt. cbn [bind].
    now rewrite !i8_u8, u32_size by assumption.
  Qed.

  (* ---------- sr_enc: every item kind ---------- *)
  Lemma sr_map_ok {A B} (f : A -> B) S c st (r : srd A) v n rest :
    rd_ok S c st r v n rest -> rd_ok S c st (sr_map f r) (f v) n rest.
  Proof. intros (st' & -> & H). exists st'. split; [reflexivity|exact H]. Qed.

  Theorem sr_item_enc S c st it rest :
    At S c st -> drop c S = enc it ++ rest -> item_ok it = true ->
    rd_ok S c st (sr_item (kind_of it) st) it (len (enc it)) rest.
  Proof.
    intros Ha Hd Hok.
    destruct it as [b|v|v|v|v|bits|v|v|t id| |kt vt sz|et sz|et sz]; cbn [kind_of sr_item item_ok] in *.
    - apply (sr_map_ok IBool). now apply sr_bool_enc.
    - apply (sr_map_ok IByte). apply sr_byte_enc; auto. now apply in8.
    - cbn [enc]. rewrite be_len. apply (sr_map_ok II16). apply sr_i16_enc; auto. now apply in16.
    - cbn [enc]. rewrite be_len. apply (sr_map_ok II32). apply sr_i32_enc; auto. now apply in32.
    - cbn [enc]. rewrite be_len. apply (sr_map_ok II64). apply sr_i64_enc; auto. now apply in64.
    - cbn [enc]. rewrite be_len. apply (sr_map_ok IDouble). apply sr_double_enc; auto. lia.
    - apply andb_true_iff in Hok as [Hl _]. cbn [enc] in *. rewrite len_app, be_len. rewrite <- app_assoc in Hd.
      apply (sr_map_ok IBinary). apply sr_binary_enc; auto. lia.
    - apply andb_true_iff in Hok as [Hl _]. cbn [enc] in *. rewrite len_app, be_len. rewrite <- app_assoc in Hd.
      apply (sr_map_ok IString). apply sr_binary_enc; auto. lia.
    - apply andb_true_iff in Hok as [Hok Hnz]. apply andb_true_iff in Hok as [Ht Hid].
      assert (Hne : t <> 0%Z) by (destruct (Z.eqb_spec t 0); [discriminate|assumption]).
      replace (len (enc (IFieldBegin t id))) with 3 by (rewrite <- l_item_enc; reflexivity).
      pose proof (sr_field_begin_enc S c st t id rest Ha Hd (in8 _ Ht) (in16 _ Hid) Hne) as H.
      apply (sr_map_ok (fun p => if (fst p =? thrift_STOP)%Z then IFieldStop else IFieldBegin (fst p) (snd p))) in H.
      cbn [fst snd] in H. change thrift_STOP with 0%Z in H.
      destruct (Z.eqb_spec t 0) as [He|_]; [contradiction|]. exact H.
    - pose proof (sr_field_stop_enc S c st rest Ha Hd) as H.
      apply (sr_map_ok (fun p => if (fst p =? thrift_STOP)%Z then IFieldStop else IFieldBegin (fst p) (snd p))) in H.
      exact H.
    - apply andb_true_iff in Hok as [Hok H2]. apply andb_true_iff in Hok as [Hok H1].
      apply andb_true_iff in Hok as [Hk Hv].
      replace (len (enc (IMapBegin kt vt sz))) with 6 by (rewrite <- l_item_enc; reflexivity).
      pose proof (sr_map_begin_enc S c st kt vt sz rest Ha Hd (in8 _ Hk) (in8 _ Hv)) as H.
      unfold two32 in *. specialize (H ltac:(lia)).
      apply (sr_map_ok (fun p => IMapBegin (fst (fst p)) (snd (fst p)) (snd p))) in H. exact H.
    - apply andb_true_iff in Hok as [Hok H2]. apply andb_true_iff in Hok as [He H1].
      replace (len (enc (IListBegin et sz))) with 5 by (rewrite <- l_item_enc; reflexivity).
      pose proof (sr_list_begin_enc S c st et sz rest Ha Hd (in8 _ He)) as H.
      unfold two32 in *. specialize (H ltac:(lia)).
      apply (sr_map_ok (fun p => IListBegin (fst p) (snd p))) in H. exact H.
    - apply andb_true_iff in Hok as [Hok H2]. apply andb_true_iff in Hok as [He H1].
      replace (len (enc (ISetBegin et sz))) with 5 by (rewrite <- l_item_enc; reflexivity).
      pose proof (sr_list_begin_enc S c st et sz rest Ha Hd (in8 _ He)) as H.
      unfold two32 in *. specialize (H ltac:(lia)).
      apply (sr_map_ok (fun p => ISetBegin (fst p) (snd p))) in H. exact H.
  Qed.

  (* ---------- the message envelope over the stream reader (C12) ---------- *)
  Lemma sr_i32_short S c st : At S c st -> len S < c + 4 ->
    exists st' e, sr_i32 st = (st', Err (wrap e)) /\ At S c st' /\ r_readlen st' = r_readlen st.
  Proof.
    intros Ha Hs. destruct (sr_next_short S c st 4 Ha Hs) as (st' & e & Hn & Ha' & Hl).
    exists st', e. unfold sr_i32. change (Z.of_N 4) with 4%Z in Hn. rewrite Hn. auto.
  Qed.

  Theorem sr_message_begin_enc S c st name ty seq rest :
    At S c st -> drop c S = enc_msg name ty seq ++ rest -> len name < two31 -> in_signed 32 seq ->
    rd_ok S c st (sr_message_begin st) (name, (ty mod 65536)%Z, seq) (len (enc_msg name ty seq)) rest.
  Proof.
    intros Ha Hd Hn Hs. rewrite len_enc_msg. unfold enc_msg in Hd. set (t := Z.to_N (ty mod 65536)%Z) in *.
    assert (Ht : t < 65536) by apply ty_low_lt. destruct (fw_masks t Ht) as [Hm1 Hm2].
    rewrite <- !app_assoc in Hd.
    destruct (sr_i32_be S c st _ _ Ha Hd ltac:(lia)) as (st1 & H1 & Ha1 & Hl1 & Hr1).
    unfold sr_message_begin. rewrite H1. rewrite u32_i32 by lia.
    change (Z.to_N thrift_msgVersionMask) with 4294901760. change (Z.to_N thrift_msgVersion1) with 2147549184.
    change (Z.to_N thrift_msgTypeMask) with 65535. rewrite Hm1, Hm2, N.eqb_refl. cbn [negb].
    destruct (sr_binary_enc S (c + 4) st1 name _ Ha1 Hr1 Hn) as (st2 & H2 & Ha2 & Hl2 & Hr2).
    unfold sr_string. rewrite H2.
    assert (Hd3 : drop (c + 4 + (4 + len name)) S = enc (II32 seq) ++ rest) by exact Hr2.
    destruct (sr_i32_enc S _ st2 seq rest Ha2 Hd3 Hs) as (st3 & H3 & Ha3 & Hl3 & Hr3).
    rewrite H3. exists st3. cbn [bind].
    replace (c + (12 + len name)) with (c + 4 + (4 + len name) + 4) by lia.
    repeat split; auto; [|lia]. unfold t. now rewrite Z2N.id by (apply Z.mod_pos_bound; lia).
  Qed.

  Theorem sr_message_begin_bad_version S c st w rest :
    At S c st -> drop c S = be 4 w ++ rest -> w < 4294967296 ->
    N.land w 4294901760 <> 2147549184 ->
    exists st', sr_message_begin st = (st', Err e_bad_version) /\ At S (c + 4) st'.
  Proof.
    intros Ha Hd Hw Hv.
    destruct (sr_i32_be S c st w rest Ha Hd Hw) as (st1 & H1 & Ha1 & _ & _).
    exists st1. unfold sr_message_begin. rewrite H1, u32_i32 by exact Hw.
    change (Z.to_N thrift_msgVersionMask) with 4294901760. change (Z.to_N thrift_msgVersion1) with 2147549184.
    destruct (N.eqb_spec (N.land w 4294901760) 2147549184) as [He|_]; [contradiction|]. auto.
  Qed.

  Lemma take_app_ge {A} (a b : list A) k : len a <= k -> take k (a ++ b) = a ++ take (k - len a) b.
  Proof.
    intros H. unfold take, len in *. rewrite firstn_app. rewrite firstn_all2 by lia. f_equal. f_equal. lia.
  Qed.

  (* truncated: the stream ends inside the header => an error, for every script *)
  Theorem sr_message_begin_truncated S c st name ty seq k :
    At S c st -> c <= len S -> drop c S = take k (enc_msg name ty seq) ->
    len name < two31 -> k < len (enc_msg name ty seq) ->
    exists st' e, sr_message_begin st = (st', Err e).
  Proof.
    intros Ha Hc Hd Hn Hk. rewrite len_enc_msg in Hk.
    assert (HlS : len S = c + k).
    { pose proof (drop_len c S Hc) as Hl. rewrite Hd, take_len in Hl by (rewrite len_enc_msg; lia). lia. }
    unfold enc_msg in Hd. set (t := Z.to_N (ty mod 65536)%Z) in *.
    assert (Ht : t < 65536) by apply ty_low_lt. destruct (fw_masks t Ht) as [Hm1 Hm2].
    unfold sr_message_begin.
    destruct (N.ltb_spec k 4) as [H4|H4].
    { destruct (sr_i32_short S c st Ha ltac:(lia)) as (st1 & e & H1 & _). rewrite H1. do 2 eexists; reflexivity. }
    rewrite take_app_ge in Hd by (rewrite be_len; exact H4). rewrite be_len in Hd. change (N.of_nat 4) with 4 in Hd.
    destruct (sr_i32_be S c st _ _ Ha Hd ltac:(lia)) as (st1 & H1 & Ha1 & Hl1 & Hr1).
    rewrite H1, u32_i32 by lia.
    change (Z.to_N thrift_msgVersionMask) with 4294901760. change (Z.to_N thrift_msgVersion1) with 2147549184.
    change (Z.to_N thrift_msgTypeMask) with 65535. rewrite Hm1, N.eqb_refl. cbn [negb].
    unfold sr_string, sr_binary.
    destruct (N.ltb_spec (k - 4) 4) as [H8|H8].
    { destruct (sr_i32_short S (c + 4) st1 Ha1 ltac:(lia)) as (st2 & e & H2 & _). rewrite H2. do 2 eexists; reflexivity. }
    rewrite take_app_ge in Hr1 by (rewrite be_len; exact H8). rewrite be_len in Hr1. change (N.of_nat 4) with 4 in Hr1.
    unfold two31, two32 in *. rewrite N.mod_small in Hr1 by lia.
    destruct (sr_i32_be S (c + 4) st1 _ _ Ha1 Hr1 ltac:(lia)) as (st2 & H2 & Ha2 & Hl2 & Hr2).
    rewrite H2. rewrite i32_small by (unfold two31; lia).
    destruct (Z.ltb_spec (Z.of_N (len name)) 0) as [Hneg|_]; [lia|]. rewrite N2Z.id.
    destruct (N.ltb_spec (k - 4 - 4) (len name)) as [Hs|Hs].
    { destruct (RC_readbinary_short S (c + 4 + 4) st2 (len name) Ha2 ltac:(lia)) as (st3 & m & e & H3 & _).
      rewrite H3. do 2 eexists; reflexivity. }
    destruct (RC_readbinary_ok S (c + 4 + 4) st2 (len name) Ha2 ltac:(lia)) as (st3 & H3 & Ha3 & Hl3).
    rewrite H3, N.eqb_refl.
    destruct (sr_i32_short S (c + 4 + 4 + len name) st3 Ha3 ltac:(lia)) as (st4 & e & H4' & _).
    rewrite H4'. do 2 eexists; reflexivity.
  Qed.
End ReaderContract.

(* ---------- the contract as one proposition, and the theorems stated against it ---------- *)
Definition reader_contract (At : bytes -> N -> rstate -> Prop) : Prop :=
  (forall S c st n, At S c st -> c + n <= len S ->
     exists st', r_next st (Z.of_N n) = (st', OBytes (take n (drop c S))) /\ At S (c + n) st' /\
                 r_readlen st' = r_readlen st + n) /\
  (forall S c st n, At S c st -> len S < c + n ->
     exists st' e, r_next st (Z.of_N n) = (st', OErr e) /\ At S c st' /\ r_readlen st' = r_readlen st) /\
  (forall S c st k, At S c st -> c + k <= len S ->
     exists st', r_readbinary st k = (st', ORead k (take k (drop c S)) None) /\ At S (c + k) st' /\
                 r_readlen st' = r_readlen st + k) /\
  (forall S c st k, At S c st -> len S < c + k ->
     exists st' m e, r_readbinary st k = (st', ORead m (take m (drop c S)) (Some e)) /\ m < k /\
                     At S (c + m) st' /\ r_readlen st' = r_readlen st + m).

Theorem sr_enc At : reader_contract At ->
  forall S c st it rest,
  At S c st -> drop c S = enc it ++ rest -> item_ok it = true ->
  exists st', sr_item (kind_of it) st = (st', Ok it) /\ At S (c + len (enc it)) st' /\
              r_readlen st' = r_readlen st + len (enc it) /\ drop (c + len (enc it)) S = rest.
Proof. intros (H1 & H2 & H3 & H4) S c st it rest. eapply sr_item_enc; eauto. Qed.

Theorem sr_msg_rt At : reader_contract At ->
  forall S c st name ty seq rest,
  At S c st -> drop c S = enc_msg name ty seq ++ rest -> len name < two31 -> in_signed 32 seq ->
  exists st', sr_message_begin st = (st', Ok (name, (ty mod 65536)%Z, seq)) /\
              At S (c + len (enc_msg name ty seq)) st' /\
              r_readlen st' = r_readlen st + len (enc_msg name ty seq) /\
              drop (c + len (enc_msg name ty seq)) S = rest.
Proof. intros (H1 & H2 & H3 & H4) S c st name ty seq rest. eapply sr_message_begin_enc; eauto. Qed.

Theorem sr_msg_bad_version At : reader_contract At ->
  forall S c st w rest,
  At S c st -> drop c S = be 4 w ++ rest -> w < 4294967296 -> N.land w 4294901760 <> 2147549184 ->
  exists st', sr_message_begin st = (st', Err e_bad_version) /\ At S (c + 4) st'.
Proof. intros (H1 & H2 & H3 & H4) S c st w rest. eapply sr_message_begin_bad_version; eauto. Qed.

Theorem sr_msg_truncated At : reader_contract At ->
  forall S c st name ty seq k,
  At S c st -> c <= len S -> drop c S = take k (enc_msg name ty seq) ->
  len name < two31 -> k < len (enc_msg name ty seq) ->
  exists st' e, sr_message_begin st = (st', Err e).
Proof. intros (H1 & H2 & H3 & H4) S c st name ty seq k. eapply sr_message_begin_truncated; eauto. Qed.
