(* Proofs/GenCorollariesBufio.v — headline theorems of C04 (Properties/C04.v; proofs in Proofs/BufReaderP.v)
   and C05 (Properties/C05.v) restated for bufiox.DefaultReader / DefaultWriter REGENERATED FROM THE GO
   SOURCE on every run (Gen/Funcs.v g_bufiox_DefaultReader_* / g_bufiox_DefaultWriter_*, tools/gotrans
   phase 4), by Proofs/GenEquivBufReader.v / GenEquivBufWriter.v.

   Reader.  The generated methods are run on the generated state g (backing array up to cap, len, ri, flags,
   parked buffers, error, source, statistics), with the io.Reader instantiated by the source model of
   Model/BufReader.v (rd_read = src_read) and ANY allocator whose Malloc returns a slice of the requested
   length, pow2ceil capacity and arbitrary contents (malloc_ok) and whose Free never fails (free_ok).
   Hypotheses common to all theorems: g is well formed (gwf: 0 <= ri <= len <= cap, ten buckets), sizes are
   below 2^59 (gsmall / st_small, op_small: the 64-bit arithmetic of the doubling loops is exact), the fuel is
   above 64 and above loop_fuel of the source (one unit per script entry and per undelivered byte).
   RInv D F CH c (abs g) is the C04 invariant of the ABSTRACTION of g. *)
From GV Require Import Lib.Bytes Lib.Res Lib.GoSem Gen.Consts Gen.Funcs Model.BufReader Spec.Cursor
     Proofs.BufReaderLib Proofs.BufReaderP Proofs.GenLib Proofs.GenLib3 Proofs.GenLib4 Proofs.GenEquivBufReader.
From Coq Require Import ZifyN ZifyNat ZifyBool.
Open Scope Z_scope.

Section C04.
  Context {M : Type}.
  Variable mal : M -> Z -> Z -> res (M * gcslice).
  Variable fr : M -> gcslice -> res M.
  Variable fuel : nat.
  Hypothesis mal_ok : malloc_ok mal.
  Hypothesis fr_ok : free_ok fr.
  Hypothesis fuel64 : (64 < fuel)%nat.

  Notation gNext g n mst := (g_bufiox_DefaultReader_Next source rd_read M mal fuel false
        (g_buf g) (g_ro g) (g_pend g) (g_src g) (g_ri g) (g_err g) (g_bk g) (g_bi g) n mst).
  Notation gPeek g n mst := (g_bufiox_DefaultReader_Peek source rd_read M mal fuel false
        (g_buf g) (g_ro g) (g_pend g) (g_src g) (g_ri g) (g_err g) (g_bk g) (g_bi g) n mst).
  Notation gSkip g n mst := (g_bufiox_DefaultReader_Skip source rd_read M mal fuel false
        (g_buf g) (g_ro g) (g_pend g) (g_src g) (g_ri g) (g_err g) (g_bk g) (g_bi g) n mst).
  Notation gReadBinary g bs mst := (g_bufiox_DefaultReader_ReadBinary source rd_read M mal fuel false
        (g_buf g) (g_ro g) (g_pend g) (g_src g) (g_ri g) (g_err g) (g_bk g) (g_bi g) bs mst).
  Notation gRelease g e mst := (g_bufiox_DefaultReader_Release source M fr false
        (g_buf g) (g_ro g) (g_pend g) (g_src g) (g_ri g) (g_err g) (g_bk g) (g_bi g) e mst).
  Notation gReadLen g := (g_bufiox_DefaultReader_ReadLen source false
        (g_buf g) (g_ro g) (g_pend g) (g_src g) (g_ri g) (g_err g) (g_bk g) (g_bi g)).

  Definition g_readlen (g : gst) : Z := g_ri g.
  Lemma g_readlen_eq g : gwf g -> gReadLen g = Ok (gret g, g_readlen g).
  Proof. intros H. rewrite g_ReadLen_eq by exact H. unfold r_readlen, g_readlen. destruct H as (H & _). cbn [abs ri]. do 2 f_equal. lia. Qed.

  Definition pre (g : gst) (n : Z) : Prop := gwf g /\ gsmall g /\ n < SZ /\ fuel_ok fuel g.

  (* ---- C04_next_exact_or_error ---- *)
  Theorem g_C04_next_exact_or_error D F CH c g n mst : RInv D F CH c (abs g) -> pre g n -> 0 <= n ->
    exists g' mst' b e, gNext g n mst = Ok (gret g', mst', b, e) /\ gwf g' /\
      ((b = seg_at D c (Z.to_N n) /\ e = None /\ len b = Z.to_N n /\ (c + Z.to_N n <= len D)%N /\
        RInv D F CH (c + Z.to_N n) (abs g') /\ g_readlen g' = g_readlen g + n) \/
       (exists ev, b = [] /\ e = Some ev /\ fails D F CH c (Z.to_N n) ev /\ RInv D F CH c (abs g') /\ g_readlen g' = g_readlen g)).
  Proof.
    intros HI (Hwf & Hsm & Hn & Hf) Hpos.
    destruct (g_Next_sim mal mal_ok fuel fuel64 mst g n Hwf Hsm Hn Hf) as (g' & mst' & E & Ea & Hwf' & _).
    destruct (r_next (abs g) n) as [st' o] eqn:En. cbn [fst snd] in *.
    exists g', mst', (fst (out_bytes o)), (snd (out_bytes o)). split; [exact E|]. split; [exact Hwf'|].
    pose proof Hwf as (Hr & _). pose proof Hwf' as (Hr' & _).
    assert (Hrl : forall x, r_readlen st' = (r_readlen (abs g) + x)%N -> g_readlen g' = g_readlen g + Z.of_N x).
    { intros x Hx. rewrite <- Ea in Hx. unfold r_readlen, g_readlen in *. cbn [abs ri] in Hx. lia. }
    destruct (rinv_next D F CH c (abs g) n st' o HI Hpos En) as [(Ho & Hl & Hc & HI' & Hrl')|(ev & Ho & Hfl & HI' & Hrl')]; subst o; cbn [out_bytes fst snd].
    - left. rewrite Ea. pose proof (Hrl _ Hrl').
      split; [reflexivity|]. split; [reflexivity|]. split; [exact Hl|]. split; [exact Hc|]. split; [exact HI'|lia].
    - right. exists ev. rewrite Ea. specialize (Hrl 0%N). rewrite N.add_0_r in Hrl. specialize (Hrl Hrl').
      split; [reflexivity|]. split; [reflexivity|]. split; [exact Hfl|]. split; [exact HI'|lia].
  Qed.

  (* ---- C04_peek_never_advances ---- *)
  Theorem g_C04_peek_never_advances D F CH c g n mst : RInv D F CH c (abs g) -> pre g n -> 0 <= n ->
    exists g' mst' b e, gPeek g n mst = Ok (gret g', mst', b, e) /\ gwf g' /\
      RInv D F CH c (abs g') /\ g_readlen g' = g_readlen g /\
      ((b = seg_at D c (Z.to_N n) /\ e = None /\ len b = Z.to_N n /\ (c + Z.to_N n <= len D)%N) \/
       (exists ev, b = [] /\ e = Some ev /\ fails D F CH c (Z.to_N n) ev)).
  Proof.
    intros HI (Hwf & Hsm & Hn & Hf) Hpos.
    destruct (g_Peek_sim mal mal_ok fuel fuel64 mst g n Hwf Hsm Hn Hf) as (g' & mst' & E & Ea & Hwf' & _).
    destruct (r_peek (abs g) n) as [st' o] eqn:En. cbn [fst snd] in *.
    exists g', mst', (fst (out_bytes o)), (snd (out_bytes o)). split; [exact E|]. split; [exact Hwf'|].
    pose proof Hwf as (Hr & _). pose proof Hwf' as (Hr' & _).
    destruct (rinv_peek D F CH c (abs g) n st' o HI Hpos En) as (HI' & Hrl & Hout).
    rewrite Ea. split; [exact HI'|]. split.
    { rewrite <- Ea in Hrl. unfold r_readlen, g_readlen in *. cbn [abs ri] in Hrl. lia. }
    destruct Hout as [(Ho & Hl & Hc)|(ev & Ho & Hfl)]; subst o; cbn [out_bytes fst snd].
    - left. split; [reflexivity|]. split; [reflexivity|]. split; assumption.
    - right. exists ev. split; [reflexivity|]. split; [reflexivity|assumption].
  Qed.

  (* ---- C04_skip_exact_or_error ---- *)
  Theorem g_C04_skip_exact_or_error D F CH c g n mst : RInv D F CH c (abs g) -> pre g n -> 0 <= n ->
    exists g' mst' e, gSkip g n mst = Ok (gret g', mst', e) /\ gwf g' /\
      ((e = None /\ (c + Z.to_N n <= len D)%N /\ RInv D F CH (c + Z.to_N n) (abs g') /\ g_readlen g' = g_readlen g + n) \/
       (exists ev, e = Some ev /\ fails D F CH c (Z.to_N n) ev /\ RInv D F CH c (abs g') /\ g_readlen g' = g_readlen g)).
  Proof.
    intros HI (Hwf & Hsm & Hn & Hf) Hpos.
    destruct (g_Skip_sim mal mal_ok fuel fuel64 mst g n Hwf Hsm Hn Hf) as (g' & mst' & E & Ea & Hwf' & _).
    destruct (r_skip (abs g) n) as [st' o] eqn:En. cbn [fst snd] in *.
    exists g', mst', (out_err o). split; [exact E|]. split; [exact Hwf'|].
    pose proof Hwf as (Hr & _). pose proof Hwf' as (Hr' & _).
    assert (Hrl : forall x, r_readlen st' = (r_readlen (abs g) + x)%N -> g_readlen g' = g_readlen g + Z.of_N x).
    { intros x Hx. rewrite <- Ea in Hx. unfold r_readlen, g_readlen in *. cbn [abs ri] in Hx. lia. }
    destruct (rinv_skip D F CH c (abs g) n st' o HI Hpos En) as [(Ho & Hc & HI' & Hrl')|(ev & Ho & Hfl & HI' & Hrl')]; subst o; cbn [out_err].
    - left. rewrite Ea. pose proof (Hrl _ Hrl').
      split; [reflexivity|]. split; [exact Hc|]. split; [exact HI'|lia].
    - right. exists ev. rewrite Ea. specialize (Hrl 0%N). rewrite N.add_0_r in Hrl. specialize (Hrl Hrl').
      split; [reflexivity|]. split; [exact Hfl|]. split; [exact HI'|lia].
  Qed.

  (* ---- C04_readbinary_exact ---- *)
  Theorem g_C04_readbinary_exact D F CH c g (bs : bytes) mst : RInv D F CH c (abs g) -> pre g (glen bs) ->
    exists g' mst' m e, (m <= len bs)%N /\ (c + m <= len D)%N /\ len (seg_at D c m) = m /\
      gReadBinary g bs mst = Ok (gret g', (seg_at D c m ++ drop m bs)%list, mst', Z.of_N m, e) /\ gwf g' /\
      RInv D F CH (c + m) (abs g') /\ g_readlen g' = g_readlen g + Z.of_N m /\
      ((m = len bs /\ e = None) \/ ((m < len bs)%N /\ exists ev, e = Some ev /\ fails D F CH c (len bs) ev)).
  Proof.
    intros HI (Hwf & Hsm & Hn & Hf).
    destruct (g_ReadBinary_sim mal mal_ok fuel fuel64 mst g bs Hwf Hsm Hn Hf) as (g' & mst' & m & copied & e & Eo & Elc & E & Ea & Hwf' & _).
    destruct (r_readbinary (abs g) (len bs)) as [st' o] eqn:En. cbn [fst snd] in *.
    pose proof Hwf as (Hr & _). pose proof Hwf' as (Hr' & _).
    destruct (rinv_readbinary D F CH c (abs g) (len bs) st' o HI En) as (m0 & Hm & Hc & Hl & HI' & Hrl & Hout).
    assert (Hrl2 : g_readlen g' = g_readlen g + Z.of_N m0).
    { rewrite <- Ea in Hrl. unfold r_readlen, g_readlen in *. cbn [abs ri] in Hrl. lia. }
    destruct Hout as [(Hk & Ho)|(Hk & ev & Ho & Hfl)]; rewrite Ho in Eo; inversion Eo; subst m copied e.
    - exists g', mst', (len bs), None. rewrite Hk in *. rewrite Hl in E.
      split; [lia|]. split; [exact Hc|]. split; [exact Hl|]. split; [exact E|]. split; [exact Hwf'|].
      split; [rewrite Ea; exact HI'|]. split; [exact Hrl2|]. left. split; reflexivity.
    - exists g', mst', m0, (Some ev). rewrite Hl in E.
      split; [lia|]. split; [exact Hc|]. split; [exact Hl|]. split; [exact E|]. split; [exact Hwf'|].
      split; [rewrite Ea; exact HI'|]. split; [exact Hrl2|]. right. split; [exact Hk|]. exists ev. split; [reflexivity|exact Hfl].
  Qed.

  (* ---- C04_negative_count: rejected without touching the state ---- *)
  Theorem g_C04_negative_count g n mst : n < 0 ->
    gNext g n mst = Ok (gret g, mst, [], Some e_negcount) /\
    gPeek g n mst = Ok (gret g, mst, [], Some e_negcount) /\
    gSkip g n mst = Ok (gret g, mst, Some e_negcount).
  Proof.
    intros Hn. unfold g_bufiox_DefaultReader_Next, g_bufiox_DefaultReader_Peek, g_bufiox_DefaultReader_Skip.
    destruct (Z.ltb_spec n 0); [|lia]. rewrite ecode_negcount. repeat split; reflexivity.
  Qed.

  (* ---- C04_release_resets_readlen ---- *)
  Theorem g_C04_release_resets_readlen D F CH c g e mst : RInv D F CH c (abs g) -> gwf g -> gcs_cap (g_buf g) < 2 ^ 62 ->
    exists g' mst', gRelease g e mst = Ok (gret g', mst', gnil) /\ gwf g' /\
      RInv D F CH c (abs g') /\ g_readlen g' = 0.
  Proof.
    intros HI Hwf Hc.
    destruct (g_Release_sim fr fr_ok fuel fuel64 mst g e Hwf Hc) as (g' & mst' & E & Ea & Hwf' & _).
    exists g', mst'. split; [exact E|]. split; [exact Hwf'|].
    destruct (rinv_release D F CH c (abs g) HI) as [HI' Hrl]. rewrite Ea. split; [exact HI'|].
    rewrite <- Ea in Hrl. unfold r_readlen, g_readlen in *. cbn [abs ri] in Hrl. destruct Hwf' as (Hr' & _). lia.
  Qed.

  (* ---- C04_inv_step / C04_inv_history, C04_reader_refines_cursor: every history ---- *)
  Theorem g_C04_inv_history D F CH ops c g mst : RInv D F CH c (abs g) -> gwf g -> run_ok fuel (abs g) ops ->
    exists g' mst' outs c', g_run mal fr fuel (g, mst) ops = Ok (g', mst', map (fun p => obs_of (fst p) (snd p)) (combine ops outs)) /\
      length outs = length ops /\ gwf g' /\ (c <= c')%N /\ RInv D F CH c' (abs g').
  Proof.
    intros HI Hwf Hok.
    destruct (g_run_sim mal fr fuel mal_ok fr_ok fuel64 ops g mst Hwf Hok) as (g' & mst' & E & Ea & Hwf').
    destruct (r_run (abs g) ops) as [st' outs] eqn:Er. cbn [fst snd] in *.
    destruct (rinv_run D F CH ops c (abs g) st' outs HI Er) as (c' & Hc & HI').
    exists g', mst', outs, c'. split; [exact E|]. split.
    { clear - Er. revert outs st' Er. generalize (abs g). induction ops as [|o r IH]; intros st outs st' Er; cbn [r_run] in Er.
      - inversion Er. reflexivity.
      - destruct (r_step st o) as [s1 o1]. destruct (r_run s1 r) as [s2 os] eqn:E2. inversion Er; subst. cbn [length]. f_equal. eapply IH. exact E2. }
    split; [exact Hwf'|]. split; [exact Hc|]. rewrite Ea. exact HI'.
  Qed.

  (* the state NewDefaultReader(rd) builds: reset(rd, nil) — Proofs/GenEquivBufReader.v g_reset_eq, g_fresh_new_reader *)
  Theorem g_C04_reader_refines_cursor s ops mst : spos s = 0%N -> run_ok fuel (new_reader s) ops ->
    exists g' mst' outs,
      g_run mal fr fuel (g_fresh s gcs_nil, mst) ops = Ok (g', mst', map (fun p => obs_of (fst p) (snd p)) (combine ops outs)) /\
      length outs = length ops /\
      cursor_run (sdata s) (sfinal s) (schunks s) cursor0 ops outs = true.
  Proof.
    intros Hs Hok. pose proof (g_fresh_wf s gcs_nil cs_wf_nil) as Hwf. rewrite <- g_fresh_new_reader in Hok.
    destruct (g_run_sim mal fr fuel mal_ok fr_ok fuel64 ops (g_fresh s gcs_nil) mst Hwf Hok) as (g' & mst' & E & Ea & Hwf').
    rewrite g_fresh_new_reader in *.
    exists g', mst', (snd (r_run (new_reader s) ops)). split; [exact E|]. split.
    { generalize (new_reader s). clear. induction ops as [|o r IH]; intros st; cbn [r_run]; [reflexivity|].
      destruct (r_step st o) as [s1 o1]. specialize (IH s1). destruct (r_run s1 r) as [s2 os]. cbn [snd length] in *. f_equal. exact IH. }
    apply reader_refines_cursor. exact Hs.
  Qed.

  (* the state NewBytesReader(buf) builds: reset(fakeIOReader, buf) *)
  Theorem g_C04_bytes_reader_refines_cursor (mem : bytes) (l : N) ops mst : (l <= len mem)%N ->
    run_ok fuel (new_bytes_reader (take l mem) (len mem)) ops ->
    exists g' mst' outs,
      g_run mal fr fuel (g_fresh fake_source (Some (mem, Z.of_N l)), mst) ops
        = Ok (g', mst', map (fun p => obs_of (fst p) (snd p)) (combine ops outs)) /\
      length outs = length ops /\
      cursor_run (take l mem) e_eof [] cursor0 ops outs = true.
  Proof.
    intros Hl Hok. assert (Hwf : gwf (g_fresh fake_source (Some (mem, Z.of_N l)))).
    { apply g_fresh_wf. unfold cs_wf. rewrite gcs_len_some, gcs_cap_some. unfold glen. lia. }
    rewrite <- (g_fresh_bytes_reader mem l Hl) in Hok.
    destruct (g_run_sim mal fr fuel mal_ok fr_ok fuel64 ops _ mst Hwf Hok) as (g' & mst' & E & Ea & Hwf').
    rewrite (g_fresh_bytes_reader mem l Hl) in *.
    exists g', mst', (snd (r_run (new_bytes_reader (take l mem) (len mem)) ops)). split; [exact E|]. split.
    { generalize (new_bytes_reader (take l mem) (len mem)). clear. induction ops as [|o r IH]; intros st; cbn [r_run]; [reflexivity|].
      destruct (r_step st o) as [s1 o1]. specialize (IH s1). destruct (r_run s1 r) as [s2 os]. cbn [snd length] in *. f_equal. exact IH. }
    apply bytes_reader_refines_cursor. rewrite len_take. lia.
  Qed.

  (* ---- C04_fitting_request_succeeds / C04_overlong_request_fails (Next) ---- *)
  Theorem g_C04_fitting_next_succeeds D F CH c g (n : N) mst : RInv D F CH c (abs g) -> pre g (Z.of_N n) ->
    may_stall CH = false -> (c + n <= len D)%N ->
    exists g' mst', gNext g (Z.of_N n) mst = Ok (gret g', mst', seg_at D c n, None) /\ gwf g' /\ RInv D F CH (c + n) (abs g').
  Proof.
    intros HI (Hwf & Hsm & Hn & Hf) Hst Hfit.
    destruct (g_Next_sim mal mal_ok fuel fuel64 mst g (Z.of_N n) Hwf Hsm Hn Hf) as (g' & mst' & E & Ea & Hwf' & _).
    destruct (fitting_request_succeeds D F CH c (abs g) n HI Hst Hfit) as ((st' & En & HI') & _).
    rewrite En in *. cbn [fst snd out_bytes] in *. exists g', mst'. rewrite Ea. auto.
  Qed.

  Theorem g_C04_overlong_next_fails D F CH c g (n : N) mst : RInv D F CH c (abs g) -> pre g (Z.of_N n) -> (len D < c + n)%N ->
    exists g' mst' ev, gNext g (Z.of_N n) mst = Ok (gret g', mst', [], Some ev) /\ gwf g' /\ fails D F CH c n ev /\ RInv D F CH c (abs g').
  Proof.
    intros HI (Hwf & Hsm & Hn & Hf) Hlong.
    destruct (g_Next_sim mal mal_ok fuel fuel64 mst g (Z.of_N n) Hwf Hsm Hn Hf) as (g' & mst' & E & Ea & Hwf' & _).
    destruct (overlong_request_fails D F CH c (abs g) n HI Hlong) as (st' & ev & En & Hfl & HI').
    rewrite En in *. cbn [fst snd out_bytes] in *. exists g', mst', ev. rewrite Ea. auto.
  Qed.
End C04.

(* ---- non-vacuity: the generated reader computes; the D4 / D5 witnesses of C04 on the generated code ---- *)
Definition mal0 (k : nat) (n c : Z) : res (nat * gcslice) :=
  Ok (S k, Some (repeat (N.of_nat (7 + k)) (N.to_nat (pow2ceil (Z.to_N (Z.max n c)))), n)).
Definition fr0 (k : nat) (_ : gcslice) : res nat := Ok k.

Lemma mal0_ok : malloc_ok mal0.
Proof.
  intros m n c Hn Hc. eexists _, _. split; [reflexivity|]. unfold len. rewrite repeat_length. lia.
Qed.
Lemma fr0_ok : free_ok fr0.
Proof. intros m s. eexists. reflexivity. Qed.

Example g_C04_D4_witness :
  let s := {| sdata := [48;49;50;51;52;53;54;55;56;57]%N; sfinal := e_eof; swith := true; schunks := []; spos := 0 |} in
  exists g' m', g_run mal0 fr0 70 (g_fresh s gcs_nil, O) [RReadBinary 4; RReadLen; RReadBinary 6; RReadLen]
  = Ok (g', m', [GRead 4 [48;49;50;51]%N None; GLen 4; GRead 6 [52;53;54;55;56;57]%N None; GLen 10]).
Proof. cbv zeta. eexists _, _. vm_compute. reflexivity. Qed.

Example g_C04_stall_is_no_progress :
  let s := {| sdata := pat 2 10; sfinal := e_eof; swith := false; schunks := (repeat 0 100 ++ [5])%N%list; spos := 0 |} in
  exists g' m', g_run mal0 fr0 200 (g_fresh s gcs_nil, O) [RNext 4] = Ok (g', m', [GBytes [] (Some e_noprogress)]).
Proof. cbv zeta. eexists _, _. vm_compute. reflexivity. Qed.

Print Assumptions g_C04_next_exact_or_error.
Print Assumptions g_C04_peek_never_advances.
Print Assumptions g_C04_skip_exact_or_error.
Print Assumptions g_C04_readbinary_exact.
Print Assumptions g_C04_negative_count.
Print Assumptions g_C04_release_resets_readlen.
Print Assumptions g_C04_inv_history.
Print Assumptions g_C04_reader_refines_cursor.
Print Assumptions g_C04_bytes_reader_refines_cursor.
Print Assumptions g_C04_fitting_next_succeeds.
Print Assumptions g_C04_overlong_next_fails.
