(* Proofs/GenCorollariesBufio.v — headline theorems of C04 (Properties/C04.v; proofs in Proofs/BufReaderP.v)
   and C05 (Properties/C05.v) restated for bufiox.DefaultReader / DefaultWriter REGENERATED FROM THE GO
   SOURCE on every run (Gen/Funcs.v g_bufiox_DefaultReader_* / g_bufiox_DefaultWriter_*, tools/gotrans
   phase 4), by Proofs/GenEquivBufReader.v / GenEquivBufWriter.v.

   Reader.  The generated methods are run on the generated state g (backing array up to cap, len, ri, flags,
   parked buffers, error, source, statistics), with the io.Reader instantiated by the source model of
   Model/BufReader.v (rd_read = src_read) and ANY allocator whose Malloc returns a slice of the requested
   length, pow2ceil capacity and arbitrary contents (malloc_ok) and whose Free never fails (free_ok).
   Hypotheses common to all theorems: g is well formed (gwf: 0 <= ri <= len <= cap, ten buckets), sizes are
   below 2^59 (gsmall / st_small, op_small: the 64-bit arithmetic of the doubling loops is exact), the fuel is
   above 64 and at least loop_fuel of the source (one unit per script entry and per undelivered byte; the
   source only shrinks, so for a history it is enough that this holds at the start: run_ok_of_small).
   RInv D F CH c (abs g) is the C04 invariant of the ABSTRACTION of g.

   Writer (second part of the file).  The hand model Model/BufWriter.v is a heap model (the caller stores
   into Malloc'ed regions later, through aliases); the generated definitions are value-level.  The theorems
   follow the model state st along a history and run the generated methods on conc st (the generated state
   st stands for, Proofs/GenEquivBufWriter.v): they return conc of the model's next state, the allocator at
   the model's block count, and the model's outputs.  g_L w is the logical unflushed string computed from the
   GENERATED state (parked segments, then the current buffer); g_L (conc st) = Lof st. *)
From GV Require Import Lib.Bytes Lib.Res Lib.GoSem Gen.Consts Gen.Funcs Model.BufReader Spec.Cursor
     Proofs.BufReaderLib Proofs.BufReaderP Proofs.GenLib Proofs.GenLib3 Proofs.GenLib4 Proofs.GenEquivBufReader.
From Coq Require Import ZifyN ZifyNat ZifyBool.
Open Scope Z_scope.

Section C04.
  Context {M : Type}.
  Variable mal : M -> Z -> Z -> res (M * gcslice).
  Variable fr : M -> gcslice -> res M.
  Variable fuel : nat.
  Hypothesis mal_ok : malloc_ok mal.
  Hypothesis fr_ok : free_ok fr.
  Hypothesis fuel64 : (64 < fuel)%nat.

  Notation gNext g n mst := (g_bufiox_DefaultReader_Next source rd_read M mal fuel false
        (g_buf g) (g_ro g) (g_pend g) (g_src g) (g_ri g) (g_err g) (g_bk g) (g_bi g) n mst).
  Notation gPeek g n mst := (g_bufiox_DefaultReader_Peek source rd_read M mal fuel false
        (g_buf g) (g_ro g) (g_pend g) (g_src g) (g_ri g) (g_err g) (g_bk g) (g_bi g) n mst).
  Notation gSkip g n mst := (g_bufiox_DefaultReader_Skip source rd_read M mal fuel false
        (g_buf g) (g_ro g) (g_pend g) (g_src g) (g_ri g) (g_err g) (g_bk g) (g_bi g) n mst).
  Notation gReadBinary g bs mst := (g_bufiox_DefaultReader_ReadBinary source rd_read M mal fuel false
        (g_buf g) (g_ro g) (g_pend g) (g_src g) (g_ri g) (g_err g) (g_bk g) (g_bi g) bs mst).
  Notation gRelease g e mst := (g_bufiox_DefaultReader_Release source M fr false
        (g_buf g) (g_ro g) (g_pend g) (g_src g) (g_ri g) (g_err g) (g_bk g) (g_bi g) e mst).
  Notation gReadLen g := (g_bufiox_DefaultReader_ReadLen source false
        (g_buf g) (g_ro g) (g_pend g) (g_src g) (g_ri g) (g_err g) (g_bk g) (g_bi g)).

  Definition g_readlen (g : gst) : Z := g_ri g.
  Lemma g_readlen_eq g : gwf g -> gReadLen g = Ok (gret g, g_readlen g).
  Proof. intros H. rewrite g_ReadLen_eq by exact H. unfold r_readlen, g_readlen. destruct H as (H & _). cbn [abs ri]. do 2 f_equal. lia. Qed.

  Definition pre (g : gst) (n : Z) : Prop := gwf g /\ gsmall g /\ n < SZ /\ fuel_ok fuel g.

  (* ---- C04_next_exact_or_error ---- *)
  Theorem g_C04_next_exact_or_error D F CH c g n mst : RInv D F CH c (abs g) -> pre g n -> 0 <= n ->
    exists g' mst' b e, gNext g n mst = Ok (gret g', mst', b, e) /\ gwf g' /\
      ((b = seg_at D c (Z.to_N n) /\ e = None /\ len b = Z.to_N n /\ (c + Z.to_N n <= len D)%N /\
        RInv D F CH (c + Z.to_N n) (abs g') /\ g_readlen g' = g_readlen g + n) \/
       (exists ev, b = [] /\ e = Some ev /\ fails D F CH c (Z.to_N n) ev /\ RInv D F CH c (abs g') /\ g_readlen g' = g_readlen g)).
  Proof.
    intros HI (Hwf & Hsm & Hn & Hf) Hpos.
    destruct (g_Next_sim mal mal_ok fuel fuel64 mst g n Hwf Hsm Hn Hf) as (g' & mst' & E & Ea & Hwf' & _).
    destruct (r_next (abs g) n) as [st' o] eqn:En. cbn [fst snd] in *.
    exists g', mst', (fst (out_bytes o)), (snd (out_bytes o)). split; [exact E|]. split; [exact Hwf'|].
    pose proof Hwf as (Hr & _). pose proof Hwf' as (Hr' & _).
    assert (Hrl : forall x, r_readlen st' = (r_readlen (abs g) + x)%N -> g_readlen g' = g_readlen g + Z.of_N x).
    { intros x Hx. rewrite <- Ea in Hx. unfold r_readlen, g_readlen in *. cbn [abs ri] in Hx. lia. }
    destruct (rinv_next D F CH c (abs g) n st' o HI Hpos En) as [(Ho & Hl & Hc & HI' & Hrl')|(ev & Ho & Hfl & HI' & Hrl')]; subst o; cbn [out_bytes fst snd].
    - left. rewrite Ea. pose proof (Hrl _ Hrl').
      split; [reflexivity|]. split; [reflexivity|]. split; [exact Hl|]. split; [exact Hc|]. split; [exact HI'|lia].
    - right. exists ev. rewrite Ea. specialize (Hrl 0%N). rewrite N.add_0_r in Hrl. specialize (Hrl Hrl').
      split; [reflexivity|]. split; [reflexivity|]. split; [exact Hfl|]. split; [exact HI'|lia].
  Qed.

  (* ---- C04_peek_never_advances ---- *)
  Theorem g_C04_peek_never_advances D F CH c g n mst : RInv D F CH c (abs g) -> pre g n -> 0 <= n ->
    exists g' mst' b e, gPeek g n mst = Ok (gret g', mst', b, e) /\ gwf g' /\
      RInv D F CH c (abs g') /\ g_readlen g' = g_readlen g /\
      ((b = seg_at D c (Z.to_N n) /\ e = None /\ len b = Z.to_N n /\ (c + Z.to_N n <= len D)%N) \/
       (exists ev, b = [] /\ e = Some ev /\ fails D F CH c (Z.to_N n) ev)).
  Proof.
    intros HI (Hwf & Hsm & Hn & Hf) Hpos.
    destruct (g_Peek_sim mal mal_ok fuel fuel64 mst g n Hwf Hsm Hn Hf) as (g' & mst' & E & Ea & Hwf' & _).
    destruct (r_peek (abs g) n) as [st' o] eqn:En. cbn [fst snd] in *.
    exists g', mst', (fst (out_bytes o)), (snd (out_bytes o)). split; [exact E|]. split; [exact Hwf'|].
    pose proof Hwf as (Hr & _). pose proof Hwf' as (Hr' & _).
    destruct (rinv_peek D F CH c (abs g) n st' o HI Hpos En) as (HI' & Hrl & Hout).
    rewrite Ea. split; [exact HI'|]. split.
    { rewrite <- Ea in Hrl. unfold r_readlen, g_readlen in *. cbn [abs ri] in Hrl. lia. }
    destruct Hout as [(Ho & Hl & Hc)|(ev & Ho & Hfl)]; subst o; cbn [out_bytes fst snd].
    - left. split; [reflexivity|]. split; [reflexivity|]. split; assumption.
    - right. exists ev. split; [reflexivity|]. split; [reflexivity|assumption].
  Qed.

  (* ---- C04_skip_exact_or_error ---- *)
  Theorem g_C04_skip_exact_or_error D F CH c g n mst : RInv D F CH c (abs g) -> pre g n -> 0 <= n ->
    exists g' mst' e, gSkip g n mst = Ok (gret g', mst', e) /\ gwf g' /\
      ((e = None /\ (c + Z.to_N n <= len D)%N /\ RInv D F CH (c + Z.to_N n) (abs g') /\ g_readlen g' = g_readlen g + n) \/
       (exists ev, e = Some ev /\ fails D F CH c (Z.to_N n) ev /\ RInv D F CH c (abs g') /\ g_readlen g' = g_readlen g)).
  Proof.
    intros HI (Hwf & Hsm & Hn & Hf) Hpos.
    destruct (g_Skip_sim mal mal_ok fuel fuel64 mst g n Hwf Hsm Hn Hf) as (g' & mst' & E & Ea & Hwf' & _).
    destruct (r_skip (abs g) n) as [st' o] eqn:En. cbn [fst snd] in *.
    exists g', mst', (out_err o). split; [exact E|]. split; [exact Hwf'|].
    pose proof Hwf as (Hr & _). pose proof Hwf' as (Hr' & _).
    assert (Hrl : forall x, r_readlen st' = (r_readlen (abs g) + x)%N -> g_readlen g' = g_readlen g + Z.of_N x).
    { intros x Hx. rewrite <- Ea in Hx. unfold r_readlen, g_readlen in *. cbn [abs ri] in Hx. lia. }
    destruct (rinv_skip D F CH c (abs g) n st' o HI Hpos En) as [(Ho & Hc & HI' & Hrl')|(ev & Ho & Hfl & HI' & Hrl')]; subst o; cbn [out_err].
    - left. rewrite Ea. pose proof (Hrl _ Hrl').
      split; [reflexivity|]. split; [exact Hc|]. split; [exact HI'|lia].
    - right. exists ev. rewrite Ea. specialize (Hrl 0%N). rewrite N.add_0_r in Hrl. specialize (Hrl Hrl').
      split; [reflexivity|]. split; [exact Hfl|]. split; [exact HI'|lia].
  Qed.

  (* ---- C04_readbinary_exact ---- *)
  Theorem g_C04_readbinary_exact D F CH c g (bs : bytes) mst : RInv D F CH c (abs g) -> pre g (glen bs) ->
    exists g' mst' m e, (m <= len bs)%N /\ (c + m <= len D)%N /\ len (seg_at D c m) = m /\
      gReadBinary g bs mst = Ok (gret g', (seg_at D c m ++ drop m bs)%list, mst', Z.of_N m, e) /\ gwf g' /\
      RInv D F CH (c + m) (abs g') /\ g_readlen g' = g_readlen g + Z.of_N m /\
      ((m = len bs /\ e = None) \/ ((m < len bs)%N /\ exists ev, e = Some ev /\ fails D F CH c (len bs) ev)).
  Proof.
    intros HI (Hwf & Hsm & Hn & Hf).
    destruct (g_ReadBinary_sim mal mal_ok fuel fuel64 mst g bs Hwf Hsm Hn Hf) as (g' & mst' & m & copied & e & Eo & Elc & E & Ea & Hwf' & _).
    destruct (r_readbinary (abs g) (len bs)) as [st' o] eqn:En. cbn [fst snd] in *.
    pose proof Hwf as (Hr & _). pose proof Hwf' as (Hr' & _).
    destruct (rinv_readbinary D F CH c (abs g) (len bs) st' o HI En) as (m0 & Hm & Hc & Hl & HI' & Hrl & Hout).
    assert (Hrl2 : g_readlen g' = g_readlen g + Z.of_N m0).
    { rewrite <- Ea in Hrl. unfold r_readlen, g_readlen in *. cbn [abs ri] in Hrl. lia. }
    destruct Hout as [(Hk & Ho)|(Hk & ev & Ho & Hfl)]; rewrite Ho in Eo; inversion Eo; subst m copied e.
    - exists g', mst', (len bs), None. rewrite Hk in *. rewrite Hl in E.
      split; [lia|]. split; [exact Hc|]. split; [exact Hl|]. split; [exact E|]. split; [exact Hwf'|].
      split; [rewrite Ea; exact HI'|]. split; [exact Hrl2|]. left. split; reflexivity.
    - exists g', mst', m0, (Some ev). rewrite Hl in E.
      split; [lia|]. split; [exact Hc|]. split; [exact Hl|]. split; [exact E|]. split; [exact Hwf'|].
      split; [rewrite Ea; exact HI'|]. split; [exact Hrl2|]. right. split; [exact Hk|]. exists ev. split; [reflexivity|exact Hfl].
  Qed.

  (* ---- C04_negative_count: rejected without touching the state ---- *)
  Theorem g_C04_negative_count g n mst : n < 0 ->
    gNext g n mst = Ok (gret g, mst, [], Some e_negcount) /\
    gPeek g n mst = Ok (gret g, mst, [], Some e_negcount) /\
    gSkip g n mst = Ok (gret g, mst, Some e_negcount).
  Proof.
    intros Hn. unfold g_bufiox_DefaultReader_Next, g_bufiox_DefaultReader_Peek, g_bufiox_DefaultReader_Skip.
    destruct (Z.ltb_spec n 0); [|lia]. rewrite ecode_negcount. repeat split; reflexivity.
  Qed.

  (* ---- C04_release_resets_readlen ---- *)
  Theorem g_C04_release_resets_readlen D F CH c g e mst : RInv D F CH c (abs g) -> gwf g -> gcs_cap (g_buf g) < 2 ^ 62 ->
    exists g' mst', gRelease g e mst = Ok (gret g', mst', gnil) /\ gwf g' /\
      RInv D F CH c (abs g') /\ g_readlen g' = 0.
  Proof.
    intros HI Hwf Hc.
    destruct (g_Release_sim fr fr_ok fuel fuel64 mst g e Hwf Hc) as (g' & mst' & E & Ea & Hwf' & _).
    exists g', mst'. split; [exact E|]. split; [exact Hwf'|].
    destruct (rinv_release D F CH c (abs g) HI) as [HI' Hrl]. rewrite Ea. split; [exact HI'|].
    rewrite <- Ea in Hrl. unfold r_readlen, g_readlen in *. cbn [abs ri] in Hrl. destruct Hwf' as (Hr' & _). lia.
  Qed.

  (* ---- C04_inv_step / C04_inv_history, C04_reader_refines_cursor: every history ---- *)
  Theorem g_C04_inv_history D F CH ops c g mst : RInv D F CH c (abs g) -> gwf g -> fuel_ok fuel g -> run_small (abs g) ops ->
    exists g' mst' outs c', g_run mal fr fuel (g, mst) ops = Ok (g', mst', map (fun p => obs_of (fst p) (snd p)) (combine ops outs)) /\
      length outs = length ops /\ gwf g' /\ (c <= c')%N /\ RInv D F CH c' (abs g').
  Proof.
    intros HI Hwf Hfu Hsm. pose proof (run_ok_of_small fuel ops (abs g) Hfu Hsm) as Hok.
    destruct (g_run_sim mal fr fuel mal_ok fr_ok fuel64 ops g mst Hwf Hok) as (g' & mst' & E & Ea & Hwf').
    destruct (r_run (abs g) ops) as [st' outs] eqn:Er. cbn [fst snd] in *.
    destruct (rinv_run D F CH ops c (abs g) st' outs HI Er) as (c' & Hc & HI').
    exists g', mst', outs, c'. split; [exact E|]. split.
    { clear - Er. revert outs st' Er. generalize (abs g). induction ops as [|o r IH]; intros st outs st' Er; cbn [r_run] in Er.
      - inversion Er. reflexivity.
      - destruct (r_step st o) as [s1 o1]. destruct (r_run s1 r) as [s2 os] eqn:E2. inversion Er; subst. cbn [length]. f_equal. eapply IH. exact E2. }
    split; [exact Hwf'|]. split; [exact Hc|]. rewrite Ea. exact HI'.
  Qed.

  (* the state NewDefaultReader(rd) builds: reset(rd, nil) — Proofs/GenEquivBufReader.v g_reset_eq, g_fresh_new_reader *)
  Theorem g_C04_reader_refines_cursor s ops mst : spos s = 0%N -> (loop_fuel (cur_of s) <= fuel)%nat -> run_small (new_reader s) ops ->
    exists g' mst' outs,
      g_run mal fr fuel (g_fresh s gcs_nil, mst) ops = Ok (g', mst', map (fun p => obs_of (fst p) (snd p)) (combine ops outs)) /\
      length outs = length ops /\
      cursor_run (sdata s) (sfinal s) (schunks s) cursor0 ops outs = true.
  Proof.
    intros Hs Hfu Hsm. pose proof (run_ok_of_small fuel ops (new_reader s) Hfu Hsm) as Hok.
    pose proof (g_fresh_wf s gcs_nil cs_wf_nil) as Hwf. rewrite <- g_fresh_new_reader in Hok.
    destruct (g_run_sim mal fr fuel mal_ok fr_ok fuel64 ops (g_fresh s gcs_nil) mst Hwf Hok) as (g' & mst' & E & Ea & Hwf').
    rewrite g_fresh_new_reader in *.
    exists g', mst', (snd (r_run (new_reader s) ops)). split; [exact E|]. split.
    { generalize (new_reader s). clear. induction ops as [|o r IH]; intros st; cbn [r_run]; [reflexivity|].
      destruct (r_step st o) as [s1 o1]. specialize (IH s1). destruct (r_run s1 r) as [s2 os]. cbn [snd length] in *. f_equal. exact IH. }
    apply reader_refines_cursor. exact Hs.
  Qed.

  (* the state NewBytesReader(buf) builds: reset(fakeIOReader, buf) *)
  Theorem g_C04_bytes_reader_refines_cursor (mem : bytes) (l : N) ops mst : (l <= len mem)%N ->
    run_small (new_bytes_reader (take l mem) (len mem)) ops ->
    exists g' mst' outs,
      g_run mal fr fuel (g_fresh fake_source (Some (mem, Z.of_N l)), mst) ops
        = Ok (g', mst', map (fun p => obs_of (fst p) (snd p)) (combine ops outs)) /\
      length outs = length ops /\
      cursor_run (take l mem) e_eof [] cursor0 ops outs = true.
  Proof.
    intros Hl Hsm.
    assert (Hok : run_ok fuel (new_bytes_reader (take l mem) (len mem)) ops).
    { apply run_ok_of_small; [|exact Hsm]. unfold new_bytes_reader, new_reader. destruct (0 <? len mem)%N; cbn [src]; change (loop_fuel (cur_of fake_source)) with 1%nat; lia. }
    assert (Hwf : gwf (g_fresh fake_source (Some (mem, Z.of_N l)))).
    { apply g_fresh_wf. unfold cs_wf. rewrite gcs_len_some, gcs_cap_some. unfold glen. lia. }
    rewrite <- (g_fresh_bytes_reader mem l Hl) in Hok.
    destruct (g_run_sim mal fr fuel mal_ok fr_ok fuel64 ops _ mst Hwf Hok) as (g' & mst' & E & Ea & Hwf').
    rewrite (g_fresh_bytes_reader mem l Hl) in *.
    exists g', mst', (snd (r_run (new_bytes_reader (take l mem) (len mem)) ops)). split; [exact E|]. split.
    { generalize (new_bytes_reader (take l mem) (len mem)). clear. induction ops as [|o r IH]; intros st; cbn [r_run]; [reflexivity|].
      destruct (r_step st o) as [s1 o1]. specialize (IH s1). destruct (r_run s1 r) as [s2 os]. cbn [snd length] in *. f_equal. exact IH. }
    apply bytes_reader_refines_cursor. rewrite len_take. lia.
  Qed.

  (* ---- C04_fitting_request_succeeds / C04_overlong_request_fails (Next) ---- *)
  Theorem g_C04_fitting_next_succeeds D F CH c g (n : N) mst : RInv D F CH c (abs g) -> pre g (Z.of_N n) ->
    may_stall CH = false -> (c + n <= len D)%N ->
    exists g' mst', gNext g (Z.of_N n) mst = Ok (gret g', mst', seg_at D c n, None) /\ gwf g' /\ RInv D F CH (c + n) (abs g').
  Proof.
    intros HI (Hwf & Hsm & Hn & Hf) Hst Hfit.
    destruct (g_Next_sim mal mal_ok fuel fuel64 mst g (Z.of_N n) Hwf Hsm Hn Hf) as (g' & mst' & E & Ea & Hwf' & _).
    destruct (fitting_request_succeeds D F CH c (abs g) n HI Hst Hfit) as ((st' & En & HI') & _).
    rewrite En in *. cbn [fst snd out_bytes] in *. exists g', mst'. rewrite Ea. auto.
  Qed.

  Theorem g_C04_overlong_next_fails D F CH c g (n : N) mst : RInv D F CH c (abs g) -> pre g (Z.of_N n) -> (len D < c + n)%N ->
    exists g' mst' ev, gNext g (Z.of_N n) mst = Ok (gret g', mst', [], Some ev) /\ gwf g' /\ fails D F CH c n ev /\ RInv D F CH c (abs g').
  Proof.
    intros HI (Hwf & Hsm & Hn & Hf) Hlong.
    destruct (g_Next_sim mal mal_ok fuel fuel64 mst g (Z.of_N n) Hwf Hsm Hn Hf) as (g' & mst' & E & Ea & Hwf' & _).
    destruct (overlong_request_fails D F CH c (abs g) n HI Hlong) as (st' & ev & En & Hfl & HI').
    rewrite En in *. cbn [fst snd out_bytes] in *. exists g', mst', ev. rewrite Ea. auto.
  Qed.
End C04.

(* ---- non-vacuity: the generated reader computes; the D4 / D5 witnesses of C04 on the generated code ---- *)
Definition mal0 (k : nat) (n c : Z) : res (nat * gcslice) :=
  Ok (S k, Some (repeat (N.of_nat (7 + k)) (N.to_nat (pow2ceil (Z.to_N (Z.max n c)))), n)).
Definition fr0 (k : nat) (_ : gcslice) : res nat := Ok k.

Lemma mal0_ok : malloc_ok mal0.
Proof.
  intros m n c Hn Hc. eexists _, _. split; [reflexivity|]. unfold len. rewrite repeat_length. lia.
Qed.
Lemma fr0_ok : free_ok fr0.
Proof. intros m s. eexists. reflexivity. Qed.

Example g_C04_D4_witness :
  let s := {| sdata := [48;49;50;51;52;53;54;55;56;57]%N; sfinal := e_eof; swith := true; schunks := []; spos := 0 |} in
  exists g' m', g_run mal0 fr0 70 (g_fresh s gcs_nil, O) [RReadBinary 4; RReadLen; RReadBinary 6; RReadLen]
  = Ok (g', m', [GRead 4 [48;49;50;51]%N None; GLen 4; GRead 6 [52;53;54;55;56;57]%N None; GLen 10]).
Proof. cbv zeta. eexists _, _. vm_compute. reflexivity. Qed.

Example g_C04_stall_is_no_progress :
  let s := {| sdata := pat 2 10; sfinal := e_eof; swith := false; schunks := (repeat 0 100 ++ [5])%N%list; spos := 0 |} in
  exists g' m', g_run mal0 fr0 200 (g_fresh s gcs_nil, O) [RNext 4] = Ok (g', m', [GBytes [] (Some e_noprogress)]).
Proof. cbv zeta. eexists _, _. vm_compute. reflexivity. Qed.

Print Assumptions g_C04_next_exact_or_error.
Print Assumptions g_C04_peek_never_advances.
Print Assumptions g_C04_skip_exact_or_error.
Print Assumptions g_C04_readbinary_exact.
Print Assumptions g_C04_negative_count.
Print Assumptions g_C04_release_resets_readlen.
Print Assumptions g_C04_inv_history.
Print Assumptions g_C04_reader_refines_cursor.
Print Assumptions g_C04_bytes_reader_refines_cursor.
Print Assumptions g_C04_fitting_next_succeeds.
Print Assumptions g_C04_overlong_next_fails.


(* ======================================================================================================
   C05 — the buffered writer
   ====================================================================================================== *)
From GV Require Import Lib.Heap Spec.Log Model.BufWriter Proofs.BufWriterLib Proofs.BufWriterP Proofs.BufWriterInv
     Proofs.BufWriterOps Proofs.BufWriterLog Proofs.BufWriterRef Proofs.BufWriterThm Proofs.GenEquivBufWriter.

(* the logical string of a generated writer state *)
Fixpoint g_stitched (pd : list gcslice) (from : N) (cur : gcslice) : bytes :=
  match pd with
  | [] => take (Z.to_N (gcs_len cur) - from) (drop from (gcs_mem cur))
  | b :: rest => (take (Z.to_N (gcs_len b) - from) (drop from (gcs_mem b)) ++ g_stitched rest (Z.to_N (gcs_len b)) cur)%list
  end.
Definition g_L (w : gw) : bytes :=
  match w_buf w with None => [] | Some _ => g_stitched (gcsl_items (w_pend w)) 0 (w_buf w) end.

Lemma g_stitched_conc h pd : forall from c l,
  g_stitched (map (cs_of h) pd) from (cs_of h (c, l)) = stitched h pd from c l.
Proof.
  induction pd as [|[b lb] rest IH]; intros from c l; cbn [map g_stitched stitched].
  - unfold cs_of. cbn [fst snd gcs_len gcs_mem]. rewrite N2Z.id. reflexivity.
  - rewrite IH. unfold cs_of at 1 2 3. cbn [fst snd gcs_len gcs_mem]. rewrite !N2Z.id. reflexivity.
Qed.

Lemma g_L_conc st : g_L (conc st) = Lof st.
Proof.
  unfold g_L, Lof, conc. cbn [w_buf w_pend]. destruct (cur st) as [[c l]|]; [|reflexivity].
  unfold cs_of at 1. rewrite pend_of_items. apply g_stitched_conc.
Qed.

(* the error class the history observations use: errNegativeCount is class E_NEG *)
Definition wclass (e : gerror) : Z :=
  match e with None => E_NONE | Some c => if c =? ecode "bufiox.errNegativeCount" then E_NEG else c end.

Section C05.
  Variable dirty : nat -> bytes.
  Variable fuel : nat.
  Hypothesis fuel64 : (64 < fuel)%nat.

  Notation gMalloc st n := (g_bufiox_DefaultWriter_Malloc sinkst nat (w_bytes dirty) (w_malloc dirty) fuel false
      (w_buf (conc st)) (w_pend (conc st)) (w_wd (conc st)) (w_err (conc st)) (w_bk (conc st)) (w_bi (conc st)) (w_nc (conc st))
      n (length (store st))).
  Notation gWriteBinary st bs := (g_bufiox_DefaultWriter_WriteBinary sinkst nat (w_bytes dirty) (w_malloc dirty) fuel false
      (w_buf (conc st)) (w_pend (conc st)) (w_wd (conc st)) (w_err (conc st)) (w_bk (conc st)) (w_bi (conc st)) (w_nc (conc st))
      bs (length (store st))).
  Notation gFlush st := (g_bufiox_DefaultWriter_Flush sinkst wd_write nat w_free false
      (w_buf (conc st)) (w_pend (conc st)) (w_wd (conc st)) (w_err (conc st)) (w_bk (conc st)) (w_bi (conc st)) (w_nc (conc st))
      (length (store st))).
  Notation gWrittenLen st := (g_bufiox_DefaultWriter_WrittenLen sinkst false
      (w_buf (conc st)) (w_pend (conc st)) (w_wd (conc st)) (w_err (conc st)) (w_bk (conc st)) (w_bi (conc st)) (w_nc (conc st))).

  Definition g_written_len (w : gw) : Z := gcs_len (w_buf w).
  Lemma g_written_len_conc st : g_written_len (conc st) = Z.of_N (written_len st).
  Proof. apply conc_len. Qed.

  (* ---- Malloc: a window of n bytes at WrittenLen; the logical string grows by n undetermined bytes ---- *)
  Theorem g_C05_malloc st n : Inv st -> wsmall st -> werr st = None -> 0 <= n < 2 ^ 59 ->
    exists st' b d, gMalloc st n = Ok (wret (conc st'), length (store st'), b, None) /\ Inv st' /\
      len b = Z.to_N n /\ g_L (conc st') = (g_L (conc st) ++ d)%list /\ len d = Z.to_N n /\
      g_written_len (conc st') = g_written_len (conc st) + n.
  Proof.
    intros HI Hsm He Hn.
    destruct (malloc_ok dirty st n HI He ltac:(lia)) as (st' & r & d & E & HI' & HL & Hd & Hlen & _ & Hro & Hrl & _ & Hnil & _).
    exists st', (take (rlen r) (drop (roff r) (block (store st') (rid r)))), d.
    split; [apply (g_w_Malloc_sim dirty fuel fuel64 st n st' r HI Hsm Hn He E)|]. split; [exact HI'|].
    rewrite !g_L_conc, !g_written_len_conc. unfold written_len. split; [|split; [exact HL|split; [exact Hd|lia]]].
    (* the window lies inside the current block *)
    unfold malloc in E. rewrite He in E. destruct (Z.ltb_spec n 0); [lia|].
    destruct (acquire dirty st (Z.to_N n)) as [st1| | |]; cbn [bind] in E; try discriminate.
    destruct (N.leb_spec (cur_len st1 + Z.to_N n) (cur_cap st1)); [|discriminate].
    unfold cur_len, cur_cap in *. destruct (cur st1) as [[c l]|] eqn:Hc1; inversion E; subst st' r; cbn [rlen roff rid with_live with_mem store].
    - rewrite len_take, len_drop. lia.
    - cbn. lia.
  Qed.

  (* ---- WriteBinary: never short; the logical string grows by exactly bs ---- *)
  Theorem g_C05_write_binary st (bs : bytes) : Inv st -> wsmall st -> werr st = None -> (len bs < 2 ^ 59)%N ->
    exists st', gWriteBinary st bs = Ok (wret (conc st'), length (store st'), glen bs, None) /\ Inv st' /\
      g_L (conc st') = (g_L (conc st) ++ bs)%list /\ g_written_len (conc st') = g_written_len (conc st) + glen bs.
  Proof.
    intros HI Hsm He Hn.
    destruct (write_binary_ok dirty st bs HI He) as (st' & E & HI' & HL & Hlen & _).
    exists st'. split; [apply (g_w_WriteBinary_sim dirty fuel fuel64 st bs st' (len bs) HI Hsm Hn He E)|]. split; [exact HI'|].
    rewrite !g_L_conc, !g_written_len_conc. unfold written_len, glen. split; [exact HL|lia].
  Qed.

  (* ---- C05_malloc_negative / C05_error_sticky, per operation: an error and no state change ---- *)
  Theorem g_C05_malloc_negative st n : werr st = None -> n < 0 ->
    exists e, gMalloc st n = Ok (wret (conc st), length (store st), [], e) /\ wclass e = E_NEG.
  Proof. intros He Hn. eexists. split; [apply g_w_Malloc_neg; assumption|reflexivity]. Qed.

  Theorem g_C05_error_sticky st e n (bs : bytes) : werr st = Some e ->
    gMalloc st n = Ok (wret (conc st), length (store st), [], Some e) /\
    gWriteBinary st bs = Ok (wret (conc st), length (store st), 0, Some e) /\
    gFlush st = Ok (wret (conc st), length (store st), Some e).
  Proof.
    intros He. split; [apply g_w_Malloc_err; exact He|]. split; [apply g_w_WriteBinary_err; exact He|].
    rewrite g_w_Flush_unfold. change (w_err (conc st)) with (werr st). rewrite He. cbn [is_nil negb].
    unfold wret. cbn [conc w_buf w_pend w_wd w_err w_bk w_bi w_nc]. rewrite He. reflexivity.
  Qed.

  (* ---- Flush: the sink is offered exactly the logical string, once; success drops the buffers and clears
          WrittenLen (C05_flush_success_resets); a sink error is recorded and the log is unchanged
          (C05_flush_error_recorded) ---- *)
  Theorem g_C05_flush st : Inv st -> wsmall st -> werr st = None -> cur st <> None ->
    exists st' e, gFlush st = Ok (wret (conc st'), length (store st'), e) /\
      ((e = None /\ klog (w_wd (conc st')) = (klog (w_wd (conc st)) ++ [g_L (conc st)])%list /\
        g_written_len (conc st') = 0 /\ w_err (conc st') = None /\ g_L (conc st') = []) \/
       (exists ev, e = Some ev /\ w_err (conc st') = Some ev /\ klog (w_wd (conc st')) = klog (w_wd (conc st)) /\
                   g_L (conc st') = g_L (conc st))).
  Proof.
    intros HI Hsm He Hcur. destruct (cur st) as [[c l]|] eqn:Ec; [|congruence].
    destruct (flush_ok st c l HI He Ec) as (h' & Hlen & Hbl & Hc & Ht & Hst & E).
    rewrite !g_L_conc.
    destruct (sink_write (sink st) (c, l) (Lof st)) as [k' [ev|]] eqn:Es.
    - eexists _, (Some ev). split; [apply (g_w_Flush_sim st _ _ _ HI Hsm E)|]. right. exists ev. split; [reflexivity|].
      rewrite g_L_conc. cbn [conc w_err w_wd werr sink ksink klog]. split; [reflexivity|]. split.
      + unfold sink_write in Es. destruct (kfake (sink st)); [inversion Es|].
        destruct (kcalls (sink st) + 1 =? kfail (sink st))%N; inversion Es; subst. reflexivity.
      + unfold Lof at 1. cbn [cur store pend]. rewrite Ec. exact Hst.
    - eexists _, None. split; [apply (g_w_Flush_sim st _ _ _ HI Hsm E)|]. left. split; [reflexivity|].
      rewrite g_L_conc. unfold g_written_len.
      destruct (stat_update (buckets st) (bidx st) (len (block h' c))) as [bk bi].
      cbn [conc w_buf w_err w_wd werr sink cur ksink klog gcs_len]. split.
      + unfold sink_write in Es. destruct (kfake (sink st)); [inversion Es; subst; reflexivity|].
        destruct (kcalls (sink st) + 1 =? kfail (sink st))%N; inversion Es; subst. reflexivity.
      + split; [reflexivity|]. split; reflexivity.
  Qed.

  (* ---- the trace form of C05_writer_refines_log: along EVERY history of the model, from every constructor, each
          generated method run on conc of the current model state returns conc of the model's next state and the
          model's observation; a caller's store (OFill) acts on the model state only ---- *)
  Definition g_wstep_ok (st : wstate) (o : wop) : Prop :=
    let st' := fst (wstep dirty st o) in
    let ob := snd (wstep dirty st o) in
    match o with
    | OMalloc n => exists b e, gMalloc st n = Ok (wret (conc st'), length (store st'), b, e) /\ wclass e = o_err ob
    | OWrite bs => exists k e, gWriteBinary st bs = Ok (wret (conc st'), length (store st'), k, e) /\
                     (match e with None => if k =? glen bs then E_NONE else E_SHORT | Some _ => wclass e end) = o_err ob
    | OFlush => exists e, gFlush st = Ok (wret (conc st'), length (store st'), e) /\ wclass e = o_err ob /\
                  (forall content, o_sink ob = Some content -> klog (w_wd (conc st')) = (klog (w_wd (conc st)) ++ [content])%list)
    | OLen => gWrittenLen st = Ok (wret (conc st'), Z.of_N (o_len ob))
    | OFill _ _ _ => True
    end /\ g_written_len (conc st') = Z.of_N (o_len ob).

  Definition wop_small (o : wop) : Prop :=
    match o with OMalloc n => n < 2 ^ 59 | OWrite bs => (len bs < 2 ^ 59)%N | _ => True end.
  Fixpoint w_run_ok (st : wstate) (h : list wop) : Prop :=
    match h with [] => True | o :: r => wsmall st /\ wop_small o /\ w_run_ok (fst (wstep dirty st o)) r end.
  Fixpoint g_follows (st : wstate) (h : list wop) : Prop :=
    match h with [] => True | o :: r => g_wstep_ok st o /\ g_follows (fst (wstep dirty st o)) r end.

  Lemma wstep_len_obs st o : Z.of_N (o_len (snd (wstep dirty st o))) = Z.of_N (written_len (fst (wstep dirty st o))).
  Proof. rewrite wstep_len. reflexivity. Qed.

  Theorem g_wstep_sim st s o : Sim st s -> wsmall st -> wop_small o -> g_wstep_ok st o.
  Proof.
    intros HS Hsm Hop. pose proof (sim_inv _ _ HS) as HI.
    assert (Herrv : werr st = None \/ werr st = Some E_SINK).
    { rewrite <- (sim_err _ _ HS). exact (sim_errv _ _ HS). }
    unfold g_wstep_ok. split; [|rewrite g_written_len_conc; symmetry; apply wstep_len_obs].
    destruct o as [n|bs|k off data| |]; cbn [wop_small] in Hop; cbn [wstep].
    - (* Malloc *)
      destruct Herrv as [He|He].
      + destruct (Z.ltb_spec n 0) as [Hneg|Hpos].
        * rewrite (malloc_neg dirty st n He Hneg). cbn [fst snd crash_obs o_err].
          eexists _, _. split; [apply g_w_Malloc_neg; assumption|reflexivity].
        * destruct (malloc_ok dirty st n HI He Hpos) as (st' & r & d & E & _). rewrite E. cbn [fst snd o_err].
          eexists _, _. split; [apply (g_w_Malloc_sim dirty fuel fuel64 st n st' r HI Hsm ltac:(lia) He E)|reflexivity].
      + rewrite (malloc_err dirty st n _ He). cbn [fst snd crash_obs o_err].
        eexists _, _. split; [apply g_w_Malloc_err; exact He|reflexivity].
    - (* WriteBinary *)
      destruct Herrv as [He|He].
      + destruct (write_binary_ok dirty st bs HI He) as (st' & E & _). rewrite E. cbn [fst snd o_err].
        eexists _, _. split; [apply (g_w_WriteBinary_sim dirty fuel fuel64 st bs st' (len bs) HI Hsm Hop He E)|].
        unfold glen. rewrite Z.eqb_refl, N.eqb_refl. reflexivity.
      + rewrite (write_binary_err dirty st bs _ He). cbn [fst snd crash_obs o_err].
        eexists _, _. split; [apply g_w_WriteBinary_err; exact He|reflexivity].
    - exact I.
    - (* Flush *)
      assert (Hf : exists st' e wr, flush st = Ok (st', e, wr) /\ (forall ev, e = Some ev -> wr = None /\ (ev = E_SINK)) /\
                   (forall content, wr = Some content -> klog (sink st') = (klog (sink st) ++ [content])%list)).
      { destruct Herrv as [He|He].
        - destruct (cur st) as [[c l]|] eqn:Ec.
          + destruct (flush_ok st c l HI He Ec) as (h' & _ & _ & _ & _ & _ & E). rewrite E.
            unfold sink_write. destruct (kfake (sink st)).
            * destruct (stat_update (buckets st) (bidx st) (len (block h' c))). eexists _, _, _. split; [reflexivity|].
              split; [intros ev X; discriminate|]. intros content X. inversion X; subst. reflexivity.
            * destruct (kcalls (sink st) + 1 =? kfail (sink st))%N.
              -- eexists _, _, _. split; [reflexivity|]. split; [intros ev X; inversion X; auto|]. intros content X. discriminate.
              -- destruct (stat_update (buckets st) (bidx st) (len (block h' c))). eexists _, _, _. split; [reflexivity|].
                 split; [intros ev X; discriminate|]. intros content X. inversion X; subst. reflexivity.
          + rewrite (flush_nil st He Ec). eexists _, _, _. split; [reflexivity|]. split; [intros ev X; discriminate|]. intros content X. discriminate.
        - rewrite (flush_err st _ He). eexists _, _, _. split; [reflexivity|]. split; [intros ev X; inversion X; auto|]. intros content X. discriminate. }
      destruct Hf as (st' & e & wr & E & Hev & Hwr). rewrite E. cbn [fst snd o_err o_sink].
      exists e. split; [apply (g_w_Flush_sim st st' e wr HI Hsm E)|]. split.
      + destruct e as [ev|]; [|reflexivity]. destruct (Hev ev eq_refl) as [_ ->]. reflexivity.
      + intros content X. cbn [conc w_wd ksink klog]. apply Hwr. exact X.
    - apply g_w_WrittenLen_eq.
  Qed.

  Theorem g_C05_follows : forall h st s, Sim st s -> w_run_ok st h -> g_follows st h.
  Proof.
    induction h as [|o r IH]; intros st s HS Hok; cbn [g_follows w_run_ok] in *; [exact I|].
    destruct Hok as (Hsm & Hop & Hok). split; [apply (g_wstep_sim st s o HS Hsm Hop)|].
    destruct (sim_step dirty st s o HS) as [HS' _]. apply (IH _ _ HS' Hok).
  Qed.

  (* from every constructor (NewDefaultWriter over a sink failing at any Write; NewBytesWriter over nil / any slice) *)
  Theorem g_C05_writer_follows_model w0 l0 h : init_pair w0 l0 -> w_run_ok w0 h -> g_follows w0 h.
  Proof. intros Hi Hok. apply (g_C05_follows h w0 l0 (sim_init _ _ Hi) Hok). Qed.
End C05.

(* ---- non-vacuity: the generated writer computes; the example history of C05 (two growths, regions stored
        lazily, two flushes) followed on the generated code ---- *)
Ltac wsmall_tac :=
  unfold wsmall; repeat match goal with |- _ /\ _ => split end;
  [ vm_compute; reflexivity
  | match goal with |- Forall _ ?l => let l' := eval vm_compute in l in change l with l' end;
    repeat constructor; vm_compute; reflexivity
  | vm_compute; reflexivity
  | vm_compute; reflexivity ].

Example g_C05_example_follows :
  g_follows (fun _ : nat => ([] : bytes)) 70 (new_writer 0)
    [OMalloc 3; OWrite [1; 2]%N; OMalloc 5000; OFill 0 0 [7; 8; 9]%N; OMalloc 1; OFill 2 0 [5]%N;
     OFill 1 0 (repeat 6%N 5000); OFlush; OWrite [4]%N; OMalloc (-1); OFlush].
Proof.
  apply (g_C05_writer_follows_model (fun _ : nat => ([] : bytes)) 70 ltac:(lia) (new_writer 0) (log_new 0)); [constructor|].
  cbn [w_run_ok wop_small].
  repeat (split; [wsmall_tac|split; [first [exact I | vm_compute; reflexivity]|]]). exact I.
Qed.

(* the generated methods themselves, chained on the state NewDefaultWriter builds: Malloc(3) hands out three
   (dirty: zero) bytes, WriteBinary appends, a Malloc beyond the capacity parks the first buffer, Flush stitches
   the parked prefix back and hands the sink the whole string once *)
Example g_C05_generated_computes :
  let d := fun _ : nat => ([] : bytes) in
  let w0 := conc (new_writer 0) in
  (do (buf, pend, wd, err, bk, bi, nc, k, b1, e1) <-
     g_bufiox_DefaultWriter_Malloc sinkst nat (w_bytes d) (w_malloc d) 70 false
       (w_buf w0) (w_pend w0) (w_wd w0) (w_err w0) (w_bk w0) (w_bi w0) (w_nc w0) 3 O;
   do (buf, pend, wd, err, bk, bi, nc, k, n2, e2) <-
     g_bufiox_DefaultWriter_WriteBinary sinkst nat (w_bytes d) (w_malloc d) 70 false buf pend wd err bk bi nc [1; 2]%N k;
   do (buf, pend, wd, err, bk, bi, nc, k, b3, e3) <-
     g_bufiox_DefaultWriter_Malloc sinkst nat (w_bytes d) (w_malloc d) 70 false buf pend wd err bk bi nc 5000 k;
   do (buf, pend, wd, err, bk, bi, nc, k, e4) <-
     g_bufiox_DefaultWriter_Flush sinkst wd_write nat w_free false buf pend wd err bk bi nc k;
   Ok (b1, n2, len b3, gcsl_len pend, k, map (fun x => take 6 x) (klog wd), map len (klog wd), e4, gcs_is_nil buf))
  = Ok ([0; 0; 0]%N, 2, 5000%N, 0, 2%nat, [[0; 0; 0; 1; 2; 0]%N], [5005%N], None, true).
Proof. vm_compute. reflexivity. Qed.

Print Assumptions g_C05_malloc.
Print Assumptions g_C05_write_binary.
Print Assumptions g_C05_malloc_negative.
Print Assumptions g_C05_error_sticky.
Print Assumptions g_C05_flush.
Print Assumptions g_C05_writer_follows_model.
