(* Proofs/SpanHist.v — C16 over whole histories.

   A history interleaves, in any order and any number of times:
     decodes (Binary.ReadBinary / ReadString under either setting, with any oracle choices, from
       any valid input slice — a caller buffer, part of an earlier result, anything),
     caller writes into caller-owned buffers (mutating / reusing input buffers),
     writes through a returned []byte,
     appends to a returned []byte (any suffix, any growth policy of the runtime).
   The state records for every caller buffer and every returned value the bytes it is supposed to
   hold.  [good] says the heap agrees with the record; [hstep_good] shows every step keeps it, and
   [hstep_keeps] that a step changes the record of at most the one object it writes through. *)
From GV Require Import Lib.Bytes Lib.Res Lib.Heap Gen.Consts Model.Binary Model.Unsafex Model.BufReader Model.Span Spec.Indep Proofs.SpanHeap Proofs.SpanP Proofs.SpanThm.
From Coq Require Import ZifyN ZifyNat ZifyBool Lia Relations.
Open Scope N_scope.

(* ---------- lists ---------- *)
Lemma nth_error_set_nth_eq {A} i (x : A) l : (i < length l)%nat -> nth_error (set_nth i x l) i = Some x.
Proof. revert i; induction l as [|y l IH]; intros [|i] H; cbn in *; try lia; auto. apply IH. lia. Qed.

Lemma nth_error_set_nth_ne {A} i j (x : A) l : i <> j -> nth_error (set_nth i x l) j = nth_error l j.
Proof. revert i j; induction l as [|y l IH]; intros [|i] [|j] H; cbn; try congruence; auto. Qed.

Lemma set_nth_In {A} i (x y : A) l : In y (set_nth i x l) -> y = x \/ In y l.
Proof.
  revert i; induction l as [|z l IH]; intros [|i] H; cbn in *; auto.
  - destruct H; auto.
  - destruct H; auto. destruct (IH i H); auto.
Qed.

Lemma Forall_set_nth {A} (P : A -> Prop) i x l : Forall P l -> P x -> Forall P (set_nth i x l).
Proof.
  intros H Hx. apply Forall_forall. intros y Hy. destruct (set_nth_In _ _ _ _ Hy) as [->|Hin]; [assumption|].
  rewrite Forall_forall in H. now apply H.
Qed.

(* ---------- states ---------- *)
Record live := { lv_reg : region; lv_len : N; lv_val : bytes; lv_str : bool }.
(* the bytes visible through the value: the first lv_len bytes of its region *)
Definition lv_win (lv : live) : region :=
  {| r_blk := r_blk (lv_reg lv); r_off := r_off (lv_reg lv); r_ext := lv_len lv |}.
Definition lv_slice (lv : live) : gslice :=
  {| sptr := Some (r_blk (lv_reg lv), r_off (lv_reg lv)); slen := lv_len lv; scap := r_ext (lv_reg lv) |}.

Record hstate := { hs_h : heap; hs_c : cache; hs_own : list (region * bytes); hs_lvs : list live }.

Definition in_static (sb : nat) (r : region) : Prop := sub_region r (static_region sb).
(* two returned values are independent: disjoint memory, or both immutable strings out of the
   runtime's read-only table *)
Definition indep (sb : nat) (a b : live) : Prop :=
  rdisj (lv_reg a) (lv_reg b) \/
  (in_static sb (lv_reg a) /\ in_static sb (lv_reg b) /\ lv_str a = true /\ lv_str b = true).

Definition own_ok (sb : nat) (h : heap) (c : cache) (ow : region * bytes) : Prop :=
  region_valid h (fst ow) /\ allocd c (fst ow) /\ rdisj (fst ow) (static_region sb) /\
  region_bytes h (fst ow) = snd ow.
Definition live_ok (sb : nat) (h : heap) (c : cache) (lv : live) : Prop :=
  region_valid h (lv_reg lv) /\ allocd c (lv_reg lv) /\ lv_len lv <= r_ext (lv_reg lv) /\
  region_bytes h (lv_win lv) = lv_val lv /\
  (rdisj (lv_reg lv) (static_region sb) \/ (lv_str lv = true /\ in_static sb (lv_reg lv))).

Definition good (sb : nat) (s : hstate) : Prop :=
  hinv (hs_h s) (hs_c s) /\ static_ok (hs_h s) (hs_c s) sb /\
  Forall (own_ok sb (hs_h s) (hs_c s)) (hs_own s) /\
  Forall (live_ok sb (hs_h s) (hs_c s)) (hs_lvs s) /\
  (forall i j a b, i <> j -> nth_error (hs_lvs s) i = Some a -> nth_error (hs_lvs s) j = Some b -> indep sb a b) /\
  (forall lv ow, In lv (hs_lvs s) -> In ow (hs_own s) -> rdisj (lv_reg lv) (fst ow)).

(* ---------- steps ---------- *)
Definition with_val (lv : live) (v : bytes) : live :=
  {| lv_reg := lv_reg lv; lv_len := lv_len lv; lv_val := v; lv_str := lv_str lv |}.

Inductive hstep (sb : nat) : hstate -> hstate -> Prop :=
| hs_binary s enable inp ct capo dirt h' c' b l R :
    slice_valid (hs_h s) inp -> go_int (Z.of_N (slen inp)) ->
    read_binary enable (hs_h s) (hs_c s) inp ct capo dirt = Ok (h', c', b, l) ->
    slice_region b = Some R ->
    hstep sb s {| hs_h := h'; hs_c := c'; hs_own := hs_own s;
                  hs_lvs := {| lv_reg := R; lv_len := slen b; lv_val := slice_bytes h' b; lv_str := false |} :: hs_lvs s |}
| hs_string s enable inp ct static dirt h' c' str l :
    slice_valid (hs_h s) inp -> go_int (Z.of_N (slen inp)) -> wf (slice_bytes (hs_h s) inp) ->
    read_string enable sb (hs_h s) (hs_c s) inp ct static dirt = Ok (h', c', str, l) ->
    hstep sb s {| hs_h := h'; hs_c := c'; hs_own := hs_own s;
                  hs_lvs := match string_region str with
                            | Some R => {| lv_reg := R; lv_len := tlen str; lv_val := string_bytes h' str; lv_str := true |} :: hs_lvs s
                            | None => hs_lvs s
                            end |}
| hs_caller_write s k r v o w :
    nth_error (hs_own s) k = Some (r, v) -> r_off r <= o -> o + len w <= r_off r + r_ext r ->
    hstep sb s {| hs_h := write (hs_h s) (r_blk r, o) w; hs_c := hs_c s;
                  hs_own := map (fun ow => (fst ow, region_bytes (write (hs_h s) (r_blk r, o) w) (fst ow))) (hs_own s);
                  hs_lvs := hs_lvs s |}
| hs_write_through s i lv o w :
    nth_error (hs_lvs s) i = Some lv -> lv_str lv = false -> o + len w <= lv_len lv ->
    hstep sb s {| hs_h := write (hs_h s) (r_blk (lv_reg lv), r_off (lv_reg lv) + o) w; hs_c := hs_c s;
                  hs_own := hs_own s;
                  hs_lvs := set_nth i (with_val lv (region_bytes (write (hs_h s) (r_blk (lv_reg lv), r_off (lv_reg lv) + o) w) (lv_win lv))) (hs_lvs s) |}
| hs_append s i lv x nc h' b2 :
    nth_error (hs_lvs s) i = Some lv -> lv_str lv = false ->
    go_append (hs_h s) (lv_slice lv) x nc = (h', b2) ->
    hstep sb s {| hs_h := h'; hs_c := hs_c s; hs_own := hs_own s; hs_lvs := hs_lvs s |}.

(* ---------- a generic frame argument ---------- *)
(* [P] describes the regions a step leaves alone *)
Definition frame_ok (h h' : heap) (c c' : cache) (P : region -> Prop) : Prop :=
  forall X, region_valid h X -> allocd c X -> P X ->
            region_valid h' X /\ allocd c' X /\ region_bytes h' X = region_bytes h X.

Definition sub_closed (P : region -> Prop) : Prop := forall X Y, P X -> sub_region Y X -> P Y.

Lemma rdisj_sub_closed W : sub_closed (rdisj W).
Proof. intros X Y H Hs. apply rdisj_sym. eapply rdisj_sub; [apply rdisj_sym; exact H|exact Hs]. Qed.

Lemma lv_win_sub lv : lv_len lv <= r_ext (lv_reg lv) -> sub_region (lv_win lv) (lv_reg lv).
Proof. intros H. unfold sub_region, lv_win. cbn [r_blk r_off r_ext]. lia. Qed.

Lemma static_frame sb h h' c c' P :
  frame_ok h h' c c' P -> static_ok h c sb -> P (static_region sb) -> static_ok h' c' sb.
Proof.
  intros F [H1 [H2 H3]] HP. destruct (F _ H1 H2 HP) as [A [B C]]. repeat split; try apply A; try assumption.
  now rewrite C.
Qed.

Lemma own_frame sb h h' c c' P ow :
  frame_ok h h' c c' P -> own_ok sb h c ow -> P (fst ow) -> own_ok sb h' c' ow.
Proof.
  intros F [H1 [H2 [H3 H4]]] HP. destruct (F _ H1 H2 HP) as [A [B C]].
  repeat split; try apply A; try assumption. now rewrite C.
Qed.

Lemma live_frame sb h h' c c' P lv :
  frame_ok h h' c c' P -> sub_closed P -> live_ok sb h c lv -> P (lv_reg lv) -> live_ok sb h' c' lv.
Proof.
  intros F SC [H1 [H2 [H3 [H4 H5]]]] HP. destruct (F _ H1 H2 HP) as [A [B C]].
  pose proof (lv_win_sub lv H3) as Hs.
  destruct (F (lv_win lv) (region_valid_sub _ _ _ H1 Hs) (allocd_sub _ _ _ H2 Hs) (SC _ _ HP Hs)) as [_ [_ C']].
  repeat split; try apply A; try assumption. now rewrite C'.
Qed.

(* ---------- each kind of step is a frame ---------- *)
Lemma write_is_frame h c b off v :
  hinv h c -> off + len v <= len (block h b) ->
  hinv (write h (b, off) v) c /\
  frame_ok h (write h (b, off) v) c c (rdisj {| r_blk := b; r_off := off; r_ext := len v |}).
Proof.
  intros Hh Hw. split; [unfold hinv; now rewrite sizes_write|].
  intros X [Hb Hfit] Ha Hd. split; [|split; [assumption|now apply write_frame]].
  split; [now rewrite write_length|]. now rewrite write_block_len.
Qed.

Lemma append_is_frame h c s x nc h' s' R :
  hinv h c -> go_append h s x nc = (h', s') -> slice_valid h s -> slice_region s = Some R ->
  hinv h' c /\ frame_ok h h' c c (rdisj R).
Proof.
  intros Hh E Hv HR. destruct (go_append_frame _ _ _ _ _ _ R E Hv HR) as [Hfr [Hl Hbl]]. split.
  - (* block sizes: unchanged or one more block *)
    unfold hinv. unfold go_append in E.
    destruct (slen s + len x <=? scap s) eqn:Hfit.
    + destruct (sptr s) as [[b o]|] eqn:Hp.
      * destruct Hv as [Hlc Hv]. rewrite Hp in Hv. destruct Hv as [Hb Hin]. apply N.leb_le in Hfit.
        remember (write h (b, o + slen s) x) as hw eqn:Ehw. inversion E; subst h' s'; clear E. subst hw.
        rewrite sizes_write by lia. exact Hh.
      * inversion E; subst. exact Hh.
    + unfold alloc in E. inversion E; subst h' s'; clear E. unfold sizes. rewrite map_app. cbn [map].
      now apply cinv_grow.
  - intros X [Hb Hfit] Ha Hd. split; [|split; [assumption|now apply Hfr]].
    split; [lia|]. now rewrite Hbl.
Qed.

(* ---------- the invariant is kept by every step ---------- *)
Lemma indep_sym sb a b : indep sb a b -> indep sb b a.
Proof. intros [H|[H1 [H2 [H3 H4]]]]; [left; now apply rdisj_sym|right; auto]. Qed.

Lemma nth_error_cons_pairs {A} (R : A -> A -> Prop) (x : A) l :
  (forall a b, R a b -> R b a) ->
  (forall y, In y l -> R x y) ->
  (forall i j a b, i <> j -> nth_error l i = Some a -> nth_error l j = Some b -> R a b) ->
  forall i j a b, i <> j -> nth_error (x :: l) i = Some a -> nth_error (x :: l) j = Some b -> R a b.
Proof.
  intros Hs Hx Hl [|i] [|j] a b Hne Ha Hb; cbn in *; try lia.
  - inversion Ha; subst. apply Hx. eapply nth_error_In; eassumption.
  - inversion Hb; subst. apply Hs, Hx. eapply nth_error_In; eassumption.
  - eapply Hl; [|eassumption|eassumption]. lia.
Qed.

Lemma good_decode sb s h' c' (newlv : option live) :
  good sb s ->
  hinv h' c' -> frame_ok (hs_h s) h' (hs_c s) c' (fun _ => True) ->
  (forall lv, newlv = Some lv ->
     live_ok sb h' c' lv /\
     ((forall X, region_valid (hs_h s) X -> allocd (hs_c s) X -> rdisj (lv_reg lv) X) \/
      (lv_str lv = true /\ in_static sb (lv_reg lv)))) ->
  good sb {| hs_h := h'; hs_c := c'; hs_own := hs_own s;
             hs_lvs := match newlv with Some lv => lv :: hs_lvs s | None => hs_lvs s end |}.
Proof.
  intros [G1 [G2 [G3 [G4 [G5 G6]]]]] Hi F Hnew.
  assert (SC : sub_closed (fun _ : region => True)) by (intros ? ? ? ?; exact I).
  assert (G3' : Forall (own_ok sb h' c') (hs_own s)).
  { eapply Forall_impl; [|exact G3]. intros ow Ho. eapply own_frame; [exact F|exact Ho|exact I]. }
  assert (G4' : Forall (live_ok sb h' c') (hs_lvs s)).
  { eapply Forall_impl; [|exact G4]. intros lv Hl. eapply live_frame; [exact F|exact SC|exact Hl|exact I]. }
  split; [assumption|]. split; [eapply static_frame; [exact F|exact G2|exact I]|].
  split; [assumption|]. cbn [hs_lvs hs_own hs_h hs_c].
  destruct newlv as [lv|]; [|repeat split; assumption].
  destruct (Hnew lv eq_refl) as [Hok Hd].
  split; [constructor; assumption|]. split.
  - apply nth_error_cons_pairs; [apply indep_sym| |exact G5].
    intros y Hy. rewrite Forall_forall in G4. destruct (G4 y Hy) as [Y1 [Y2 [Y3 [Y4 Y5]]]].
    destruct Hd as [Hd|[Hs Hst]]; [left; apply Hd; assumption|].
    destruct Y5 as [Yd|[Ys Yst]].
    + left. eapply rdisj_sub; [apply rdisj_sym; exact Yd|exact Hst].
    + right. auto.
  - intros lv0 ow [<-|Hin] How.
    + rewrite Forall_forall in G3. destruct (G3 ow How) as [O1 [O2 [O3 _]]].
      destruct Hd as [Hd|[_ Hst]]; [apply Hd; assumption|].
      eapply rdisj_sub; [apply rdisj_sym; exact O3|exact Hst].
    + now apply G6.
Qed.

Lemma Forall_idx {A} (P : A -> Prop) l : (forall j y, nth_error l j = Some y -> P y) -> Forall P l.
Proof.
  intros H. apply Forall_forall. intros y Hy. destruct (In_nth_error _ _ Hy) as [j Hj]. eauto.
Qed.

Lemma Forall_set_nth_idx {A} (P : A -> Prop) i x l :
  P x -> (forall j y, j <> i -> nth_error l j = Some y -> P y) -> Forall P (set_nth i x l).
Proof.
  intros Hx H. apply Forall_idx. intros j y Hj. destruct (Nat.eq_dec i j) as [<-|Hne].
  - destruct (Nat.lt_ge_cases i (length l)) as [Hlt|Hge].
    + rewrite nth_error_set_nth_eq in Hj by assumption. inversion Hj; subst; assumption.
    + assert (Hn : nth_error (set_nth i x l) i = None) by (apply nth_error_None; rewrite set_nth_length; lia).
      congruence.
  - rewrite nth_error_set_nth_ne in Hj by assumption. eapply H; [|eassumption]. lia.
Qed.

Lemma live_static_false sb h c lv : live_ok sb h c lv -> lv_str lv = false -> rdisj (lv_reg lv) (static_region sb).
Proof. intros [_ [_ [_ [_ [H|[H _]]]]]] E; [assumption|congruence]. Qed.

Lemma indep_false sb a b : indep sb a b -> lv_str a = false -> rdisj (lv_reg a) (lv_reg b).
Proof. intros [H|[_ [_ [H _]]]] E; [assumption|congruence]. Qed.

Lemma lv_slice_valid h lv :
  region_valid h (lv_reg lv) -> lv_len lv <= r_ext (lv_reg lv) -> slice_valid h (lv_slice lv).
Proof. intros [H1 H2] H3. unfold slice_valid, lv_slice. cbn [slen scap sptr]. auto. Qed.

Lemma lv_slice_region lv : slice_region (lv_slice lv) = Some (lv_reg lv).
Proof. unfold slice_region, lv_slice. cbn [sptr scap]. now rewrite region_eta. Qed.

(* the invariant is kept by every step *)
Theorem hstep_good sb s s' : good sb s -> hstep sb s s' -> good sb s'.
Proof.
  intros G St. destruct St as
    [s enable inp ct capo dirt h' c' b l R Hv Hint Hrun HR
    |s enable inp ct static dirt h' c' str l Hv Hint Hwf Hrun
    |s k r v o w Hk Ho Hw
    |s i lv o w Hi Hstr Hw
    |s i lv x nc h' b2 Hi Hstr Happ].
  - (* ReadBinary *)
    pose proof G as [G1 [G2 _]].
    destruct (rb_facts enable _ _ inp ct capo dirt h' c' b l G1 Hv Hint Hrun)
      as [v [R' [_ [Hval [Hlen [Hlc [_ [HR' [Hp [Hi' [_ [HvR [HaR HX]]]]]]]]]]]]].
    rewrite HR in HR'. inversion HR'; subst R'; clear HR'.
    destruct (slice_region_inv b R HR) as [He _].
    apply (good_decode sb s h' c' (Some {| lv_reg := R; lv_len := slen b; lv_val := slice_bytes h' b; lv_str := false |}));
      try assumption.
    + intros X H1 H2 _. destruct (HX X H1 H2) as [_ [A [B C]]]. auto.
    + intros lv E. inversion E; subst lv; clear E. cbn [lv_reg lv_str]. split.
      * destruct G2 as [S1 [S2 _]]. unfold live_ok. cbn [lv_reg lv_len lv_val lv_str].
        split; [assumption|]. split; [assumption|]. split; [lia|]. split.
        -- unfold slice_bytes. rewrite Hp. reflexivity.
        -- left. now destruct (HX _ S1 S2).
      * left. intros X H1 H2. now destruct (HX X H1 H2).
  - (* ReadString *)
    pose proof G as [G1 [G2 _]].
    pose proof (read_string_spec enable sb _ _ inp ct static dirt G1 Hv Hint G2 Hwf) as S.
    rewrite Hrun in S. destruct S as [v [E [Hl [P|[-> [-> [Hb Hp]]]]]]].
    + pose proof (placed_static _ _ _ _ _ _ _ _ sb P G2) as Hst'.
      destruct P as [Hi' [Hlen [Hrd [R [Hp [He [HvR [HaR HX]]]]]]]].
      assert (HSR : string_region str = Some R).
      { unfold string_region. rewrite Hp, <- He. now rewrite region_eta. }
      rewrite HSR.
      apply (good_decode sb s h' c' (Some {| lv_reg := R; lv_len := tlen str; lv_val := string_bytes h' str; lv_str := true |}));
        try assumption.
      * intros X H1 H2 _. destruct (HX X H1 H2) as [_ [A [B C]]]. auto.
      * intros lv E0. inversion E0; subst lv; clear E0. cbn [lv_reg lv_str]. split.
        -- destruct G2 as [S1 [S2 _]]. unfold live_ok. cbn [lv_reg lv_len lv_val lv_str].
           split; [assumption|]. split; [assumption|]. split; [lia|]. split.
           ++ unfold string_bytes. rewrite Hp. reflexivity.
           ++ left. now destruct (HX _ S1 S2).
        -- left. intros X H1 H2. now destruct (HX X H1 H2).
    + (* nothing was written: the empty string or a string out of the static table *)
      assert (F : frame_ok (hs_h s) (hs_h s) (hs_c s) (hs_c s) (fun _ => True)) by (intros X H1 H2 _; auto).
      destruct Hp as [Hp|[x [Ev Hp]]].
      * unfold string_region. rewrite Hp.
        apply (good_decode sb s (hs_h s) (hs_c s) None); try assumption. intros lv E0. discriminate.
      * assert (Hx : x < 256).
        { assert (Hw : wf v) by (eapply r_binary_gen_wf; [exact E|exact Hwf]).
          rewrite Ev in Hw. inversion Hw; assumption. }
        assert (Hsub : in_static sb {| r_blk := sb; r_off := 8 * x; r_ext := tlen str |}).
        { unfold in_static, sub_region, static_region. cbn [r_blk r_off r_ext]. rewrite Hl, Ev.
          change (len [x]) with 1. lia. }
        unfold string_region. rewrite Hp.
        apply (good_decode sb s (hs_h s) (hs_c s)
                 (Some {| lv_reg := {| r_blk := sb; r_off := 8 * x; r_ext := tlen str |}; lv_len := tlen str;
                          lv_val := string_bytes (hs_h s) str; lv_str := true |})); try assumption.
        intros lv E0. inversion E0; subst lv; clear E0. cbn [lv_reg lv_str]. split; [|right; auto].
        destruct G2 as [S1 [S2 _]]. unfold live_ok. cbn [lv_reg lv_len lv_val lv_str].
        split; [eapply region_valid_sub; eassumption|]. split; [eapply allocd_sub; eassumption|].
        split; [cbn [r_ext]; lia|]. split.
        -- unfold string_bytes. rewrite Hp. reflexivity.
        -- right. auto.
  - (* the caller writes into one of its buffers: the records of its buffers are refreshed *)
    destruct G as [G1 [G2 [G3 [G4 [G5 G6]]]]].
    pose proof G3 as G3f. rewrite Forall_forall in G3f.
    destruct (G3f _ (nth_error_In _ _ Hk)) as [[Rb Rfit] [Ra [Rs _]]]. cbn [fst] in *.
    set (W := {| r_blk := r_blk r; r_off := o; r_ext := len w |}).
    assert (HsubW : sub_region W r) by (unfold sub_region, W; cbn [r_blk r_off r_ext]; lia).
    destruct (write_is_frame (hs_h s) (hs_c s) (r_blk r) o w G1) as [Hi' F]; [lia|]. fold W in F.
    set (h' := write (hs_h s) (r_blk r, o) w) in *.
    assert (Hvalid : forall X, region_valid (hs_h s) X -> region_valid h' X).
    { intros X [Xb Xfit]. split; [unfold h'; now rewrite write_length|].
      unfold h'. rewrite write_block_len by lia. assumption. }
    split; [assumption|]. cbn [hs_h hs_c hs_own hs_lvs]. split.
    { eapply static_frame; [exact F|exact G2|]. eapply rdisj_sub; [exact Rs|exact HsubW]. }
    split.
    { apply Forall_forall. intros ow' Hin. apply in_map_iff in Hin. destruct Hin as [ow [<- Hin]].
      destruct (G3f ow Hin) as [O1 [O2 [O3 _]]]. unfold own_ok. cbn [fst snd].
      split; [now apply Hvalid|]. split; [assumption|]. split; [assumption|reflexivity]. }
    split.
    { apply Forall_forall. intros lv Hin. rewrite Forall_forall in G4.
      eapply live_frame; [exact F|apply rdisj_sub_closed|exact (G4 lv Hin)|].
      eapply rdisj_sub; [apply rdisj_sym; exact (G6 lv (r, v) Hin (nth_error_In _ _ Hk))|exact HsubW]. }
    split; [assumption|].
    intros lv ow' Hlv Hin. apply in_map_iff in Hin. destruct Hin as [ow [<- Hin]]. cbn [fst]. now apply G6.
  - (* a write through a returned []byte *)
    destruct G as [G1 [G2 [G3 [G4 [G5 G6]]]]].
    pose proof G4 as G4f. rewrite Forall_forall in G4f.
    pose proof (nth_error_In _ _ Hi) as Hin_lv.
    destruct (G4f lv Hin_lv) as [[Rb Rfit] [Ra [Rlen [Rbytes Rst]]]].
    pose proof (live_static_false sb _ _ lv (G4f lv Hin_lv) Hstr) as Rs.
    set (W := {| r_blk := r_blk (lv_reg lv); r_off := r_off (lv_reg lv) + o; r_ext := len w |}).
    assert (HsubW : sub_region W (lv_reg lv)) by (unfold sub_region, W; cbn [r_blk r_off r_ext]; lia).
    destruct (write_is_frame (hs_h s) (hs_c s) (r_blk (lv_reg lv)) (r_off (lv_reg lv) + o) w G1) as [Hi' F]; [lia|].
    fold W in F.
    set (h' := write (hs_h s) (r_blk (lv_reg lv), r_off (lv_reg lv) + o) w) in *.
    assert (Hvalid : forall X, region_valid (hs_h s) X -> region_valid h' X).
    { intros X [Xb Xfit]. split; [unfold h'; now rewrite write_length|].
      unfold h'. rewrite write_block_len by lia. assumption. }
    split; [assumption|]. cbn [hs_h hs_c hs_own hs_lvs]. split.
    { eapply static_frame; [exact F|exact G2|]. eapply rdisj_sub; [exact Rs|exact HsubW]. }
    split.
    { apply Forall_forall. intros ow Hin. rewrite Forall_forall in G3.
      eapply own_frame; [exact F|exact (G3 ow Hin)|].
      eapply rdisj_sub; [exact (G6 lv ow Hin_lv Hin)|exact HsubW]. }
    split.
    { apply Forall_set_nth_idx.
      - unfold live_ok, with_val. cbn [lv_reg lv_len lv_val lv_str].
        split; [apply Hvalid; split; assumption|]. split; [assumption|]. split; [assumption|].
        split; [reflexivity|assumption].
      - intros j y Hj Hy.
        eapply live_frame; [exact F|apply rdisj_sub_closed|exact (G4f y (nth_error_In _ _ Hy))|].
        eapply rdisj_sub; [|exact HsubW].
        apply (indep_false sb lv y); [|assumption]. eapply (G5 i j); [lia|eassumption|eassumption]. }
    split.
    { intros i0 j0 a0 b0 Hne Ha Hb.
      assert (Hget : forall n y, nth_error (set_nth i (with_val lv (region_bytes h' (lv_win lv))) (hs_lvs s)) n = Some y ->
                exists y0, nth_error (hs_lvs s) n = Some y0 /\ lv_reg y = lv_reg y0 /\ lv_str y = lv_str y0).
      { intros n y Hn. destruct (Nat.eq_dec i n) as [<-|Hd].
        - rewrite nth_error_set_nth_eq in Hn by (apply nth_error_Some; congruence).
          inversion Hn; subst y. exists lv. repeat split; assumption.
        - rewrite nth_error_set_nth_ne in Hn by assumption. exists y. repeat split; assumption. }
      destruct (Hget _ _ Ha) as [a1 [Ha1 [Ea Es]]]. destruct (Hget _ _ Hb) as [b1 [Hb1 [Eb Et]]].
      pose proof (G5 i0 j0 a1 b1 Hne Ha1 Hb1) as Hind. unfold indep in *. rewrite Ea, Eb, Es, Et. exact Hind. }
    intros lv0 ow Hlv Hin. destruct (set_nth_In _ _ _ _ Hlv) as [->|Hl0]; [|now apply G6].
    unfold with_val. cbn [lv_reg]. now apply G6.
  - (* an append to a returned []byte *)
    destruct G as [G1 [G2 [G3 [G4 [G5 G6]]]]].
    pose proof G4 as G4f. rewrite Forall_forall in G4f.
    pose proof (nth_error_In _ _ Hi) as Hin_lv.
    destruct (G4f lv Hin_lv) as [Rv [Ra [Rlen [Rbytes Rst]]]].
    pose proof (live_static_false sb _ _ lv (G4f lv Hin_lv) Hstr) as Rs.
    pose proof (lv_slice_valid _ lv Rv Rlen) as Hsv.
    destruct (append_is_frame _ (hs_c s) _ _ _ _ _ (lv_reg lv) G1 Happ Hsv (lv_slice_region lv)) as [Hi' F].
    destruct (go_append_frame _ _ _ _ _ _ (lv_reg lv) Happ Hsv (lv_slice_region lv)) as [_ [Hl Hbl]].
    split; [assumption|]. cbn [hs_h hs_c hs_own hs_lvs]. split.
    { eapply static_frame; [exact F|exact G2|exact Rs]. }
    split.
    { apply Forall_forall. intros ow Hin. rewrite Forall_forall in G3.
      eapply own_frame; [exact F|exact (G3 ow Hin)|exact (G6 lv ow Hin_lv Hin)]. }
    split.
    { apply Forall_idx. intros j y Hy. destruct (Nat.eq_dec i j) as [<-|Hd].
      - rewrite Hi in Hy. inversion Hy; subst y.
        unfold live_ok. split; [eapply region_valid_ext; [exact Hl|exact Hbl|exact Rv]|].
        split; [assumption|]. split; [assumption|]. split; [|assumption].
        rewrite <- Rbytes. exact (go_append_self _ _ _ _ _ _ Happ Hsv).
      - eapply live_frame; [exact F|apply rdisj_sub_closed|exact (G4f y (nth_error_In _ _ Hy))|].
        apply (indep_false sb lv y); [|assumption]. eapply (G5 i j); [lia|eassumption|eassumption]. }
    split; assumption.
Qed.

(* a step changes the record of at most the one value it writes through; every other returned
   value keeps its region and its recorded bytes *)
Theorem hstep_keeps sb s s' :
  hstep sb s s' ->
  forall j lv, nth_error (hs_lvs s) j = Some lv ->
    (exists k, nth_error (hs_lvs s') k = Some lv) \/
    (exists o w, lv_str lv = false /\ o + len w <= lv_len lv /\
       hs_h s' = write (hs_h s) (r_blk (lv_reg lv), r_off (lv_reg lv) + o) w).
Proof.
  intros St j lv Hj. destruct St as
    [s enable inp ct capo dirt h' c' b l R Hv Hint Hrun HR
    |s enable inp ct static dirt h' c' str l Hv Hint Hwf Hrun
    |s k r v o w Hk Ho Hw
    |s i lv0 o w Hi Hstr Hw
    |s i lv0 x nc h' b2 Hi Hstr Happ]; cbn [hs_lvs hs_h].
  - left. exists (S j). exact Hj.
  - left. destruct (string_region str); [exists (S j)|exists j]; exact Hj.
  - left. exists j. exact Hj.
  - destruct (Nat.eq_dec i j) as [<-|Hd].
    + right. rewrite Hi in Hj. inversion Hj; subst lv0. exists o, w. repeat split; assumption.
    + left. exists j. now rewrite nth_error_set_nth_ne.
  - left. exists j. exact Hj.
Qed.

(* histories *)
Definition reach (sb : nat) : hstate -> hstate -> Prop := clos_refl_trans _ (hstep sb).

Theorem reach_good sb s s' : good sb s -> reach sb s s' -> good sb s'.
Proof.
  intros G R. induction R as [x y St|x|x y z R1 IH1 R2 IH2]; auto. eapply hstep_good; eassumption.
Qed.
