(* Proofs/BufReaderLib.v — list/arith lemmas used by the buffered-reader proofs (C04). *)
From GV Require Import Lib.Bytes.
From Coq Require Import ZifyN ZifyNat ZifyBool.
Open Scope N_scope.

(* ---------- len / take / drop ---------- *)
Lemma len_zero_nil {A} (l : list A) : len l = 0 -> l = [].
Proof. destruct l as [|x l]; [reflexivity|]. rewrite len_cons. lia. Qed.

Lemma len_drop {A} n (l : list A) : len (drop n l) = len l - n.
Proof. unfold drop, len. rewrite skipn_length. lia. Qed.

Lemma len_take {A} n (l : list A) : len (take n l) = N.min n (len l).
Proof. unfold take, len. rewrite firstn_length. lia. Qed.

Lemma take_all {A} n (l : list A) : len l <= n -> take n l = l.
Proof. unfold take, len. intros H. apply firstn_all2. lia. Qed.

Lemma drop_all {A} n (l : list A) : len l <= n -> drop n l = [].
Proof. unfold drop, len. intros H. apply skipn_all2. lia. Qed.

Lemma drop_nil {A} n : drop n (@nil A) = [].
Proof. unfold drop. apply skipn_nil. Qed.

Lemma take_nil {A} n : take n (@nil A) = [].
Proof. unfold take. apply firstn_nil. Qed.

Lemma take_app_le {A} n (a b : list A) : n <= len a -> take n (a ++ b) = take n a.
Proof.
  unfold take, len. intros H. rewrite firstn_app.
  replace (N.to_nat n - length a)%nat with 0%nat by lia. cbn [firstn]. apply app_nil_r.
Qed.

Lemma drop_app_le {A} n (a b : list A) : n <= len a -> drop n (a ++ b) = drop n a ++ b.
Proof.
  unfold drop, len. intros H. rewrite skipn_app.
  replace (N.to_nat n - length a)%nat with 0%nat by lia. reflexivity.
Qed.

Lemma take_take_drop {A} (a b : N) (l : list A) : take (a + b) l = take a l ++ take b (drop a l).
Proof.
  unfold take, drop. replace (N.to_nat (a + b)) with (N.to_nat a + N.to_nat b)%nat by lia.
  apply firstn_plus.
Qed.

Lemma app_eq_len_l {A} (a b a' b' : list A) : a ++ b = a' ++ b' -> len a = len a' -> a = a' /\ b = b'.
Proof.
  intros H Hl. unfold len in Hl.
  revert a' H Hl. induction a as [|x a IH]; intros [|y a'] H Hl; cbn [length] in Hl; try lia.
  - split; [reflexivity|exact H].
  - cbn [app] in H. inversion H; subst. destruct (IH a') as [-> ->]; [assumption|lia|]. split; reflexivity.
Qed.

Lemma beqb_refl (a : bytes) : beqb a a = true.
Proof. apply beqb_eq. reflexivity. Qed.

(* ---------- N bit size ---------- *)
Lemma size_nat_gt (n : N) : n < 2 ^ N.of_nat (N.size_nat n).
Proof.
  destruct n as [|p]; [cbn; lia|].
  cbn [N.size_nat]. induction p as [p IH|p IH|]; cbn [Pos.size_nat].
  - rewrite Nat2N.inj_succ, N.pow_succ_r'. lia.
  - rewrite Nat2N.inj_succ, N.pow_succ_r'. lia.
  - cbn. lia.
Qed.

(* ---------- repeat ---------- *)
Lemma repeat_snoc {A} (x : A) k : repeat x k ++ [x] = repeat x (S k).
Proof. induction k as [|k IH]; cbn [repeat app]; [reflexivity|]. now rewrite IH. Qed.
