(* Proofs/StreamWriterP.v — C01 / C12, stream writer: thrift.BufferWriter over any bufiox writer
   state that satisfies the writer contract.

   The contract (hypotheses named WC_...) is what the refinement of the buffered writer
   (property C05) provides: a simulation [Sim st s] between writer states and states of the
   abstract log (Spec/Log.v), preserved by every operation with equal observations, under every
   dirty-memory oracle.  [Sim st s] holds for every state reachable by any history from a fresh
   writer; quantifying over it is quantifying over every writer state, every number of growths
   and parked buffers, every sink.  The theorems are closed by the Section: they take the
   contract as explicit premises. *)
From GV Require Import Lib.Bytes Lib.Res Lib.Heap Gen.Consts Spec.Log Model.Binary Model.BufWriter Model.StreamCodec
     Spec.Wire Proofs.BinaryP Proofs.MessageP.
From Coq Require Import ZifyN ZifyNat ZifyBool.
Open Scope N_scope.

(* ---------- what a method writes ---------- *)
Definition swop_bytes (o : swop) : bytes :=
  match o with SMalloc _ stores => concat (map snd stores) | SWriteBinary v => v end.
Definition sw_bytes (ops : list swop) : bytes := concat (map swop_bytes ops).

(* the stores of a method fill its region from left to right without gaps *)
Fixpoint tiles (off : N) (stores : list (N * bytes)) (n : N) : Prop :=
  match stores with
  | [] => off = n
  | (o, bs) :: r => o = off /\ tiles (off + len bs) r n
  end.
Definition swop_tiled (o : swop) : Prop :=
  match o with SMalloc n stores => tiles 0 stores n | SWriteBinary _ => True end.

Lemma sw_item_bytes it : sw_bytes (sw_item it) = enc it.
Proof.
  destruct it as [b|v|v|v|v|bits|v|v|t id| |kt vt sz|et sz|et sz];
    unfold sw_bytes; cbn [sw_item map swop_bytes concat snd enc app]; rewrite ?app_nil_r; try reflexivity.
  unfold id_hi. rewrite be2, hi_byte_shift, (u8_of_u16 id). reflexivity.
Qed.
Lemma sw_item_tiled it : Forall swop_tiled (sw_item it).
Proof.
  destruct it; cbn [sw_item]; repeat constructor; cbn [tiles swop_tiled]; rewrite ?be_len; repeat split; reflexivity.
Qed.
Lemma sw_message_begin_bytes name ty seq : sw_bytes (sw_message_begin name ty seq) = enc_msg name ty seq.
Proof.
  unfold sw_bytes, sw_message_begin. cbn [map swop_bytes concat snd]. rewrite !app_nil_r.
  now rewrite enc_msg_eq.
Qed.
Lemma sw_message_begin_tiled name ty seq : Forall swop_tiled (sw_message_begin name ty seq).
Proof.
  unfold sw_message_begin. repeat constructor; cbn [tiles swop_tiled]; rewrite ?be_len; repeat split; try reflexivity.
  unfold l_message_begin. change (N.of_nat 4) with 4. lia.
Qed.

Lemma tiles_len stores : forall off n, tiles off stores n -> off + len (concat (map snd stores)) = n.
Proof.
  induction stores as [|[o b] r IH]; intros off n Ht; cbn [tiles map concat snd] in *.
  - rewrite len_nil. lia.
  - destruct Ht as [_ Ht]. apply IH in Ht. rewrite len_app. lia.
Qed.

(* ---------- the log under a Malloc followed by tiling stores ---------- *)
Lemma matches_some_eq X Y : matches (map Some X) Y -> Y = X.
Proof.
  revert Y; induction X as [|x X IH]; intros Y H; inversion H as [|? y ? Y' Hxy HXY]; subst; [reflexivity|].
  f_equal; [|now apply IH]. destruct Hxy as [Hn|Hs]; [discriminate|now inversion Hs].
Qed.
Lemma matches_app_inv A X Y : matches (A ++ map Some X) Y -> exists B, Y = B ++ X /\ matches A B.
Proof.
  intros H. apply Forall2_app_inv_l in H as (B & X' & HB & HX & ->).
  apply matches_some_eq in HX. subst. now exists B.
Qed.

Lemma nth_error_snoc {A} (l : list A) x : nth_error (l ++ [x]) (length l) = Some x.
Proof. induction l as [|y l IH]; cbn; auto. Qed.

Lemma repeat_len {A} (x : A) n : len (repeat x (N.to_nat n)) = n.
Proof. unfold len. rewrite repeat_length. lia. Qed.

Lemma drop_repeat {A} (x : A) k m : k <= m -> drop k (repeat x (N.to_nat m)) = repeat x (N.to_nat (m - k)).
Proof.
  intros H. unfold drop. replace (N.to_nat m) with (N.to_nat k + N.to_nat (m - k))%nat by lia.
  rewrite repeat_app, skipn_app, repeat_length, Nat.sub_diag. cbn [skipn].
  rewrite skipn_all2 by (rewrite repeat_length; lia). reflexivity.
Qed.

Lemma psplice_fresh (L : sbytes) (D bs : bytes) m :
  len bs <= m ->
  psplice (L ++ map Some D ++ repeat None (N.to_nat m)) (len L + len D) (map Some bs)
  = L ++ map Some (D ++ bs) ++ repeat None (N.to_nat (m - len bs)).
Proof.
  intros H.
  assert (Hp : len (L ++ map Some D) = len L + len D) by (rewrite len_app; unfold len; now rewrite map_length).
  assert (Hm : len (map Some bs) = len bs) by (unfold len; now rewrite map_length).
  replace (L ++ map Some D ++ repeat None (N.to_nat m)) with ((L ++ map Some D) ++ repeat None (N.to_nat m))
    by now rewrite <- app_assoc.
  unfold psplice. rewrite <- Hp.
  rewrite take_app_len. rewrite <- drop_drop, drop_app_len, Hm.
  rewrite drop_repeat by exact H. rewrite map_app, <- !app_assoc. reflexivity.
Qed.

Section WriterContract.
  Variable Sim : wstate -> lstate -> Prop.
  Hypothesis WC_step : forall dirty st s o, Sim st s ->
    Sim (fst (wstep dirty st o)) (fst (log_step s o)) /\ obs_ok (snd (log_step s o)) (snd (wstep dirty st o)).
  Hypothesis WC_regions : forall st s, Sim st s -> nregions st = (lstale s + length (lwin s))%nat.

  Variable dirty : nat -> bytes.

  (* a log state that differs from s only by what was appended to the unflushed string *)
  Definition extends (s s' : lstate) (x : bytes) : Prop :=
    lL s' = lL s ++ map Some x /\ lerr s' = lerr s /\ lK s' = lK s /\ lfake s' = lfake s /\
    lcalls s' = lcalls s /\ lfail s' = lfail s /\ ltarget s' = ltarget s /\
    lnil s' = (lnil s && (len x =? 0)).

  Lemma extends_refl s : extends s s [].
  Proof. unfold extends. cbn [map]. rewrite app_nil_r, andb_true_r. repeat split. Qed.
  Lemma extends_trans s s1 s2 x y : extends s s1 x -> extends s1 s2 y -> extends s s2 (x ++ y).
  Proof.
    intros (A1 & A2 & A3 & A4 & A5 & A6 & A7 & A8) (B1 & B2 & B3 & B4 & B5 & B6 & B7 & B8).
    unfold extends. rewrite B1, A1, map_app, <- app_assoc. repeat split; try congruence.
    rewrite B8, A8, len_app, <- andb_assoc. f_equal.
    destruct (N.eqb_spec (len x) 0), (N.eqb_spec (len y) 0), (N.eqb_spec (len x + len y) 0); try reflexivity; lia.
  Qed.

  (* one model step whose specification step reports no error *)
  Lemma step_ok st s o :
    Sim st s -> o_err (snd (log_step s o)) = E_NONE ->
    exists st', wstep dirty st o = (st', snd (wstep dirty st o)) /\ st' = fst (wstep dirty st o) /\
                Sim st' (fst (log_step s o)) /\ o_err (snd (wstep dirty st o)) = E_NONE.
  Proof.
    intros HS He. destruct (WC_step dirty st s o HS) as [HS' (Ho & _)].
    exists (fst (wstep dirty st o)). rewrite <- surjective_pairing. repeat split; auto. congruence.
  Qed.

  (* the stores, at the log level *)
  Lemma fills_log stores : forall s a n D k,
    window_at s k = Some (a, n) ->
    lL s = take a (lL s) ++ map Some D ++ repeat None (N.to_nat (n - len D)) -> len (take a (lL s)) = a ->
    len D <= n -> tiles (len D) stores n ->
    forall st, Sim st s ->
    exists st' s', bw_stores dirty st k stores = Ok st' /\ Sim st' s' /\
                   lL s' = take a (lL s) ++ map Some (D ++ concat (map snd stores)) /\
                   lerr s' = lerr s /\ lK s' = lK s /\ lfake s' = lfake s /\ lcalls s' = lcalls s /\
                   lfail s' = lfail s /\ ltarget s' = ltarget s /\ lnil s' = lnil s.
  Proof.
    induction stores as [|[o bs] r IH]; intros s a n D k Hw HL Ha HD Ht st HS; cbn [bw_stores tiles map concat snd] in *.
    - exists st, s. subst n. rewrite N.sub_diag in HL. cbn [N.to_nat repeat] in HL.
      rewrite app_nil_r in HL. rewrite (app_nil_r D).
      split; [reflexivity|]. split; [exact HS|]. split; [exact HL|]. repeat (split; [reflexivity|]). reflexivity.
    - destruct Ht as [-> Ht].
      assert (Hfit : len D + len bs <= n).
      { pose proof (tiles_len r _ n Ht). lia. }
      assert (Hstep : log_step s (OFill k (len D) bs) =
                      (set_L s (psplice (lL s) (a + len D) (map Some bs)), mkobs E_NONE (len (lL s)) None)).
      { cbn [log_step]. rewrite Hw. destruct (N.leb_spec (len D + len bs) n) as [_|Hc]; [reflexivity|lia]. }
      destruct (step_ok st s (OFill k (len D) bs) HS) as (st1 & Hw1 & -> & HS1 & He1); [now rewrite Hstep|].
      rewrite Hstep in HS1. cbn [fst] in HS1.
      destruct (wstep dirty st (OFill k (len D) bs)) as [st1 ob1] eqn:Ews. cbn [snd fst] in *.
      rewrite He1. cbn [Z.eqb].
      set (s1 := set_L s (psplice (lL s) (a + len D) (map Some bs))) in *.
      assert (HL1 : lL s1 = take a (lL s) ++ map Some (D ++ bs) ++ repeat None (N.to_nat (n - len (D ++ bs)))).
      { unfold s1. cbn [set_L lL]. rewrite HL at 1. rewrite <- Ha at 2.
        rewrite psplice_fresh by lia. rewrite len_app. f_equal. f_equal. f_equal. lia. }
      assert (Htk : take a (lL s1) = take a (lL s)).
      { rewrite HL1. apply take_app_exact. now rewrite Ha. }
      destruct (IH s1 a n (D ++ bs) k) with (st := st1) as (st' & s' & Hb & HS' & HL' & E1 & E2 & E3 & E4 & E5 & E6 & E7).
      + exact Hw.
      + rewrite Htk. exact HL1.
      + now rewrite Htk.
      + rewrite len_app. lia.
      + rewrite len_app. exact Ht.
      + exact HS1.
      + exists st', s'. rewrite Hb. rewrite Htk in HL'. rewrite <- app_assoc in HL'. repeat split; auto.
  Qed.

  (* a whole method / sequence of methods *)
  Lemma bw_run_ok ops : forall st s,
    Sim st s -> lerr s = None -> Forall swop_tiled ops ->
    exists st' s', bw_run dirty st ops = Ok (st', E_NONE) /\ Sim st' s' /\ extends s s' (sw_bytes ops).
  Proof.
    induction ops as [|o ops IH]; intros st s HS Herr Ht.
    - exists st, s. cbn [bw_run]. split; [reflexivity|]. split; [exact HS|]. apply extends_refl.
    - inversion Ht as [|? ? Ho Hops]; subst. cbn [bw_run]. unfold sw_bytes. cbn [map concat]. fold (sw_bytes ops).
      destruct o as [n stores|v]; cbn [swop_tiled swop_bytes] in *.
      + (* Malloc n, then the stores *)
        set (s1 := log_append s (repeat None (N.to_nat n)) [(len (lL s), n)]).
        assert (Hstep : log_step s (OMalloc (Z.of_N n)) = (s1, mkobs E_NONE (len (lL s1)) None)).
        { cbn [log_step]. rewrite Herr. destruct (Z.ltb_spec (Z.of_N n) 0) as [Hc|_]; [lia|]. now rewrite N2Z.id. }
        destruct (step_ok st s (OMalloc (Z.of_N n)) HS) as (st1 & Hw1 & -> & HS1 & He1); [now rewrite Hstep|].
        rewrite Hstep in HS1. cbn [fst] in HS1.
        rewrite (WC_regions st s HS).
        destruct (wstep dirty st (OMalloc (Z.of_N n))) as [st1 ob1] eqn:Ews. cbn [snd fst] in *.
        rewrite He1. change (E_NONE =? E_PANIC)%Z with false. change (E_NONE =? E_FUEL)%Z with false.
        cbn [orb]. change (E_NONE =? E_NONE)%Z with true. cbv iota.
        assert (Hw : window_at s1 (lstale s + length (lwin s)) = Some (len (lL s), n)).
        { unfold window_at, s1. cbn [log_append lstale lwin app rev].
          destruct (Nat.ltb_spec (lstale s + length (lwin s)) (lstale s)) as [Hc|_]; [lia|].
          replace (lstale s + length (lwin s) - lstale s)%nat with (length (rev (lwin s))) by (rewrite rev_length; lia).
          apply nth_error_snoc. }
        assert (HL1 : lL s1 = lL s ++ repeat None (N.to_nat n)) by reflexivity.
        assert (Htk : take (len (lL s)) (lL s1) = lL s) by (rewrite HL1; apply take_app_len).
        destruct (fills_log stores s1 (len (lL s)) n [] (lstale s + length (lwin s))%nat Hw) with (st := st1)
          as (st2 & s2 & Hb & HS2 & HL2 & E1 & E2 & E3 & E4 & E5 & E6 & E7).
        * rewrite Htk. cbn [map app]. rewrite len_nil, N.sub_0_r. exact HL1.
        * now rewrite Htk.
        * rewrite len_nil. lia.
        * rewrite len_nil. exact Ho.
        * exact HS1.
        * rewrite Hb. cbn [bind]. rewrite Htk in HL2. cbn [app] in HL2.
          destruct (IH st2 s2 HS2) as (st' & s' & Hr & HS' & Hx); [|exact Hops|].
          { rewrite E1. unfold s1. cbn [log_append lerr]. exact Herr. }
          exists st', s'. split; [exact Hr|]. split; [exact HS'|].
          apply (extends_trans s s2 s'); [|exact Hx].
          unfold extends. unfold s1 in *. cbn [log_append lerr lK lfake lcalls lfail ltarget lnil] in *.
          repeat split; try congruence.
          rewrite E7. f_equal. rewrite repeat_len.
          pose proof (tiles_len stores 0 n Ho) as Hn. rewrite N.add_0_l in Hn. now rewrite Hn.
      + (* WriteBinary v *)
        set (s1 := log_append s (map Some v) []).
        assert (Hstep : log_step s (OWrite v) = (s1, mkobs E_NONE (len (lL s1)) None)).
        { cbn [log_step]. now rewrite Herr. }
        destruct (step_ok st s (OWrite v) HS) as (st1 & Hw1 & -> & HS1 & He1); [now rewrite Hstep|].
        rewrite Hstep in HS1. cbn [fst] in HS1.
        destruct (wstep dirty st (OWrite v)) as [st1 ob1] eqn:Ews. cbn [snd fst] in *.
        rewrite He1. change (E_NONE =? E_PANIC)%Z with false. change (E_NONE =? E_FUEL)%Z with false.
        cbn [orb]. change (E_NONE =? E_NONE)%Z with true. cbv iota.
        destruct (IH st1 s1 HS1) as (st' & s' & Hr & HS' & Hx); [exact Herr|exact Hops|].
        exists st', s'. split; [exact Hr|]. split; [exact HS'|].
        apply (extends_trans s s1 s'); [|exact Hx].
        unfold extends, s1. cbn [log_append lL lerr lK lfake lcalls lfail ltarget lnil]. repeat split.
        f_equal. unfold len. now rewrite map_length.
  Qed.

  (* WrittenLen is the length of the logical unflushed string *)
  Lemma written_len_sim st s : Sim st s -> written_len st = len (lL s).
  Proof.
    intros HS. destruct (WC_step dirty st s OLen HS) as [_ (_ & Hl & _)].
    cbn [wstep log_step snd o_len] in Hl. congruence.
  Qed.

  (* Flush on a clean log whose sink accepts the write *)
  Lemma flush_ok st s :
    Sim st s -> lerr s = None -> lnil s = false -> (lfake s = true \/ lcalls s + 1 <> lfail s) ->
    exists bytes, o_err (snd (wstep dirty st OFlush)) = E_NONE /\ o_sink (snd (wstep dirty st OFlush)) = Some bytes /\
                  matches (lL s) bytes /\ o_len (snd (wstep dirty st OFlush)) = 0.
  Proof.
    intros HS Herr Hnil Hsink. destruct (WC_step dirty st s OFlush HS) as [_ Hobs].
    assert (Hl : snd (log_step s OFlush) = mkobs E_NONE 0 (Some (lL s))).
    { cbn [log_step]. rewrite Herr, Hnil.
      destruct Hsink as [Hf|Hc].
      - rewrite Hf. reflexivity.
      - destruct (N.eqb_spec (lcalls s + 1) (lfail s)) as [He|_]; [contradiction|]. rewrite andb_false_r. reflexivity. }
    rewrite Hl in Hobs. destruct Hobs as (He & Hlen & Hs). cbn [o_err o_len o_sink] in *.
    destruct (o_sink (snd (wstep dirty st OFlush))) as [b|]; [|contradiction].
    exists b. repeat split; auto.
  Qed.

  (* ---------- sw_eq_enc ---------- *)
  Theorem sw_run_enc ops st s :
    Sim st s -> lerr s = None -> Forall swop_tiled ops -> sw_bytes ops <> [] ->
    (lfake s = true \/ lcalls s + 1 <> lfail s) ->
    exists st1, bw_run dirty st ops = Ok (st1, E_NONE) /\
                written_len st1 = written_len st + len (sw_bytes ops) /\
                exists B, matches (lL s) B /\
                          o_sink (snd (wstep dirty st1 OFlush)) = Some (B ++ sw_bytes ops) /\
                          o_err (snd (wstep dirty st1 OFlush)) = E_NONE.
  Proof.
    intros HS Herr Ht Hne Hsink.
    destruct (bw_run_ok ops st s HS Herr Ht) as (st1 & s1 & Hr & HS1 & (X1 & X2 & X3 & X4 & X5 & X6 & X7 & X8)).
    exists st1. split; [exact Hr|]. split.
    - rewrite (written_len_sim st1 s1 HS1), (written_len_sim st s HS), X1, len_app. f_equal.
      unfold len. now rewrite map_length.
    - destruct (flush_ok st1 s1 HS1) as (bytes & He & Hs & Hm & _).
      + congruence.
      + rewrite X8. destruct (N.eqb_spec (len (sw_bytes ops)) 0) as [H0|_]; [|apply andb_false_r].
        destruct (sw_bytes ops); [congruence|rewrite len_cons in H0; lia].
      + rewrite X4, X5, X6. exact Hsink.
      + rewrite X1 in Hm. apply matches_app_inv in Hm as (B & -> & HB). exists B. auto.
  Qed.

  Theorem sw_item_enc it st s :
    Sim st s -> lerr s = None -> (lfake s = true \/ lcalls s + 1 <> lfail s) ->
    exists st1, bw_item dirty st it = Ok (st1, E_NONE) /\
                written_len st1 = written_len st + len (enc it) /\
                exists B, matches (lL s) B /\
                          o_sink (snd (wstep dirty st1 OFlush)) = Some (B ++ enc it) /\
                          o_err (snd (wstep dirty st1 OFlush)) = E_NONE.
  Proof.
    intros HS Herr Hsink. rewrite <- (sw_item_bytes it). unfold bw_item.
    apply (sw_run_enc (sw_item it) st s HS Herr (sw_item_tiled it)); [|exact Hsink].
    rewrite sw_item_bytes. intros H. apply (f_equal len) in H. rewrite <- l_item_enc, len_nil in H.
    destruct it; cbn [l_item] in H; lia.
  Qed.

  Theorem sw_message_begin_enc name ty seq st s :
    Sim st s -> lerr s = None -> (lfake s = true \/ lcalls s + 1 <> lfail s) ->
    exists st1, bw_message_begin dirty st name ty seq = Ok (st1, E_NONE) /\
                written_len st1 = written_len st + len (enc_msg name ty seq) /\
                exists B, matches (lL s) B /\
                          o_sink (snd (wstep dirty st1 OFlush)) = Some (B ++ enc_msg name ty seq) /\
                          o_err (snd (wstep dirty st1 OFlush)) = E_NONE.
  Proof.
    intros HS Herr Hsink. rewrite <- (sw_message_begin_bytes name ty seq). unfold bw_message_begin.
    apply (sw_run_enc _ st s HS Herr (sw_message_begin_tiled name ty seq)); [|exact Hsink].
    rewrite sw_message_begin_bytes. intros H. apply (f_equal len) in H. rewrite len_enc_msg, len_nil in H. lia.
  Qed.

  (* a sequence of values: every method returns nil and the log grows by the concatenated encodings *)
  Lemma sw_items_enc its : forall st s,
    Sim st s -> lerr s = None ->
    exists st1 s1, bw_items dirty st its = Ok (st1, map (fun _ => E_NONE) its) /\ Sim st1 s1 /\
                   extends s s1 (concat (map enc its)).
  Proof.
    induction its as [|it its IH]; intros st s HS Herr; cbn [bw_items map concat].
    - exists st, s. split; [reflexivity|]. split; [exact HS|]. apply extends_refl.
    - unfold bw_item. destruct (bw_run_ok (sw_item it) st s HS Herr (sw_item_tiled it)) as (st1 & s1 & Hr & HS1 & Hx).
      rewrite Hr. cbn [bind]. change (E_NONE =? E_NONE)%Z with true. cbv iota.
      rewrite sw_item_bytes in Hx.
      destruct (IH st1 s1 HS1) as (st2 & s2 & Hr2 & HS2 & Hx2).
      { destruct Hx as (_ & E & _). congruence. }
      rewrite Hr2. cbn [bind]. exists st2, s2. split; [reflexivity|]. split; [exact HS2|].
      apply (extends_trans s s1 s2); assumption.
  Qed.
End WriterContract.

(* ---------- the contract as one proposition, and the theorems stated against it ---------- *)
Definition writer_contract (Sim : wstate -> lstate -> Prop) : Prop :=
  (forall dirty st s o, Sim st s ->
     Sim (fst (wstep dirty st o)) (fst (log_step s o)) /\ obs_ok (snd (log_step s o)) (snd (wstep dirty st o))) /\
  (forall st s, Sim st s -> nregions st = (lstale s + length (lwin s))%nat).

Theorem sw_eq_enc Sim : writer_contract Sim ->
  forall dirty it st s,
  Sim st s -> lerr s = None -> (lfake s = true \/ lcalls s + 1 <> lfail s) ->
  exists st1, bw_item dirty st it = Ok (st1, E_NONE) /\
              written_len st1 = written_len st + len (enc it) /\
              exists B, matches (lL s) B /\
                        o_sink (snd (wstep dirty st1 OFlush)) = Some (B ++ enc it) /\
                        o_err (snd (wstep dirty st1 OFlush)) = E_NONE.
Proof. intros (H1 & H2) dirty it st s. eapply sw_item_enc; eauto. Qed.

Theorem sw_msg_eq_enc Sim : writer_contract Sim ->
  forall dirty name ty seq st s,
  Sim st s -> lerr s = None -> (lfake s = true \/ lcalls s + 1 <> lfail s) ->
  exists st1, bw_message_begin dirty st name ty seq = Ok (st1, E_NONE) /\
              written_len st1 = written_len st + len (enc_msg name ty seq) /\
              exists B, matches (lL s) B /\
                        o_sink (snd (wstep dirty st1 OFlush)) = Some (B ++ enc_msg name ty seq) /\
                        o_err (snd (wstep dirty st1 OFlush)) = E_NONE.
Proof. intros (H1 & H2) dirty name ty seq st s. eapply sw_message_begin_enc; eauto. Qed.

Theorem sw_seq_eq_enc Sim : writer_contract Sim ->
  forall dirty its st s,
  Sim st s -> lerr s = None ->
  exists st1 s1, bw_items dirty st its = Ok (st1, map (fun _ => E_NONE) its) /\ Sim st1 s1 /\
                 lL s1 = lL s ++ map Some (concat (map enc its)) /\ lerr s1 = None.
Proof.
  intros (H1 & H2) dirty its st s HS He.
  destruct (sw_items_enc Sim H1 H2 dirty its st s HS He) as (st1 & s1 & Hr & HS1 & (X1 & X2 & _)).
  exists st1, s1. repeat split; auto. congruence.
Qed.
