(* Proofs/GenEquiv.v — the functions of protocol/thrift/binary.go as REGENERATED from the Go source
   (Gen/Funcs.v, tools/gotrans) are equal to the hand-written models of Model/Binary.v, the ones
   the theorems of C01 / C12 are about.

   One lemma g_thrift_<Func>_eq per generated function.  Conversions at the boundary:
     * generated integers are Z, the hand models use N for lengths / offsets and bit patterns:
       [zl] embeds the hand model's result;
     * a Go result list (..., err) becomes [Err code] through [unerr] (values returned beside a
       non-nil error are not modelled by hand);
     * in-place writers: generated and hand model both return (final buffer, n).
   Hypotheses state the domain of Go values: [wf buf] (every byte < 256), integer arguments in
   the range of their Go type ([in_s] / [in_u]), [glen_ok v] (a length fits in int).  Where a
   lemma needs none of them it is stated without. *)
From GV Require Import Lib.Bytes Lib.Res Lib.GoSem Gen.Consts Gen.Funcs Model.Binary Proofs.BinaryP Proofs.GenLib.
From Coq Require Import ZifyN ZifyNat ZifyBool.
Open Scope N_scope.

(* ---------- the error codes of the translator's table are the hand model's ---------- *)
Lemma ecode_thrift_ok :
  ecode "thrift.errReadMessage" = e_read_message /\ ecode "thrift.errBadVersion" = e_bad_version /\
  ecode "thrift.errReadField" = e_read_field /\ ecode "thrift.errReadMap" = e_read_map /\
  ecode "thrift.errReadList" = e_read_list /\ ecode "thrift.errReadSet" = e_read_set /\
  ecode "thrift.errReadStr" = e_read_str /\ ecode "thrift.errReadBin" = e_read_bin /\
  ecode "thrift.errReadBool" = e_read_bool /\ ecode "thrift.errReadByte" = e_read_byte /\
  ecode "thrift.errReadI16" = e_read_i16 /\ ecode "thrift.errReadI32" = e_read_i32 /\
  ecode "thrift.errReadI64" = e_read_i64 /\ ecode "thrift.errReadDouble" = e_read_double /\
  ecode "thrift.errDepthLimitExceeded" = e_depth /\ ecode "thrift.errBufferTooShort" = e_too_short /\
  ecode "thrift.errNegativeSize" = e_neg_size.
Proof. repeat split; reflexivity. Qed.

(* intW(u): the generated conversion is the hand model's *)
Lemma wraps8 u : u < 256 -> wraps 8 (Z.of_N u) = i8 u. Proof. exact (wraps_ts8 u). Qed.
Lemma wraps16 u : u < 65536 -> wraps 16 (Z.of_N u) = i16 u. Proof. exact (wraps_ts16 u). Qed.
Lemma wraps32 u : u < 4294967296 -> wraps 32 (Z.of_N u) = i32 u. Proof. exact (wraps_ts32 u). Qed.
Lemma wraps64 u : u < 18446744073709551616 -> wraps 64 (Z.of_N u) = i64 u. Proof. exact (wraps_ts64 u). Qed.

(* ---------- buffer readers ---------- *)
Lemma g_thrift_ReadBool_eq buf : unerr (g_thrift_ReadBool buf) = rmap zl (r_bool buf).
Proof.
  unfold g_thrift_ReadBool, r_bool, need. lentest buf 1%Z 1 H; [reflexivity|].
  rewrite (gindex_ok buf 0) by (unfold glen; lia). cbn [bind Z.to_nat].
  destruct (Z.eqb_spec (Z.of_N (nth 0 buf 0)) 1) as [E|E];
    destruct (N.eqb_spec (nth 0 buf 0) 1) as [E'|E']; try lia; reflexivity.
Qed.

Lemma g_thrift_ReadByte_eq buf : wf buf -> unerr (g_thrift_ReadByte buf) = rmap zl (r_byte buf).
Proof.
  intros W. unfold g_thrift_ReadByte, r_byte, need. lentest buf 1%Z 1 H; [reflexivity|].
  rewrite (gindex_ok buf 0) by (unfold glen; lia). cbn [bind Z.to_nat unerr rmap].
  rewrite wraps8 by (apply nth_wf; exact W). reflexivity.
Qed.

Lemma g_thrift_ReadI16_eq buf : wf buf -> unerr (g_thrift_ReadI16 buf) = rmap zl (r_i16 buf).
Proof.
  intros W. unfold g_thrift_ReadI16, r_i16, need. lentest buf 2%Z 2 H; [reflexivity|].
  rewrite (gbe_load_ok 2) by (cbn; lia). cbn [bind unerr rmap].
  change (N.of_nat 2) with 2. rewrite wraps16 by (apply (unbe_take_lt 2); [exact W|lia]). reflexivity.
Qed.

Lemma g_thrift_ReadI32_eq buf : wf buf -> unerr (g_thrift_ReadI32 buf) = rmap zl (r_i32 buf).
Proof.
  intros W. unfold g_thrift_ReadI32, r_i32, need. lentest buf 4%Z 4 H; [reflexivity|].
  rewrite (gbe_load_ok 4) by (cbn; lia). cbn [bind unerr rmap].
  change (N.of_nat 4) with 4. rewrite wraps32 by (apply (unbe_take_lt 4); [exact W|lia]). reflexivity.
Qed.

Lemma g_thrift_ReadI64_eq buf : wf buf -> unerr (g_thrift_ReadI64 buf) = rmap zl (r_i64 buf).
Proof.
  intros W. unfold g_thrift_ReadI64, r_i64, need. lentest buf 8%Z 8 H; [reflexivity|].
  rewrite (gbe_load_ok 8) by (cbn; lia). cbn [bind unerr rmap].
  change (N.of_nat 8) with 8. rewrite wraps64 by (apply (unbe_take_lt 8); [exact W|lia]). reflexivity.
Qed.

(* float64 is its bit pattern on both sides: (bits, l) *)
Definition zzl (p : N * N) : Z * Z := (Z.of_N (fst p), Z.of_N (snd p)).
Lemma g_thrift_ReadDouble_eq buf : unerr (g_thrift_ReadDouble buf) = rmap zzl (r_double buf).
Proof.
  unfold g_thrift_ReadDouble, r_double, need. lentest buf 8%Z 8 H; [reflexivity|].
  rewrite (gbe_load_ok 8) by (cbn; lia). reflexivity.
Qed.

Lemma g_thrift_ReadFieldBegin_eq buf :
  wf buf -> unerr (g_thrift_ReadFieldBegin buf) = rmap zl (r_field_begin buf).
Proof.
  intros W. unfold g_thrift_ReadFieldBegin, r_field_begin, need.
  lentest buf 1%Z 1 H; [reflexivity|].
  rewrite (gindex_ok buf 0) by (unfold glen; lia). cbn [bind Z.to_nat].
  rewrite wraps8 by (apply nth_wf; exact W). change thrift_STOP with 0%Z.
  destruct (Z.eqb_spec (i8 (nth 0 buf 0)) 0) as [E|E]; [reflexivity|].
  lentest buf 3%Z 3 H3; [reflexivity|].
  rewrite (gslice_from_ok buf 1) by (unfold glen; lia). cbn [bind]. change (Z.to_N 1) with 1.
  rewrite (gbe_load_drop 2 1) by (cbn; lia). cbn [bind unerr rmap]. change (N.of_nat 2) with 2.
  rewrite wraps16 by (apply (unbe_take_drop_lt 2 1); [exact W|lia]). reflexivity.
Qed.

Lemma g_thrift_ReadMapBegin_eq buf :
  wf buf -> unerr (g_thrift_ReadMapBegin buf) = rmap zl (r_map_begin buf).
Proof.
  intros W. unfold g_thrift_ReadMapBegin, r_map_begin, need.
  lentest buf 6%Z 6 H; [reflexivity|].
  rewrite (gindex_ok buf 0), (gindex_ok buf 1) by (unfold glen; lia). cbn [bind Z.to_nat].
  rewrite (gslice_from_ok buf 2) by (unfold glen; lia). cbn [bind]. change (Z.to_N 2) with 2.
  rewrite (gbe_load_drop 4 2) by (cbn; lia). cbn [bind unerr rmap]. change (N.of_nat 4) with 4.
  rewrite !wraps8 by (apply nth_wf; exact W). reflexivity.
Qed.

Lemma g_list_begin_gen e buf (g : res (Z * Z * Z * gerror)) :
  wf buf ->
  g = (if (glen buf <? 5)%Z then Ok (0, 0, 0, Some e)%Z
       else do t_1 <- gindex buf 0; do t_2 <- gslice_from buf 1; do t_3 <- gbe_load 4 t_2;
            Ok (wraps 8 t_1, t_3, 5, gnil)%Z) ->
  unerr g = rmap zl (r_list_begin_gen e buf).
Proof.
  intros W ->. unfold r_list_begin_gen, need.
  lentest buf 5%Z 5 H; [reflexivity|].
  rewrite (gindex_ok buf 0) by (unfold glen; lia). cbn [bind Z.to_nat].
  rewrite (gslice_from_ok buf 1) by (unfold glen; lia). cbn [bind]. change (Z.to_N 1) with 1.
  rewrite (gbe_load_drop 4 1) by (cbn; lia). cbn [bind unerr rmap]. change (N.of_nat 4) with 4.
  rewrite !wraps8 by (apply nth_wf; exact W). reflexivity.
Qed.

Lemma g_thrift_ReadListBegin_eq buf :
  wf buf -> unerr (g_thrift_ReadListBegin buf) = rmap zl (r_list_begin buf).
Proof. intros W. apply g_list_begin_gen; [exact W|reflexivity]. Qed.

Lemma g_thrift_ReadSetBegin_eq buf :
  wf buf -> unerr (g_thrift_ReadSetBegin buf) = rmap zl (r_set_begin buf).
Proof. intros W. apply g_list_begin_gen; [exact W|reflexivity]. Qed.

Lemma i32_range u : u < 4294967296 -> (- 2147483648 <= i32 u < 2147483648)%Z.
Proof. intros H. pose proof (to_signed_range 32 u) as R. unfold in_signed in R. apply R; [lia|exact H]. Qed.

Lemma g_thrift_ReadI32_sim buf : wf buf -> sim zl (g_thrift_ReadI32 buf) (r_i32 buf).
Proof.
  intros W. unfold g_thrift_ReadI32, r_i32, need.
  lentest buf 4%Z 4 H; [cbn; eexists; reflexivity|].
  rewrite (gbe_load_ok 4) by (cbn; lia). cbn [bind sim].
  change (N.of_nat 4) with 4. rewrite wraps32 by (apply (unbe_take_lt 4); [exact W|lia]). reflexivity.
Qed.

Lemma g_binary_gen ebase buf (g : res (bytes * Z * gerror)) :
  wf buf ->
  g = (do (t_1, t_2, t_3) <- g_thrift_ReadI32 buf;
       if negb (is_nil t_3) then Ok (nil : bytes, 0, Some ebase)%Z
       else if (t_1 <? 0)%Z then Ok (nil : bytes, 0, Some (ecode "thrift.errNegativeSize"))%Z
       else if (glen buf <? wraps 64 (4 + t_1))%Z then Ok (nil : bytes, 4, Some ebase)%Z
       else do t_4 <- gslice_range buf 4 (wraps 64 (4 + t_1)); Ok (t_4, wraps 64 (4 + t_1), gnil)) ->
  sim zl g (r_binary_gen ebase buf).
Proof.
  intros W ->. unfold r_binary_gen. pose proof (g_thrift_ReadI32_sim buf W) as S.
  destruct (r_i32_cases buf) as [[Hl Hr]|[Hl Hr]]; rewrite Hr in S |- *; cbn [sim] in S.
  - destruct S as [[v l] S]. rewrite S. cbn. eexists; reflexivity.
  - rewrite S. unfold zl. cbn [bind fst snd is_nil gnil negb].
    assert (unbe (take 4 buf) < 4294967296) as Hu by (apply (unbe_take_lt 4); [exact W|lia]).
    pose proof (i32_range _ Hu) as R. set (sz := i32 (unbe (take 4 buf))) in *.
    destruct (Z.ltb_spec sz 0) as [Hn|Hn]; [cbn; eexists; reflexivity|].
    rewrite wraps64_small by lia.
    destruct (Z.ltb_spec (glen buf) (4 + sz)) as [Hs|Hs];
      destruct (N.ltb_spec (len buf) (4 + Z.to_N sz)) as [Hs'|Hs']; unfold glen in Hs; try lia.
    + cbn. eexists; reflexivity.
    + rewrite gslice_range_ok by (unfold glen; lia). cbn [bind sim].
      replace (Z.to_N (4 + sz) - Z.to_N 4) with (Z.to_N sz) by lia.
      change (Z.to_N 4) with 4. replace (4 + sz)%Z with (Z.of_N (4 + Z.to_N sz)) by lia.
      reflexivity.
Qed.

(* spanCacheEnable: both branches of `if spanCacheEnable` produce the same contents
   (spanCache.Copy, []byte(string(x)), unsafex.BinaryToString are the identity on contents) *)
Lemma g_thrift_ReadBinary_sim en buf : wf buf -> sim zl (g_thrift_ReadBinary en buf) (r_binary buf).
Proof.
  intros W. apply g_binary_gen; [exact W|]. unfold g_thrift_ReadBinary.
  destruct (g_thrift_ReadI32 buf) as [[[v l] e]| | |]; [|reflexivity..]. cbn [bind].
  destruct en; reflexivity.
Qed.
Lemma g_thrift_ReadString_sim en buf : wf buf -> sim zl (g_thrift_ReadString en buf) (r_string buf).
Proof.
  intros W. apply g_binary_gen; [exact W|]. unfold g_thrift_ReadString.
  destruct (g_thrift_ReadI32 buf) as [[[v l] e]| | |]; [|reflexivity..]. cbn [bind].
  destruct en; reflexivity.
Qed.

Lemma g_thrift_ReadBinary_eq en buf :
  wf buf -> unerr (g_thrift_ReadBinary en buf) = rmap zl (r_binary buf).
Proof. intros W. apply sim_unerr, g_thrift_ReadBinary_sim, W. Qed.
Lemma g_thrift_ReadString_eq en buf :
  wf buf -> unerr (g_thrift_ReadString en buf) = rmap zl (r_string buf).
Proof. intros W. apply sim_unerr, g_thrift_ReadString_sim, W. Qed.

Lemma N_land_65535 a : N.land a 65535 < 65536.
Proof. change 65535 with (N.ones 16). rewrite N.land_ones. apply N.mod_lt. discriminate. Qed.

Lemma r_string_ok_small b v n : wf b -> r_string b = Ok (v, n) -> n <= len b /\ n < 4294967296.
Proof.
  intros W H. apply r_binary_gen_ok in H as (sz & H4 & Hi & Hn & Hle & _). split; [exact Hle|].
  assert (unbe (take 4 b) < 4294967296) as Hu by (apply (unbe_take_lt 4); [exact W|lia]).
  pose proof (i32_range _ Hu). lia.
Qed.

Lemma g_thrift_ReadMessageBegin_sim en buf :
  wf buf -> sim zl (g_thrift_ReadMessageBegin en buf) (r_message_begin buf).
Proof.
  intros W. unfold g_thrift_ReadMessageBegin, r_message_begin.
  lentest buf 4%Z 4 H; [cbn; eexists; reflexivity|].
  rewrite (gbe_load_ok 4) by (cbn; lia). cbn [bind]. change (N.of_nat 4) with 4.
  set (header := unbe (take 4 buf)).
  change 4294901760%Z with (Z.of_N 4294901760). change 65535%Z with (Z.of_N 65535).
  rewrite !Z_land_of_N.
  change (Z.to_N thrift_msgVersionMask) with 4294901760. change (Z.to_N thrift_msgVersion1) with 2147549184.
  change (Z.to_N thrift_msgTypeMask) with 65535.
  destruct (Z.eqb_spec (Z.of_N (N.land header 4294901760)) 2147549184) as [E|E];
    destruct (N.eqb_spec (N.land header 4294901760) 2147549184) as [E'|E']; try lia;
    [|cbn; eexists; reflexivity].
  cbn [negb].
  rewrite (wraps_id 32) by (lia || (pose proof (N_land_65535 header); unfold in_s; lia)).
  rewrite (gslice_from_ok buf 4) by (unfold glen; lia). rewrite slice_from_ok by lia.
  cbn [bind]. change (Z.to_N 4) with 4.
  pose proof (g_thrift_ReadString_sim en (drop 4 buf) (wf_drop 4 buf W)) as S.
  destruct (r_string (drop 4 buf)) as [[name l]|e|w|] eqn:Hs; cbn [sim] in S;
    [|destruct S as [[nm x] S]; rewrite S; cbn [bind is_nil negb gerr_is to_msg_err_name];
      change (ecode "thrift.errNegativeSize") with e_neg_size;
      destruct (e =? e_neg_size)%Z; cbn; eexists; reflexivity|rewrite S; reflexivity..].
  rewrite S. cbn [bind zl fst snd is_nil gnil negb to_msg_err to_msg_err_name].
  apply r_string_ok_small in Hs as [Hle Hsm]; [|apply wf_drop; exact W].
  rewrite drop_len in Hle by lia.
  rewrite wraps64_small by lia.
  rewrite (gslice_from_ok buf (4 + Z.of_N l)) by (unfold glen; lia). rewrite slice_from_ok by lia.
  cbn [bind]. replace (Z.to_N (4 + Z.of_N l)) with (4 + l) by lia.
  pose proof (g_thrift_ReadI32_sim (drop (4 + l) buf) (wf_drop _ buf W)) as S2.
  destruct (r_i32_cases (drop (4 + l) buf)) as [[Hl Hr]|[Hl Hr]]; rewrite Hr in S2 |- *; cbn [sim] in S2.
  - destruct S2 as [[v x] S2]. rewrite S2. cbn. eexists; reflexivity.
  - rewrite S2. cbn [bind zl fst snd is_nil gnil negb to_msg_err sim].
    rewrite wraps64_small by lia. unfold zl. cbn [fst snd]. do 3 f_equal. lia.
Qed.
Lemma g_thrift_ReadMessageBegin_eq en buf :
  wf buf -> unerr (g_thrift_ReadMessageBegin en buf) = rmap zl (r_message_begin buf).
Proof. intros W. apply sim_unerr, g_thrift_ReadMessageBegin_sim, W. Qed.

(* ---------- length functions ---------- *)
Lemma g_thrift_BoolLength_eq b : g_thrift_BoolLength = Ok (Z.of_N (l_item (IBool b))).
Proof. reflexivity. Qed.
Lemma g_thrift_ByteLength_eq v : g_thrift_ByteLength = Ok (Z.of_N (l_item (IByte v))).
Proof. reflexivity. Qed.
Lemma g_thrift_I16Length_eq v : g_thrift_I16Length = Ok (Z.of_N (l_item (II16 v))).
Proof. reflexivity. Qed.
Lemma g_thrift_I32Length_eq v : g_thrift_I32Length = Ok (Z.of_N (l_item (II32 v))).
Proof. reflexivity. Qed.
Lemma g_thrift_I64Length_eq v : g_thrift_I64Length = Ok (Z.of_N (l_item (II64 v))).
Proof. reflexivity. Qed.
Lemma g_thrift_DoubleLength_eq v : g_thrift_DoubleLength = Ok (Z.of_N (l_item (IDouble v))).
Proof. reflexivity. Qed.
Lemma g_thrift_FieldBeginLength_eq t id : g_thrift_FieldBeginLength = Ok (Z.of_N (l_item (IFieldBegin t id))).
Proof. reflexivity. Qed.
Lemma g_thrift_FieldStopLength_eq : g_thrift_FieldStopLength = Ok (Z.of_N (l_item IFieldStop)).
Proof. reflexivity. Qed.
Lemma g_thrift_MapBeginLength_eq kt vt sz : g_thrift_MapBeginLength = Ok (Z.of_N (l_item (IMapBegin kt vt sz))).
Proof. reflexivity. Qed.
Lemma g_thrift_ListBeginLength_eq et sz : g_thrift_ListBeginLength = Ok (Z.of_N (l_item (IListBegin et sz))).
Proof. reflexivity. Qed.
Lemma g_thrift_SetBeginLength_eq et sz : g_thrift_SetBeginLength = Ok (Z.of_N (l_item (ISetBegin et sz))).
Proof. reflexivity. Qed.

(* 4 + len(v) is computed in int: equal to the unbounded sum exactly when it fits, which every
   Go string / slice satisfies with room to spare (len < 2^63 - 4) *)
Lemma len4_fits {A} (v : list A) : (glen v + 4 < 2 ^ 63)%Z -> wraps 64 (4 + glen v) = Z.of_N (4 + len v).
Proof. unfold glen. intros H. rewrite wraps64_small by lia. lia. Qed.

Lemma g_thrift_StringLength_eq v :
  (glen v + 4 < 2 ^ 63)%Z -> g_thrift_StringLength v = Ok (Z.of_N (l_item (IString v))).
Proof. intros H. unfold g_thrift_StringLength, l_item. now rewrite len4_fits. Qed.
Lemma g_thrift_BinaryLength_eq v :
  (glen v + 4 < 2 ^ 63)%Z -> g_thrift_BinaryLength v = Ok (Z.of_N (l_item (IBinary v))).
Proof. intros H. unfold g_thrift_BinaryLength, l_item. now rewrite len4_fits. Qed.
Lemma g_thrift_StringLengthNocopy_eq v :
  (glen v + 4 < 2 ^ 63)%Z -> g_thrift_StringLengthNocopy v = Ok (Z.of_N (l_item (IString v))).
Proof. intros H. unfold g_thrift_StringLengthNocopy, l_item. now rewrite len4_fits. Qed.
Lemma g_thrift_BinaryLengthNocopy_eq v :
  (glen v + 4 < 2 ^ 63)%Z -> g_thrift_BinaryLengthNocopy v = Ok (Z.of_N (l_item (IBinary v))).
Proof. intros H. unfold g_thrift_BinaryLengthNocopy, l_item. now rewrite len4_fits. Qed.
Lemma g_thrift_MessageBeginLength_eq m :
  (glen m + 12 < 2 ^ 63)%Z -> g_thrift_MessageBeginLength m = Ok (Z.of_N (l_message_begin m)).
Proof.
  intros H. unfold g_thrift_MessageBeginLength, l_message_begin. rewrite len4_fits by lia.
  unfold glen in H. rewrite (wraps64_small (4 + Z.of_N (4 + len m))) by lia.
  rewrite wraps64_small by lia. f_equal. lia.
Qed.

(* ---------- appending writers ---------- *)
Lemma gbyte_wrapu8 z : gbyte (wrapu 8 z) = u8 z.
Proof. exact (wrapu_to_unsigned 8 z). Qed.
Lemma to_N_wrapu16 z : Z.to_N (wrapu 16 z) = u16 z.
Proof. exact (wrapu_to_unsigned 16 z). Qed.
Lemma to_N_wrapu32 z : Z.to_N (wrapu 32 z) = u32 z.
Proof. exact (wrapu_to_unsigned 32 z). Qed.
Lemma to_N_wrapu64 z : Z.to_N (wrapu 64 z) = u64 z.
Proof. exact (wrapu_to_unsigned 64 z). Qed.

Lemma wrapu_nonneg w z : (0 <= w)%Z -> (0 <= wrapu w z)%Z.
Proof. intros H. apply wrapu_range. exact H. Qed.

(* byte(x >> k) for a non-negative x *)
Lemma gbyte_shr x k : (0 <= x)%Z -> (0 <= k)%Z -> gbyte (wrapu 8 (gshr x k)) = shrb (Z.to_N x) (Z.to_N k).
Proof.
  intros Hx Hk. unfold gbyte, wrapu, gshr, shrb.
  assert (0 < 2 ^ k)%Z by (apply Z.pow_pos_nonneg; lia).
  rewrite Z2N.inj_mod by (try apply Z.div_pos; lia).
  rewrite Z2N.inj_div by lia. rewrite Z2N.inj_pow by lia. reflexivity.
Qed.
Lemma gbyte_low x : (0 <= x)%Z -> gbyte (wrapu 8 x) = shrb (Z.to_N x) 0.
Proof.
  intros Hx. unfold gbyte, wrapu, shrb. rewrite Z2N.inj_mod by lia.
  change (2 ^ 0) with 1. rewrite N.div_1_r. reflexivity.
Qed.

Lemma g_thrift_appendUint32_eq buf v : (0 <= v)%Z -> g_thrift_appendUint32 buf v = Ok (app_u32 buf (Z.to_N v)).
Proof.
  intros H. unfold g_thrift_appendUint32, app_u32.
  rewrite !gbyte_shr by lia. rewrite gbyte_low by lia. reflexivity.
Qed.
Lemma g_thrift_appendUint64_eq buf v : (0 <= v)%Z -> g_thrift_appendUint64 buf v = Ok (app_u64 buf (Z.to_N v)).
Proof.
  intros H. unfold g_thrift_appendUint64, app_u64.
  rewrite !gbyte_shr by lia. rewrite gbyte_low by lia. reflexivity.
Qed.

Lemma g_thrift_AppendBool_eq buf v : g_thrift_AppendBool buf v = Ok (a_bool buf v).
Proof. destruct v; reflexivity. Qed.
Lemma g_thrift_AppendByte_eq buf v : g_thrift_AppendByte buf v = Ok (a_byte buf v).
Proof. unfold g_thrift_AppendByte, a_byte. now rewrite gbyte_wrapu8. Qed.
Lemma g_thrift_AppendI16_eq buf v : g_thrift_AppendI16 buf v = Ok (a_i16 buf v).
Proof.
  unfold g_thrift_AppendI16, a_i16. rewrite gbyte_shr by (try apply wrapu_nonneg; lia).
  rewrite to_N_wrapu16, gbyte_wrapu8. reflexivity.
Qed.
Lemma g_thrift_AppendI32_eq buf v : g_thrift_AppendI32 buf v = Ok (a_i32 buf v).
Proof.
  unfold g_thrift_AppendI32, a_i32. rewrite g_thrift_appendUint32_eq by (apply wrapu_nonneg; lia).
  rewrite to_N_wrapu32. reflexivity.
Qed.
Lemma g_thrift_AppendI64_eq buf v : g_thrift_AppendI64 buf v = Ok (a_i64 buf v).
Proof.
  unfold g_thrift_AppendI64, a_i64. rewrite g_thrift_appendUint64_eq by (apply wrapu_nonneg; lia).
  rewrite to_N_wrapu64. reflexivity.
Qed.
(* float64 as its bit pattern: a value of uint64 *)
Lemma g_thrift_AppendDouble_eq buf bits :
  bits < two64 -> g_thrift_AppendDouble buf (Z.of_N bits) = Ok (a_double buf bits).
Proof.
  intros H. unfold g_thrift_AppendDouble, a_double. rewrite g_thrift_appendUint64_eq by lia.
  rewrite N2Z.id, N.mod_small by exact H. reflexivity.
Qed.

(* a_i32 only depends on the low 32 bits of its argument *)
Lemma u32_wraps32 z : u32 (wraps 32 z) = u32 z.
Proof.
  unfold u32, to_unsigned, wraps. cbv zeta. f_equal.
  change (Z.of_N (2 ^ 32)) with (2 ^ 32)%Z.
  destruct (z mod 2 ^ 32 <? 2 ^ (32 - 1))%Z.
  - apply Z.mod_mod. lia.
  - rewrite <- (Z.mod_add _ 1) by lia. replace (z mod 2 ^ 32 - 2 ^ 32 + 1 * 2 ^ 32)%Z with (z mod 2 ^ 32)%Z by lia.
    apply Z.mod_mod. lia.
Qed.
Lemma a_i32_low buf x y : u32 x = u32 y -> a_i32 buf x = a_i32 buf y.
Proof. unfold a_i32. now intros ->. Qed.
Lemma u32_glen {A} (v : list A) : u32 (glen v) = len v mod two32.
Proof.
  unfold u32, to_unsigned, glen. change (Z.of_N (2 ^ 32)) with (Z.of_N two32).
  rewrite <- N2Z.inj_mod. apply N2Z.id.
Qed.

Lemma g_append_binary buf (v : bytes) : a_i32 buf (wraps 32 (glen v)) = a_i32 buf (i32 (len v mod two32)).
Proof.
  apply a_i32_low. rewrite u32_wraps32, u32_glen, u32_i32; [reflexivity|].
  apply N.mod_lt. discriminate.
Qed.
Lemma g_thrift_AppendBinary_eq buf v : g_thrift_AppendBinary buf v = Ok (a_binary buf v).
Proof.
  unfold g_thrift_AppendBinary, a_binary. rewrite g_thrift_AppendI32_eq. cbn [bind].
  now rewrite g_append_binary.
Qed.
Lemma g_thrift_AppendString_eq buf v : g_thrift_AppendString buf v = Ok (a_binary buf v).
Proof.
  unfold g_thrift_AppendString, a_binary. rewrite g_thrift_AppendI32_eq. cbn [bind].
  now rewrite g_append_binary.
Qed.

Lemma g_thrift_AppendFieldBegin_eq buf t id : g_thrift_AppendFieldBegin buf t id = Ok (a_field_begin buf t id).
Proof.
  unfold g_thrift_AppendFieldBegin, a_field_begin. rewrite !gbyte_wrapu8. do 4 f_equal.
  unfold gshr. change (2 ^ 8)%Z with 256%Z. rewrite u8_of_u16. f_equal.
  unfold u16, to_unsigned, wrapu. change (Z.of_N (2 ^ 16)) with (2 ^ 16)%Z. f_equal.
  apply Z.mod_mod. lia.
Qed.
Lemma g_thrift_AppendFieldStop_eq buf : g_thrift_AppendFieldStop buf = Ok (a_field_stop buf).
Proof. reflexivity. Qed.

Lemma u32_i32_u32 z : u32 (i32 (u32 z)) = u32 z.
Proof. apply u32_i32. apply u32_lt. Qed.

Lemma g_thrift_AppendMapBegin_eq buf kt vt size :
  g_thrift_AppendMapBegin buf kt vt size = Ok (a_map_begin buf kt vt size).
Proof.
  unfold g_thrift_AppendMapBegin, a_map_begin. rewrite g_thrift_AppendI32_eq. cbn [bind].
  rewrite !gbyte_wrapu8. f_equal. apply a_i32_low. now rewrite u32_wraps32, u32_i32_u32.
Qed.
Lemma g_thrift_AppendListBegin_eq buf et size :
  g_thrift_AppendListBegin buf et size = Ok (a_list_begin buf et size).
Proof.
  unfold g_thrift_AppendListBegin, a_list_begin. rewrite g_thrift_AppendI32_eq. cbn [bind].
  rewrite !gbyte_wrapu8. f_equal. apply a_i32_low. now rewrite u32_wraps32, u32_i32_u32.
Qed.
Lemma g_thrift_AppendSetBegin_eq buf et size :
  g_thrift_AppendSetBegin buf et size = Ok (a_list_begin buf et size).
Proof.
  unfold g_thrift_AppendSetBegin, a_list_begin. rewrite g_thrift_AppendI32_eq. cbn [bind].
  rewrite !gbyte_wrapu8. f_equal. apply a_i32_low. now rewrite u32_wraps32, u32_i32_u32.
Qed.

(* uint32(msgVersion1) | uint32(typeID & msgTypeMask): the hand model writes the sum *)
Lemma lor_version x : (0 <= x < 65536)%Z -> Z.lor 2147549184 x = (2147549184 + x)%Z.
Proof.
  intros H. assert (Z.land 2147549184 x = 0%Z) as L.
  { apply Z.bits_inj'. intros n Hn. rewrite Z.land_spec, Z.bits_0.
    destruct (Z.ltb_spec n 16).
    - change 2147549184%Z with (Z.shiftl 32769 16). rewrite Z.shiftl_spec_low by lia. reflexivity.
    - replace x with (x mod 2 ^ 16)%Z by (apply Z.mod_small; lia).
      rewrite Z.mod_pow2_bits_high by lia. apply andb_false_r. }
  rewrite <- Z.lxor_lor by exact L. symmetry. apply Z.add_nocarry_lxor. exact L.
Qed.
Lemma land_type_mask ty : (0 <= Z.land ty 65535 < 65536)%Z.
Proof. change 65535%Z with (Z.ones 16). rewrite Z.land_ones by lia. apply Z.mod_pos_bound. lia. Qed.

Lemma g_first_word ty :
  Z.to_N (Z.lor 2147549184 (wrapu 32 (Z.land ty 65535))) = msg_first_word ty.
Proof.
  pose proof (land_type_mask ty) as R. rewrite wrapu_id by (unfold in_u; lia).
  rewrite lor_version by exact R. unfold msg_first_word.
  change thrift_msgVersion1 with 2147549184%Z. change thrift_msgTypeMask with 65535%Z. lia.
Qed.
Lemma g_first_word_nonneg ty : (0 <= Z.lor 2147549184 (wrapu 32 (Z.land ty 65535)))%Z.
Proof.
  pose proof (land_type_mask ty) as R. rewrite wrapu_id by (unfold in_u; lia).
  rewrite lor_version by exact R. lia.
Qed.

Lemma g_thrift_AppendMessageBegin_eq buf name ty seq :
  g_thrift_AppendMessageBegin buf name ty seq = Ok (a_message_begin buf name ty seq).
Proof.
  unfold g_thrift_AppendMessageBegin, a_message_begin.
  rewrite g_thrift_appendUint32_eq by apply g_first_word_nonneg. cbn [bind].
  rewrite g_thrift_AppendString_eq. cbn [bind]. rewrite g_thrift_AppendI32_eq. cbn [bind].
  now rewrite g_first_word.
Qed.

(* ---------- in-place writers: (final buffer, n) ---------- *)
Lemma gput_put buf off bs : (0 <= off)%Z -> gput buf off bs = put buf (Z.to_N off) bs.
Proof. intros H. unfold gput, put. destruct (Z.ltb_spec off 0); [lia|reflexivity]. Qed.
Lemma gcopy_copy_to buf off v : (0 <= off)%Z -> gcopy buf off v = rmap zl (copy_to buf (Z.to_N off) v).
Proof.
  intros H. unfold gcopy, copy_to. destruct (Z.ltb_spec off 0); [lia|]. cbv zeta.
  destruct (N.leb_spec (Z.to_N off) (len buf)); reflexivity.
Qed.

Lemma gbe2 v : gbe 2 (wrapu 16 v) = be 2 (u16 v). Proof. unfold gbe. now rewrite to_N_wrapu16. Qed.
Lemma gbe4 v : gbe 4 (wrapu 32 v) = be 4 (u32 v). Proof. unfold gbe. now rewrite to_N_wrapu32. Qed.
Lemma gbe8 v : gbe 8 (wrapu 64 v) = be 8 (u64 v). Proof. unfold gbe. now rewrite to_N_wrapu64. Qed.

Ltac put_case_as x :=
  match goal with |- context [put ?b ?o ?bs] => destruct (put b o bs) as [x| | |]; try reflexivity end.
Ltac put_case := match goal with |- context [put ?b ?o ?bs] => destruct (put b o bs); try reflexivity end.

Lemma g_thrift_WriteBool_eq buf v : g_thrift_WriteBool buf v = rmap zl (w_bool buf v).
Proof.
  unfold g_thrift_WriteBool, w_bool, gstore. destruct v; rewrite gput_put by lia;
    change (Z.to_N 0) with 0; change (gbyte 1) with 1; change (gbyte 0) with 0; put_case.
Qed.
Lemma g_thrift_WriteByte_eq buf v : g_thrift_WriteByte buf v = rmap zl (w_byte buf v).
Proof.
  unfold g_thrift_WriteByte, w_byte, gstore. rewrite gput_put by lia. rewrite gbyte_wrapu8.
  change (Z.to_N 0) with 0. put_case.
Qed.
Lemma g_thrift_WriteI16_eq buf v : g_thrift_WriteI16 buf v = rmap zl (w_i16 buf v).
Proof.
  unfold g_thrift_WriteI16, w_i16. rewrite gput_put by lia. rewrite gbe2.
  change (Z.to_N 0) with 0. put_case.
Qed.
Lemma g_thrift_WriteI32_eq buf v : g_thrift_WriteI32 buf v = rmap zl (w_i32 buf v).
Proof.
  unfold g_thrift_WriteI32, w_i32. rewrite gput_put by lia. rewrite gbe4.
  change (Z.to_N 0) with 0. put_case.
Qed.
Lemma g_thrift_WriteI64_eq buf v : g_thrift_WriteI64 buf v = rmap zl (w_i64 buf v).
Proof.
  unfold g_thrift_WriteI64, w_i64. rewrite gput_put by lia. rewrite gbe8.
  change (Z.to_N 0) with 0. put_case.
Qed.
Lemma g_thrift_WriteDouble_eq buf bits :
  bits < two64 -> g_thrift_WriteDouble buf (Z.of_N bits) = rmap zl (w_double buf bits).
Proof.
  intros H. unfold g_thrift_WriteDouble, w_double. rewrite gput_put by lia. unfold gbe.
  rewrite N2Z.id, N.mod_small by exact H. change (Z.to_N 0) with 0. put_case.
Qed.
Lemma g_thrift_WriteFieldBegin_eq buf t id :
  g_thrift_WriteFieldBegin buf t id = rmap zl (w_field_begin buf t id).
Proof.
  unfold g_thrift_WriteFieldBegin, w_field_begin, gstore. rewrite gput_put by lia. rewrite gbyte_wrapu8.
  change (Z.to_N 0) with 0. put_case. cbn [bind]. rewrite gput_put by lia. rewrite gbe2.
  change (Z.to_N 1) with 1. put_case.
Qed.
Lemma g_thrift_WriteFieldStop_eq buf : g_thrift_WriteFieldStop buf = rmap zl (w_field_stop buf).
Proof.
  unfold g_thrift_WriteFieldStop, w_field_stop, gstore. rewrite gput_put by lia.
  change (Z.to_N 0) with 0. change (gbyte 0) with (u8 thrift_STOP). put_case.
Qed.
Lemma g_thrift_WriteMapBegin_eq buf kt vt size :
  g_thrift_WriteMapBegin buf kt vt size = rmap zl (w_map_begin buf kt vt size).
Proof.
  unfold g_thrift_WriteMapBegin, w_map_begin, gstore. rewrite gput_put by lia. rewrite gbyte_wrapu8.
  change (Z.to_N 0) with 0. put_case. cbn [bind]. rewrite gput_put by lia. rewrite gbyte_wrapu8.
  change (Z.to_N 1) with 1. put_case. cbn [bind]. rewrite gput_put by lia. rewrite gbe4.
  change (Z.to_N 2) with 2. put_case.
Qed.
Lemma g_thrift_WriteListBegin_eq buf et size :
  g_thrift_WriteListBegin buf et size = rmap zl (w_list_begin buf et size).
Proof.
  unfold g_thrift_WriteListBegin, w_list_begin, gstore. rewrite gput_put by lia. rewrite gbyte_wrapu8.
  change (Z.to_N 0) with 0. put_case. cbn [bind]. rewrite gput_put by lia. rewrite gbe4.
  change (Z.to_N 1) with 1. put_case.
Qed.
Lemma g_thrift_WriteSetBegin_eq buf et size :
  g_thrift_WriteSetBegin buf et size = rmap zl (w_list_begin buf et size).
Proof.
  unfold g_thrift_WriteSetBegin, w_list_begin, gstore. rewrite gput_put by lia. rewrite gbyte_wrapu8.
  change (Z.to_N 0) with 0. put_case. cbn [bind]. rewrite gput_put by lia. rewrite gbe4.
  change (Z.to_N 1) with 1. put_case.
Qed.

Lemma copy_to_le b off v b' m : copy_to b off v = Ok (b', m) -> m <= len v.
Proof.
  unfold copy_to. destruct (N.leb_spec off (len b)) as [Hle|Hle]; [|discriminate].
  intros Hx. inversion Hx. lia.
Qed.

Lemma gbe4_glen (v : bytes) : gbe 4 (wrapu 32 (glen v)) = be 4 (len v mod two32).
Proof. now rewrite gbe4, u32_glen. Qed.

(* 4 + copy(...) is computed in int; it cannot wrap because copy returns at most len(v) *)
Lemma g_write_binary buf v (g : res (bytes * Z)) :
  (glen v + 4 < 2 ^ 63)%Z ->
  g = (do b <- gput buf 0 (gbe 4 (wrapu 32 (glen v)));
       do (b', t_1) <- gcopy b 4 v; Ok (b', wraps 64 (4 + t_1))) ->
  g = rmap zl (w_binary buf v).
Proof.
  intros Hv ->. unfold w_binary. rewrite gput_put by lia. rewrite gbe4_glen.
  change (Z.to_N 0) with 0. put_case_as b1. cbn [bind]. rewrite gcopy_copy_to by lia. change (Z.to_N 4) with 4.
  destruct (copy_to b1 4 v) as [[b' m]| | |] eqn:E; try reflexivity.
  apply copy_to_le in E. unfold glen in Hv. unfold zl at 1. cbn [rmap bind fst snd].
  rewrite wraps64_small by lia. unfold zl. cbn [fst snd]. do 3 f_equal. lia.
Qed.
Lemma g_thrift_WriteBinary_eq buf v :
  (glen v + 4 < 2 ^ 63)%Z -> g_thrift_WriteBinary buf v = rmap zl (w_binary buf v).
Proof. intros H. apply g_write_binary; [exact H|reflexivity]. Qed.
Lemma g_thrift_WriteString_eq buf v :
  (glen v + 4 < 2 ^ 63)%Z -> g_thrift_WriteString buf v = rmap zl (w_binary buf v).
Proof. intros H. apply g_write_binary; [exact H|reflexivity]. Qed.

Lemma g_thrift_WriteMessageBegin_eq buf name ty seq :
  (glen name + 12 < 2 ^ 63)%Z ->
  g_thrift_WriteMessageBegin buf name ty seq = rmap zl (w_message_begin buf name ty seq).
Proof.
  intros Hv. unfold g_thrift_WriteMessageBegin, w_message_begin.
  rewrite gput_put by lia. unfold gbe at 1. rewrite g_first_word. change (Z.to_N 0) with 0.
  put_case_as b0. cbn [bind]. rewrite gput_put by lia. rewrite gbe4_glen. change (Z.to_N 4) with 4.
  put_case_as b1. cbn [bind]. rewrite gcopy_copy_to by lia. change (Z.to_N 8) with 8.
  destruct (copy_to b1 8 name) as [[b2 m]| | |] eqn:E; try reflexivity.
  apply copy_to_le in E. unfold glen in Hv. unfold zl at 1. cbn [rmap bind fst snd].
  rewrite wraps64_small by lia. rewrite gput_put by lia. rewrite gbe4.
  replace (Z.to_N (8 + Z.of_N m)) with (8 + m) by lia.
  put_case. cbn [bind rmap]. rewrite wraps64_small by lia. unfold zl. cbn [fst snd]. do 3 f_equal. lia.
Qed.
