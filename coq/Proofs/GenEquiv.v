(* Proofs/GenEquiv.v — the functions of protocol/thrift/binary.go as REGENERATED from the Go source
   (Gen/Funcs.v, tools/gotrans) are equal to the hand-written models of Model/Binary.v, the ones
   the theorems of C01 / C12 are about.

   One lemma g_thrift_<Func>_eq per generated function.  Conversions at the boundary:
     * generated integers are Z, the hand models use N for lengths / offsets and bit patterns:
       [zl] embeds the hand model's result;
     * a Go result list (..., err) becomes [Err code] through [unerr] (values returned beside a
       non-nil error are not modelled by hand);
     * in-place writers: generated and hand model both return (final buffer, n).
   Hypotheses state the domain of Go values: [wf buf] (every byte < 256), integer arguments in
   the range of their Go type ([in_s] / [in_u]), [glen_ok v] (a length fits in int).  Where a
   lemma needs none of them it is stated without. *)
From GV Require Import Lib.Bytes Lib.Res Lib.GoSem Gen.Consts Gen.Funcs Model.Binary Proofs.BinaryP.
From Coq Require Import ZifyN ZifyNat ZifyBool.
Open Scope N_scope.

(* ---------- the error codes of the translator's table are the hand model's ---------- *)
Lemma ecode_thrift_ok :
  ecode "thrift.errReadMessage" = e_read_message /\ ecode "thrift.errBadVersion" = e_bad_version /\
  ecode "thrift.errReadField" = e_read_field /\ ecode "thrift.errReadMap" = e_read_map /\
  ecode "thrift.errReadList" = e_read_list /\ ecode "thrift.errReadSet" = e_read_set /\
  ecode "thrift.errReadStr" = e_read_str /\ ecode "thrift.errReadBin" = e_read_bin /\
  ecode "thrift.errReadBool" = e_read_bool /\ ecode "thrift.errReadByte" = e_read_byte /\
  ecode "thrift.errReadI16" = e_read_i16 /\ ecode "thrift.errReadI32" = e_read_i32 /\
  ecode "thrift.errReadI64" = e_read_i64 /\ ecode "thrift.errReadDouble" = e_read_double /\
  ecode "thrift.errDepthLimitExceeded" = e_depth /\ ecode "thrift.errBufferTooShort" = e_too_short /\
  ecode "thrift.errNegativeSize" = e_neg_size.
Proof. repeat split; reflexivity. Qed.

(* ---------- boundary conversions ---------- *)
(* (v, l) of the hand model with the length as a Go int *)
Definition zl {A} (p : A * N) : A * Z := (fst p, Z.of_N (snd p)).
Definition glen_ok {A} (l : list A) : Prop := (glen l < 2 ^ 63)%Z.

(* ---------- helper lemmas ---------- *)
Lemma glen_ltb {A} (b : list A) (k : N) : (glen b <? Z.of_N k)%Z = (len b <? k).
Proof. unfold glen. destruct (Z.ltb_spec (Z.of_N (len b)) (Z.of_N k)); destruct (N.ltb_spec (len b) k); lia. Qed.

Lemma wf_take n l : wf l -> wf (take n l).
Proof.
  unfold wf, take. intros H. rewrite <- (firstn_skipn (N.to_nat n) l) in H.
  apply Forall_app in H. tauto.
Qed.
Lemma wf_drop n l : wf l -> wf (drop n l).
Proof.
  unfold wf, drop. intros H. rewrite <- (firstn_skipn (N.to_nat n) l) in H.
  apply Forall_app in H. tauto.
Qed.

Lemma unbe_take_lt k l : wf l -> k <= len l -> unbe (take k l) < 256 ^ k.
Proof.
  intros H Hk. pose proof (unbe_lt (take k l) (wf_take k l H)) as Hlt.
  rewrite take_len in Hlt by exact Hk. exact Hlt.
Qed.

Lemma gbe_load_ok k b : N.of_nat k <= len b -> gbe_load k b = Ok (Z.of_N (unbe (take (N.of_nat k) b))).
Proof. intros H. unfold gbe_load. destruct (N.ltb_spec (len b) (N.of_nat k)); [lia|reflexivity]. Qed.

Lemma nth_error_nth_len (b : bytes) i : i < len b -> nth_error b (N.to_nat i) = Some (nth (N.to_nat i) b 0).
Proof. intros H. apply nth_error_nth'. unfold len in H. lia. Qed.

Lemma gindex_ok b i : (0 <= i < glen b)%Z -> gindex b i = Ok (Z.of_N (nth (Z.to_nat i) b 0)).
Proof.
  unfold glen. intros H. unfold gindex, index. destruct (Z.ltb_spec i 0); [lia|].
  rewrite nth_error_nth_len by lia. cbn [bind]. do 3 f_equal. lia.
Qed.

Lemma nth_wf (b : bytes) i : wf b -> nth i b 0 < 256.
Proof.
  intros H. destruct (Nat.lt_ge_cases i (length b)) as [Hi|Hi].
  - unfold wf in H. rewrite Forall_forall in H. apply H. apply nth_In. exact Hi.
  - rewrite nth_overflow by exact Hi. lia.
Qed.

Lemma gslice_from_ok (b : bytes) off : (0 <= off <= glen b)%Z -> gslice_from b off = Ok (drop (Z.to_N off) b).
Proof.
  unfold glen. intros H. unfold gslice_from. destruct (Z.ltb_spec off 0); [lia|].
  apply slice_from_ok. lia.
Qed.

(* intW(u): the generated conversion is the hand model's *)
Lemma wraps8 u : u < 256 -> wraps 8 (Z.of_N u) = i8 u.
Proof. intros H. apply (wraps_to_signed 8 u); [lia|exact H]. Qed.
Lemma wraps16 u : u < 65536 -> wraps 16 (Z.of_N u) = i16 u.
Proof. intros H. apply (wraps_to_signed 16 u); [lia|exact H]. Qed.
Lemma wraps32 u : u < 4294967296 -> wraps 32 (Z.of_N u) = i32 u.
Proof. intros H. apply (wraps_to_signed 32 u); [lia|exact H]. Qed.
Lemma wraps64 u : u < 18446744073709551616 -> wraps 64 (Z.of_N u) = i64 u.
Proof. intros H. apply (wraps_to_signed 64 u); [lia|exact H]. Qed.

Lemma wraps64_small z : (- 2 ^ 63 <= z < 2 ^ 63)%Z -> wraps 64 z = z.
Proof. intros H. apply wraps_id; [lia|exact H]. Qed.

(* the length test `len(buf) < k` of the generated function and of the hand model, decided together *)
Ltac lentest b kz k H :=
  destruct (Z.ltb_spec (glen b) kz) as [H|H];
  destruct (N.ltb_spec (len b) k); unfold glen in H; try lia; clear H;
  match goal with H' : (_ < _) |- _ => rename H' into H | H' : (_ <= _) |- _ => rename H' into H end.

(* ---------- buffer readers ---------- *)
Lemma g_thrift_ReadBool_eq buf : unerr (g_thrift_ReadBool buf) = rmap zl (r_bool buf).
Proof.
  unfold g_thrift_ReadBool, r_bool, need. lentest buf 1%Z 1 H; [reflexivity|].
  rewrite (gindex_ok buf 0) by (unfold glen; lia). cbn [bind Z.to_nat].
  destruct (Z.eqb_spec (Z.of_N (nth 0 buf 0)) 1) as [E|E];
    destruct (N.eqb_spec (nth 0 buf 0) 1) as [E'|E']; try lia; reflexivity.
Qed.

Lemma g_thrift_ReadByte_eq buf : wf buf -> unerr (g_thrift_ReadByte buf) = rmap zl (r_byte buf).
Proof.
  intros W. unfold g_thrift_ReadByte, r_byte, need. lentest buf 1%Z 1 H; [reflexivity|].
  rewrite (gindex_ok buf 0) by (unfold glen; lia). cbn [bind Z.to_nat unerr rmap].
  rewrite wraps8 by (apply nth_wf; exact W). reflexivity.
Qed.

Lemma g_thrift_ReadI16_eq buf : wf buf -> unerr (g_thrift_ReadI16 buf) = rmap zl (r_i16 buf).
Proof.
  intros W. unfold g_thrift_ReadI16, r_i16, need. lentest buf 2%Z 2 H; [reflexivity|].
  rewrite (gbe_load_ok 2) by (cbn; lia). cbn [bind unerr rmap].
  change (N.of_nat 2) with 2. rewrite wraps16 by (apply (unbe_take_lt 2); [exact W|lia]). reflexivity.
Qed.

Lemma g_thrift_ReadI32_eq buf : wf buf -> unerr (g_thrift_ReadI32 buf) = rmap zl (r_i32 buf).
Proof.
  intros W. unfold g_thrift_ReadI32, r_i32, need. lentest buf 4%Z 4 H; [reflexivity|].
  rewrite (gbe_load_ok 4) by (cbn; lia). cbn [bind unerr rmap].
  change (N.of_nat 4) with 4. rewrite wraps32 by (apply (unbe_take_lt 4); [exact W|lia]). reflexivity.
Qed.

Lemma g_thrift_ReadI64_eq buf : wf buf -> unerr (g_thrift_ReadI64 buf) = rmap zl (r_i64 buf).
Proof.
  intros W. unfold g_thrift_ReadI64, r_i64, need. lentest buf 8%Z 8 H; [reflexivity|].
  rewrite (gbe_load_ok 8) by (cbn; lia). cbn [bind unerr rmap].
  change (N.of_nat 8) with 8. rewrite wraps64 by (apply (unbe_take_lt 8); [exact W|lia]). reflexivity.
Qed.

(* float64 is its bit pattern on both sides: (bits, l) *)
Definition zzl (p : N * N) : Z * Z := (Z.of_N (fst p), Z.of_N (snd p)).
Lemma g_thrift_ReadDouble_eq buf : unerr (g_thrift_ReadDouble buf) = rmap zzl (r_double buf).
Proof.
  unfold g_thrift_ReadDouble, r_double, need. lentest buf 8%Z 8 H; [reflexivity|].
  rewrite (gbe_load_ok 8) by (cbn; lia). reflexivity.
Qed.

Lemma gbe_load_drop k off buf :
  off + N.of_nat k <= len buf ->
  gbe_load k (drop off buf) = Ok (Z.of_N (unbe (take (N.of_nat k) (drop off buf)))).
Proof. intros H. apply gbe_load_ok. rewrite drop_len by lia. lia. Qed.

Lemma unbe_take_drop_lt k off l : wf l -> off + k <= len l -> unbe (take k (drop off l)) < 256 ^ k.
Proof. intros W H. apply unbe_take_lt; [apply wf_drop; exact W|]. rewrite drop_len by lia. lia. Qed.

Lemma g_thrift_ReadFieldBegin_eq buf :
  wf buf -> unerr (g_thrift_ReadFieldBegin buf) = rmap zl (r_field_begin buf).
Proof.
  intros W. unfold g_thrift_ReadFieldBegin, r_field_begin, need.
  lentest buf 1%Z 1 H; [reflexivity|].
  rewrite (gindex_ok buf 0) by (unfold glen; lia). cbn [bind Z.to_nat].
  rewrite wraps8 by (apply nth_wf; exact W). change thrift_STOP with 0%Z.
  destruct (Z.eqb_spec (i8 (nth 0 buf 0)) 0) as [E|E]; [reflexivity|].
  lentest buf 3%Z 3 H3; [reflexivity|].
  rewrite (gslice_from_ok buf 1) by (unfold glen; lia). cbn [bind]. change (Z.to_N 1) with 1.
  rewrite (gbe_load_drop 2 1) by (cbn; lia). cbn [bind unerr rmap]. change (N.of_nat 2) with 2.
  rewrite wraps16 by (apply (unbe_take_drop_lt 2 1); [exact W|lia]). reflexivity.
Qed.

Lemma g_thrift_ReadMapBegin_eq buf :
  wf buf -> unerr (g_thrift_ReadMapBegin buf) = rmap zl (r_map_begin buf).
Proof.
  intros W. unfold g_thrift_ReadMapBegin, r_map_begin, need.
  lentest buf 6%Z 6 H; [reflexivity|].
  rewrite (gindex_ok buf 0), (gindex_ok buf 1) by (unfold glen; lia). cbn [bind Z.to_nat].
  rewrite (gslice_from_ok buf 2) by (unfold glen; lia). cbn [bind]. change (Z.to_N 2) with 2.
  rewrite (gbe_load_drop 4 2) by (cbn; lia). cbn [bind unerr rmap]. change (N.of_nat 4) with 4.
  rewrite !wraps8 by (apply nth_wf; exact W). reflexivity.
Qed.

Lemma g_list_begin_gen e buf (g : res (Z * Z * Z * gerror)) :
  wf buf ->
  g = (if (glen buf <? 5)%Z then Ok (0, 0, 0, Some e)%Z
       else do t_1 <- gindex buf 0; do t_2 <- gslice_from buf 1; do t_3 <- gbe_load 4 t_2;
            Ok (wraps 8 t_1, t_3, 5, gnil)%Z) ->
  unerr g = rmap zl (r_list_begin_gen e buf).
Proof.
  intros W ->. unfold r_list_begin_gen, need.
  lentest buf 5%Z 5 H; [reflexivity|].
  rewrite (gindex_ok buf 0) by (unfold glen; lia). cbn [bind Z.to_nat].
  rewrite (gslice_from_ok buf 1) by (unfold glen; lia). cbn [bind]. change (Z.to_N 1) with 1.
  rewrite (gbe_load_drop 4 1) by (cbn; lia). cbn [bind unerr rmap]. change (N.of_nat 4) with 4.
  rewrite !wraps8 by (apply nth_wf; exact W). reflexivity.
Qed.

Lemma g_thrift_ReadListBegin_eq buf :
  wf buf -> unerr (g_thrift_ReadListBegin buf) = rmap zl (r_list_begin buf).
Proof. intros W. apply g_list_begin_gen; [exact W|reflexivity]. Qed.

Lemma g_thrift_ReadSetBegin_eq buf :
  wf buf -> unerr (g_thrift_ReadSetBegin buf) = rmap zl (r_set_begin buf).
Proof. intros W. apply g_list_begin_gen; [exact W|reflexivity]. Qed.

(* ---------- a stronger form, for functions that are called by other generated functions:
   the generated function returns the embedded value with a nil error exactly when the hand
   model returns Ok, returns SOME tuple with the hand model's error code when it returns Err,
   and panics alike; it never produces an [Err] outcome itself ---------- *)
Definition sim {A B} (f : A -> B) (g : res (B * gerror)) (h : res A) : Prop :=
  match h with
  | Ok a => g = Ok (f a, gnil)
  | Err e => exists x, g = Ok (x, Some e)
  | Panic w => g = Panic w
  | OOB => g = OOB
  end.

Lemma sim_unerr {A B} (f : A -> B) g h : sim f g h -> unerr g = rmap f h.
Proof.
  unfold sim. destruct h as [a|e|w|]; [intros ->|intros [x ->]|intros ->|intros ->]; reflexivity.
Qed.

Lemma gslice_range_ok (b : bytes) lo hi :
  (0 <= lo <= hi)%Z -> (hi <= glen b)%Z ->
  gslice_range b lo hi = Ok (take (Z.to_N hi - Z.to_N lo) (drop (Z.to_N lo) b)).
Proof.
  unfold glen. intros H1 H2. unfold gslice_range, slice_range.
  destruct (Z.ltb_spec lo 0); [lia|]. destruct (Z.ltb_spec hi 0); [lia|]. cbn [orb].
  destruct (N.leb_spec (Z.to_N lo) (Z.to_N hi)); [|lia].
  destruct (N.leb_spec (Z.to_N hi) (len b)); [|lia]. reflexivity.
Qed.

Lemma i32_range u : u < 4294967296 -> (- 2147483648 <= i32 u < 2147483648)%Z.
Proof. intros H. pose proof (to_signed_range 32 u) as R. unfold in_signed in R. apply R; [lia|exact H]. Qed.

Lemma g_thrift_ReadI32_sim buf : wf buf -> sim zl (g_thrift_ReadI32 buf) (r_i32 buf).
Proof.
  intros W. unfold g_thrift_ReadI32, r_i32, need.
  lentest buf 4%Z 4 H; [cbn; eexists; reflexivity|].
  rewrite (gbe_load_ok 4) by (cbn; lia). cbn [bind sim].
  change (N.of_nat 4) with 4. rewrite wraps32 by (apply (unbe_take_lt 4); [exact W|lia]). reflexivity.
Qed.

Lemma g_binary_gen ebase buf (g : res (bytes * Z * gerror)) :
  wf buf ->
  g = (do (t_1, t_2, t_3) <- g_thrift_ReadI32 buf;
       if negb (is_nil t_3) then Ok (nil : bytes, 0, Some ebase)%Z
       else if (t_1 <? 0)%Z then Ok (nil : bytes, 0, Some (ecode "thrift.errNegativeSize"))%Z
       else if (glen buf <? wraps 64 (4 + t_1))%Z then Ok (nil : bytes, 4, Some ebase)%Z
       else do t_4 <- gslice_range buf 4 (wraps 64 (4 + t_1)); Ok (t_4, wraps 64 (4 + t_1), gnil)) ->
  sim zl g (r_binary_gen ebase buf).
Proof.
  intros W ->. unfold r_binary_gen. pose proof (g_thrift_ReadI32_sim buf W) as S.
  destruct (r_i32_cases buf) as [[Hl Hr]|[Hl Hr]]; rewrite Hr in S |- *; cbn [sim] in S.
  - destruct S as [[v l] S]. rewrite S. cbn. eexists; reflexivity.
  - rewrite S. unfold zl. cbn [bind fst snd is_nil gnil negb].
    assert (unbe (take 4 buf) < 4294967296) as Hu by (apply (unbe_take_lt 4); [exact W|lia]).
    pose proof (i32_range _ Hu) as R. set (sz := i32 (unbe (take 4 buf))) in *.
    destruct (Z.ltb_spec sz 0) as [Hn|Hn]; [cbn; eexists; reflexivity|].
    rewrite wraps64_small by lia.
    destruct (Z.ltb_spec (glen buf) (4 + sz)) as [Hs|Hs];
      destruct (N.ltb_spec (len buf) (4 + Z.to_N sz)) as [Hs'|Hs']; unfold glen in Hs; try lia.
    + cbn. eexists; reflexivity.
    + rewrite gslice_range_ok by (unfold glen; lia). cbn [bind sim].
      replace (Z.to_N (4 + sz) - Z.to_N 4) with (Z.to_N sz) by lia.
      change (Z.to_N 4) with 4. replace (4 + sz)%Z with (Z.of_N (4 + Z.to_N sz)) by lia.
      reflexivity.
Qed.

(* spanCacheEnable: both branches of `if spanCacheEnable` produce the same contents
   (spanCache.Copy, []byte(string(x)), unsafex.BinaryToString are the identity on contents) *)
Lemma g_thrift_ReadBinary_sim en buf : wf buf -> sim zl (g_thrift_ReadBinary en buf) (r_binary buf).
Proof.
  intros W. apply g_binary_gen; [exact W|]. unfold g_thrift_ReadBinary.
  destruct (g_thrift_ReadI32 buf) as [[[v l] e]| | |]; [|reflexivity..]. cbn [bind].
  destruct en; reflexivity.
Qed.
Lemma g_thrift_ReadString_sim en buf : wf buf -> sim zl (g_thrift_ReadString en buf) (r_string buf).
Proof.
  intros W. apply g_binary_gen; [exact W|]. unfold g_thrift_ReadString.
  destruct (g_thrift_ReadI32 buf) as [[[v l] e]| | |]; [|reflexivity..]. cbn [bind].
  destruct en; reflexivity.
Qed.

Lemma g_thrift_ReadBinary_eq en buf :
  wf buf -> unerr (g_thrift_ReadBinary en buf) = rmap zl (r_binary buf).
Proof. intros W. apply sim_unerr, g_thrift_ReadBinary_sim, W. Qed.
Lemma g_thrift_ReadString_eq en buf :
  wf buf -> unerr (g_thrift_ReadString en buf) = rmap zl (r_string buf).
Proof. intros W. apply sim_unerr, g_thrift_ReadString_sim, W. Qed.

Lemma Z_land_of_N a b : Z.land (Z.of_N a) (Z.of_N b) = Z.of_N (N.land a b).
Proof. destruct a, b; reflexivity. Qed.

Lemma N_land_65535 a : N.land a 65535 < 65536.
Proof. change 65535 with (N.ones 16). rewrite N.land_ones. apply N.mod_lt. discriminate. Qed.

Lemma r_string_ok_small b v n : wf b -> r_string b = Ok (v, n) -> n <= len b /\ n < 4294967296.
Proof.
  intros W H. apply r_binary_gen_ok in H as (sz & H4 & Hi & Hn & Hle & _). split; [exact Hle|].
  assert (unbe (take 4 b) < 4294967296) as Hu by (apply (unbe_take_lt 4); [exact W|lia]).
  pose proof (i32_range _ Hu). lia.
Qed.

Lemma g_thrift_ReadMessageBegin_eq en buf :
  wf buf -> unerr (g_thrift_ReadMessageBegin en buf) = rmap zl (r_message_begin buf).
Proof.
  intros W. unfold g_thrift_ReadMessageBegin, r_message_begin.
  lentest buf 4%Z 4 H; [reflexivity|].
  rewrite (gbe_load_ok 4) by (cbn; lia). cbn [bind]. change (N.of_nat 4) with 4.
  set (header := unbe (take 4 buf)).
  change 4294901760%Z with (Z.of_N 4294901760). change 65535%Z with (Z.of_N 65535).
  rewrite !Z_land_of_N.
  change (Z.to_N thrift_msgVersionMask) with 4294901760. change (Z.to_N thrift_msgVersion1) with 2147549184.
  change (Z.to_N thrift_msgTypeMask) with 65535.
  destruct (Z.eqb_spec (Z.of_N (N.land header 4294901760)) 2147549184) as [E|E];
    destruct (N.eqb_spec (N.land header 4294901760) 2147549184) as [E'|E']; try lia; [|reflexivity].
  cbn [negb].
  rewrite (wraps_id 32) by (lia || (pose proof (N_land_65535 header); unfold in_s; lia)).
  rewrite (gslice_from_ok buf 4) by (unfold glen; lia). rewrite slice_from_ok by lia.
  cbn [bind]. change (Z.to_N 4) with 4.
  pose proof (g_thrift_ReadString_sim en (drop 4 buf) (wf_drop 4 buf W)) as S.
  destruct (r_string (drop 4 buf)) as [[name l]|e|w|] eqn:Hs; cbn [sim] in S;
    [|destruct S as [[nm x] S]; rewrite S; reflexivity|rewrite S; reflexivity..].
  rewrite S. unfold zl at 1. cbn [bind fst snd is_nil gnil negb to_msg_err].
  apply r_string_ok_small in Hs as [Hle Hsm]; [|apply wf_drop; exact W].
  rewrite drop_len in Hle by lia.
  rewrite wraps64_small by lia.
  rewrite (gslice_from_ok buf (4 + Z.of_N l)) by (unfold glen; lia). rewrite slice_from_ok by lia.
  cbn [bind]. replace (Z.to_N (4 + Z.of_N l)) with (4 + l) by lia.
  pose proof (g_thrift_ReadI32_sim (drop (4 + l) buf) (wf_drop _ buf W)) as S2.
  destruct (r_i32_cases (drop (4 + l) buf)) as [[Hl Hr]|[Hl Hr]]; rewrite Hr in S2 |- *; cbn [sim] in S2.
  - destruct S2 as [[v x] S2]. rewrite S2. reflexivity.
  - rewrite S2. unfold zl. cbn [bind fst snd is_nil gnil negb to_msg_err unerr rmap].
    rewrite wraps64_small by lia. do 3 f_equal. lia.
Qed.
