(* Proofs/GenEquivTTH.v — the small pure functions of protocol/ttheader (utils.go, decode.go) as
   REGENERATED from the Go source (Gen/Funcs.v, tools/gotrans) are equal to the hand-written
   models of Model/TTHeader.v, the ones the theorems of C06 / C10 are about.

   The hand model takes offsets as N (it never calls these functions with a negative offset);
   the lemmas are stated for off : N with Z.of_N off in the range of int, [glen_ok buf]
   (len(buf) fits in int, true of every Go slice) and, where 16-bit fields are read back as
   lengths, [wf buf]. *)
From GV Require Import Lib.Bytes Lib.Res Lib.GoSem Gen.Consts Gen.Funcs Model.TTHeader Proofs.GenLib.
From Coq Require Import ZifyN ZifyNat ZifyBool.
Open Scope N_scope.

Lemma ecode_ttheader_ok :
  ecode "io.EOF" = e_eof /\ ecode "ttheader.checkProtocolID#fmt.Errorf" = e_pid.
Proof. split; reflexivity. Qed.

(* ---------- encoding/binary loads: the hand model's pattern matches ---------- *)
Lemma gbe_load2_be_u16 s : gbe_load 2 s = rmap Z.of_N (be_u16 s).
Proof.
  unfold gbe_load. destruct s as [|a [|b r]]; try reflexivity.
  destruct (N.ltb_spec (len (a :: b :: r)) (N.of_nat 2)) as [H|H].
  - rewrite !len_cons in H. change (N.of_nat 2) with 2 in H. lia.
  - reflexivity.
Qed.
Lemma gbe_load4_be_u32 s : gbe_load 4 s = rmap Z.of_N (be_u32 s).
Proof.
  unfold gbe_load. destruct s as [|a [|b [|c [|d r]]]]; try reflexivity.
  destruct (N.ltb_spec (len (a :: b :: c :: d :: r)) (N.of_nat 4)) as [H|H].
  - rewrite !len_cons in H. change (N.of_nat 4) with 4 in H. lia.
  - reflexivity.
Qed.

Lemma g_ttheader_Bytes2Uint16NoCheck_eq b : g_ttheader_Bytes2Uint16NoCheck b = rmap Z.of_N (be_u16 b).
Proof. unfold g_ttheader_Bytes2Uint16NoCheck. rewrite gbe_load2_be_u16. destruct (be_u16 b); reflexivity. Qed.
Lemma g_ttheader_Bytes2Uint32NoCheck_eq b : g_ttheader_Bytes2Uint32NoCheck b = rmap Z.of_N (be_u32 b).
Proof. unfold g_ttheader_Bytes2Uint32NoCheck. rewrite gbe_load4_be_u32. destruct (be_u32 b); reflexivity. Qed.

(* len(bytes) - off in int *)
Lemma g_avail buf off :
  glen_ok buf -> (Z.of_N off < 2 ^ 63)%Z -> wraps 64 (glen buf - Z.of_N off) = avail buf off.
Proof.
  unfold glen_ok, glen, avail. intros Hb Ho. apply wraps64_small. lia.
Qed.

Lemma index_ok (b : bytes) i : i < len b -> index b i = Ok (nth (N.to_nat i) b 0).
Proof. intros H. unfold index. now rewrite nth_error_nth_len. Qed.

Lemma g_ttheader_Bytes2Uint8_eq buf off :
  glen_ok buf -> (Z.of_N off < 2 ^ 63)%Z ->
  unerr (g_ttheader_Bytes2Uint8 buf (Z.of_N off)) = rmap Z.of_N (bytes2uint8 buf off).
Proof.
  intros Hb Ho. unfold g_ttheader_Bytes2Uint8, bytes2uint8. rewrite g_avail by assumption.
  destruct (Z.ltb_spec (avail buf off) 1) as [H|H]; [reflexivity|]. unfold avail in H.
  rewrite gindex_ok by (unfold glen; lia). rewrite index_ok by lia. cbn [bind unerr rmap].
  replace (Z.to_nat (Z.of_N off)) with (N.to_nat off) by lia. reflexivity.
Qed.

Lemma g_ttheader_Bytes2Uint16_sim buf off :
  glen_ok buf -> (Z.of_N off < 2 ^ 63)%Z ->
  sim Z.of_N (g_ttheader_Bytes2Uint16 buf (Z.of_N off)) (bytes2uint16 buf off).
Proof.
  intros Hb Ho. unfold g_ttheader_Bytes2Uint16, bytes2uint16. rewrite g_avail by assumption.
  destruct (Z.ltb_spec (avail buf off) 2) as [H|H]; [cbn; eexists; reflexivity|]. unfold avail in H.
  rewrite gslice_from_ok by (unfold glen; lia). rewrite slice_from_ok by lia. cbn [bind].
  rewrite N2Z.id, gbe_load2_be_u16. destruct (drop off buf) as [|a [|b r]]; cbn [be_u16 sim rmap bind]; reflexivity.
Qed.
Lemma g_ttheader_Bytes2Uint16_eq buf off :
  glen_ok buf -> (Z.of_N off < 2 ^ 63)%Z ->
  unerr (g_ttheader_Bytes2Uint16 buf (Z.of_N off)) = rmap Z.of_N (bytes2uint16 buf off).
Proof. intros Hb Ho. apply sim_unerr, g_ttheader_Bytes2Uint16_sim; assumption. Qed.

(* a successful 16-bit read: the offset is inside the buffer and, on well-formed bytes, the
   value is below 2^16 *)
Lemma bytes2uint16_ok buf off v :
  wf buf -> bytes2uint16 buf off = Ok v -> off + 2 <= len buf /\ v < 65536.
Proof.
  intros W. unfold bytes2uint16, avail.
  destruct (Z.ltb_spec (Z.of_N (len buf) - Z.of_N off) 2) as [H|H]; [discriminate|].
  rewrite slice_from_ok by lia. cbn [bind]. intros E. split; [lia|].
  pose proof (wf_drop off buf W) as Wd. destruct (drop off buf) as [|a [|b r]]; try discriminate.
  cbn [be_u16] in E. inversion E; subst. unfold wf in Wd.
  inversion Wd as [|? ? Ha Wd']; subst. inversion Wd' as [|? ? Hb _]; subst. unfold wfb in *. lia.
Qed.

Definition sl (p : bytes * N) : bytes * Z := (fst p, Z.of_N (snd p)).

Lemma g_ttheader_ReadString2BLen_eq buf off :
  wf buf -> glen_ok buf -> (Z.of_N off < 2 ^ 63)%Z ->
  unerr (g_ttheader_ReadString2BLen buf (Z.of_N off)) = rmap sl (read_str2 buf off).
Proof.
  intros W Hb Ho. unfold g_ttheader_ReadString2BLen, read_str2.
  pose proof (g_ttheader_Bytes2Uint16_sim buf off Hb Ho) as S.
  destruct (bytes2uint16 buf off) as [length|e|w|] eqn:E; cbn [sim] in S;
    [|destruct S as [x S]; rewrite S; reflexivity|rewrite S; reflexivity..].
  rewrite S. cbn [bind is_nil gnil negb].
  apply (bytes2uint16_ok buf off length W) in E as [Hle Hlt].
  unfold glen_ok, glen in Hb.
  rewrite (wraps64_small (Z.of_N off + 2)) by lia.
  replace (Z.of_N off + 2)%Z with (Z.of_N (off + 2)) by lia.
  rewrite g_avail by (unfold glen_ok, glen; lia).
  destruct (Z.ltb_spec (avail buf (off + 2)) (Z.of_N length)) as [H|H]; [reflexivity|]. unfold avail in H.
  rewrite (wraps64_small (Z.of_N (off + 2) + Z.of_N length)) by lia.
  rewrite gslice_range_ok by (unfold glen; lia).
  unfold slice_range.
  destruct (N.leb_spec (off + 2) (off + 2 + length)); [|lia].
  destruct (N.leb_spec (off + 2 + length) (len buf)); [|lia].
  cbn [andb bind unerr rmap]. rewrite wraps64_small by lia. unfold sl. cbn [fst snd].
  rewrite N2Z.id. unfold gnil.
  replace (Z.to_N (Z.of_N (off + 2) + Z.of_N length) - (off + 2)) with (off + 2 + length - (off + 2)) by lia.
  replace (Z.of_N length + 2)%Z with (Z.of_N (length + 2)) by lia. reflexivity.
Qed.

(* ---------- IsTTHeader / IsStreaming / checkProtocolID ---------- *)
Lemma g_ttheader_IsTTHeader_eq buf : g_ttheader_IsTTHeader buf = is_ttheader buf.
Proof.
  unfold g_ttheader_IsTTHeader, is_ttheader. change c_s32 with 4. unfold gslice_from.
  change (4 <? 0)%Z with false. cbv iota. change (Z.to_N 4) with 4.
  destruct (slice_from buf 4) as [s| | |]; try reflexivity. cbn [bind].
  rewrite gbe_load4_be_u32. destruct (be_u32 s) as [v| | |]; try reflexivity. cbn [bind rmap].
  change 4294901760%Z with (Z.of_N 4294901760). rewrite Z_land_of_N.
  change c_mask with 4294901760. change c_magic with 268435456.
  destruct (Z.eqb_spec (Z.of_N (N.land v 4294901760)) 268435456);
    destruct (N.eqb_spec (N.land v 4294901760) 268435456); try lia; reflexivity.
Qed.

Lemma g_ttheader_IsStreaming_eq buf : g_ttheader_IsStreaming buf = is_streaming buf.
Proof.
  unfold g_ttheader_IsStreaming, is_streaming. lentest buf 8%Z 8 H; [reflexivity|].
  change c_s32 with 4. change c_s16 with 2. change (4 + 2) with 6. unfold gslice_from.
  change (4 <? 0)%Z with false. change (6 <? 0)%Z with false. cbv iota.
  change (Z.to_N 4) with 4. change (Z.to_N 6) with 6.
  destruct (slice_from buf 4) as [s1| | |]; try reflexivity. cbn [bind].
  rewrite gbe_load2_be_u16. destruct (be_u16 s1) as [m| | |]; try reflexivity. cbn [bind rmap].
  change (u16 (c_magic / two16)) with 4096.
  destruct (Z.eqb_spec (Z.of_N m) 4096); destruct (N.eqb_spec m 4096); try lia; [|reflexivity].
  cbn [negb]. destruct (slice_from buf 6) as [s2| | |]; try reflexivity. cbn [bind].
  rewrite gbe_load2_be_u16. destruct (be_u16 s2) as [f| | |]; try reflexivity. cbn [bind rmap].
  change 2%Z with (Z.of_N 2) at 1. rewrite Z_land_of_N. change (u16 c_streaming) with 2.
  destruct (Z.eqb_spec (Z.of_N (N.land f 2)) 0); destruct (N.eqb_spec (N.land f 2) 0); try lia; reflexivity.
Qed.

(* checkProtocolID returns nil exactly for the ids the hand model accepts (its list of case
   labels comes from Gen/Consts.v); the error it builds with fmt.Errorf is the class e_pid *)
Lemma g_ttheader_checkProtocolID_eq pid :
  g_ttheader_checkProtocolID (Z.of_N pid) =
  Ok (if check_protocol_id pid then gnil else Some e_pid).
Proof.
  unfold g_ttheader_checkProtocolID, check_protocol_id, ttheader_checkProtocolID_cases.
  cbn [existsb]. cbv zeta.
  repeat match goal with
         | |- context [(Z.of_N pid =? ?c)%Z] => destruct (Z.eqb_spec (Z.of_N pid) c)
         end; reflexivity.
Qed.
