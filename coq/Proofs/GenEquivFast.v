(* Proofs/GenEquivFast.v — FastRead of the shipped FastCodec structs base.Base and base.BaseResp
   (protocol/thrift/base/k-base.go) as REGENERATED from the Go source (Gen/Funcs.v, tools/gotrans
   phase 2: two nested loop Fixpoints on fuel, goto to the three trailing error labels inlined,
   the fields of *p threaded behind a nil flag, the map p.Extra as GoSem.gmap, thrift.Binary.Skip
   as the function parameter x_thrift_Binary_Skip) are equal to the hand-written models
   Model/FastCodec.v [base_read] / [baseresp_read], the ones the theorems of C11 are about.

   Statement form.  The receiver is [option struct] by hand ([None] = nil pointer), a flag and
   one value per field generated ([lg], [cl], [ad], [xt] / [ms], [cd], [xt']); the hand model's
   map is an association list with distinct keys ([minsert]), the generated one the list of all
   assignments, newest first: they are related by [mequiv] (equal lookups; nil iff nil).  For
   EVERY model xs of thrift.Binary.Skip that agrees with the hand skipper [skipf] ([sim]), every
   fuel above length b + 1, wf b, and whenever the hand model does not run out of ITS fuel (it
   never does: C11):
     hand Ok (p', off)  ->  generated Ok (fields of p' up to mequiv, off, nil)
     hand Err e         ->  generated Ok (.., Some e)   (e = label + code, thrift.PrependError)
     hand Panic         ->  generated Panic (codes aside: nil receiver is 4 by hand, 5 generated). *)
From GV Require Import Lib.Bytes Lib.Res Lib.GoSem Gen.Consts Gen.Funcs Model.Binary Model.Skip Model.Nocopy
     Model.FastCodec Proofs.BinaryP Proofs.SkipP Proofs.GenLib Proofs.GenEquiv.
From Coq Require Import ZifyN ZifyNat ZifyBool.
Open Scope N_scope.

Lemma ecode_fast_ok :
  ecode "base.Base.FastRead#thrift.PrependError#1" = lbl_begin /\
  ecode "base.Base.FastRead#thrift.PrependError#2" = lbl_field /\
  ecode "base.Base.FastRead#thrift.PrependError#3" = lbl_skip /\
  ecode "base.BaseResp.FastRead#thrift.PrependError#1" = lbl_begin /\
  ecode "base.BaseResp.FastRead#thrift.PrependError#2" = lbl_field /\
  ecode "base.BaseResp.FastRead#thrift.PrependError#3" = lbl_skip /\ gfuel = e_fuel.
Proof. repeat split; reflexivity. Qed.

(* ---------- maps: all assignments, newest first  ~  distinct keys, updated in place ---------- *)
Fixpoint hget (m : list (bytes * bytes)) (k : bytes) : option bytes :=
  match m with
  | [] => None
  | (k', v) :: r => if beqb k' k then Some v else hget r k
  end.

Definition lequiv (g h : list (bytes * bytes)) : Prop := forall k, alist_get beqb g k = hget h k.

Definition mequiv (g : gmap bytes bytes) (h : smap) : Prop :=
  match g, h with
  | None, None => True
  | Some lg, Some lh => lequiv lg lh
  | _, _ => False
  end.

Lemma beqb_sym a b : beqb a b = beqb b a.
Proof.
  destruct (beqb a b) eqn:E1; destruct (beqb b a) eqn:E2; try reflexivity.
  - apply beqb_eq in E1. subst. assert (beqb b b = true) by (apply beqb_eq; reflexivity). congruence.
  - apply beqb_eq in E2. subst. assert (beqb a a = true) by (apply beqb_eq; reflexivity). congruence.
Qed.

Lemma hget_minsert k v m k' : hget (minsert k v m) k' = if beqb k k' then Some v else hget m k'.
Proof.
  induction m as [|[k0 v0] r IH]; cbn [minsert hget].
  - reflexivity.
  - destruct (beqb k k0) eqn:E0; cbn [hget].
    + apply beqb_eq in E0. subst k0. destruct (beqb k k'); reflexivity.
    + rewrite IH. destruct (beqb k0 k') eqn:E1; [|reflexivity].
      apply beqb_eq in E1. subst k0. rewrite E0. reflexivity.
Qed.

Lemma lequiv_insert g h k v : lequiv g h -> lequiv ((k, v) :: g) (minsert k v h).
Proof.
  intros H k'. cbn [alist_get]. rewrite hget_minsert. destruct (beqb k k'); [reflexivity|apply H].
Qed.

Lemma lequiv_refl m : lequiv m m.
Proof. intros k. induction m as [|[k0 v0] r IH]; cbn; [reflexivity|]. destruct (beqb k0 k); [reflexivity|exact IH]. Qed.

Lemma mequiv_refl m : mequiv m m.
Proof. destruct m; cbn; [apply lequiv_refl|exact I]. Qed.

(* ---------- b[off:] and the readers at an offset ---------- *)
Lemma gslice_from_N (b : bytes) off : gslice_from b (Z.of_N off) = slice_from b off.
Proof. unfold gslice_from. destruct (Z.ltb_spec (Z.of_N off) 0); [lia|]. rewrite N2Z.id. reflexivity. Qed.

Lemma slice_from_inv {A} (b : list A) off sub : slice_from b off = Ok sub -> off <= len b /\ sub = drop off b.
Proof. unfold slice_from. destruct (N.leb_spec off (len b)) as [Hle|Hle]; intros E; inversion E. auto. Qed.

Lemma slice_from_cases {A} (b : list A) off :
  (off <= len b /\ slice_from b off = Ok (drop off b)) \/ slice_from b off = Panic 1.
Proof. unfold slice_from. destruct (N.leb_spec off (len b)); auto. Qed.

Lemma g_thrift_ReadFieldBegin_sim buf : wf buf -> sim zl (g_thrift_ReadFieldBegin buf) (r_field_begin buf).
Proof.
  intros W. unfold g_thrift_ReadFieldBegin, r_field_begin, need.
  lentest buf 1%Z 1 H; [cbn; eexists; reflexivity|].
  rewrite (gindex_ok buf 0) by (unfold glen; lia). cbn [bind Z.to_nat].
  rewrite wraps8 by (apply nth_wf; exact W). change thrift_STOP with 0%Z.
  destruct (Z.eqb_spec (i8 (nth 0 buf 0)) 0) as [E|E]; [reflexivity|].
  lentest buf 3%Z 3 H3; [cbn; eexists; reflexivity|].
  rewrite (gslice_from_ok buf 1) by (unfold glen; lia). cbn [bind]. change (Z.to_N 1) with 1.
  rewrite (gbe_load_drop 2 1) by (cbn; lia). cbn [bind sim]. change (N.of_nat 2) with 2.
  rewrite wraps16 by (apply (unbe_take_drop_lt 2 1); [exact W|lia]). reflexivity.
Qed.

Lemma g_thrift_ReadMapBegin_sim buf : wf buf -> sim zl (g_thrift_ReadMapBegin buf) (r_map_begin buf).
Proof.
  intros W. unfold g_thrift_ReadMapBegin, r_map_begin, need.
  lentest buf 6%Z 6 H; [cbn; eexists; reflexivity|].
  rewrite (gindex_ok buf 0), (gindex_ok buf 1) by (unfold glen; lia). cbn [bind Z.to_nat].
  rewrite (gslice_from_ok buf 2) by (unfold glen; lia). cbn [bind]. change (Z.to_N 2) with 2.
  rewrite (gbe_load_drop 4 2) by (cbn; lia). cbn [bind sim]. change (N.of_nat 4) with 4.
  rewrite !wraps8 by (apply nth_wf; exact W). reflexivity.
Qed.

Lemma r_field_begin_len b t id n : r_field_begin b = Ok (t, id, n) -> n <= len b.
Proof.
  unfold r_field_begin, need. destruct (N.ltb_spec (len b) 1); [discriminate|]. cbn [bind].
  match goal with |- context [if ?c then _ else _] => destruct c end; [intros E; inversion E; lia|].
  destruct (N.ltb_spec (len b) 3); [discriminate|]. cbn [bind]. intros E; inversion E; lia.
Qed.

Lemma r_map_begin_ok b kt vt sz n : wf b -> r_map_begin b = Ok (kt, vt, sz, n) -> n <= len b /\ (0 <= sz < 4294967296)%Z.
Proof.
  intros W. unfold r_map_begin, need. destruct (N.ltb_spec (len b) 6); [discriminate|]. cbn [bind].
  intros E. inversion E; subst. split; [lia|].
  pose proof (unbe_take_drop_lt 4 2 b W ltac:(lia)) as L. change (256 ^ 4) with 4294967296 in L. lia.
Qed.

Lemma r_i32_len b v n : r_i32 b = Ok (v, n) -> n <= len b.
Proof. unfold r_i32, need. destruct (N.ltb_spec (len b) 4); [discriminate|]. cbn [bind]. intros E; inversion E; lia. Qed.

(* ---------- the results of the loops against the hand model ---------- *)
(* the entries loop: for i := 0; i < sz; i++ { k := ReadString; v := ReadString; p.Extra[k] = v } *)
Definition ent_sim {R} (g : res ((gmap bytes bytes * Z * gerror * Z * Z) + R)) (isret : R -> Z -> Prop)
           (h : res (list (bytes * bytes) * N)) : Prop :=
  match h with
  | Ok (m', off') => exists ex' err' l' i', g = Ok (inl (Some ex', Z.of_N off', err', l', i')) /\ lequiv ex' m'
  | Err e => exists r, g = Ok (inr r) /\ isret r (lbl_field + e)%Z
  | Panic _ => exists w, g = Panic w
  | OOB => g = OOB
  end.

(* one ReadString at an offset, and what follows *)
Lemma rd_string_step {C} en b off (K : bytes * Z * gerror -> res C) :
  wf b -> glen_ok b ->
  match rd_string b off with
  | Ok (s, off') => (do t <- gslice_from b (Z.of_N off); do x <- g_thrift_ReadString en t; K x)
                    = K (s, Z.of_N (off' - off), gnil) /\ off <= off' <= len b
  | Err e => exists s z, (do t <- gslice_from b (Z.of_N off); do x <- g_thrift_ReadString en t; K x) = K (s, z, Some e)
  | Panic _ => exists w, (do t <- gslice_from b (Z.of_N off); do x <- g_thrift_ReadString en t; K x) = Panic w
  | OOB => (do t <- gslice_from b (Z.of_N off); do x <- g_thrift_ReadString en t; K x) = OOB
  end.
Proof.
  intros W Hb. unfold rd_string. rewrite gslice_from_N.
  destruct (slice_from_cases b off) as [[Hle ->]| ->]; cbn [bind]; [|eexists; reflexivity].
  pose proof (g_thrift_ReadString_sim en (drop off b) (wf_drop off b W)) as S.
  destruct (r_string (drop off b)) as [[s n]|e|w|] eqn:E; cbn [sim bind] in *.
  - rewrite S. cbn [bind zl fst snd]. apply r_string_ok_small in E as [Hn _]; [|apply wf_drop, W].
    rewrite drop_len in Hn by exact Hle. replace (off + n - off) with n by lia. split; [reflexivity|lia].
  - destruct S as [[s z] S]. rewrite S. exists s, z. reflexivity.
  - rewrite S. eexists; reflexivity.
  - rewrite S. reflexivity.
Qed.

(* any of the readers at an offset: x.ReadXxx(b[off:]), and what follows *)
Lemma at_off_step {A C} (G : bytes -> res (A * Z * gerror)) (R : bytes -> res (A * N)) b off
      (K : A * Z * gerror -> res C) :
  (forall sub, wf sub -> sim zl (G sub) (R sub)) ->
  (forall sub a n, wf sub -> R sub = Ok (a, n) -> n <= len sub) ->
  wf b ->
  match slice_from b off with
  | Ok sub =>
    match R sub with
    | Ok (a, n) => (do t <- gslice_from b (Z.of_N off); do x <- G t; K x) = K (a, Z.of_N n, gnil) /\ off + n <= len b
    | Err e => exists a z, (do t <- gslice_from b (Z.of_N off); do x <- G t; K x) = K (a, z, Some e)
    | Panic _ => exists w, (do t <- gslice_from b (Z.of_N off); do x <- G t; K x) = Panic w
    | OOB => (do t <- gslice_from b (Z.of_N off); do x <- G t; K x) = OOB
    end
  | _ => exists w, (do t <- gslice_from b (Z.of_N off); do x <- G t; K x) = Panic w
  end.
Proof.
  intros HS HL W. rewrite gslice_from_N.
  destruct (slice_from_cases b off) as [[Hle ->]| ->]; cbn [bind]; [|eexists; reflexivity].
  pose proof (HS (drop off b) (wf_drop off b W)) as S.
  destruct (R (drop off b)) as [[a n]|e|w|] eqn:E; cbn [sim] in S.
  - rewrite S. cbn [bind zl fst snd]. split; [reflexivity|].
    pose proof (HL _ _ _ (wf_drop off b W) E) as Hn. rewrite drop_len in Hn by exact Hle. lia.
  - destruct S as [[a z] S]. rewrite S. exists a, z. reflexivity.
  - rewrite S. eexists; reflexivity.
  - rewrite S. reflexivity.
Qed.

Lemma r_string_len sub s n : wf sub -> r_string sub = Ok (s, n) -> n <= len sub.
Proof. intros W E. apply (r_string_ok_small sub s n W E). Qed.

(* the entries loop of Base.FastRead *)
Lemma base_entries_sim xs fuel en ad cl lg b sz :
  wf b -> glen_ok b -> (0 <= sz < 2 ^ 62)%Z ->
  forall f lf i off m ex err l,
    (f < lf)%nat -> (0 <= i)%Z -> off <= len b -> lequiv ex m ->
    rd_entries f b i sz off m <> Err e_fuel ->
    ent_sim (g_base_Base_FastRead_loop2 xs fuel en ad cl lg false b sz lf (Some ex) (Z.of_N off) err l i)
            (fun r e => exists a1 a2 a3 a4 a5, r = (a1, a2, a3, a4, a5, Some e))
            (rd_entries f b i sz off m).
Proof.
  intros W Hb Hsz. pose proof Hb as Hb'. unfold glen_ok, glen in Hb'.
  induction f as [|f IH]; intros lf i off m ex err l Hlf Hi Hoff Hm Hnf; (destruct lf as [|lf]; [lia|]);
    cbn [rd_entries g_base_Base_FastRead_loop2] in *.
  - destruct (Z.leb_spec sz i) as [Hge|Hlt]; [|exfalso; apply Hnf; reflexivity].
    destruct (Z.ltb_spec i sz); [lia|]. cbn [ent_sim]. repeat eexists. exact Hm.
  - destruct (Z.leb_spec sz i) as [Hge|Hlt].
    { destruct (Z.ltb_spec i sz); [lia|]. cbn [ent_sim]. repeat eexists. exact Hm. }
    destruct (Z.ltb_spec i sz); [|lia].
    match goal with |- ent_sim (bind (gslice_from b (Z.of_N off)) (fun t => bind (g_thrift_ReadString en t) ?K)) _ _ =>
      pose proof (at_off_step (g_thrift_ReadString en) r_string b off K (g_thrift_ReadString_sim en) r_string_len W) as S1 end.
    unfold rd_string in *.
    destruct (slice_from_cases b off) as [[_ Es]|Es]; rewrite Es in *; cbn [bind ent_sim] in *;
      [|destruct S1 as [w' S1]; rewrite S1; eexists; reflexivity].
    destruct (r_string (drop off b)) as [[k n1]|e|w|]; cbn [bind ent_sim] in *.
    2:{ destruct S1 as (a & z & S1). rewrite S1. cbn [is_nil negb bind gerr_prepend]. repeat eexists. }
    2:{ destruct S1 as [w' S1]. rewrite S1. eexists; reflexivity. }
    2:{ rewrite S1. reflexivity. }
    destruct S1 as [S1 Hle1]. rewrite S1. cbn [is_nil gnil negb].
    rewrite (wraps64_small (Z.of_N off + Z.of_N n1)) by lia.
    replace (Z.of_N off + Z.of_N n1)%Z with (Z.of_N (off + n1)) by lia.
    match goal with |- ent_sim (bind (gslice_from b (Z.of_N (off + n1))) (fun t => bind (g_thrift_ReadString en t) ?K)) _ _ =>
      pose proof (at_off_step (g_thrift_ReadString en) r_string b (off + n1) K (g_thrift_ReadString_sim en) r_string_len W) as S2 end.
    destruct (slice_from_cases b (off + n1)) as [[_ Es2]|Es2]; rewrite Es2 in *; cbn [bind ent_sim] in *;
      [|destruct S2 as [w' S2]; rewrite S2; eexists; reflexivity].
    destruct (r_string (drop (off + n1) b)) as [[v n2]|e|w|]; cbn [bind ent_sim] in *.
    2:{ destruct S2 as (a & z & S2). rewrite S2. cbn [is_nil negb bind gerr_prepend]. repeat eexists. }
    2:{ destruct S2 as [w' S2]. rewrite S2. eexists; reflexivity. }
    2:{ rewrite S2. reflexivity. }
    destruct S2 as [S2 Hle2]. rewrite S2. cbn [is_nil gnil negb bind gptr_check gmap_set].
    rewrite (wraps64_small (Z.of_N (off + n1) + Z.of_N n2)) by lia.
    replace (Z.of_N (off + n1) + Z.of_N n2)%Z with (Z.of_N (off + n1 + n2)) by lia.
    rewrite (wraps64_small (i + 1)) by lia.
    apply IH; [lia|lia|lia|apply lequiv_insert, Hm|exact Hnf].
Qed.

(* the hand model's entries loop never runs out of its fuel S (length b): every string takes >= 4 bytes *)
Lemma rd_string_progress b off s off' : rd_string b off = Ok (s, off') -> off + 4 <= off' /\ off' <= len b.
Proof.
  unfold rd_string. destruct (slice_from_cases b off) as [[Hle ->]| ->]; cbn [bind]; [|discriminate].
  unfold r_string, r_binary_gen, r_i32, need.
  destruct (N.ltb_spec (len (drop off b)) 4) as [H4|H4]; cbn [bind]; [discriminate|].
  destruct (i32 (unbe (take 4 (drop off b))) <? 0)%Z; [discriminate|].
  remember (4 + Z.to_N (i32 (unbe (take 4 (drop off b))))) as L eqn:EL.
  destruct (N.ltb_spec (len (drop off b)) L) as [Hl|Hl]; [discriminate|].
  cbn [bind]. intros E. inversion E; subst off'. rewrite drop_len in * by exact Hle. lia.
Qed.

Lemma rd_string_nofuel b off : rd_string b off <> Err e_fuel.
Proof.
  unfold rd_string. destruct (slice_from b off) as [sub|e|w|] eqn:Es; cbn [bind]; try discriminate.
  - unfold r_string, r_binary_gen. destruct (r_i32 sub) as [[z n]|e|w|]; try discriminate.
    destruct (z <? 0)%Z; [discriminate|]. destruct (len sub <? 4 + Z.to_N z); discriminate.
  - unfold slice_from in Es. destruct (off <=? len b); discriminate.
Qed.

Lemma rd_entries_nofuel b : forall f i sz off m,
  off <= len b -> (N.to_nat (len b - off) < f)%nat -> rd_entries f b i sz off m <> Err e_fuel.
Proof.
  induction f as [|f IH]; intros i sz off m Ho Hf; [lia|]. cbn [rd_entries].
  destruct (sz <=? i)%Z; [discriminate|].
  pose proof (rd_string_nofuel b off) as N1.
  destruct (rd_string b off) as [[k off1]|e|w|] eqn:E1; cbn [bind]; try discriminate; [|intros X; apply N1; inversion X; reflexivity].
  apply rd_string_progress in E1 as [P1 L1].
  pose proof (rd_string_nofuel b off1) as N2.
  destruct (rd_string b off1) as [[v off2]|e|w|] eqn:E2; cbn [bind]; try discriminate; [|intros X; apply N2; inversion X; reflexivity].
  apply rd_string_progress in E2 as [P2 L2]. apply IH; lia.
Qed.

(* ---------- the switch key uint32(fid)<<8 | uint32(ftyp) ---------- *)
Lemma Z_lor_of_N a b : Z.lor (Z.of_N a) (Z.of_N b) = Z.of_N (N.lor a b).
Proof. destruct a, b; reflexivity. Qed.

Lemma u32_wrapu z : Z.of_N (u32 z) = wrapu 32 z.
Proof.
  unfold u32, to_unsigned, wrapu. change (Z.of_N (2 ^ 32)) with (2 ^ 32)%Z.
  rewrite Z2N.id; [reflexivity|]. apply Z.mod_pos_bound. reflexivity.
Qed.

Lemma sw_key_eq fid ftyp :
  Z.of_N (sw_key fid ftyp) = Z.lor (wrapu 32 (gshl (wrapu 32 fid) 8)) (wrapu 32 ftyp).
Proof.
  unfold sw_key. rewrite <- Z_lor_of_N, u32_wrapu. f_equal.
  unfold two32. rewrite N2Z.inj_mod, N2Z.inj_mul, u32_wrapu. reflexivity.
Qed.

Lemma base_disp_spec fid ftyp :
  base_disp fid ftyp =
  let key := Z.lor (wrapu 32 (gshl (wrapu 32 fid) 8)) (wrapu 32 ftyp) in
  if (key =? 267)%Z then Some (rd_string_into lbl_field set_logid)
  else if (key =? 523)%Z then Some (rd_string_into lbl_field set_caller)
  else if (key =? 779)%Z then Some (rd_string_into lbl_field set_addr)
  else if (key =? 1549)%Z then Some (rd_map_into lbl_field set_extra)
  else None.
Proof. unfold base_disp, case_is. cbn [nth_error base_Base_FastRead_cases]. rewrite sw_key_eq. reflexivity. Qed.

Lemma baseresp_disp_spec fid ftyp :
  baseresp_disp fid ftyp =
  let key := Z.lor (wrapu 32 (gshl (wrapu 32 fid) 8)) (wrapu 32 ftyp) in
  if (key =? 267)%Z then Some (rd_string_into lbl_field set_msg)
  else if (key =? 520)%Z then Some (rd_i32_into lbl_field set_code)
  else if (key =? 781)%Z then Some (rd_map_into lbl_field set_rextra)
  else None.
Proof. unfold baseresp_disp, case_is. cbn [nth_error base_BaseResp_FastRead_cases]. rewrite sw_key_eq. reflexivity. Qed.

(* ---------- the receiver: an option struct by hand, a nil flag and the fields generated ---------- *)
Definition lg (p : option base) : bytes := match p with Some r => b_logid r | None => [] end.
Definition cl (p : option base) : bytes := match p with Some r => b_caller r | None => [] end.
Definition ad (p : option base) : bytes := match p with Some r => b_addr r | None => [] end.
Definition xt (p : option base) : smap := match p with Some r => b_extra r | None => None end.

Definition base_loop_res : Type :=
  ((bytes * bytes * gmap bytes bytes * bytes * Z * gerror * Z * Z * Z) +
   (bytes * bytes * bytes * gmap bytes bytes * Z * gerror))%type.

Definition base_out_sim (g : res base_loop_res) (h : res (option base * N)) : Prop :=
  match h with
  | Ok (p', off') => exists ex' ft fi l',
      g = Ok (inl (ad p', cl p', ex', lg p', Z.of_N off', gnil, ft, fi, l')) /\ mequiv ex' (xt p')
  | Err e => exists a1 a2 a3 a4 a5, g = Ok (inr (a1, a2, a3, a4, a5, Some e))
  | Panic _ => exists w, g = Panic w
  | OOB => g = OOB
  end.

Lemma rd_entries_bound b : forall f i sz off m m' off',
  off <= len b -> rd_entries f b i sz off m = Ok (m', off') -> off' <= len b.
Proof.
  induction f as [|f IH]; intros i sz off m m' off' Ho; cbn [rd_entries].
  - destruct (sz <=? i)%Z; [|discriminate]. intros E; inversion E; subst; exact Ho.
  - destruct (sz <=? i)%Z; [intros E; inversion E; subst; exact Ho|].
    destruct (rd_string b off) as [[k off1]|e|w|] eqn:E1; cbn [bind]; try discriminate.
    apply rd_string_progress in E1 as [_ L1].
    destruct (rd_string b off1) as [[v off2]|e|w|] eqn:E2; cbn [bind]; try discriminate.
    apply rd_string_progress in E2 as [_ L2]. apply IH. exact L2.
Qed.

Lemma r_string_not_oob sub : r_string sub <> OOB.
Proof.
  unfold r_string, r_binary_gen, r_i32, need. destruct (len sub <? 4); cbn [bind]; [discriminate|].
  destruct (i32 (unbe (take 4 sub)) <? 0)%Z; [discriminate|].
  destruct (len sub <? 4 + Z.to_N (i32 (unbe (take 4 sub)))); discriminate.
Qed.

Lemma skipf_bounded sub t n : wf sub -> skipf sub t = Ok n -> n <= len sub.
Proof. intros W E. unfold skipf in E. apply (bskip_bounded sub (u8 t) n W (u8_lt t)) in E. lia. Qed.

Section BaseRead.
  (* ANY model of thrift.Binary.Skip that agrees with the hand skipper *)
  Variable xs : bytes -> Z -> res (Z * gerror).
  Hypothesis xs_ok : forall sub t, wf sub -> sim Z.of_N (xs sub t) (skipf sub t).
  Variable en : bool.        (* the package-level variable spanCacheEnable: either value *)
  Variables (fuel : nat) (b : bytes).
  Hypothesis W : wf b.
  Hypothesis Hb : glen_ok b.
  Hypothesis Hfuel : (S (length b) < fuel)%nat.

  Notation loop1 := (g_base_Base_FastRead_loop1 xs fuel en).

  (* one string field: p.F, l, err = x.ReadString(b[off:]); off += l; if err != nil { goto ReadFieldError } *)
  Lemma base_string_case (set : bytes -> base -> base) (p : option base) off1
        (K : bytes * Z * gerror -> res base_loop_res) (cont : option base -> N -> res (option base * N)) :
    off1 <= len b ->
    (do (p', off') <- rd_string_into lbl_field set b off1 p; cont p' off') <> Err e_fuel ->
    (* the error exit *)
    (forall s z e, is_none p = false -> exists a1 a2 a3 a4 a5, K (s, z, Some e) = Ok (inr (a1, a2, a3, a4, a5, Some (lbl_field + e)%Z))) ->
    (* a nil receiver panics at the assignment *)
    (forall x, is_none p = true -> exists w, K x = Panic w) ->
    (* success: what follows *)
    (forall r s n, p = Some r -> off1 + n <= len b -> cont (Some (set s r)) (off1 + n) <> Err e_fuel ->
                   base_out_sim (K (s, Z.of_N n, gnil)) (cont (Some (set s r)) (off1 + n))) ->
    base_out_sim (do t <- gslice_from b (Z.of_N off1); do x <- g_thrift_ReadString en t; K x)
                 (do (p', off') <- rd_string_into lbl_field set b off1 p; cont p' off').
  Proof.
    intros Ho Hnf HE HN HK.
    pose proof (at_off_step (g_thrift_ReadString en) r_string b off1 K (g_thrift_ReadString_sim en) r_string_len W) as S1.
    unfold rd_string_into in *.
    destruct (slice_from_cases b off1) as [[_ Es]|Es]; rewrite Es in *; cbn [bind base_out_sim] in *;
      [|destruct S1 as [w' S1]; rewrite S1; eexists; reflexivity].
    destruct p as [r|]; cbn [is_none upd] in *.
    - destruct (r_string (drop off1 b)) as [[s n]|e|w|]; cbn [relabel bind base_out_sim] in *.
      + destruct S1 as [S1 Hle]. rewrite S1. apply (HK r s n eq_refl Hle Hnf).
      + destruct S1 as (s & z & S1). rewrite S1. apply HE. reflexivity.
      + destruct S1 as [w' S1]. rewrite S1. eexists; reflexivity.
      + rewrite S1. reflexivity.
    - pose proof (r_string_not_oob (drop off1 b)) as NO.
      destruct (r_string (drop off1 b)) as [[s n]|e|w|]; cbn [base_out_sim].
      + destruct S1 as [S1 _]. rewrite S1. apply HN. reflexivity.
      + destruct S1 as (s & z & S1). rewrite S1. apply HN. reflexivity.
      + destruct S1 as [w' S1]. rewrite S1. eexists; reflexivity.
      + contradiction.
  Qed.

  Lemma r_field_begin_len' sub a n : wf sub -> r_field_begin sub = Ok (a, n) -> n <= len sub.
  Proof. intros _ E. destruct a as [t id]. exact (r_field_begin_len sub t id n E). Qed.

  Lemma r_map_begin_len' sub a n : wf sub -> r_map_begin sub = Ok (a, n) -> n <= len sub.
  Proof. intros Ws E. destruct a as [[kt vt] sz]. apply (r_map_begin_ok sub kt vt sz n Ws E). Qed.

  Lemma base_loop_sim : forall f lf off p ex err ftyp fid l,
    (f < lf)%nat -> off <= len b -> mequiv ex (xt p) ->
    read_loop lbl_begin lbl_skip base_disp f b off p <> Err e_fuel ->
    base_out_sim (loop1 (is_none p) b lf (ad p) (cl p) ex (lg p) (Z.of_N off) err ftyp fid l)
                 (read_loop lbl_begin lbl_skip base_disp f b off p).
  Proof.
    pose proof Hb as Hb'. unfold glen_ok, glen in Hb'.
    induction f as [|f IH]; intros lf off p ex err ftyp fid l Hlf Hoff Hm Hnf; [exfalso; apply Hnf; reflexivity|].
    destruct lf as [|lf]; [lia|]. cbn [read_loop g_base_Base_FastRead_loop1] in *. unfold rd_field_begin in *.
    match goal with |- base_out_sim (bind (gslice_from b (Z.of_N off)) (fun t => bind (g_thrift_ReadFieldBegin t) ?K)) _ =>
      pose proof (at_off_step g_thrift_ReadFieldBegin r_field_begin b off K g_thrift_ReadFieldBegin_sim r_field_begin_len' W) as S1 end.
    destruct (slice_from_cases b off) as [[_ Es]|Es]; rewrite Es in *; cbn [bind base_out_sim] in *;
      [|destruct S1 as [w' S1]; rewrite S1; eexists; reflexivity].
    destruct (r_field_begin (drop off b)) as [[[ft fi] n]|e|w|]; cbn [relabel bind base_out_sim] in *.
    2:{ destruct S1 as (a & z & S1). rewrite S1. destruct a as [a1 a2]. cbn [is_nil negb bind gerr_prepend]. repeat eexists. }
    2:{ destruct S1 as [w' S1]. rewrite S1. eexists; reflexivity. }
    2:{ rewrite S1. reflexivity. }
    destruct S1 as [S1 Hle]. rewrite S1. cbn [is_nil gnil negb].
    rewrite (wraps64_small (Z.of_N off + Z.of_N n)) by lia.
    replace (Z.of_N off + Z.of_N n)%Z with (Z.of_N (off + n)) by lia.
    change thrift_STOP with 0%Z in *.
    destruct (Z.eqb_spec ft 0) as [Hstop|Hstop].
    { cbn [base_out_sim]. repeat eexists. exact Hm. }
    rewrite base_disp_spec in *. cbv zeta in *.
    set (key := Z.lor (wrapu 32 (gshl (wrapu 32 fi) 8)) (wrapu 32 ft)) in *.
    set (cont := fun (p' : option base) (off' : N) => read_loop lbl_begin lbl_skip base_disp f b off' p') in *.
    destruct (key =? 267)%Z.
    { apply (base_string_case set_logid p (off + n) _ cont Hle Hnf).
      - intros s z e Hn. rewrite Hn. cbn [gptr_set bind is_nil negb gerr_prepend]. repeat eexists.
      - intros [[s z] e] Hn. rewrite Hn. cbn [gptr_set bind]. eexists; reflexivity.
      - intros r s m -> Hle2 Hn2. cbn [is_none gptr_set bind is_nil gnil negb].
        rewrite (wraps64_small (Z.of_N (off + n) + Z.of_N m)) by lia.
        replace (Z.of_N (off + n) + Z.of_N m)%Z with (Z.of_N (off + n + m)) by lia.
        apply (IH lf (off + n + m) (Some (set_logid s r)) ex gnil ft fi (Z.of_N m)); [lia|lia|exact Hm|exact Hn2]. }
    destruct (key =? 523)%Z.
    { apply (base_string_case set_caller p (off + n) _ cont Hle Hnf).
      - intros s z e Hn. rewrite Hn. cbn [gptr_set bind is_nil negb gerr_prepend]. repeat eexists.
      - intros [[s z] e] Hn. rewrite Hn. cbn [gptr_set bind]. eexists; reflexivity.
      - intros r s m -> Hle2 Hn2. cbn [is_none gptr_set bind is_nil gnil negb].
        rewrite (wraps64_small (Z.of_N (off + n) + Z.of_N m)) by lia.
        replace (Z.of_N (off + n) + Z.of_N m)%Z with (Z.of_N (off + n + m)) by lia.
        apply (IH lf (off + n + m) (Some (set_caller s r)) ex gnil ft fi (Z.of_N m)); [lia|lia|exact Hm|exact Hn2]. }
    destruct (key =? 779)%Z.
    { apply (base_string_case set_addr p (off + n) _ cont Hle Hnf).
      - intros s z e Hn. rewrite Hn. cbn [gptr_set bind is_nil negb gerr_prepend]. repeat eexists.
      - intros [[s z] e] Hn. rewrite Hn. cbn [gptr_set bind]. eexists; reflexivity.
      - intros r s m -> Hle2 Hn2. cbn [is_none gptr_set bind is_nil gnil negb].
        rewrite (wraps64_small (Z.of_N (off + n) + Z.of_N m)) by lia.
        replace (Z.of_N (off + n) + Z.of_N m)%Z with (Z.of_N (off + n + m)) by lia.
        apply (IH lf (off + n + m) (Some (set_addr s r)) ex gnil ft fi (Z.of_N m)); [lia|lia|exact Hm|exact Hn2]. }
    destruct (key =? 1549)%Z.
    { (* p.Extra *)
      unfold rd_map_into, rd_strmap in *.
      match goal with |- base_out_sim (bind (gslice_from b (Z.of_N (off + n))) (fun t => bind (g_thrift_ReadMapBegin t) ?K)) _ =>
        pose proof (at_off_step g_thrift_ReadMapBegin r_map_begin b (off + n) K g_thrift_ReadMapBegin_sim r_map_begin_len' W) as S2 end.
      destruct (slice_from_cases b (off + n)) as [[_ Es2]|Es2]; rewrite Es2 in *; cbn [relabel bind base_out_sim] in *;
        [|destruct S2 as [w' S2]; rewrite S2; eexists; reflexivity].
      pose proof (r_map_begin_ok (drop (off + n) b)) as MB.
      destruct (r_map_begin (drop (off + n) b)) as [[[[kt vt] sz] n2]|e|w|]; cbn [relabel bind base_out_sim] in *.
      2:{ destruct S2 as (a & z & S2). rewrite S2. destruct a as [[a1 a2] a3]. cbn [is_nil negb bind gerr_prepend]. repeat eexists. }
      2:{ destruct S2 as [w' S2]. rewrite S2. eexists; reflexivity. }
      2:{ rewrite S2. reflexivity. }
      destruct S2 as [S2 Hle2]. rewrite S2. cbn [is_nil gnil negb].
      destruct (MB kt vt sz n2 (wf_drop _ _ W) eq_refl) as [_ Hsz].
      rewrite (wraps64_small (Z.of_N (off + n) + Z.of_N n2)) by lia.
      replace (Z.of_N (off + n) + Z.of_N n2)%Z with (Z.of_N (off + n + n2)) by lia.
      destruct p as [r|]; cbn [is_none gptr_set bind relabel upd base_out_sim] in *; [|eexists; reflexivity].
      pose proof (rd_entries_nofuel b (S (length b)) 0%Z sz (off + n + n2) [] Hle2 ltac:(unfold len; lia)) as NF.
      pose proof (base_entries_sim xs fuel en (ad (Some r)) (cl (Some r)) (lg (Some r)) b sz W Hb ltac:(lia)
                    (S (length b)) fuel 0%Z (off + n + n2) [] [] gnil (Z.of_N n2) Hfuel ltac:(lia) Hle2 (lequiv_refl []) NF) as E.
      pose proof (rd_entries_bound b (S (length b)) 0%Z sz (off + n + n2) [] ) as G.
      destruct (rd_entries (S (length b)) b 0 sz (off + n + n2) []) as [[m off']|e|w|]; cbn [ent_sim relabel bind upd base_out_sim] in *.
      - destruct E as (ex' & err' & l' & i' & E & Hm'). rewrite E. cbn [bind].
        apply (IH lf off' (Some (set_extra (Some m) r)) (Some ex') err' ft fi l'); [lia|exact (G m off' Hle2 eq_refl)|exact Hm'|exact Hnf].
      - destruct E as (rr & E & a1 & a2 & a3 & a4 & a5 & Er). rewrite E. cbn [bind]. subst rr. repeat eexists.
      - destruct E as [w' E]. rewrite E. eexists; reflexivity.
      - rewrite E. reflexivity. }
    (* default: x.Skip(b[off:], ftyp) *)
    unfold rd_skip in *. rewrite gslice_from_N.
    destruct (slice_from_cases b (off + n)) as [[_ Es2]|Es2]; rewrite Es2 in *; cbn [relabel bind base_out_sim] in *;
      [|eexists; reflexivity].
    pose proof (xs_ok (drop (off + n) b) ft (wf_drop _ _ W)) as S3.
    pose proof (skipf_bounded (drop (off + n) b) ft) as SB.
    destruct (skipf (drop (off + n) b) ft) as [n3|e|w|]; cbn [sim relabel bind base_out_sim] in *.
    - rewrite S3. cbn [bind is_nil gnil negb]. specialize (SB n3 (wf_drop _ _ W) eq_refl).
      rewrite drop_len in SB by lia.
      rewrite (wraps64_small (Z.of_N (off + n) + Z.of_N n3)) by lia.
      replace (Z.of_N (off + n) + Z.of_N n3)%Z with (Z.of_N (off + n + n3)) by lia.
      apply (IH lf (off + n + n3) p ex gnil ft fi (Z.of_N n3)); [lia|lia|exact Hm|exact Hnf].
    - destruct S3 as [x S3]. rewrite S3. cbn [bind is_nil negb gerr_prepend]. repeat eexists.
    - rewrite S3. eexists; reflexivity.
    - rewrite S3. reflexivity.
  Qed.

  Definition base_fr_sim (g : res (bytes * bytes * bytes * gmap bytes bytes * Z * gerror)) (h : res (option base * N)) : Prop :=
    match h with
    | Ok (p', off) => exists ex', g = Ok (lg p', cl p', ad p', ex', Z.of_N off, gnil) /\ mequiv ex' (xt p')
    | Err e => exists a1 a2 a3 a4 a5, g = Ok (a1, a2, a3, a4, a5, Some e)
    | Panic _ => exists w, g = Panic w
    | OOB => g = OOB
    end.

  Theorem g_base_Base_FastRead_sim p :
    base_read p b <> Err e_fuel ->
    base_fr_sim (g_base_Base_FastRead xs fuel en (is_none p) (lg p) (cl p) (ad p) (xt p) b) (base_read p b).
  Proof.
    intros Hnf. unfold g_base_Base_FastRead, base_read in *.
    pose proof (base_loop_sim (S (length b)) fuel 0 p (xt p) gnil 0%Z 0%Z 0%Z Hfuel ltac:(lia) (mequiv_refl _) Hnf) as L.
    change (Z.of_N 0) with 0%Z in L.
    destruct (read_loop lbl_begin lbl_skip base_disp (S (length b)) b 0 p) as [[p' off']|e|w|]; cbn [base_out_sim base_fr_sim] in *.
    - destruct L as (ex' & ft & fi & l' & L & Hm). rewrite L. cbn [bind]. eexists. split; [reflexivity|exact Hm].
    - destruct L as (a1 & a2 & a3 & a4 & a5 & L). rewrite L. cbn [bind]. repeat eexists.
    - destruct L as [w' L]. rewrite L. eexists; reflexivity.
    - rewrite L. reflexivity.
  Qed.
End BaseRead.

(* =====================================================================================
   BaseResp.FastRead
   ===================================================================================== *)
Definition ms (p : option baseresp) : bytes := match p with Some r => r_msg r | None => [] end.
Definition cd (p : option baseresp) : Z := match p with Some r => r_code r | None => 0%Z end.
Definition xt' (p : option baseresp) : smap := match p with Some r => r_extra r | None => None end.

Definition resp_loop_res : Type :=
  ((gmap bytes bytes * Z * bytes * Z * gerror * Z * Z * Z) + (bytes * Z * gmap bytes bytes * Z * gerror))%type.

Definition resp_out_sim (g : res resp_loop_res) (h : res (option baseresp * N)) : Prop :=
  match h with
  | Ok (p', off') => exists ex' ft fi l',
      g = Ok (inl (ex', cd p', ms p', Z.of_N off', gnil, ft, fi, l')) /\ mequiv ex' (xt' p')
  | Err e => exists a1 a2 a3 a4, g = Ok (inr (a1, a2, a3, a4, Some e))
  | Panic _ => exists w, g = Panic w
  | OOB => g = OOB
  end.

Lemma resp_entries_sim xs fuel en c m0 b sz :
  wf b -> glen_ok b -> (0 <= sz < 2 ^ 62)%Z ->
  forall f lf i off m ex err l,
    (f < lf)%nat -> (0 <= i)%Z -> off <= len b -> lequiv ex m ->
    rd_entries f b i sz off m <> Err e_fuel ->
    ent_sim (g_base_BaseResp_FastRead_loop2 xs fuel en c m0 false b sz lf (Some ex) (Z.of_N off) err l i)
            (fun r e => exists a1 a2 a3 a4, r = (a1, a2, a3, a4, Some e))
            (rd_entries f b i sz off m).
Proof.
  intros W Hb Hsz. pose proof Hb as Hb'. unfold glen_ok, glen in Hb'.
  induction f as [|f IH]; intros lf i off m ex err l Hlf Hi Hoff Hm Hnf; (destruct lf as [|lf]; [lia|]);
    cbn [rd_entries g_base_BaseResp_FastRead_loop2] in *.
  - destruct (Z.leb_spec sz i) as [Hge|Hlt]; [|exfalso; apply Hnf; reflexivity].
    destruct (Z.ltb_spec i sz); [lia|]. cbn [ent_sim]. repeat eexists. exact Hm.
  - destruct (Z.leb_spec sz i) as [Hge|Hlt].
    { destruct (Z.ltb_spec i sz); [lia|]. cbn [ent_sim]. repeat eexists. exact Hm. }
    destruct (Z.ltb_spec i sz); [|lia].
    match goal with |- ent_sim (bind (gslice_from b (Z.of_N off)) (fun t => bind (g_thrift_ReadString en t) ?K)) _ _ =>
      pose proof (at_off_step (g_thrift_ReadString en) r_string b off K (g_thrift_ReadString_sim en) r_string_len W) as S1 end.
    unfold rd_string in *.
    destruct (slice_from_cases b off) as [[_ Es]|Es]; rewrite Es in *; cbn [bind ent_sim] in *;
      [|destruct S1 as [w' S1]; rewrite S1; eexists; reflexivity].
    destruct (r_string (drop off b)) as [[k n1]|e|w|]; cbn [bind ent_sim] in *.
    2:{ destruct S1 as (a & z & S1). rewrite S1. cbn [is_nil negb bind gerr_prepend]. repeat eexists. }
    2:{ destruct S1 as [w' S1]. rewrite S1. eexists; reflexivity. }
    2:{ rewrite S1. reflexivity. }
    destruct S1 as [S1 Hle1]. rewrite S1. cbn [is_nil gnil negb].
    rewrite (wraps64_small (Z.of_N off + Z.of_N n1)) by lia.
    replace (Z.of_N off + Z.of_N n1)%Z with (Z.of_N (off + n1)) by lia.
    match goal with |- ent_sim (bind (gslice_from b (Z.of_N (off + n1))) (fun t => bind (g_thrift_ReadString en t) ?K)) _ _ =>
      pose proof (at_off_step (g_thrift_ReadString en) r_string b (off + n1) K (g_thrift_ReadString_sim en) r_string_len W) as S2 end.
    destruct (slice_from_cases b (off + n1)) as [[_ Es2]|Es2]; rewrite Es2 in *; cbn [bind ent_sim] in *;
      [|destruct S2 as [w' S2]; rewrite S2; eexists; reflexivity].
    destruct (r_string (drop (off + n1) b)) as [[v n2]|e|w|]; cbn [bind ent_sim] in *.
    2:{ destruct S2 as (a & z & S2). rewrite S2. cbn [is_nil negb bind gerr_prepend]. repeat eexists. }
    2:{ destruct S2 as [w' S2]. rewrite S2. eexists; reflexivity. }
    2:{ rewrite S2. reflexivity. }
    destruct S2 as [S2 Hle2]. rewrite S2. cbn [is_nil gnil negb bind gptr_check gmap_set].
    rewrite (wraps64_small (Z.of_N (off + n1) + Z.of_N n2)) by lia.
    replace (Z.of_N (off + n1) + Z.of_N n2)%Z with (Z.of_N (off + n1 + n2)) by lia.
    rewrite (wraps64_small (i + 1)) by lia.
    apply IH; [lia|lia|lia|apply lequiv_insert, Hm|exact Hnf].
Qed.

Lemma r_i32_not_oob sub : r_i32 sub <> OOB.
Proof. unfold r_i32, need. destruct (len sub <? 4); cbn [bind]; discriminate. Qed.

Lemma r_i32_len' sub v n : wf sub -> r_i32 sub = Ok (v, n) -> n <= len sub.
Proof. intros _ E. exact (r_i32_len sub v n E). Qed.

Section RespRead.
  Variable xs : bytes -> Z -> res (Z * gerror).
  Hypothesis xs_ok : forall sub t, wf sub -> sim Z.of_N (xs sub t) (skipf sub t).
  Variable en : bool.
  Variables (fuel : nat) (b : bytes).
  Hypothesis W : wf b.
  Hypothesis Hb : glen_ok b.
  Hypothesis Hfuel : (S (length b) < fuel)%nat.

  Notation loop1 := (g_base_BaseResp_FastRead_loop1 xs fuel en).

  (* one scalar field: p.F, l, err = x.ReadXxx(b[off:]); off += l; if err != nil { goto ReadFieldError } *)
  Lemma resp_field_case {A} (G : bytes -> res (A * Z * gerror)) (R : bytes -> res (A * N))
        (rdinto : Z -> (A -> baseresp -> baseresp) -> reader baseresp)
        (set : A -> baseresp -> baseresp) (p : option baseresp) off1
        (K : A * Z * gerror -> res resp_loop_res) (cont : option baseresp -> N -> res (option baseresp * N)) :
    (forall sub, wf sub -> sim zl (G sub) (R sub)) ->
    (forall sub a n, wf sub -> R sub = Ok (a, n) -> n <= len sub) ->
    (forall sub, R sub <> OOB) ->
    (forall q, rdinto lbl_field set b off1 q =
               do sub <- slice_from b off1;
               if is_none q then Panic 4 else
               do (s, l) <- relabel lbl_field (R sub); do p' <- upd q (set s); Ok (p', off1 + l)) ->
    off1 <= len b ->
    (do (p', off') <- rdinto lbl_field set b off1 p; cont p' off') <> Err e_fuel ->
    (forall s z e, is_none p = false -> exists a1 a2 a3 a4, K (s, z, Some e) = Ok (inr (a1, a2, a3, a4, Some (lbl_field + e)%Z))) ->
    (forall x, is_none p = true -> exists w, K x = Panic w) ->
    (forall r s n, p = Some r -> off1 + n <= len b -> cont (Some (set s r)) (off1 + n) <> Err e_fuel ->
                   resp_out_sim (K (s, Z.of_N n, gnil)) (cont (Some (set s r)) (off1 + n))) ->
    resp_out_sim (do t <- gslice_from b (Z.of_N off1); do x <- G t; K x)
                 (do (p', off') <- rdinto lbl_field set b off1 p; cont p' off').
  Proof.
    intros HS HL NO HD Ho Hnf HE HN HK.
    pose proof (at_off_step G R b off1 K HS HL W) as S1.
    rewrite HD in *.
    destruct (slice_from_cases b off1) as [[_ Es]|Es]; rewrite Es in *; cbn [bind resp_out_sim] in *;
      [|destruct S1 as [w' S1]; rewrite S1; eexists; reflexivity].
    destruct p as [r|]; cbn [is_none upd] in *.
    - destruct (R (drop off1 b)) as [[s n]|e|w|]; cbn [relabel bind resp_out_sim] in *.
      + destruct S1 as [S1 Hle]. rewrite S1. apply (HK r s n eq_refl Hle Hnf).
      + destruct S1 as (s & z & S1). rewrite S1. apply HE. reflexivity.
      + destruct S1 as [w' S1]. rewrite S1. eexists; reflexivity.
      + rewrite S1. reflexivity.
    - pose proof (NO (drop off1 b)) as NO'.
      destruct (R (drop off1 b)) as [[s n]|e|w|]; cbn [resp_out_sim].
      + destruct S1 as [S1 _]. rewrite S1. apply HN. reflexivity.
      + destruct S1 as (s & z & S1). rewrite S1. apply HN. reflexivity.
      + destruct S1 as [w' S1]. rewrite S1. eexists; reflexivity.
      + contradiction.
  Qed.

  Lemma resp_loop_sim : forall f lf off p ex err ftyp fid l,
    (f < lf)%nat -> off <= len b -> mequiv ex (xt' p) ->
    read_loop lbl_begin lbl_skip baseresp_disp f b off p <> Err e_fuel ->
    resp_out_sim (loop1 (is_none p) b lf ex (cd p) (ms p) (Z.of_N off) err ftyp fid l)
                 (read_loop lbl_begin lbl_skip baseresp_disp f b off p).
  Proof.
    pose proof Hb as Hb'. unfold glen_ok, glen in Hb'.
    induction f as [|f IH]; intros lf off p ex err ftyp fid l Hlf Hoff Hm Hnf; [exfalso; apply Hnf; reflexivity|].
    destruct lf as [|lf]; [lia|]. cbn [read_loop g_base_BaseResp_FastRead_loop1] in *. unfold rd_field_begin in *.
    match goal with |- resp_out_sim (bind (gslice_from b (Z.of_N off)) (fun t => bind (g_thrift_ReadFieldBegin t) ?K)) _ =>
      pose proof (at_off_step g_thrift_ReadFieldBegin r_field_begin b off K g_thrift_ReadFieldBegin_sim (r_field_begin_len') W) as S1 end.
    destruct (slice_from_cases b off) as [[_ Es]|Es]; rewrite Es in *; cbn [bind resp_out_sim] in *;
      [|destruct S1 as [w' S1]; rewrite S1; eexists; reflexivity].
    destruct (r_field_begin (drop off b)) as [[[ft fi] n]|e|w|]; cbn [relabel bind resp_out_sim] in *.
    2:{ destruct S1 as (a & z & S1). rewrite S1. destruct a as [a1 a2]. cbn [is_nil negb bind gerr_prepend]. repeat eexists. }
    2:{ destruct S1 as [w' S1]. rewrite S1. eexists; reflexivity. }
    2:{ rewrite S1. reflexivity. }
    destruct S1 as [S1 Hle]. rewrite S1. cbn [is_nil gnil negb].
    rewrite (wraps64_small (Z.of_N off + Z.of_N n)) by lia.
    replace (Z.of_N off + Z.of_N n)%Z with (Z.of_N (off + n)) by lia.
    change thrift_STOP with 0%Z in *.
    destruct (Z.eqb_spec ft 0) as [Hstop|Hstop].
    { cbn [resp_out_sim]. repeat eexists. exact Hm. }
    rewrite baseresp_disp_spec in *. cbv zeta in *.
    set (key := Z.lor (wrapu 32 (gshl (wrapu 32 fi) 8)) (wrapu 32 ft)) in *.
    set (cont := fun (p' : option baseresp) (off' : N) => read_loop lbl_begin lbl_skip baseresp_disp f b off' p') in *.
    destruct (key =? 267)%Z.
    { apply (resp_field_case (g_thrift_ReadString en) r_string (@rd_string_into baseresp) set_msg p (off + n) _ cont
               (g_thrift_ReadString_sim en) r_string_len r_string_not_oob ltac:(reflexivity) Hle Hnf).
      - intros s z e Hn. rewrite Hn. cbn [gptr_set bind is_nil negb gerr_prepend]. repeat eexists.
      - intros [[s z] e] Hn. rewrite Hn. cbn [gptr_set bind]. eexists; reflexivity.
      - intros r s m -> Hle2 Hn2. cbn [is_none gptr_set bind is_nil gnil negb].
        rewrite (wraps64_small (Z.of_N (off + n) + Z.of_N m)) by lia.
        replace (Z.of_N (off + n) + Z.of_N m)%Z with (Z.of_N (off + n + m)) by lia.
        apply (IH lf (off + n + m) (Some (set_msg s r)) ex gnil ft fi (Z.of_N m)); [lia|lia|exact Hm|exact Hn2]. }
    destruct (key =? 520)%Z.
    { apply (resp_field_case g_thrift_ReadI32 r_i32 (@rd_i32_into baseresp) set_code p (off + n) _ cont
               g_thrift_ReadI32_sim r_i32_len' r_i32_not_oob ltac:(reflexivity) Hle Hnf).
      - intros s z e Hn. rewrite Hn. cbn [gptr_set bind is_nil negb gerr_prepend]. repeat eexists.
      - intros [[s z] e] Hn. rewrite Hn. cbn [gptr_set bind]. eexists; reflexivity.
      - intros r s m -> Hle2 Hn2. cbn [is_none gptr_set bind is_nil gnil negb].
        rewrite (wraps64_small (Z.of_N (off + n) + Z.of_N m)) by lia.
        replace (Z.of_N (off + n) + Z.of_N m)%Z with (Z.of_N (off + n + m)) by lia.
        apply (IH lf (off + n + m) (Some (set_code s r)) ex gnil ft fi (Z.of_N m)); [lia|lia|exact Hm|exact Hn2]. }
    destruct (key =? 781)%Z.
    { unfold rd_map_into, rd_strmap in *.
      match goal with |- resp_out_sim (bind (gslice_from b (Z.of_N (off + n))) (fun t => bind (g_thrift_ReadMapBegin t) ?K)) _ =>
        pose proof (at_off_step g_thrift_ReadMapBegin r_map_begin b (off + n) K g_thrift_ReadMapBegin_sim (r_map_begin_len') W) as S2 end.
      destruct (slice_from_cases b (off + n)) as [[_ Es2]|Es2]; rewrite Es2 in *; cbn [relabel bind resp_out_sim] in *;
        [|destruct S2 as [w' S2]; rewrite S2; eexists; reflexivity].
      pose proof (r_map_begin_ok (drop (off + n) b)) as MB.
      destruct (r_map_begin (drop (off + n) b)) as [[[[kt vt] sz] n2]|e|w|]; cbn [relabel bind resp_out_sim] in *.
      2:{ destruct S2 as (a & z & S2). rewrite S2. destruct a as [[a1 a2] a3]. cbn [is_nil negb bind gerr_prepend]. repeat eexists. }
      2:{ destruct S2 as [w' S2]. rewrite S2. eexists; reflexivity. }
      2:{ rewrite S2. reflexivity. }
      destruct S2 as [S2 Hle2]. rewrite S2. cbn [is_nil gnil negb].
      destruct (MB kt vt sz n2 (wf_drop _ _ W) eq_refl) as [_ Hsz].
      rewrite (wraps64_small (Z.of_N (off + n) + Z.of_N n2)) by lia.
      replace (Z.of_N (off + n) + Z.of_N n2)%Z with (Z.of_N (off + n + n2)) by lia.
      destruct p as [r|]; cbn [is_none gptr_set bind relabel upd resp_out_sim] in *; [|eexists; reflexivity].
      pose proof (rd_entries_nofuel b (S (length b)) 0%Z sz (off + n + n2) [] Hle2 ltac:(unfold len; lia)) as NF.
      pose proof (resp_entries_sim xs fuel en (cd (Some r)) (ms (Some r)) b sz W Hb ltac:(lia)
                    (S (length b)) fuel 0%Z (off + n + n2) [] [] gnil (Z.of_N n2) Hfuel ltac:(lia) Hle2 (lequiv_refl []) NF) as E.
      pose proof (rd_entries_bound b (S (length b)) 0%Z sz (off + n + n2) []) as G.
      destruct (rd_entries (S (length b)) b 0 sz (off + n + n2) []) as [[m off']|e|w|]; cbn [ent_sim relabel bind upd resp_out_sim] in *.
      - destruct E as (ex' & err' & l' & i' & E & Hm'). rewrite E. cbn [bind].
        apply (IH lf off' (Some (set_rextra (Some m) r)) (Some ex') err' ft fi l'); [lia|exact (G m off' Hle2 eq_refl)|exact Hm'|exact Hnf].
      - destruct E as (rr & E & a1 & a2 & a3 & a4 & Er). rewrite E. cbn [bind]. subst rr. repeat eexists.
      - destruct E as [w' E]. rewrite E. eexists; reflexivity.
      - rewrite E. reflexivity. }
    unfold rd_skip in *. rewrite gslice_from_N.
    destruct (slice_from_cases b (off + n)) as [[_ Es2]|Es2]; rewrite Es2 in *; cbn [relabel bind resp_out_sim] in *;
      [|eexists; reflexivity].
    pose proof (xs_ok (drop (off + n) b) ft (wf_drop _ _ W)) as S3.
    pose proof (skipf_bounded (drop (off + n) b) ft) as SB.
    destruct (skipf (drop (off + n) b) ft) as [n3|e|w|]; cbn [sim relabel bind resp_out_sim] in *.
    - rewrite S3. cbn [bind is_nil gnil negb]. specialize (SB n3 (wf_drop _ _ W) eq_refl).
      rewrite drop_len in SB by lia.
      rewrite (wraps64_small (Z.of_N (off + n) + Z.of_N n3)) by lia.
      replace (Z.of_N (off + n) + Z.of_N n3)%Z with (Z.of_N (off + n + n3)) by lia.
      apply (IH lf (off + n + n3) p ex gnil ft fi (Z.of_N n3)); [lia|lia|exact Hm|exact Hnf].
    - destruct S3 as [x S3]. rewrite S3. cbn [bind is_nil negb gerr_prepend]. repeat eexists.
    - rewrite S3. eexists; reflexivity.
    - rewrite S3. reflexivity.
  Qed.

  Definition resp_fr_sim (g : res (bytes * Z * gmap bytes bytes * Z * gerror)) (h : res (option baseresp * N)) : Prop :=
    match h with
    | Ok (p', off) => exists ex', g = Ok (ms p', cd p', ex', Z.of_N off, gnil) /\ mequiv ex' (xt' p')
    | Err e => exists a1 a2 a3 a4, g = Ok (a1, a2, a3, a4, Some e)
    | Panic _ => exists w, g = Panic w
    | OOB => g = OOB
    end.

  Theorem g_base_BaseResp_FastRead_sim p :
    baseresp_read p b <> Err e_fuel ->
    resp_fr_sim (g_base_BaseResp_FastRead xs fuel en (is_none p) (ms p) (cd p) (xt' p) b) (baseresp_read p b).
  Proof.
    intros Hnf. unfold g_base_BaseResp_FastRead, baseresp_read in *.
    pose proof (resp_loop_sim (S (length b)) fuel 0 p (xt' p) gnil 0%Z 0%Z 0%Z Hfuel ltac:(lia) (mequiv_refl _) Hnf) as L.
    change (Z.of_N 0) with 0%Z in L.
    destruct (read_loop lbl_begin lbl_skip baseresp_disp (S (length b)) b 0 p) as [[p' off']|e|w|]; cbn [resp_out_sim resp_fr_sim] in *.
    - destruct L as (ex' & ft & fi & l' & L & Hm). rewrite L. cbn [bind]. eexists. split; [reflexivity|exact Hm].
    - destruct L as (a1 & a2 & a3 & a4 & L). rewrite L. cbn [bind]. repeat eexists.
    - destruct L as [w' L]. rewrite L. eexists; reflexivity.
    - rewrite L. reflexivity.
  Qed.
End RespRead.
