(* Proofs/BufWriterThm.v — the theorems of property C05, assembled from the simulation
   (BufWriterRef) and the facts about the Log specification (BufWriterLog). *)
From GV Require Import Lib.Bytes Lib.Res Lib.Heap Gen.Consts Spec.Log Model.BufWriter
  Proofs.BufWriterLib Proofs.BufWriterP Proofs.BufWriterInv Proofs.BufWriterOps
  Proofs.BufWriterLog Proofs.BufWriterRef.
From Coq Require Import ZifyN ZifyNat ZifyBool.
Open Scope N_scope.

(* ---------- refinement, every history ---------- *)
Theorem writer_refines_log dirty w0 l0 h :
  init_pair w0 l0 ->
  let wf := fst (wrun dirty w0 h) in
  let mo := snd (wrun dirty w0 h) in
  let lf := fst (log_run l0 h) in
  let so := snd (log_run l0 h) in
  Forall2 obs_ok so mo /\
  matches (lL lf) (Lof wf) /\ written_len wf = len (lL lf) /\
  Forall2 matches (lK lf) (klog (sink wf)) /\
  matches (ltarget lf) (target_bytes wf) /\
  werr wf = lerr lf.
Proof.
  intros Hi. cbn zeta. destruct (sim_run dirty h _ _ (sim_init _ _ Hi)) as (HS & Hobs).
  split; [exact Hobs|]. split; [exact (sim_L _ _ HS)|]. split; [symmetry; exact (sim_len _ _ HS)|].
  split; [exact (sim_K _ _ HS)|]. split; [exact (sim_target _ _ HS)|]. symmetry. exact (sim_err _ _ HS).
Qed.

Lemma Forall2_transfer {A B} (R : A -> B -> Prop) (P : A -> Prop) (Q : B -> Prop) la lb :
  (forall a b, R a b -> P a -> Q b) -> Forall2 R la lb -> Forall P la -> Forall Q lb.
Proof.
  intros H H2. induction H2 as [|a b la lb Hab H2 IH]; intros HP; [constructor|].
  inversion HP; subst. constructor; eauto.
Qed.

Lemma Forall2_flip_transfer {A B} (R : A -> B -> Prop) (P : A -> Prop) (Q : B -> Prop) la lb :
  (forall a b, R a b -> Q b -> P a) -> Forall2 R la lb -> Forall Q lb -> Forall P la.
Proof.
  intros H H2. induction H2 as [|a b la lb Hab H2 IH]; intros HP; [constructor|].
  inversion HP; subst. constructor; eauto.
Qed.

(* the executable form checked by the correspondence run ([specok] of Corr/C05.v) *)
Theorem writer_obs_okb dirty w0 l0 h :
  init_pair w0 l0 ->
  Forall2 (fun sp im => obs_okb sp im = true) (snd (log_run l0 h)) (snd (wrun dirty w0 h)) /\
  matches_b (ltarget (fst (log_run l0 h))) (target_bytes (fst (wrun dirty w0 h))) = true.
Proof.
  intros Hi. destruct (writer_refines_log dirty w0 l0 h Hi) as (H1 & _ & _ & _ & H5 & _). split.
  - induction H1 as [|a b la lb Hab H1 IH]; constructor; [now apply obs_okb_spec | exact IH].
  - apply matches_b_spec. exact H5.
Qed.

(* no panic, no exhausted fuel, no short write: every error class shown is one the specification knows *)
Theorem writer_no_crash dirty w0 l0 h :
  init_pair w0 l0 -> Forall (fun ob => err_known (o_err ob)) (snd (wrun dirty w0 h)).
Proof.
  intros Hi. destruct (writer_refines_log dirty w0 l0 h Hi) as (H1 & _).
  eapply Forall2_transfer; [|exact H1|apply log_run_errs, (sim_errv _ _ (sim_init _ _ Hi))].
  intros a b (He & _) Ha. cbn beta in *. now rewrite <- He.
Qed.

Lemma err_known_not_crash e : err_known e -> e <> E_PANIC /\ e <> E_FUEL /\ e <> E_SHORT.
Proof. unfold err_known, E_NONE, E_NEG, E_SINK, E_INVALID, E_PANIC, E_FUEL, E_SHORT. lia. Qed.

(* ---------- exactly once, in order: the flush-free reading ---------- *)
Lemma init_flat w0 l0 : init_pair w0 l0 -> Flat l0 (mksst (lL l0) []) /\ lK l0 = [] /\ ltarget l0 = lL l0.
Proof.
  intros [failk| |contents l Hl]; (split; [|split; reflexivity]).
  - apply flat_init_default.
  - apply flat_init_bytes_nil.
  - apply flat_init_bytes.
Qed.

Lemma clean_transfer so mo : Forall2 obs_ok so mo -> clean mo -> clean so.
Proof.
  unfold clean. apply Forall2_flip_transfer. intros a b (He & _) Hb. cbn beta in *. now rewrite He.
Qed.

(* For every history in which no call fails: the byte strings accepted by the sink, concatenated
   over all flushes in order, followed by what is still unflushed, are the initial contents
   (bytes-backed writer; empty otherwise) followed by everything written. *)
Theorem writer_sink_concat dirty w0 l0 h :
  init_pair w0 l0 ->
  let wf := fst (wrun dirty w0 h) in
  clean (snd (wrun dirty w0 h)) ->
  matches (lL l0 ++ written h) (concat (klog (sink wf)) ++ Lof wf).
Proof.
  intros Hi wf Hc. destruct (sim_run dirty h _ _ (sim_init _ _ Hi)) as (HS & Hobs).
  destruct (init_flat _ _ Hi) as (HF & _ & _).
  pose proof (flat_run h _ _ HF (clean_transfer _ _ Hobs Hc)) as [HS1 _ _].
  rewrite stream_run_initial in HS1. rewrite <- HS1.
  apply matches_app; [apply matches_concat, (sim_K _ _ HS) | exact (sim_L _ _ HS)].
Qed.

(* when every region was stored completely the sink bytes are determined uniquely *)
Theorem writer_sink_concat_exact dirty w0 l0 h :
  init_pair w0 l0 ->
  let wf := fst (wrun dirty w0 h) in
  clean (snd (wrun dirty w0 h)) -> determined (lL l0 ++ written h) = true ->
  map Some (concat (klog (sink wf)) ++ Lof wf) = lL l0 ++ written h.
Proof.
  intros Hi wf Hc Hd. symmetry. apply matches_determined; [|exact Hd].
  now apply writer_sink_concat.
Qed.

(* ---------- bytes-backed writer: the target after the first Flush ---------- *)
Lemma log_run_fake h : forall s, lfake (fst (log_run s h)) = lfake s.
Proof.
  induction h as [|o h IH]; intros s; [reflexivity|].
  rewrite log_run_cons. cbn [fst]. rewrite IH. apply log_step_fake.
Qed.

Theorem writer_bytes_target dirty w0 l0 h1 :
  init_pair w0 l0 -> kfake (sink w0) = true ->
  forallb (fun o => negb (is_flush o)) h1 = true ->
  clean (snd (wrun dirty w0 h1)) ->
  matches (lL l0 ++ written h1) (target_bytes (fst (wrun dirty w0 (h1 ++ [OFlush])))).
Proof.
  intros Hi Hk Hnf Hc.
  destruct (sim_run dirty h1 _ _ (sim_init _ _ Hi)) as (HS & Hobs).
  destruct (init_flat _ _ Hi) as (HF & HK0 & HT0).
  pose proof (flat_run h1 _ _ HF (clean_transfer _ _ Hobs Hc)) as [HS1 _ He1].
  destruct (log_run_noflush h1 l0 Hnf) as (N1 & N2 & _ & _).
  rewrite stream_run_initial in HS1. rewrite N1, HK0 in HS1. cbn [concat app] in HS1.
  rewrite wrun_app. cbn [fst]. rewrite wrun_cons. cbn [wrun fst].
  set (w1 := fst (wrun dirty w0 h1)) in *. set (s1 := fst (log_run l0 h1)) in *.
  destruct (sim_step_flush dirty w1 s1 HS) as (HS2 & _).
  pose proof (sim_target _ _ HS2) as HT. revert HT.
  assert (Hfk : lfake s1 = true).
  { unfold s1. rewrite log_run_fake. rewrite (sim_fake _ _ (sim_init _ _ Hi)). exact Hk. }
  cbn [log_step]. rewrite He1.
  destruct (lnil s1) eqn:En.
  - cbn [fst]. rewrite N2, HT0.
    assert (HL : lL s1 = []).
    { pose proof (sim_nil _ _ HS) as Hn. rewrite En in Hn. pose proof (sim_L _ _ HS) as HL.
      unfold Lof in HL. fold w1 in Hn, HL. destruct (cur w1); [discriminate|]. now apply matches_nil_r. }
    assert (E0 : lL l0 ++ written h1 = []) by congruence.
    rewrite E0. apply app_eq_nil in E0 as (E0 & _). rewrite E0. auto.
  - rewrite Hfk. cbn [negb andb fst ltarget]. rewrite HS1. auto.
Qed.

(* ---------- WrittenLen ---------- *)
(* (that WrittenLen is |L| after every operation is part of [obs_ok] in [writer_refines_log]) *)
Lemma wstep_len dirty st o : o_len (snd (wstep dirty st o)) = written_len (fst (wstep dirty st o)).
Proof.
  destruct o as [n|bs|k off data| |]; cbn [wstep].
  - destruct (malloc dirty st n) as [[st' r]| | |]; reflexivity.
  - destruct (write_binary dirty st bs) as [[st' m]| | |]; reflexivity.
  - destruct (fill st k off data); reflexivity.
  - destruct (flush st) as [[[st' e] wr]| | |]; reflexivity.
  - reflexivity.
Qed.

Lemma written_len_zero_after_flush dirty st s :
  Sim st s -> o_err (snd (wstep dirty st OFlush)) = E_NONE ->
  written_len (fst (wstep dirty st OFlush)) = 0 /\ o_len (snd (wstep dirty st OFlush)) = 0 /\
  werr (fst (wstep dirty st OFlush)) = None.
Proof.
  intros HS He. destruct (sim_step_flush dirty st s HS) as (HS' & (E1 & E2 & _)).
  destruct (log_flush_result s) as (_ & H0). rewrite E1 in H0.
  destruct (H0 He (sim_errv _ _ HS)) as (Hn & Herr).
  pose proof (sim_nil _ _ HS') as Hn'. rewrite Hn in Hn'.
  assert (Hw : written_len (fst (wstep dirty st OFlush)) = 0).
  { unfold written_len, cur_len. destruct (cur (fst (wstep dirty st OFlush))); [discriminate | reflexivity]. }
  split; [exact Hw|]. split.
  - rewrite wstep_len. exact Hw.
  - rewrite <- (sim_err _ _ HS'). exact Herr.
Qed.

(* ---------- errors ---------- *)
Definition reachable (dirty : nat -> bytes) (st : wstate) : Prop :=
  exists w0 l0 h, init_pair w0 l0 /\ st = fst (wrun dirty w0 h).

Lemma reachable_sim dirty st : reachable dirty st -> exists s, Sim st s.
Proof.
  intros (w0 & l0 & h & Hi & ->). exists (fst (log_run l0 h)).
  apply (sim_run dirty h _ _ (sim_init _ _ Hi)).
Qed.

(* a Flush that returns an error leaves it recorded and has not changed the sink log *)
Theorem flush_error_recorded dirty st :
  reachable dirty st ->
  let st' := fst (wstep dirty st OFlush) in
  let ob := snd (wstep dirty st OFlush) in
  o_err ob <> E_NONE ->
  werr st' = Some (o_err ob) /\ o_sink ob = None /\ klog (sink st') = klog (sink st).
Proof.
  intros Hr. destruct (reachable_sim _ _ Hr) as (s & HS). cbn zeta. intros He.
  destruct (sim_step_flush dirty st s HS) as (HS' & (E1 & E2 & E3)).
  destruct (log_flush_result s) as (H1 & _). rewrite E1 in H1. destruct (H1 He) as (A1 & A2 & A3).
  split; [rewrite <- (sim_err _ _ HS'); exact A1|]. split.
  - rewrite A2 in E3. destruct (o_sink (snd (wstep dirty st OFlush))); [contradiction | reflexivity].
  - (* the model's log changes only on a successful sink write *)
    unfold wstep in *. unfold flush in *.
    destruct (werr st) as [e|]; [reflexivity|].
    destruct (cur st) as [[c l]|]; [|reflexivity].
    destruct (stitch (store st) (pend st) c l 0) as [[h off]| | |]; cbn [bind fst snd] in *; try reflexivity.
    unfold sink_write in *. destruct (kfake (sink st)).
    + cbn [fst snd o_err] in He. unfold stat_update in He. cbn [fst snd o_err] in He. contradiction.
    + destruct (kcalls (sink st) + 1 =? kfail (sink st)); cbn [fst snd sink klog]; [reflexivity|].
      unfold stat_update in He. cbn [fst snd o_err] in He. contradiction.
Qed.

(* once an error is recorded, every later Malloc/WriteBinary/Flush returns it, the sink is never
   called again and its log never changes (any state, any history) *)
Lemma wstep_sticky dirty st o e :
  werr st = Some e ->
  let st' := fst (wstep dirty st o) in
  let ob := snd (wstep dirty st o) in
  werr st' = Some e /\ sink st' = sink st /\ o_sink ob = None /\ written_len st' = written_len st /\
  match o with OMalloc _ | OWrite _ | OFlush => o_err ob = e | _ => True end.
Proof.
  intros He. destruct o as [n|bs|k off data| |]; cbn [wstep].
  - rewrite (malloc_err dirty st n e He). cbn [fst snd crash_obs o_err o_sink]. auto.
  - rewrite (write_binary_err dirty st bs e He). cbn [fst snd crash_obs o_err o_sink]. auto.
  - unfold fill. destruct (region_at st k) as [r|]; [|cbn [fst snd o_sink]; auto].
    destruct (off + len data <=? rlen r); cbn [fst snd o_sink with_mem werr sink written_len cur_len cur]; auto.
  - rewrite (flush_err st e He). cbn [fst snd o_err o_sink]. auto.
  - cbn [fst snd o_sink]. auto.
Qed.

Theorem error_sticky dirty h : forall st e,
  werr st = Some e ->
  let st' := fst (wrun dirty st h) in
  let obs := snd (wrun dirty st h) in
  werr st' = Some e /\ sink st' = sink st /\ written_len st' = written_len st /\
  Forall2 (fun o ob => o_sink ob = None /\
                       match o with OMalloc _ | OWrite _ | OFlush => o_err ob = e | _ => True end) h obs.
Proof.
  induction h as [|o h IH]; intros st e He; cbn zeta.
  - cbn [wrun fst snd]. repeat split; auto.
  - rewrite wrun_cons. cbn [fst snd].
    destruct (wstep_sticky dirty st o e He) as (A1 & A2 & A3 & A4 & A5).
    destruct (IH _ e A1) as (B1 & B2 & B3 & B4).
    split; [exact B1|]. split; [congruence|]. split; [congruence|]. constructor; auto.
Qed.

(* negative count: an error, and nothing changes (any state) *)
Theorem malloc_negative dirty st n :
  (n < 0)%Z ->
  wstep dirty st (OMalloc n) =
  (st, mkobs (match werr st with Some e => e | None => E_NEG end) (written_len st) None).
Proof.
  intros Hn. cbn [wstep]. destruct (werr st) as [e|] eqn:He.
  - now rewrite (malloc_err dirty st n e He).
  - now rewrite (malloc_neg dirty st n He Hn).
Qed.

(* ---------- the invariant of DESIGN A.2, for every reachable state ---------- *)
Lemma rchain_disjoint rs : forall hi,
  rchain rs hi ->
  ForallOrdPairs (fun r r' => roff r' + rlen r' <= roff r) rs /\ Forall (fun r => roff r + rlen r <= hi) rs.
Proof.
  induction rs as [|r rs IH]; intros hi H; cbn [rchain] in H.
  - split; constructor.
  - destruct H as (H1 & H2). destruct (IH _ H2) as (I1 & I2). split.
    + constructor; [exact I2 | exact I1].
    + constructor; [exact H1|]. eapply Forall_impl; [|exact I2]. cbn beta. intros a Ha. lia.
Qed.

Theorem writer_invariant dirty w0 l0 h :
  init_pair w0 l0 ->
  let wf := fst (wrun dirty w0 h) in
  let lf := fst (log_run l0 h) in
  match cur wf with
  | Some (c, l) =>
    chain (store wf) (pend wf) 0 c l /\ matches (lL lf) (stitched (store wf) (pend wf) 0 c l) /\ len (lL lf) = l
  | None => pend wf = [] /\ lL lf = []
  end /\
  lwin lf = map win_of (live wf) /\
  Forall (region_owned wf) (live wf) /\
  ForallOrdPairs (fun r r' => roff r' + rlen r' <= roff r) (live wf) /\
  Forall (fun r => roff r + rlen r <= len (lL lf)) (live wf).
Proof.
  intros Hi. cbn zeta. destruct (sim_run dirty h _ _ (sim_init _ _ Hi)) as (HS & _).
  pose proof (sim_len _ _ HS) as Hlen. pose proof (sim_L _ _ HS) as HL.
  destruct (sim_inv _ _ HS) as [Hc _ Hown Hrch].
  destruct (rchain_disjoint _ _ Hrch) as (D1 & D2). rewrite <- Hlen in D2.
  split; [|split; [exact (sim_win _ _ HS) | split; [exact Hown | split; [exact D1 | exact D2]]]].
  unfold Lof, cur_len in *. destruct (cur (fst (wrun dirty w0 h))) as [[c l]|].
  - split; [exact Hc | split; [exact HL | exact Hlen]].
  - split; [exact Hc | now apply matches_nil_r].
Qed.

Theorem flush_success_resets dirty st :
  reachable dirty st ->
  let st' := fst (wstep dirty st OFlush) in
  let ob := snd (wstep dirty st OFlush) in
  o_err ob = E_NONE -> written_len st' = 0 /\ o_len ob = 0 /\ werr st' = None.
Proof.
  intros Hr. destruct (reachable_sim _ _ Hr) as (s & HS). cbn zeta.
  apply (written_len_zero_after_flush dirty st s HS).
Qed.

Theorem writer_no_crash_classes dirty w0 l0 h :
  init_pair w0 l0 ->
  Forall (fun ob => err_known (o_err ob) /\ o_err ob <> E_PANIC /\ o_err ob <> E_FUEL /\ o_err ob <> E_SHORT)
         (snd (wrun dirty w0 h)).
Proof.
  intros Hi. eapply Forall_impl; [|exact (writer_no_crash dirty w0 l0 h Hi)].
  cbn beta. intros ob H. split; [exact H | now apply err_known_not_crash].
Qed.
