(* Proofs/SkipLib.v — facts shared by the proofs about the five skipper models:
   the regenerated constants against the grammar's numbers (type codes, typeToSize, index
   signedness, recursion depth), int32 conversion, loads, and the simulation relations. *)
From GV Require Import Lib.Bytes Lib.Res Gen.Consts Model.Binary Model.Skip
  Spec.ThriftGrammar Spec.RefParse Proofs.RefLib.
From Coq Require Import ZifyN ZifyNat ZifyBool Lia.
Open Scope N_scope.

(* lia after dropping the big non-arithmetic hypotheses (zify walks every hypothesis) *)
Ltac drop_big :=
  repeat match goal with
         | H : ?T |- _ =>
           match T with
           | forall _ : _, _ => clear H
           | exists _ : _, _ => clear H
           | context [sbind] => clear H
           | context [@pair] => clear H
           | @eq bool _ _ => clear H
           end
         end.
Ltac slia := drop_big; lia.
Ltac snia := drop_big; nia.

(* ---------- all 256 bytes, by computation ---------- *)
Definition bytes256 : list N := map N.of_nat (seq 0 256).
Lemma in_bytes256 t : t < 256 -> In t bytes256.
Proof.
  intros H. unfold bytes256. apply in_map_iff. exists (N.to_nat t). split; [lia|]. apply in_seq. lia.
Qed.
Lemma allb (f : N -> bool) : forallb f bytes256 = true -> forall t, t < 256 -> f t = true.
Proof. intros H t Ht. rewrite forallb_forall in H. apply H, in_bytes256, Ht. Qed.

Definition is_map (t : N) : bool := match kind_of t with KMap => true | _ => false end.
Definition is_list (t : N) : bool := match kind_of t with KList => true | _ => false end.
Definition is_struct (t : N) : bool := match kind_of t with KStruct => true | _ => false end.

(* ---------- consts_ok: the Go constants the theorems depend on ---------- *)
Lemma depth_ok : depth0 = 64%nat.
Proof. reflexivity. Qed.

Lemma sites_unsigned s : tts_signed s = false.
Proof. destruct s; reflexivity. Qed.

(* typeToSize is the grammar's table of scalar widths *)
Lemma tts_ok s t : t < 256 -> tts s t = Ok (Z.of_N (fixed_width t)).
Proof.
  intros Ht. unfold tts. rewrite sites_unsigned. cbn [andb].
  pose proof (allb (fun t => match nth_error thrift_typeToSize (N.to_nat t) with
                             | Some z => (z =? Z.of_N (fixed_width t))%Z | None => false end)) as A.
  specialize (A ltac:(vm_compute; reflexivity) t Ht). cbv beta in A.
  destruct (nth_error thrift_typeToSize (N.to_nat t)); [|discriminate].
  apply Z.eqb_eq in A. congruence.
Qed.

(* the switch of skipType against the grammar's kinds *)
Lemma is_ty_ok t : t < 256 ->
  is_ty t thrift_STRING = is_str t /\ is_ty t thrift_MAP = is_map t /\
  (is_ty t thrift_LIST || is_ty t thrift_SET) = is_list t /\
  (is_ty t thrift_SET || is_ty t thrift_LIST) = is_list t /\
  is_ty t thrift_STRUCT = is_struct t /\ is_ty t thrift_STOP = (t =? T_STOP).
Proof.
  intros Ht.
  pose proof (allb (fun t =>
    Bool.eqb (is_ty t thrift_STRING) (is_str t) && Bool.eqb (is_ty t thrift_MAP) (is_map t) &&
    Bool.eqb (is_ty t thrift_LIST || is_ty t thrift_SET) (is_list t) &&
    Bool.eqb (is_ty t thrift_SET || is_ty t thrift_LIST) (is_list t) &&
    Bool.eqb (is_ty t thrift_STRUCT) (is_struct t) && Bool.eqb (is_ty t thrift_STOP) (t =? T_STOP))) as A.
  specialize (A ltac:(vm_compute; reflexivity) t Ht). cbv beta in A.
  repeat (apply andb_true_iff in A as [A ?]).
  repeat split; apply Bool.eqb_prop; assumption.
Qed.

Lemma fixed_width_pos t : (0 <? Z.of_N (fixed_width t))%Z = is_fixed t.
Proof.
  unfold fixed_width, is_fixed. destruct (kind_of t) eqn:K; try reflexivity.
  apply kind_fixed_pos in K. lia.
Qed.

Lemma e_codes_not_fuel :
  e_depth <> e_fuel /\ e_too_short <> e_fuel /\ e_neg_size <> e_fuel /\ e_unknown_type <> e_fuel.
Proof. repeat split; discriminate. Qed.

(* ---------- int32 ---------- *)
Lemma i32_small u : u < two31 -> i32 u = Z.of_N u.
Proof.
  intros H. unfold i32, to_signed. change (2 ^ (32 - 1)) with two31.
  destruct (N.ltb_spec u two31); [reflexivity|lia].
Qed.
Lemma i32_neg u : u < two32 -> (i32 u <? 0)%Z = (two31 <=? u).
Proof.
  intros H. unfold i32, to_signed. change (2 ^ (32 - 1)) with two31. change (2 ^ 32) with two32.
  unfold two31, two32 in *.
  destruct (N.ltb_spec u 2147483648); destruct (N.leb_spec 2147483648 u); lia.
Qed.

Lemma wf_drop n r : wf r -> wf (drop n r).
Proof.
  unfold wf, drop. intros H. rewrite Forall_forall in *. intros x Hx. apply H.
  rewrite <- (firstn_skipn (N.to_nat n) r). apply in_or_app. right. exact Hx.
Qed.
Lemma wf_take n r : wf r -> wf (take n r).
Proof.
  unfold wf, take. intros H. rewrite Forall_forall in *. intros x Hx. apply H.
  rewrite <- (firstn_skipn (N.to_nat n) r). apply in_or_app. left. exact Hx.
Qed.
Lemma wf_cons x r : wf (x :: r) -> x < 256 /\ wf r.
Proof. intros H. inversion H; subst. split; assumption. Qed.

Lemma unbe4_lt r : wf r -> unbe (take 4 r) < two32.
Proof.
  intros H. pose proof (unbe_lt (take 4 r) (wf_take 4 r H)) as L.
  assert (len (take 4 r) <= 4).
  { unfold take, len. rewrite firstn_length. lia. }
  assert (256 ^ len (take 4 r) <= 256 ^ 4) by (apply N.pow_le_mono_r; lia).
  change (256 ^ 4) with two32 in *. lia.
Qed.

(* ---------- drop ---------- *)
Lemma skipn_cons_nth {A} n (l : list A) : (n < length l)%nat -> exists x, skipn n l = x :: skipn (S n) l.
Proof.
  revert l; induction n as [|n IH]; intros [|y l] H; cbn [length] in H; try lia.
  - exists y. reflexivity.
  - destruct (IH l) as [x E]; [lia|]. exists x. exact E.
Qed.
Lemma drop_cons {A} p (b : list A) : p < len b -> exists x, drop p b = x :: drop (p + 1) b.
Proof.
  intros H. unfold drop. replace (N.to_nat (p + 1)) with (S (N.to_nat p)) by lia.
  apply skipn_cons_nth. unfold len in H. lia.
Qed.
Lemma drop_all {A} p (b : list A) : len b <= p -> drop p b = [].
Proof. intros H. unfold drop. apply skipn_all2. unfold len in H. lia. Qed.
Lemma drop_tail {A} p (b : list A) x r : drop p b = x :: r -> drop (p + 1) b = r.
Proof.
  intros H. replace (drop (p + 1) b) with (drop 1 (drop p b)) by (rewrite drop_drop; reflexivity).
  rewrite H. reflexivity.
Qed.
Lemma drop_plus {A} p n (b : list A) : drop n (drop p b) = drop (p + n) b.
Proof. apply drop_drop. Qed.

(* ---------- loads ---------- *)
Lemma ld8_ok b p x r : drop p b = x :: r -> ld8 b p = Ok x.
Proof.
  unfold ld8, drop. generalize (N.to_nat p) as n. intros n; revert b.
  induction n as [|n IH]; intros [|y b] H; cbn [skipn nth_error] in *; try discriminate.
  - congruence.
  - apply IH. exact H.
Qed.
Lemma ld32_ok b p : hasn (drop p b) 4 = true -> ld32 b p = Ok (unbe (take 4 (drop p b))).
Proof.
  intros H. rewrite hasn_le in H. unfold ld32.
  change (firstn 4 (skipn (N.to_nat p) b)) with (take 4 (drop p b)).
  assert (length (take 4 (drop p b)) = 4%nat).
  { unfold take. rewrite firstn_length. unfold len in H. lia. }
  destruct (Nat.ltb_spec (length (take 4 (drop p b))) 4); [lia|reflexivity].
Qed.

(* ---------- simulation relations: model outcome vs reference outcome ---------- *)
(* exact: same acceptance, same extent; model errors are real errors (not fuel), never a crash *)
Definition sim (x : res N) (y : pres) : Prop :=
  match x, y with
  | Ok n, Ok (n', _) => n = n'
  | Err c, Err _ => c <> e_fuel
  | _, _ => False
  end.
(* offset form for loops: the model returns the running offset i + extent *)
Definition simL (i : N) (x : res N) (y : pres) : Prop :=
  match x, y with
  | Ok i', Ok (n, _) => i' = i + n
  | Err c, Err _ => c <> e_fuel
  | _, _ => False
  end.
(* weak: the model may report a fixed-size member that does not fit (q + n > e);
   the next bounds check of the caller rejects it *)
Definition wsim (e q : N) (x : res N) (y : pres) : Prop :=
  match x, y with
  | Ok n, Ok (n', _) => n = n'
  | Err c, Err _ => c <> e_fuel
  | Ok n, Err _ => e < q + n
  | _, _ => False
  end.
Definition wsimL (e p i : N) (x : res N) (y : pres) : Prop :=
  match x, y with
  | Ok i', Ok (n, _) => i' = i + n
  | Err c, Err _ => c <> e_fuel
  | Ok i', Err _ => e < p + i'
  | _, _ => False
  end.

Lemma sim_wsim e q x y : sim x y -> wsim e q x y.
Proof. unfold sim, wsim. destruct x, y as [[? ?]| | |]; tauto. Qed.

Lemma good_nil_err f : good f -> nocrash f -> exists e, f [] = Err e.
Proof.
  intros G Nc. destruct (Nc []) as [[[n h] E]|E]; [|exact E].
  apply G in E. change (len (@nil N)) with 0 in E. lia.
Qed.

Lemma gelems_ext f e1 e2 : (forall r, e1 r = e2 r) -> forall c r, gelems f e1 c r = gelems f e2 c r.
Proof.
  intros X. induction f as [|f IH]; intros c r; cbn [gelems]; [reflexivity|].
  rewrite X. destruct (c =? 0); [reflexivity|].
  destruct (e2 r) as [[n h]| | |]; cbn [bind]; try reflexivity. rewrite IH. reflexivity.
Qed.
Lemma gpair_ext a1 a2 b1 b2 : (forall r, a1 r = a2 r) -> (forall r, b1 r = b2 r) -> forall r, gpair a1 b1 r = gpair a2 b2 r.
Proof.
  intros X Y r. unfold gpair. rewrite X. destruct (a2 r) as [[n h]| | |]; cbn [bind]; try reflexivity.
  rewrite Y. reflexivity.
Qed.

Lemma leaf_fixed t w : kind_of t = KFixed w -> forall r, leaf t r = fixedp w r.
Proof. intros K r. unfold leaf, fixedp. rewrite K. reflexivity. Qed.
Lemma leaf_str t : kind_of t = KString -> forall r, leaf t r = gstring r.
Proof. intros K r. unfold leaf. rewrite K. reflexivity. Qed.
