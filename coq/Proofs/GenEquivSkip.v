(* Proofs/GenEquivSkip.v — the generic skip template SkipDecoderTpl.Skip
   (protocol/thrift/skipdecoder_tpl.go) as REGENERATED from the Go source (Gen/Funcs.v, tools/gotrans
   phase 2: a Fixpoint on the recursion fuel rfuel, three loop Fixpoints on fuel, parametric in the
   state type St of the abstract object p.r and in the model m_p_r_SkipN of its method SkipN) is
   equal to the hand-written template Model/SkipDecoders.v [tskip] (Section Template, parameter
   skipN), the one the theorems of C02 / C08 are about.

   Statement form.  The hand model's skipN : St -> N -> St * res bytes is turned into the model
   the generated definition expects ([mN]: a Go error is a result component; only called with
   n >= 0).  Type bytes are raw bytes t : N (< 256) on the model side, the int8 value [i8 t] on the
   generated side; the depth budget is maxdepth = Z.of_nat d.  For ALL recursion fuel rfuel > d and
   ALL loop fuel above the hand model's fu, whenever the hand model does not run out of ITS fuel
   (every instance theorem of SkipDecodersP shows it does not), the generated function returns
   the same final state and the same error / nil; it panics when the hand model panics (the panic
   CODES of the two support libraries differ: encoding/binary on a short slice is Panic 2 in
   Model/Skip.v, Panic 3 in Lib/GoSem.v).
   Hypotheses on skipN: from the states of an invariant [Inv] that skipN preserves, the bytes it
   returns are bytes (< 256) — in Go they are a []byte.  (For the three decoders Inv is "the
   underlying data is wf"; see Proofs/GenCorollariesSkip.v.) *)
From GV Require Import Lib.Bytes Lib.Res Lib.GoSem Gen.Consts Gen.Funcs Model.Binary Model.Skip Model.SkipDecoders
     Proofs.GenLib.
From Coq Require Import ZifyN ZifyNat ZifyBool.
Open Scope N_scope.

Lemma ecode_skip_ok :
  ecode "thrift.errDepthLimitExceeded" = e_depth /\ ecode "thrift.errNegativeSize" = e_neg_size /\
  ecode "thrift.SkipDecoderTpl.Skip#thrift.NewProtocolException" = e_unknown_type /\ gfuel = e_fuel.
Proof. repeat split; reflexivity. Qed.

(* ---------- the table typeToSize, as the generated code and as the hand model index it ---------- *)
Lemma tpl_site_unsigned : tts_signed STpl = false.
Proof. reflexivity. Qed.

Lemma tts_table_ok : length thrift_typeToSize = 256%nat /\ forallb (fun z => (-128 <=? z)%Z && (z <=? 127)%Z) thrift_typeToSize = true.
Proof. split; vm_compute; reflexivity. Qed.

Lemma wrapu8_i8 t : t < 256 -> wrapu 8 (i8 t) = Z.of_N t.
Proof.
  intros H. unfold wrapu, i8, to_signed. change (2 ^ (8 - 1)) with 128. change (Z.of_N (2 ^ 8)) with 256%Z.
  change (2 ^ 8)%Z with 256%Z.
  destruct (N.ltb_spec t 128).
  - apply Z.mod_small. lia.
  - rewrite <- (Z.mod_add _ 1) by lia. replace (Z.of_N t - 256 + 1 * 256)%Z with (Z.of_N t) by lia.
    apply Z.mod_small. lia.
Qed.

Lemma gtable_tts_site site t :
  tts_signed site = false -> t < 256 ->
  exists z, tts site t = Ok z /\ gtable thrift_typeToSize (wrapu 8 (i8 t)) = Ok z /\ (-128 <= z <= 127)%Z.
Proof.
  intros Hsite H. destruct tts_table_ok as [Hl Hr]. unfold tts, gtable. rewrite Hsite, wrapu8_i8 by exact H.
  cbn [andb]. destruct (Z.ltb_spec (Z.of_N t) 0); [lia|].
  replace (Z.to_nat (Z.of_N t)) with (N.to_nat t) by lia.
  destruct (nth_error thrift_typeToSize (N.to_nat t)) as [z|] eqn:E.
  - exists z. repeat split; try reflexivity.
    + apply nth_error_In in E. rewrite forallb_forall in Hr. specialize (Hr _ E). lia.
    + apply nth_error_In in E. rewrite forallb_forall in Hr. specialize (Hr _ E). lia.
  - apply nth_error_None in E. lia.
Qed.

Lemma gtable_tts t :
  t < 256 ->
  exists z, tts STpl t = Ok z /\ gtable thrift_typeToSize (wrapu 8 (i8 t)) = Ok z /\ (-128 <= z <= 127)%Z.
Proof. apply gtable_tts_site, tpl_site_unsigned. Qed.

Lemma wraps8_i8 x : x < 256 -> wraps 8 (Z.of_N x) = i8 x.
Proof. intros H. unfold i8. apply wraps_ts8. exact H. Qed.

(* binary.BigEndian.Uint32 of the two libraries *)
Lemma gbe_load4_skip b :
  wf b ->
  match Skip.be_u32 b with
  | Ok u => gbe_load 4 b = Ok (Z.of_N u) /\ u < 4294967296
  | Panic _ => exists w, gbe_load 4 b = Panic w
  | _ => False
  end.
Proof.
  intros W. unfold Skip.be_u32, gbe_load. change (N.of_nat 4) with 4.
  destruct (N.ltb_spec (len b) 4) as [H|H]; [eexists; reflexivity|].
  split; [reflexivity|]. change (firstn 4 b) with (take 4 b).
  pose proof (unbe_take_lt 4 b W H) as L. change (256 ^ 4) with 4294967296 in L. exact L.
Qed.

Lemma i32_range u : u < 4294967296 -> (- 2 ^ 31 <= i32 u < 2 ^ 31)%Z.
Proof.
  intros H. unfold i32, to_signed. change (2 ^ (32 - 1)) with 2147483648. change (Z.of_N (2 ^ 32)) with 4294967296%Z.
  destruct (N.ltb_spec u 2147483648); lia.
Qed.

Section Tpl.
  Variable St : Type.
  Variable skipN : St -> N -> sres St bytes.
  Variable Inv : St -> Prop.
  Hypothesis SN_inv : forall s n s' r, Inv s -> skipN s n = (s', r) -> Inv s'.
  Hypothesis SN_wf : forall s n s' b, Inv s -> skipN s n = (s', Ok b) -> wf b.

  (* the model of p.r.SkipN the generated definition is applied to *)
  Definition mN (s : St) (n : Z) : res (St * bytes * gerror) :=
    match skipN s (Z.to_N n) with
    | (s', Ok b) => Ok (s', b, gnil)
    | (s', Err e) => Ok (s', (nil : bytes), Some e)
    | (_, Panic w) => Panic w
    | (_, OOB) => OOB
    end.

  Definition nofuel (h : sres St unit) : Prop := snd h <> Err e_fuel.

  (* final state and error / nil; panics alike (codes aside) *)
  Definition ssim (g : res (St * gerror)) (h : sres St unit) : Prop :=
    match h with
    | (s', Ok _) => g = Ok (s', gnil)
    | (s', Err e) => g = Ok (s', Some e)
    | (_, Panic _) => exists w, g = Panic w
    | (_, OOB) => g = OOB
    end.

  (* a loop: ended normally with the carried values [mk s'], or the function returned an error *)
  Definition lsim {C} (mk : St -> C) (g : res (C + (St * gerror))) (h : sres St unit) : Prop :=
    match h with
    | (s', Ok _) => g = Ok (inl (mk s'))
    | (s', Err e) => g = Ok (inr (s', Some e))
    | (_, Panic _) => exists w, g = Panic w
    | (_, OOB) => g = OOB
    end.

  (* what the loops need to know about the recursive call they are given *)
  Definition rec_ok (rec : nat -> list Z -> St -> Z -> Z -> res (St * gerror)) (hrec : St -> N -> sres St unit)
             (fuel : nat) (md : Z) : Prop :=
    forall s t, Inv s -> t < 256 -> nofuel (hrec s t) -> ssim (rec fuel thrift_typeToSize s (i8 t) md) (hrec s t).
  Definition keeps_inv (hrec : St -> N -> sres St unit) : Prop := forall s t, Inv s -> Inv (fst (hrec s t)).

  Lemma mN_eq s n : mN s (Z.of_N n) =
    match skipN s n with
    | (s', Ok b) => Ok (s', b, gnil)
    | (s', Err e) => Ok (s', (nil : bytes), Some e)
    | (_, Panic w) => Panic w
    | (_, OOB) => OOB
    end.
  Proof. unfold mN. rewrite N2Z.id. reflexivity. Qed.

  (* STRUCT: for { b := SkipN(1); tp := TType(b[0]); if tp == STOP {break}; SkipN(2); Skip(tp, maxdepth-1) } *)
  Lemma struct_loop_sim rec hrec rfuel fuel md :
    rec_ok rec hrec fuel (wraps 64 (md - 1)) -> keeps_inv hrec ->
    forall f lf s, Inv s -> (f < lf)%nat -> nofuel (t_struct_loop skipN hrec f s) ->
      lsim (fun s' => s')
           (g_thrift_SkipDecoderTpl_Skip_loop1 St mN rec rfuel fuel thrift_typeToSize md lf s)
           (t_struct_loop skipN hrec f s).
  Proof.
    intros HR HI. induction f as [|f IH]; intros lf s Is Hlf Hnf; [exfalso; apply Hnf; reflexivity|].
    destruct lf as [|lf]; [lia|].
    cbn [t_struct_loop g_thrift_SkipDecoderTpl_Skip_loop1] in *.
    change (mN s 1) with (mN s (Z.of_N 1)). rewrite mN_eq.
    destruct (skipN s 1) as [s1 [b|e|w|]] eqn:E1; cbn [sbind sret bind is_nil gnil negb lsim] in *;
      try reflexivity; [|eexists; reflexivity].
    pose proof (SN_wf _ _ _ _ Is E1) as Wb. pose proof (SN_inv _ _ _ _ Is E1) as Is1.
    change (gindex b 0) with (do x <- index b 0; Ok (Z.of_N x)).
    destruct (index b 0) as [tp|e|w|] eqn:Ei; cbn [sbind sret bind lsim] in *;
      [|exfalso; exact (index_not_err _ _ _ Ei)|eexists; reflexivity|reflexivity].
    pose proof (index_wf b 0 tp Wb Ei) as Htp.
    rewrite wraps8_i8 by exact Htp. unfold is_ty in *. change thrift_STOP with 0%Z in *.
    destruct (Z.eqb_spec (i8 tp) 0) as [Hstop|Hstop]; [reflexivity|].
    change (mN s1 2) with (mN s1 (Z.of_N 2)). rewrite mN_eq.
    destruct (skipN s1 2) as [s2 [b2|e|w|]] eqn:E2; cbn [sbind sret bind is_nil gnil negb lsim] in *;
      try reflexivity; [|eexists; reflexivity].
    pose proof (SN_inv _ _ _ _ Is1 E2) as Is2.
    pose proof (HR s2 tp Is2 Htp) as R. pose proof (HI s2 tp Is2) as Is3.
    destruct (hrec s2 tp) as [s3 [u|e|w|]] eqn:Eh; cbn [sbind ssim nofuel snd fst] in *.
    - rewrite R by discriminate. cbn [bind is_nil gnil negb]. apply IH; [exact Is3|lia|exact Hnf].
    - rewrite R by exact Hnf. reflexivity.
    - destruct R as [w' R]; [discriminate|]. rewrite R. eexists; reflexivity.
    - rewrite R by discriminate. reflexivity.
  Qed.

  (* MAP: for i := int32(0); i < sz; i++ { Skip(kt, maxdepth-1); Skip(vt, maxdepth-1) } *)
  Lemma map_loop_sim rec hrec rfuel fuel md kt vt sz :
    rec_ok rec hrec fuel (wraps 64 (md - 1)) -> keeps_inv hrec -> kt < 256 -> vt < 256 -> (0 <= sz < 2 ^ 31)%Z ->
    forall f lf s i, Inv s -> (f < lf)%nat -> (0 <= i <= sz)%Z ->
      nofuel (t_loop (fun s' => sbind (hrec s' kt) (fun s'' _ => hrec s'' vt)) f (Z.to_N (sz - i)) s) ->
      lsim (fun s' => (s', sz))
           (g_thrift_SkipDecoderTpl_Skip_loop2 St mN rec rfuel fuel thrift_typeToSize md (i8 kt) (i8 vt) sz lf s i)
           (t_loop (fun s' => sbind (hrec s' kt) (fun s'' _ => hrec s'' vt)) f (Z.to_N (sz - i)) s).
  Proof.
    intros HR HI Hkt Hvt Hsz. induction f as [|f IH]; intros lf s i Is Hlf Hi Hnf; (destruct lf as [|lf]; [lia|]);
      cbn [t_loop g_thrift_SkipDecoderTpl_Skip_loop2] in *.
    - destruct (N.eqb_spec (Z.to_N (sz - i)) 0) as [Hz|Hz]; [|exfalso; apply Hnf; reflexivity].
      destruct (Z.ltb_spec i sz); [lia|]. cbn [lsim]. do 3 f_equal. lia.
    - destruct (N.eqb_spec (Z.to_N (sz - i)) 0) as [Hz|Hz].
      { destruct (Z.ltb_spec i sz); [lia|]. cbn [lsim]. do 3 f_equal. lia. }
      destruct (Z.ltb_spec i sz); [|lia].
      pose proof (HR s kt Is Hkt) as R1. pose proof (HI s kt Is) as Is1.
      destruct (hrec s kt) as [s1 [u|e|w|]] eqn:Eh1; cbn [sbind ssim nofuel snd fst lsim] in *.
      2:{ rewrite R1 by exact Hnf. reflexivity. }
      2:{ destruct R1 as [w' R1]; [discriminate|]. rewrite R1. eexists; reflexivity. }
      2:{ rewrite R1 by discriminate. reflexivity. }
      rewrite R1 by discriminate. cbn [bind is_nil gnil negb].
      pose proof (HR s1 vt Is1 Hvt) as R2. pose proof (HI s1 vt Is1) as Is2.
      destruct (hrec s1 vt) as [s2 [u2|e|w|]] eqn:Eh2; cbn [sbind ssim nofuel snd fst lsim] in *.
      2:{ rewrite R2 by exact Hnf. reflexivity. }
      2:{ destruct R2 as [w' R2]; [discriminate|]. rewrite R2. eexists; reflexivity. }
      2:{ rewrite R2 by discriminate. reflexivity. }
      rewrite R2 by discriminate. cbn [bind is_nil gnil negb].
      rewrite (wraps_id 32 (i + 1)) by (unfold in_s; lia).
      replace (Z.to_N (sz - i) - 1) with (Z.to_N (sz - (i + 1))) in * by lia.
      apply IH; [exact Is2|lia|lia|exact Hnf].
  Qed.

  (* SET, LIST: for i := int32(0); i < sz; i++ { Skip(vt, maxdepth-1) } *)
  Lemma list_loop_sim rec hrec rfuel fuel md vt sz :
    rec_ok rec hrec fuel (wraps 64 (md - 1)) -> keeps_inv hrec -> vt < 256 -> (0 <= sz < 2 ^ 31)%Z ->
    forall f lf s i, Inv s -> (f < lf)%nat -> (0 <= i <= sz)%Z ->
      nofuel (t_loop (fun s' => hrec s' vt) f (Z.to_N (sz - i)) s) ->
      lsim (fun s' => (s', sz))
           (g_thrift_SkipDecoderTpl_Skip_loop3 St mN rec rfuel fuel thrift_typeToSize md (i8 vt) sz lf s i)
           (t_loop (fun s' => hrec s' vt) f (Z.to_N (sz - i)) s).
  Proof.
    intros HR HI Hvt Hsz. induction f as [|f IH]; intros lf s i Is Hlf Hi Hnf; (destruct lf as [|lf]; [lia|]);
      cbn [t_loop g_thrift_SkipDecoderTpl_Skip_loop3] in *.
    - destruct (N.eqb_spec (Z.to_N (sz - i)) 0) as [Hz|Hz]; [|exfalso; apply Hnf; reflexivity].
      destruct (Z.ltb_spec i sz); [lia|]. cbn [lsim]. do 3 f_equal. lia.
    - destruct (N.eqb_spec (Z.to_N (sz - i)) 0) as [Hz|Hz].
      { destruct (Z.ltb_spec i sz); [lia|]. cbn [lsim]. do 3 f_equal. lia. }
      destruct (Z.ltb_spec i sz); [|lia].
      pose proof (HR s vt Is Hvt) as R1. pose proof (HI s vt Is) as Is1.
      destruct (hrec s vt) as [s1 [u|e|w|]] eqn:Eh1; cbn [sbind ssim nofuel snd fst lsim] in *.
      2:{ rewrite R1 by exact Hnf. reflexivity. }
      2:{ destruct R1 as [w' R1]; [discriminate|]. rewrite R1. eexists; reflexivity. }
      2:{ rewrite R1 by discriminate. reflexivity. }
      rewrite R1 by discriminate. cbn [bind is_nil gnil negb].
      rewrite (wraps_id 32 (i + 1)) by (unfold in_s; lia).
      replace (Z.to_N (sz - i) - 1) with (Z.to_N (sz - (i + 1))) in * by lia.
      apply IH; [exact Is1|lia|lia|exact Hnf].
  Qed.

  (* ---------- the hand model preserves the invariant ---------- *)
  Lemma sbind_inv {A B} (m : sres St A) (f : St -> A -> sres St B) :
    Inv (fst m) -> (forall s a, Inv s -> Inv (fst (f s a))) -> Inv (fst (sbind m f)).
  Proof. destruct m as [s [a|e|w|]]; cbn [sbind fst]; auto. Qed.

  Lemma skipN_inv s n : Inv s -> Inv (fst (skipN s n)).
  Proof. intros H. destruct (skipN s n) as [s' r] eqn:E. exact (SN_inv _ _ _ _ H E). Qed.

  Lemma t_loop_inv body : (forall s, Inv s -> Inv (fst (body s))) ->
    forall f cnt s, Inv s -> Inv (fst (t_loop body f cnt s)).
  Proof.
    intros HB. induction f as [|f IH]; intros cnt s Is; cbn [t_loop]; destruct (cnt =? 0); try exact Is.
    apply sbind_inv; [apply HB, Is|]. intros s' _ Is'. apply IH, Is'.
  Qed.

  Lemma t_struct_loop_inv fld : keeps_inv fld -> forall f s, Inv s -> Inv (fst (t_struct_loop skipN fld f s)).
  Proof.
    intros HF. induction f as [|f IH]; intros s Is; cbn [t_struct_loop]; [exact Is|].
    apply sbind_inv; [apply skipN_inv, Is|]. intros s1 b Is1.
    apply sbind_inv; [exact Is1|]. intros s1' tp Is1'.
    destruct (is_ty tp thrift_STOP); [exact Is1'|].
    apply sbind_inv; [apply skipN_inv, Is1'|]. intros s2 _ Is2.
    apply sbind_inv; [apply HF, Is2|]. intros s3 _ Is3. apply IH, Is3.
  Qed.

  Lemma tskip_inv fu : forall d, keeps_inv (tskip skipN d fu).
  Proof.
    induction d as [|d IH]; intros s t Is; cbn [tskip]; [exact Is|].
    apply sbind_inv; [exact Is|]. intros s0 sz Is0.
    destruct (0 <? sz)%Z.
    { apply sbind_inv; [apply skipN_inv, Is0|]. intros; assumption. }
    destruct (is_ty t thrift_STRING).
    { apply sbind_inv; [apply skipN_inv, Is0|]. intros s1 b Is1.
      apply sbind_inv; [exact Is1|]. intros s1' u Is1'.
      destruct (i32 u <? 0)%Z; [exact Is1'|].
      apply sbind_inv; [apply skipN_inv, Is1'|]. intros; assumption. }
    destruct (is_ty t thrift_STRUCT).
    { apply (t_struct_loop_inv (fun s' tp => tskip skipN d fu s' tp)); [exact IH|exact Is0]. }
    destruct (is_ty t thrift_MAP).
    { apply sbind_inv; [apply skipN_inv, Is0|]. intros s1 b Is1.
      apply sbind_inv; [exact Is1|]. intros s1' [[kt vt] u] Is1'.
      destruct (i32 u <? 0)%Z; [exact Is1'|].
      apply sbind_inv; [exact Is1'|]. intros s2 ksz Is2.
      apply sbind_inv; [exact Is2|]. intros s3 vsz Is3.
      destruct ((0 <? ksz)%Z && (0 <? vsz)%Z).
      { apply sbind_inv; [apply skipN_inv, Is3|]. intros; assumption. }
      apply t_loop_inv; [|exact Is3]. intros s' Is'.
      apply sbind_inv; [apply IH, Is'|]. intros s'' _ Is''. apply IH, Is''. }
    destruct (is_ty t thrift_SET || is_ty t thrift_LIST).
    { apply sbind_inv; [apply skipN_inv, Is0|]. intros s1 b Is1.
      apply sbind_inv; [exact Is1|]. intros s1' [vt u] Is1'.
      destruct (i32 u <? 0)%Z; [exact Is1'|].
      apply sbind_inv; [exact Is1'|]. intros s2 vsz Is2.
      destruct (0 <? vsz)%Z.
      { apply sbind_inv; [apply skipN_inv, Is2|]. intros; assumption. }
      apply t_loop_inv; [|exact Is2]. intros s' Is'. apply IH, Is'. }
    exact Is0.
  Qed.

  Lemma mN_tail s n :
    (0 <= n)%Z ->
    ssim (do (v_p, _, t3) <- mN s n; Ok (v_p, t3)) (sbind (skipN s (Z.to_N n)) (fun s' _ => (s', Ok tt))).
  Proof.
    intros _. unfold mN. destruct (skipN s (Z.to_N n)) as [s1 [b|e|w|]]; cbn [sbind bind ssim]; try reflexivity.
    eexists; reflexivity.
  Qed.

  Theorem g_thrift_SkipDecoderTpl_Skip_sim : forall d rfuel fuel fu s t,
    Inv s -> (d < rfuel)%nat -> (fu < fuel)%nat -> (Z.of_nat d < 2 ^ 63)%Z -> t < 256 ->
    nofuel (tskip skipN d fu s t) ->
    ssim (g_thrift_SkipDecoderTpl_Skip St mN rfuel fuel thrift_typeToSize s (i8 t) (Z.of_nat d))
         (tskip skipN d fu s t).
  Proof.
    induction d as [|d IH]; intros rfuel fuel fu s t Is Hr Hfu Hd Ht Hnf; (destruct rfuel as [|rfuel]; [lia|]).
    { cbn [tskip g_thrift_SkipDecoderTpl_Skip]. reflexivity. }
    cbn [tskip g_thrift_SkipDecoderTpl_Skip] in *.
    destruct (Z.eqb_spec (Z.of_nat (S d)) 0) as [Hz|_]; [lia|].
    destruct (gtable_tts t Ht) as (z & Et & Eg & Hzr). rewrite Et in *. rewrite Eg.
    cbn [sret sbind bind] in *. rewrite Z.gtb_ltb.
    destruct (Z.ltb_spec 0 z) as [Hpos|Hnpos]; [apply mN_tail; lia|].
    assert (HR : rec_ok (g_thrift_SkipDecoderTpl_Skip St mN rfuel) (tskip skipN d fu) fuel (wraps 64 (Z.of_nat (S d) - 1))).
    { intros s' t' Is' Ht' Hnf'. rewrite wraps64_small by lia.
      replace (Z.of_nat (S d) - 1)%Z with (Z.of_nat d) by lia. apply IH; try assumption; lia. }
    pose proof (tskip_inv fu d) as HI.
    unfold is_ty in *.
    change thrift_STRING with 11%Z in *. change thrift_STRUCT with 12%Z in *. change thrift_MAP with 13%Z in *.
    change thrift_SET with 14%Z in *. change thrift_LIST with 15%Z in *.
    destruct (Z.eqb_spec (i8 t) 11) as [T11|T11].
    { (* STRING *)
      change (mN s 4) with (mN s (Z.of_N 4)). rewrite mN_eq.
      destruct (skipN s 4) as [s1 [b|e|w|]] eqn:E1; cbn [sbind sret bind is_nil gnil negb ssim] in *;
        try reflexivity; [|eexists; reflexivity].
      pose proof (gbe_load4_skip b (SN_wf _ _ _ _ Is E1)) as L.
      destruct (Skip.be_u32 b) as [u|e|w|]; cbn [sbind sret bind ssim] in *; try contradiction.
      2:{ destruct L as [w' L]. rewrite L. eexists; reflexivity. }
      destruct L as [L Hu]. rewrite L. cbn [bind]. rewrite wraps_ts32 by exact Hu. fold (i32 u).
      destruct (Z.ltb_spec (i32 u) 0) as [Hneg|Hneg]; [reflexivity|].
      unfold mN. destruct (skipN s1 (Z.to_N (i32 u))) as [s2 [b2|e|w|]]; cbn [sbind bind is_nil gnil negb ssim];
        try reflexivity. eexists; reflexivity. }
    destruct (Z.eqb_spec (i8 t) 12) as [T12|T12].
    { (* STRUCT *)
      change (t_struct_loop skipN (fun s' tp => tskip skipN d fu s' tp) fu s)
        with (t_struct_loop skipN (tskip skipN d fu) fu s) in *.
      pose proof (struct_loop_sim _ _ (S rfuel) fuel (Z.of_nat (S d)) HR HI fu fuel s Is Hfu Hnf) as L.
      destruct (t_struct_loop skipN (tskip skipN d fu) fu s) as [s' [u|e|w|]]; cbn [lsim ssim] in *.
      - rewrite L. reflexivity.
      - rewrite L. reflexivity.
      - destruct L as [w' L]. rewrite L. eexists; reflexivity.
      - rewrite L. reflexivity. }
    destruct (Z.eqb_spec (i8 t) 13) as [T13|T13].
    { (* MAP *)
      change (mN s 6) with (mN s (Z.of_N 6)). rewrite mN_eq.
      destruct (skipN s 6) as [s1 [b|e|w|]] eqn:E1; cbn [sbind sret bind is_nil gnil negb ssim] in *;
        try reflexivity; [|eexists; reflexivity].
      pose proof (SN_wf _ _ _ _ Is E1) as Wb. pose proof (SN_inv _ _ _ _ Is E1) as Is1.
      change (gindex b 0) with (do x <- index b 0; Ok (Z.of_N x)).
      change (gindex b 1) with (do x <- index b 1; Ok (Z.of_N x)).
      change (gslice_from b 2) with (slice_from b 2).
      destruct (index b 0) as [kt|e|w|] eqn:Ek; cbn [sbind sret bind ssim] in *;
        [|exfalso; exact (index_not_err _ _ _ Ek)|eexists; reflexivity|reflexivity].
      destruct (index b 1) as [vt|e|w|] eqn:Ev; cbn [sbind sret bind ssim] in *;
        [|exfalso; exact (index_not_err _ _ _ Ev)|eexists; reflexivity|reflexivity].
      pose proof (index_wf b 0 kt Wb Ek) as Hkt. pose proof (index_wf b 1 vt Wb Ev) as Hvt.
      unfold slice_from in *. destruct (N.leb_spec 2 (len b)) as [Hl2|Hl2]; cbn [sbind sret bind ssim] in *;
        [|eexists; reflexivity].
      pose proof (gbe_load4_skip (drop 2 b) (wf_drop 2 b Wb)) as L.
      destruct (Skip.be_u32 (drop 2 b)) as [u|e|w|]; cbn [sbind sret bind ssim] in *; try contradiction.
      2:{ destruct L as [w' L]. rewrite L. eexists; reflexivity. }
      destruct L as [L Hu]. rewrite L. cbn [bind].
      rewrite !wraps8_i8 by assumption. rewrite wraps_ts32 by exact Hu. fold (i32 u).
      pose proof (i32_range u Hu) as Hsz.
      destruct (Z.ltb_spec (i32 u) 0) as [Hneg|Hneg]; [reflexivity|].
      destruct (gtable_tts kt Hkt) as (ksz & Etk & Egk & Hkr). destruct (gtable_tts vt Hvt) as (vsz & Etv & Egv & Hvr).
      rewrite Etk, Etv in *. rewrite Egk, Egv. cbn [sbind sret bind] in *. rewrite !Z.gtb_ltb.
      destruct ((0 <? ksz)%Z && (0 <? vsz)%Z) eqn:Efast.
      { rewrite (wraps64_small (ksz + vsz)) by lia. rewrite wraps64_small by nia. apply mN_tail. nia. }
      pose proof (map_loop_sim _ _ (S rfuel) fuel (Z.of_nat (S d)) kt vt (i32 u) HR HI Hkt Hvt ltac:(lia) fu fuel s1 0%Z Is1 Hfu ltac:(lia)) as LL.
      rewrite Z.sub_0_r in LL. specialize (LL Hnf).
      destruct (t_loop (fun s' => sbind (tskip skipN d fu s' kt) (fun s'' _ => tskip skipN d fu s'' vt)) fu (Z.to_N (i32 u)) s1)
        as [s' [u'|e|w|]]; cbn [lsim ssim] in *.
      - rewrite LL. reflexivity.
      - rewrite LL. reflexivity.
      - destruct LL as [w' LL]. rewrite LL. eexists; reflexivity.
      - rewrite LL. reflexivity. }
    destruct (Z.eqb_spec (i8 t) 14) as [T14|T14]; destruct (Z.eqb_spec (i8 t) 15) as [T15|T15]; cbn [orb] in *.
    4:{ reflexivity. }
    all: (* SET, LIST *)
      change (mN s 5) with (mN s (Z.of_N 5)); rewrite mN_eq;
      destruct (skipN s 5) as [s1 [b|e|w|]] eqn:E1; cbn [sbind sret bind is_nil gnil negb ssim] in *;
        try reflexivity; [|eexists; reflexivity];
      pose proof (SN_wf _ _ _ _ Is E1) as Wb; pose proof (SN_inv _ _ _ _ Is E1) as Is1;
      change (gindex b 0) with (do x <- index b 0; Ok (Z.of_N x));
      change (gslice_from b 1) with (slice_from b 1);
      (destruct (index b 0) as [vt|e|w|] eqn:Ev; cbn [sbind sret bind ssim] in *;
        [|exfalso; exact (index_not_err _ _ _ Ev)|eexists; reflexivity|reflexivity]);
      pose proof (index_wf b 0 vt Wb Ev) as Hvt;
      unfold slice_from in *; (destruct (N.leb_spec 1 (len b)) as [Hl2|Hl2]; cbn [sbind sret bind ssim] in *;
        [|eexists; reflexivity]);
      pose proof (gbe_load4_skip (drop 1 b) (wf_drop 1 b Wb)) as L;
      (destruct (Skip.be_u32 (drop 1 b)) as [u|e|w|]; cbn [sbind sret bind ssim] in *; try contradiction;
       [|destruct L as [w' L]; rewrite L; eexists; reflexivity]);
      destruct L as [L Hu]; rewrite L; cbn [bind];
      rewrite !wraps8_i8 by assumption; rewrite wraps_ts32 by exact Hu; fold (i32 u);
      pose proof (i32_range u Hu) as Hsz;
      (destruct (Z.ltb_spec (i32 u) 0) as [Hneg|Hneg]; [reflexivity|]);
      destruct (gtable_tts vt Hvt) as (vsz & Etv & Egv & Hvr);
      rewrite Etv in *; rewrite Egv; cbn [sbind sret bind] in *; rewrite !Z.gtb_ltb;
      (destruct (Z.ltb_spec 0 vsz) as [Hfast|Hfast]; [rewrite wraps64_small by nia; apply mN_tail; nia|]);
      pose proof (list_loop_sim _ _ (S rfuel) fuel (Z.of_nat (S d)) vt (i32 u) HR HI Hvt ltac:(lia) fu fuel s1 0%Z Is1 Hfu ltac:(lia)) as LL;
      rewrite Z.sub_0_r in LL; specialize (LL Hnf);
      (destruct (t_loop (fun s' => tskip skipN d fu s' vt) fu (Z.to_N (i32 u)) s1) as [s' [u'|e|w|]]; cbn [lsim ssim] in *;
       [rewrite LL; reflexivity|rewrite LL; reflexivity|destruct LL as [w' LL]; rewrite LL; eexists; reflexivity|rewrite LL; reflexivity]).
  Qed.
End Tpl.
