(* Proofs/SpanThm.v — the C16 statements, derived from Proofs/SpanP.v. *)
From GV Require Import Lib.Bytes Lib.Res Lib.Heap Gen.Consts Model.Binary Model.Unsafex Model.BufReader Model.Span Spec.Indep Proofs.SpanHeap Proofs.SpanP.
From Coq Require Import ZifyN ZifyNat ZifyBool Lia.
Open Scope N_scope.

(* a is a part of b *)
Definition sub_region (a b : region) : Prop :=
  r_blk a = r_blk b /\ r_off b <= r_off a /\ r_off a + r_ext a <= r_off b + r_ext b.

Lemma rdisj_sub a a' b : rdisj a b -> sub_region a' a -> rdisj a' b.
Proof. unfold rdisj, sub_region. intros H [H1 [H2 H3]]. rewrite H1. lia. Qed.

Lemma sub_region_refl a : sub_region a a.
Proof. unfold sub_region. lia. Qed.

Lemma region_eta R : {| r_blk := r_blk R; r_off := r_off R; r_ext := r_ext R |} = R.
Proof. destruct R; reflexivity. Qed.

Lemma placed_slice_region b R :
  sptr b = Some (r_blk R, r_off R) -> r_ext R = scap b -> slice_region b = Some R.
Proof. intros Hp He. unfold slice_region. rewrite Hp, <- He. now rewrite region_eta. Qed.

Lemma slice_region_inv b R :
  slice_region b = Some R -> r_ext R = scap b /\ sptr b = Some (r_blk R, r_off R).
Proof.
  unfold slice_region. destruct (sptr b) as [[bb oo]|]; [|discriminate].
  intros E. inversion E; subst R. split; reflexivity.
Qed.

(* appending never changes the slice appended to (it writes behind len or moves) *)
Lemma go_append_self h s x nc h' s' :
  go_append h s x nc = (h', s') -> slice_valid h s -> slice_bytes h' s = slice_bytes h s.
Proof.
  intros E [Hlc Hv]. unfold go_append in E. unfold slice_bytes.
  destruct (sptr s) as [[b o]|] eqn:Hp; [|reflexivity]. destruct Hv as [Hb Hin].
  destruct (N.leb_spec (slen s + len x) (scap s)) as [Hfit|Hno].
  - remember (write h (b, o + slen s) x) as hw eqn:Ehw. inversion E; subst h' s'; clear E. subst hw.
    change (read ?hh (Some (b, o)) (slen s)) with (region_bytes hh {| r_blk := b; r_off := o; r_ext := slen s |}).
    apply write_frame; [lia|]. unfold rdisj. cbn [r_blk r_off r_ext]. lia.
  - unfold alloc in E. inversion E; subst h' s'; clear E. unfold read. now rewrite block_app_old.
Qed.

(* ================= ReadBinary ================= *)
Section Binary.
  Variables (enable : bool) (h : heap) (c : cache) (inp : gslice) (ct : bool) (capo : N) (dirt : bytes).
  Variables (h' : heap) (c' : cache) (b : gslice) (l : N).
  Hypothesis Hinv : hinv h c.
  Hypothesis Hinp : slice_valid h inp.
  Hypothesis Hint : go_int (Z.of_N (slen inp)).
  Hypothesis Hrun : read_binary enable h c inp ct capo dirt = Ok (h', c', b, l).

  Lemma rb_facts :
    exists v R,
      r_binary (slice_bytes h inp) = Ok (v, l) /\ slice_bytes h' b = v /\ slen b = len v /\
      slen b <= scap b /\ (enable = true -> scap b = slen b) /\
      slice_region b = Some R /\ sptr b = Some (r_blk R, r_off R) /\
      hinv h' c' /\ (length h <= length h')%nat /\ region_valid h' R /\ allocd c' R /\
      (forall X, region_valid h X -> allocd c X ->
         rdisj R X /\ allocd c' X /\ region_valid h' X /\ region_bytes h' X = region_bytes h X).
  Proof.
    pose proof (read_binary_spec enable h c inp ct capo dirt Hinv Hinp Hint) as S.
    rewrite Hrun in S. destruct S as [v [E [Hl [Hlc [Hen [Hi' [Hlen [Hrd [R [Hp [He [Hv [Ha HX]]]]]]]]]]]]].
    exists v, R. repeat (split; [assumption|]).
    split; [now apply placed_slice_region|]. repeat (split; [assumption|]). assumption.
  Qed.

  (* the result is fresh: its capacity region is disjoint from every region that was allocated
     before the call — the input's region and every earlier result's region among them (also an
     input that is itself an earlier result inside a span block) — and the invariant is
     re-established, so the same holds for every later call *)
  Lemma result_fresh_binary :
    exists R, slice_region b = Some R /\ region_valid h' R /\ hinv h' c' /\ allocd c' R /\
      (forall Ri, slice_region inp = Some Ri -> allocd c Ri -> rdisj R Ri) /\
      (forall X, region_valid h X -> allocd c X -> rdisj R X /\ region_valid h' X /\ allocd c' X).
  Proof.
    destruct rb_facts as [v [R [_ [_ [_ [_ [_ [HR [_ [Hi' [_ [Hv [Ha HX]]]]]]]]]]]]].
    exists R. repeat (split; [assumption|]). split.
    - intros Ri HRi Hal. apply HX; [|assumption]. eapply slice_valid_region; eassumption.
    - intros X H1 H2. destruct (HX X H1 H2) as [A [B [C _]]]. auto.
  Qed.

  (* the value: what the value-level reader of Model/Binary.v returns, whatever the setting *)
  Lemma value_binary : r_binary (slice_bytes h inp) = Ok (slice_bytes h' b, l).
  Proof. destruct rb_facts as [v [R [E [Hv _]]]]. now rewrite Hv. Qed.

  (* with the span cache on: cap = len *)
  Lemma span_cap_eq_len : enable = true -> scap b = slen b.
  Proof. destruct rb_facts as [v [R [_ [_ [_ [_ [H _]]]]]]]. exact H. Qed.

  (* the decode did not change the input or any earlier result *)
  Lemma decode_keeps_old X : region_valid h X -> allocd c X -> region_bytes h' X = region_bytes h X.
  Proof.
    intros H1 H2. destruct rb_facts as [v [R [_ [_ [_ [_ [_ [_ [_ [_ [_ [_ [_ HX]]]]]]]]]]]]].
    now destruct (HX X H1 H2) as [_ [_ [_ E]]].
  Qed.

  (* overwriting / reusing the input buffer (or any memory allocated before the call, e.g. an
     earlier result) afterwards does not change the returned value *)
  Lemma mutate_input_noeffect_binary X o w :
    region_valid h X -> allocd c X -> r_off X <= o -> o + len w <= r_off X + r_ext X ->
    slice_bytes (write h' (r_blk X, o) w) b = slice_bytes h' b.
  Proof.
    intros H1 H2 Ho Hw.
    destruct rb_facts as [v [R [_ [_ [_ [Hlc [_ [HR [Hp [_ [_ [Hv [_ HX]]]]]]]]]]]]].
    destruct (HX X H1 H2) as [Hd [_ [[HXb HXfit] _]]].
    destruct (slice_region_inv b R HR) as [He _].
    unfold slice_bytes. rewrite Hp.
    change (read ?hh (Some (r_blk R, r_off R)) (slen b))
      with (region_bytes hh {| r_blk := r_blk R; r_off := r_off R; r_ext := slen b |}).
    apply write_frame; [lia|].
    apply rdisj_sym. eapply rdisj_sub; [|unfold sub_region; cbn [r_blk r_off r_ext]; split; [reflexivity|lia]].
    apply rdisj_sym. eapply rdisj_sub; [apply rdisj_sym; exact Hd|].
    unfold sub_region. cbn [r_blk r_off r_ext]. lia.
  Qed.

  (* appending to the result, or writing through it, changes neither the input nor any other
     value: every region disjoint from the result's region (by [result_fresh_binary]: the input,
     every earlier result; by the same theorem for later calls: every later result) keeps its
     bytes; the result itself keeps its bytes under append *)
  Lemma append_noeffect_binary x nc h'' b2 :
    go_append h' b x nc = (h'', b2) ->
    (forall X, region_valid h X -> allocd c X -> region_bytes h'' X = region_bytes h X) /\
    (forall R Y, slice_region b = Some R -> (r_blk Y < length h')%nat -> rdisj R Y ->
                 region_bytes h'' Y = region_bytes h' Y) /\
    slice_bytes h'' b = slice_bytes h' b /\
    slice_bytes h'' b2 = slice_bytes h' b ++ x /\
    (enable = true -> x <> [] -> forall k, (k < length h')%nat -> block h'' k = block h' k).
  Proof.
    intros E.
    destruct rb_facts as [v [R [_ [_ [_ [Hlc [Hen [HR [Hp [_ [Hlen [Hv [_ HX]]]]]]]]]]]]].
    destruct (slice_region_inv b R HR) as [He _].
    assert (Hsv : slice_valid h' b).
    { split; [assumption|]. rewrite Hp. destruct Hv as [Hb Hfit]. split; [assumption|]. lia. }
    destruct (go_append_frame _ _ _ _ _ _ R E Hsv HR) as [Hfr [Hl2 Hbl]].
    split; [|split; [|split; [|split]]].
    - intros X H1 H2. destruct (HX X H1 H2) as [Hd [_ [[HXb _] Eq]]].
      rewrite <- Eq. now apply Hfr.
    - intros R0 Y HR0 HY Hd. rewrite HR in HR0. inversion HR0; subst R0. now apply Hfr.
    - eapply go_append_self; eassumption.
    - eapply go_append_content; [eassumption|assumption|]. intros Hn. rewrite Hp in Hn. discriminate.
    - intros Hon Hx. eapply (proj1 (go_append_full_moves _ _ _ _ _ _ E (Hen Hon) Hx)).
  Qed.

  Lemma write_through_noeffect_binary o w Y R :
    slice_region b = Some R -> o + len w <= slen b -> rdisj R Y ->
    region_bytes (write h' (r_blk R, r_off R + o) w) Y = region_bytes h' Y.
  Proof.
    intros HR0 Ho Hd.
    destruct rb_facts as [v [R' [_ [_ [_ [Hlc [_ [HR [Hp [_ [_ [[Hb Hfit] _]]]]]]]]]]]].
    rewrite HR in HR0. inversion HR0; subst R'.
    destruct (slice_region_inv b R HR) as [He _].
    apply write_frame; [lia|]. eapply rdisj_sub; [exact Hd|].
    unfold sub_region. cbn [r_blk r_off r_ext]. lia.
  Qed.
End Binary.

(* values are the same with the span cache on and off (any oracle choices) *)
Definition value_of (r : res (heap * cache * gslice * N)) : res (bytes * N) :=
  match r with
  | Ok (h', _, b, l) => Ok (slice_bytes h' b, l)
  | Err e => Err e
  | Panic w => Panic w
  | OOB => OOB
  end.

Lemma value_of_binary enable h c inp ct capo dirt :
  hinv h c -> slice_valid h inp -> go_int (Z.of_N (slen inp)) ->
  value_of (read_binary enable h c inp ct capo dirt) = r_binary (slice_bytes h inp).
Proof.
  intros H1 H2 H3. pose proof (read_binary_spec enable h c inp ct capo dirt H1 H2 H3) as S.
  destruct (read_binary enable h c inp ct capo dirt) as [[[[h' c'] b] l]|e|w|] eqn:E; cbn [rb_post value_of] in *.
  - symmetry. eapply value_binary; eassumption.
  - now symmetry.
  - contradiction.
  - contradiction.
Qed.

Lemma span_on_off_equal_binary h c inp ct1 capo1 dirt1 ct2 capo2 dirt2 :
  hinv h c -> slice_valid h inp -> go_int (Z.of_N (slen inp)) ->
  value_of (read_binary true h c inp ct1 capo1 dirt1) = value_of (read_binary false h c inp ct2 capo2 dirt2).
Proof. intros. now rewrite !value_of_binary. Qed.

(* ================= the static table survives every decode ================= *)
Lemma allocd_sub c a a' : allocd c a -> sub_region a' a -> allocd c a'.
Proof.
  unfold allocd, sub_region. intros H [H1 [H2 H3]]. eapply Forall_impl; [|exact H].
  cbn beta. intros sp Hs. rewrite H1. lia.
Qed.

Lemma region_valid_sub h a a' : region_valid h a -> sub_region a' a -> region_valid h a'.
Proof. unfold region_valid, sub_region. intros [H1 H2] [E [H3 H4]]. rewrite E. split; [assumption|lia]. Qed.

Lemma placed_static h h' c c' p ln cp v sb :
  placed h h' c c' p ln cp v -> static_ok h c sb -> static_ok h' c' sb.
Proof.
  intros [_ [_ [_ [R [_ [_ [_ [_ HX]]]]]]]] [H1 [H2 H3]].
  destruct (HX _ H1 H2) as [_ [A [B C]]]. repeat split; try assumption; try apply B. now rewrite C.
Qed.

Lemma read_binary_static enable h c inp ct capo dirt h' c' b l sb :
  hinv h c -> slice_valid h inp -> go_int (Z.of_N (slen inp)) ->
  read_binary enable h c inp ct capo dirt = Ok (h', c', b, l) ->
  static_ok h c sb -> static_ok h' c' sb.
Proof.
  intros H1 H2 H3 E. pose proof (read_binary_spec enable h c inp ct capo dirt H1 H2 H3) as S.
  rewrite E in S. destruct S as [v [_ [_ [_ [_ P]]]]]. eapply placed_static; eassumption.
Qed.

Lemma r_binary_gen_wf e buf v l : r_binary_gen e buf = Ok (v, l) -> wf buf -> wf v.
Proof.
  rewrite <- rb_header_binary. intros E Hw. destruct (rb_header_ok _ _ _ _ E) as [_ [_ Ev]].
  rewrite Ev. now apply wf_take, wf_drop.
Qed.

(* ================= ReadString ================= *)
Section String.
  Variables (enable : bool) (sb : nat) (h : heap) (c : cache) (inp : gslice) (ct static : bool) (dirt : bytes).
  Variables (h' : heap) (c' : cache) (s : gstring) (l : N).
  Hypothesis Hinv : hinv h c.
  Hypothesis Hinp : slice_valid h inp.
  Hypothesis Hint : go_int (Z.of_N (slen inp)).
  Hypothesis Hst : static_ok h c sb.
  Hypothesis Hwf : wf (slice_bytes h inp).
  Hypothesis Hrun : read_string enable sb h c inp ct static dirt = Ok (h', c', s, l).

  Lemma rs_facts :
    exists v,
      r_string (slice_bytes h inp) = Ok (v, l) /\ string_bytes h' s = v /\ tlen s = len v /\
      hinv h' c' /\ static_ok h' c' sb /\ (length h <= length h')%nat /\
      (forall X, region_valid h X -> allocd c X ->
         allocd c' X /\ region_valid h' X /\ region_bytes h' X = region_bytes h X) /\
      (forall R, string_region s = Some R ->
         region_valid h' R /\ allocd c' R /\
         forall X, region_valid h X -> allocd c X -> r_blk X <> sb -> rdisj R X).
  Proof.
    pose proof (read_string_spec enable sb h c inp ct static dirt Hinv Hinp Hint Hst Hwf) as S.
    rewrite Hrun in S. destruct S as [v [E [Hl [P|[-> [-> [Hb Hp]]]]]]].
    - exists v. pose proof (placed_static _ _ _ _ _ _ _ _ sb P Hst) as Hst'.
      destruct P as [Hi' [Hlen [Hrd [R [Hp [He [Hv [Ha HX]]]]]]]].
      split; [assumption|]. split; [exact Hrd|]. split; [assumption|]. split; [assumption|].
      split; [assumption|]. split; [assumption|]. split.
      + intros X H1 H2. destruct (HX X H1 H2) as [_ [A [B C]]]. auto.
      + intros R0 HR0. unfold string_region in HR0. rewrite Hp in HR0. inversion HR0; subst R0; clear HR0.
        rewrite <- He, region_eta. split; [assumption|]. split; [assumption|].
        intros X H1 H2 _. now destruct (HX X H1 H2).
    - exists v. split; [assumption|]. split; [assumption|]. split; [assumption|].
      split; [assumption|]. split; [assumption|]. split; [lia|]. split; [auto|].
      intros R HR. unfold string_region in HR. destruct Hp as [Hp|[x [Ev Hp]]]; rewrite Hp in HR; [discriminate|].
      inversion HR; subst R; clear HR.
      assert (Hx : x < 256).
      { assert (Hw : wf v).
        { eapply r_binary_gen_wf; [exact E|exact Hwf]. }
        rewrite Ev in Hw. inversion Hw; assumption. }
      assert (Hsub : sub_region {| r_blk := sb; r_off := 8 * x; r_ext := tlen s |} (static_region sb)).
      { unfold sub_region, static_region. cbn [r_blk r_off r_ext]. rewrite Hl, Ev. change (len [x]) with 1. lia. }
      destruct Hst as [S1 [S2 S3]].
      split; [eapply region_valid_sub; eassumption|]. split; [eapply allocd_sub; eassumption|].
      intros X _ _ Hne. left. cbn [r_blk]. congruence.
  Qed.
End String.

Section String2.
  Variables (enable : bool) (sb : nat) (h : heap) (c : cache) (inp : gslice) (ct static : bool) (dirt : bytes).
  Variables (h' : heap) (c' : cache) (s : gstring) (l : N).
  Hypothesis Hinv : hinv h c.
  Hypothesis Hinp : slice_valid h inp.
  Hypothesis Hint : go_int (Z.of_N (slen inp)).
  Hypothesis Hst : static_ok h c sb.
  Hypothesis Hwf : wf (slice_bytes h inp).
  Hypothesis Hrun : read_string enable sb h c inp ct static dirt = Ok (h', c', s, l).

  Lemma value_string : r_string (slice_bytes h inp) = Ok (string_bytes h' s, l).
  Proof.
    destruct (rs_facts enable sb h c inp ct static dirt h' c' s l Hinv Hinp Hint Hst Hwf Hrun)
      as [v [E [Hv _]]]. now rewrite Hv.
  Qed.

  (* writes into memory allocated before the call (outside the read-only table) never change
     the returned string *)
  Lemma mutate_input_noeffect_string X o w :
    region_valid h X -> allocd c X -> r_blk X <> sb -> r_off X <= o -> o + len w <= r_off X + r_ext X ->
    string_bytes (write h' (r_blk X, o) w) s = string_bytes h' s.
  Proof.
    intros H1 H2 Hne Ho Hw.
    destruct (rs_facts enable sb h c inp ct static dirt h' c' s l Hinv Hinp Hint Hst Hwf Hrun)
      as [v [_ [_ [_ [_ [_ [_ [HX HR]]]]]]]].
    destruct (HX X H1 H2) as [_ [[HXb HXfit] _]].
    unfold string_bytes. destruct (tptr s) as [[bb oo]|] eqn:Hp; [|reflexivity].
    destruct (HR {| r_blk := bb; r_off := oo; r_ext := tlen s |}) as [_ [_ Hd]].
    { unfold string_region. now rewrite Hp. }
    change (read ?hh (Some (bb, oo)) (tlen s))
      with (region_bytes hh {| r_blk := bb; r_off := oo; r_ext := tlen s |}).
    apply write_frame; [lia|].
    eapply rdisj_sub; [apply rdisj_sym; apply (Hd X H1 H2 Hne)|].
    unfold sub_region. cbn [r_blk r_off r_ext]. lia.
  Qed.
End String2.

Definition value_of_s (r : res (heap * cache * gstring * N)) : res (bytes * N) :=
  match r with
  | Ok (h', _, s, l) => Ok (string_bytes h' s, l)
  | Err e => Err e
  | Panic w => Panic w
  | OOB => OOB
  end.

Lemma value_of_string enable sb h c inp ct static dirt :
  hinv h c -> slice_valid h inp -> go_int (Z.of_N (slen inp)) -> static_ok h c sb -> wf (slice_bytes h inp) ->
  value_of_s (read_string enable sb h c inp ct static dirt) = r_string (slice_bytes h inp).
Proof.
  intros H1 H2 H3 H4 H5.
  pose proof (read_string_spec enable sb h c inp ct static dirt H1 H2 H3 H4 H5) as S.
  destruct (read_string enable sb h c inp ct static dirt) as [[[[h' c'] s] l]|e|w|] eqn:E; cbn [rs_post value_of_s] in *.
  - symmetry. eapply value_string; eassumption.
  - now symmetry.
  - contradiction.
  - contradiction.
Qed.

Lemma span_on_off_equal_string sb h c inp ct1 st1 dirt1 ct2 st2 dirt2 :
  hinv h c -> slice_valid h inp -> go_int (Z.of_N (slen inp)) -> static_ok h c sb -> wf (slice_bytes h inp) ->
  value_of_s (read_string true sb h c inp ct1 st1 dirt1) = value_of_s (read_string false sb h c inp ct2 st2 dirt2).
Proof. intros. now rewrite !value_of_string. Qed.

(* ================= the stream reader ================= *)
(* BufferReader.ReadBinary always returns a brand-new block with cap = len: no existing block
   changes, the bytes read are at its start *)
Lemma stream_read_binary_spec h st dirt st' h' b e :
  stream_read_binary h st dirt = (st', Ok (h', b, e)) ->
  sptr b = Some (length h, 0) /\ scap b = slen b /\ length h' = S (length h) /\
  len (block h' (length h)) = slen b /\
  (forall k, (k < length h)%nat -> block h' k = block h k) /\
  exists m bs st1,
    r_readbinary st1 (slen b) = (st', ORead m bs e) /\ len bs <= slen b /\
    take (len bs) (slice_bytes h' b) = bs.
Proof.
  unfold stream_read_binary, sr_plan_binary.
  destruct (sr_read_i32 st) as [st1 r] eqn:E1.
  destruct r as [sz|e1|w|]; try (intros E; inversion E; fail).
  destruct (Z.ltb_spec sz 0); [intros E; inversion E|].
  rewrite dirtmake_ok by lia.
  destruct (r_readbinary st1 (Z.to_N sz)) as [st2 o] eqn:E2.
  assert (Ho : exists m bs e', o = ORead m bs e' /\ len bs <= Z.to_N sz).
  { unfold r_readbinary in E2. destruct (acquire st1 (Z.to_N sz)) as [sa m]. inversion E2; subst.
    do 3 eexists. split; [reflexivity|]. pose proof (len_take_le (win sa) (N.min m (Z.to_N sz))). lia. }
  destruct Ho as [m [bs [e' [-> Hbs]]]].
  cbn [bind].
  match goal with |- (_, Ok (?x, _, _)) = _ -> _ => remember x as hh eqn:Ehh end.
  intros E. inversion E; subst st' h' b e; clear E.
  cbn [sptr slen scap apply_alloc store] in Ehh |- *. subst hh.
  set (h1 := h ++ [fit (Z.to_N sz) dirt]).
  assert (Hb1 : block h1 (length h) = fit (Z.to_N sz) dirt) by apply block_app_new.
  assert (Hl1 : (length h < length h1)%nat) by (unfold h1; rewrite app_length; cbn; lia).
  assert (Hw : 0 + len bs <= len (block h1 (length h))) by (rewrite Hb1, fit_len; lia).
  split; [reflexivity|]. split; [reflexivity|].
  split; [rewrite write_length; unfold h1; rewrite app_length; cbn; lia|].
  split; [rewrite write_block_len by assumption; now rewrite Hb1, fit_len|].
  split.
  { intros k Hk. rewrite write_block_ne by lia. unfold h1. now apply block_app_old. }
  exists m, bs, st1. split; [assumption|]. split; [assumption|].
  unfold slice_bytes. cbn [sptr slen]. unfold read.
  rewrite write_block_eq by assumption. rewrite drop_0.
  unfold take at 1 2. rewrite firstn_firstn.
  replace (Nat.min (N.to_nat (len bs)) (N.to_nat (Z.to_N sz))) with (N.to_nat (len bs)) by lia.
  pose proof (splice_window_self (block h1 (length h)) 0 bs Hw) as Hs. now rewrite drop_0 in Hs.
Qed.

