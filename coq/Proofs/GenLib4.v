(* Proofs/GenLib4.v — lemmas about the phase-4 additions of Lib/GoSem.v (slices with capacity, the
   [][]byte lists, array leaves) shared by Proofs/GenEquivBufReader.v and GenEquivBufWriter.v.
   Independent of Gen/Funcs.v and of the models. *)
From GV Require Import Lib.Bytes Lib.Res Lib.GoSem Proofs.BufReaderLib Proofs.GenLib Proofs.GenLib3.
From Coq Require Import ZifyN ZifyNat ZifyBool.
Open Scope Z_scope.

(* a pointer receiver that is not nil *)
Lemma gptr_check_false : gptr_check false = Ok tt. Proof. reflexivity. Qed.
Lemma gptr_set_false {A} (x : A) : gptr_set false x = Ok x. Proof. reflexivity. Qed.

Lemma glen_nonneg {A} (l : list A) : 0 <= glen l. Proof. unfold glen. lia. Qed.
Lemma glen_N {A} (l : list A) : Z.to_N (glen l) = len l. Proof. unfold glen. lia. Qed.

Lemma if_same_fun {A B} (c : bool) (a b x : A) (K : A -> B) :
  (if c then a else b) = x -> (if c then K a else K b) = K x.
Proof. destruct c; intros <-; reflexivity. Qed.

(* ---------- slices with capacity ---------- *)
(* well-formed: 0 <= len <= cap *)
Definition cs_wf (s : gcslice) : Prop := 0 <= gcs_len s <= gcs_cap s.

Lemma cs_wf_nil : cs_wf gcs_nil. Proof. unfold cs_wf. cbn. lia. Qed.
Lemma gcs_cap_nonneg s : 0 <= gcs_cap s. Proof. apply glen_nonneg. Qed.

Lemma gcs_cap_mem s : gcs_cap s = Z.of_N (len (gcs_mem s)). Proof. reflexivity. Qed.

Lemma len_gcs_bytes s : cs_wf s -> len (gcs_bytes s) = Z.to_N (gcs_len s).
Proof.
  unfold cs_wf, gcs_bytes, gcs_cap, glen. intros H. rewrite len_take. lia.
Qed.

Lemma gcs_slice_ok s lo hi : 0 <= lo <= hi -> hi <= gcs_cap s ->
  gcs_slice s lo hi = Ok (match s with None => None | Some (m, _) => Some (drop (Z.to_N lo) m, hi - lo) end).
Proof.
  intros H1 H2. unfold gcs_slice.
  destruct (Z.ltb_spec lo 0); [lia|]. destruct (Z.ltb_spec hi lo); [lia|].
  destruct (Z.ltb_spec (gcs_cap s) hi); [lia|]. cbn [orb]. destruct s as [[m l]|]; reflexivity.
Qed.

(* the slice as (is_nil, mem, len) *)
Lemma gcs_slice_some m l lo hi : 0 <= lo <= hi -> hi <= glen m ->
  gcs_slice (Some (m, l)) lo hi = Ok (Some (drop (Z.to_N lo) m, hi - lo)).
Proof. intros H1 H2. rewrite gcs_slice_ok; [reflexivity|exact H1|exact H2]. Qed.

Lemma gcs_cap_some m l : gcs_cap (Some (m, l)) = glen m. Proof. reflexivity. Qed.
Lemma gcs_len_some m l : gcs_len (Some (m, l)) = l. Proof. reflexivity. Qed.
Lemma gcs_bytes_some m l : gcs_bytes (Some (m, l)) = take (Z.to_N l) m. Proof. reflexivity. Qed.

Lemma gcs_copy_some m l lo hi v : 0 <= lo <= hi -> hi <= glen m ->
  gcs_copy (Some (m, l)) lo hi v =
  Ok (Some ((take (Z.to_N lo) m ++ take (N.min (len v) (Z.to_N (hi - lo))) v ++
             drop (Z.to_N lo + N.min (len v) (Z.to_N (hi - lo))) m)%list, l),
      Z.of_N (N.min (len v) (Z.to_N (hi - lo)))).
Proof.
  intros H1 H2. unfold gcs_copy. change (gcs_cap (Some (m, l))) with (glen m).
  destruct (Z.ltb_spec lo 0); [lia|]. destruct (Z.ltb_spec hi lo); [lia|].
  destruct (Z.ltb_spec (glen m) hi); [lia|]. reflexivity.
Qed.

(* storing k bytes at lo keeps the length of the backing array *)
Lemma len_splice3 (m v : bytes) (lo k : N) : (lo + k <= len m)%N -> (k <= len v)%N ->
  len (take lo m ++ take k v ++ drop (lo + k) m)%list = len m.
Proof.
  intros H1 H2. rewrite !len_app, !len_take, len_drop. lia.
Qed.

Lemma drop_take_comm {A} (i l : N) (m : list A) : (i <= l)%N -> drop i (take l m) = take (l - i) (drop i m).
Proof.
  intros H. unfold drop, take. replace (N.to_nat l) with (N.to_nat i + N.to_nat (l - i))%nat by lia.
  rewrite <- firstn_skipn_comm. reflexivity.
Qed.

Lemma gcopy_0 (buf v : bytes) :
  gcopy buf 0 v = Ok ((take (N.min (len v) (len buf)) v ++ drop (N.min (len v) (len buf)) buf)%list,
                      Z.of_N (N.min (len v) (len buf))).
Proof.
  unfold gcopy. change (0 <? 0) with false. change (Z.to_N 0) with 0%N. cbv iota.
  destruct (N.leb_spec 0 (len buf)); [|lia]. rewrite N.sub_0_r, N.add_0_l. reflexivity.
Qed.

(* ---------- [][]byte ---------- *)
Lemma gcsl_len_append l s : gcsl_len (gcsl_append l s) = gcsl_len l + 1.
Proof. unfold gcsl_len, gcsl_append, glen. cbn [gcsl_items]. rewrite len_app. cbn. lia. Qed.

Lemma Forall_firstn' {A} (P : A -> Prop) n l : Forall P l -> Forall P (firstn n l).
Proof. intros H. rewrite <- (firstn_skipn n l) in H. apply Forall_app in H. tauto. Qed.
Lemma Forall_skipn' {A} (P : A -> Prop) n l : Forall P l -> Forall P (skipn n l).
Proof. intros H. rewrite <- (firstn_skipn n l) in H. apply Forall_app in H. tauto. Qed.

(* ---------- array leaves ---------- *)
Lemma garr_set_ok a i x : 0 <= i < glen a ->
  garr_set a i x = Ok (firstn (Z.to_nat i) a ++ x :: skipn (S (Z.to_nat i)) a)%list.
Proof.
  intros H. unfold garr_set. destruct (Z.ltb_spec i 0); [lia|]. destruct (Z.leb_spec (glen a) i); [lia|]. reflexivity.
Qed.

(* ---------- signed 64-bit arithmetic that does not overflow ---------- *)
Lemma wraps64_id z : - 2 ^ 63 <= z < 2 ^ 63 -> wraps 64 z = z.
Proof. apply wraps64_small. Qed.

Ltac w64 := rewrite !wraps64_id by lia.
