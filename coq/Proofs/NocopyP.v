(* Proofs/NocopyP.v — the no-copy write path (C15) and the writer half of C11.

   The generated writers are sequences of four kinds of step (field header, i32, map header,
   string through WriteStringNocopy).  [mrun] folds the MODEL's own step functions over such a
   sequence, [prun] is the pure account of what the sequence does to (linear part, direct
   pieces); [mrun_ok] relates the two for every threshold, buffer and writer, and the splice
   algebra of NocopyLib turns the pure account into the stream. *)
From GV Require Import Lib.Bytes Lib.Res Gen.Consts Model.Binary Spec.Wire Model.Nocopy Spec.FastSpec
                       Proofs.BinaryP Proofs.NocopyLib.
From Coq Require Import ZifyN ZifyNat ZifyBool Permutation.
Open Scope N_scope.

Lemma nocopy_len_eq v :
  string_length_nocopy v = string_length v /\ binary_length_nocopy v = binary_length v /\
  string_length v = len (enc (IString v)) /\ binary_length v = len (enc (IBinary v)).
Proof.
  unfold string_length_nocopy, string_length, binary_length_nocopy, binary_length, enc.
  rewrite len_app, be_len. repeat split; lia.
Qed.

(* ---------- steps ---------- *)
Inductive mop : Type :=
| MH (tid : Z * Z)            (* field header *)
| MI (v : Z)                  (* i32 *)
| MM (kv : Z * Z) (n : N)     (* map header *)
| MS (v : bytes).             (* string through WriteStringNocopy *)

(* what a step contributes to the stream *)
Definition mop_bytes (o : mop) : bytes :=
  match o with
  | MH tid => [u8 (fst tid)] ++ be 2 (u16 (snd tid))
  | MI v => be 4 (u32 v)
  | MM kv n => [u8 (fst kv); u8 (snd kv)] ++ be 4 (n mod two32)
  | MS v => be 4 (len v mod two32) ++ v
  end.
Definition ops_bytes (ops : list mop) : bytes := concat (map mop_bytes ops).

Definition mstep (thr : Z) (s : wst) (o : mop) : res wst :=
  match o with
  | MH tid => st_hdr s tid
  | MI v => st_i32 s v
  | MM kv n => st_maphdr s kv n
  | MS v => st_str thr s v
  end.
Fixpoint mrun (thr : Z) (ops : list mop) (s : wst) : res wst :=
  match ops with
  | [] => Ok s
  | o :: r => do s' <- mstep thr s o; mrun thr r s'
  end.

Lemma mrun_app thr a b s : mrun thr (a ++ b) s = do s' <- mrun thr a s; mrun thr b s'.
Proof.
  revert s; induction a as [|o a IH]; intros s; cbn [mrun app bind]; [reflexivity|].
  destruct (mstep thr s o) as [s'| | |]; cbn [bind]; [apply IH|reflexivity..].
Qed.

(* does this string go to the direct writer? *)
Definition direct (thr : Z) (hw : bool) (v : bytes) : bool := hw && negb (Z.of_N (len v) <? thr)%Z.

Definition pstate := (bytes * list (bytes * N))%type.   (* linear part, pieces by linear position *)
Definition pstep (thr : Z) (hw : bool) (st : pstate) (o : mop) : pstate :=
  match o with
  | MS v =>
      if direct thr hw v
      then (fst st ++ be 4 (len v mod two32), snd st ++ [(v, len (fst st) + 4)])
      else (fst st ++ mop_bytes o, snd st)
  | _ => (fst st ++ mop_bytes o, snd st)
  end.
Definition prun (thr : Z) (hw : bool) (ops : list mop) (st : pstate) : pstate :=
  fold_left (pstep thr hw) ops st.

(* ---------- the pure account: linear part with the pieces inserted = the stream ---------- *)
Lemma pstep_stream thr hw st o :
  wfp 0 (len (fst st)) (snd st) ->
  wfp 0 (len (fst (pstep thr hw st o))) (snd (pstep thr hw st o)) /\
  ins (fst (pstep thr hw st o)) 0 (snd (pstep thr hw st o)) = ins (fst st) 0 (snd st) ++ mop_bytes o /\
  len (fst (pstep thr hw st o)) + pieces_len (snd (pstep thr hw st o)) =
  len (fst st) + pieces_len (snd st) + len (mop_bytes o).
Proof.
  intros H. destruct st as [lin pcs]. cbn [fst snd] in *.
  assert (Hgen : forall x, wfp 0 (len (lin ++ x)) pcs /\ ins (lin ++ x) 0 pcs = ins lin 0 pcs ++ x /\
                           len (lin ++ x) + pieces_len pcs = len lin + pieces_len pcs + len x).
  { intros x. split; [apply (wfp_mono _ (len lin)); [rewrite len_app; lia|exact H]|].
    split; [now apply ins_app|rewrite len_app; lia]. }
  destruct o as [tid|v|kv n|v]; cbn [pstep fst snd]; try apply Hgen.
  destruct (direct thr hw v); cbn [fst snd]; [|apply Hgen].
  destruct (Hgen (be 4 (len v mod two32))) as (G1 & G2 & G3).
  replace (len lin + 4) with (len (lin ++ be 4 (len v mod two32))) by (rewrite len_app, be_len; lia).
  split; [now apply wfp_snoc|]. split.
  - rewrite ins_snoc by exact G1. rewrite G2. cbn [mop_bytes]. now rewrite <- app_assoc.
  - rewrite pieces_len_app. unfold pieces_len at 2. cbn [fold_right fst mop_bytes].
    rewrite !len_app, be_len in *. lia.
Qed.

Lemma prun_stream thr hw ops st :
  wfp 0 (len (fst st)) (snd st) ->
  wfp 0 (len (fst (prun thr hw ops st))) (snd (prun thr hw ops st)) /\
  ins (fst (prun thr hw ops st)) 0 (snd (prun thr hw ops st)) = ins (fst st) 0 (snd st) ++ ops_bytes ops /\
  len (fst (prun thr hw ops st)) + pieces_len (snd (prun thr hw ops st)) =
  len (fst st) + pieces_len (snd st) + len (ops_bytes ops).
Proof.
  revert st; induction ops as [|o r IH]; intros st H; cbn [prun fold_left ops_bytes map concat].
  - rewrite app_nil_r. change (len (@nil N)) with 0. split; [exact H|]. split; [reflexivity|].
    now rewrite N.add_0_r.
  - destruct (pstep_stream thr hw st o H) as (H1 & H2 & H3).
    fold (prun thr hw r (pstep thr hw st o)). fold (ops_bytes r).
    destruct (IH (pstep thr hw st o) H1) as (I1 & I2 & I3).
    split; [exact I1|]. split.
    + rewrite I2. etransitivity; [apply (f_equal (fun x => x ++ ops_bytes r) H2)|]. now rewrite <- app_assoc.
    + rewrite len_app. etransitivity; [exact I3|]. etransitivity; [apply (f_equal (fun x => x + len (ops_bytes r)) H3)|]. lia.
Qed.

(* the pieces are exactly the strings at or above the threshold, in order *)
Definition op_strings (ops : list mop) : list bytes :=
  concat (map (fun o => match o with MS v => [v] | _ => [] end) ops).

Lemma prun_pieces thr hw ops st :
  map fst (snd (prun thr hw ops st)) =
  map fst (snd st) ++ (if hw then large thr (op_strings ops) else []).
Proof.
  revert st; induction ops as [|o r IH]; intros st; cbn [prun fold_left].
  - destruct hw; cbn [op_strings map concat large filter]; now rewrite app_nil_r.
  - fold (prun thr hw r (pstep thr hw st o)). rewrite IH.
    destruct o as [tid|v|kv n|v]; cbn [pstep snd op_strings map concat app]; try reflexivity.
    fold (op_strings r).
    unfold direct. destruct hw; cbn [andb snd].
    + unfold large. cbn [filter].
      destruct (negb (Z.of_N (len v) <? thr)%Z); cbn [snd fst].
      * rewrite map_app. cbn [map fst]. now rewrite <- app_assoc.
      * reflexivity.
    + reflexivity.
Qed.

Lemma prun_nopieces thr ops st : snd (prun thr false ops st) = snd st /\
                                 fst (prun thr false ops st) = fst st ++ ops_bytes ops.
Proof.
  revert st; induction ops as [|o r IH]; intros st; cbn [prun fold_left ops_bytes map concat].
  - now rewrite app_nil_r.
  - fold (prun thr false r (pstep thr false st o)). fold (ops_bytes r).
    destruct (IH (pstep thr false st o)) as [I1 I2]. rewrite I1, I2.
    destruct o as [tid|v|kv n|v]; cbn [pstep direct andb fst snd]; rewrite <- app_assoc; auto.
Qed.

(* ---------- model state vs pure state ---------- *)
Definition wmap (T : N) (w0 : dwriter) (pcs : list (bytes * N)) : dwriter :=
  match w0 with None => None | Some log => Some (log ++ rcs T pcs) end.
Definition has_w (w : dwriter) : bool := match w with Some _ => true | None => false end.

Record mok (b : bytes) (w0 : dwriter) (st : pstate) (s : wst) : Prop := {
  mok_buf : wbuf s = fst st ++ drop (len (fst st)) b;
  mok_off : woff s = len (fst st);
  mok_len : len (fst st) <= len b;
  mok_dw : wdw s = wmap (len b) w0 (snd st)
}.

(* writing at the end of the linear part *)
Lemma put_lin lin b x :
  len lin + len x <= len b ->
  put (lin ++ drop (len lin) b) (len lin) x = Ok ((lin ++ x) ++ drop (len (lin ++ x)) b).
Proof.
  intros H.
  assert (Hs : len x <= len (drop (len lin) b)) by (rewrite len_drop; lia).
  destruct (split_buf _ _ Hs) as (old & rest & E & E1 & E2).
  rewrite E. rewrite (put_at lin old rest x) by auto.
  rewrite <- app_assoc. do 3 f_equal. rewrite E2, drop_drop, len_app. reflexivity.
Qed.

Lemma mok_put b w0 st s x :
  mok b w0 st s -> len (fst st) + len x <= len b ->
  put (wbuf s) (woff s) x = Ok ((fst st ++ x) ++ drop (len (fst st ++ x)) b).
Proof. intros [H1 H2 _ _] H. rewrite H1, H2. now apply put_lin. Qed.

Lemma mok_adv b w0 lin pcs x w' :
  len lin + len x <= len b -> w' = wmap (len b) w0 pcs ->
  mok b w0 (lin ++ x, pcs) {| wbuf := (lin ++ x) ++ drop (len (lin ++ x)) b; woff := len lin + len x; wdw := w' |}.
Proof.
  intros H ->. constructor; cbn [fst snd wbuf woff wdw]; rewrite ?len_app; auto.
Qed.

Ltac mok_fin :=
  constructor; cbn [fst snd wbuf woff wdw mop_bytes];
  [ rewrite <- ?app_assoc; cbn [app]; repeat (f_equal; try reflexivity);
    rewrite ?len_app, ?len_cons, ?be_len; try (unfold len; cbn [length]); try lia
  | rewrite ?len_app, ?len_cons, ?be_len; try (unfold len; cbn [length]; lia); try lia
  | rewrite ?len_app, ?len_cons, ?be_len; try (unfold len in *; cbn [length] in *; lia); try lia
  | auto ].

Lemma st_hdr_ok b w0 st s tid :
  mok b w0 st s -> len (fst st) + 3 <= len b ->
  exists s', st_hdr s tid = Ok s' /\ mok b w0 (fst st ++ mop_bytes (MH tid), snd st) s'.
Proof.
  intros M H. destruct st as [lin pcs]. cbn [fst snd] in *.
  unfold st_hdr.
  rewrite (mok_put b w0 (lin, pcs) s [u8 (fst tid)] M) by (cbn [fst len]; change (len [u8 (fst tid)]) with 1; lia).
  cbn [bind fst].
  destruct M as [M1 M2 M3 M4]. cbn [fst snd] in *.
  replace (woff s + 1) with (len (lin ++ [u8 (fst tid)])) by (rewrite len_app, M2; reflexivity).
  rewrite put_lin by (rewrite len_app, be_len; change (len [u8 (fst tid)]) with 1; lia).
  cbn [bind]. eexists. split; [reflexivity|]. rewrite M2. mok_fin.
Qed.

Lemma st_i32_ok b w0 st s v :
  mok b w0 st s -> len (fst st) + 4 <= len b ->
  exists s', st_i32 s v = Ok s' /\ mok b w0 (fst st ++ mop_bytes (MI v), snd st) s'.
Proof.
  intros M H. destruct st as [lin pcs]. cbn [fst snd] in *.
  unfold st_i32.
  rewrite (mok_put b w0 (lin, pcs) s (be 4 (u32 v)) M) by (cbn [fst]; rewrite be_len; lia).
  cbn [bind fst]. destruct M as [M1 M2 M3 M4]. cbn [fst snd] in *.
  eexists. split; [reflexivity|]. rewrite M2. mok_fin.
Qed.

Lemma st_maphdr_ok b w0 st s kv n :
  mok b w0 st s -> len (fst st) + 6 <= len b ->
  exists s', st_maphdr s kv n = Ok s' /\ mok b w0 (fst st ++ mop_bytes (MM kv n), snd st) s'.
Proof.
  intros M H. destruct st as [lin pcs]. cbn [fst snd] in *.
  unfold st_maphdr.
  rewrite (mok_put b w0 (lin, pcs) s [u8 (fst kv)] M) by (cbn [fst]; change (len [u8 (fst kv)]) with 1; lia).
  cbn [bind fst].
  destruct M as [M1 M2 M3 M4]. cbn [fst snd] in *.
  replace (woff s + 1) with (len (lin ++ [u8 (fst kv)])) by (rewrite len_app, M2; reflexivity).
  rewrite put_lin by (rewrite len_app; change (len [u8 (fst kv)]) with 1; change (len [u8 (snd kv)]) with 1; lia).
  cbn [bind].
  replace (woff s + 2) with (len ((lin ++ [u8 (fst kv)]) ++ [u8 (snd kv)]))
    by (rewrite !len_app, M2; change (len [u8 (fst kv)]) with 1; change (len [u8 (snd kv)]) with 1; lia).
  rewrite put_lin by (rewrite !len_app, be_len; change (len [u8 (fst kv)]) with 1; change (len [u8 (snd kv)]) with 1; lia).
  cbn [bind]. eexists. split; [reflexivity|]. rewrite M2. mok_fin.
Qed.

(* b[off:] of the model state is the untouched tail *)
Lemma mok_slice b w0 st s :
  mok b w0 st s -> slice_from (wbuf s) (woff s) = Ok (drop (len (fst st)) b) /\
                   take (woff s) (wbuf s) = fst st.
Proof.
  intros [M1 M2 M3 M4]. rewrite M1, M2. unfold slice_from. rewrite len_app.
  destruct (N.leb_spec (len (fst st)) (len (fst st) + len (drop (len (fst st)) b))); [|lia].
  now rewrite drop_app_len, take_app_len.
Qed.

Lemma w_binary_tail tail v :
  4 + len v <= len tail ->
  w_binary tail v = Ok ((be 4 (len v mod two32) ++ v) ++ drop (4 + len v) tail, 4 + len v).
Proof.
  intros H. pose proof (w_item_enc tail (IString v)) as W. cbn [w_item enc] in W.
  rewrite len_app, be_len in W. change (N.of_nat 4) with 4 in W. now apply W.
Qed.

Lemma st_str_ok thr b w0 st s v :
  mok b w0 st s -> len (fst st) + (4 + len v) <= len b ->
  exists s', st_str thr s v = Ok s' /\ mok b w0 (pstep thr (has_w w0) st (MS v)) s'.
Proof.
  intros M H. destruct (mok_slice _ _ _ _ M) as [Sl Tk].
  destruct st as [lin pcs]. cbn [fst snd] in *.
  pose proof M as [M1 M2 M3 M4]. cbn [fst snd] in *.
  unfold st_str. rewrite Sl. cbn [bind]. rewrite Tk.
  set (tail := drop (len lin) b) in *.
  assert (Ht : len tail = len b - len lin) by (unfold tail; apply len_drop).
  assert (Hcopy : forall w', w' = wmap (len b) w0 pcs ->
            mok b w0 (lin ++ mop_bytes (MS v), pcs)
                {| wbuf := lin ++ (be 4 (len v mod two32) ++ v) ++ drop (4 + len v) tail;
                   woff := woff s + (4 + len v); wdw := w' |}).
  { intros w' ->. rewrite M2. unfold tail. rewrite drop_drop. mok_fin. }
  unfold w_string_nocopy, pstep, direct. rewrite M4.
  destruct w0 as [log|]; cbn [wmap has_w andb].
  - destruct (Z.ltb_spec (Z.of_N (len v)) thr); cbn [negb].
    + rewrite w_binary_tail by lia. cbn [bind]. eexists. split; [reflexivity|].
      apply Hcopy. reflexivity.
    + rewrite put0 by (rewrite be_len; lia). cbn [bind].
      unfold slice_from. rewrite len_app, be_len, len_drop.
      destruct (N.leb_spec 4 (N.of_nat 4 + (len tail - N.of_nat 4))); [|lia].
      cbn [bind]. change (N.of_nat 4) with 4. rewrite drop_be4. unfold write_direct. rewrite len_drop.
      destruct (N.ltb_spec (len tail - 4) (len v)); [lia|]. cbn [bind].
      eexists. split; [reflexivity|]. cbn [fst snd].
      constructor; cbn [fst snd wbuf woff wdw].
      * rewrite <- app_assoc. do 2 f_equal. unfold tail. rewrite drop_drop, len_app, be_len. reflexivity.
      * rewrite len_app, be_len, M2. reflexivity.
      * rewrite len_app, be_len. change (N.of_nat 4) with 4. lia.
      * cbn [wmap]. rewrite rcs_app, app_assoc. do 2 f_equal. unfold rcs. cbn [map fst snd]. do 2 f_equal. lia.
  - rewrite w_binary_tail by lia. cbn [bind]. eexists. split; [reflexivity|].
    apply Hcopy. reflexivity.
Qed.

Lemma mstep_ok thr b w0 st s o :
  mok b w0 st s -> len (fst st) + pieces_len (snd st) + len (mop_bytes o) <= len b ->
  exists s', mstep thr s o = Ok s' /\ mok b w0 (pstep thr (has_w w0) st o) s'.
Proof.
  intros M H.
  destruct o as [tid|v|kv n|v]; cbn [mstep pstep].
  - apply st_hdr_ok; [exact M|]. cbn [mop_bytes] in H. rewrite len_app, be_len in H.
    change (len [u8 (fst tid)]) with 1 in H. lia.
  - apply st_i32_ok; [exact M|]. cbn [mop_bytes] in H. rewrite be_len in H. lia.
  - apply st_maphdr_ok; [exact M|]. cbn [mop_bytes] in H. rewrite len_app, be_len in H.
    change (len [u8 (fst kv); u8 (snd kv)]) with 2 in H. lia.
  - apply (st_str_ok thr b w0 st s v M). cbn [mop_bytes] in H. rewrite len_app, be_len in H. lia.
Qed.

Lemma mrun_ok thr b w0 ops : forall st s,
  mok b w0 st s -> wfp 0 (len (fst st)) (snd st) ->
  len (fst st) + pieces_len (snd st) + len (ops_bytes ops) <= len b ->
  exists s', mrun thr ops s = Ok s' /\ mok b w0 (prun thr (has_w w0) ops st) s'.
Proof.
  induction ops as [|o r IH]; intros st s M W H; cbn [mrun prun fold_left].
  - exists s. split; [reflexivity|exact M].
  - cbn [ops_bytes map concat] in H. fold (ops_bytes r) in H. rewrite len_app in H.
    destruct (mstep_ok thr b w0 st s o M) as (s1 & E1 & M1); [lia|].
    rewrite E1. cbn [bind].
    destruct (pstep_stream thr (has_w w0) st o W) as (W1 & _ & L1).
    apply IH; [exact M1|exact W1|unfold pstate, bytes in *; lia].
Qed.

(* ---------- the generated writers are such sequences ---------- *)
Definition entry_ops (l : list (bytes * bytes)) : list mop :=
  concat (map (fun kv => [MS (fst kv); MS (snd kv)]) l).
Definition map_ops (tid kv : Z * Z) (m : smap) : list mop :=
  match m with
  | None => []
  | Some l => [MH tid; MM kv (len l)] ++ entry_ops l
  end.
Definition base_ops (p : base) : list mop :=
  [MH (11, 1)%Z; MS (b_logid p); MH (11, 2)%Z; MS (b_caller p); MH (11, 3)%Z; MS (b_addr p)] ++
  map_ops (13, 6)%Z (11, 11)%Z (b_extra p).
Definition baseresp_ops (p : baseresp) : list mop :=
  [MH (11, 1)%Z; MS (r_msg p); MH (8, 2)%Z; MI (r_code p)] ++ map_ops (13, 3)%Z (11, 11)%Z (r_extra p).

Lemma st_entries_mrun thr l s : st_entries thr l s = mrun thr (entry_ops l) s.
Proof.
  revert s; induction l as [|[k v] r IH]; intros s; cbn [st_entries entry_ops map concat app mrun mstep fst snd].
  - reflexivity.
  - destruct (st_str thr s k) as [s1| | |]; cbn [bind]; [|reflexivity..].
    destruct (st_str thr s1 v) as [s2| | |]; cbn [bind]; [|reflexivity..].
    apply IH.
Qed.

Lemma st_map_mrun thr s tid kv m : st_map thr s (Ok tid) (Ok kv) m = mrun thr (map_ops tid kv m) s.
Proof.
  destruct m as [l|]; cbn [st_map map_ops bind mrun app mstep]; [|reflexivity].
  destruct (st_hdr s tid) as [s1| | |]; cbn [bind]; [|reflexivity..].
  destruct (st_maphdr s1 kv (len l)) as [s2| | |]; cbn [bind]; [|reflexivity..].
  apply st_entries_mrun.
Qed.

Lemma base_write_mrun thr p b w :
  base_write_nocopy thr (Some p) b w =
  do s <- mrun thr (base_ops p) {| wbuf := b; woff := 0; wdw := w |}; st_stop s.
Proof.
  unfold base_write_nocopy, base_ops.
  change (fld base_Base_FastWriteNocopy_fields 0) with (@Ok (Z * Z) (11, 1)%Z).
  change (fld base_Base_FastWriteNocopy_fields 1) with (@Ok (Z * Z) (11, 2)%Z).
  change (fld base_Base_FastWriteNocopy_fields 2) with (@Ok (Z * Z) (11, 3)%Z).
  change (fld base_Base_FastWriteNocopy_fields 3) with (@Ok (Z * Z) (13, 6)%Z).
  change (fld base_Base_FastWriteNocopy_mapkv 0) with (@Ok (Z * Z) (11, 11)%Z).
  cbn [bind]. rewrite mrun_app. cbn [mrun mstep].
  repeat (match goal with |- context [bind ?x _] =>
            match x with
            | st_hdr _ _ => destruct x as [?s| | |]; cbn [bind]; [|reflexivity..]
            | st_str _ _ _ => destruct x as [?s| | |]; cbn [bind]; [|reflexivity..]
            end end).
  rewrite st_map_mrun. reflexivity.
Qed.

Lemma baseresp_write_mrun thr p b w :
  baseresp_write_nocopy thr (Some p) b w =
  do s <- mrun thr (baseresp_ops p) {| wbuf := b; woff := 0; wdw := w |}; st_stop s.
Proof.
  unfold baseresp_write_nocopy, baseresp_ops.
  change (fld base_BaseResp_FastWriteNocopy_fields 0) with (@Ok (Z * Z) (11, 1)%Z).
  change (fld base_BaseResp_FastWriteNocopy_fields 1) with (@Ok (Z * Z) (8, 2)%Z).
  change (fld base_BaseResp_FastWriteNocopy_fields 2) with (@Ok (Z * Z) (13, 3)%Z).
  change (fld base_BaseResp_FastWriteNocopy_mapkv 0) with (@Ok (Z * Z) (11, 11)%Z).
  cbn [bind]. rewrite mrun_app. cbn [mrun mstep].
  repeat (match goal with |- context [bind ?x _] =>
            match x with
            | st_hdr _ _ => destruct x as [?s| | |]; cbn [bind]; [|reflexivity..]
            | st_str _ _ _ => destruct x as [?s| | |]; cbn [bind]; [|reflexivity..]
            | st_i32 _ _ => destruct x as [?s| | |]; cbn [bind]; [|reflexivity..]
            end end).
  rewrite st_map_mrun. reflexivity.
Qed.

(* ---------- the sequences spell the structs' streams ---------- *)
Lemma u32_of_N n : u32 (Z.of_N n) = n mod two32.
Proof.
  unfold u32, to_unsigned, two32. change (2 ^ 32) with 4294967296.
  rewrite <- N2Z.inj_mod. apply N2Z.id.
Qed.

Lemma entry_ops_bytes l : ops_bytes (entry_ops l) = enc_entries l.
Proof.
  unfold ops_bytes, entry_ops, enc_entries.
  induction l as [|[k v] r IH]; cbn [map concat app]; [reflexivity|].
  rewrite IH. unfold enc_entry. cbn [fst snd mop_bytes enc]. now rewrite <- !app_assoc.
Qed.

Lemma ops_bytes_app a b : ops_bytes (a ++ b) = ops_bytes a ++ ops_bytes b.
Proof. unfold ops_bytes. now rewrite map_app, concat_app. Qed.

Lemma map_ops_bytes id m : ops_bytes (map_ops (13, id)%Z (11, 11)%Z m) = enc_map_field id m.
Proof.
  destruct m as [l|]; cbn [map_ops enc_map_field]; [|reflexivity].
  rewrite ops_bytes_app, entry_ops_bytes. unfold enc_strmap.
  unfold ops_bytes. cbn [map concat mop_bytes enc fst snd]. rewrite u32_of_N.
  rewrite app_nil_r. unfold F_MAP, F_STRING. now rewrite <- !app_assoc.
Qed.

Lemma base_ops_stream p : ops_bytes (base_ops p) ++ [0] = base_stream (Some p).
Proof.
  unfold base_ops. rewrite ops_bytes_app, map_ops_bytes.
  unfold ops_bytes, base_stream, enc_string_field, F_STRING.
  cbn [map concat mop_bytes enc fst snd]. rewrite app_nil_r. now rewrite <- !app_assoc.
Qed.

Lemma baseresp_ops_stream p : ops_bytes (baseresp_ops p) ++ [0] = baseresp_stream (Some p).
Proof.
  unfold baseresp_ops. rewrite ops_bytes_app, map_ops_bytes.
  unfold ops_bytes, baseresp_stream, enc_string_field, enc_i32_field, F_STRING, F_I32.
  cbn [map concat mop_bytes enc fst snd]. rewrite app_nil_r. now rewrite <- !app_assoc.
Qed.

Lemma entry_ops_strings l : op_strings (entry_ops l) = map_strings (Some l).
Proof.
  unfold op_strings, entry_ops, map_strings.
  induction l as [|[k v] r IH]; cbn [map concat app fst snd]; [reflexivity|]. now rewrite IH.
Qed.

Lemma op_strings_app a b : op_strings (a ++ b) = op_strings a ++ op_strings b.
Proof. unfold op_strings. now rewrite map_app, concat_app. Qed.

Lemma map_ops_strings tid kv m : op_strings (map_ops tid kv m) = map_strings m.
Proof.
  destruct m as [l|]; cbn [map_ops]; [|reflexivity].
  rewrite op_strings_app, entry_ops_strings. reflexivity.
Qed.

Lemma base_ops_strings p : op_strings (base_ops p) = base_strings (Some p).
Proof. unfold base_ops. rewrite op_strings_app, map_ops_strings. reflexivity. Qed.
Lemma baseresp_ops_strings p : op_strings (baseresp_ops p) = baseresp_strings (Some p).
Proof. unfold baseresp_ops. rewrite op_strings_app, map_ops_strings. reflexivity. Qed.

(* ---------- BLength is the length of the stream, whatever the enumeration order ---------- *)
Lemma entries_blength_eq l off : entries_blength l off = off + len (enc_entries l).
Proof.
  revert off; induction l as [|[k v] r IH]; intros off; cbn [entries_blength].
  - unfold enc_entries. cbn [map concat]. change (len (@nil N)) with 0. lia.
  - rewrite IH. unfold enc_entries. cbn [map concat]. fold (enc_entries r).
    unfold enc_entry. cbn [fst snd enc]. rewrite !len_app, !be_len. lia.
Qed.

Lemma map_blength_eq id m off : map_blength m off = off + len (enc_map_field id m).
Proof.
  destruct m as [l|]; cbn [map_blength enc_map_field].
  - rewrite entries_blength_eq. unfold enc_strmap. cbn [enc]. rewrite !len_app, !len_cons, !be_len.
    change (len (@nil N)) with 0. lia.
  - change (len (@nil N)) with 0. lia.
Qed.

Lemma base_blength_eq p : base_blength p = len (base_stream p).
Proof.
  destruct p as [p|]; [|reflexivity].
  unfold base_blength, base_stream. rewrite (map_blength_eq 6).
  unfold enc_string_field. cbn [enc]. rewrite !len_app, !len_cons, !be_len.
  change (len (@nil N)) with 0. lia.
Qed.

Lemma baseresp_blength_eq p : baseresp_blength p = len (baseresp_stream p).
Proof.
  destruct p as [p|]; [|reflexivity].
  unfold baseresp_blength, baseresp_stream. rewrite (map_blength_eq 3).
  unfold enc_string_field, enc_i32_field. cbn [enc]. rewrite !len_app, !len_cons, !be_len.
  change (len (@nil N)) with 0. lia.
Qed.

Lemma enc_entries_perm_len l l' : Permutation l l' -> len (enc_entries l) = len (enc_entries l').
Proof.
  unfold enc_entries. induction 1 as [|x l l' _ IH|x y l|l l' l'' _ IH1 _ IH2]; cbn [map concat];
    rewrite ?len_app; try lia.
Qed.

Definition with_extra (p : base) (m : smap) : base :=
  {| b_logid := b_logid p; b_caller := b_caller p; b_addr := b_addr p; b_extra := m |}.
Definition with_rextra (p : baseresp) (m : smap) : baseresp :=
  {| r_msg := r_msg p; r_code := r_code p; r_extra := m |}.

Lemma base_blength_perm p l l' :
  Permutation l l' -> base_blength (Some (with_extra p (Some l))) = base_blength (Some (with_extra p (Some l'))).
Proof.
  intros HP. unfold base_blength, with_extra. cbn [b_logid b_caller b_addr b_extra map_blength].
  rewrite !entries_blength_eq, (enc_entries_perm_len _ _ HP). reflexivity.
Qed.
Lemma baseresp_blength_perm p l l' :
  Permutation l l' -> baseresp_blength (Some (with_rextra p (Some l))) = baseresp_blength (Some (with_rextra p (Some l'))).
Proof.
  intros HP. unfold baseresp_blength, with_rextra. cbn [r_msg r_code r_extra map_blength].
  rewrite !entries_blength_eq, (enc_entries_perm_len _ _ HP). reflexivity.
Qed.

(* ---------- a whole writer: steps, then the STOP byte ---------- *)
Definition run_writer (thr : Z) (ops : list mop) (b : bytes) (w : dwriter) : res (bytes * N * dwriter) :=
  do s <- mrun thr ops {| wbuf := b; woff := 0; wdw := w |}; st_stop s.

(* linear part and pieces of a whole writer *)
Definition lin_of (thr : Z) (hw : bool) (ops : list mop) : bytes := fst (prun thr hw ops ([], [])) ++ [0].
Definition pcs_of (thr : Z) (hw : bool) (ops : list mop) : list (bytes * N) := snd (prun thr hw ops ([], [])).

Lemma mok_init b w : mok b w ([], []) {| wbuf := b; woff := 0; wdw := w |}.
Proof.
  constructor; cbn [fst snd wbuf woff wdw app]; try reflexivity.
  - change (len (@nil N)) with 0. lia.
  - destruct w as [log|]; cbn [wmap rcs map]; [now rewrite app_nil_r|reflexivity].
Qed.

Lemma run_writer_ok thr ops b w :
  len (ops_bytes ops) + 1 <= len b ->
  let lin := lin_of thr (has_w w) ops in
  let pcs := pcs_of thr (has_w w) ops in
  run_writer thr ops b w = Ok (lin ++ drop (len lin) b, len lin, wmap (len b) w pcs) /\
  wfp 0 (len lin) pcs /\
  ins lin 0 pcs = ops_bytes ops ++ [0] /\
  len lin + pieces_len pcs = len (ops_bytes ops) + 1 /\
  len lin <= len b /\
  map fst pcs = (if has_w w then large thr (op_strings ops) else []).
Proof.
  intros H lin pcs. unfold lin, pcs, lin_of, pcs_of, run_writer.
  assert (W0 : wfp 0 (len (fst (@nil N, @nil (bytes * N)))) (snd (@nil N, @nil (bytes * N)))).
  { cbn [fst snd wfp]. lia. }
  destruct (mrun_ok thr b w ops ([], []) _ (mok_init b w) W0) as (s' & E & M).
  { cbn [fst snd]. unfold pieces_len. cbn [fold_right]. change (len (@nil N)) with 0. lia. }
  destruct (prun_stream thr (has_w w) ops ([], []) W0) as (W1 & S1 & L1).
  cbn [fst snd ins] in S1, L1. unfold pieces_len at 2 in L1. cbn [fold_right] in L1.
  change (len (@nil N)) with 0 in L1. rewrite drop_0 in S1. cbn [app] in S1.
  set (st := prun thr (has_w w) ops ([], [])) in *.
  assert (Hl : len (fst st) + 1 <= len b) by (unfold pstate, bytes in *; lia).
  rewrite E. cbn [bind]. unfold st_stop.
  rewrite (mok_put b w st s' [0] M) by (change (len [0]) with 1; exact Hl).
  cbn [bind]. destruct M as [M1 M2 M3 M4]. rewrite M2, M4.
  split; [rewrite len_app; reflexivity|].
  split; [apply (wfp_mono _ (len (fst st))); [rewrite len_app; lia|exact W1]|].
  split; [rewrite ins_app by exact W1; now rewrite S1|].
  split; [rewrite len_app; change (len [0]) with 1; unfold pstate, bytes in *; lia|].
  split; [rewrite len_app; change (len [0]) with 1; exact Hl|].
  unfold st. rewrite prun_pieces. reflexivity.
Qed.

(* with a fresh reference writer: the splice is the stream; without: the buffer is the stream *)
Lemma run_writer_splice thr ops b :
  len (ops_bytes ops) + 1 <= len b ->
  exists lin pairs,
    run_writer thr ops b (Some []) = Ok (lin ++ drop (len lin) b, len lin, Some pairs) /\
    splice (lin ++ drop (len lin) b) pairs =
      Ok ((ops_bytes ops ++ [0]) ++ take (len b - (len (ops_bytes ops) + 1)) (drop (len lin) b)) /\
    map fst pairs = large thr (op_strings ops) /\
    len lin + pieces_len pairs = len (ops_bytes ops) + 1 /\
    ins lin 0 (positions (len b) pairs) = ops_bytes ops ++ [0].
Proof.
  intros H.
  destruct (run_writer_ok thr ops b (Some []) H) as (E & W & S & L & Hb & P). cbn [has_w] in *.
  set (lin := lin_of thr true ops) in *. set (pcs := pcs_of thr true ops) in *.
  exists lin, (rcs (len b) pcs). cbn [wmap app] in E.
  split; [exact E|].
  assert (HT : len (lin ++ drop (len lin) b) = len b) by (rewrite len_app, len_drop; lia).
  split.
  - rewrite <- HT at 1. rewrite splice_ins; [|exact W|rewrite len_drop; lia].
    rewrite S, len_drop.
    replace (len b - len lin - pieces_len pcs) with (len b - (len (ops_bytes ops) + 1)) by (unfold bytes in *; lia).
    reflexivity.
  - split; [unfold rcs; rewrite map_map; cbn [fst]; exact P|].
    split; [rewrite pieces_len_rcs; exact L|].
    rewrite (positions_rcs _ (len lin) _ 0 W Hb). exact S.
Qed.

Lemma run_writer_copy thr ops b :
  len (ops_bytes ops) + 1 <= len b ->
  run_writer thr ops b None =
  Ok ((ops_bytes ops ++ [0]) ++ drop (len (ops_bytes ops) + 1) b, len (ops_bytes ops) + 1, None).
Proof.
  intros H.
  destruct (run_writer_ok thr ops b None H) as (E & _ & _ & _ & _ & _). cbn [has_w wmap] in E.
  unfold lin_of in E. destruct (prun_nopieces thr ops ([], [])) as [_ F]. cbn [fst app] in F.
  rewrite F in E. rewrite E. rewrite len_app. change (len [0]) with 1. reflexivity.
Qed.

(* a writer none of whose strings reaches the threshold behaves like the copying path *)
Lemma run_writer_small thr ops b log :
  len (ops_bytes ops) + 1 <= len b -> large thr (op_strings ops) = [] ->
  run_writer thr ops b (Some log) =
  Ok ((ops_bytes ops ++ [0]) ++ drop (len (ops_bytes ops) + 1) b, len (ops_bytes ops) + 1, Some log).
Proof.
  intros H Hs.
  destruct (run_writer_ok thr ops b (Some log) H) as (E & W & S & L & Hb & P). cbn [has_w] in *.
  rewrite Hs in P. apply map_eq_nil in P. rewrite P in *.
  cbn [ins wmap rcs map] in *. rewrite drop_0 in S. rewrite S in E.
  rewrite E, app_nil_r. rewrite len_app. change (len [0]) with 1. reflexivity.
Qed.

(* ---------- Base / BaseResp ---------- *)
Lemma take_0_any {A} (l : list A) : take 0 l = []. Proof. reflexivity. Qed.

Lemma nil_write b (w : dwriter) : 1 <= len b -> (do b1 <- put b 0 [0]; Ok (b1, 1, w)) = Ok ([0] ++ drop 1 b, 1, w).
Proof. intros H. rewrite put0 by (change (len [0]) with 1; exact H). reflexivity. Qed.

Lemma splice_nil data : splice data [] = Ok data.
Proof.
  pose proof (splice_ins data [] []) as H. cbn [wfp rcs map ins] in H.
  rewrite app_nil_r, drop_0 in H. unfold pieces_len in H. cbn [fold_right] in H.
  assert (E : splice data [] = Ok (data ++ take (len (@nil N) - 0) [])) by (apply H; lia).
  etransitivity; [exact E|]. unfold take. rewrite firstn_nil. now rewrite app_nil_r.
Qed.

Definition writer_facts (thr : Z) (b : bytes) (stream : bytes) (strs : list bytes)
           (nocopy : res (bytes * N * dwriter)) (copy : res (bytes * N)) : Prop :=
  exists lin pairs,
    nocopy = Ok (lin ++ drop (len lin) b, len lin, Some pairs) /\
    splice (lin ++ drop (len lin) b) pairs = Ok (stream ++ take (len b - len stream) (drop (len lin) b)) /\
    copy = Ok (stream ++ drop (len stream) b, len stream) /\
    map fst pairs = large thr strs /\
    len lin + pieces_len pairs = len stream /\
    ins lin 0 (positions (len b) pairs) = stream.

Lemma base_splice_eq_copy thr p b :
  base_blength p <= len b ->
  writer_facts thr b (base_stream p) (base_strings p)
               (base_write_nocopy thr p b (Some [])) (base_write thr p b).
Proof.
  rewrite base_blength_eq. intros H. destruct p as [p|].
  - rewrite <- base_ops_stream in *. rewrite len_app in H. change (len [0]) with 1 in H.
    destruct (run_writer_splice thr (base_ops p) b H) as (lin & pairs & E & S & P & L & I).
    exists lin, pairs. unfold base_write. rewrite !base_write_mrun.
    fold (run_writer thr (base_ops p) b (Some [])). fold (run_writer thr (base_ops p) b None).
    rewrite E, (run_writer_copy thr _ b H). cbn [bind].
    rewrite !len_app. change (len [0]) with 1. rewrite base_ops_strings in P.
    repeat split; assumption.
  - cbn [base_stream enc base_strings base_write_nocopy] in *. change (len [0]) with 1 in *.
    exists [0], []. unfold base_write. cbn [base_write_nocopy]. rewrite !nil_write by exact H.
    cbn [bind]. rewrite splice_nil. change (len [0]) with 1.
    repeat split.
    rewrite take_all by (rewrite len_drop; lia). reflexivity.
Qed.

Lemma baseresp_splice_eq_copy thr p b :
  baseresp_blength p <= len b ->
  writer_facts thr b (baseresp_stream p) (baseresp_strings p)
               (baseresp_write_nocopy thr p b (Some [])) (baseresp_write thr p b).
Proof.
  rewrite baseresp_blength_eq. intros H. destruct p as [p|].
  - rewrite <- baseresp_ops_stream in *. rewrite len_app in H. change (len [0]) with 1 in H.
    destruct (run_writer_splice thr (baseresp_ops p) b H) as (lin & pairs & E & S & P & L & I).
    exists lin, pairs. unfold baseresp_write. rewrite !baseresp_write_mrun.
    fold (run_writer thr (baseresp_ops p) b (Some [])). fold (run_writer thr (baseresp_ops p) b None).
    rewrite E, (run_writer_copy thr _ b H). cbn [bind].
    rewrite !len_app. change (len [0]) with 1. rewrite baseresp_ops_strings in P.
    repeat split; assumption.
  - cbn [baseresp_stream enc baseresp_strings baseresp_write_nocopy] in *. change (len [0]) with 1 in *.
    exists [0], []. unfold baseresp_write. cbn [baseresp_write_nocopy]. rewrite !nil_write by exact H.
    cbn [bind]. rewrite splice_nil. change (len [0]) with 1.
    repeat split.
    rewrite take_all by (rewrite len_drop; lia). reflexivity.
Qed.

(* nil writer: FastWriteNocopy(b, nil) is the copying path, byte for byte *)
Lemma base_nil_writer thr p b :
  base_blength p <= len b ->
  base_write_nocopy thr p b None = Ok (base_stream p ++ drop (len (base_stream p)) b, len (base_stream p), None).
Proof.
  rewrite base_blength_eq. intros H. destruct p as [p|].
  - rewrite <- base_ops_stream in *. rewrite len_app in *. change (len [0]) with 1 in *.
    rewrite base_write_mrun. fold (run_writer thr (base_ops p) b None).
    now apply run_writer_copy.
  - cbn [base_stream enc base_write_nocopy] in *. change (len [0]) with 1 in *. now apply nil_write.
Qed.
Lemma baseresp_nil_writer thr p b :
  baseresp_blength p <= len b ->
  baseresp_write_nocopy thr p b None =
  Ok (baseresp_stream p ++ drop (len (baseresp_stream p)) b, len (baseresp_stream p), None).
Proof.
  rewrite baseresp_blength_eq. intros H. destruct p as [p|].
  - rewrite <- baseresp_ops_stream in *. rewrite len_app in *. change (len [0]) with 1 in *.
    rewrite baseresp_write_mrun. fold (run_writer thr (baseresp_ops p) b None).
    now apply run_writer_copy.
  - cbn [baseresp_stream enc baseresp_write_nocopy] in *. change (len [0]) with 1 in *. now apply nil_write.
Qed.

(* a writer is attached but no string reaches the threshold: identical to the copying path, nothing handed over *)
Lemma base_small_identical thr p b log :
  base_blength p <= len b -> large thr (base_strings p) = [] ->
  base_write_nocopy thr p b (Some log) =
  Ok (base_stream p ++ drop (len (base_stream p)) b, len (base_stream p), Some log).
Proof.
  rewrite base_blength_eq. intros H Hs. destruct p as [p|].
  - rewrite <- base_ops_stream in *. rewrite len_app in *. change (len [0]) with 1 in *.
    rewrite base_write_mrun. fold (run_writer thr (base_ops p) b (Some log)).
    apply run_writer_small; [exact H|now rewrite base_ops_strings].
  - cbn [base_stream enc base_write_nocopy] in *. change (len [0]) with 1 in *. now apply nil_write.
Qed.
Lemma baseresp_small_identical thr p b log :
  baseresp_blength p <= len b -> large thr (baseresp_strings p) = [] ->
  baseresp_write_nocopy thr p b (Some log) =
  Ok (baseresp_stream p ++ drop (len (baseresp_stream p)) b, len (baseresp_stream p), Some log).
Proof.
  rewrite baseresp_blength_eq. intros H Hs. destruct p as [p|].
  - rewrite <- baseresp_ops_stream in *. rewrite len_app in *. change (len [0]) with 1 in *.
    rewrite baseresp_write_mrun. fold (run_writer thr (baseresp_ops p) b (Some log)).
    apply run_writer_small; [exact H|now rewrite baseresp_ops_strings].
  - cbn [baseresp_stream enc baseresp_write_nocopy] in *. change (len [0]) with 1 in *. now apply nil_write.
Qed.

(* ---------- a single WriteStringNocopy / WriteBinaryNocopy ---------- *)
Lemma w_binary_nocopy_is_string : w_binary_nocopy = w_string_nocopy.
Proof. reflexivity. Qed.

Lemma st_str_init thr b w v :
  st_str thr {| wbuf := b; woff := 0; wdw := w |} v =
  do (sub', n, w') <- w_string_nocopy thr b w v; Ok {| wbuf := sub'; woff := n; wdw := w' |}.
Proof.
  unfold st_str. cbn [wbuf woff wdw]. unfold slice_from.
  destruct (N.leb_spec 0 (len b)); [|lia]. cbn [bind]. rewrite drop_0.
  destruct (w_string_nocopy thr b w v) as [[[sub' n] w']| | |]; reflexivity.
Qed.

Lemma string_splice_eq_copy thr v b :
  4 + len v <= len b ->
  writer_facts thr b (enc (IString v)) [v] (w_string_nocopy thr b (Some []) v) (w_binary b v).
Proof.
  intros H. unfold writer_facts. cbn [enc]. rewrite len_app, be_len. change (N.of_nat 4) with 4.
  assert (W0 : wfp 0 (len (fst (@nil N, @nil (bytes * N)))) (snd (@nil N, @nil (bytes * N)))).
  { cbn [fst snd wfp]. lia. }
  destruct (st_str_ok thr b (Some []) ([], []) _ v (mok_init b (Some []))) as (s' & E & M).
  { cbn [fst]. change (len (@nil N)) with 0. lia. }
  rewrite st_str_init in E.
  destruct (w_string_nocopy thr b (Some []) v) as [[[sub' n] w']| | |]; cbn [bind] in E; try discriminate.
  inversion E; subst s'; clear E.
  destruct (pstep_stream thr true ([], []) (MS v) W0) as (W1 & S1 & L1).
  cbn [has_w] in M. set (st := pstep thr true ([], []) (MS v)) in *.
  destruct M as [M1 M2 M3 M4]. cbn [wbuf woff wdw wmap app] in *.
  cbn [fst snd ins mop_bytes] in S1, L1. rewrite drop_0 in S1. cbn [app] in S1.
  unfold pieces_len at 2 in L1. cbn [fold_right] in L1. change (len (@nil N)) with 0 in L1.
  rewrite len_app, be_len in L1. change (N.of_nat 4) with 4 in L1.
  exists (fst st), (rcs (len b) (snd st)).
  assert (HT : len (fst st ++ drop (len (fst st)) b) = len b) by (rewrite len_app, len_drop; lia).
  split; [rewrite M1, M2, M4; reflexivity|]. split.
  - rewrite <- HT at 1. rewrite splice_ins; [|exact W1|rewrite len_drop; unfold pstate, bytes in *; lia].
    rewrite S1, len_drop.
    replace (len b - len (fst st) - pieces_len (snd st)) with (len b - (4 + len v)) by (unfold pstate, bytes in *; lia).
    reflexivity.
  - split; [rewrite w_binary_tail by exact H; reflexivity|].
    split.
    { unfold rcs. rewrite map_map. cbn [fst]. unfold st.
      pose proof (prun_pieces thr true [MS v] ([], [])) as P. cbn [prun fold_left snd map app op_strings concat] in P.
      exact P. }
    split; [rewrite pieces_len_rcs; unfold pstate, bytes in *; lia|].
    rewrite (positions_rcs _ (len (fst st)) _ 0 W1 M3). exact S1.
Qed.

Lemma string_nil_writer thr v b : w_string_nocopy thr b None v = do (b', n) <- w_binary b v; Ok (b', n, None).
Proof. reflexivity. Qed.

Lemma string_small_identical thr v b log :
  (Z.of_N (len v) < thr)%Z ->
  w_string_nocopy thr b (Some log) v = do (b', n) <- w_binary b v; Ok (b', n, Some log).
Proof. intros H. unfold w_string_nocopy. destruct (Z.ltb_spec (Z.of_N (len v)) thr); [reflexivity|lia]. Qed.

(* the buffer has exactly the advertised size (what netpoll's Malloc(BLength) gives) *)
Lemma writer_facts_exact thr b stream strs nocopy copy :
  writer_facts thr b stream strs nocopy copy -> len b = len stream ->
  exists lin pairs,
    nocopy = Ok (lin ++ drop (len lin) b, len lin, Some pairs) /\
    splice (lin ++ drop (len lin) b) pairs = Ok stream /\
    copy = Ok (stream, len stream) /\
    map fst pairs = large thr strs /\
    len lin + pieces_len pairs = len stream.
Proof.
  intros (lin & pairs & E & S & C & P & L & _) Hb. exists lin, pairs.
  split; [exact E|]. split.
  - rewrite S, Hb, N.sub_diag. unfold take. cbn [N.to_nat firstn]. now rewrite app_nil_r.
  - split; [|split; assumption].
    rewrite C. rewrite <- Hb, drop_all by lia. now rewrite app_nil_r.
Qed.
