(* Proofs/NocopyP.v — lemmas about Model/Nocopy.v (C15, and the writer half of C11). *)
From GV Require Import Lib.Bytes Lib.Res Gen.Consts Model.Binary Spec.Wire Model.Nocopy Spec.FastSpec.
From Coq Require Import ZifyN ZifyNat ZifyBool.
Open Scope N_scope.

Lemma nocopy_len_eq v :
  string_length_nocopy v = string_length v /\ binary_length_nocopy v = binary_length v /\
  string_length v = len (enc (IString v)) /\ binary_length v = len (enc (IBinary v)).
Proof.
  unfold string_length_nocopy, string_length, binary_length_nocopy, binary_length, enc.
  rewrite len_app, be_len. repeat split; lia.
Qed.
