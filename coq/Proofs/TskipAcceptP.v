(* Proofs/TskipAcceptP.v — the ACCEPT direction of the generic skip template against the
   reference parser, with no bound on the length of the stream and using only the positive half
   of the SkipN contract:
       Rep s r  :  "state s will deliver (at least) the bytes r next"
       SN_ok    :  a request that fits in r returns those bytes and advances
   If [rp inl_none d t r = Ok (n, h)] then [tskip] returns Ok in a state that will deliver
   [drop n r].  (Proofs/SkipDecodersP.v, by skipm, proves the two-sided agreement for streams
   shorter than 2^31 bytes, where it needs the bound; on the accept path every size the
   template multiplies or converts is < 2^31 because the reference accepted, so no bound is
   needed.  The proof below follows that file's structure with the error branches removed.) *)
From GV Require Import Lib.Bytes Lib.Res Gen.Consts Model.Binary Model.BufReader Model.Skip Model.SkipDecoders
  Spec.ThriftGrammar Spec.RefParse Proofs.RefLib Proofs.RefP Proofs.SkipLib.
From Coq Require Import ZifyN ZifyNat ZifyBool Lia.
Open Scope N_scope.

(* ---------- header decoding shared by the template and BufferReader ---------- *)
Lemma ta_firstn4_take4 (r : bytes) : firstn 4 (take 4 r) = take 4 r.
Proof. unfold take. change (N.to_nat 4) with 4%nat. rewrite firstn_firstn. reflexivity. Qed.

Lemma ta_be_u32_take r : 4 <= len r -> be_u32 (take 4 r) = Ok (unbe (take 4 r)).
Proof.
  intros H. unfold be_u32. rewrite take_len by exact H.
  destruct (N.ltb_spec 4 4); [lia|]. rewrite ta_firstn4_take4. reflexivity.
Qed.
Lemma ta_be_u16_take r : 2 <= len r -> exists x, be_u16 (take 2 r) = Ok x.
Proof.
  intros H. unfold be_u16. rewrite take_len by exact H.
  destruct (N.ltb_spec 2 2); [lia|]. eauto.
Qed.

Lemma ta_take6 (kt vt : N) r2 : take 6 (kt :: vt :: r2) = kt :: vt :: take 4 r2.
Proof. reflexivity. Qed.
Lemma ta_take5 (et : N) r1 : take 5 (et :: r1) = et :: take 4 r1.
Proof. reflexivity. Qed.

Lemma ta_hdr_map kt vt r2 : 4 <= len r2 ->
  (do k <- index (take 6 (kt :: vt :: r2)) 0; do v <- index (take 6 (kt :: vt :: r2)) 1;
   do b2 <- slice_from (take 6 (kt :: vt :: r2)) 2; do u <- be_u32 b2; Ok (k, v, u))
  = Ok (kt, vt, unbe (take 4 r2)).
Proof.
  intros H. rewrite ta_take6.
  unfold index. cbn [N.to_nat nth_error bind]. change (Pos.to_nat 1) with 1%nat. cbn [nth_error bind].
  unfold slice_from. rewrite !len_cons, take_len by exact H.
  destruct (N.leb_spec 2 (1 + (1 + 4))); [|lia]. cbn [bind].
  change (drop 2 (kt :: vt :: take 4 r2)) with (take 4 r2).
  rewrite ta_be_u32_take by exact H. reflexivity.
Qed.
Lemma ta_hdr_list et r1 : 4 <= len r1 ->
  (do v <- index (take 5 (et :: r1)) 0; do b1 <- slice_from (take 5 (et :: r1)) 1; do u <- be_u32 b1; Ok (v, u))
  = Ok (et, unbe (take 4 r1)).
Proof.
  intros H. rewrite ta_take5.
  unfold index. cbn [N.to_nat nth_error bind].
  unfold slice_from. rewrite !len_cons, take_len by exact H.
  destruct (N.leb_spec 1 (1 + 4)); [|lia]. cbn [bind].
  change (drop 1 (et :: take 4 r1)) with (take 4 r1).
  rewrite ta_be_u32_take by exact H. reflexivity.
Qed.

Lemma ta_member_ff rec t r : member false false rec t r = rec t r.
Proof. reflexivity. Qed.

Section TplAcc.
  Variable St : Type.
  Variable skipN : St -> N -> sres St bytes.
  Variable Rep : St -> bytes -> Prop.
  Hypothesis SN_ok : forall s r n, Rep s r -> n <= len r ->
    exists s', skipN s n = (s', Ok (take n r)) /\ Rep s' (drop n r).
  Hypothesis Rep_wf : forall s r, Rep s r -> wf r.

  Definition tacc (x : sres St unit) (r : bytes) (y : pres) : Prop :=
    match y with
    | Ok (n, _) => exists s', x = (s', Ok tt) /\ Rep s' (drop n r)
    | _ => True
    end.

  Variable fu : nat.
  (* the inputs we talk about: shorter than the fuel and than 2^31 *)
  Definition P (r : bytes) : Prop := (length r < fu)%nat.
  Lemma P_drop r n : P r -> P (drop n r).
  Proof. unfold P. intros H1. unfold drop; rewrite skipn_length; lia. Qed.

  Lemma drop_0' (r : bytes) : drop 0 r = r.
  Proof. reflexivity. Qed.

  (* ---------- counted loop ---------- *)
  Section Loop.
    Variables (body : St -> sres St unit) (eR : bytes -> pres).
    Hypothesis HB : forall s r, Rep s r -> P r -> tacc (body s) r (eR r).
    Hypothesis GE : good eR.

    Lemma t_loop_acc : forall fuel1 fuel2 cnt s r,
      Rep s r -> P r -> (length r < fuel1)%nat -> (length r < fuel2)%nat ->
      tacc (t_loop body fuel1 cnt s) r (gelems fuel2 eR cnt r).
    Proof.
      induction fuel1 as [|f IH]; intros fuel2 cnt s r HR HP Hf1 Hf2; [lia|].
      destruct fuel2 as [|f2]; [lia|]. cbn [t_loop gelems].
      destruct (N.eqb_spec cnt 0) as [->|Hc]. { cbn. exists s. split; [reflexivity|exact HR]. }
      specialize (HB s r HR HP). unfold tacc in HB.
      destruct (eR r) as [[n h]|er| |] eqn:ER; try exact I; cbn [bind].
      destruct HB as [s' [Eb HR']]. rewrite Eb. cbn [sbind].
        pose proof (GE _ _ _ ER) as Gb.
        assert (Hd : (length (drop n r) < length r)%nat).
        { apply length_drop_lt; [lia|]. intros ->. change (len (@nil N)) with 0 in Gb. lia. }
        rewrite N.pred_sub.
        specialize (IH f2 (cnt - 1) s' (drop n r) HR' (P_drop r n HP) ltac:(lia) ltac:(lia)).
        unfold tacc in *.
        destruct (gelems f2 eR (cnt - 1) (drop n r)) as [[m hm]|er| |]; try exact I; cbn [bind].
        destruct IH as [s'' [E2 HR'']]. exists s''. split; [exact E2|].
        rewrite drop_plus in HR''. exact HR''.
    Qed.
  End Loop.

  (* ---------- key then value ---------- *)
  Lemma pair_acc (f1 f2 : St -> sres St unit) (e1 e2 : bytes -> pres) :
    (forall s r, Rep s r -> P r -> tacc (f1 s) r (e1 r)) ->
    (forall s r, Rep s r -> P r -> tacc (f2 s) r (e2 r)) ->
    forall s r, Rep s r -> P r ->
      tacc (sbind (f1 s) (fun s' _ => f2 s')) r (gpair e1 e2 r).
  Proof.
    intros H1 H2 s r HR HP. unfold gpair. specialize (H1 s r HR HP). unfold tacc in H1.
    destruct (e1 r) as [[n h]|er| |]; try exact I; cbn [bind].
    destruct H1 as [s' [E1 HR']]. rewrite E1. cbn [sbind].
      specialize (H2 s' (drop n r) HR' (P_drop r n HP)). unfold tacc in *.
      destruct (e2 (drop n r)) as [[m hm]|er| |]; try exact I; cbn [bind].
      destruct H2 as [s'' [E2 HR'']]. exists s''. split; [exact E2|]. rewrite drop_plus in HR''. exact HR''.
  Qed.

  (* ---------- struct loop ---------- *)
  Section StructLoop.
    Variables (fld : St -> N -> sres St unit) (eR : N -> bytes -> pres).
    Hypothesis HF : forall ft s r, ft < 256 -> Rep s r -> P r -> tacc (fld s ft) r (eR ft r).

    Lemma t_struct_loop_acc : forall fuel1 fuel2 s r,
      Rep s r -> P r -> (length r < fuel1)%nat -> (length r < fuel2)%nat ->
      tacc (t_struct_loop skipN fld fuel1 s) r (gfields fuel2 eR r).
    Proof.
      induction fuel1 as [|f IH]; intros fuel2 s r HR HP Hf1 Hf2; [lia|].
      destruct fuel2 as [|f2]; [lia|]. cbn [t_struct_loop gfields].
      destruct r as [|ft r1].
      { exact I. }
      pose proof (Rep_wf _ _ HR) as W. apply wf_cons in W as [Hft W1].
      destruct (SN_ok s (ft :: r1) 1 HR ltac:(rewrite len_cons; lia)) as [s1 [E1 HR1]].
      rewrite E1. cbn [sbind]. change (take 1 (ft :: r1)) with [ft]. change (drop 1 (ft :: r1)) with r1 in HR1.
      unfold sret at 1. cbn [sbind index N.to_nat nth_error].
      destruct (is_ty_ok ft Hft) as (_&_&_&_&_&Hstop). rewrite Hstop.
      destruct (ft =? T_STOP).
      { cbn. exists s1. split; [reflexivity|exact HR1]. }
      assert (HP1 : P r1) by (apply (P_drop (ft :: r1) 1 HP)).
      rewrite hasn_le. destruct (N.leb_spec 2 (len r1)) as [H2|H2].
      2:{ exact I. }
      destruct (SN_ok s1 r1 2 HR1 H2) as [s2 [E2 HR2]]. rewrite E2. cbn [sbind].
      specialize (HF ft s2 (drop 2 r1) Hft HR2 (P_drop r1 2 HP1)). unfold tacc in HF.
      destruct (eR ft (drop 2 r1)) as [[n h]|er| |]; try exact I; cbn [bind].
      destruct HF as [s3 [E3 HR3]]. rewrite E3. cbn [sbind].
        assert (Hl : (length (drop n (drop 2 r1)) < length (ft :: r1))%nat).
        { unfold drop. rewrite !skipn_length. cbn [length]. lia. }
        specialize (IH f2 s3 (drop n (drop 2 r1)) HR3 (P_drop _ n (P_drop r1 2 HP1)) ltac:(lia) ltac:(lia)).
        unfold tacc in *.
        destruct (gfields f2 eR (drop n (drop 2 r1))) as [[m hm]|er| |]; try exact I; cbn [bind].
        destruct IH as [s4 [E4 HR4]]. exists s4. split; [exact E4|].
        rewrite !drop_plus in HR4. replace (3 + n + m) with (1 + (2 + (n + m))) by lia.
        rewrite drop_cons_succ. exact HR4.
    Qed.
  End StructLoop.

  (* ---------- the template ---------- *)
  Lemma skip_exact s r w h : Rep s r ->
    tacc (sbind (skipN s w) (fun s' _ => (s', Ok tt))) r (if hasn r w then Ok (w, h) else Err E_TRUNC).
  Proof.
    intros HR. rewrite hasn_le. destruct (N.leb_spec w (len r)) as [H|H].
    - destruct (SN_ok s r w HR H) as [s' [E HR']]. rewrite E. cbn. exists s'. split; [reflexivity|exact HR'].
    - exact I.
  Qed.

  Lemma tacc_shift x r k (y : pres) :
    tacc x (drop k r) y -> tacc x r (do (n, h) <- y; Ok (k + n, S h)).
  Proof.
    unfold tacc. destruct y as [[n h]|er| |]; cbn [bind]; try tauto.
    intros [s' [E HR]]. exists s'. split; [exact E|]. rewrite drop_plus in HR. exact HR.
  Qed.
  Lemma tacc_top x r (y : pres) :
    tacc x r y -> tacc x r (do (n, h) <- y; Ok (n, S h)).
  Proof. unfold tacc. destruct y as [[n h]|er| |]; cbn [bind]; tauto. Qed.

  Lemma ta_member_fixed_ext_p st rec t w : kind_of t = KFixed w -> forall r, member true st rec t r = fixedp w r.
  Proof.
    intros K r. unfold member, is_fixed. rewrite K. cbn [andb orb]. apply leaf_fixed, K.
  Qed.

  Lemma tskip_acc : forall d s r t, Rep s r -> t < 256 -> P r ->
    tacc (tskip skipN d fu s t) r (rp inl_none d t r).
  Proof.
    induction d as [|d IH]; intros s r t HR Ht HP.
    { exact I. }
    assert (Hlen : (length r < fu)%nat) by apply HP.
    rewrite rp_S. cbn [tskip]. rewrite (tts_ok STpl t Ht). unfold sret at 1. cbn [sbind].
    rewrite fixed_width_pos.
    destruct (is_ty_ok t Ht) as (Hs&Hm&_&Hl&Hst&_). rewrite Hs, Hst, Hm, Hl. clear Hs Hst Hm Hl.
    unfold lvl, is_fixed, is_str, is_map, is_list, is_struct, fixed_width.
    destruct (kind_of t) eqn:K; cbv beta iota.
    - rewrite N2Z.id. apply skip_exact; exact HR.
    - (* string *)
      unfold gstring. rewrite hasn_le. destruct (N.leb_spec 4 (len r)) as [H4|H4].
      2:{ exact I. }
      destruct (SN_ok s r 4 HR H4) as [s1 [E1 HR1]]. rewrite E1. cbn [sbind].
      rewrite ta_be_u32_take by exact H4. unfold sret at 1. cbn [sbind].
      pose proof (unbe4_lt r (Rep_wf _ _ HR)) as Hu32. set (u := unbe (take 4 r)) in *.
      cbv zeta. rewrite i32_neg by exact Hu32.   (* since /repo 2c7f196: sz := int(int32(..)) *)
      destruct (N.leb_spec two31 u) as [Hneg|Hpos].
      { exact I. }
      rewrite i32_small by exact Hpos. rewrite N2Z.id.
      rewrite hasn_le. destruct (N.leb_spec u (len (drop 4 r))) as [Hu|Hu].
      + destruct (SN_ok s1 (drop 4 r) u HR1 Hu) as [s2 [E2 HR2]]. rewrite E2. cbn.
        exists s2. split; [reflexivity|]. rewrite drop_plus in HR2. exact HR2.
      + exact I.
    - (* struct *)
      apply tacc_top. apply t_struct_loop_acc; try assumption; [|lia].
      intros ft s0 r0 Hft HR0 HP0. change (rp_es inl_none (rp inl_none d) ft r0) with (rp inl_none d ft r0).
      apply IH; assumption.
    - (* map *)
      assert (Hfail : len r < 6 -> forall y, tacc (sbind (skipN s 6) y) r (Err E_TRUNC)).
      { intros H6 y. exact I. }
      destruct r as [|kt [|vt r2]]; try (apply Hfail; rewrite ?len_cons; change (len (@nil N)) with 0; lia).
      rewrite hasn_le. destruct (N.leb_spec 4 (len r2)) as [H4|H4].
      2:{ apply Hfail. rewrite !len_cons. lia. }
      clear Hfail.
      pose proof (Rep_wf _ _ HR) as W. apply wf_cons in W as [Hkt W]. apply wf_cons in W as [Hvt W2].
      destruct (SN_ok s (kt :: vt :: r2) 6 HR ltac:(rewrite !len_cons; lia)) as [s1 [E1 HR1]].
      rewrite E1. cbn [sbind]. rewrite (ta_hdr_map kt vt r2 H4). unfold sret at 1. cbn [sbind]. cbv zeta.
      change (drop 6 (kt :: vt :: r2)) with (drop 4 r2) in HR1.
      assert (HP1 : P (drop 4 r2)) by (apply (P_drop (kt :: vt :: r2) 6 HP)).
      pose proof (unbe4_lt r2 W2) as Hu. set (u := unbe (take 4 r2)) in *.
      rewrite i32_neg by exact Hu.
      destruct (N.leb_spec two31 u) as [Hneg|Hpos].
      { exact I. }
      rewrite i32_small by exact Hpos.
      rewrite (tts_ok STpl kt Hkt), (tts_ok STpl vt Hvt). unfold sret. cbn [sbind].
      rewrite !fixed_width_pos.
      unfold rp_em, rp_m. cbn [inl_none in_map_fixed in_map_str]. rewrite Bool.orb_false_r.
      apply (tacc_shift _ (kt :: vt :: r2) 6). change (drop 6 (kt :: vt :: r2)) with (drop 4 r2).
      destruct (is_fixed kt && is_fixed vt) eqn:FF.
      + apply andb_true_iff in FF as [Fk Fv]. unfold is_fixed in Fk, Fv.
        destruct (kind_of kt) as [kw| | | | |] eqn:Kk; try discriminate.
        destruct (kind_of vt) as [vw| | | | |] eqn:Kv; try discriminate.
        unfold fixed_width. rewrite Kk, Kv.
        rewrite (gelems_ext _ _ (fixedp (kw + vw))).
        2:{ intros r. rewrite <- gpair_fixed. apply gpair_ext; apply ta_member_fixed_ext_p; assumption. }
        pose proof (kind_fixed_pos _ _ Kk). pose proof (kind_fixed_pos _ _ Kv).
        rewrite gelems_fixed; [|lia|unfold drop; rewrite skipn_length; cbn [length]; lia].
        rewrite <- N2Z.inj_add, <- N2Z.inj_mul, N2Z.id.
        apply skip_exact. exact HR1.
      + rewrite N2Z.id.
        apply (t_loop_acc (fun s' => sbind (tskip skipN d fu s' kt) (fun s'' _ => tskip skipN d fu s'' vt))
                          (gpair (rp inl_none d kt) (rp inl_none d vt))); try assumption.
        * apply pair_acc; intros s0 r0 HR0 HP0; apply IH; assumption.
        * apply gpair_good; apply rp_good.
        * unfold drop; rewrite skipn_length; cbn [length]; lia.
    - (* list / set *)
      assert (Hfail : len r < 5 -> forall y, tacc (sbind (skipN s 5) y) r (Err E_TRUNC)).
      { intros H5 y. exact I. }
      destruct r as [|et r1]; try (apply Hfail; change (len (@nil N)) with 0; lia).
      rewrite hasn_le. destruct (N.leb_spec 4 (len r1)) as [H4|H4].
      2:{ apply Hfail. rewrite !len_cons. lia. }
      clear Hfail.
      pose proof (Rep_wf _ _ HR) as W. apply wf_cons in W as [Het W1].
      destruct (SN_ok s (et :: r1) 5 HR ltac:(rewrite !len_cons; lia)) as [s1 [E1 HR1]].
      rewrite E1. cbn [sbind]. rewrite (ta_hdr_list et r1 H4). unfold sret at 1. cbn [sbind]. cbv zeta.
      change (drop 5 (et :: r1)) with (drop 4 r1) in HR1.
      assert (HP1 : P (drop 4 r1)) by (apply (P_drop (et :: r1) 5 HP)).
      pose proof (unbe4_lt r1 W1) as Hu. set (u := unbe (take 4 r1)) in *.
      rewrite i32_neg by exact Hu.
      destruct (N.leb_spec two31 u) as [Hneg|Hpos].
      { exact I. }
      rewrite i32_small by exact Hpos.
      rewrite (tts_ok STpl et Het). unfold sret. cbn [sbind].
      rewrite !fixed_width_pos.
      unfold rp_el. cbn [inl_none in_list_str].
      apply (tacc_shift _ (et :: r1) 5). change (drop 5 (et :: r1)) with (drop 4 r1).
      destruct (is_fixed et) eqn:Fe.
      + unfold is_fixed in Fe. destruct (kind_of et) as [w| | | | |] eqn:Ke; try discriminate.
        unfold fixed_width. rewrite Ke.
        rewrite (gelems_ext _ _ (fixedp w)) by (apply ta_member_fixed_ext_p; assumption).
        pose proof (kind_fixed_pos _ _ Ke).
        rewrite gelems_fixed; [|lia|unfold drop; rewrite skipn_length; cbn [length]; lia].
        rewrite <- N2Z.inj_mul, N2Z.id.
        apply skip_exact. exact HR1.
      + rewrite N2Z.id.
        rewrite (gelems_ext _ _ (rp inl_none d et)).
        2:{ intros r. unfold member. rewrite Fe. reflexivity. }
        apply (t_loop_acc (fun s' => tskip skipN d fu s' et) (rp inl_none d et)); try assumption.
        * intros s0 r0 HR0 HP0; apply IH; assumption.
        * apply rp_good.
        * unfold drop; rewrite skipn_length; cbn [length]; lia.
    - exact I.
  Qed.
End TplAcc.

