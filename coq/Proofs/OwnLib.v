(* Proofs/OwnLib.v — lemmas about the shared world of the ownership models (Model/Own.v). *)
From Coq Require Import ZifyN ZifyNat ZifyBool.
From GV Require Import Lib.Bytes Lib.Res Lib.Heap Model.Own.
Open Scope N_scope.

Lemma memb_In b l : memb b l = true <-> In b l.
Proof.
  unfold memb. rewrite existsb_exists. split.
  - intros [x [Hx He]]. apply Nat.eqb_eq in He. now subst.
  - intros H. exists b. split; [assumption|apply Nat.eqb_refl].
Qed.
