(* Proofs/OwnLib.v — lemmas about the shared world of the ownership models (Model/Own.v):
   lists, heap frames, allocator, co-tenant, the env primitives and the ownership monitor. *)
From Coq Require Import ZifyN ZifyNat ZifyBool.
From GV Require Import Lib.Bytes Lib.Res Lib.Heap Model.Own Spec.Ownership.
Open Scope N_scope.

(* ---------- lists ---------- *)
Lemma memb_In b l : memb b l = true <-> In b l.
Proof.
  unfold memb. rewrite existsb_exists. split.
  - intros [x [Hx He]]. apply Nat.eqb_eq in He. now subst.
  - intros H. exists b. split; [assumption|apply Nat.eqb_refl].
Qed.
Lemma memb_false b l : memb b l = false <-> ~ In b l.
Proof. rewrite <- memb_In. destruct (memb b l); split; congruence. Qed.

Lemma In_remove1 b x l : In x (remove1 b l) -> In x l.
Proof.
  induction l as [|y l IH]; cbn [remove1]; [tauto|].
  destruct (Nat.eqb_spec y b); cbn [In]; tauto.
Qed.
Lemma In_remove1_ne b x l : x <> b -> In x l -> In x (remove1 b l).
Proof.
  intros Hne. induction l as [|y l IH]; cbn [remove1 In]; [tauto|].
  destruct (Nat.eqb_spec y b); cbn [In]; intros [H|H]; subst; try tauto; try congruence.
Qed.
Lemma NoDup_remove1 b l : NoDup l -> NoDup (remove1 b l).
Proof.
  induction 1 as [|y l Hy Hl IH]; cbn [remove1]; [constructor|].
  destruct (Nat.eqb_spec y b); [assumption|]. constructor; [|assumption].
  intros H. apply Hy. eapply In_remove1; eassumption.
Qed.
Lemma remove1_notin b l : NoDup l -> ~ In b (remove1 b l).
Proof.
  induction 1 as [|y l Hy Hl IH]; cbn [remove1]; [tauto|].
  destruct (Nat.eqb_spec y b); [subst; assumption|]. cbn [In]. intros [H|H]; [congruence|tauto].
Qed.
Lemma remove1_id b l : ~ In b l -> remove1 b l = l.
Proof.
  induction l as [|y l IH]; cbn [remove1 In]; [reflexivity|]. intros H.
  destruct (Nat.eqb_spec y b); [subst; tauto|]. f_equal. apply IH. tauto.
Qed.

Lemma NoDup_app_l {A} (p q : list A) : NoDup (p ++ q) -> NoDup p.
Proof.
  induction p as [|y p IH]; cbn [app]; intros H; [constructor|].
  inversion H as [|? ? Hy Hr]; subst. constructor; [|now apply IH].
  intros Hi. apply Hy. rewrite in_app_iff. tauto.
Qed.
Lemma NoDup_app_r {A} (p q : list A) : NoDup (p ++ q) -> NoDup q.
Proof.
  induction p as [|y p IH]; cbn [app]; intros H; [assumption|].
  inversion H; subst. now apply IH.
Qed.
Lemma NoDup_app_disj {A} (p q : list A) x : NoDup (p ++ q) -> In x p -> ~ In x q.
Proof.
  induction p as [|y p IH]; cbn [app In]; intros H Hx; [tauto|].
  inversion H as [|? ? Hy Hr]; subst. destruct Hx as [->|Hx]; [|now apply IH].
  intros Hq. apply Hy. rewrite in_app_iff. tauto.
Qed.
Lemma NoDup_app_insert {A} (p q : list A) b : NoDup (p ++ q) -> ~ In b (p ++ q) -> NoDup (p ++ b :: q).
Proof.
  intros Hn Hb. eapply NoDup_Add; [apply Add_app|]. split; assumption.
Qed.

(* ---------- heap frames ---------- *)
Lemma block_app_old (h : heap) x b : (b < length h)%nat -> block (h ++ [x]) b = block h b.
Proof. intros H. unfold block. now rewrite app_nth1. Qed.
Lemma block_app_new (h : heap) x : block (h ++ [x]) (length h) = x.
Proof. unfold block. rewrite app_nth2 by lia. now rewrite Nat.sub_diag. Qed.
Lemma block_oob (h : heap) b : (length h <= b)%nat -> block h b = [].
Proof. intros H. unfold block. now apply nth_overflow. Qed.

Lemma len_take_le {A} n (l : list A) : len (take n l) = N.min n (len l).
Proof. unfold take, len. rewrite firstn_length. lia. Qed.
Lemma len_drop {A} n (l : list A) : len (drop n l) = len l - n.
Proof. unfold drop, len. rewrite skipn_length. lia. Qed.
Lemma len_repeat {A} (x : A) n : len (repeat x n) = N.of_nat n.
Proof. unfold len. now rewrite repeat_length. Qed.

Lemma len_splice l off v : off + len v <= len l -> len (splice l off v) = len l.
Proof.
  intros H. unfold splice. rewrite !len_app, len_take_le, len_drop. lia.
Qed.

Lemma length_write h b off v : length (write h (b, off) v) = length h.
Proof. unfold write. apply set_nth_length. Qed.
Lemma block_write_other h b off v b' : b' <> b -> block (write h (b, off) v) b' = block h b'.
Proof. intros H. unfold write, block. apply nth_set_nth_ne. congruence. Qed.
Lemma block_write_same h b off v : (b < length h)%nat ->
  block (write h (b, off) v) b = splice (block h b) off v.
Proof. intros H. unfold write, block. now apply nth_set_nth_eq. Qed.
Lemma block_write_oob h b off v : (length h <= b)%nat -> write h (b, off) v = h.
Proof.
  unfold write. revert b. induction h as [|x h IH]; intros [|b] H; cbn [set_nth length] in *; try lia; try reflexivity.
  f_equal. apply IH. lia.
Qed.
Lemma len_block_write h b off v b' :
  off + len v <= len (block h b) -> len (block (write h (b, off) v) b') = len (block h b').
Proof.
  intros H. destruct (Nat.eq_dec b' b) as [->|Hne].
  - destruct (Nat.lt_ge_cases b (length h)) as [Hl|Hl].
    + rewrite block_write_same by assumption. now apply len_splice.
    + now rewrite block_write_oob.
  - now rewrite block_write_other.
Qed.

(* reading around a splice *)
Lemma take_app_le {A} n (a b : list A) : n <= len a -> take n (a ++ b) = take n a.
Proof. unfold take, len. intros H. rewrite firstn_app. replace (N.to_nat n - length a)%nat with O by lia. cbn [firstn]. now rewrite app_nil_r. Qed.
Lemma drop_app_ge {A} n (a b : list A) : len a <= n -> drop n (a ++ b) = drop (n - len a) b.
Proof.
  unfold drop, len. intros H. rewrite skipn_app. rewrite skipn_all2 by lia. cbn [app]. f_equal. lia.
Qed.
Lemma drop_app_le {A} n (a b : list A) : n <= len a -> drop n (a ++ b) = drop n a ++ b.
Proof.
  unfold drop, len. intros H. rewrite skipn_app. replace (N.to_nat n - length a)%nat with O by lia. reflexivity.
Qed.
Lemma take_take {A} n m (l : list A) : n <= m -> take n (take m l) = take n l.
Proof. unfold take. intros H. rewrite firstn_firstn. f_equal. lia. Qed.
Lemma drop_take {A} n m (l : list A) : drop n (take m l) = take (m - n) (drop n l).
Proof.
  unfold drop, take. rewrite skipn_firstn_comm. f_equal. lia.
Qed.
Lemma take_all {A} n (l : list A) : len l <= n -> take n l = l.
Proof. unfold take, len. intros H. apply firstn_all2. lia. Qed.
Lemma drop_all {A} n (l : list A) : len l <= n -> drop n l = [].
Proof. unfold drop, len. intros H. apply skipn_all2. lia. Qed.
Lemma take_0 {A} (l : list A) : take 0 l = [].
Proof. reflexivity. Qed.

(* the part of a block before the written window is unchanged *)
Lemma read_splice_before l off v a n : a + n <= off -> off <= len l ->
  take n (drop a (splice l off v)) = take n (drop a l).
Proof.
  intros H Hl. unfold splice.
  rewrite drop_app_le by (rewrite len_take_le; lia).
  rewrite take_app_le by (rewrite len_drop, len_take_le; lia).
  rewrite drop_take. rewrite take_take by lia. reflexivity.
Qed.
(* the part after the written window is unchanged *)
Lemma read_splice_after l off v a n : off + len v <= a -> off + len v <= len l ->
  take n (drop a (splice l off v)) = take n (drop a l).
Proof.
  intros H Hl. unfold splice. rewrite app_assoc.
  rewrite drop_app_ge by (rewrite len_app, len_take_le; lia).
  rewrite len_app, len_take_le. rewrite drop_drop. do 2 f_equal. lia.
Qed.
(* the written window reads as what was written *)
Lemma read_splice_at l off v : off <= len l -> take (len v) (drop off (splice l off v)) = v.
Proof.
  intros Hl. unfold splice.
  rewrite drop_app_ge by (rewrite len_take_le; lia).
  rewrite len_take_le. replace (off - N.min off (len l)) with 0 by lia. rewrite drop_0.
  apply take_app_len.
Qed.

Definition same_on (F : list nat) (h h' : heap) : Prop := forall b, In b F -> block h' b = block h b.
Definition lens_pres (h h' : heap) : Prop :=
  (length h <= length h')%nat /\ forall b, (b < length h)%nat -> len (block h' b) = len (block h b).

Lemma same_on_refl F h : same_on F h h.
Proof. intros b _. reflexivity. Qed.
Lemma same_on_trans F h1 h2 h3 : same_on F h1 h2 -> same_on F h2 h3 -> same_on F h1 h3.
Proof. intros H1 H2 b Hb. rewrite (H2 b Hb). now apply H1. Qed.
Lemma same_on_incl F G h h' : incl G F -> same_on F h h' -> same_on G h h'.
Proof. intros Hi H b Hb. apply H. now apply Hi. Qed.
Lemma lens_pres_refl h : lens_pres h h.
Proof. split; [lia|reflexivity]. Qed.
Lemma lens_pres_trans h1 h2 h3 : lens_pres h1 h2 -> lens_pres h2 h3 -> lens_pres h1 h3.
Proof.
  intros [L1 H1] [L2 H2]. split; [lia|]. intros b Hb. rewrite H2 by lia. now apply H1.
Qed.

(* ---------- world invariant ---------- *)
(* the footprint F of an object is separated from the pool and from the co-tenant *)
Record sep (F : list nat) (w : world) : Prop := mksep {
  sep_nodup : NoDup F;
  sep_valid : Forall (valid w) F;
  sep_out : forall b, In b F -> ~ In b (wpool w ++ wcot w)
}.

Lemma wok_empty : wok empty_world.
Proof. split; cbn; constructor. Qed.

Lemma Forall_valid_mono (w w' : world) l :
  (length (wh w) <= length (wh w'))%nat -> Forall (valid w) l -> Forall (valid w') l.
Proof. intros H. apply Forall_impl. unfold valid. intros; lia. Qed.

(* --- allocation --- *)
Lemma w_fresh_spec w c d F w' b :
  wok w -> sep F w -> w_fresh w c d = (w', b) ->
  wok w' /\ sep (b :: F) w' /\ b = length (wh w) /\ ~ In b F /\
  block (wh w') b = mkbuf c d /\ same_on F (wh w) (wh w') /\ lens_pres (wh w) (wh w') /\
  wpool w' = wpool w /\ wcot w' = wcot w /\ (forall x, (x < length (wh w))%nat -> block (wh w') x = block (wh w) x).
Proof.
  intros [Wn Wv] [Sn Sv So] E. unfold w_fresh in E. inversion E; subst; clear E. cbn [wh wpool wcot].
  assert (Hlen : length (wh w ++ [mkbuf c d]) = S (length (wh w))) by (rewrite app_length; cbn; lia).
  assert (HnF : ~ In (length (wh w)) F).
  { intros H. rewrite Forall_forall in Sv. specialize (Sv _ H). unfold valid in Sv. lia. }
  assert (Hnp : ~ In (length (wh w)) (wpool w ++ wcot w)).
  { intros H. rewrite Forall_forall in Wv. specialize (Wv _ H). unfold valid in Wv. lia. }
  repeat split; cbn [wh wpool wcot]; try assumption; try reflexivity.
  - eapply Forall_valid_mono; [|eassumption]. cbn [wh]. lia.
  - constructor; assumption.
  - constructor; [unfold valid; cbn [wh]; lia|]. eapply Forall_valid_mono; [|eassumption]. cbn [wh]. lia.
  - intros x [<-|Hx]; [assumption|now apply So].
  - apply block_app_new.
  - intros x Hx. apply block_app_old. rewrite Forall_forall in Sv. apply (Sv _ Hx).
  - lia.
  - intros x Hx. now rewrite block_app_old.
  - intros x Hx. now apply block_app_old.
Qed.

Lemma mkbuf_len c d : len (mkbuf c d) = c.
Proof.
  unfold mkbuf. rewrite len_take_le, len_app, len_repeat. lia.
Qed.

Lemma NoDup_app_remove1_l b (p q : list nat) : NoDup (p ++ q) -> NoDup (remove1 b p ++ q).
Proof.
  intros H. induction p as [|y p IH]; cbn [remove1 app] in *; [assumption|].
  inversion H as [|? ? Hy Hr]; subst.
  destruct (Nat.eqb_spec y b); [assumption|]. cbn [app]. constructor; [|now apply IH].
  rewrite in_app_iff in *. intros [Hi|Hi]; [apply Hy; left; eapply In_remove1; eassumption|tauto].
Qed.
Lemma NoDup_app_remove1_r b (p q : list nat) : NoDup (p ++ q) -> NoDup (p ++ remove1 b q).
Proof.
  intros H. induction p as [|y p IH]; cbn [app] in *; [now apply NoDup_remove1|].
  inversion H as [|? ? Hy Hr]; subst. constructor; [|now apply IH].
  rewrite in_app_iff in *. intros [Hi|Hi]; [tauto|apply Hy; right; eapply In_remove1; eassumption].
Qed.
Lemma In_app_remove1_l b x (p q : list nat) : In x (remove1 b p ++ q) -> In x (p ++ q).
Proof. rewrite !in_app_iff. intros [H|H]; [left; eapply In_remove1; eassumption|tauto]. Qed.
Lemma In_app_remove1_r b x (p q : list nat) : In x (p ++ remove1 b q) -> In x (p ++ q).
Proof. rewrite !in_app_iff. intros [H|H]; [tauto|right; eapply In_remove1; eassumption]. Qed.
Lemma notin_app_remove1_l b (p q : list nat) : NoDup (p ++ q) -> In b p -> ~ In b (remove1 b p ++ q).
Proof.
  intros Hn Hb. rewrite in_app_iff. intros [H|H].
  - apply NoDup_app_l in Hn. revert H. now apply remove1_notin.
  - clear -Hn Hb H. induction p as [|y p IH]; cbn [In app] in *; [tauto|].
    inversion Hn as [|? ? Hy Hr]; subst. destruct Hb as [->|Hb]; [apply Hy; rewrite in_app_iff; tauto|now apply IH].
Qed.

Lemma w_alloc_spec w c ch F w' b :
  wok w -> sep F w -> w_alloc w c ch = (w', b) ->
  wok w' /\ sep (b :: F) w' /\ ~ In b F /\ len (block (wh w') b) = c /\
  same_on F (wh w) (wh w') /\ lens_pres (wh w) (wh w') /\ wcot w' = wcot w /\
  (forall x, In x (wpool w') -> In x (wpool w)) /\
  (forall x, (x < length (wh w))%nat -> block (wh w') x = block (wh w) x).
Proof.
  intros Wk Sp E. unfold w_alloc in E.
  assert (Hfresh : forall d, w_fresh w c d = (w', b) ->
    wok w' /\ sep (b :: F) w' /\ ~ In b F /\ len (block (wh w') b) = c /\
    same_on F (wh w) (wh w') /\ lens_pres (wh w) (wh w') /\ wcot w' = wcot w /\
    (forall x, In x (wpool w') -> In x (wpool w)) /\
    (forall x, (x < length (wh w))%nat -> block (wh w') x = block (wh w) x)).
  { intros d Ed. destruct (w_fresh_spec _ _ _ _ _ _ Wk Sp Ed) as (A1 & A2 & A3 & A4 & A5 & A6 & A7 & A8 & A9 & A10).
    repeat split; try assumption; try apply A2; try apply A1.
    - rewrite A5. apply mkbuf_len.
    - apply A7. - apply A7. - intros x. now rewrite A8. }
  destruct ch as [d|pb]; [exact (Hfresh d E)|].
  destruct (memb pb (wpool w) && (len (block (wh w) pb) =? c)) eqn:Ec; [|exact (Hfresh [] E)].
  apply andb_true_iff in Ec as [Em El]. apply memb_In in Em. apply N.eqb_eq in El.
  inversion E; subst; clear E. cbn [wh wpool wcot].
  destruct Wk as [Wn Wv]. destruct Sp as [Sn Sv So].
  assert (HbF : ~ In b F). { intros H. apply (So _ H). rewrite in_app_iff. tauto. }
  repeat split; cbn [wh wpool wcot]; try assumption; try reflexivity; try lia.
  - now apply NoDup_app_remove1_l.
  - rewrite Forall_forall in *. intros x Hx. apply Wv. eapply In_app_remove1_l; eassumption.
  - constructor; assumption.
  - constructor; [|assumption]. rewrite Forall_forall in Wv. apply Wv. rewrite in_app_iff. tauto.
  - intros x [<-|Hx].
    + now apply notin_app_remove1_l.
    + intros H. apply (So _ Hx). eapply In_app_remove1_l; eassumption.
  - intros x Hx. eapply In_remove1; eassumption.
Qed.

Lemma w_gcalloc_spec w c ch F w' b :
  wok w -> sep F w -> w_gcalloc w c ch = (w', b) ->
  wok w' /\ sep (b :: F) w' /\ ~ In b F /\ len (block (wh w') b) = c /\
  same_on F (wh w) (wh w') /\ lens_pres (wh w) (wh w') /\ wcot w' = wcot w /\
  (forall x, In x (wpool w') -> In x (wpool w)) /\
  (forall x, (x < length (wh w))%nat -> block (wh w') x = block (wh w) x).
Proof.
  intros Wk Sp E. unfold w_gcalloc in E.
  assert (Hfresh : forall d, w_fresh w c d = (w', b) ->
    wok w' /\ sep (b :: F) w' /\ ~ In b F /\ len (block (wh w') b) = c /\
    same_on F (wh w) (wh w') /\ lens_pres (wh w) (wh w') /\ wcot w' = wcot w /\
    (forall x, In x (wpool w') -> In x (wpool w)) /\
    (forall x, (x < length (wh w))%nat -> block (wh w') x = block (wh w) x)).
  { intros d Ed. destruct (w_fresh_spec _ _ _ _ _ _ Wk Sp Ed) as (A1 & A2 & A3 & A4 & A5 & A6 & A7 & A8 & A9 & A10).
    repeat split; try assumption; try apply A2; try apply A1.
    - rewrite A5. apply mkbuf_len.
    - apply A7. - apply A7. - intros x. now rewrite A8. }
  destruct ch as [d|pb]; [exact (Hfresh d E)|exact (Hfresh [] E)].
Qed.

(* --- free: the object gives up block b of its footprint --- *)
Lemma w_free_spec w s F :
  wok w -> sep F w -> In (sblk s) F ->
  wok (w_free w s) /\ sep (remove1 (sblk s) F) (w_free w s) /\ wh (w_free w s) = wh w /\ wcot (w_free w s) = wcot w.
Proof.
  intros [Wn Wv] [Sn Sv So] Hb. unfold w_free.
  destruct (is_pow2 (scp s)); cbn [wh wpool wcot].
  - repeat split; cbn [wh wpool wcot app]; try reflexivity.
    + constructor; [now apply So|assumption].
    + constructor; [|assumption]. rewrite Forall_forall in Sv. apply (Sv _ Hb).
    + now apply NoDup_remove1.
    + rewrite Forall_forall in *. intros x Hx. apply Sv. eapply In_remove1; eassumption.
    + intros x Hx [<-|Hi].
      * revert Hx. now apply remove1_notin.
      * apply (So x); [eapply In_remove1; eassumption|assumption].
  - repeat split; try assumption; try reflexivity.
    + now apply NoDup_remove1.
    + rewrite Forall_forall in *. intros x Hx. apply Sv. eapply In_remove1; eassumption.
    + intros x Hx. apply So. eapply In_remove1; eassumption.
Qed.

(* --- the co-tenant never touches the footprint --- *)
Lemma co_step_spec w s F :
  wok w -> sep F w ->
  wok (co_step w s) /\ sep F (co_step w s) /\ same_on F (wh w) (wh (co_step w s)) /\
  lens_pres (wh w) (wh (co_step w s)).
Proof.
  intros Wk Sp. destruct s as [c ch|b off v|b]; cbn [co_step].
  - destruct (w_alloc w c ch) as [w' b] eqn:E.
    destruct (w_alloc_spec _ _ _ _ _ _ Wk Sp E) as (A1 & A2 & A3 & A4 & A5 & A6 & A7 & A8 & A9).
    destruct A1 as [Wn Wv]. destruct A2 as [Sn Sv So].
    assert (Hb : ~ In b (wpool w' ++ wcot w')) by (apply So; now left).
    repeat split; cbn [wh wpool wcot]; try assumption; try apply A6.
    + rewrite A7 in *. now apply NoDup_app_insert.
    + rewrite A7 in *. rewrite Forall_forall in *. intros x Hx. apply in_app_or in Hx as [Hx|[<-|Hx]].
      * apply Wv. rewrite in_app_iff. tauto.
      * apply Sv. now left.
      * apply Wv. rewrite in_app_iff. tauto.
    + now inversion Sn.
    + now inversion Sv.
    + intros x Hx Hi. apply in_app_or in Hi as [Hi|[<-|Hi]].
      * apply (So x); [now right|]. rewrite in_app_iff. tauto.
      * tauto.
      * apply (So x); [now right|]. rewrite in_app_iff. tauto.
  - destruct (memb b (wcot w) && (off + len v <=? len (block (wh w) b))) eqn:Ec.
    + apply andb_true_iff in Ec as [Em El]. apply memb_In in Em. apply N.leb_le in El.
      destruct Wk as [Wn Wv]. destruct Sp as [Sn Sv So].
      repeat split; cbn [wh wpool wcot]; try assumption.
      * eapply Forall_valid_mono; [|eassumption]. cbn [wh]. rewrite length_write. lia.
      * eapply Forall_valid_mono; [|eassumption]. cbn [wh]. rewrite length_write. lia.
      * intros x Hx. apply block_write_other. intros ->. apply (So _ Hx). rewrite in_app_iff. tauto.
      * rewrite length_write. lia.
      * intros x _. now apply len_block_write.
    + split; [assumption|split; [assumption|split; [apply same_on_refl|apply lens_pres_refl]]].
  - destruct (memb b (wcot w)) eqn:Em.
    + apply memb_In in Em. destruct Wk as [Wn Wv]. destruct Sp as [Sn Sv So].
      assert (Hbp : ~ In b (wpool w)).
      { intros H. exact (NoDup_app_disj _ _ _ Wn H Em). }
      assert (Hnb : ~ In b (wpool w ++ remove1 b (wcot w))).
      { rewrite in_app_iff. intros [H|H]; [tauto|]. revert H. apply remove1_notin. now apply NoDup_app_r in Wn. }
      repeat split; cbn [wh wpool wcot]; try assumption; try apply same_on_refl; try apply lens_pres_refl.
      * destruct (is_pow2 _); [|now apply NoDup_app_remove1_r].
        cbn [app]. constructor; [assumption|now apply NoDup_app_remove1_r].
      * rewrite Forall_forall in *. intros x Hx.
        assert (Hx' : In x (wpool w ++ wcot w)).
        { destruct (is_pow2 _); [destruct Hx as [<-|Hx]|]; try (eapply In_app_remove1_r; eassumption).
          rewrite in_app_iff. tauto. }
        apply (Wv _ Hx').
      * intros x Hx Hi. apply (So _ Hx).
        destruct (is_pow2 _); [destruct Hi as [<-|Hi]|]; try (eapply In_app_remove1_r; eassumption).
        rewrite in_app_iff. tauto.
    + split; [assumption|split; [assumption|split; [apply same_on_refl|apply lens_pres_refl]]].
Qed.

Lemma co_run_spec l : forall w F,
  wok w -> sep F w ->
  wok (co_run w l) /\ sep F (co_run w l) /\ same_on F (wh w) (wh (co_run w l)) /\
  lens_pres (wh w) (wh (co_run w l)).
Proof.
  induction l as [|s l IH]; intros w F Wk Sp; cbn [co_run fold_left].
  - split; [assumption|split; [assumption|split; [apply same_on_refl|apply lens_pres_refl]]].
  - destruct (co_step_spec w s F Wk Sp) as (A1 & A2 & A3 & A4).
    destruct (IH _ _ A1 A2) as (B1 & B2 & B3 & B4). fold (co_run (co_step w s) l).
    split; [assumption|split; [assumption|split]].
    + eapply same_on_trans; eassumption.
    + eapply lens_pres_trans; eassumption.
Qed.

(* ---------- the monitor along the (newest-first) trace ---------- *)
Definition montr (tr : list event) : option mstate := mon m0 (rev tr).

Lemma mon_app m a b : mon m (a ++ b) = match mon m a with Some m' => mon m' b | None => None end.
Proof.
  revert m; induction a as [|ev a IH]; intros m; cbn [mon app]; [reflexivity|].
  destruct (mon_step m ev); [apply IH|reflexivity].
Qed.
Lemma montr_cons ev tr :
  montr (ev :: tr) = match montr tr with Some m => mon_step m ev | None => None end.
Proof.
  unfold montr. cbn [rev]. rewrite mon_app. destruct (mon m0 (rev tr)); [|reflexivity].
  cbn [mon]. now destruct (mon_step m ev).
Qed.

Definition seteq (a b : list nat) : Prop := forall x, In x a <-> In x b.
Lemma seteq_refl a : seteq a a.
Proof. intros x. tauto. Qed.
Lemma seteq_cons b a a' : seteq a a' -> seteq (b :: a) (b :: a').
Proof. intros H x. cbn [In]. rewrite (H x). tauto. Qed.
Lemma In_remove1_iff b x l : NoDup l -> (In x (remove1 b l) <-> In x l /\ x <> b).
Proof.
  intros Hn. split.
  - intros H. split; [eapply In_remove1; eassumption|]. intros ->. revert H. now apply remove1_notin.
  - intros [H Hne]. now apply In_remove1_ne.
Qed.
Lemma seteq_remove1 b a a' : NoDup a -> NoDup a' -> seteq a a' -> seteq (remove1 b a) (remove1 b a').
Proof. intros Ha Ha' H x. rewrite !In_remove1_iff by assumption. rewrite (H x). tauto. Qed.
Lemma remove1_app_in b (p q : list nat) : In b p -> remove1 b (p ++ q) = remove1 b p ++ q.
Proof.
  induction p as [|y p IH]; cbn [In remove1 app]; [tauto|]. intros H.
  destruct (Nat.eqb_spec y b); [reflexivity|]. cbn [app]. f_equal. apply IH. destruct H; [congruence|assumption].
Qed.
Lemma remove1_app_notin b (p q : list nat) : ~ In b p -> remove1 b (p ++ q) = p ++ remove1 b q.
Proof.
  induction p as [|y p IH]; cbn [In remove1 app]; [reflexivity|]. intros H.
  destruct (Nat.eqb_spec y b); [subst; tauto|]. f_equal. apply IH. tauto.
Qed.

From Coq Require Import Permutation.
Lemma sep_perm F F' w : Permutation F F' -> sep F w -> sep F' w.
Proof.
  intros P [Sn Sv So]. split.
  - eapply Permutation_NoDup; eassumption.
  - eapply Permutation_Forall; eassumption.
  - intros b Hb. apply So. eapply Permutation_in; [apply Permutation_sym|]; eassumption.
Qed.
Lemma sep_sub F F' w : NoDup F' -> incl F' F -> sep F w -> sep F' w.
Proof.
  intros Hn Hi [Sn Sv So]. split; [assumption| |].
  - rewrite Forall_forall in *. intros x Hx. apply Sv. now apply Hi.
  - intros b Hb. apply So. now apply Hi.
Qed.
Lemma sep_mono F w w' : wpool w' = wpool w -> wcot w' = wcot w -> (length (wh w) <= length (wh w'))%nat ->
  sep F w -> sep F w'.
Proof.
  intros Hp Hc Hl [Sn Sv So]. split; [assumption| |].
  - eapply Forall_valid_mono; eassumption.
  - rewrite Hp, Hc. assumption.
Qed.
Lemma wok_mono w w' : wpool w' = wpool w -> wcot w' = wcot w -> (length (wh w) <= length (wh w'))%nat ->
  wok w -> wok w'.
Proof.
  intros Hp Hc Hl [Wn Wv]. split; rewrite Hp, Hc; [assumption|]. eapply Forall_valid_mono; eassumption.
Qed.

Definition frame (F : list nat) (e e' : env) : Prop :=
  same_on F (wh (ew e)) (wh (ew e')) /\ lens_pres (wh (ew e)) (wh (ew e')).
Lemma frame_refl F e : frame F e e.
Proof. split; [apply same_on_refl|apply lens_pres_refl]. Qed.
Lemma frame_trans F e1 e2 e3 : frame F e1 e2 -> frame F e2 e3 -> frame F e1 e3.
Proof. intros [A B] [C D]. split; [eapply same_on_trans|eapply lens_pres_trans]; eassumption. Qed.
Lemma frame_incl F G e e' : incl G F -> frame F e e' -> frame G e e'.
Proof. intros Hi [A B]. split; [eapply same_on_incl; eassumption|assumption]. Qed.

Lemma pop_choice_spec e ch e1 : pop_choice e = (ch, e1) -> ew e1 = ew e /\ eev e1 = eev e.
Proof.
  unfold pop_choice. destruct (eal e); intros H; inversion H; subst; split; reflexivity.
Qed.

Lemma splice_nil l off : splice l off [] = l.
Proof. unfold splice. cbn [len length app]. rewrite N.add_0_r. apply take_drop. Qed.

Lemma e_write_heap e b off v :
  wh (ew (e_write e b off v)) = write (wh (ew e)) (b, off) v \/ (v = [] /\ e_write e b off v = e).
Proof. unfold e_write. destruct v; [right; split; reflexivity|left; reflexivity]. Qed.

(* the env-level invariant of one object: O = blocks it owns, L = caller blocks it may write,
   R = caller blocks it may only read.  X is the REST OF THE WORLD the object must leave alone:
   blocks (with their present contents) that belong to other objects sharing the heap and the
   pool (C14); for a single object X = []. *)
Section EInv.
Variable X : list (nat * bytes).
Definition xblocks : list nat := map fst X.
Definition xsnap (h : heap) : Prop := Forall (fun p => block h (fst p) = snd p) X.

Record einv (O L R : list nat) (e : env) : Prop := mkeinv {
  ei_wok : wok (ew e);
  ei_sep : sep (O ++ L ++ R ++ xblocks) (ew e);
  ei_mon : exists m, montr (eev e) = Some m /\ NoDup (mowned m) /\
                     seteq (mowned m) O /\ seteq (mlent m) L /\ seteq (mro m) R;
  ei_x : xsnap (wh (ew e))
}.

Lemma xsnap_same h h' : same_on xblocks h h' -> xsnap h -> xsnap h'.
Proof.
  unfold xsnap, xblocks. intros Hs Hx. rewrite Forall_forall in *. intros p Hp.
  rewrite (Hs (fst p)); [now apply Hx|]. now apply in_map.
Qed.
Lemma foot_assoc (O L R : list nat) : (O ++ L ++ R) ++ xblocks = O ++ L ++ R ++ xblocks.
Proof. now rewrite <- !app_assoc. Qed.
Lemma incl_foot (O L R : list nat) : incl (O ++ L ++ R) (O ++ L ++ R ++ xblocks).
Proof. intros x. rewrite !in_app_iff. tauto. Qed.
Lemma incl_xb (O L R : list nat) : incl xblocks (O ++ L ++ R ++ xblocks).
Proof. intros x. rewrite !in_app_iff. tauto. Qed.

Lemma einv_world O L R e e' :
  ew e' = ew e -> eev e' = eev e -> einv O L R e -> einv O L R e'.
Proof. intros Hw Ht [A B C D]. split; rewrite ?Hw, ?Ht; assumption. Qed.

Lemma einv_sep3 O L R e : einv O L R e -> sep (O ++ L ++ R) (ew e).
Proof.
  intros [_ Sp _ _]. eapply sep_sub; [|apply incl_foot|exact Sp].
  destruct Sp as [Sn _ _]. rewrite <- foot_assoc in Sn. now apply NoDup_app_l in Sn.
Qed.

Lemma einv_callback O L R e :
  einv O L R e -> einv O L R (e_callback e) /\ frame (O ++ L ++ R) e (e_callback e) /\ eev (e_callback e) = eev e.
Proof.
  intros [Wk Sp Mn Hx]. unfold e_callback. destruct (eadv e) as [|s r].
  - split; [split; assumption|split; [apply frame_refl|reflexivity]].
  - destruct (co_run_spec s _ _ Wk Sp) as (A1 & A2 & A3 & A4). cbn [ew eev].
    split; [split; try assumption|split; [split; [eapply same_on_incl; [apply incl_foot|exact A3]|assumption]|reflexivity]].
    eapply xsnap_same; [|exact Hx]. eapply same_on_incl; [apply incl_xb|exact A3].
Qed.
Lemma einv_poolpoint O L R e :
  einv O L R e -> einv O L R (e_poolpoint e) /\ frame (O ++ L ++ R) e (e_poolpoint e) /\ eev (e_poolpoint e) = eev e.
Proof.
  intros [Wk Sp Mn Hx]. unfold e_poolpoint. destruct (epool e) as [|s r].
  - split; [split; assumption|split; [apply frame_refl|reflexivity]].
  - destruct (co_run_spec s _ _ Wk Sp) as (A1 & A2 & A3 & A4). cbn [ew eev].
    split; [split; try assumption|split; [split; [eapply same_on_incl; [apply incl_foot|exact A3]|assumption]|reflexivity]].
    eapply xsnap_same; [|exact Hx]. eapply same_on_incl; [apply incl_xb|exact A3].
Qed.

Lemma mon_alloc_ok m b O L R :
  seteq (mowned m) O -> seteq (mlent m) L -> seteq (mro m) R -> ~ In b (O ++ L ++ R) ->
  mon_step m (EvAlloc b) = Some (mkM (b :: mowned m) (mlent m) (mro m)).
Proof.
  intros HO HL HR Hb. cbn [mon_step]. rewrite !in_app_iff in Hb.
  assert (memb b (mowned m) = false) as -> by (apply memb_false; rewrite (HO b); tauto).
  assert (memb b (mlent m) = false) as -> by (apply memb_false; rewrite (HL b); tauto).
  assert (memb b (mro m) = false) as -> by (apply memb_false; rewrite (HR b); tauto).
  reflexivity.
Qed.

Lemma einv_alloc_gen O L R e w' b (e' : env) :
  einv O L R e ->
  wok w' -> sep (b :: O ++ L ++ R ++ xblocks) w' -> ~ In b (O ++ L ++ R) ->
  same_on xblocks (wh (ew e)) (wh w') ->
  ew e' = w' -> eev e' = EvAlloc b :: eev e ->
  einv (b :: O) L R e'.
Proof.
  intros [Wk Sp (m & Hm & Hnd & HO & HL & HR) Hx] Wk' Sp' Hb Hs Ew Et. split.
  - now rewrite Ew.
  - now rewrite Ew.
  - rewrite Et, montr_cons, Hm. erewrite mon_alloc_ok by eassumption.
    eexists. split; [reflexivity|]. cbn [mowned mlent mro].
    split; [|split; [now apply seteq_cons|split; assumption]].
    constructor; [|assumption]. rewrite (HO b). rewrite !in_app_iff in Hb. tauto.
  - rewrite Ew. eapply xsnap_same; eassumption.
Qed.

Lemma einv_malloc O L R e c e' b :
  einv O L R e -> e_malloc e c = (e', b) ->
  einv (b :: O) L R e' /\ ~ In b (O ++ L ++ R) /\ len (block (wh (ew e')) b) = pow2ceil c /\
  frame (O ++ L ++ R) e e'.
Proof.
  intros Hi E. unfold e_malloc in E.
  destruct (einv_poolpoint _ _ _ _ Hi) as (Hi0 & Fr0 & Et0).
  destruct (pop_choice (e_poolpoint e)) as [ch e1] eqn:Ep.
  destruct (pop_choice_spec _ _ _ Ep) as [Ew1 Et1].
  destruct (w_alloc (ew e1) (pow2ceil c) ch) as [w' b'] eqn:Ea.
  inversion E; subst; clear E.
  destruct Hi0 as [Wk Sp Mn Hx]. rewrite <- Ew1 in Wk, Sp.
  destruct (w_alloc_spec _ _ _ _ _ _ Wk Sp Ea) as (A1 & A2 & A3 & A4 & A5 & A6 & A7 & A8 & A9).
  assert (Hb3 : ~ In b (O ++ L ++ R)) by (intros H; apply A3; now apply incl_foot).
  split; [|split; [assumption|split; [assumption|]]].
  - eapply (einv_alloc_gen O L R (e_poolpoint e)); try eassumption; try reflexivity.
    + split; [rewrite <- Ew1 at 1; exact Wk| rewrite <- Ew1 at 1; exact Sp| exact Mn|exact Hx].
    + rewrite <- Ew1. eapply same_on_incl; [apply incl_xb|exact A5].
    + cbn [eev]. now rewrite Et1.
  - eapply frame_trans; [exact Fr0|]. split; cbn [ew]; rewrite <- Ew1; [|assumption].
    eapply same_on_incl; [apply incl_foot|exact A5].
Qed.

Lemma einv_gcalloc O L R e c e' b :
  einv O L R e -> e_gcalloc e c = (e', b) ->
  einv (b :: O) L R e' /\ ~ In b (O ++ L ++ R) /\ len (block (wh (ew e')) b) = c /\
  frame (O ++ L ++ R) e e'.
Proof.
  intros Hi E. unfold e_gcalloc in E.
  destruct (pop_choice e) as [ch e1] eqn:Ep.
  destruct (pop_choice_spec _ _ _ Ep) as [Ew1 Et1].
  destruct (w_gcalloc (ew e1) c ch) as [w' b'] eqn:Ea.
  inversion E; subst; clear E.
  pose proof Hi as [Wk Sp Mn Hx]. rewrite <- Ew1 in Wk, Sp.
  destruct (w_gcalloc_spec _ _ _ _ _ _ Wk Sp Ea) as (A1 & A2 & A3 & A4 & A5 & A6 & A7 & A8 & A9).
  assert (Hb3 : ~ In b (O ++ L ++ R)) by (intros H; apply A3; now apply incl_foot).
  split; [|split; [assumption|split; [assumption|]]].
  - eapply (einv_alloc_gen O L R e); try eassumption; try reflexivity.
    + rewrite <- Ew1. eapply same_on_incl; [apply incl_xb|exact A5].
    + cbn [eev]. now rewrite Et1.
  - split; cbn [ew]; rewrite <- Ew1; [|assumption]. eapply same_on_incl; [apply incl_foot|exact A5].
Qed.

Lemma einv_free O L R e s :
  einv O L R e -> In (sblk s) O -> soff s = 0 -> scp s = len (block (wh (ew e)) (sblk s)) ->
  einv (remove1 (sblk s) O) L R (e_free e s) /\ frame (remove1 (sblk s) O ++ L ++ R) e (e_free e s) /\
  lens_pres (wh (ew e)) (wh (ew (e_free e s))).
Proof.
  intros [Wk Sp (m & Hm & Hnd & HO & HL & HR) Hx] Hb Hoff Hcp.
  assert (HbF : In (sblk s) (O ++ L ++ R ++ xblocks)) by (rewrite in_app_iff; tauto).
  destruct (w_free_spec _ s _ Wk Sp HbF) as (A1 & A2 & A3 & A4).
  rewrite remove1_app_in in A2 by assumption.
  set (e1 := mkE (w_free (ew e) s) (eal e) (eadv e) (epool e)
                 (EvFree (sblk s) (soff s) (scp s) (len (block (wh (ew e)) (sblk s))) :: eev e)).
  assert (Hi1 : einv (remove1 (sblk s) O) L R e1).
  { split; cbn [ew eev e1]; [assumption|assumption| |rewrite A3; assumption].
    rewrite montr_cons, Hm. cbn [mon_step].
    assert (memb (sblk s) (mowned m) = true) as -> by (apply memb_In; now apply HO).
    rewrite Hoff, Hcp, !N.eqb_refl. cbn [andb].
    eexists. split; [reflexivity|]. cbn [mowned mlent mro].
    split; [now apply NoDup_remove1|split; [|split; assumption]].
    apply seteq_remove1; try assumption. destruct Sp as [Sn _ _]. now apply NoDup_app_l in Sn. }
  assert (Fr1 : frame (remove1 (sblk s) O ++ L ++ R) e e1).
  { split; cbn [ew e1]; rewrite A3; [apply same_on_refl|apply lens_pres_refl]. }
  unfold e_free. fold e1. destruct (is_pow2 (scp s)).
  - destruct (einv_poolpoint _ _ _ _ Hi1) as (B1 & B2 & B3).
    split; [assumption|]. assert (Fr : frame (remove1 (sblk s) O ++ L ++ R) e (e_poolpoint e1)) by (eapply frame_trans; eassumption).
    split; [assumption|apply Fr].
  - split; [assumption|split; [assumption|apply Fr1]].
Qed.

Lemma einv_write O L R e b off v :
  einv O L R e -> In b (O ++ L) -> off + len v <= len (block (wh (ew e)) b) ->
  einv O L R (e_write e b off v) /\
  block (wh (ew (e_write e b off v))) b = splice (block (wh (ew e)) b) off v /\
  (forall b', b' <> b -> block (wh (ew (e_write e b off v))) b' = block (wh (ew e)) b') /\
  lens_pres (wh (ew e)) (wh (ew (e_write e b off v))).
Proof.
  intros Hi Hb Hl. unfold e_write. destruct v as [|x v'].
  - split; [assumption|]. rewrite splice_nil. split; [reflexivity|split; [reflexivity|apply lens_pres_refl]].
  - set (v := x :: v') in *.
    destruct Hi as [Wk Sp (m & Hm & Hnd & HO & HL & HR) Hx].
    assert (Hv : (b < length (wh (ew e)))%nat).
    { destruct Sp as [_ Sv _]. rewrite Forall_forall in Sv. apply Sv. rewrite app_assoc, in_app_iff. tauto. }
    assert (Hbx : ~ In b xblocks).
    { destruct Sp as [Sn _ _]. rewrite !app_assoc in Sn. rewrite <- app_assoc in Sn.
      intros H. apply (NoDup_app_disj _ _ _ Sn Hb). rewrite in_app_iff. tauto. }
    split; [split|split; [|split]]; cbn [ew wh wpool wcot eev].
    + eapply wok_mono; try eassumption; try reflexivity. cbn [wh]. rewrite length_write. lia.
    + eapply sep_mono; try eassumption; try reflexivity. cbn [wh]. rewrite length_write. lia.
    + cbn [eev]. rewrite montr_cons, Hm. cbn [mon_step].
      apply in_app_or in Hb.
      assert (memb b (mowned m) || memb b (mlent m) = true) as ->.
      { apply orb_true_iff. destruct Hb as [Hb|Hb]; [left; apply memb_In; now apply HO|right; apply memb_In; now apply HL]. }
      exists m. repeat split; try assumption; try apply HO; try apply HL; try apply HR.
    + eapply xsnap_same; [|exact Hx]. intros x0 Hx0. apply block_write_other. intros ->. tauto.
    + now apply block_write_same.
    + intros b' Hne. now apply block_write_other.
    + split; [rewrite length_write; lia|]. intros b' _. now apply len_block_write.
Qed.

Lemma einv_read O L R e b off n :
  einv O L R e -> In b (O ++ L ++ R) ->
  einv O L R (fst (e_read e b off n)) /\ ew (fst (e_read e b off n)) = ew e /\
  snd (e_read e b off n) = take n (drop off (block (wh (ew e)) b)).
Proof.
  intros Hi Hb. unfold e_read. cbn [fst snd read]. split; [|split; [destruct (n =? 0); reflexivity|reflexivity]].
  destruct (n =? 0); [assumption|].
  destruct Hi as [Wk Sp (m & Hm & Hnd & HO & HL & HR) Hx]. split; cbn [emit ew eev]; [assumption|assumption| |assumption].
  rewrite montr_cons, Hm. cbn [mon_step].
  rewrite !in_app_iff in Hb.
  assert (memb b (mowned m) || memb b (mlent m) || memb b (mro m) = true) as ->.
  { rewrite !orb_true_iff. destruct Hb as [Hb|[Hb|Hb]];
      [left; left; apply memb_In; now apply HO|left; right; apply memb_In; now apply HL|right; apply memb_In; now apply HR]. }
  exists m. repeat split; try assumption; try apply HO; try apply HL; try apply HR.
Qed.

Lemma einv_lend O L R e contents ro e' b :
  einv O L R e -> e_lend e contents ro = (e', b) ->
  (if ro then einv O L (b :: R) e' else einv O (b :: L) R e') /\ ~ In b (O ++ L ++ R) /\
  block (wh (ew e')) b = contents /\ frame (O ++ L ++ R) e e' /\
  (forall x, (x < length (wh (ew e)))%nat -> block (wh (ew e')) x = block (wh (ew e)) x).
Proof.
  intros [Wk Sp (m & Hm & Hnd & HO & HL & HR) Hx] E. unfold e_lend in E. inversion E; subst; clear E.
  cbn [ew eev wh].
  assert (Ef : w_fresh (ew e) (len contents) contents =
               (mkW (wh (ew e) ++ [mkbuf (len contents) contents]) (wpool (ew e)) (wcot (ew e)), length (wh (ew e)))) by reflexivity.
  destruct (w_fresh_spec _ _ _ _ _ _ Wk Sp Ef) as (A1 & A2 & A3 & A4 & A5 & A6 & A7 & A8 & A9 & A10).
  assert (Hmk : mkbuf (len contents) contents = contents).
  { unfold mkbuf. rewrite take_app_le by lia. now apply take_all. }
  rewrite Hmk in *. set (b := length (wh (ew e))) in *.
  assert (A4' : ~ In b (O ++ L ++ R)) by (intros H; apply A4; now apply incl_foot).
  assert (Hmon : forall r, montr (EvLend b r :: eev e) =
            Some (if r then mkM (mowned m) (mlent m) (b :: mro m) else mkM (mowned m) (b :: mlent m) (mro m))).
  { intros r. rewrite montr_cons, Hm. cbn [mon_step]. rewrite !in_app_iff in A4'.
    assert (memb b (mowned m) = false) as -> by (apply memb_false; rewrite (HO b); tauto).
    assert (memb b (mlent m) = false) as -> by (apply memb_false; rewrite (HL b); tauto).
    assert (memb b (mro m) = false) as -> by (apply memb_false; rewrite (HR b); tauto).
    reflexivity. }
  assert (Hx' : xsnap (wh (ew e) ++ [contents])).
  { eapply xsnap_same; [|exact Hx]. eapply same_on_incl; [apply incl_xb|exact A6]. }
  split; [|split; [assumption|split; [apply block_app_new|split; [split; [eapply same_on_incl; [apply incl_foot|exact A6]|assumption]|]]]].
  - destruct ro; split; cbn [ew eev wh]; try assumption.
    + eapply sep_perm; [|exact A2]. cbn [app]. rewrite !(app_assoc O L). apply Permutation_middle.
    + rewrite Hmon. eexists. split; [reflexivity|]. cbn [mowned mlent mro].
      split; [assumption|split; [assumption|split; [assumption|now apply seteq_cons]]].
    + eapply sep_perm; [|exact A2]. apply Permutation_middle.
    + rewrite Hmon. eexists. split; [reflexivity|]. cbn [mowned mlent mro].
      split; [assumption|split; [assumption|split; [now apply seteq_cons|assumption]]].
  - intros x Hx0. now apply block_app_old.
Qed.

(* the object hands an owned block to the caller for good *)
Lemma einv_give_owned O L R e b :
  einv O L R e -> In b O -> einv (remove1 b O) L (b :: R) (emit e (EvGive b)).
Proof.
  intros [Wk Sp (m & Hm & Hnd & HO & HL & HR) Hx] Hb.
  assert (HnO : NoDup O) by (destruct Sp as [Sn _ _]; now apply NoDup_app_l in Sn).
  split; cbn [emit ew eev]; [assumption| | |assumption].
  - eapply sep_perm; [|exact Sp].
    assert (P1 : Permutation O (b :: remove1 b O)).
    { clear -Hb. induction O as [|y O IH]; cbn [In remove1] in *; [tauto|].
      destruct (Nat.eqb_spec y b); [subst; apply Permutation_refl|].
      destruct Hb as [->|Hb]; [congruence|]. eapply perm_trans; [apply perm_skip, IH, Hb|apply perm_swap]. }
    eapply perm_trans; [apply Permutation_app_tail, P1|]. cbn [app].
    rewrite !(app_assoc (remove1 b O) L). apply Permutation_middle.
  - rewrite montr_cons, Hm. cbn [mon_step].
    assert (memb b (mowned m) = true) as -> by (apply memb_In; now apply HO).
    eexists. split; [reflexivity|]. cbn [mowned mlent mro].
    split; [now apply NoDup_remove1|split; [now apply seteq_remove1|split; [assumption|now apply seteq_cons]]].
Qed.
Lemma einv_give_lent O L R e b :
  einv O L R e -> ~ In b O -> In b L -> einv O L R (emit e (EvGive b)).
Proof.
  intros [Wk Sp (m & Hm & Hnd & HO & HL & HR) Hx] HbO Hb. split; cbn [emit ew eev]; [assumption|assumption| |assumption].
  rewrite montr_cons, Hm. cbn [mon_step].
  assert (memb b (mowned m) = false) as -> by (apply memb_false; now rewrite (HO b)).
  assert (memb b (mlent m) = true) as -> by (apply memb_In; now apply HL).
  exists m. repeat split; try assumption; try apply HO; try apply HL; try apply HR.
Qed.
Lemma einv_drop_owned O L R e b :
  einv O L R e -> In b O -> einv (remove1 b O) L R (emit e (EvDrop b)).
Proof.
  intros [Wk Sp (m & Hm & Hnd & HO & HL & HR) Hx] Hb.
  assert (HnO : NoDup O) by (destruct Sp as [Sn _ _]; now apply NoDup_app_l in Sn).
  split; cbn [emit ew eev]; [assumption| | |assumption].
  - eapply sep_sub; [| |exact Sp].
    + destruct Sp as [Sn _ _]. rewrite <- remove1_app_in by assumption. now apply NoDup_remove1.
    + intros x. rewrite !in_app_iff. intros [H|H]; [left; eapply In_remove1; eassumption|tauto].
  - rewrite montr_cons, Hm. cbn [mon_step].
    assert (memb b (mowned m) = true) as -> by (apply memb_In; now apply HO).
    eexists. split; [reflexivity|]. cbn [mowned mlent mro].
    split; [now apply NoDup_remove1|split; [now apply seteq_remove1|split; assumption]].
Qed.
Lemma einv_drop_lent O L R e b :
  einv O L R e -> ~ In b O -> In b L -> einv O L R (emit e (EvDrop b)).
Proof.
  intros [Wk Sp (m & Hm & Hnd & HO & HL & HR) Hx] HbO Hb. split; cbn [emit ew eev]; [assumption|assumption| |assumption].
  rewrite montr_cons, Hm. cbn [mon_step].
  assert (memb b (mowned m) = false) as -> by (apply memb_false; now rewrite (HO b)).
  assert (memb b (mlent m) = true) as -> by (apply memb_In; now apply HL).
  exists m. repeat split; try assumption; try apply HO; try apply HL; try apply HR.
Qed.

Lemma einv_perm O O' L R e : Permutation O O' -> einv O L R e -> einv O' L R e.
Proof.
  intros P [Wk Sp (m & Hm & Hnd & HO & HL & HR) Hx]. split; [assumption| | |assumption].
  - eapply sep_perm; [|exact Sp]. now apply Permutation_app_tail.
  - exists m. split; [assumption|split; [assumption|split; [|split; assumption]]].
    intros x. rewrite (HO x). split; apply Permutation_in; [assumption|now apply Permutation_sym].
Qed.

(* the caller's direct store into a block of the footprint (a region of a writer) *)
Lemma einv_caller_write O L R e h' :
  einv O L R e -> length h' = length (wh (ew e)) -> same_on xblocks (wh (ew e)) h' ->
  einv O L R (mkE (mkW h' (wpool (ew e)) (wcot (ew e))) (eal e) (eadv e) (epool e) (eev e)).
Proof.
  intros [Wk Sp Mn Hx] Hl Hs. split; cbn [ew eev wh].
  - eapply wok_mono; [| | |exact Wk]; cbn [wpool wcot wh]; try reflexivity. lia.
  - eapply sep_mono; [| | |exact Sp]; cbn [wpool wcot wh]; try reflexivity. lia.
  - exact Mn.
  - eapply xsnap_same; eassumption.
Qed.
End EInv.

Lemma pow2ceil_ge c : c <= pow2ceil c.
Proof.
  unfold pow2ceil. destruct (N.le_gt_cases c 1) as [H|H].
  - assert (0 < 2 ^ N.log2_up c) by (apply N.neq_0_lt_0, N.pow_nonzero; lia). lia.
  - apply N.log2_up_spec in H. lia.
Qed.
Lemma pow2ceil_pos c : 0 < pow2ceil c.
Proof. unfold pow2ceil. apply N.neq_0_lt_0, N.pow_nonzero. lia. Qed.

Lemma grow_until_ge f : forall x r n, x <= grow_until f x r n.
Proof.
  induction f as [|f IH]; intros x r n; cbn [grow_until]; destruct (x - r <? n); try lia.
  specialize (IH (2 * x) r n). lia.
Qed.

Definition env_of (w : world) (tr : list event) : env := mkE w [] [] [] tr.

Lemma einv_co X O L R e l al adv padv :
  einv X O L R e ->
  einv X O L R (mkE (co_run (ew e) l) al adv padv (eev e)) /\
  frame (O ++ L ++ R) e (mkE (co_run (ew e) l) al adv padv (eev e)).
Proof.
  intros [Wk Sp Mn Hx]. destruct (co_run_spec l _ _ Wk Sp) as (A1 & A2 & A3 & A4). cbn [ew eev].
  split; [split; cbn [ew eev]; try assumption|split; cbn [ew]; [|assumption]].
  - eapply xsnap_same; [|exact Hx]. eapply same_on_incl; [apply incl_xb|exact A3].
  - eapply same_on_incl; [apply incl_foot|exact A3].
Qed.

Lemma einv_init X w : wok w -> sep (xblocks X) w -> xsnap X (wh w) -> einv X [] [] [] (env_of w []).
Proof.
  intros Wk Sp Hx. split; cbn [env_of ew eev app]; try assumption.
  exists m0. unfold montr. cbn. repeat split; try constructor; intros [].
Qed.
Lemma einv_init0 w : wok w -> einv [] [] [] [] (env_of w []).
Proof.
  intros Wk. apply einv_init; [assumption| |constructor]. split; [constructor|constructor|intros b []].
Qed.

Arguments einv_world {X}. Arguments einv_sep3 {X}. Arguments einv_callback {X}. Arguments einv_poolpoint {X}.
Arguments einv_alloc_gen {X}. Arguments einv_malloc {X}. Arguments einv_gcalloc {X}. Arguments einv_free {X}.
Arguments einv_write {X}. Arguments einv_read {X}. Arguments einv_lend {X}. Arguments einv_give_owned {X}.
Arguments einv_give_lent {X}. Arguments einv_drop_owned {X}. Arguments einv_drop_lent {X}. Arguments einv_perm {X}.
Arguments einv_caller_write {X}. Arguments xsnap_same {X}.
