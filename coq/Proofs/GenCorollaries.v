(* Proofs/GenCorollaries.v — the headline theorems of C01 restated for the GENERATED functions
   of Gen/Funcs.v (the Go source of protocol/thrift/binary.go as translated on this run), by
   rewriting with the equivalences of Proofs/GenEquiv.v.

   [g_r_item], [g_a_item], [g_l_item], [g_w_item] dispatch on the kind of item to the generated
   function, exactly as Model/Binary.v's r_item / a_item / l_item / w_item dispatch to the hand
   models; they are definitions over generated functions, nothing is modelled here. *)
From GV Require Import Lib.Bytes Lib.Res Lib.GoSem Gen.Consts Gen.Funcs Model.Binary Spec.Wire
     Proofs.BinaryP Proofs.GenLib Proofs.GenEquiv.
From Coq Require Import ZifyN ZifyNat ZifyBool.
Open Scope N_scope.

(* ---------- dispatchers over the generated functions ---------- *)
Definition g_r_item (en : bool) (k : kind) (buf : bytes) : res (item * Z * gerror) :=
  match k with
  | KBool => do (v, n, e) <- g_thrift_ReadBool buf; Ok (IBool v, n, e)
  | KByte => do (v, n, e) <- g_thrift_ReadByte buf; Ok (IByte v, n, e)
  | KI16 => do (v, n, e) <- g_thrift_ReadI16 buf; Ok (II16 v, n, e)
  | KI32 => do (v, n, e) <- g_thrift_ReadI32 buf; Ok (II32 v, n, e)
  | KI64 => do (v, n, e) <- g_thrift_ReadI64 buf; Ok (II64 v, n, e)
  | KDouble => do (v, n, e) <- g_thrift_ReadDouble buf; Ok (IDouble (Z.to_N v), n, e)
  | KBinary => do (v, n, e) <- g_thrift_ReadBinary en buf; Ok (IBinary v, n, e)
  | KString => do (v, n, e) <- g_thrift_ReadString en buf; Ok (IString v, n, e)
  | KFieldBegin => do (t, id, n, e) <- g_thrift_ReadFieldBegin buf;
                   Ok (if (t =? thrift_STOP)%Z then IFieldStop else IFieldBegin t id, n, e)
  | KMapBegin => do (kt, vt, sz, n, e) <- g_thrift_ReadMapBegin buf; Ok (IMapBegin kt vt sz, n, e)
  | KListBegin => do (et, sz, n, e) <- g_thrift_ReadListBegin buf; Ok (IListBegin et sz, n, e)
  | KSetBegin => do (et, sz, n, e) <- g_thrift_ReadSetBegin buf; Ok (ISetBegin et sz, n, e)
  end.

Definition g_a_item (buf : bytes) (it : item) : res bytes :=
  match it with
  | IBool v => g_thrift_AppendBool buf v
  | IByte v => g_thrift_AppendByte buf v
  | II16 v => g_thrift_AppendI16 buf v
  | II32 v => g_thrift_AppendI32 buf v
  | II64 v => g_thrift_AppendI64 buf v
  | IDouble v => g_thrift_AppendDouble buf (Z.of_N v)
  | IBinary v => g_thrift_AppendBinary buf v
  | IString v => g_thrift_AppendString buf v
  | IFieldBegin t id => g_thrift_AppendFieldBegin buf t id
  | IFieldStop => g_thrift_AppendFieldStop buf
  | IMapBegin kt vt sz => g_thrift_AppendMapBegin buf kt vt sz
  | IListBegin et sz => g_thrift_AppendListBegin buf et sz
  | ISetBegin et sz => g_thrift_AppendSetBegin buf et sz
  end.

Definition g_l_item (it : item) : res Z :=
  match it with
  | IBool _ => g_thrift_BoolLength
  | IByte _ => g_thrift_ByteLength
  | II16 _ => g_thrift_I16Length
  | II32 _ => g_thrift_I32Length
  | II64 _ => g_thrift_I64Length
  | IDouble _ => g_thrift_DoubleLength
  | IBinary v => g_thrift_BinaryLength v
  | IString v => g_thrift_StringLength v
  | IFieldBegin _ _ => g_thrift_FieldBeginLength
  | IFieldStop => g_thrift_FieldStopLength
  | IMapBegin _ _ _ => g_thrift_MapBeginLength
  | IListBegin _ _ => g_thrift_ListBeginLength
  | ISetBegin _ _ => g_thrift_SetBeginLength
  end.

Definition g_w_item (buf : bytes) (it : item) : res (bytes * Z) :=
  match it with
  | IBool v => g_thrift_WriteBool buf v
  | IByte v => g_thrift_WriteByte buf v
  | II16 v => g_thrift_WriteI16 buf v
  | II32 v => g_thrift_WriteI32 buf v
  | II64 v => g_thrift_WriteI64 buf v
  | IDouble v => g_thrift_WriteDouble buf (Z.of_N v)
  | IBinary v => g_thrift_WriteBinary buf v
  | IString v => g_thrift_WriteString buf v
  | IFieldBegin t id => g_thrift_WriteFieldBegin buf t id
  | IFieldStop => g_thrift_WriteFieldStop buf
  | IMapBegin kt vt sz => g_thrift_WriteMapBegin buf kt vt sz
  | IListBegin et sz => g_thrift_WriteListBegin buf et sz
  | ISetBegin et sz => g_thrift_WriteSetBegin buf et sz
  end.

(* ---------- the dispatchers agree with the hand model's ---------- *)
Lemma lift_item {V} (F : V -> item) (g : res (V * Z * gerror)) (h : res (V * N)) :
  unerr g = rmap zl h ->
  unerr (do (v, n, e) <- g; Ok (F v, n, e)) = rmap zl (do (v, n) <- h; Ok (F v, n)).
Proof.
  destruct g as [[[v n] [e|]]| | |], h as [[v' n']| | |]; cbn; intros H; inversion H; reflexivity.
Qed.

Lemma g_r_item_eq en k buf : wf buf -> unerr (g_r_item en k buf) = rmap zl (r_item k buf).
Proof.
  intros W. destruct k; cbn [g_r_item r_item].
  - apply (lift_item IBool), g_thrift_ReadBool_eq.
  - apply (lift_item IByte), g_thrift_ReadByte_eq, W.
  - apply (lift_item II16), g_thrift_ReadI16_eq, W.
  - apply (lift_item II32), g_thrift_ReadI32_eq, W.
  - apply (lift_item II64), g_thrift_ReadI64_eq, W.
  - pose proof (g_thrift_ReadDouble_eq buf) as H.
    destruct (g_thrift_ReadDouble buf) as [[[v n] [e|]]| | |], (r_double buf) as [[v' n']| | |];
      cbn in *; inversion H; subst; try reflexivity. now rewrite N2Z.id.
  - apply (lift_item IBinary), g_thrift_ReadBinary_eq, W.
  - apply (lift_item IString), g_thrift_ReadString_eq, W.
  - pose proof (lift_item (fun p => if (fst p =? thrift_STOP)%Z then IFieldStop else IFieldBegin (fst p) (snd p))
                          (g_thrift_ReadFieldBegin buf) (r_field_begin buf) (g_thrift_ReadFieldBegin_eq buf W)) as H.
    destruct (g_thrift_ReadFieldBegin buf) as [[[[t id] n] e]| | |], (r_field_begin buf) as [[[t' id'] n']| | |];
      exact H.
  - pose proof (lift_item (fun p => IMapBegin (fst (fst p)) (snd (fst p)) (snd p))
                          (g_thrift_ReadMapBegin buf) (r_map_begin buf) (g_thrift_ReadMapBegin_eq buf W)) as H.
    destruct (g_thrift_ReadMapBegin buf) as [[[[[kt vt] sz] n] e]| | |], (r_map_begin buf) as [[[[kt' vt'] sz'] n']| | |];
      exact H.
  - pose proof (lift_item (fun p => IListBegin (fst p) (snd p))
                          (g_thrift_ReadListBegin buf) (r_list_begin buf) (g_thrift_ReadListBegin_eq buf W)) as H.
    destruct (g_thrift_ReadListBegin buf) as [[[[et sz] n] e]| | |], (r_list_begin buf) as [[[et' sz'] n']| | |];
      exact H.
  - pose proof (lift_item (fun p => ISetBegin (fst p) (snd p))
                          (g_thrift_ReadSetBegin buf) (r_set_begin buf) (g_thrift_ReadSetBegin_eq buf W)) as H.
    destruct (g_thrift_ReadSetBegin buf) as [[[[et sz] n] e]| | |], (r_set_begin buf) as [[[et' sz'] n']| | |];
      exact H.
Qed.

Lemma g_a_item_eq buf it : item_ok it = true -> g_a_item buf it = Ok (a_item buf it).
Proof.
  intros Hok. destruct it; cbn [g_a_item a_item].
  - apply g_thrift_AppendBool_eq.
  - apply g_thrift_AppendByte_eq.
  - apply g_thrift_AppendI16_eq.
  - apply g_thrift_AppendI32_eq.
  - apply g_thrift_AppendI64_eq.
  - apply g_thrift_AppendDouble_eq. cbn [item_ok] in Hok. lia.
  - apply g_thrift_AppendBinary_eq.
  - apply g_thrift_AppendString_eq.
  - apply g_thrift_AppendFieldBegin_eq.
  - apply g_thrift_AppendFieldStop_eq.
  - apply g_thrift_AppendMapBegin_eq.
  - apply g_thrift_AppendListBegin_eq.
  - apply g_thrift_AppendSetBegin_eq.
Qed.

Lemma str_fits (v : bytes) : (len v <? two31) && wfbb v = true -> (glen v + 4 < 2 ^ 63)%Z.
Proof. unfold glen, two31. intros H. apply andb_true_iff in H as [H _]. lia. Qed.

Lemma g_l_item_eq it : item_ok it = true -> g_l_item it = Ok (Z.of_N (l_item it)).
Proof.
  intros Hok. destruct it; cbn [g_l_item]; try reflexivity; cbn [item_ok] in Hok.
  - apply g_thrift_BinaryLength_eq, str_fits, Hok.
  - apply g_thrift_StringLength_eq, str_fits, Hok.
Qed.

Lemma g_w_item_eq buf it : item_ok it = true -> g_w_item buf it = rmap zl (w_item buf it).
Proof.
  intros Hok. destruct it; cbn [g_w_item w_item]; cbn [item_ok] in Hok.
  - apply g_thrift_WriteBool_eq.
  - apply g_thrift_WriteByte_eq.
  - apply g_thrift_WriteI16_eq.
  - apply g_thrift_WriteI32_eq.
  - apply g_thrift_WriteI64_eq.
  - apply g_thrift_WriteDouble_eq. lia.
  - apply g_thrift_WriteBinary_eq, str_fits, Hok.
  - apply g_thrift_WriteString_eq, str_fits, Hok.
  - apply g_thrift_WriteFieldBegin_eq.
  - apply g_thrift_WriteFieldStop_eq.
  - apply g_thrift_WriteMapBegin_eq.
  - apply g_thrift_WriteListBegin_eq.
  - apply g_thrift_WriteSetBegin_eq.
Qed.

(* ---------- C01 for the generated functions ---------- *)
Lemma wf_cons x l : x < 256 -> wf l -> wf (x :: l).
Proof. intros Hx Hl. constructor; assumption. Qed.
Lemma wf_app a b : wf a -> wf b -> wf (a ++ b).
Proof. intros Ha Hb. apply Forall_app. split; assumption. Qed.

Lemma enc_wf it : item_ok it = true -> wf (enc it).
Proof.
  intros Hok. destruct it; cbn [enc]; try apply be_wf.
  - apply wf_cons; [destruct b; lia|constructor].
  - apply wf_cons; [apply u8_lt|constructor].
  - cbn [item_ok] in Hok. apply andb_true_iff in Hok as [_ Hw]. apply wf_app; [apply be_wf|now apply wfbb_wf].
  - cbn [item_ok] in Hok. apply andb_true_iff in Hok as [_ Hw]. apply wf_app; [apply be_wf|now apply wfbb_wf].
  - apply wf_app; [apply wf_cons; [apply u8_lt|constructor]|apply be_wf].
  - apply wf_cons; [lia|constructor].
  - apply wf_app; [apply wf_cons; [apply u8_lt|apply wf_cons; [apply u8_lt|constructor]]|apply be_wf].
  - apply wf_app; [apply wf_cons; [apply u8_lt|constructor]|apply be_wf].
  - apply wf_app; [apply wf_cons; [apply u8_lt|constructor]|apply be_wf].
Qed.

(* r_enc: the generated buffer reader returns the value and consumes exactly its encoding,
   whatever (well-formed bytes) follows; the error result is nil *)
Theorem g_r_enc en it rest :
  item_ok it = true -> wf rest ->
  g_r_item en (kind_of it) (enc it ++ rest) = Ok (it, Z.of_N (len (enc it)), gnil).
Proof.
  intros Hok Wr. apply (unerr_ok_inv (g_r_item en (kind_of it) (enc it ++ rest)) (it, Z.of_N (len (enc it)))).
  rewrite g_r_item_eq by (apply wf_app; [apply enc_wf; exact Hok|exact Wr]).
  rewrite r_item_enc by exact Hok. reflexivity.
Qed.

(* the example of the brief, without any condition on what follows *)
Theorem g_read_i32_enc v rest :
  in_signed 32 v -> g_thrift_ReadI32 (be 4 (u32 v) ++ rest) = Ok (v, 4, gnil)%Z.
Proof.
  intros Hv. unfold g_thrift_ReadI32.
  assert (len (be 4 (u32 v) ++ rest) = 4 + len rest) as L by (rewrite len_app, be_len; reflexivity).
  destruct (Z.ltb_spec (glen (be 4 (u32 v) ++ rest)) 4) as [H|H]; [unfold glen in H; lia|].
  rewrite (gbe_load_ok 4) by (cbn; lia). cbn [bind]. change (N.of_nat 4) with 4.
  rewrite take_be4, unbe_be4 by apply u32_lt. rewrite wraps32 by apply u32_lt.
  now rewrite i32_u32.
Qed.

(* a bool reads back as "byte = 1" *)
Theorem g_bool_decodes x rest : g_thrift_ReadBool (x :: rest) = Ok (x =? 1, 1%Z, gnil).
Proof.
  apply (unerr_ok_inv (g_thrift_ReadBool (x :: rest)) (x =? 1, 1%Z)).
  rewrite g_thrift_ReadBool_eq, r_bool_decodes. reflexivity.
Qed.

Lemma unerr_safe {A} (g : res (A * gerror)) : safe (unerr g) -> safe g.
Proof. destruct g as [[a [e|]]| | |]; cbn; auto. Qed.

(* on arbitrary (well-formed) bytes the generated readers never panic ... *)
Theorem g_r_total en k b : wf b -> safe (g_r_item en k b).
Proof.
  intros W. apply unerr_safe. rewrite g_r_item_eq by exact W.
  pose proof (r_item_total k b) as H. destruct (r_item k b); exact H.
Qed.
(* ... and never report, beside a nil error, more than they were given *)
Theorem g_r_bounded en k b it n :
  wf b -> g_r_item en k b = Ok (it, n, gnil) -> (0 <= n <= glen b)%Z.
Proof.
  intros W H. pose proof (g_r_item_eq en k b W) as E. rewrite H in E. cbn [unerr gnil] in E.
  destruct (r_item k b) as [[it' n']| | |] eqn:R; cbn [rmap] in E; inversion E; subst.
  apply r_item_bounded in R. unfold glen. lia.
Qed.

(* a_eq_enc, len_eq, w_eq_enc *)
Theorem g_a_eq_enc buf it : item_ok it = true -> g_a_item buf it = Ok (buf ++ enc it).
Proof. intros Hok. rewrite g_a_item_eq by exact Hok. now rewrite a_item_enc. Qed.

Theorem g_len_eq it : item_ok it = true -> g_l_item it = Ok (Z.of_N (len (enc it))).
Proof. intros Hok. rewrite g_l_item_eq by exact Hok. now rewrite l_item_enc. Qed.

Theorem g_w_eq_enc buf it :
  item_ok it = true -> len (enc it) <= len buf ->
  g_w_item buf it = Ok (enc it ++ drop (len (enc it)) buf, Z.of_N (len (enc it))).
Proof. intros Hok Hfit. rewrite g_w_item_eq by exact Hok. now rewrite w_item_enc. Qed.

(* non-vacuity / sanity: the generated functions compute *)
Example g_nonvacuous :
  g_thrift_ReadI32 [255; 255; 255; 254; 7] = Ok ((-2)%Z, 4%Z, gnil) /\
  g_thrift_WriteI32 [9; 9; 9; 9; 9] (-2) = Ok ([255; 255; 255; 254; 9], 4%Z) /\
  g_thrift_AppendI16 [1] (-2) = Ok [1; 255; 254] /\
  g_thrift_ReadI32 [1; 2; 3] = Ok (0%Z, 0%Z, Some e_read_i32).
Proof. repeat split; reflexivity. Qed.
