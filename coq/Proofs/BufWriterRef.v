(* Proofs/BufWriterRef.v — the buffered-writer model refines the Log specification (property C05):
   a simulation relation between writer states and log states, preserved by every operation of
   every history, with observations that satisfy the specification's. *)
From GV Require Import Lib.Bytes Lib.Res Lib.Heap Gen.Consts Spec.Log Model.BufWriter
  Proofs.BufWriterLib Proofs.BufWriterP Proofs.BufWriterInv Proofs.BufWriterOps.
From Coq Require Import ZifyN ZifyNat ZifyBool.
Open Scope N_scope.

Definition win_of (r : region) : N * N := (roff r, rlen r).

(* the published target slice is frozen and holds what the specification says *)
Definition tgt_rel (st : wstate) (s : lstate) : Prop :=
  match ktarget (sink st) with
  | None => ltarget s = []
  | Some (b, tl) => tgt_ok st b tl /\ matches (ltarget s) (take tl (block (store st) b))
  end.

Record Sim (st : wstate) (s : lstate) : Prop := mkSim {
  sim_inv : Inv st;
  sim_L : matches (lL s) (Lof st);
  sim_err : lerr s = werr st;
  sim_errv : lerr s = None \/ lerr s = Some E_SINK;
  sim_nil : lnil s = match cur st with None => true | Some _ => false end;
  sim_win : lwin s = map win_of (live st);
  sim_stale : lstale s = nstale st;
  sim_fake : lfake s = kfake (sink st);
  sim_calls : lcalls s = kcalls (sink st);
  sim_fail : lfail s = kfail (sink st);
  sim_K : Forall2 matches (lK s) (klog (sink st));
  sim_nofake : kfake (sink st) = false -> ktarget (sink st) = None;
  sim_tgt : tgt_rel st s }.

Lemma sim_len st s : Sim st s -> len (lL s) = cur_len st.
Proof. intros HS. rewrite (matches_len _ _ (sim_L _ _ HS)). apply Lof_len, (sim_inv _ _ HS). Qed.

Lemma sim_target st s : Sim st s -> matches (ltarget s) (target_bytes st).
Proof.
  intros HS. pose proof (sim_tgt _ _ HS) as HT. unfold tgt_rel, target_bytes in *.
  destruct (ktarget (sink st)) as [[b tl]|].
  - tauto.
  - rewrite HT. constructor.
Qed.

(* an operation that is not an effective Flush: the sink and the error state stay *)
Lemma sim_update st s st' s' :
  Sim st s -> Inv st' -> matches (lL s') (Lof st') ->
  same_aux st st' -> tgt_pres st st' ->
  lerr s' = lerr s -> lK s' = lK s -> lstale s' = lstale s -> lfake s' = lfake s ->
  lcalls s' = lcalls s -> lfail s' = lfail s -> ltarget s' = ltarget s ->
  lnil s' = match cur st' with None => true | Some _ => false end ->
  lwin s' = map win_of (live st') ->
  Sim st' s'.
Proof.
  intros HS HI HL Haux Htp E1 E2 E3 E4 E5 E6 E7 Hnil Hwin.
  destruct Haux as (A1 & A2 & A3 & A4 & A5 & A6 & A7).
  destruct HS as [SI SL Serr Serrv Snil Swin Sst Sfk Scl Sfl SK Snf Stg].
  constructor; try assumption; try congruence.
  - rewrite A5. exact Snf.
  - unfold tgt_rel in *. rewrite A5, E7. destruct (ktarget (sink st)) as [[b tl]|]; [|exact Stg].
    destruct Stg as (Hok & Hm). destruct (Htp b tl Hok) as (Hok' & Eq). split; [exact Hok'|]. rewrite Eq. exact Hm.
Qed.

Lemma window_at_sim st s k : Sim st s -> window_at s k = option_map win_of (region_at st k).
Proof.
  intros HS. unfold window_at, region_at. rewrite (sim_stale _ _ HS), (sim_win _ _ HS).
  destruct (k <? nstale st)%nat; [reflexivity|].
  rewrite <- map_rev. apply nth_error_map.
Qed.

Lemma len_repeat {A} (x : A) n : len (repeat x (N.to_nat n)) = n.
Proof. unfold len. rewrite repeat_length. lia. Qed.

Lemma len_map {A B} (f : A -> B) l : len (map f l) = len l.
Proof. unfold len. now rewrite map_length. Qed.

Lemma obs_ok_same e (l1 l2 : N) : l1 = l2 -> obs_ok (mkobs e l1 None) (mkobs e l2 None).
Proof. intros ->. unfold obs_ok. cbn [o_err o_len o_sink]. auto. Qed.

(* ---------- one step ---------- *)
Lemma sim_step_malloc dirty st s n :
  Sim st s ->
  Sim (fst (wstep dirty st (OMalloc n))) (fst (log_step s (OMalloc n))) /\
  obs_ok (snd (log_step s (OMalloc n))) (snd (wstep dirty st (OMalloc n))).
Proof.
  intros HS. pose proof (sim_len _ _ HS) as Hlen.
  unfold wstep, log_step. rewrite (sim_err _ _ HS).
  destruct (werr st) as [e|] eqn:Ew.
  - rewrite (malloc_err dirty st n e Ew). cbn [fst snd crash_obs]. split; [exact HS|]. now apply obs_ok_same.
  - destruct (Z.ltb_spec n 0) as [Hneg|Hpos].
    + rewrite (malloc_neg dirty st n Ew Hneg). cbn [fst snd crash_obs]. split; [exact HS|]. now apply obs_ok_same.
    + destruct (malloc_ok dirty st n (sim_inv _ _ HS) Ew Hpos)
        as (st' & r & d & E & HI' & HL & Hd & Hcl & Hlv & Hro & Hrl & Haux & Hnone & Htp).
      rewrite E. cbn [fst snd].
      set (n' := Z.to_N n) in *.
      assert (HS' : Sim st' (log_append s (repeat None (N.to_nat n')) [(len (lL s), n')])).
      { apply (sim_update st s); try assumption; try reflexivity; unfold log_append; cbn [lL lnil lwin].
        - rewrite HL. apply matches_app; [exact (sim_L _ _ HS)|].
          replace (N.to_nat n') with (length d) by (unfold len in Hd; lia). apply matches_none.
        - rewrite len_repeat, (sim_nil _ _ HS).
          destruct (cur st') as [p'|]; destruct (cur st) as [p|]; destruct (N.eqb_spec n' 0) as [Hz|Hz];
            cbn [andb]; try reflexivity; exfalso; destruct Hnone as (Hn1 & Hn2).
          + assert (X : Some p' = None) by (apply Hn2; split; [reflexivity | exact Hz]). discriminate.
          + destruct (Hn1 eq_refl) as (X & _). discriminate.
          + destruct (Hn1 eq_refl) as (X & _). discriminate.
          + destruct (Hn1 eq_refl) as (_ & X). contradiction.
        - rewrite Hlv. cbn [map app]. unfold win_of at 1. rewrite Hro, Hrl, Hlen, (sim_win _ _ HS). reflexivity. }
      split; [exact HS'|]. apply obs_ok_same. apply (sim_len _ _ HS').
Qed.

Lemma sim_step_write dirty st s bs :
  Sim st s ->
  Sim (fst (wstep dirty st (OWrite bs))) (fst (log_step s (OWrite bs))) /\
  obs_ok (snd (log_step s (OWrite bs))) (snd (wstep dirty st (OWrite bs))).
Proof.
  intros HS. pose proof (sim_len _ _ HS) as Hlen.
  unfold wstep, log_step. rewrite (sim_err _ _ HS).
  destruct (werr st) as [e|] eqn:Ew.
  - rewrite (write_binary_err dirty st bs e Ew). cbn [fst snd crash_obs]. split; [exact HS|]. now apply obs_ok_same.
  - destruct (write_binary_ok dirty st bs (sim_inv _ _ HS) Ew)
      as (st' & E & HI' & HL & Hcl & Hlv & Haux & Hnone & Htp).
    rewrite E. cbn [fst snd]. rewrite N.eqb_refl.
    assert (HS' : Sim st' (log_append s (map Some bs) [])).
    { apply (sim_update st s); try assumption; try reflexivity; unfold log_append; cbn [lL lnil lwin].
      - rewrite HL. apply matches_app; [exact (sim_L _ _ HS) | apply matches_some].
      - rewrite len_map, (sim_nil _ _ HS).
        destruct (cur st') as [p'|]; destruct (cur st) as [p|]; destruct (N.eqb_spec (len bs) 0) as [Hz|Hz];
          cbn [andb]; try reflexivity; exfalso; destruct Hnone as (Hn1 & Hn2).
        + assert (X : Some p' = None) by (apply Hn2; split; [reflexivity | exact Hz]). discriminate.
        + destruct (Hn1 eq_refl) as (X & _). discriminate.
        + destruct (Hn1 eq_refl) as (X & _). discriminate.
        + destruct (Hn1 eq_refl) as (_ & X). contradiction.
      - rewrite Hlv. cbn [app]. exact (sim_win _ _ HS). }
    split; [exact HS'|]. apply obs_ok_same. apply (sim_len _ _ HS').
Qed.

Lemma sim_step_fill dirty st s k off data :
  Sim st s ->
  Sim (fst (wstep dirty st (OFill k off data))) (fst (log_step s (OFill k off data))) /\
  obs_ok (snd (log_step s (OFill k off data))) (snd (wstep dirty st (OFill k off data))).
Proof.
  intros HS. pose proof (sim_len _ _ HS) as Hlen.
  unfold wstep, log_step. rewrite (window_at_sim _ _ k HS).
  destruct (fill st k off data) as [st'|] eqn:Ef.
  - destruct (fill_ok st k off data st' (sim_inv _ _ HS) Ef)
      as (r & Er & Hle & Hb & HI' & HL & Hcur & Hlv & Haux & Htp).
    rewrite Er. cbn [option_map win_of]. unfold win_of.
    destruct (N.leb_spec (off + len data) (rlen r)) as [_|Hbad]; [|exfalso; lia].
    cbn [fst snd].
    assert (HS' : Sim st' (set_L s (psplice (lL s) (roff r + off) (map Some data)))).
    { apply (sim_update st s); try assumption; try reflexivity; unfold set_L; cbn [lL lnil lwin].
      - rewrite HL. apply matches_psplice. exact (sim_L _ _ HS).
      - rewrite Hcur. exact (sim_nil _ _ HS).
      - rewrite Hlv. exact (sim_win _ _ HS). }
    split; [exact HS'|]. apply obs_ok_same. unfold written_len, cur_len. rewrite Hcur. exact Hlen.
  - cbn [fst snd]. unfold fill in Ef. destruct (region_at st k) as [r|]; cbn [option_map].
    + unfold win_of. destruct (off + len data <=? rlen r); [discriminate|].
      cbn [fst snd]. split; [exact HS|]. now apply obs_ok_same.
    + cbn [fst snd]. split; [exact HS|]. now apply obs_ok_same.
Qed.

Lemma sim_step_flush dirty st s :
  Sim st s ->
  Sim (fst (wstep dirty st OFlush)) (fst (log_step s OFlush)) /\
  obs_ok (snd (log_step s OFlush)) (snd (wstep dirty st OFlush)).
Proof.
  intros HS. pose proof (sim_len _ _ HS) as Hlen.
  unfold wstep, log_step. rewrite (sim_err _ _ HS).
  destruct (werr st) as [e|] eqn:Ew.
  - rewrite (flush_err st e Ew). cbn [fst snd]. split; [exact HS|]. now apply obs_ok_same.
  - rewrite (sim_nil _ _ HS).
    destruct (cur st) as [[c l]|] eqn:Ec.
    2:{ rewrite (flush_nil st Ew Ec). cbn [fst snd]. split; [exact HS|]. now apply obs_ok_same. }
    destruct (flush_ok st c l (sim_inv _ _ HS) Ew Ec) as (h' & En & Elen & Hcl & Et & Est & Efl).
    rewrite Efl. clear Efl.
    destruct HS as [SI SL Serr Serrv Snil Swin Sst Sfk Scl Sfl SK Snf Stg].
    unfold sink_write. rewrite Sfk, Scl, Sfl.
    destruct (kfake (sink st)) eqn:Ek; cbn [negb andb].
    + (* bytes-backed: the fake sink publishes the slice and never fails *)
      unfold stat_update. cbn [fst snd].
      split.
      * constructor; cbn [store cur pend werr live nstale sink lL lK lerr lnil lwin lstale lfake lcalls lfail ltarget
                          kfake klog kcalls kfail ktarget].
        -- constructor; cbn [store cur pend live]; [reflexivity | left; reflexivity | constructor | exact I].
        -- unfold Lof. cbn [cur]. constructor.
        -- reflexivity.
        -- left; reflexivity.
        -- reflexivity.
        -- reflexivity.
        -- rewrite Swin, map_length, Sst. reflexivity.
        -- first [exact Sfk | reflexivity].
        -- first [reflexivity | now rewrite Scl].
        -- first [reflexivity | exact Sfl].
        -- apply Forall2_app; [exact SK | constructor; [exact SL | constructor]].
        -- discriminate.
        -- unfold tgt_rel. cbn [sink ktarget store ltarget]. try rewrite Sfk. split.
           ++ right; left. split; [exact Hcl|]. unfold cblocks. cbn [pend cur map app]. intros [].
           ++ rewrite Et. exact SL.
      * unfold obs_ok. cbn [o_err o_len o_sink written_len cur_len cur]. repeat split. exact SL.
    + destruct (N.eqb_spec (kcalls (sink st) + 1) (kfail (sink st))) as [Hf|Hf].
      * (* the sink fails: the error is recorded, the buffers stay *)
        cbn [fst snd].
        assert (HI' : Inv (mkw h' (cur st) (pend st) (Some E_SINK) (nocache st) (buckets st) (bidx st)
                               (mksink false (klog (sink st)) (kcalls (sink st) + 1) (kfail (sink st)) (ktarget (sink st)))
                               (live st) (nstale st) (freed st))).
        { destruct SI as [Hc Hcap Hown Hrch]. constructor; cbn [store cur pend live].
          - rewrite Ec in *. eapply chain_len_ext; [exact Elen | exact En | exact Hc].
          - unfold cur_cap in *. cbn [store cur]. rewrite Ec in *. rewrite Elen. exact Hcap.
          - eapply Forall_impl; [|exact Hown]. intros r Hr. eapply region_owned_same; [| |exact Hr]; reflexivity.
          - unfold cur_len in *. cbn [cur]. exact Hrch. }
        split.
        -- constructor; cbn [store cur pend werr live nstale sink lL lK lerr lnil lwin lstale lfake lcalls lfail ltarget
                             kfake klog kcalls kfail ktarget]; try assumption; try reflexivity.
           ++ unfold Lof. cbn [cur store pend]. rewrite Ec. rewrite Est. exact SL.
           ++ right; reflexivity.
           ++ rewrite Ec. reflexivity.
           ++ unfold tgt_rel in *. cbn [sink ktarget ltarget]. rewrite (Snf eq_refl) in *. exact Stg.
        -- unfold obs_ok. cbn [o_err o_len o_sink written_len cur_len cur]. rewrite Ec.
           unfold cur_len in Hlen. rewrite Ec in Hlen. auto.
      * (* success *)
        unfold stat_update. cbn [fst snd].
        split.
        -- constructor; cbn [store cur pend werr live nstale sink lL lK lerr lnil lwin lstale lfake lcalls lfail ltarget
                             kfake klog kcalls kfail ktarget].
           ++ constructor; cbn [store cur pend live]; [reflexivity | left; reflexivity | constructor | exact I].
           ++ unfold Lof. cbn [cur]. constructor.
           ++ reflexivity.
           ++ left; reflexivity.
           ++ reflexivity.
           ++ reflexivity.
           ++ rewrite Swin, map_length, Sst. reflexivity.
           ++ first [exact Sfk | reflexivity].
           ++ first [reflexivity | now rewrite Scl].
           ++ first [reflexivity | exact Sfl].
           ++ apply Forall2_app; [exact SK | constructor; [exact SL | constructor]].
           ++ intros _. now apply Snf.
           ++ unfold tgt_rel in *. cbn [sink ktarget ltarget]. try rewrite Sfk. rewrite (Snf eq_refl) in *. exact Stg.
        -- unfold obs_ok. cbn [o_err o_len o_sink written_len cur_len cur]. repeat split. exact SL.
Qed.

Lemma sim_step dirty st s o :
  Sim st s ->
  Sim (fst (wstep dirty st o)) (fst (log_step s o)) /\ obs_ok (snd (log_step s o)) (snd (wstep dirty st o)).
Proof.
  intros HS. destruct o as [n|bs|k off data| |].
  - now apply sim_step_malloc.
  - now apply sim_step_write.
  - now apply sim_step_fill.
  - now apply sim_step_flush.
  - cbn [wstep log_step fst snd]. split; [exact HS|]. apply obs_ok_same. exact (sim_len _ _ HS).
Qed.

(* ---------- every history ---------- *)
Lemma wrun_cons dirty st o h :
  wrun dirty st (o :: h) =
  (fst (wrun dirty (fst (wstep dirty st o)) h), snd (wstep dirty st o) :: snd (wrun dirty (fst (wstep dirty st o)) h)).
Proof.
  cbn [wrun]. destruct (wstep dirty st o) as [s1 ob]. cbn [fst snd].
  destruct (wrun dirty s1 h) as [s2 obs']. reflexivity.
Qed.

Lemma log_run_cons s o h :
  log_run s (o :: h) =
  (fst (log_run (fst (log_step s o)) h), snd (log_step s o) :: snd (log_run (fst (log_step s o)) h)).
Proof.
  cbn [log_run]. destruct (log_step s o) as [s1 ob]. cbn [fst snd].
  destruct (log_run s1 h) as [s2 obs']. reflexivity.
Qed.

Lemma wrun_app dirty h1 : forall st h2,
  wrun dirty st (h1 ++ h2) =
  (fst (wrun dirty (fst (wrun dirty st h1)) h2), snd (wrun dirty st h1) ++ snd (wrun dirty (fst (wrun dirty st h1)) h2)).
Proof.
  induction h1 as [|o h1 IH]; intros st h2.
  - cbn [app wrun fst snd]. now destruct (wrun dirty st h2).
  - rewrite <- app_comm_cons. rewrite !wrun_cons. rewrite IH. reflexivity.
Qed.

Lemma log_run_app h1 : forall s h2,
  log_run s (h1 ++ h2) =
  (fst (log_run (fst (log_run s h1)) h2), snd (log_run s h1) ++ snd (log_run (fst (log_run s h1)) h2)).
Proof.
  induction h1 as [|o h1 IH]; intros s h2.
  - cbn [app log_run fst snd]. now destruct (log_run s h2).
  - rewrite <- app_comm_cons. rewrite !log_run_cons. rewrite IH. reflexivity.
Qed.

Lemma sim_run dirty h : forall st s,
  Sim st s ->
  Sim (fst (wrun dirty st h)) (fst (log_run s h)) /\
  Forall2 obs_ok (snd (log_run s h)) (snd (wrun dirty st h)).
Proof.
  induction h as [|o h IH]; intros st s HS.
  - cbn [wrun log_run fst snd]. split; [exact HS | constructor].
  - rewrite wrun_cons, log_run_cons. cbn [fst snd].
    destruct (sim_step dirty st s o HS) as (HS1 & Hob).
    destruct (IH _ _ HS1) as (HS2 & Hobs).
    split; [exact HS2 | constructor; assumption].
Qed.

(* ---------- the constructors ---------- *)
Inductive init_pair : wstate -> lstate -> Prop :=
| init_default failk : init_pair (new_writer failk) (log_new failk)
| init_bytes_nil : init_pair (new_bytes_writer None) (log_new_bytes None)
| init_bytes contents l :
    l <= len contents ->
    init_pair (new_bytes_writer (Some (contents, l))) (log_new_bytes (Some (take l contents))).

Lemma sim_init w0 l0 : init_pair w0 l0 -> Sim w0 l0.
Proof.
  intros H. destruct H as [failk | | contents l Hl].
  - constructor; cbn; try reflexivity; try (left; reflexivity); try constructor; cbn; auto; try constructor.
  - constructor; cbn; try reflexivity; try (left; reflexivity); try constructor; cbn; auto; try constructor; discriminate.
  - constructor; unfold new_bytes_writer, log_new_bytes;
      cbn [store cur pend werr live nstale sink lL lK lerr lnil lwin lstale lfake lcalls lfail ltarget
           kfake klog kcalls kfail ktarget]; try reflexivity.
    + constructor; cbn [store cur pend live].
      * cbn [chain]. unfold block. cbn [nth length]. lia.
      * left; reflexivity.
      * constructor.
      * exact I.
    + unfold Lof. cbn [cur store pend stitched]. unfold block. cbn [nth]. rewrite N.sub_0_r, drop_0. apply matches_some.
    + left; reflexivity.
    + constructor.
    + discriminate.
    + unfold tgt_rel. cbn [sink ktarget store ltarget]. split.
      * right; right. split; [|constructor]. unfold head_at. cbn [pend cur]. split; [reflexivity | lia].
      * unfold block. cbn [nth]. apply matches_some.
Qed.
