(* Proofs/UnknownGrammarP.v — C13 over the shared Thrift grammar Spec/ThriftGrammar.v (value trees of the
   skipper properties: raw unsigned patterns, raw type bytes): every well-typed value with canonical bools
   translates to a well-formed typed value of Spec/UnknownSpec.v with the same encoding, so
   bytes -> tree -> bytes holds for every well-typed struct body of that grammar. *)
From GV Require Import Lib.Bytes Lib.Res Gen.Consts Model.Binary Spec.Wire Proofs.BinaryP Model.Unknown Spec.UnknownSpec Proofs.UnknownP.
From GV Require Spec.ThriftGrammar.
From Coq Require Import ZifyN ZifyNat ZifyBool.
Open Scope N_scope.
Module G := GV.Spec.ThriftGrammar.

Section GInd.
  Variable P : G.value -> Prop.
  Hypothesis Hbool : forall b, P (G.VBool b).
  Hypothesis Hbyte : forall b, P (G.VByte b).
  Hypothesis Hdouble : forall b, P (G.VDouble b).
  Hypothesis Hi16 : forall b, P (G.VI16 b).
  Hypothesis Hi32 : forall b, P (G.VI32 b).
  Hypothesis Hi64 : forall b, P (G.VI64 b).
  Hypothesis Hstr : forall s, P (G.VStr s).
  Hypothesis Hstruct : forall fs, Forall (fun f => P (snd f)) fs -> P (G.VStruct fs).
  Hypothesis Hmap : forall kt vt kvs, Forall (fun kv => P (fst kv) /\ P (snd kv)) kvs -> P (G.VMap kt vt kvs).
  Hypothesis Hset : forall et vs, Forall P vs -> P (G.VSet et vs).
  Hypothesis Hlist : forall et vs, Forall P vs -> P (G.VList et vs).
  Fixpoint gvalue_ind' (v : G.value) : P v :=
    match v with
    | G.VBool b => Hbool b | G.VByte b => Hbyte b | G.VDouble b => Hdouble b | G.VI16 b => Hi16 b
    | G.VI32 b => Hi32 b | G.VI64 b => Hi64 b | G.VStr s => Hstr s
    | G.VStruct fs =>
      Hstruct fs ((fix go (l : list (N * N * G.value)) : Forall (fun f => P (snd f)) l :=
                     match l with [] => Forall_nil _ | f :: r => Forall_cons f (gvalue_ind' (snd f)) (go r) end) fs)
    | G.VMap kt vt kvs =>
      Hmap kt vt kvs ((fix go (l : list (G.value * G.value)) : Forall (fun kv => P (fst kv) /\ P (snd kv)) l :=
                         match l with
                         | [] => Forall_nil _
                         | kv :: r => Forall_cons kv (conj (gvalue_ind' (fst kv)) (gvalue_ind' (snd kv))) (go r)
                         end) kvs)
    | G.VSet et vs =>
      Hset et vs ((fix go (l : list G.value) : Forall P l :=
                     match l with [] => Forall_nil _ | x :: r => Forall_cons x (gvalue_ind' x) (go r) end) vs)
    | G.VList et vs =>
      Hlist et vs ((fix go (l : list G.value) : Forall P l :=
                      match l with [] => Forall_nil _ | x :: r => Forall_cons x (gvalue_ind' x) (go r) end) vs)
    end.
End GInd.

(* the typed value (signed Go values, canonical bool) a grammar tree stands for *)
Fixpoint tv (v : G.value) : tval :=
  match v with
  | G.VBool b => TBool (b =? 1)
  | G.VByte b => TByte (i8 b)
  | G.VDouble x => TDouble x
  | G.VI16 x => TI16 (i16 x)
  | G.VI32 x => TI32 (i32 x)
  | G.VI64 x => TI64 (i64 x)
  | G.VStr s => TString s
  | G.VStruct fs => TStruct (map (fun f => (i16 (snd (fst f)), tv (snd f))) fs)
  | G.VMap kt vt kvs => TMap (i8 kt) (i8 vt) (map (fun kv => (tv (fst kv), tv (snd kv))) kvs)
  | G.VSet et vs => TSet (i8 et) (map tv vs)
  | G.VList et vs => TList (i8 et) (map tv vs)
  end.
Definition tfields (fs : list (N * N * G.value)) : list (Z * tval) :=
  map (fun f => (i16 (snd (fst f)), tv (snd f))) fs.

(* every bool byte is 0 or 1 *)
Fixpoint cbools (v : G.value) : bool :=
  match v with
  | G.VBool b => b <? 2
  | G.VStruct fs => forallb (fun f => cbools (snd f)) fs
  | G.VMap _ _ kvs => forallb (fun kv => cbools (fst kv) && cbools (snd kv)) kvs
  | G.VSet _ vs | G.VList _ vs => forallb cbools vs
  | _ => true
  end.

Lemma ttype_tv v : ttype (tv v) = Z.of_N (G.tyof v). Proof. destruct v; reflexivity. Qed.
Lemma tyof_small v : G.tyof v < 16. Proof. destruct v; reflexivity. Qed.
Lemma wt_tyof t v : G.wt t v = true -> t = G.tyof v.
Proof.
  destruct v; cbn [G.wt G.tyof]; intros H;
    repeat match type of H with (_ && _)%bool = true => apply andb_true_iff in H as [H _] end;
    now apply N.eqb_eq in H.
Qed.
Lemma i8_small u : u < 128 -> i8 u = Z.of_N u.
Proof. intros H. unfold i8, to_signed. change (2 ^ (8 - 1)) with 128. destruct (N.ltb_spec u 128); [reflexivity|lia]. Qed.
Lemma u8_i8 u : u < 256 -> u8 (i8 u) = u.
Proof. intros H. apply unsigned_signed; [lia|now rewrite p8]. Qed.
Lemma u16_i16 u : u < 65536 -> u16 (i16 u) = u.
Proof. intros H. apply unsigned_signed; [lia|now rewrite p16]. Qed.
Lemma u64_i64 u : u < 18446744073709551616 -> u64 (i64 u) = u.
Proof. intros H. apply unsigned_signed; [lia|now rewrite p64]. Qed.
Lemma u8_of_N n : n < 256 -> u8 (Z.of_N n) = n.
Proof. intros H. unfold u8, to_unsigned. rewrite p8. rewrite Z.mod_small by lia. lia. Qed.
Lemma u32_of_N n : n < 4294967296 -> u32 (Z.of_N n) = n.
Proof. intros H. rewrite u32_nonneg by lia. lia. Qed.
Lemma len_map {A B} (f : A -> B) l : len (map f l) = len l.
Proof. unfold len. now rewrite map_length. Qed.

Definition bridges (v : G.value) : Prop :=
  forall t, G.wt t v = true -> cbools v = true -> G.enc v = enc_val (tv v) /\ wf_val (tv v) = true.

Lemma elems_bridge et : forall vs, Forall bridges vs -> forallb (G.wt et) vs = true -> forallb cbools vs = true ->
  concat (map G.enc vs) = concat (map enc_val (map tv vs)) /\
  forallb (fun x => (ttype x =? i8 et)%Z && wf_val x) (map tv vs) = true.
Proof.
  induction vs as [|x xs IH]; intros Hb Hw Hc; [split; reflexivity|].
  pose proof (Forall_inv Hb) as Hx. pose proof (Forall_inv_tail Hb) as Hxs.
  cbn [forallb] in Hw, Hc. apply andb_true_iff in Hw as [Hwx Hws]. apply andb_true_iff in Hc as [Hcx Hcs].
  destruct (Hx et Hwx Hcx) as [He Hf]. destruct (IH Hxs Hws Hcs) as [He' Hf'].
  cbn [map concat forallb]. rewrite He, He', Hf, Hf', ttype_tv.
  pose proof (wt_tyof et x Hwx) as ->. pose proof (tyof_small x).
  rewrite i8_small by lia. rewrite Z.eqb_refl. split; reflexivity.
Qed.

Lemma val_bridges : forall v, bridges v.
Proof.
  induction v as [b|b|x|x|x|x|s|fs IH|kt vt kvs IH|et vs IH|et vs IH] using gvalue_ind'; intros t Hw Hc;
    cbn [G.wt cbools] in Hw, Hc; cbn [G.enc tv enc_val wf_val enc].
  - apply andb_true_iff in Hw as [_ Hb].
    assert (b = 0 \/ b = 1) as [-> | ->] by lia; split; reflexivity.
  - apply andb_true_iff in Hw as [_ Hb]. rewrite u8_i8 by lia. split; [reflexivity|apply i8_range; lia].
  - apply andb_true_iff in Hw as [_ Hb]. unfold two64 in *. rewrite N.mod_small by lia. split; [reflexivity|lia].
  - apply andb_true_iff in Hw as [_ Hb]. unfold two16 in *. rewrite u16_i16 by lia. split; [reflexivity|apply i16_range; lia].
  - apply andb_true_iff in Hw as [_ Hb]. unfold two32 in *.
    rewrite u32_i32 by lia. split; [reflexivity|apply i32_range; lia].
  - apply andb_true_iff in Hw as [_ Hb]. unfold two64 in *. rewrite u64_i64 by lia. split; [reflexivity|apply i64_range; lia].
  - apply andb_true_iff in Hw as [Hw Hwf]. apply andb_true_iff in Hw as [_ Hl].
    unfold two31, two32 in *. rewrite N.mod_small by lia. rewrite Hwf.
    replace (len s <? 2147483648) with true by lia. split; reflexivity.
  - (* struct *)
    apply andb_true_iff in Hw as [_ Hw].
    assert (H : concat (map (fun f => match f with (ft, id, fv) => ft :: be 2 id ++ G.enc fv end) fs) =
                concat (map (fun p => enc (IFieldBegin (ttype (snd p)) (fst p)) ++ enc_val (snd p))
                            (map (fun f => (i16 (snd (fst f)), tv (snd f))) fs)) /\
                forallb (fun p => in_signedb 16 (fst p) && wf_val (snd p))
                        (map (fun f => (i16 (snd (fst f)), tv (snd f))) fs) = true).
    { induction fs as [|[[ft id] fv] r IHr]; [split; reflexivity|].
      pose proof (Forall_inv IH) as Hx. pose proof (Forall_inv_tail IH) as Hxs. cbn [snd] in Hx.
      cbn [forallb] in Hw, Hc. apply andb_true_iff in Hw as [Hwx Hws]. apply andb_true_iff in Hc as [Hcx Hcs].
      apply andb_true_iff in Hwx as [Hwx Hwv]. apply andb_true_iff in Hwx as [Hft Hid]. cbn [snd] in Hcx.
      destruct (Hx ft Hwv Hcx) as [He Hf]. destruct (IHr Hxs Hws Hcs) as [He' Hf'].
      cbn [map concat forallb fst snd]. rewrite <- He', Hf', Hf, <- He, ttype_tv. cbn [enc].
      pose proof (wt_tyof ft fv Hwv) as <-. unfold two16 in *.
      rewrite u8_of_N, u16_i16 by lia. rewrite i16_range by lia. split; reflexivity. }
    destruct H as [He Hf]. rewrite He, Hf. split; reflexivity.
  - (* map *)
    apply andb_true_iff in Hw as [Hw Hall]. apply andb_true_iff in Hw as [Hw Hlen].
    apply andb_true_iff in Hw as [Hw Hvt]. apply andb_true_iff in Hw as [_ Hkt].
    assert (H : concat (map (fun kv => match kv with (k, v) => G.enc k ++ G.enc v end) kvs) =
                concat (map (fun p => enc_val (fst p) ++ enc_val (snd p)) (map (fun kv => (tv (fst kv), tv (snd kv))) kvs)) /\
                forallb (fun p => (ttype (fst p) =? i8 kt)%Z && wf_val (fst p) && (ttype (snd p) =? i8 vt)%Z && wf_val (snd p))
                        (map (fun kv => (tv (fst kv), tv (snd kv))) kvs) = true).
    { clear Hlen. induction kvs as [|[k v] r IHr]; [split; reflexivity|].
      pose proof (Forall_inv IH) as [Hk Hv]. pose proof (Forall_inv_tail IH) as Hxs. cbn [fst snd] in Hk, Hv.
      cbn [forallb] in Hall, Hc. apply andb_true_iff in Hall as [Hwx Hws]. apply andb_true_iff in Hc as [Hcx Hcs].
      apply andb_true_iff in Hwx as [Hwk Hwv]. cbn [fst snd] in Hcx. apply andb_true_iff in Hcx as [Hck Hcv].
      destruct (Hk kt Hwk Hck) as [Hek Hfk]. destruct (Hv vt Hwv Hcv) as [Hev Hfv].
      destruct (IHr Hxs Hws Hcs) as [He' Hf'].
      cbn [map concat forallb fst snd]. rewrite <- He', Hf', Hfk, Hfv, <- Hek, <- Hev, !ttype_tv.
      pose proof (wt_tyof kt k Hwk) as ->. pose proof (wt_tyof vt v Hwv) as ->.
      pose proof (tyof_small k). pose proof (tyof_small v).
      rewrite !i8_small by lia. rewrite !Z.eqb_refl. split; reflexivity. }
    destruct H as [He Hf]. rewrite <- He, Hf, len_map. unfold two31, two32 in *.
    rewrite !u8_i8, u32_of_N by lia. rewrite !i8_range by lia.
    replace (len kvs <? 4294967296) with true by lia. split; reflexivity.
  - apply andb_true_iff in Hw as [Hw Hall]. apply andb_true_iff in Hw as [Hw Hlen]. apply andb_true_iff in Hw as [_ Het].
    destruct (elems_bridge et vs IH Hall Hc) as [He Hf]. rewrite <- He, Hf, len_map. unfold two31, two32 in *.
    rewrite u8_i8, u32_of_N by lia. rewrite i8_range by lia.
    replace (len vs <? 4294967296) with true by lia. split; reflexivity.
  - apply andb_true_iff in Hw as [Hw Hall]. apply andb_true_iff in Hw as [Hw Hlen]. apply andb_true_iff in Hw as [_ Het].
    destruct (elems_bridge et vs IH Hall Hc) as [He Hf]. rewrite <- He, Hf, len_map. unfold two31, two32 in *.
    rewrite u8_i8, u32_of_N by lia. rewrite i8_range by lia.
    replace (len vs <? 4294967296) with true by lia. split; reflexivity.
Qed.

(* C13 over the shared grammar: the body of every well-typed struct value with canonical bools (its encoding
   without the final STOP byte) is a field sequence that converts to the tree it denotes and is written back
   byte for byte *)
Lemma bytes_tree_bytes_grammar fs : fs <> [] ->
  G.wt G.T_STRUCT (G.VStruct fs) = true -> cbools (G.VStruct fs) = true ->
  exists b, G.enc (G.VStruct fs) = b ++ [G.T_STOP] /\
    let t := tree_of_fields (tfields fs) in
    convert b = Ok t /\ canon_fields t = true /\ fields_len t = Ok (len b) /\
    (forall buf, len b <= len buf -> write_fields buf t = Ok (b ++ drop (len b) buf, len b)).
Proof.
  intros Hne Hw Hc. destruct (val_bridges (G.VStruct fs) G.T_STRUCT Hw Hc) as [He Hf].
  exists (enc_fields (tfields fs)). split; [exact He|].
  apply bytes_tree_bytes; [destruct fs; [congruence|discriminate]|exact Hf].
Qed.
