(* Proofs/FastCodecP.v — lemmas about Model/FastCodec.v (C11): the generic FastRead loop against the
   reference semantics of Spec/FastRead.v, the three dispatchers, round trips, lengths, and
   totality / boundedness of FastRead on arbitrary bytes (used by C03). *)
From GV Require Import Lib.Bytes Lib.Res Gen.Consts Model.Binary Spec.Wire Model.Skip Model.Nocopy Model.FastCodec
                       Spec.FastSpec Spec.FastRead Proofs.BinaryP Proofs.NocopyLib Proofs.NocopyP Proofs.FastCodecLib.
From GV Require Spec.ThriftGrammar.
From Coq Require Import ZifyN ZifyNat ZifyBool Permutation.
Open Scope N_scope.

(* the field tables the translator reads off the generated code are the interface definition *)
Lemma fast_consts_ok :
  base_Base_FastWriteNocopy_fields = [(11, 1); (11, 2); (11, 3); (13, 6)]%Z /\
  base_Base_FastWriteNocopy_mapkv = [(11, 11)]%Z /\
  base_Base_FastRead_cases = [267; 523; 779; 1549]%Z /\
  base_BaseResp_FastWriteNocopy_fields = [(11, 1); (8, 2); (13, 3)]%Z /\
  base_BaseResp_FastWriteNocopy_mapkv = [(11, 11)]%Z /\
  base_BaseResp_FastRead_cases = [267; 520; 781]%Z /\
  thrift_ApplicationException_FastWrite_fields = [(11, 1); (8, 2)]%Z /\
  thrift_ApplicationException_FastRead_conds = [[1; 11]; [2; 8]]%Z.
Proof. repeat split; reflexivity. Qed.

(* ---------- what is assumed of thrift.Binary.Skip (property C02 / C03 prove it of Model/Skip.v) ---------- *)
(* = C02P.bskip_exact *)
Definition SK_exact_statement : Prop :=
  forall t v rest, ThriftGrammar.wt t v = true -> (ThriftGrammar.ch v <= 63)%nat -> wf rest ->
    binary_skip (ThriftGrammar.enc v ++ rest) t = Ok (len (ThriftGrammar.enc v)).
(* = GrammarP.enc_wf : the encoding of a well-typed value consists of bytes *)
Definition ENC_wf_statement : Prop :=
  forall v t, ThriftGrammar.wt t v = true -> wf (ThriftGrammar.enc v).
(* = SkipP.bskip_safe, SkipP.bskip_bounded *)
Definition SK_safe_statement : Prop := forall b t, wf b -> t < 256 -> safe (binary_skip b t).
Definition SK_bounded_statement : Prop :=
  forall b t n, wf b -> t < 256 -> binary_skip b t = Ok n -> 1 <= n <= len b.

Lemma wt_type t v : ThriftGrammar.wt t v = true -> 0 < t < 128.
Proof.
  destruct v; cbn [ThriftGrammar.wt]; intros H;
    repeat (apply andb_prop in H; destruct H as [H ?]);
    apply N.eqb_eq in H; subst t; vm_compute; split; reflexivity.
Qed.

Lemma in_schema_In sch id ty : in_schema sch id ty = true -> In (id, ty) sch.
Proof.
  unfold in_schema. intros H. apply existsb_exists in H as ([a b] & Hin & Hx).
  cbn [fst snd] in Hx. apply andb_prop in Hx as [H1 H2]. apply Z.eqb_eq in H1, H2. now subst.
Qed.

(* ---------- the generic loop ---------- *)
Section Loop.
  Context {A : Type}.
  Variables (lb ls : Z) (disp : Z -> Z -> option (reader A)) (sch : schema) (apply : A -> Z -> fval -> A).
  Hypothesis sch_ok : forall x, In x sch -> in_signed 16 (fst x) /\ in_signed 8 (snd x) /\ snd x <> 0%Z.
  Hypothesis disp_known : forall id v pre r p,
    in_schema sch id (fty v) = true -> fval_ok v = true ->
    exists rd, disp id (fty v) = Some rd /\
               rd (pre ++ enc_fval v ++ r) (len pre) (Some p) = Ok (Some (apply p id v), len pre + len (enc_fval v)).
  Hypothesis disp_unknown : forall fid ftyp,
    in_signed 16 fid -> in_signed 8 ftyp -> in_schema sch fid ftyp = false -> disp fid ftyp = None.

  (* a field the loop handles as the reference semantics says, when followed by [more] *)
  Definition item_good (it : ritem) (more : bytes) : Prop :=
    match it with
    | Known id v => in_schema sch id (fty v) = true /\ fval_ok v = true
    | Unknown t id v =>
        0 < t < 128 /\ id < two16 /\ in_schema sch (i16 id) (i8 t) = false /\
        binary_skip (ThriftGrammar.enc v ++ more) t = Ok (len (ThriftGrammar.enc v))
    end.
  Fixpoint items_good (its : list ritem) (rest : bytes) : Prop :=
    match its with
    | [] => True
    | it :: r => item_good it (enc_ritems r ++ rest) /\ items_good r rest
    end.

  Lemma loop_step fuel pre it more p :
    item_good it more ->
    read_loop lb ls disp (S fuel) (pre ++ enc_ritem it ++ more) (len pre) (Some p) =
    read_loop lb ls disp fuel ((pre ++ enc_ritem it) ++ more) (len (pre ++ enc_ritem it))
              (Some (match it with Known id v => apply p id v | Unknown _ _ _ => p end)).
  Proof.
    intros G. destruct it as [id v|t id v]; cbn [item_good enc_ritem] in *.
    - destruct G as [Hin Hok]. destruct (sch_ok _ (in_schema_In _ _ _ Hin)) as (R1 & R2 & R3). cbn [fst snd] in *.
      cbn [read_loop]. unfold rd_field_begin. rewrite slice_at. cbn [bind].
      rewrite <- app_assoc. rewrite r_field_begin_hdr by assumption. cbn [relabel bind].
      change thrift_STOP with 0%Z. destruct (Z.eqb_spec (fty v) 0); [contradiction|].
      set (hdr := enc (IFieldBegin (fty v) id)).
      assert (Hh : len hdr = 3) by (unfold hdr; cbn [enc]; rewrite len_app, be_len; reflexivity).
      destruct (disp_known id v (pre ++ hdr) more p Hin Hok) as (rd & D & R).
      rewrite D. replace (len pre + 3) with (len (pre ++ hdr)) by (rewrite len_app, Hh; reflexivity).
      rewrite <- !app_assoc in *. rewrite R. cbn [bind]. rewrite !len_app. now rewrite N.add_assoc.
    - destruct G as (Ht & Hid & Hns & Hsk).
      cbn [read_loop]. unfold rd_field_begin. rewrite slice_at. cbn [bind].
      change ((t :: be 2 id ++ ThriftGrammar.enc v) ++ more) with (t :: (be 2 id ++ ThriftGrammar.enc v) ++ more).
      rewrite <- app_assoc. rewrite r_field_begin_raw by (unfold two16 in *; lia). cbn [relabel bind].
      change thrift_STOP with 0%Z.
      assert (Hz : i8 t <> 0%Z) by (rewrite i8_small by lia; lia).
      destruct (Z.eqb_spec (i8 t) 0); [contradiction|].
      rewrite disp_unknown; [|apply i16_range; unfold two16 in *; lia|apply i8_range; lia|exact Hns].
      unfold rd_skip.
      replace (len pre + 3) with (len (pre ++ t :: be 2 id)) by (rewrite len_app, len_cons, be_len; lia).
      change (pre ++ t :: be 2 id ++ ThriftGrammar.enc v ++ more)
        with (pre ++ (t :: be 2 id) ++ ThriftGrammar.enc v ++ more).
      rewrite (app_assoc pre (t :: be 2 id)). rewrite slice_at. cbn [bind].
      unfold skipf. rewrite u8_i8 by lia. rewrite Hsk. cbn [relabel bind].
      rewrite <- !app_assoc. cbn [app]. f_equal.
      rewrite !len_app, !len_cons, !len_app. lia.
  Qed.

  Lemma loop_items its : forall fuel pre rest p,
    items_good its rest -> (length its < fuel)%nat ->
    read_loop lb ls disp fuel (pre ++ enc_ritems its ++ rest) (len pre) (Some p) =
    Ok (Some (apply_items apply p its), len pre + len (enc_ritems its)).
  Proof.
    induction its as [|it its IH]; intros fuel pre rest p HG Hf.
    - destruct fuel as [|f]; [cbn [length] in Hf; lia|].
      unfold enc_ritems. cbn [map concat app read_loop apply_items fold_left].
      unfold rd_field_begin. rewrite slice_at. cbn [bind].
      rewrite r_field_begin_stop. cbn [relabel bind]. change thrift_STOP with 0%Z. cbn [Z.eqb].
      cbn [enc]. change (len [0]) with 1. reflexivity.
    - destruct fuel as [|f]; [cbn [length] in Hf; lia|].
      destruct HG as [G1 G2].
      assert (E : enc_ritems (it :: its) = enc_ritem it ++ enc_ritems its).
      { unfold enc_ritems. cbn [map concat]. now rewrite <- app_assoc. }
      rewrite E. rewrite <- app_assoc.
      rewrite (loop_step f pre it (enc_ritems its ++ rest) p G1).
      rewrite IH; [|exact G2|cbn [length] in Hf; lia].
      cbn [apply_items fold_left]. f_equal. f_equal. rewrite !len_app. lia.
  Qed.

  Lemma enc_ritems_len_ge its : N.of_nat (length its) < len (enc_ritems its).
  Proof.
    unfold enc_ritems. induction its as [|it its IH]; cbn [map concat length].
    - cbn [enc app]. change (len [0]) with 1. lia.
    - rewrite <- app_assoc, len_app.
      assert (1 <= len (enc_ritem it)).
      { destruct it; cbn [enc_ritem enc]; rewrite ?len_app, ?len_cons; lia. }
      lia.
  Qed.

  Lemma loop_whole its rest p :
    items_good its rest ->
    read_loop lb ls disp (S (length (enc_ritems its ++ rest))) (enc_ritems its ++ rest) 0 (Some p) =
    Ok (Some (apply_items apply p its), len (enc_ritems its)).
  Proof.
    intros HG.
    pose proof (loop_items its (S (length (enc_ritems its ++ rest))) [] rest p HG) as L.
    cbn [app] in L. change (len (@nil N)) with 0 in L. rewrite N.add_0_l in L. apply L.
    pose proof (enc_ritems_len_ge its) as G. rewrite app_length. unfold len in G. lia.
  Qed.
End Loop.

(* well-formed fields followed by bytes are good, given Skip's exactness *)
Lemma wf_app' a b : wf a -> wf b -> wf (a ++ b).
Proof. intros Ha Hb. apply Forall_app. now split. Qed.

Lemma wf_enc_string s : wfbb s = true -> wf (enc (IString s)).
Proof. intros H. cbn [enc]. apply wf_app'; [apply be_wf|now apply wfbb_wf]. Qed.

Lemma wf_enc_entries l :
  forallb (fun kv => wfbb (fst kv) && wfbb (snd kv)) l = true -> wf (enc_entries l).
Proof.
  unfold enc_entries. induction l as [|[k v] l IH]; cbn [forallb map concat fst snd]; intros H; [constructor|].
  apply andb_prop in H as [H1 H2]. apply andb_prop in H1 as [Hk Hv].
  apply wf_app'; [|now apply IH]. unfold enc_entry. cbn [fst snd].
  apply wf_app'; now apply wf_enc_string.
Qed.

Lemma wf_u8 z : wf [u8 z].
Proof. constructor; [apply u8_lt|constructor]. Qed.

Lemma wf_enc_fval v : fval_wf v = true -> wf (enc_fval v).
Proof.
  destruct v as [s|x|l]; cbn [fval_wf enc_fval]; intros H.
  - now apply wf_enc_string.
  - cbn [enc]. apply be_wf.
  - unfold enc_strmap. cbn [enc]. apply wf_app'; [|now apply wf_enc_entries].
    apply wf_app'; [|apply be_wf]. constructor; [apply u8_lt|apply wf_u8].
Qed.

Lemma wf_enc_ritem (EW : ENC_wf_statement) sch it : ritem_ok sch it = true -> wf (enc_ritem it).
Proof.
  destruct it as [id v|t id v]; cbn [ritem_ok enc_ritem]; intros H.
  - apply andb_prop in H as [H H3]. cbn [enc]. apply wf_app'; [|now apply wf_enc_fval].
    apply wf_app'; [apply wf_u8|apply be_wf].
  - apply andb_prop in H as [H H4]. apply andb_prop in H as [H H3]. apply andb_prop in H as [H1 H2].
    pose proof (wt_type t v H1) as Ht.
    constructor; [unfold wfb; lia|]. apply wf_app'; [apply be_wf|exact (EW v t H1)].
Qed.

Lemma wf_enc_ritems (EW : ENC_wf_statement) sch its rest :
  forallb (ritem_ok sch) its = true -> wf rest -> wf (enc_ritems its ++ rest).
Proof.
  intros H Hr. unfold enc_ritems. induction its as [|it its IH]; cbn [forallb map concat] in *.
  - cbn [enc app]. constructor; [unfold wfb; lia|exact Hr].
  - apply andb_prop in H as [H1 H2]. rewrite <- !app_assoc. apply wf_app'; [exact (wf_enc_ritem EW sch it H1)|].
    rewrite app_assoc. now apply IH.
Qed.

Lemma ritems_ok_good (SK : SK_exact_statement) (EW : ENC_wf_statement) sch its rest :
  forallb (ritem_ok sch) its = true -> wf rest -> items_good sch its rest.
Proof.
  intros H Hr. induction its as [|it its IH]; cbn [forallb items_good] in *; [exact I|].
  apply andb_prop in H as [H1 H2]. split; [|now apply IH].
  destruct it as [id v|t id v]; cbn [ritem_ok item_good] in *.
  - apply andb_prop in H1 as [H1 _]. apply andb_prop in H1 as [Ha Hb]. now split.
  - apply andb_prop in H1 as [H1 H4]. apply andb_prop in H1 as [H1 H3]. apply andb_prop in H1 as [Hw Hc].
    split; [now apply (wt_type t v)|]. split; [now apply N.ltb_lt|].
    split; [now apply negb_true_iff in H4|].
    apply SK; [exact Hw|now apply Nat.leb_le in Hc|]. now apply (wf_enc_ritems EW sch).
Qed.

(* a list of known fields only needs nothing of Skip *)
Definition known_good (sch : schema) (it : ritem) : Prop :=
  match it with
  | Known id v => in_schema sch id (fty v) = true /\ fval_ok v = true
  | Unknown _ _ _ => False
  end.
Lemma known_items_good sch its rest : Forall (known_good sch) its -> items_good sch its rest.
Proof.
  induction 1 as [|it its H _ IH]; cbn [items_good]; [exact I|]. split; [|exact IH].
  destruct it; cbn [known_good item_good] in *; [exact H|contradiction].
Qed.

Lemma forallb_Forall {X} (f : X -> bool) (P : X -> Prop) l :
  (forall x, f x = true -> P x) -> forallb f l = true -> Forall P l.
Proof.
  intros H. induction l as [|x l IH]; cbn [forallb]; intros Hf; constructor.
  - apply H. now apply andb_prop in Hf as [? _].
  - apply IH. now apply andb_prop in Hf as [_ ?].
Qed.

(* ---------- the three switches ---------- *)
Ltac schema_ok :=
  let x := fresh "x" in let H := fresh "H" in
  intros x H; cbn [In base_schema baseresp_schema appex_schema] in H;
  repeat (destruct H as [<-|H]; [cbn [fst snd]; (split; [|split]);
                                 [apply in_signedb_spec; reflexivity|apply in_signedb_spec; reflexivity|discriminate]|]);
  contradiction.

Lemma base_sch_ok : forall x, In x base_schema -> in_signed 16 (fst x) /\ in_signed 8 (snd x) /\ snd x <> 0%Z.
Proof. schema_ok. Qed.
Lemma baseresp_sch_ok : forall x, In x baseresp_schema -> in_signed 16 (fst x) /\ in_signed 8 (snd x) /\ snd x <> 0%Z.
Proof. schema_ok. Qed.
Lemma appex_sch_ok : forall x, In x appex_schema -> in_signed 16 (fst x) /\ in_signed 8 (snd x) /\ snd x <> 0%Z.
Proof. schema_ok. Qed.

Ltac eqb_cases H :=
  repeat match goal with |- context [Z.eqb ?a ?b] => destruct (Z.eqb_spec a b) end;
  cbn [andb]; try reflexivity; exfalso; subst; try lia; vm_compute in H; discriminate.

Lemma base_disp_unknown fid ftyp :
  in_signed 16 fid -> in_signed 8 ftyp -> in_schema base_schema fid ftyp = false -> base_disp fid ftyp = None.
Proof.
  intros Hf Ht H. unfold base_disp, case_is.
  change (nth_error base_Base_FastRead_cases 0) with (Some (1 * 256 + 11)%Z).
  change (nth_error base_Base_FastRead_cases 1) with (Some (2 * 256 + 11)%Z).
  change (nth_error base_Base_FastRead_cases 2) with (Some (3 * 256 + 11)%Z).
  change (nth_error base_Base_FastRead_cases 3) with (Some (6 * 256 + 13)%Z).
  cbv beta iota. rewrite !sw_key_decode by (assumption || lia).
  eqb_cases H.
Qed.

Lemma baseresp_disp_unknown fid ftyp :
  in_signed 16 fid -> in_signed 8 ftyp -> in_schema baseresp_schema fid ftyp = false -> baseresp_disp fid ftyp = None.
Proof.
  intros Hf Ht H. unfold baseresp_disp, case_is.
  change (nth_error base_BaseResp_FastRead_cases 0) with (Some (1 * 256 + 11)%Z).
  change (nth_error base_BaseResp_FastRead_cases 1) with (Some (2 * 256 + 8)%Z).
  change (nth_error base_BaseResp_FastRead_cases 2) with (Some (3 * 256 + 13)%Z).
  cbv beta iota. rewrite !sw_key_decode by (assumption || lia).
  eqb_cases H.
Qed.

Lemma appex_disp_unknown fid ftyp :
  in_signed 16 fid -> in_signed 8 ftyp -> in_schema appex_schema fid ftyp = false -> appex_disp fid ftyp = None.
Proof.
  intros Hf Ht H. unfold appex_disp, cond_is.
  change (nth_error thrift_ApplicationException_FastRead_conds 0) with (Some [1; 11]%Z).
  change (nth_error thrift_ApplicationException_FastRead_conds 1) with (Some [2; 8]%Z).
  cbv beta iota. eqb_cases H.
Qed.

Lemma fval_ok_str s : fval_ok (FStr s) = true -> len s < two31.
Proof. cbn [fval_ok]. apply N.ltb_lt. Qed.
Lemma fval_ok_i32 v : fval_ok (FI32 v) = true -> in_signed 32 v.
Proof. cbn [fval_ok]. apply in_signedb_spec. Qed.
Lemma fval_ok_map l : fval_ok (FMap l) = true -> len l < two32 /\ entries_ok l = true.
Proof. cbn [fval_ok]. intros H. apply andb_prop in H as [H1 H2]. split; [now apply N.ltb_lt|exact H2]. Qed.

Ltac schema_cases Hin :=
  apply in_schema_In in Hin; cbn [In base_schema baseresp_schema appex_schema] in Hin;
  repeat (destruct Hin as [Hin|Hin]; [inversion Hin; subst; clear Hin|]); try contradiction.

Lemma base_disp_known id v pre r p :
  in_schema base_schema id (fty v) = true -> fval_ok v = true ->
  exists rd, base_disp id (fty v) = Some rd /\
             rd (pre ++ enc_fval v ++ r) (len pre) (Some p) = Ok (Some (base_apply p id v), len pre + len (enc_fval v)).
Proof.
  intros Hin Hok. destruct v as [s|x|l]; schema_cases Hin; cbn [fty enc_fval].
  - exists (rd_string_into lbl_field set_logid). split; [reflexivity|].
    now rewrite rd_string_into_enc by (now apply fval_ok_str).
  - exists (rd_string_into lbl_field set_caller). split; [reflexivity|].
    now rewrite rd_string_into_enc by (now apply fval_ok_str).
  - exists (rd_string_into lbl_field set_addr). split; [reflexivity|].
    now rewrite rd_string_into_enc by (now apply fval_ok_str).
  - exists (rd_map_into lbl_field set_extra). split; [reflexivity|].
    destruct (fval_ok_map _ Hok). now rewrite rd_map_into_enc by assumption.
Qed.

Lemma baseresp_disp_known id v pre r p :
  in_schema baseresp_schema id (fty v) = true -> fval_ok v = true ->
  exists rd, baseresp_disp id (fty v) = Some rd /\
             rd (pre ++ enc_fval v ++ r) (len pre) (Some p) = Ok (Some (baseresp_apply p id v), len pre + len (enc_fval v)).
Proof.
  intros Hin Hok. destruct v as [s|x|l]; schema_cases Hin; cbn [fty enc_fval].
  - exists (rd_string_into lbl_field set_msg). split; [reflexivity|].
    now rewrite rd_string_into_enc by (now apply fval_ok_str).
  - exists (rd_i32_into lbl_field set_code). split; [reflexivity|].
    now rewrite rd_i32_into_enc by (now apply fval_ok_i32).
  - exists (rd_map_into lbl_field set_rextra). split; [reflexivity|].
    destruct (fval_ok_map _ Hok). now rewrite rd_map_into_enc by assumption.
Qed.

(* ApplicationException: the spec speaks of (message, type) pairs *)
Definition xpair (e : appex) : bytes * Z := (x_msg e, x_type e).
Definition xrec (r : bytes * Z) : appex := {| x_msg := fst r; x_type := snd r |}.
Definition appex_apply_rec (e : appex) (id : Z) (v : fval) : appex := xrec (appex_apply (xpair e) id v).

Lemma xrec_xpair e : xrec (xpair e) = e.
Proof. destruct e; reflexivity. Qed.

Lemma appex_apply_items e its :
  apply_items appex_apply_rec e its = xrec (apply_items appex_apply (xpair e) its).
Proof.
  unfold apply_items. revert e; induction its as [|it its IH]; intros e; cbn [fold_left].
  - now rewrite xrec_xpair.
  - destruct it as [id v|t id v]; [|apply IH].
    rewrite IH. unfold appex_apply_rec. f_equal. f_equal.
    destruct (appex_apply (xpair e) id v); reflexivity.
Qed.

Lemma appex_disp_known id v pre r e :
  in_schema appex_schema id (fty v) = true -> fval_ok v = true ->
  exists rd, appex_disp id (fty v) = Some rd /\
             rd (pre ++ enc_fval v ++ r) (len pre) (Some e) = Ok (Some (appex_apply_rec e id v), len pre + len (enc_fval v)).
Proof.
  intros Hin Hok. destruct v as [s|x|l]; schema_cases Hin; cbn [fty enc_fval].
  - exists (rd_string_into 0%Z set_xmsg). split; [reflexivity|].
    now rewrite rd_string_into_enc by (now apply fval_ok_str).
  - exists (rd_i32_into 0%Z set_xtype). split; [reflexivity|].
    now rewrite rd_i32_into_enc by (now apply fval_ok_i32).
Qed.

(* ---------- read_any_order_unknowns ---------- *)
Lemma base_read_items its rest p :
  items_good base_schema its rest ->
  base_read (Some p) (enc_ritems its ++ rest) = Ok (Some (apply_items base_apply p its), len (enc_ritems its)).
Proof.
  intros H. unfold base_read.
  exact (loop_whole lbl_begin lbl_skip base_disp base_schema base_apply base_sch_ok base_disp_known
                    base_disp_unknown its rest p H).
Qed.

Lemma baseresp_read_items its rest p :
  items_good baseresp_schema its rest ->
  baseresp_read (Some p) (enc_ritems its ++ rest) = Ok (Some (apply_items baseresp_apply p its), len (enc_ritems its)).
Proof.
  intros H. unfold baseresp_read.
  exact (loop_whole lbl_begin lbl_skip baseresp_disp baseresp_schema baseresp_apply baseresp_sch_ok
                    baseresp_disp_known baseresp_disp_unknown its rest p H).
Qed.

Lemma appex_read_items its rest e :
  items_good appex_schema its rest ->
  appex_read (Some e) (enc_ritems its ++ rest) =
  Ok (Some (xrec (apply_items appex_apply (xpair e) its)), len (enc_ritems its)).
Proof.
  intros H. unfold appex_read. rewrite <- appex_apply_items.
  exact (loop_whole 0%Z 0%Z appex_disp appex_schema appex_apply_rec appex_sch_ok
                    appex_disp_known appex_disp_unknown its rest e H).
Qed.

Lemma base_read_any_order_unknowns (SK : SK_exact_statement) (EW : ENC_wf_statement) p its rest :
  forallb (ritem_ok base_schema) its = true -> wf rest ->
  base_read (Some p) (enc_ritems its ++ rest) = Ok (Some (apply_items base_apply p its), len (enc_ritems its)).
Proof. intros H Hr. apply base_read_items. now apply ritems_ok_good. Qed.

Lemma baseresp_read_any_order_unknowns (SK : SK_exact_statement) (EW : ENC_wf_statement) p its rest :
  forallb (ritem_ok baseresp_schema) its = true -> wf rest ->
  baseresp_read (Some p) (enc_ritems its ++ rest) = Ok (Some (apply_items baseresp_apply p its), len (enc_ritems its)).
Proof. intros H Hr. apply baseresp_read_items. now apply ritems_ok_good. Qed.

Lemma appex_read_any_order_unknowns (SK : SK_exact_statement) (EW : ENC_wf_statement) e its rest :
  forallb (ritem_ok appex_schema) its = true -> wf rest ->
  appex_read (Some e) (enc_ritems its ++ rest) =
  Ok (Some (xrec (apply_items appex_apply (xpair e) its)), len (enc_ritems its)).
Proof. intros H Hr. apply appex_read_items. now apply ritems_ok_good. Qed.

(* ---------- each known field = its last occurrence, untouched if none ---------- *)
Lemma last_known_some kid kty its : forall a, exists v, last_known kid kty its (Some a) = Some v.
Proof.
  induction its as [|[id v|t id v] its IH]; intros a; cbn [last_known].
  - now exists a.
  - destruct ((id =? kid) && (fty v =? kty))%Z; apply IH.
  - apply IH.
Qed.

Lemma apply_items_last {A X} (apply : A -> Z -> fval -> A) (proj : A -> X) (kid kty : Z) (conv : fval -> X) :
  (forall p id v, ((id =? kid) && (fty v =? kty))%Z = true -> proj (apply p id v) = conv v) ->
  (forall p id v, ((id =? kid) && (fty v =? kty))%Z = false -> proj (apply p id v) = proj p) ->
  forall its p,
    proj (apply_items apply p its) =
    match last_known kid kty its None with Some v => conv v | None => proj p end.
Proof.
  intros Hset Hkeep.
  assert (G : forall its p acc,
             match acc with Some v => proj p = conv v | None => True end ->
             proj (apply_items apply p its) =
             match last_known kid kty its acc with Some v => conv v | None => proj p end).
  { unfold apply_items. induction its as [|it its IH]; intros p acc Hacc; cbn [fold_left last_known].
    - destruct acc; [exact Hacc|reflexivity].
    - destruct it as [id v|t id v]; [|now apply IH].
      destruct ((id =? kid) && (fty v =? kty))%Z eqn:E.
      + rewrite (IH (apply p id v) (Some v)); [|now apply Hset].
        destruct (last_known_some kid kty its v) as [v' ->]. reflexivity.
      + rewrite (IH (apply p id v) acc).
        * destruct (last_known kid kty its acc); [reflexivity|now apply Hkeep].
        * destruct acc; [rewrite Hkeep by exact E; exact Hacc|exact I]. }
  intros its p. now apply G.
Qed.

Definition fstr (v : fval) : bytes := match v with FStr s => s | _ => [] end.
Definition fi32 (v : fval) : Z := match v with FI32 x => x | _ => 0%Z end.
Definition fmap (v : fval) : smap := match v with FMap l => Some (map_of_entries l) | _ => None end.

Ltac last_tac :=
  let p := fresh "p" in let id := fresh "id" in let v := fresh "v" in let H := fresh "H" in
  intros p id v H; destruct v as [?s|?x|?l]; cbn [fty] in H; unfold F_STRING, F_I32, F_MAP in H;
  cbn [base_apply baseresp_apply appex_apply fstr fi32 fmap];
  repeat match goal with |- context [Z.eqb ?a ?b] => destruct (Z.eqb_spec a b) end;
  subst; try reflexivity; try discriminate; try lia;
  exfalso; revert H; repeat match goal with |- context [Z.eqb ?a ?b] => destruct (Z.eqb_spec a b) end;
  cbn [andb]; try discriminate; try lia.

Lemma base_last p its :
  let q := apply_items base_apply p its in
  b_logid q = match last_known 1 F_STRING its None with Some v => fstr v | None => b_logid p end /\
  b_caller q = match last_known 2 F_STRING its None with Some v => fstr v | None => b_caller p end /\
  b_addr q = match last_known 3 F_STRING its None with Some v => fstr v | None => b_addr p end /\
  b_extra q = match last_known 6 F_MAP its None with Some v => fmap v | None => b_extra p end.
Proof.
  cbv zeta. repeat split; apply apply_items_last; last_tac.
Qed.

Lemma baseresp_last p its :
  let q := apply_items baseresp_apply p its in
  r_msg q = match last_known 1 F_STRING its None with Some v => fstr v | None => r_msg p end /\
  r_code q = match last_known 2 F_I32 its None with Some v => fi32 v | None => r_code p end /\
  r_extra q = match last_known 3 F_MAP its None with Some v => fmap v | None => r_extra p end.
Proof.
  cbv zeta. repeat split; apply apply_items_last; last_tac.
Qed.

Lemma appex_last e its :
  let q := apply_items appex_apply e its in
  fst q = match last_known 1 F_STRING its None with Some v => fstr v | None => fst e end /\
  snd q = match last_known 2 F_I32 its None with Some v => fi32 v | None => snd e end.
Proof.
  cbv zeta. repeat split; apply apply_items_last; last_tac.
Qed.

(* ---------- round trip ---------- *)
Lemma assoc_set_fresh k v m :
  ~ In k (map fst m) -> assoc_set k v m = m ++ [(k, v)].
Proof.
  induction m as [|[k' v'] m IH]; cbn [assoc_set map In app fst]; intros H; [reflexivity|].
  destruct (beqb k k') eqn:E.
  - apply beqb_eq in E. subst. exfalso. apply H. now left.
  - rewrite IH; [reflexivity|]. intros Hin. apply H. now right.
Qed.

Lemma fold_assoc_nodup l : forall m,
  NoDup (map fst m ++ map fst l) ->
  fold_left (fun m kv => assoc_set (fst kv) (snd kv) m) l m = m ++ l.
Proof.
  induction l as [|[k v] l IH]; intros m H; cbn [fold_left fst snd map] in *.
  - now rewrite app_nil_r.
  - rewrite assoc_set_fresh.
    + rewrite IH; [now rewrite <- app_assoc|].
      rewrite map_app. cbn [map fst]. now rewrite <- app_assoc.
    + apply NoDup_remove_2 in H. intros Hin. apply H. apply in_or_app. now left.
Qed.

Lemma map_of_entries_nodup l : NoDup (map fst l) -> map_of_entries l = l.
Proof. intros H. unfold map_of_entries. now rewrite fold_assoc_nodup. Qed.

(* values the wire format can carry: 31-bit string lengths, 32-bit entry count, and a map is a map *)
Definition smap_ok (m : smap) : Prop :=
  match m with
  | None => True
  | Some l => len l < two32 /\ entries_ok l = true /\ NoDup (map fst l)
  end.
Definition base_ok (p : base) : Prop :=
  len (b_logid p) < two31 /\ len (b_caller p) < two31 /\ len (b_addr p) < two31 /\ smap_ok (b_extra p).
Definition baseresp_ok (p : baseresp) : Prop :=
  len (r_msg p) < two31 /\ in_signed 32 (r_code p) /\ smap_ok (r_extra p).
Definition appex_ok (e : appex) : Prop := len (x_msg e) < two31 /\ in_signed 32 (x_type e).

Definition map_items (id : Z) (m : smap) : list ritem :=
  match m with Some l => [Known id (FMap l)] | None => [] end.
Definition base_items (p : base) : list ritem :=
  [Known 1 (FStr (b_logid p)); Known 2 (FStr (b_caller p)); Known 3 (FStr (b_addr p))] ++ map_items 6 (b_extra p).
Definition baseresp_items (p : baseresp) : list ritem :=
  [Known 1 (FStr (r_msg p)); Known 2 (FI32 (r_code p))] ++ map_items 3 (r_extra p).
Definition appex_items (e : appex) : list ritem := [Known 1 (FStr (x_msg e)); Known 2 (FI32 (x_type e))].

Lemma base_items_stream p : enc_ritems (base_items p) = base_stream (Some p).
Proof.
  unfold enc_ritems, base_items, base_stream, enc_string_field, enc_map_field, map_items.
  destruct (b_extra p) as [l|]; cbn [app map concat enc_ritem fty enc_fval]; rewrite ?app_nil_r, <- ?app_assoc; reflexivity.
Qed.
Lemma baseresp_items_stream p : enc_ritems (baseresp_items p) = baseresp_stream (Some p).
Proof.
  unfold enc_ritems, baseresp_items, baseresp_stream, enc_string_field, enc_i32_field, enc_map_field, map_items.
  destruct (r_extra p) as [l|]; cbn [app map concat enc_ritem fty enc_fval]; rewrite ?app_nil_r, <- ?app_assoc; reflexivity.
Qed.
Lemma appex_items_stream e : enc_ritems (appex_items e) = appex_stream (x_msg e) (x_type e).
Proof.
  unfold enc_ritems, appex_items, appex_stream, enc_string_field, enc_i32_field.
  cbn [app map concat enc_ritem fty enc_fval]. rewrite ?app_nil_r, <- ?app_assoc. reflexivity.
Qed.

Lemma map_items_good sch id m :
  in_schema sch id F_MAP = true -> smap_ok m -> Forall (known_good sch) (map_items id m).
Proof.
  intros Hs Hm. destruct m as [l|]; cbn [map_items]; constructor; [|constructor].
  destruct Hm as (H1 & H2 & _). cbn [known_good fty fval_ok]. split; [exact Hs|].
  apply andb_true_intro. split; [now apply N.ltb_lt|exact H2].
Qed.

Lemma str_good sch id s : in_schema sch id F_STRING = true -> len s < two31 -> known_good sch (Known id (FStr s)).
Proof. intros Hs H. cbn [known_good fty fval_ok]. split; [exact Hs|now apply N.ltb_lt]. Qed.
Lemma i32_good sch id v : in_schema sch id F_I32 = true -> in_signed 32 v -> known_good sch (Known id (FI32 v)).
Proof. intros Hs H. cbn [known_good fty fval_ok]. split; [exact Hs|now apply in_signedb_spec]. Qed.

(* reading a struct's stream into any receiver: every field of the receiver is replaced, except an
   absent optional map, which leaves the receiver's map alone (a fresh receiver has none) *)
Lemma base_rt_gen p p0 rest :
  base_ok p ->
  base_read (Some p0) (base_stream (Some p) ++ rest) =
  Ok (Some (with_extra p (match b_extra p with Some l => Some l | None => b_extra p0 end)),
      len (base_stream (Some p))).
Proof.
  intros (H1 & H2 & H3 & H4). rewrite <- base_items_stream.
  rewrite base_read_items.
  - f_equal. f_equal. f_equal. unfold base_items, map_items, apply_items, with_extra.
    destruct (b_extra p) as [l|]; cbn [app fold_left base_apply Z.eqb Pos.eqb b_logid b_caller b_addr b_extra].
    + destruct H4 as (_ & _ & H6). now rewrite map_of_entries_nodup.
    + reflexivity.
  - apply known_items_good. unfold base_items. repeat (apply Forall_cons; [apply str_good; [reflexivity|assumption]|]).
    apply map_items_good; [reflexivity|exact H4].
Qed.

Lemma baseresp_rt_gen p p0 rest :
  baseresp_ok p ->
  baseresp_read (Some p0) (baseresp_stream (Some p) ++ rest) =
  Ok (Some (with_rextra p (match r_extra p with Some l => Some l | None => r_extra p0 end)),
      len (baseresp_stream (Some p))).
Proof.
  intros (H1 & H2 & H4). rewrite <- baseresp_items_stream.
  rewrite baseresp_read_items.
  - f_equal. f_equal. f_equal. unfold baseresp_items, map_items, apply_items, with_rextra.
    destruct (r_extra p) as [l|]; cbn [app fold_left baseresp_apply Z.eqb Pos.eqb r_msg r_code r_extra].
    + destruct H4 as (_ & _ & H6). now rewrite map_of_entries_nodup.
    + reflexivity.
  - apply known_items_good. unfold baseresp_items. apply Forall_cons; [apply str_good; [reflexivity|assumption]|].
    apply Forall_cons; [apply i32_good; [reflexivity|assumption]|].
    apply map_items_good; [reflexivity|exact H4].
Qed.

Lemma appex_rt_gen e e0 rest :
  appex_ok e ->
  appex_read (Some e0) (appex_stream (x_msg e) (x_type e) ++ rest) =
  Ok (Some e, len (appex_stream (x_msg e) (x_type e))).
Proof.
  intros (H1 & H2). rewrite <- appex_items_stream.
  rewrite appex_read_items.
  - f_equal. f_equal. f_equal. destruct e; reflexivity.
  - apply known_items_good. unfold appex_items. apply Forall_cons; [apply str_good; [reflexivity|assumption]|].
    apply Forall_cons; [apply i32_good; [reflexivity|assumption]|]. constructor.
Qed.

Lemma with_extra_id p : with_extra p (b_extra p) = p.
Proof. destruct p; reflexivity. Qed.
Lemma with_rextra_id p : with_rextra p (r_extra p) = p.
Proof. destruct p; reflexivity. Qed.

(* into a fresh receiver: exactly the value (absent map stays absent, empty stays empty) *)
Lemma base_rt p rest :
  base_ok p ->
  base_read (Some base_zero) (base_stream (Some p) ++ rest) = Ok (Some p, len (base_stream (Some p))).
Proof.
  intros H. rewrite base_rt_gen by exact H. destruct p as [a b c [l|]]; reflexivity.
Qed.
Lemma baseresp_rt p rest :
  baseresp_ok p ->
  baseresp_read (Some baseresp_zero) (baseresp_stream (Some p) ++ rest) = Ok (Some p, len (baseresp_stream (Some p))).
Proof.
  intros H. rewrite baseresp_rt_gen by exact H. destruct p as [a c [l|]]; reflexivity.
Qed.

(* a nil pointer writes the single STOP byte; reading it changes nothing *)
Lemma nil_stream_read {A} lb ls (disp : Z -> Z -> option (reader A)) rest (p : option A) :
  read_loop lb ls disp (S (length (enc IFieldStop ++ rest))) (enc IFieldStop ++ rest) 0 p = Ok (p, 1).
Proof.
  cbn [read_loop]. unfold rd_field_begin.
  pose proof (slice_at (@nil N) (enc IFieldStop ++ rest)) as S. cbn [app] in S. change (len (@nil N)) with 0 in S.
  rewrite S. cbn [bind]. rewrite r_field_begin_stop. cbn [relabel bind]. change thrift_STOP with 0%Z. reflexivity.
Qed.

(* ---------- ApplicationException: BLength and FastWrite ---------- *)
Lemma appex_blength_eq e : appex_blength (Some e) = Ok (len (appex_stream (x_msg e) (x_type e))).
Proof.
  unfold appex_blength, appex_stream, enc_string_field, enc_i32_field. f_equal.
  rewrite !l_item_enc. cbn [enc]. rewrite !len_app, !be_len. change (len [u8 0]) with 1.
  change (len [u8 F_STRING]) with 1. change (len [u8 F_I32]) with 1. change (len [0]) with 1. lia.
Qed.

Lemma at_off_item pre tail it :
  len (enc it) <= len tail ->
  at_off (pre ++ tail, len pre) (fun s => w_item s it) =
  Ok ((pre ++ enc it) ++ drop (len (enc it)) tail, len (pre ++ enc it)).
Proof.
  intros H. unfold at_off. rewrite slice_at. cbn [bind]. rewrite w_item_enc by exact H. cbn [bind].
  rewrite take_app_len, len_app. now rewrite <- app_assoc.
Qed.

Lemma appex_write_ok e b :
  len (appex_stream (x_msg e) (x_type e)) <= len b ->
  appex_write (Some e) b =
  Ok (appex_stream (x_msg e) (x_type e) ++ drop (len (appex_stream (x_msg e) (x_type e))) b,
      len (appex_stream (x_msg e) (x_type e))).
Proof.
  unfold appex_stream, enc_string_field, enc_i32_field. intros H.
  rewrite !len_app in H.
  unfold appex_write.
  change (fld thrift_ApplicationException_FastWrite_fields 0) with (@Ok (Z * Z) (11, 1)%Z).
  change (fld thrift_ApplicationException_FastWrite_fields 1) with (@Ok (Z * Z) (8, 2)%Z).
  cbn [bind fst snd].
  change (fun s : bytes => w_field_begin s 11 1) with (fun s : bytes => w_item s (IFieldBegin 11 1)).
  change (fun s : bytes => w_binary s (x_msg e)) with (fun s : bytes => w_item s (IString (x_msg e))).
  change (fun s : bytes => w_field_begin s 8 2) with (fun s : bytes => w_item s (IFieldBegin 8 2)).
  change (fun s : bytes => w_i32 s (x_type e)) with (fun s : bytes => w_item s (II32 (x_type e))).
  change (fun s : bytes => w_byte s thrift_STOP) with (fun s : bytes => w_item s (IByte 0)).
  change (enc IFieldStop) with (enc (IByte 0)) in *.
  unfold F_STRING, F_I32 in *.
  pose proof (at_off_item [] b (IFieldBegin 11 1)) as S1. cbn [app] in S1. change (len (@nil N)) with 0 in S1.
  unfold bytes in *. rewrite S1 by lia. cbn [bind]. clear S1.
  rewrite at_off_item by (rewrite len_drop; lia). cbn [bind].
  rewrite at_off_item by (rewrite !len_drop; lia). cbn [bind].
  rewrite at_off_item by (rewrite !len_drop; lia). cbn [bind].
  rewrite at_off_item by (rewrite !len_drop; lia).
  rewrite !drop_drop. f_equal. f_equal.
  - rewrite <- !app_assoc. do 5 f_equal. f_equal. rewrite !len_app. lia.
  - rewrite <- !app_assoc. reflexivity.
Qed.

(* ---------- FastMarshal ---------- *)
Lemma len_dirty dirt sz : len (dirty dirt sz) = sz.
Proof. unfold dirty, len. rewrite firstn_length, app_length, repeat_length. lia. Qed.

Lemma base_marshal_ok thr dirt p : base_marshal thr dirt p = Ok (base_stream p).
Proof.
  unfold base_marshal, fast_marshal. cbn [bind]. unfold base_write.
  rewrite base_nil_writer by (rewrite len_dirty; lia). cbn [bind].
  rewrite drop_all by (rewrite len_dirty, base_blength_eq; lia). now rewrite app_nil_r.
Qed.
Lemma baseresp_marshal_ok thr dirt p : baseresp_marshal thr dirt p = Ok (baseresp_stream p).
Proof.
  unfold baseresp_marshal, fast_marshal. cbn [bind]. unfold baseresp_write.
  rewrite baseresp_nil_writer by (rewrite len_dirty; lia). cbn [bind].
  rewrite drop_all by (rewrite len_dirty, baseresp_blength_eq; lia). now rewrite app_nil_r.
Qed.
Lemma appex_marshal_ok dirt e : appex_marshal dirt (Some e) = Ok (appex_stream (x_msg e) (x_type e)).
Proof.
  unfold appex_marshal, fast_marshal. rewrite appex_blength_eq. cbn [bind].
  rewrite appex_write_ok by (rewrite len_dirty; lia). cbn [bind].
  rewrite drop_all by (rewrite len_dirty; lia). now rewrite app_nil_r.
Qed.

(* ---------- FastRead on ARBITRARY bytes: never a panic, never reports more than it was given ----------
   (used by C03; what it needs of Binary.Skip is stated as hypotheses, proved of Model/Skip.v elsewhere) *)
Definition good {A} (bound : A -> Prop) (r : res A) : Prop :=
  match r with Ok a => bound a | Err _ => True | Panic _ => False | OOB => False end.

Lemma good_safe {A} (bound : A -> Prop) r : good bound r -> safe r.
Proof. destruct r; cbn; auto. Qed.

Lemma slice_ok {X} (b : list X) off : off <= len b -> slice_from b off = Ok (drop off b).
Proof. intros H. unfold slice_from. destruct (N.leb_spec off (len b)); [reflexivity|lia]. Qed.

Lemma r_binary_gen_good e buf : good (fun x => snd x <= len buf) (r_binary_gen e buf).
Proof.
  unfold r_binary_gen, r_i32, need. destruct (N.ltb_spec (len buf) 4); cbn [bind good]; [exact I|].
  destruct (i32 (unbe (take 4 buf)) <? 0)%Z; cbn [good]; [exact I|].
  destruct (N.ltb_spec (len buf) (4 + Z.to_N (i32 (unbe (take 4 buf))))); cbn [good snd]; [exact I|lia].
Qed.

Lemma r_i32_good buf : good (fun x => snd x <= len buf) (r_i32 buf).
Proof. unfold r_i32, need. destruct (N.ltb_spec (len buf) 4); cbn [bind good snd]; [exact I|lia]. Qed.

Lemma r_field_begin_good buf : good (fun x => snd x <= len buf) (r_field_begin buf).
Proof.
  unfold r_field_begin, need. destruct (N.ltb_spec (len buf) 1); cbn [bind good]; [exact I|].
  destruct (Z.eqb (i8 (nth 0%nat buf 0)) thrift_STOP); cbn [good snd]; [lia|].
  destruct (N.ltb_spec (len buf) 3); cbn [bind good snd]; [exact I|lia].
Qed.

Lemma r_map_begin_good buf : good (fun x => snd x <= len buf) (r_map_begin buf).
Proof. unfold r_map_begin, need. destruct (N.ltb_spec (len buf) 6); cbn [bind good snd]; [exact I|lia]. Qed.

Lemma good_relabel {A} (bound : A -> Prop) k r : good bound r -> good bound (relabel k r).
Proof. destruct r; cbn; auto. Qed.

Lemma rd_string_good b off : off <= len b -> good (fun x => snd x <= len b) (rd_string b off).
Proof.
  intros H. unfold rd_string. rewrite slice_ok by exact H. cbn [bind].
  pose proof (r_binary_gen_good e_read_str (drop off b)) as G. unfold r_string.
  destruct (r_binary_gen e_read_str (drop off b)) as [[s l]| | |]; cbn [good bind snd] in *; try exact G.
  rewrite len_drop in G. lia.
Qed.

Lemma rd_entries_good b : forall fuel i sz off m,
  off <= len b -> good (fun x => snd x <= len b) (rd_entries fuel b i sz off m).
Proof.
  induction fuel as [|f IH]; intros i sz off m H; cbn [rd_entries].
  - destruct (sz <=? i)%Z; cbn [good snd]; [exact H|exact I].
  - destruct (sz <=? i)%Z; cbn [good snd]; [exact H|].
    pose proof (rd_string_good b off H) as G1.
    destruct (rd_string b off) as [[k off1]| | |]; cbn [good bind snd] in *; try exact G1.
    pose proof (rd_string_good b off1 G1) as G2.
    destruct (rd_string b off1) as [[v off2]| | |]; cbn [good bind snd] in *; try exact G2.
    now apply IH.
Qed.

(* a field reader, started inside the buffer on a non-nil receiver, stays inside and keeps the receiver non-nil *)
Definition rbound {A} (b : bytes) (x : option A * N) : Prop := snd x <= len b /\ exists q, fst x = Some q.
Definition reader_ok {A} (rd : reader A) : Prop :=
  forall b off (p : A), off <= len b -> good (rbound b) (rd b off (Some p)).

Lemma rd_string_into_ok {A} lbl (set : bytes -> A -> A) : reader_ok (rd_string_into lbl set).
Proof.
  intros b off p H. unfold rd_string_into. rewrite slice_ok by exact H. cbn [bind is_none].
  pose proof (r_binary_gen_good e_read_str (drop off b)) as G. unfold r_string.
  destruct (r_binary_gen e_read_str (drop off b)) as [[s l]| | |]; cbn [good relabel bind upd snd fst rbound] in *; try exact G.
  rewrite len_drop in G. unfold rbound. cbn [fst snd]. split; [lia|eauto].
Qed.

Lemma rd_i32_into_ok {A} lbl (set : Z -> A -> A) : reader_ok (rd_i32_into lbl set).
Proof.
  intros b off p H. unfold rd_i32_into. rewrite slice_ok by exact H. cbn [bind is_none].
  pose proof (r_i32_good (drop off b)) as G.
  destruct (r_i32 (drop off b)) as [[v l]| | |]; cbn [good relabel bind upd snd fst rbound] in *; try exact G.
  rewrite len_drop in G. unfold rbound. cbn [fst snd]. split; [lia|eauto].
Qed.

Lemma rd_map_into_ok {A} lbl (set : smap -> A -> A) : reader_ok (rd_map_into lbl set).
Proof.
  intros b off p H. unfold rd_map_into, rd_strmap. rewrite slice_ok by exact H. cbn [bind is_none].
  pose proof (r_map_begin_good (drop off b)) as G.
  destruct (r_map_begin (drop off b)) as [[[[kt vt] sz] l]| | |]; cbn [good relabel bind snd] in *; try exact G.
  rewrite len_drop in G.
  pose proof (rd_entries_good b (S (length b)) 0%Z sz (off + l) [] ltac:(lia)) as G2.
  destruct (rd_entries (S (length b)) b 0 sz (off + l) []) as [[m off']| | |];
    cbn [good relabel bind upd snd fst rbound] in *; try exact G2.
  unfold rbound. cbn [fst snd]. split; [exact G2|eauto].
Qed.

Lemma wf_drop n b : wf b -> wf (drop n b).
Proof.
  unfold drop, wf. generalize (N.to_nat n) as k. intros k. revert b.
  induction k as [|k IH]; intros b H; cbn [skipn]; [exact H|].
  destruct b as [|x b]; [constructor|]. apply IH. now inversion H.
Qed.

Section Safety.
  Hypothesis SKS : SK_safe_statement.
  Hypothesis SKB : SK_bounded_statement.
  Context {A : Type}.
  Variables (lb ls : Z) (disp : Z -> Z -> option (reader A)).
  Hypothesis disp_ok : forall fid ftyp rd, disp fid ftyp = Some rd -> reader_ok rd.

  Lemma rd_skip_good b off t : wf b -> off <= len b -> good (fun off' => off' <= len b) (rd_skip ls b off t).
  Proof.
    intros Hw H. unfold rd_skip. rewrite slice_ok by exact H. cbn [bind]. unfold skipf.
    pose proof (SKS (drop off b) (u8 t) (wf_drop off b Hw) (u8_lt t)) as S1.
    pose proof (SKB (drop off b) (u8 t)) as S2.
    destruct (binary_skip (drop off b) (u8 t)) as [n| | |]; cbn [good relabel bind safe] in *; try exact I; try contradiction.
    specialize (S2 n (wf_drop off b Hw) (u8_lt t) eq_refl). rewrite len_drop in S2. lia.
  Qed.

  Lemma read_loop_good b : wf b -> forall fuel off (p : A),
    off <= len b -> good (rbound b) (read_loop lb ls disp fuel b off (Some p)).
  Proof.
    intros Hw. induction fuel as [|f IH]; intros off p H; cbn [read_loop]; [exact I|].
    unfold rd_field_begin. rewrite slice_ok by exact H. cbn [bind].
    pose proof (r_field_begin_good (drop off b)) as G.
    destruct (r_field_begin (drop off b)) as [[[ftyp fid] l]| | |]; cbn [good relabel bind snd] in *; try exact G.
    rewrite len_drop in G.
    destruct (ftyp =? thrift_STOP)%Z; [cbn [good]; unfold rbound; cbn [snd fst]; split; [lia|eauto]|].
    destruct (disp fid ftyp) as [rd|] eqn:D.
    - pose proof (disp_ok _ _ _ D b (off + l) p ltac:(lia)) as G1.
      destruct (rd b (off + l) (Some p)) as [[p' off']| | |]; cbn [good bind] in *; try exact G1.
      unfold rbound in G1. cbn [fst snd] in G1. destruct G1 as [G1 [q ->]]. now apply IH.
    - pose proof (rd_skip_good b (off + l) ftyp Hw ltac:(lia)) as G1.
      destruct (rd_skip ls b (off + l) ftyp) as [off'| | |]; cbn [good bind] in *; try exact G1.
      now apply IH.
  Qed.
End Safety.

Lemma base_disp_ok fid ftyp rd : base_disp fid ftyp = Some rd -> reader_ok rd.
Proof.
  unfold base_disp. intros H.
  repeat match type of H with (if ?c then _ else _) = _ => destruct c end;
    try discriminate; inversion H; subst;
    auto using (@rd_string_into_ok base), (@rd_map_into_ok base).
Qed.
Lemma baseresp_disp_ok fid ftyp rd : baseresp_disp fid ftyp = Some rd -> reader_ok rd.
Proof.
  unfold baseresp_disp. intros H.
  repeat match type of H with (if ?c then _ else _) = _ => destruct c end;
    try discriminate; inversion H; subst;
    auto using (@rd_string_into_ok baseresp), (@rd_i32_into_ok baseresp), (@rd_map_into_ok baseresp).
Qed.
Lemma appex_disp_ok fid ftyp rd : appex_disp fid ftyp = Some rd -> reader_ok rd.
Proof.
  unfold appex_disp. intros H.
  repeat match type of H with (if ?c then _ else _) = _ => destruct c end;
    try discriminate; inversion H; subst;
    auto using (@rd_string_into_ok appex), (@rd_i32_into_ok appex).
Qed.

Lemma unsome_good {A} b (r : res (option A * N)) :
  good (rbound b) r -> good (fun x => snd x <= len b) (unsome r).
Proof.
  unfold unsome. destruct r as [[p n]| | |]; cbn [good bind]; auto.
  unfold rbound. cbn [fst snd]. intros [H [q E]]. subst. cbn [good snd]. exact H.
Qed.

Section Entry.
  Hypothesis SKS : SK_safe_statement.
  Hypothesis SKB : SK_bounded_statement.

  Lemma fastread_base_good b : wf b -> good (fun x => snd x <= len b) (fastread_base b).
  Proof.
    intros Hw. apply unsome_good. unfold base_read.
    apply (read_loop_good SKS SKB lbl_begin lbl_skip base_disp base_disp_ok b Hw). lia.
  Qed.
  Lemma fastread_baseresp_good b : wf b -> good (fun x => snd x <= len b) (fastread_baseresp b).
  Proof.
    intros Hw. apply unsome_good. unfold baseresp_read.
    apply (read_loop_good SKS SKB lbl_begin lbl_skip baseresp_disp baseresp_disp_ok b Hw). lia.
  Qed.
  Lemma fastread_appex_good b : wf b -> good (fun x => snd x <= len b) (fastread_appex b).
  Proof.
    intros Hw. apply unsome_good. unfold appex_read.
    apply (read_loop_good SKS SKB 0%Z 0%Z appex_disp appex_disp_ok b Hw). lia.
  Qed.

  Lemma fastread_base_total b : wf b -> safe (fastread_base b).
  Proof. intros Hw. exact (good_safe _ _ (fastread_base_good b Hw)). Qed.
  Lemma fastread_baseresp_total b : wf b -> safe (fastread_baseresp b).
  Proof. intros Hw. exact (good_safe _ _ (fastread_baseresp_good b Hw)). Qed.
  Lemma fastread_appex_total b : wf b -> safe (fastread_appex b).
  Proof. intros Hw. exact (good_safe _ _ (fastread_appex_good b Hw)). Qed.

  Lemma fastread_base_bounded b p n : wf b -> fastread_base b = Ok (p, n) -> n <= len b.
  Proof. intros Hw E. pose proof (fastread_base_good b Hw) as G. rewrite E in G. exact G. Qed.
  Lemma fastread_baseresp_bounded b p n : wf b -> fastread_baseresp b = Ok (p, n) -> n <= len b.
  Proof. intros Hw E. pose proof (fastread_baseresp_good b Hw) as G. rewrite E in G. exact G. Qed.
  Lemma fastread_appex_bounded b p n : wf b -> fastread_appex b = Ok (p, n) -> n <= len b.
  Proof. intros Hw E. pose proof (fastread_appex_good b Hw) as G. rewrite E in G. exact G. Qed.
End Entry.

(* ---------- write side, assembled ---------- *)
Lemma base_write_ok thr p b :
  base_blength p <= len b ->
  base_write thr p b = Ok (base_stream p ++ drop (len (base_stream p)) b, base_blength p).
Proof. intros H. unfold base_write. rewrite base_nil_writer by exact H. cbn [bind]. now rewrite base_blength_eq. Qed.
Lemma baseresp_write_ok thr p b :
  baseresp_blength p <= len b ->
  baseresp_write thr p b = Ok (baseresp_stream p ++ drop (len (baseresp_stream p)) b, baseresp_blength p).
Proof. intros H. unfold baseresp_write. rewrite baseresp_nil_writer by exact H. cbn [bind]. now rewrite baseresp_blength_eq. Qed.

Lemma exact_buf (s b : bytes) : len b = len s -> s ++ drop (len s) b = s.
Proof. intros H. rewrite drop_all by lia. apply app_nil_r. Qed.

Lemma base_write_read thr p b rest :
  base_ok p -> len b = base_blength (Some p) ->
  exists bs, base_write thr (Some p) b = Ok (bs, base_blength (Some p)) /\ len bs = base_blength (Some p) /\
             base_read (Some base_zero) (bs ++ rest) = Ok (Some p, base_blength (Some p)).
Proof.
  intros Hok Hb. exists (base_stream (Some p)). rewrite base_write_ok by lia.
  rewrite base_blength_eq in *. rewrite exact_buf by exact Hb.
  split; [reflexivity|]. split; [reflexivity|]. now apply base_rt.
Qed.
Lemma baseresp_write_read thr p b rest :
  baseresp_ok p -> len b = baseresp_blength (Some p) ->
  exists bs, baseresp_write thr (Some p) b = Ok (bs, baseresp_blength (Some p)) /\ len bs = baseresp_blength (Some p) /\
             baseresp_read (Some baseresp_zero) (bs ++ rest) = Ok (Some p, baseresp_blength (Some p)).
Proof.
  intros Hok Hb. exists (baseresp_stream (Some p)). rewrite baseresp_write_ok by lia.
  rewrite baseresp_blength_eq in *. rewrite exact_buf by exact Hb.
  split; [reflexivity|]. split; [reflexivity|]. now apply baseresp_rt.
Qed.
Lemma appex_write_read e b rest e0 :
  appex_ok e -> appex_blength (Some e) = Ok (len b) ->
  exists bs, appex_write (Some e) b = Ok (bs, len b) /\ len bs = len b /\
             appex_read (Some e0) (bs ++ rest) = Ok (Some e, len b).
Proof.
  intros Hok Hb. rewrite appex_blength_eq in Hb. inversion Hb as [Hl].
  exists (appex_stream (x_msg e) (x_type e)). rewrite appex_write_ok by lia.
  rewrite exact_buf by lia.
  split; [reflexivity|]. split; [reflexivity|]. now apply appex_rt_gen.
Qed.

(* nil receivers of Base / BaseResp: one STOP byte out, and reading it changes nothing *)
Lemma nil_base thr b rest p0 :
  1 <= len b ->
  base_blength None = 1 /\ base_write thr None b = Ok ([0] ++ drop 1 b, 1) /\
  base_read p0 ([0] ++ rest) = Ok (p0, 1).
Proof.
  intros H. split; [reflexivity|]. split.
  - pose proof (base_write_ok thr None b H) as W. exact W.
  - apply (nil_stream_read lbl_begin lbl_skip base_disp rest p0).
Qed.
Lemma nil_baseresp thr b rest p0 :
  1 <= len b ->
  baseresp_blength None = 1 /\ baseresp_write thr None b = Ok ([0] ++ drop 1 b, 1) /\
  baseresp_read p0 ([0] ++ rest) = Ok (p0, 1).
Proof.
  intros H. split; [reflexivity|]. split.
  - pose proof (baseresp_write_ok thr None b H) as W. exact W.
  - apply (nil_stream_read lbl_begin lbl_skip baseresp_disp rest p0).
Qed.

(* FastUnmarshal (FastMarshal p) = p *)
Lemma base_marshal_unmarshal thr dirt p :
  base_ok p ->
  exists bs, base_marshal thr dirt (Some p) = Ok bs /\ fast_unmarshal (base_read (Some base_zero)) bs = Ok (Some p).
Proof.
  intros H. exists (base_stream (Some p)). split; [apply base_marshal_ok|].
  unfold fast_unmarshal. rewrite <- (app_nil_r (base_stream (Some p))). now rewrite base_rt.
Qed.
Lemma baseresp_marshal_unmarshal thr dirt p :
  baseresp_ok p ->
  exists bs, baseresp_marshal thr dirt (Some p) = Ok bs /\ fast_unmarshal (baseresp_read (Some baseresp_zero)) bs = Ok (Some p).
Proof.
  intros H. exists (baseresp_stream (Some p)). split; [apply baseresp_marshal_ok|].
  unfold fast_unmarshal. rewrite <- (app_nil_r (baseresp_stream (Some p))). now rewrite baseresp_rt.
Qed.
Lemma appex_marshal_unmarshal dirt e e0 :
  appex_ok e ->
  exists bs, appex_marshal dirt (Some e) = Ok bs /\ fast_unmarshal (appex_read (Some e0)) bs = Ok (Some e).
Proof.
  intros H. exists (appex_stream (x_msg e) (x_type e)). split; [apply appex_marshal_ok|].
  unfold fast_unmarshal. rewrite <- (app_nil_r (appex_stream _ _)). now rewrite appex_rt_gen.
Qed.
