(* Proofs/FastCodecP.v — lemmas about Model/FastCodec.v (C11). *)
From GV Require Import Lib.Bytes Lib.Res Gen.Consts Model.Binary Spec.Wire Model.Skip Model.Nocopy Model.FastCodec
                       Spec.FastSpec Spec.FastRead.
From Coq Require Import ZifyN ZifyNat ZifyBool.
Open Scope N_scope.

(* the field tables the translator reads off the generated code are the interface definition *)
Lemma fast_consts_ok :
  base_Base_FastWriteNocopy_fields = [(11, 1); (11, 2); (11, 3); (13, 6)]%Z /\
  base_Base_FastWriteNocopy_mapkv = [(11, 11)]%Z /\
  base_Base_FastRead_cases = [267; 523; 779; 1549]%Z /\
  base_BaseResp_FastWriteNocopy_fields = [(11, 1); (8, 2); (13, 3)]%Z /\
  base_BaseResp_FastWriteNocopy_mapkv = [(11, 11)]%Z /\
  base_BaseResp_FastRead_cases = [267; 520; 781]%Z /\
  thrift_ApplicationException_FastWrite_fields = [(11, 1); (8, 2)]%Z /\
  thrift_ApplicationException_FastRead_conds = [[1; 11]; [2; 8]]%Z.
Proof. repeat split; reflexivity. Qed.
