(* Proofs/SpanP.v — lemmas about Model/Span.v (C16). *)
From GV Require Import Lib.Bytes Lib.Res Lib.Heap Gen.Consts Model.Binary Model.Unsafex Model.BufReader Model.Span Spec.Indep.
From Coq Require Import ZifyN ZifyNat ZifyBool Lia.
Open Scope N_scope.

(* the constants the model reads from the Go sources *)
Lemma consts_ok_span :
  thrift_spanCache_size = 1048576%Z /\ span_spanCacheSize = 10%Z /\ span_minSpanClass = 8%Z /\
  span_minSpanObject = 128%Z /\ span_maxSpanObject = 131071%Z.
Proof. repeat split; reflexivity. Qed.

Lemma dirtmake_ok nb ln cp b a :
  dirtmake nb ln cp = Ok (b, a) ->
  sptr b = Some (nb, 0) /\ slen b = Z.to_N ln /\ scap b = Z.to_N cp /\ a = Z.to_N cp /\ (0 <= ln <= cp)%Z.
Proof.
  unfold dirtmake. destruct (Z.ltb_spec ln 0); cbn [orb]; [discriminate|].
  destruct (Z.ltb_spec cp ln); [discriminate|].
  intros E. inversion E; subst. cbn. repeat split; lia.
Qed.
