(* Proofs/SpanP.v — lemmas about Model/Span.v (C16): the span allocator. *)
From GV Require Import Lib.Bytes Lib.Res Lib.Heap Gen.Consts Model.Binary Model.Unsafex Model.BufReader Model.Span Spec.Indep Proofs.SpanHeap.
From Coq Require Import ZifyN ZifyNat ZifyBool Lia.
Open Scope N_scope.

(* the constants the model reads from the Go sources *)
Lemma consts_ok_span :
  thrift_spanCache_size = 1048576%Z /\ span_spanCacheSize = 10%Z /\ span_minSpanClass = 8%Z /\
  span_minSpanObject = 128%Z /\ span_maxSpanObject = 131071%Z.
Proof. repeat split; reflexivity. Qed.

Lemma u32_small z : (0 <= z < 4294967296)%Z -> u32 z = Z.to_N z.
Proof.
  intros H. unfold u32, to_unsigned. change (Z.of_N (2 ^ 32)) with 4294967296%Z.
  now rewrite Z.mod_small.
Qed.

Lemma dirtmake_ok nb ln cp :
  (0 <= ln <= cp)%Z ->
  dirtmake nb ln cp = Ok ({| sptr := Some (nb, 0); slen := Z.to_N ln; scap := Z.to_N cp |}, Z.to_N cp).
Proof.
  intros H. unfold dirtmake.
  destruct (Z.ltb_spec ln 0); [lia|]. destruct (Z.ltb_spec cp ln); [lia|]. reflexivity.
Qed.

Lemma dirtmake_inv nb ln cp b a :
  dirtmake nb ln cp = Ok (b, a) ->
  (0 <= ln <= cp)%Z /\ b = {| sptr := Some (nb, 0); slen := Z.to_N ln; scap := Z.to_N cp |} /\ a = Z.to_N cp.
Proof.
  unfold dirtmake. destruct (Z.ltb_spec ln 0); cbn [orb]; [discriminate|].
  destruct (Z.ltb_spec cp ln); [discriminate|].
  intros E. inversion E; subst. repeat split; lia.
Qed.

(* ---------- one span ---------- *)
Definition span_wf (sp : span) : Prop :=
  s_read sp <= s_size sp /\ s_size sp <= s_cap sp /\ 2 * s_size sp <= two32.

Inductive make_case (sp sp' : span) (b : gslice) (a : option N) (n : N) (nb : nat) : Prop :=
| mc_fallback : sp' = sp -> sptr b = Some (nb, 0) -> a = Some n -> make_case sp sp' b a n nb
| mc_fast : a = None -> s_blk sp' = s_blk sp -> s_cap sp' = s_cap sp ->
            sptr b = Some (s_blk sp, s_read sp) -> s_read sp' = s_read sp + n ->
            make_case sp sp' b a n nb
| mc_slow : a = Some (s_size sp) -> s_blk sp' = nb -> s_cap sp' = s_size sp ->
            sptr b = Some (nb, 0) -> s_read sp' = n -> s_size sp < s_read sp + n ->
            make_case sp sp' b a n nb.

Lemma mod32_small x : x < two32 -> x mod two32 = x.
Proof. intros H. apply N.mod_small. exact H. Qed.

Lemma mod32_sub r n : r < two32 -> n < two32 -> n <= r + n -> (r + n + two32 - n) mod two32 = r.
Proof.
  intros Hr Hn _. replace (r + n + two32 - n) with (r + 1 * two32) by lia.
  rewrite N.mod_add by (unfold two32; lia). now apply N.mod_small.
Qed.

(* span.Make never panics on a well-formed span and returns [:n:n] *)
Lemma span_make_spec sp n ct nb :
  span_wf sp -> (0 <= n < 4294967296)%Z ->
  exists sp' b a, span_make sp n ct nb = Ok (sp', b, a) /\
    slen b = Z.to_N n /\ scap b = Z.to_N n /\ s_size sp' = s_size sp /\ span_wf sp' /\
    make_case sp sp' b a (Z.to_N n) nb.
Proof.
  intros [Hr [Hc H2]] Hn. unfold span_make. rewrite (u32_small n Hn).
  set (k := Z.to_N n). assert (Hk : k < two32) by (unfold two32, k; lia).
  destruct ((s_size sp <=? k) || ct) eqn:Hfb.
  - rewrite dirtmake_ok by lia. cbn [bind]. do 3 eexists. split; [reflexivity|].
    cbn [slen scap]. rewrite !N2Z.id.
    split; [reflexivity|]. split; [reflexivity|]. split; [reflexivity|].
    split; [unfold span_wf; lia|]. apply mc_fallback; reflexivity.
  - apply Bool.orb_false_iff in Hfb. destruct Hfb as [Hlt _].
    apply N.leb_gt in Hlt.
    assert (Hsum : s_read sp + k < two32) by lia.
    rewrite (mod32_small _ Hsum).
    destruct (N.leb_spec (s_read sp + k) (s_size sp)) as [Hfit|Hover].
    + rewrite mod32_sub by lia. unfold slice3.
      assert (Hcond : (s_read sp <=? s_read sp + k) && (s_read sp + k <=? s_read sp + k) &&
                      (s_read sp + k <=? s_cap sp) = true).
      { rewrite !Bool.andb_true_iff. repeat split; apply N.leb_le; lia. }
      rewrite Hcond. cbn [bind]. do 3 eexists. split; [reflexivity|].
      cbn [slen scap set_span s_size s_read s_cap s_blk].
      split; [lia|]. split; [lia|]. split; [reflexivity|].
      split; [unfold span_wf; cbn [set_span s_size s_read s_cap s_blk]; lia|].
      apply mc_fast; cbn [set_span s_size s_read s_cap s_blk sptr]; reflexivity.
    + rewrite dirtmake_ok by lia. cbn [bind scap]. rewrite !N2Z.id.
      rewrite N.add_0_l. rewrite (mod32_small k Hk).
      destruct (N.leb_spec k (s_size sp)) as [_|Hbad]; [|lia].
      replace (k + two32 - k) with (0 + 1 * two32) by lia.
      rewrite N.mod_add by (unfold two32; lia). rewrite N.mod_0_l by (unfold two32; lia).
      unfold slice3.
      assert (Hcond : (0 <=? k) && (k <=? k) && (k <=? s_size sp) = true).
      { rewrite !Bool.andb_true_iff. repeat split; apply N.leb_le; lia. }
      rewrite Hcond. cbn [bind]. do 3 eexists. split; [reflexivity|].
      cbn [slen scap set_span s_size s_read s_cap s_blk].
      split; [lia|]. split; [lia|]. split; [reflexivity|].
      split; [unfold span_wf; cbn [set_span s_size s_read s_cap s_blk]; lia|].
      apply mc_slow; cbn [set_span s_size s_read s_cap s_blk sptr]; try reflexivity. lia.
Qed.

(* ---------- lists: set_nth ---------- *)
Lemma set_nth_split {A} i (x y : A) l :
  nth_error l i = Some y ->
  exists l1 l2, l = l1 ++ y :: l2 /\ set_nth i x l = l1 ++ x :: l2 /\ length l1 = i.
Proof.
  revert i; induction l as [|z l IH]; intros [|i] H; cbn in H; try discriminate.
  - inversion H; subst. exists [], l. repeat split.
  - destruct (IH i H) as [l1 [l2 [E1 [E2 E3]]]]. exists (z :: l1), l2. cbn [set_nth app length].
    rewrite <- E1, E2, E3. repeat split.
Qed.

Lemma NoDup_insert {A} (x : A) l1 l2 : NoDup (l1 ++ l2) -> ~ In x (l1 ++ l2) -> NoDup (l1 ++ x :: l2).
Proof.
  intros H Hn. apply (proj2 (NoDup_Add (Add_app x l1 l2))). split; assumption.
Qed.

(* ---------- the cache ---------- *)
(* [bs] lists the sizes of the heap's blocks; block ids are positions in it *)
Definition cinv (c : cache) (bs : list N) : Prop :=
  Forall span_wf c /\
  Forall (fun sp => (s_blk sp < length bs)%nat /\ s_cap sp <= nth (s_blk sp) bs 0) c /\
  NoDup (map s_blk c) /\
  (Z.of_nat (length c) + span_minSpanClass <= 32)%Z.

(* a region is "allocated" when it does not reach into the unused tail of any span block *)
Definition allocd (c : cache) (r : region) : Prop :=
  Forall (fun sp => r_blk r <> s_blk sp \/ r_ext r = 0 \/ r_off r + r_ext r <= s_read sp) c.

Definition grow (bs : list N) (a : option N) : list N :=
  match a with Some k => bs ++ [k] | None => bs end.

Definition inside (bs : list N) (r : region) : Prop :=
  (r_blk r < length bs)%nat /\ r_off r + r_ext r <= nth (r_blk r) bs 0.

(* what one Make establishes *)
Definition make_post (c c' : cache) (bs : list N) (b : gslice) (a : option N) (k : N) : Prop :=
  slen b = k /\ scap b = k /\
  exists R, slice_region b = Some R /\
    cinv c' (grow bs a) /\ inside (grow bs a) R /\ allocd c' R /\
    (r_blk R = length bs -> a <> None) /\
    (forall X, (r_blk X < length bs)%nat -> allocd c X -> rdisj R X /\ allocd c' X).

Lemma cinv_grow c bs k : cinv c bs -> cinv c (bs ++ [k]).
Proof.
  intros [H1 [H2 [H3 H4]]]. repeat split; try assumption.
  apply Forall_forall. intros sp Hin. rewrite Forall_forall in H2. destruct (H2 sp Hin) as [Ha Hb].
  rewrite app_length. split; [lia|]. now rewrite app_nth1.
Qed.

(* a fresh block handed out beside the spans *)
Lemma fresh_post c bs k b :
  cinv c bs -> b = {| sptr := Some (length bs, 0); slen := k; scap := k |} ->
  make_post c c bs b (Some k) k.
Proof.
  intros Hc ->. split; [reflexivity|]. split; [reflexivity|].
  exists {| r_blk := length bs; r_off := 0; r_ext := k |}. cbn [grow].
  split; [reflexivity|]. split; [now apply cinv_grow|]. split.
  { unfold inside. cbn [r_blk r_off r_ext]. rewrite app_length. cbn [length]. split; [lia|].
    rewrite app_nth2 by lia. rewrite Nat.sub_diag. cbn [nth]. lia. }
  destruct Hc as [H1 [H2 [H3 H4]]]. split.
  { apply Forall_forall. intros sp Hin. rewrite Forall_forall in H2. destruct (H2 sp Hin) as [Ha _].
    left. cbn [r_blk]. lia. }
  split; [discriminate|].
  intros X HX HaX. split; [|assumption]. left. cbn [r_blk]. lia.
Qed.

Lemma span_step l1 sp l2 sp' bs b a k :
  cinv (l1 ++ sp :: l2) bs -> span_wf sp' -> s_size sp' = s_size sp ->
  slen b = k -> scap b = k -> make_case sp sp' b a k (length bs) ->
  make_post (l1 ++ sp :: l2) (l1 ++ sp' :: l2) bs b a k.
Proof.
  intros Hc Hwf' Hsz Hl Hcp Hcase.
  destruct Hcase as [Esp Hp Ha | Ha Hblk Hcap Hp Hrd | Ha Hblk Hcap Hp Hrd Hover].
  - (* fallback *)
    subst sp' a. apply fresh_post; [assumption|]. destruct b as [p l c0]. cbn in *. now subst.
  - (* fast path: bump inside the current block *)
    subst a. split; [assumption|]. split; [assumption|].
    exists {| r_blk := s_blk sp; r_off := s_read sp; r_ext := k |}.
    split; [unfold slice_region; rewrite Hp, Hcp; reflexivity|]. cbn [grow].
    destruct Hc as [H1 [H2 [H3 H4]]].
    apply Forall_app in H1. destruct H1 as [H1a H1b]. inversion H1b as [|? ? Hwf H1c]; subst.
    apply Forall_app in H2. destruct H2 as [H2a H2b]. inversion H2b as [|? ? Hb2 H2c]; subst.
    rewrite map_app in H3. cbn [map] in H3.
    pose proof (NoDup_remove_2 _ _ _ H3) as Hnotin.
    destruct Hwf' as [Hw1 [Hw2 Hw3]]. destruct Hb2 as [Hb2a Hb2b].
    split; [|split; [|split; [|split]]].
    + repeat split.
      * apply Forall_app. split; [assumption|]. constructor; [repeat split; assumption|assumption].
      * apply Forall_app. split; [assumption|]. constructor; [|assumption]. rewrite Hblk, Hcap. split; assumption.
      * rewrite map_app. cbn [map]. rewrite Hblk. assumption.
      * rewrite app_length in *. cbn [length] in *. assumption.
    + unfold inside. cbn [r_blk r_off r_ext]. split; [assumption|]. lia.
    + unfold allocd. cbn [r_blk r_off r_ext]. apply Forall_app. split; [|constructor].
      * apply Forall_forall. intros x Hx. left. intros E. apply Hnotin. apply in_or_app. left.
        rewrite E. now apply in_map.
      * right. right. lia.
      * apply Forall_forall. intros x Hx. left. intros E. apply Hnotin. apply in_or_app. right.
        rewrite E. now apply in_map.
    + cbn [r_blk]. lia.
    + intros X HX HaX. unfold allocd in HaX. apply Forall_app in HaX. destruct HaX as [Xa Xb].
      inversion Xb as [|? ? Xsp Xc]; subst. split.
      * unfold rdisj. cbn [r_blk r_off r_ext]. destruct Xsp as [Xs|[Xs|Xs]].
        -- left. congruence.
        -- right. right. left. assumption.
        -- right. right. right. right. assumption.
      * unfold allocd. apply Forall_app. split; [assumption|]. constructor; [|assumption].
        rewrite Hblk. destruct Xsp as [Xs|[Xs|Xs]]; [left; assumption|right; left; assumption|right; right; lia].
  - (* slow path: a new block for the span *)
    subst a. split; [assumption|]. split; [assumption|].
    exists {| r_blk := length bs; r_off := 0; r_ext := k |}.
    split; [unfold slice_region; rewrite Hp, Hcp; reflexivity|]. cbn [grow].
    destruct Hc as [H1 [H2 [H3 H4]]].
    apply Forall_app in H1. destruct H1 as [H1a H1b]. inversion H1b as [|? ? Hwf H1c]; subst.
    apply Forall_app in H2. destruct H2 as [H2a H2b]. inversion H2b as [|? ? Hb2 H2c]; subst.
    rewrite map_app in H3. cbn [map] in H3.
    pose proof (NoDup_remove_1 _ _ _ H3) as Hnd.
    destruct Hwf' as [Hw1 [Hw2 Hw3]].
    assert (Hold : forall x, In x (l1 ++ l2) -> (s_blk x < length bs)%nat /\ s_cap x <= nth (s_blk x) bs 0).
    { intros x Hx. apply in_app_or in Hx. rewrite Forall_forall in H2a, H2c. destruct Hx; auto. }
    split; [|split; [|split; [|split]]].
    + repeat split.
      * apply Forall_app. split; [assumption|]. constructor; [repeat split; assumption|assumption].
      * apply Forall_forall. intros x Hx. rewrite app_length. cbn [length].
        apply in_app_or in Hx. destruct Hx as [Hx|[Hx|Hx]].
        -- destruct (Hold x (in_or_app _ _ _ (or_introl Hx))) as [Ha Hb]. split; [lia|]. now rewrite app_nth1.
        -- subst x. rewrite Hblk, Hcap. split; [lia|]. rewrite app_nth2 by lia. rewrite Nat.sub_diag. cbn [nth]. lia.
        -- destruct (Hold x (in_or_app _ _ _ (or_intror Hx))) as [Ha Hb]. split; [lia|]. now rewrite app_nth1.
      * rewrite map_app. cbn [map]. rewrite Hblk. apply NoDup_insert; [assumption|].
        rewrite <- map_app. intros Hin. apply in_map_iff in Hin. destruct Hin as [x [Ex Hx]].
        destruct (Hold x Hx) as [Ha _]. lia.
      * rewrite app_length in *. cbn [length] in *. assumption.
    + unfold inside. cbn [r_blk r_off r_ext]. rewrite app_length. cbn [length]. split; [lia|].
      rewrite app_nth2 by lia. rewrite Nat.sub_diag. cbn [nth]. lia.
    + unfold allocd. cbn [r_blk r_off r_ext]. apply Forall_app. split; [|constructor].
      * apply Forall_forall. intros x Hx. left. destruct (Hold x (in_or_app _ _ _ (or_introl Hx))). lia.
      * right. right. lia.
      * apply Forall_forall. intros x Hx. left. destruct (Hold x (in_or_app _ _ _ (or_intror Hx))). lia.
    + discriminate.
    + intros X HX HaX. unfold allocd in HaX. apply Forall_app in HaX. destruct HaX as [Xa Xb].
      inversion Xb as [|? ? Xsp Xc]; subst. split.
      * left. cbn [r_blk]. lia.
      * unfold allocd. apply Forall_app. split; [assumption|]. constructor; [|assumption].
        left. lia.
Qed.

Lemma to_unsigned64_small n : (0 <= n < 9223372036854775808)%Z -> to_unsigned 64 n = Z.to_N n.
Proof.
  intros H. unfold to_unsigned. change (Z.of_N (2 ^ 64)) with 18446744073709551616%Z.
  rewrite Z.mod_small by lia. reflexivity.
Qed.

(* a size whose class index is below 32 - minSpanClass fits 32 bits *)
Lemma span_class_bound n m :
  (0 <= n < 9223372036854775808)%Z -> (span_class n < m)%Z -> (m <= 32)%Z -> (n < 4294967296)%Z.
Proof.
  intros Hn Hc Hm. unfold span_class in Hc. destruct (Z.eqb_spec n 0) as [->|Hnz]; [lia|].
  rewrite to_unsigned64_small in Hc by assumption.
  pose proof (N.size_gt (Z.to_N n)) as Hg.
  assert (Hp : 2 ^ N.size (Z.to_N n) <= 2 ^ 31) by (apply N.pow_le_mono_r; lia).
  change (2 ^ 31) with 2147483648 in Hp. lia.
Qed.

(* spanCache.Make: never panics, returns [:n:n], keeps the invariant, and the returned region is
   disjoint from every region allocated before *)
Lemma cache_make_step c bs n ct :
  cinv c bs -> (0 <= n < 9223372036854775808)%Z ->
  exists c' b a, cache_make c n ct (length bs) = Ok (c', b, a) /\ make_post c c' bs b a (Z.to_N n).
Proof.
  intros Hc Hn. unfold cache_make.
  set (k := (span_class n - span_minSpanClass)%Z).
  destruct ((k <? 0)%Z || (Z.of_nat (length c) <=? k)%Z) eqn:Hout.
  - rewrite dirtmake_ok by lia. cbn [bind]. do 3 eexists. split; [reflexivity|].
    now apply fresh_post.
  - apply Bool.orb_false_iff in Hout. destruct Hout as [Hk0 Hk1].
    apply Z.ltb_ge in Hk0. apply Z.leb_gt in Hk1.
    destruct (nth_error c (Z.to_nat k)) as [sp|] eqn:Hnth.
    2:{ apply nth_error_None in Hnth. lia. }
    destruct (set_nth_split (Z.to_nat k) sp sp c Hnth) as [l1 [l2 [Ec _]]].
    assert (Hn32 : (n < 4294967296)%Z).
    { destruct Hc as [_ [_ [_ H4]]].
      apply (span_class_bound n (span_minSpanClass + Z.of_nat (length c))); lia. }
    assert (Hwf : span_wf sp).
    { destruct Hc as [H1 _]. rewrite Forall_forall in H1. apply H1. eapply nth_error_In; eassumption. }
    destruct (span_make_spec sp n ct (length bs) Hwf (conj (proj1 Hn) Hn32))
      as [sp' [b [a [E [Hl [Hcp [Hsz [Hwf' Hcase]]]]]]]].
    rewrite E. cbn [bind]. do 3 eexists. split; [reflexivity|].
    destruct (set_nth_split (Z.to_nat k) sp' sp c Hnth) as [m1 [m2 [Ec' [Es Elen]]]].
    rewrite Es. rewrite Ec' in Hc |- *.
    now apply span_step.
Qed.

Lemma rdisj_sym a b : rdisj a b -> rdisj b a.
Proof. unfold rdisj. intros [H|[H|[H|[H|H]]]]; auto 6. Qed.

Lemma inside_grow bs al r : inside bs r -> inside (bs ++ al) r.
Proof.
  intros [H1 H2]. split; [rewrite app_length; lia|]. now rewrite app_nth1.
Qed.

Lemma grow_length bs a :
  length (grow bs a) = match a with Some _ => S (length bs) | None => length bs end.
Proof. destruct a; cbn [grow]; [rewrite app_length; cbn; lia|reflexivity]. Qed.

Definition go_int (n : Z) : Prop := (0 <= n < 9223372036854775808)%Z.

(* any sequence of Makes: all returned regions are pairwise disjoint, inside their blocks,
   cap = len = the size asked for, and disjoint from everything that was allocated before *)
Lemma run_makes_spec reqs : forall c bs,
  cinv c bs -> Forall (fun q => go_int (fst q)) reqs ->
  exists c' slices allocs rs,
    run_makes c (length bs) reqs = Ok (c', length (bs ++ allocs), slices, allocs) /\
    cinv c' (bs ++ allocs) /\
    Forall2 (fun q b => slen b = Z.to_N (fst q) /\ scap b = slen b) reqs slices /\
    Forall2 (fun b r => slice_region b = Some r) slices rs /\
    pairwise_disjoint rs /\ Forall (inside (bs ++ allocs)) rs /\ Forall (allocd c') rs /\
    (forall X, (r_blk X < length bs)%nat -> allocd c X -> Forall (rdisj X) rs /\ allocd c' X).
Proof.
  induction reqs as [|[n ct] reqs IH]; intros c bs Hc Hq.
  - exists c, [], [], []. cbn [run_makes]. rewrite app_nil_r.
    split; [reflexivity|]. split; [assumption|]. do 5 (split; [constructor|]).
    intros X _ HXa. split; [constructor|assumption].
  - inversion Hq as [|? ? Hn Hq']; subst. cbn [fst] in Hn.
    destruct (cache_make_step c bs n ct Hc Hn) as [c1 [b [a [E [Hl [Hcp [R [HR [Hc1 [Hin [HaR [Hnew HX]]]]]]]]]]]].
    destruct (IH c1 (grow bs a) Hc1 Hq') as [c' [sl [al [rs [E2 [Hc' [F1 [F2 [Hpd [Hins [Hal HX2]]]]]]]]]]].
    assert (Hnb : match a with Some _ => S (length bs) | None => length bs end = length (grow bs a))
      by (now rewrite grow_length).
    exists c', (b :: sl), (match a with Some k => k :: al | None => al end), (R :: rs).
    assert (Eapp : bs ++ match a with Some k => k :: al | None => al end = grow bs a ++ al).
    { destruct a; cbn [grow]; [now rewrite <- app_assoc|reflexivity]. }
    rewrite Eapp. cbn [run_makes]. rewrite E. cbn [bind]. rewrite Hnb, E2. cbn [bind].
    destruct (HX2 R (proj1 Hin) HaR) as [HdR HaR'].
    split; [reflexivity|]. split; [assumption|].
    split; [constructor; [cbn [fst]; split; congruence|assumption]|].
    split; [constructor; assumption|].
    split; [constructor; assumption|].
    split; [constructor; [now apply inside_grow|assumption]|].
    split; [constructor; assumption|].
    intros X HXb HXa. destruct (HX X HXb HXa) as [Hd Ha1].
    assert (HXb1 : (r_blk X < length (grow bs a))%nat) by (rewrite grow_length; destruct a; lia).
    destruct (HX2 X HXb1 Ha1) as [Hd2 Ha2]. split; [|assumption].
    constructor; [now apply rdisj_sym|assumption].
Qed.

(* ---------- NewSpanCache establishes the invariant (any span size up to 2^31) ---------- *)
Lemma new_spans_spec size : (0 <= size <= 2147483648)%Z -> forall k (bs : list N),
  exists c, new_spans k (length bs) size = Ok (c, repeat (Z.to_N size) k) /\
    length c = k /\ Forall span_wf c /\
    Forall (fun sp => (length bs <= s_blk sp < length bs + k)%nat /\ s_cap sp = Z.to_N size /\ s_read sp = 0) c /\
    NoDup (map s_blk c).
Proof.
  intros Hs. induction k as [|k IH]; intros bs.
  - exists []. cbn. repeat split; constructor.
  - cbn [new_spans]. unfold new_span. rewrite dirtmake_ok by lia. cbn [bind scap].
    destruct (IH (bs ++ [Z.to_N size])) as [c [E [Hl [Hw [Hb Hnd]]]]].
    rewrite app_length in E, Hb. cbn [length] in E, Hb. rewrite Nat.add_1_r in E. rewrite E. cbn [bind].
    eexists. split; [reflexivity|]. cbn [length map]. split; [now rewrite Hl|].
    split.
    { constructor; [|assumption]. unfold span_wf. cbn [s_read s_size s_cap].
      rewrite u32_small by lia. unfold two32. lia. }
    split.
    { constructor.
      - cbn [s_blk s_cap s_read]. repeat split; lia.
      - eapply Forall_impl; [|exact Hb]. cbn beta. intros sp [H1 [H2 H3]]. repeat split; try assumption; lia. }
    constructor; [|assumption]. cbn [s_blk]. intros Hin. apply in_map_iff in Hin.
    destruct Hin as [sp [Esp Hsp]]. rewrite Forall_forall in Hb. destruct (Hb sp Hsp) as [H1 _]. lia.
Qed.

Lemma nth_repeat_app {A} (bs : list A) (x d : A) k i :
  (length bs <= i < length bs + k)%nat -> nth i (bs ++ repeat x k) d = x.
Proof.
  intros H. rewrite app_nth2 by lia.
  assert (Hi : (i - length bs < k)%nat) by lia. revert Hi. generalize (i - length bs)%nat. clear H.
  induction k as [|k IH]; intros j Hj; [lia|]. destruct j; cbn; [reflexivity|]. apply IH. lia.
Qed.

Lemma new_cache_inv size (bs : list N) :
  (0 <= size <= 2147483648)%Z -> (0 <= span_spanCacheSize)%Z -> (span_spanCacheSize + span_minSpanClass <= 32)%Z ->
  exists c al, new_cache (length bs) size = Ok (c, al) /\ cinv c (bs ++ al) /\
               Forall (fun sp => s_read sp = 0) c.
Proof.
  intros Hs Hk0 Hk. unfold new_cache.
  destruct (new_spans_spec size Hs (Z.to_nat span_spanCacheSize) bs) as [c [E [Hl [Hw [Hb Hnd]]]]].
  exists c, (repeat (Z.to_N size) (Z.to_nat span_spanCacheSize)). split; [assumption|]. split.
  - split; [assumption|]. split; [|split; [assumption|lia]].
    eapply Forall_impl; [|exact Hb]. cbn beta. intros sp [H1 [H2 H3]].
    rewrite app_length, repeat_length. split; [lia|]. rewrite nth_repeat_app by lia. lia.
  - eapply Forall_impl; [|exact Hb]. cbn beta. tauto.
Qed.

(* package thrift: spanCache = span.NewSpanCache(1024*1024) *)
Lemma thrift_cache_inv (bs : list N) :
  exists c al, new_cache (length bs) thrift_span_size = Ok (c, al) /\ cinv c (bs ++ al).
Proof.
  destruct (new_cache_inv thrift_span_size bs) as [c [al [E [H _]]]].
  - unfold thrift_span_size. destruct consts_ok_span as [-> _]. lia.
  - destruct consts_ok_span as [_ [-> _]]. lia.
  - destruct consts_ok_span as [_ [-> [-> _]]]. lia.
  - now exists c, al.
Qed.

(* ================= heap level ================= *)
Definition sizes (h : heap) : list N := map len h.
Definition hinv (h : heap) (c : cache) : Prop := cinv c (sizes h).

Lemma sizes_length h : length (sizes h) = length h.
Proof. unfold sizes. apply map_length. Qed.

Lemma sizes_nth h b : nth b (sizes h) 0 = len (block h b).
Proof. unfold sizes, block. change 0 with (len (@nil N)). apply map_nth. Qed.

Lemma inside_valid h r : inside (sizes h) r <-> region_valid h r.
Proof. unfold inside, region_valid. now rewrite sizes_length, sizes_nth. Qed.

Lemma fit_len k dirt : len (fit k dirt) = k.
Proof.
  unfold fit. apply take_len. rewrite len_app, len_repeat. lia.
Qed.

Lemma sizes_alloc h a dirt : sizes (apply_alloc h a dirt) = grow (sizes h) a.
Proof.
  destruct a as [k|]; cbn [apply_alloc grow]; [|reflexivity].
  unfold sizes. rewrite map_app. cbn [map]. now rewrite fit_len.
Qed.

Lemma sizes_write h b off v :
  off + len v <= len (block h b) -> sizes (write h (b, off) v) = sizes h.
Proof.
  intros H. apply nth_ext with (d := 0) (d' := 0).
  - now rewrite !sizes_length, write_length.
  - intros n _. rewrite !sizes_nth. now apply write_block_len.
Qed.

Lemma alloc_block_old h a dirt b : (b < length h)%nat -> block (apply_alloc h a dirt) b = block h b.
Proof. intros H. destruct a; cbn [apply_alloc]; [now apply block_app_old|reflexivity]. Qed.

(* what an allocation (span or plain) establishes for the slice it returns *)
Definition alloc_post (c c' : cache) (bs : list N) (b : gslice) (a : option N) : Prop :=
  slen b <= scap b /\
  exists R, slice_region b = Some R /\
    cinv c' (grow bs a) /\ inside (grow bs a) R /\ allocd c' R /\
    (forall X, (r_blk X < length bs)%nat -> allocd c X -> rdisj R X /\ allocd c' X).

Lemma make_post_alloc c c' bs b a k : make_post c c' bs b a k -> alloc_post c c' bs b a.
Proof.
  intros [Hl [Hc [R [HR [H1 [H2 [H3 [_ H4]]]]]]]]. split; [lia|]. exists R.
  split; [assumption|]. split; [assumption|]. split; [assumption|]. split; assumption.
Qed.

(* a plain allocation with spare capacity: []byte(string(v)) *)
Lemma fresh_alloc_post c bs ln cp :
  cinv c bs -> ln <= cp ->
  alloc_post c c bs {| sptr := Some (length bs, 0); slen := ln; scap := cp |} (Some cp).
Proof.
  intros Hc Hle. split; [assumption|].
  exists {| r_blk := length bs; r_off := 0; r_ext := cp |}. cbn [grow].
  split; [reflexivity|]. split; [now apply cinv_grow|]. split.
  { unfold inside. cbn [r_blk r_off r_ext]. rewrite app_length. cbn [length]. split; [lia|].
    rewrite app_nth2 by lia. rewrite Nat.sub_diag. cbn [nth]. lia. }
  destruct Hc as [H1 [H2 [H3 H4]]]. split.
  { apply Forall_forall. intros sp Hin. rewrite Forall_forall in H2. destruct (H2 sp Hin) as [Ha _].
    left. cbn [r_blk]. lia. }
  intros X HX HaX. split; [|assumption]. left. cbn [r_blk]. lia.
Qed.

(* the value is stored through the freshly allocated slice: everything the theorems need *)
Definition placed (h h' : heap) (c c' : cache) (p : option ptr) (ln cp : N) (v : bytes) : Prop :=
  hinv h' c' /\ (length h <= length h')%nat /\
  read h' p ln = v /\
  exists R, p = Some (r_blk R, r_off R) /\ r_ext R = cp /\
    region_valid h' R /\ allocd c' R /\
    (forall X, region_valid h X -> allocd c X ->
       rdisj R X /\ allocd c' X /\ region_valid h' X /\ region_bytes h' X = region_bytes h X).

Lemma place_value h c c' b a v dirt :
  hinv h c -> alloc_post c c' (sizes h) b a -> slen b = len v ->
  placed h (store (apply_alloc h a dirt) (sptr b) v) c c' (sptr b) (slen b) (scap b) v.
Proof.
  intros Hh [Hlc [R [HR [Hc' [Hin [HaR HX]]]]]] Hl.
  unfold slice_region in HR. destruct (sptr b) as [[blk off]|] eqn:Hp; [|discriminate].
  inversion HR; subst R; clear HR. cbn [store].
  set (h1 := apply_alloc h a dirt).
  assert (Hs1 : sizes h1 = grow (sizes h) a) by apply sizes_alloc.
  rewrite <- Hs1 in Hc', Hin. apply inside_valid in Hin. destruct Hin as [Hb Hfit].
  cbn [r_blk r_off r_ext] in Hb, Hfit.
  assert (Hw : off + len v <= len (block h1 blk)) by lia.
  assert (Hlen1 : (length h <= length h1)%nat).
  { unfold h1. destruct a; cbn [apply_alloc]; [rewrite app_length|]; lia. }
  split; [unfold hinv; now rewrite sizes_write|].
  split; [now rewrite write_length|].
  split; [rewrite Hl; now apply write_readback|].
  exists {| r_blk := blk; r_off := off; r_ext := scap b |}. cbn [r_blk r_off r_ext].
  split; [reflexivity|]. split; [reflexivity|].
  split.
  { split; cbn [r_blk r_off r_ext]; [now rewrite write_length|]. now rewrite write_block_len. }
  split; [assumption|].
  intros X HvX HaX. destruct HvX as [HXb HXfit].
  rewrite <- sizes_length in HXb. destruct (HX X HXb HaX) as [Hd HaX']. rewrite sizes_length in HXb.
  split; [assumption|]. split; [assumption|].
  assert (Hblk : block h1 (r_blk X) = block h (r_blk X)) by (now apply alloc_block_old).
  split.
  - split; [rewrite write_length; lia|]. rewrite write_block_len by assumption. now rewrite Hblk.
  - transitivity (region_bytes h1 X).
    + apply write_frame; [assumption|].
      unfold rdisj in *. cbn [r_blk r_off r_ext] in *. lia.
    + unfold region_bytes, read. now rewrite Hblk.
Qed.

(* ---------- the header checks ---------- *)
Lemma r_i32_cases buf :
  (len buf < 4 /\ r_i32 buf = Err e_read_i32) \/
  (4 <= len buf /\ r_i32 buf = Ok (i32 (unbe (take 4 buf)), 4)).
Proof.
  unfold r_i32, need. destruct (N.ltb_spec (len buf) 4); [left|right]; split; auto.
Qed.

(* the model of the header is the value-level reader of Model/Binary.v *)
Lemma rb_header_binary e buf : rb_header e buf = r_binary_gen e buf.
Proof.
  unfold rb_header, r_binary_gen.
  destruct (r_i32_cases buf) as [[Hs E]|[Hs E]]; rewrite E; [reflexivity|].
  set (sz := i32 (unbe (take 4 buf))).
  destruct (Z.ltb_spec sz 0); [reflexivity|].
  destruct (N.ltb_spec (len buf) (4 + Z.to_N sz)); [reflexivity|].
  unfold slice_range.
  destruct (N.leb_spec 4 (4 + Z.to_N sz)); [|lia].
  destruct (N.leb_spec (4 + Z.to_N sz) (len buf)); [|lia].
  cbn [andb bind]. do 3 f_equal. lia.
Qed.

Lemma rb_header_ok e buf v l :
  rb_header e buf = Ok (v, l) ->
  l = 4 + len v /\ l <= len buf /\ v = take (len v) (drop 4 buf).
Proof.
  rewrite rb_header_binary. unfold r_binary_gen.
  destruct (r_i32_cases buf) as [[Hs E]|[Hs E]]; rewrite E; [discriminate|].
  set (sz := i32 (unbe (take 4 buf))).
  destruct (Z.ltb_spec sz 0); [discriminate|].
  destruct (N.ltb_spec (len buf) (4 + Z.to_N sz)); [discriminate|].
  remember (4 + Z.to_N sz) as l0 eqn:El0.
  intros Eq. inversion Eq; subst v l; clear Eq.
  assert (Hl : len (take (Z.to_N sz) (drop 4 buf)) = Z.to_N sz).
  { apply take_len. rewrite drop_len by lia. lia. }
  rewrite Hl. split; [lia|]. split; [lia|reflexivity].
Qed.

Lemma rb_header_safe e buf : safe (rb_header e buf).
Proof.
  rewrite rb_header_binary. unfold r_binary_gen.
  destruct (r_i32_cases buf) as [[Hs E]|[Hs E]]; rewrite E; [exact I|].
  destruct (_ <? _)%Z; [exact I|]. destruct (_ <? _); exact I.
Qed.

Lemma slice_bytes_len h s : slice_valid h s -> len (slice_bytes h s) = slen s.
Proof.
  intros [Hlc Hv]. unfold slice_bytes, read. destruct (sptr s) as [[b o]|].
  - destruct Hv as [Hb Hin]. rewrite take_len; [reflexivity|]. rewrite drop_len; lia.
  - rewrite len_nil. lia.
Qed.

(* ---------- Binary.ReadBinary on the heap ---------- *)
Definition rb_post (h : heap) (c : cache) (inp : gslice) (enable : bool)
           (r : res (heap * cache * gslice * N)) : Prop :=
  match r with
  | Ok (h', c', b, l) =>
    exists v,
      r_binary (slice_bytes h inp) = Ok (v, l) /\
      slen b = len v /\ slen b <= scap b /\ (enable = true -> scap b = slen b) /\
      placed h h' c c' (sptr b) (slen b) (scap b) v
  | Err e => r_binary (slice_bytes h inp) = Err e
  | Panic _ | OOB => False
  end.

Lemma read_binary_spec enable h c inp ct capo dirt :
  hinv h c -> slice_valid h inp -> go_int (Z.of_N (slen inp)) ->
  rb_post h c inp enable (read_binary enable h c inp ct capo dirt).
Proof.
  intros Hh Hv Hint. unfold read_binary, rb_plan, rb_post, r_binary.
  rewrite <- (rb_header_binary e_read_bin).
  pose proof (rb_header_safe e_read_bin (slice_bytes h inp)) as Hsafe.
  destruct (rb_header e_read_bin (slice_bytes h inp)) as [[v l]|e|w|] eqn:Eh; cbn [bind safe] in *;
    try contradiction; [|reflexivity].
  destruct (rb_header_ok _ _ _ _ Eh) as [El [Hle Ev]].
  rewrite (slice_bytes_len h inp Hv) in Hle.
  assert (Hgo : go_int (Z.of_N (len v))) by (unfold go_int in *; lia).
  destruct enable.
  - rewrite <- (sizes_length h).
    destruct (cache_make_step c (sizes h) (Z.of_N (len v)) ct Hh Hgo) as [c' [b [a [E Hpost]]]].
    rewrite E. cbn [bind]. rewrite N2Z.id in Hpost.
    pose proof Hpost as [Hl [Hc _]].
    exists v. split; [reflexivity|]. split; [assumption|]. split; [lia|]. split; [intros _; lia|].
    rewrite Hl at 1. rewrite take_all by lia.
    apply place_value; [assumption|now apply (make_post_alloc _ _ _ _ _ (len v))|assumption].
  - unfold go_bytes_copy. cbn [bind sptr slen scap].
    exists v. split; [reflexivity|]. split; [reflexivity|]. split; [lia|]. split; [discriminate|].
    rewrite take_all by lia.
    pose proof (place_value h c c {| sptr := Some (length h, 0); slen := len v; scap := N.max capo (len v) |}
                            (Some (N.max capo (len v))) v dirt Hh) as P.
    cbn [sptr slen scap] in P. apply P; [|reflexivity].
    rewrite <- (sizes_length h). apply fresh_alloc_post; [assumption|lia].
Qed.

(* ---------- the runtime's table of one-byte strings ---------- *)
Definition static_region (sb : nat) : region := {| r_blk := sb; r_off := 0; r_ext := 2048 |}.
(* block sb holds the table, and nothing of it lies in the unused tail of a span *)
Definition static_ok (h : heap) (c : cache) (sb : nat) : Prop :=
  region_valid h (static_region sb) /\ allocd c (static_region sb) /\
  region_bytes h (static_region sb) = static_table.

Lemma static_table_check :
  forallb (fun x => beqb (take 1 (drop (8 * x) static_table)) [x]) (map N.of_nat (seq 0 256)) = true.
Proof. vm_compute. reflexivity. Qed.

Lemma static_table_at x : x < 256 -> take 1 (drop (8 * x) static_table) = [x].
Proof.
  intros H. pose proof static_table_check as C. rewrite forallb_forall in C.
  apply beqb_eq. apply C. apply in_map_iff. exists (N.to_nat x). split; [lia|]. apply in_seq. lia.
Qed.

Lemma sub_window {A} (l : list A) n o e : o + e <= n -> take e (drop o (take n l)) = take e (drop o l).
Proof.
  intros H. destruct (N.le_gt_cases n (len l)) as [Hn|Hn].
  - rewrite <- (take_drop n l) at 2. symmetry. apply window_prefix. rewrite take_len by lia. lia.
  - now rewrite (take_all l n) by lia.
Qed.

Lemma static_read h c sb x :
  static_ok h c sb -> x < 256 -> read h (Some (sb, 8 * x)) 1 = [x].
Proof.
  intros [_ [_ Hb]] Hx. unfold region_bytes, static_region, read in Hb. cbn [r_blk r_off r_ext] in Hb.
  rewrite drop_0 in Hb. unfold read. rewrite <- (sub_window _ 2048) by lia. rewrite Hb.
  now apply static_table_at.
Qed.

Lemma wf_take n l : wf l -> wf (take n l).
Proof.
  unfold wf, take. intros H. apply Forall_forall. intros x Hx. rewrite Forall_forall in H. apply H.
  rewrite <- (firstn_skipn (N.to_nat n) l). apply in_or_app. now left.
Qed.
Lemma wf_drop n l : wf l -> wf (drop n l).
Proof.
  unfold wf, drop. intros H. apply Forall_forall. intros x Hx. rewrite Forall_forall in H. apply H.
  rewrite <- (firstn_skipn (N.to_nat n) l). apply in_or_app. now right.
Qed.

(* ---------- Binary.ReadString on the heap ---------- *)
Definition rs_post (h : heap) (c : cache) (sb : nat) (inp : gslice)
           (r : res (heap * cache * gstring * N)) : Prop :=
  match r with
  | Ok (h', c', s, l) =>
    exists v,
      r_string (slice_bytes h inp) = Ok (v, l) /\ tlen s = len v /\
      (placed h h' c c' (tptr s) (tlen s) (tlen s) v \/
       (h' = h /\ c' = c /\ string_bytes h s = v /\
        (tptr s = None \/ exists x, v = [x] /\ tptr s = Some (sb, 8 * x))))
  | Err e => r_string (slice_bytes h inp) = Err e
  | Panic _ | OOB => False
  end.

Lemma read_string_spec enable sb h c inp ct static dirt :
  hinv h c -> slice_valid h inp -> go_int (Z.of_N (slen inp)) ->
  static_ok h c sb -> wf (slice_bytes h inp) ->
  rs_post h c sb inp (read_string enable sb h c inp ct static dirt).
Proof.
  intros Hh Hv Hint Hst Hwf. unfold read_string, rs_plan, rs_post, r_string.
  rewrite <- (rb_header_binary e_read_str).
  pose proof (rb_header_safe e_read_str (slice_bytes h inp)) as Hsafe.
  destruct (rb_header e_read_str (slice_bytes h inp)) as [[v l]|e|w|] eqn:Eh; cbn [bind safe] in *;
    try contradiction; [|reflexivity].
  destruct (rb_header_ok _ _ _ _ Eh) as [El [Hle Ev]].
  rewrite (slice_bytes_len h inp Hv) in Hle.
  assert (Hgo : go_int (Z.of_N (len v))) by (unfold go_int in *; lia).
  destruct enable.
  - rewrite <- (sizes_length h).
    destruct (cache_make_step c (sizes h) (Z.of_N (len v)) ct Hh Hgo) as [c' [b [a [E Hpost]]]].
    rewrite E. cbn [bind]. rewrite N2Z.id in Hpost.
    pose proof Hpost as [Hl [Hc _]].
    exists v. split; [reflexivity|]. cbn [binary_to_string tlen tptr]. split; [assumption|]. left.
    rewrite (take_all v (slen b)) by lia.
    pose proof (place_value h c c' b a v dirt Hh (make_post_alloc _ _ _ _ _ _ Hpost) Hl) as P.
    replace (scap b) with (slen b) in P by lia. exact P.
  - assert (Hfresh : forall k, k = len v ->
        placed h (store (apply_alloc h (Some k) dirt) (Some (length h, 0)) v) c c (Some (length h, 0)) k k v).
    { intros k ->.
      pose proof (place_value h c c {| sptr := Some (length h, 0); slen := len v; scap := len v |}
                              (Some (len v)) v dirt Hh) as P.
      cbn [sptr slen scap] in P. apply P; [|reflexivity].
      rewrite <- (sizes_length h). apply fresh_alloc_post; [assumption|lia]. }
    unfold go_string_copy. destruct v as [|x [|y t]].
    + cbn [bind tlen tptr]. exists []. split; [reflexivity|]. split; [reflexivity|]. right.
      cbn [apply_alloc store]. repeat split. now left.
    + destruct static.
      * cbn [bind tlen tptr]. exists [x]. split; [reflexivity|]. split; [reflexivity|]. right.
        cbn [apply_alloc store]. repeat split.
        -- unfold string_bytes. cbn [tptr tlen]. apply (static_read h c sb x Hst).
           assert (Hw : wf [x]) by (rewrite Ev; apply wf_take, wf_drop, Hwf).
           inversion Hw; assumption.
        -- right. exists x. split; reflexivity.
      * cbn [bind tlen tptr]. exists [x]. split; [reflexivity|]. split; [reflexivity|]. left.
        rewrite take_all by (cbn; lia). apply Hfresh. reflexivity.
    + cbn [bind tlen tptr]. exists (x :: y :: t). split; [reflexivity|]. split; [reflexivity|]. left.
      rewrite take_all by lia. apply Hfresh. reflexivity.
Qed.
