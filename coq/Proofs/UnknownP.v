(* Proofs/UnknownP.v — C13: lemmas about Model/Unknown.v against Spec/UnknownSpec.v. *)
From GV Require Import Lib.Bytes Lib.Res Gen.Consts Model.Binary Spec.Wire Proofs.BinaryP Model.Unknown Spec.UnknownSpec.
From Coq Require Import ZifyN ZifyNat ZifyBool.
Open Scope N_scope.

(* the type codes the wire format fixes are the ones the Go source declares *)
Lemma consts_ok_unknown :
  thrift_STOP = T_STOP /\ thrift_BOOL = T_BOOL /\ thrift_BYTE = T_BYTE /\ thrift_DOUBLE = T_DOUBLE /\
  thrift_I16 = T_I16 /\ thrift_I32 = T_I32 /\ thrift_I64 = T_I64 /\ thrift_STRING = T_STRING /\
  thrift_STRUCT = T_STRUCT /\ thrift_MAP = T_MAP /\ thrift_SET = T_SET /\ thrift_LIST = T_LIST.
Proof. repeat split; reflexivity. Qed.

(* D9 witness: nested struct {1: map<i32,i64>{5:7}; 2: i32 9} *)
Definition d9_value : list (Z * tval) :=
  [(1%Z, TStruct [(1%Z, TMap 8 10 [(TI32 5, TI64 7)]); (2%Z, TI32 9)])].

Lemma d9_repaired : convert (enc_fields d9_value) = Ok (tree_of_fields d9_value).
Proof. vm_compute. reflexivity. Qed.

(* without the per-field reset the I32 member inherits KeyType/ValType of the map before it *)
Lemma d9_without_reset :
  convert_gen false (enc_fields d9_value) =
  Ok [UF 1 12 0 0 (VFields [UF 1 13 8 10 (VFields [UF 0 8 0 0 (VI32 5); UF 0 10 0 0 (VI64 7)]);
                             UF 2 8 8 10 (VI32 9)])].
Proof. vm_compute. reflexivity. Qed.

(* ====================================================================================== *)
(* item readers on an encoded item followed by anything                                    *)
(* ====================================================================================== *)
Ltac rd_inv H r :=
  cbn [kind_of r_item] in H;
  destruct r as [[? ?]|?|?|]; cbn [bind] in H; inversion H; subst; reflexivity.

Lemma rd_bool b rest : r_bool (enc (IBool b) ++ rest) = Ok (b, len (enc (IBool b))).
Proof. pose proof (r_item_enc (IBool b) rest eq_refl) as H. rd_inv H (r_bool (enc (IBool b) ++ rest)). Qed.
Lemma rd_byte z rest : in_signedb 8 z = true -> r_byte (enc (IByte z) ++ rest) = Ok (z, len (enc (IByte z))).
Proof. intros Hz. pose proof (r_item_enc (IByte z) rest Hz) as H. rd_inv H (r_byte (enc (IByte z) ++ rest)). Qed.
Lemma rd_i16 z rest : in_signedb 16 z = true -> r_i16 (enc (II16 z) ++ rest) = Ok (z, len (enc (II16 z))).
Proof. intros Hz. pose proof (r_item_enc (II16 z) rest Hz) as H. rd_inv H (r_i16 (enc (II16 z) ++ rest)). Qed.
Lemma rd_i32 z rest : in_signedb 32 z = true -> r_i32 (enc (II32 z) ++ rest) = Ok (z, len (enc (II32 z))).
Proof. intros Hz. pose proof (r_item_enc (II32 z) rest Hz) as H. rd_inv H (r_i32 (enc (II32 z) ++ rest)). Qed.
Lemma rd_i64 z rest : in_signedb 64 z = true -> r_i64 (enc (II64 z) ++ rest) = Ok (z, len (enc (II64 z))).
Proof. intros Hz. pose proof (r_item_enc (II64 z) rest Hz) as H. rd_inv H (r_i64 (enc (II64 z) ++ rest)). Qed.
Lemma rd_double b rest : (b <? two64) = true -> r_double (enc (IDouble b) ++ rest) = Ok (b, len (enc (IDouble b))).
Proof. intros Hz. pose proof (r_item_enc (IDouble b) rest Hz) as H. rd_inv H (r_double (enc (IDouble b) ++ rest)). Qed.
Lemma rd_string s rest :
  ((len s <? two31) && wfbb s)%bool = true -> r_string (enc (IString s) ++ rest) = Ok (s, len (enc (IString s))).
Proof. intros Hz. pose proof (r_item_enc (IString s) rest Hz) as H. rd_inv H (r_string (enc (IString s) ++ rest)). Qed.

Lemma rd_field_begin t id rest :
  in_signedb 8 t = true -> in_signedb 16 id = true -> t <> 0%Z ->
  r_field_begin (enc (IFieldBegin t id) ++ rest) = Ok (t, id, len (enc (IFieldBegin t id))).
Proof.
  intros Ht Hid Hnz.
  assert (Hok : item_ok (IFieldBegin t id) = true).
  { cbn [item_ok]. rewrite Ht, Hid. destruct (Z.eqb_spec t 0); [contradiction|reflexivity]. }
  pose proof (r_item_enc (IFieldBegin t id) rest Hok) as H.
  cbn [kind_of r_item] in H.
  destruct (r_field_begin (enc (IFieldBegin t id) ++ rest)) as [[[t' id'] n]|?|?|]; cbn [bind] in H; try discriminate.
  destruct (t' =? thrift_STOP)%Z; inversion H; subst. reflexivity.
Qed.

Lemma rd_field_stop rest : r_field_begin (enc IFieldStop ++ rest) = Ok (thrift_STOP, 0%Z, 1).
Proof.
  unfold r_field_begin. cbn [enc app]. rewrite need_ok by (rewrite len_cons; lia). cbn [bind nth].
  change (i8 0) with 0%Z. change thrift_STOP with 0%Z. reflexivity.
Qed.

Lemma rd_map_begin kt vt sz rest :
  in_signedb 8 kt = true -> in_signedb 8 vt = true -> sz < two32 ->
  r_map_begin (enc (IMapBegin kt vt (Z.of_N sz)) ++ rest) = Ok (kt, vt, Z.of_N sz, len (enc (IMapBegin kt vt (Z.of_N sz)))).
Proof.
  intros Hk Hv Hs.
  assert (Hok : item_ok (IMapBegin kt vt (Z.of_N sz)) = true).
  { cbn [item_ok]. rewrite Hk, Hv. unfold two32 in *. cbn [andb]. lia. }
  pose proof (r_item_enc _ rest Hok) as H. cbn [kind_of r_item] in H.
  destruct (r_map_begin _) as [[[[? ?] ?] ?]|?|?|]; cbn [bind] in H; inversion H; subst. reflexivity.
Qed.
Lemma rd_list_begin et sz rest :
  in_signedb 8 et = true -> sz < two32 ->
  r_list_begin (enc (IListBegin et (Z.of_N sz)) ++ rest) = Ok (et, Z.of_N sz, len (enc (IListBegin et (Z.of_N sz)))).
Proof.
  intros Hk Hs.
  assert (Hok : item_ok (IListBegin et (Z.of_N sz)) = true).
  { cbn [item_ok]. rewrite Hk. unfold two32 in *. cbn [andb]. lia. }
  pose proof (r_item_enc _ rest Hok) as H. cbn [kind_of r_item] in H.
  destruct (r_list_begin _) as [[[? ?] ?]|?|?|]; cbn [bind] in H; inversion H; subst. reflexivity.
Qed.
Lemma rd_set_begin et sz rest :
  in_signedb 8 et = true -> sz < two32 ->
  r_set_begin (enc (IListBegin et (Z.of_N sz)) ++ rest) = Ok (et, Z.of_N sz, len (enc (IListBegin et (Z.of_N sz)))).
Proof.
  intros Hk Hs. pose proof (rd_list_begin et sz rest Hk Hs) as H.
  unfold r_set_begin, r_list_begin, r_list_begin_gen, need in *.
  destruct (len (enc (IListBegin et (Z.of_N sz)) ++ rest) <? 5); cbn [bind] in *; [discriminate|exact H].
Qed.

(* ====================================================================================== *)
(* unfolding equations of the three recursive functions, one per type                     *)
(* ====================================================================================== *)
Section Unfold.
  Variables (r : bool) (fuel : nat) (f0 : ufield) (buf : bytes) (id : Z).
  Lemma read_field_0 ty : read_field r O f0 buf ty id = Err e_fuel. Proof. reflexivity. Qed.
  Lemma read_field_bool : read_field r (S fuel) f0 buf T_BOOL id =
    do (v, l) <- r_bool buf; Ok (UF id T_BOOL (uf_kt f0) (uf_vt f0) (VBool v), l). Proof. reflexivity. Qed.
  Lemma read_field_byte : read_field r (S fuel) f0 buf T_BYTE id =
    do (v, l) <- r_byte buf; Ok (UF id T_BYTE (uf_kt f0) (uf_vt f0) (VI8 v), l). Proof. reflexivity. Qed.
  Lemma read_field_i16 : read_field r (S fuel) f0 buf T_I16 id =
    do (v, l) <- r_i16 buf; Ok (UF id T_I16 (uf_kt f0) (uf_vt f0) (VI16 v), l). Proof. reflexivity. Qed.
  Lemma read_field_i32 : read_field r (S fuel) f0 buf T_I32 id =
    do (v, l) <- r_i32 buf; Ok (UF id T_I32 (uf_kt f0) (uf_vt f0) (VI32 v), l). Proof. reflexivity. Qed.
  Lemma read_field_i64 : read_field r (S fuel) f0 buf T_I64 id =
    do (v, l) <- r_i64 buf; Ok (UF id T_I64 (uf_kt f0) (uf_vt f0) (VI64 v), l). Proof. reflexivity. Qed.
  Lemma read_field_double : read_field r (S fuel) f0 buf T_DOUBLE id =
    do (v, l) <- r_double buf; Ok (UF id T_DOUBLE (uf_kt f0) (uf_vt f0) (VDouble v), l). Proof. reflexivity. Qed.
  Lemma read_field_string : read_field r (S fuel) f0 buf T_STRING id =
    do (v, l) <- r_string buf; Ok (UF id T_STRING (uf_kt f0) (uf_vt f0) (VStr v), l). Proof. reflexivity. Qed.
  Lemma read_field_set : read_field r (S fuel) f0 buf T_SET id =
    do (hd, l) <- r_set_begin buf;
    let '(et, size) := hd in
    if (size <? 0)%Z then Panic 3
    else
      do (xs, n) <- elems_loop (fun sub i => read_field r fuel uf_zero sub et i)
                               (S (length buf)) (len buf) (drop l buf) l 0 (Z.to_N size) [];
      Ok (UF id T_SET (uf_kt f0) et (VFields xs), n). Proof. reflexivity. Qed.
  Lemma read_field_list : read_field r (S fuel) f0 buf T_LIST id =
    do (hd, l) <- r_list_begin buf;
    let '(et, size) := hd in
    if (size <? 0)%Z then Panic 3
    else
      do (xs, n) <- elems_loop (fun sub i => read_field r fuel uf_zero sub et i)
                               (S (length buf)) (len buf) (drop l buf) l 0 (Z.to_N size) [];
      Ok (UF id T_LIST (uf_kt f0) et (VFields xs), n). Proof. reflexivity. Qed.
  Lemma read_field_map : read_field r (S fuel) f0 buf T_MAP id =
    do (hd, l) <- r_map_begin buf;
    let '(kt, vt, size) := hd in
    if (size * 2 <? 0)%Z then Panic 3
    else
      do (xs, n) <- pairs_loop (fun sub i => read_field r fuel uf_zero sub kt i)
                               (fun sub i => read_field r fuel uf_zero sub vt i)
                               (S (length buf)) (len buf) (drop l buf) l 0 (Z.to_N size) [];
      Ok (UF id T_MAP kt vt (VFields xs), n). Proof. reflexivity. Qed.
  Lemma read_field_struct : read_field r (S fuel) f0 buf T_STRUCT id =
    do (xs, n) <- fields_loop r (read_field r fuel) (S (length buf)) (len buf) buf 0 uf_zero [];
    Ok (UF id T_STRUCT (uf_kt f0) (uf_vt f0) (VFields xs), n). Proof. reflexivity. Qed.
  Lemma read_field_other ty :
    ty <> T_BOOL -> ty <> T_BYTE -> ty <> T_I16 -> ty <> T_I32 -> ty <> T_I64 -> ty <> T_DOUBLE ->
    ty <> T_STRING -> ty <> T_SET -> ty <> T_LIST -> ty <> T_MAP -> ty <> T_STRUCT ->
    read_field r (S fuel) f0 buf ty id = Err e_unknown_type.
  Proof.
    intros. cbn [read_field].
    repeat match goal with |- context [(ty =? ?c)%Z] =>
      let H := fresh in destruct (Z.eqb_spec ty c) as [H|H]; [exfalso; revert H; assumption|] end.
    reflexivity.
  Qed.
End Unfold.

Section UnfoldLW.
  Variables (buf : bytes) (id kt vt : Z).
  Lemma field_len_set l : field_len (UF id T_SET kt vt (VFields l)) = len_elems field_len l 5. Proof. reflexivity. Qed.
  Lemma field_len_list l : field_len (UF id T_LIST kt vt (VFields l)) = len_elems field_len l 5. Proof. reflexivity. Qed.
  Lemma field_len_map l : field_len (UF id T_MAP kt vt (VFields l)) = len_pairs field_len l 6. Proof. reflexivity. Qed.
  Lemma field_len_struct l : field_len (UF id T_STRUCT kt vt (VFields l)) =
    match len_fields field_len l 0 with Ok n => Ok (n + 1) | Err e => Err e | Panic w => Panic w | OOB => OOB end.
  Proof. reflexivity. Qed.

  Lemma write_field_set l : write_field buf (UF id T_SET kt vt (VFields l)) =
    do (b1, n) <- w_list_begin buf vt (Z.of_N (len l)); w_elems write_field l b1 n. Proof. reflexivity. Qed.
  Lemma write_field_list l : write_field buf (UF id T_LIST kt vt (VFields l)) =
    do (b1, n) <- w_list_begin buf vt (Z.of_N (len l)); w_elems write_field l b1 n. Proof. reflexivity. Qed.
  Lemma write_field_map l : write_field buf (UF id T_MAP kt vt (VFields l)) =
    do (b1, n) <- w_map_begin buf kt vt (Z.of_N (len l / 2)); w_pairs write_field l b1 n. Proof. reflexivity. Qed.
  Lemma write_field_struct l : write_field buf (UF id T_STRUCT kt vt (VFields l)) =
    do (b1, n) <- w_fields write_field l buf 0;
    do (b2, n2) <- on_slice b1 n w_field_stop;
    Ok (b2, n + n2). Proof. reflexivity. Qed.
End UnfoldLW.

(* ====================================================================================== *)
(* the shape of a canonical tree                                                           *)
(* ====================================================================================== *)
Inductive shape : ufield -> Prop :=
| ShBool id b : shape (UF id T_BOOL 0 0 (VBool b))
| ShByte id z : in_signedb 8 z = true -> shape (UF id T_BYTE 0 0 (VI8 z))
| ShI16 id z : in_signedb 16 z = true -> shape (UF id T_I16 0 0 (VI16 z))
| ShI32 id z : in_signedb 32 z = true -> shape (UF id T_I32 0 0 (VI32 z))
| ShI64 id z : in_signedb 64 z = true -> shape (UF id T_I64 0 0 (VI64 z))
| ShDouble id b : (b <? two64) = true -> shape (UF id T_DOUBLE 0 0 (VDouble b))
| ShString id s : ((len s <? two31) && wfbb s)%bool = true -> shape (UF id T_STRING 0 0 (VStr s))
| ShStruct id l : forallb canon l = true -> shape (UF id T_STRUCT 0 0 (VFields l))
| ShMap id kt vt l : in_signedb 8 kt = true -> in_signedb 8 vt = true -> len l / 2 < two32 ->
                     canon_pairs canon kt vt 0 l = true -> shape (UF id T_MAP kt vt (VFields l))
| ShSet id vt l : in_signedb 8 vt = true -> len l < two32 -> canon_elems canon vt 0 l = true ->
                  shape (UF id T_SET 0 vt (VFields l))
| ShList id vt l : in_signedb 8 vt = true -> len l < two32 -> canon_elems canon vt 0 l = true ->
                   shape (UF id T_LIST 0 vt (VFields l)).

Lemma canon_shape f : canon f = true -> in_signedb 16 (uf_id f) = true /\ shape f.
Proof.
  destruct f as [id ty kt vt v]. cbn [canon uf_id].
  intros H. apply andb_true_iff in H as [Hid H]. split; [exact Hid|].
  repeat match type of H with
  | (if (ty =? ?c)%Z then _ else _) = true =>
    let E := fresh "E" in destruct (Z.eqb_spec ty c) as [E|E]
  | (if ((ty =? ?c)%Z || (ty =? ?d)%Z)%bool then _ else _) = true =>
    let E := fresh "E" in let E' := fresh "E" in
    destruct (Z.eqb_spec ty c) as [E|E]; [|destruct (Z.eqb_spec ty d) as [E'|E']]; cbn [orb] in H
  end; try discriminate; subst ty.
  all: repeat match type of H with (_ && _)%bool = true => let H1 := fresh "H" in apply andb_true_iff in H as [H H1] end.
  all: repeat match goal with Hx : (?a =? 0)%Z = true |- _ => apply Z.eqb_eq in Hx; subst a end.
  all: destruct v; try discriminate.
  all: constructor; auto; try lia; try (apply andb_true_iff; split; assumption).
Qed.

(* ====================================================================================== *)
(* convert on the encoding of a canonical tree                                             *)
(* ====================================================================================== *)
Definition reads_back (fuel : nat) (x : ufield) : Prop :=
  forall rest, read_field true fuel uf_zero (enc_tree x ++ rest) (uf_ty x) (uf_id x) = Ok (x, len (enc_tree x)).

Lemma slice_at_ok blen pos cur : pos <= blen -> slice_at blen pos cur = Ok cur.
Proof. intros H. unfold slice_at. destruct (N.leb_spec pos blen); [reflexivity|lia]. Qed.

Lemma concat_cons_app (x : bytes) (xs : list bytes) (rest : bytes) : concat (x :: xs) ++ rest = x ++ (concat xs ++ rest).
Proof. cbn [concat]. now rewrite app_assoc. Qed.

Lemma elems_loop_ok fuel' et : forall l lf blen rest pos i acc,
  Forall (reads_back fuel') l ->
  canon_elems canon et i l = true ->
  (length l < lf)%nat -> pos + len (concat (map enc_tree l)) <= blen ->
  elems_loop (fun sub id => read_field true fuel' uf_zero sub et id) lf blen
             (concat (map enc_tree l) ++ rest) pos i (i + len l) acc
  = Ok (rev acc ++ l, pos + len (concat (map enc_tree l))).
Proof.
  induction l as [|x xs IH]; intros lf blen rest pos i acc Hrb Hc Hlf Hfit.
  - destruct lf as [|lf']; [cbn [length] in Hlf; lia|].
    cbn [elems_loop map concat]. rewrite len_nil, N.add_0_r, N.ltb_irrefl. now rewrite app_nil_r, N.add_0_r.
  - destruct lf as [|lf']; [cbn [length] in Hlf; lia|].
    inversion Hrb as [|? ? Hx Hxs]; subst.
    cbn [canon_elems] in Hc.
    apply andb_true_iff in Hc as [Hc Hc4]. apply andb_true_iff in Hc as [Hc Hc3].
    apply andb_true_iff in Hc as [Hc1 Hc2].
    apply Z.eqb_eq in Hc1, Hc2.
    cbn [elems_loop map]. rewrite concat_cons_app.
    rewrite len_cons.
    destruct (N.ltb_spec i (i + (1 + len xs))) as [_|Hbad]; [|lia].
    cbn [map concat] in Hfit. rewrite len_app in Hfit.
    rewrite slice_at_ok by lia. cbn [bind].
    pose proof (Hx (concat (map enc_tree xs) ++ rest)) as Hx'. rewrite Hc1, Hc2 in Hx'. rewrite Hx'. cbn [bind].
    rewrite drop_app_len.
    replace (i + (1 + len xs)) with ((i + 1) + len xs) by lia.
    rewrite IH; auto.
    + cbn [rev concat]. rewrite <- app_assoc, len_app. cbn [app]. f_equal. f_equal. lia.
    + cbn [length] in Hlf. lia.
    + lia.
Qed.

Lemma list_pair_ind {A} (P : list A -> Prop) :
  P [] -> (forall x, P [x]) -> (forall a b r, P r -> P (a :: b :: r)) -> forall l, P l.
Proof.
  intros H0 H1 H2.
  fix go 1. intros [|a [|b r]]; [exact H0|apply H1|apply H2, go].
Qed.

Lemma half_cons2 {A} (a b : A) r : len (a :: b :: r) / 2 = 1 + len r / 2.
Proof.
  rewrite !len_cons. replace (1 + (1 + len r)) with (1 * 2 + len r) by lia.
  rewrite N.div_add_l by lia. reflexivity.
Qed.

Lemma pairs_loop_ok fuel' kt vt : forall l lf blen rest pos i acc,
  Forall (reads_back fuel') l ->
  canon_pairs canon kt vt i l = true ->
  (length l < lf)%nat -> pos + len (concat (map enc_tree l)) <= blen ->
  pairs_loop (fun sub id => read_field true fuel' uf_zero sub kt id)
             (fun sub id => read_field true fuel' uf_zero sub vt id) lf blen
             (concat (map enc_tree l) ++ rest) pos i (i + len l / 2) acc
  = Ok (rev acc ++ l, pos + len (concat (map enc_tree l))).
Proof.
  induction l as [|x|k v r IH] using list_pair_ind; intros lf blen rest pos i acc Hrb Hc Hlf Hfit.
  - destruct lf as [|lf']; [cbn [length] in Hlf; lia|].
    cbn [pairs_loop map concat]. change (len (@nil ufield) / 2) with 0. change (len (@nil N)) with 0.
    rewrite N.add_0_r, N.ltb_irrefl. now rewrite app_nil_r, N.add_0_r.
  - cbn [canon_pairs] in Hc. discriminate.
  - destruct lf as [|lf']; [cbn [length] in Hlf; lia|].
    inversion Hrb as [|? ? Hk Hrb']; subst. inversion Hrb' as [|? ? Hv Hr]; subst.
    cbn [canon_pairs] in Hc.
    repeat match type of Hc with (_ && _)%bool = true =>
      let H1 := fresh "Hc" in apply andb_true_iff in Hc as [Hc H1] end.
    repeat match goal with H : (_ =? _)%Z = true |- _ => apply Z.eqb_eq in H end.
    cbn [pairs_loop map]. rewrite !concat_cons_app. rewrite half_cons2.
    destruct (N.ltb_spec i (i + (1 + len r / 2))) as [_|Hbad]; [|lia].
    cbn [map concat] in Hfit. rewrite !len_app in Hfit.
    rewrite slice_at_ok by lia. cbn [bind].
    match goal with H1 : uf_ty k = kt, H2 : uf_id k = int16_of i |- _ =>
      pose proof (Hk (enc_tree v ++ concat (map enc_tree r) ++ rest)) as Hk'; rewrite H1, H2 in Hk' end.
    rewrite Hk'. cbn [bind]. rewrite drop_app_len.
    rewrite slice_at_ok by lia. cbn [bind].
    match goal with H1 : uf_ty v = vt, H2 : uf_id v = int16_of i |- _ =>
      pose proof (Hv (concat (map enc_tree r) ++ rest)) as Hv'; rewrite H1, H2 in Hv' end.
    rewrite Hv'. cbn [bind]. rewrite drop_app_len.
    replace (i + (1 + len r / 2)) with ((i + 1) + len r / 2) by lia.
    rewrite IH; auto.
    + cbn [rev concat]. rewrite <- !app_assoc, !len_app. cbn [app]. f_equal. f_equal. lia.
    + cbn [length] in Hlf. lia.
    + lia.
Qed.

(* ---------- facts about canonical trees ---------- *)
Lemma canon_ty_id x : canon x = true ->
  in_signedb 8 (uf_ty x) = true /\ uf_ty x <> 0%Z /\ in_signedb 16 (uf_id x) = true.
Proof.
  intros H. destruct (canon_shape x H) as [Hid Hs]. split; [|split; [|exact Hid]].
  - inversion Hs; reflexivity.
  - inversion Hs; cbn [uf_ty]; discriminate.
Qed.

Lemma canon_enc_nonempty x : canon x = true -> (1 <= length (enc_tree x))%nat.
Proof.
  intros H. destruct (canon_shape x H) as [_ Hs].
  inversion Hs; subst; cbn [enc_tree enc]; rewrite ?app_length, ?be_length; cbn [length]; try lia.
  all: cbn; rewrite ?app_length; cbn [length]; lia.
Qed.

Lemma concat_len_in {A} (f : A -> bytes) x l : In x l -> (length (f x) <= length (concat (map f l)))%nat.
Proof.
  induction l as [|y ys IH]; intros Hin; [contradiction|].
  cbn [map concat]. rewrite app_length. destruct Hin as [->|Hin]; [lia|]. specialize (IH Hin). lia.
Qed.

Lemma concat_len_ge (l : list ufield) :
  Forall (fun x => canon x = true) l -> (length l <= length (concat (map enc_tree l)))%nat.
Proof.
  induction 1 as [|x xs Hx _ IH]; [cbn; lia|].
  cbn [map concat length]. rewrite app_length. pose proof (canon_enc_nonempty x Hx). lia.
Qed.

Lemma canon_elems_all et : forall l i, canon_elems canon et i l = true -> Forall (fun x => canon x = true) l.
Proof.
  induction l as [|x xs IH]; intros i H; [constructor|].
  cbn [canon_elems] in H. apply andb_true_iff in H as [H H2]. apply andb_true_iff in H as [_ H1].
  constructor; [exact H1|exact (IH _ H2)].
Qed.
Lemma canon_pairs_all kt vt : forall l i, canon_pairs canon kt vt i l = true -> Forall (fun x => canon x = true) l.
Proof.
  induction l as [|x|k v r IH] using list_pair_ind; intros i H; [constructor|discriminate|].
  cbn [canon_pairs] in H.
  repeat match type of H with (_ && _)%bool = true =>
    let H1 := fresh "Hc" in apply andb_true_iff in H as [H H1] end.
  constructor; [assumption|constructor; [assumption|eapply IH; eassumption]].
Qed.
Lemma forallb_all (l : list ufield) : forallb canon l = true -> Forall (fun x => canon x = true) l.
Proof. intros H. apply Forall_forall. intros x Hx. exact (proj1 (forallb_forall _ _) H x Hx). Qed.

Lemma fields_cons_app x xs tail :
  concat (map enc_tree_field (x :: xs)) ++ tail =
  enc (IFieldBegin (uf_ty x) (uf_id x)) ++ (enc_tree x ++ (concat (map enc_tree_field xs) ++ tail)).
Proof. cbn [map concat]. unfold enc_tree_field at 1. now rewrite <- !app_assoc. Qed.

Lemma fields_loop_ok fuel' : forall l lf blen rest pos field acc,
  Forall (reads_back fuel') l ->
  Forall (fun x => canon x = true) l ->
  (length l < lf)%nat -> pos + len (concat (map enc_tree_field l)) + 1 <= blen ->
  fields_loop true (read_field true fuel') lf blen
              (concat (map enc_tree_field l) ++ enc IFieldStop ++ rest) pos field acc
  = Ok (rev acc ++ l, pos + len (concat (map enc_tree_field l)) + 1).
Proof.
  induction l as [|x xs IH]; intros lf blen rest pos field acc Hrb Hc Hlf Hfit.
  - destruct lf as [|lf']; [cbn [length] in Hlf; lia|].
    cbn [fields_loop map concat app]. change (len (@nil N)) with 0 in *.
    rewrite slice_at_ok by lia. cbn [bind].
    change (0 :: rest) with (enc IFieldStop ++ rest). rewrite rd_field_stop. cbn [bind].
    rewrite Z.eqb_refl. rewrite app_nil_r. f_equal. f_equal. lia.
  - destruct lf as [|lf']; [cbn [length] in Hlf; lia|].
    inversion Hrb as [|? ? Hx Hxs]; subst. inversion Hc as [|? ? Hcx Hcxs]; subst.
    destruct (canon_ty_id x Hcx) as (Ht & Hnz & Hid).
    cbn [map concat] in Hfit. unfold enc_tree_field at 1 in Hfit. rewrite !len_app in Hfit.
    rewrite fields_cons_app. cbn [fields_loop].
    rewrite slice_at_ok by lia. cbn [bind].
    rewrite rd_field_begin by assumption. cbn [bind].
    change thrift_STOP with 0%Z.
    destruct (Z.eqb_spec (uf_ty x) 0) as [E|_]; [contradiction|].
    rewrite drop_app_len.
    rewrite slice_at_ok by lia. cbn [bind].
    rewrite Hx. cbn [bind]. rewrite drop_app_len.
    rewrite IH; auto.
    + cbn [rev map concat]. unfold enc_tree_field at 2. rewrite <- !app_assoc, !len_app. cbn [app]. f_equal. f_equal. lia.
    + cbn [length] in Hlf. lia.
    + lia.
Qed.

Lemma enc_tree_set id kt vt l : enc_tree (UF id T_SET kt vt (VFields l)) =
  enc (IListBegin vt (Z.of_N (len l))) ++ concat (map enc_tree l). Proof. reflexivity. Qed.
Lemma enc_tree_list id kt vt l : enc_tree (UF id T_LIST kt vt (VFields l)) =
  enc (IListBegin vt (Z.of_N (len l))) ++ concat (map enc_tree l). Proof. reflexivity. Qed.
Lemma enc_tree_map id kt vt l : enc_tree (UF id T_MAP kt vt (VFields l)) =
  enc (IMapBegin kt vt (Z.of_N (len l / 2))) ++ concat (map enc_tree l). Proof. reflexivity. Qed.
Lemma enc_tree_struct id kt vt l : enc_tree (UF id T_STRUCT kt vt (VFields l)) =
  concat (map enc_tree_field l) ++ enc IFieldStop. Proof. reflexivity. Qed.

Lemma length_enc_map kt vt sz : length (enc (IMapBegin kt vt sz)) = 6%nat.
Proof. cbn [enc]. rewrite app_length, be_length. reflexivity. Qed.
Lemma length_enc_list et sz : length (enc (IListBegin et sz)) = 5%nat.
Proof. cbn [enc]. rewrite app_length, be_length. reflexivity. Qed.
Lemma length_enc_fb t id : length (enc (IFieldBegin t id)) = 3%nat.
Proof. cbn [enc]. rewrite app_length, be_length. reflexivity. Qed.

Lemma children_read fuel' (l : list ufield) :
  Forall (fun x => canon x = true -> forall fuel, (length (enc_tree x) < fuel)%nat -> reads_back fuel x) l ->
  Forall (fun x => canon x = true) l ->
  (forall x, In x l -> (length (enc_tree x) < fuel')%nat) ->
  Forall (reads_back fuel') l.
Proof.
  intros IH Hc Hlen. apply Forall_forall. intros x Hx.
  rewrite Forall_forall in IH, Hc. apply IH; auto.
Qed.

Lemma len_length {A} (l : list A) : len l = N.of_nat (length l). Proof. reflexivity. Qed.

Lemma read_canon : forall x, canon x = true ->
  forall fuel, (length (enc_tree x) < fuel)%nat -> reads_back fuel x.
Proof.
  induction x as [id ty kt vt v Hleaf|id ty kt vt l IH] using ufield_ind'; intros Hc fuel Hfuel rest;
    destruct (canon_shape _ Hc) as [Hid Hs]; destruct fuel as [|fuel']; try lia;
    inversion Hs; subst; try (exfalso; eapply Hleaf; reflexivity); cbn [uf_ty uf_id].
  - cbn [enc_tree]. rewrite read_field_bool, rd_bool. reflexivity.
  - cbn [enc_tree]. rewrite read_field_byte, rd_byte by assumption. reflexivity.
  - cbn [enc_tree]. rewrite read_field_i16, rd_i16 by assumption. reflexivity.
  - cbn [enc_tree]. rewrite read_field_i32, rd_i32 by assumption. reflexivity.
  - cbn [enc_tree]. rewrite read_field_i64, rd_i64 by assumption. reflexivity.
  - cbn [enc_tree]. rewrite read_field_double, rd_double by assumption. reflexivity.
  - cbn [enc_tree]. rewrite read_field_string, rd_string by assumption. reflexivity.
  - (* struct *)
    match goal with H : forallb canon l = true |- _ => rename H into Hall end. apply forallb_all in Hall.
    rewrite enc_tree_struct in *. rewrite read_field_struct. rewrite <- app_assoc.
    rewrite app_length in Hfuel. change (length (enc IFieldStop)) with 1%nat in Hfuel.
    rewrite fields_loop_ok; auto.
    + cbn [bind rev app uf_kt uf_vt uf_zero]. rewrite len_app. reflexivity.
    + apply children_read; auto. intros x Hx.
      pose proof (concat_len_in enc_tree_field x l Hx) as Hle. unfold enc_tree_field at 1 in Hle.
      rewrite app_length in Hle. lia.
    + rewrite !app_length.
      assert (length l <= length (concat (map enc_tree_field l)))%nat.
      { clear -Hall. induction Hall as [|x xs Hx _ IHl]; [cbn; lia|].
        cbn [map concat length]. unfold enc_tree_field at 1. rewrite !app_length.
        pose proof (canon_enc_nonempty x Hx). lia. }
      lia.
    + rewrite !len_app. change (len (enc IFieldStop)) with 1. lia.
  - (* map *)
    match goal with H : canon_pairs _ _ _ _ _ = true |- _ => rename H into Hp end. pose proof (canon_pairs_all _ _ _ _ Hp) as Hall.
    rewrite enc_tree_map in *. rewrite read_field_map. rewrite <- app_assoc.
    rewrite app_length, length_enc_map in Hfuel.
    rewrite rd_map_begin by assumption. cbn [bind].
    destruct (Z.ltb_spec (Z.of_N (len l / 2) * 2) 0) as [Hneg|_]; [lia|].
    rewrite N2Z.id, drop_app_len.
    rewrite (pairs_loop_ok fuel' kt vt l _ _ rest _ 0 []); auto.
    + cbn [bind rev app]. rewrite len_app. reflexivity.
    + apply children_read; auto. intros x Hx.
      pose proof (concat_len_in enc_tree x l Hx) as Hle. lia.
    + rewrite !app_length. pose proof (concat_len_ge l Hall). lia.
    + rewrite !len_app. lia.
  - (* set *)
    match goal with H : canon_elems _ _ _ _ = true |- _ => rename H into Hp end. pose proof (canon_elems_all _ _ _ Hp) as Hall.
    rewrite enc_tree_set in *. rewrite read_field_set. rewrite <- app_assoc.
    rewrite app_length, length_enc_list in Hfuel.
    rewrite rd_set_begin by assumption. cbn [bind].
    destruct (Z.ltb_spec (Z.of_N (len l)) 0) as [Hneg|_]; [lia|].
    rewrite N2Z.id, drop_app_len.
    rewrite (elems_loop_ok fuel' vt l _ _ rest _ 0 []); auto.
    + cbn [bind rev app uf_kt uf_zero]. rewrite len_app. reflexivity.
    + apply children_read; auto. intros x Hx.
      pose proof (concat_len_in enc_tree x l Hx) as Hle. lia.
    + rewrite !app_length. pose proof (concat_len_ge l Hall). lia.
    + rewrite !len_app. lia.
  - (* list *)
    match goal with H : canon_elems _ _ _ _ = true |- _ => rename H into Hp end. pose proof (canon_elems_all _ _ _ Hp) as Hall.
    rewrite enc_tree_list in *. rewrite read_field_list. rewrite <- app_assoc.
    rewrite app_length, length_enc_list in Hfuel.
    rewrite rd_list_begin by assumption. cbn [bind].
    destruct (Z.ltb_spec (Z.of_N (len l)) 0) as [Hneg|_]; [lia|].
    rewrite N2Z.id, drop_app_len.
    rewrite (elems_loop_ok fuel' vt l _ _ rest _ 0 []); auto.
    + cbn [bind rev app uf_kt uf_zero]. rewrite len_app. reflexivity.
    + apply children_read; auto. intros x Hx.
      pose proof (concat_len_in enc_tree x l Hx) as Hle. lia.
    + rewrite !app_length. pose proof (concat_len_ge l Hall). lia.
    + rewrite !len_app. lia.
Qed.

(* ---------- top level ---------- *)
Lemma convert_loop_ok fuel : forall l lf blen pos acc,
  Forall (reads_back fuel) l ->
  Forall (fun x => canon x = true) l ->
  (length l < lf)%nat -> pos + len (concat (map enc_tree_field l)) = blen ->
  convert_loop true lf fuel blen (concat (map enc_tree_field l)) pos acc = Ok (rev acc ++ l).
Proof.
  induction l as [|x xs IH]; intros lf blen pos acc Hrb Hc Hlf Hfit.
  - destruct lf as [|lf']; [cbn [length] in Hlf; lia|].
    cbn [map concat] in *. change (len (@nil N)) with 0 in Hfit.
    cbn [convert_loop]. replace (pos =? blen) with true by (symmetry; apply N.eqb_eq; lia).
    now rewrite app_nil_r.
  - destruct lf as [|lf']; [cbn [length] in Hlf; lia|].
    pose proof (Forall_inv Hrb) as Hx. pose proof (Forall_inv_tail Hrb) as Hxs.
    pose proof (Forall_inv Hc) as Hcx. pose proof (Forall_inv_tail Hc) as Hcxs.
    destruct (canon_ty_id x Hcx) as (Ht & Hnz & Hid).
    pose proof (fields_cons_app x xs []) as Hsplit. rewrite !app_nil_r in Hsplit.
    rewrite Hsplit in Hfit. rewrite Hsplit. clear Hsplit.
    rewrite !len_app in Hfit.
    assert (H3 : len (enc (IFieldBegin (uf_ty x) (uf_id x))) = 3) by (unfold len; now rewrite length_enc_fb).
    cbn [convert_loop].
    destruct (N.eqb_spec pos blen) as [E|_]; [lia|].
    rewrite slice_at_ok by lia. cbn [bind].
    rewrite rd_field_begin by assumption. cbn [bind].
    rewrite drop_app_len.
    rewrite slice_at_ok by lia. cbn [bind].
    rewrite Hx. cbn [bind]. rewrite drop_app_len.
    rewrite IH; auto.
    + cbn [rev]. now rewrite <- app_assoc.
    + cbn [length] in Hlf. lia.
    + lia.
Qed.

Lemma in_concat_fields_len x (l : list ufield) :
  In x l -> (length (enc_tree x) <= length (concat (map enc_tree_field l)))%nat.
Proof.
  intros Hx. pose proof (concat_len_in enc_tree_field x l Hx) as Hle.
  unfold enc_tree_field at 1 in Hle. rewrite app_length in Hle. lia.
Qed.

Lemma fields_len_ge (l : list ufield) : (length l <= length (concat (map enc_tree_field l)))%nat.
Proof.
  induction l as [|x xs IH]; [cbn; lia|].
  cbn [map concat length]. unfold enc_tree_field at 1. rewrite !app_length, length_enc_fb. lia.
Qed.

Lemma convert_canon ts : ts <> [] -> canon_fields ts = true -> convert (enc_tree_fields ts) = Ok ts.
Proof.
  intros Hne Hc. apply forallb_all in Hc.
  unfold convert, convert_gen, enc_tree_fields.
  set (buf := concat (map enc_tree_field ts)).
  destruct (N.eqb_spec (len buf) 0) as [E|_].
  - exfalso. destruct ts as [|x xs]; [congruence|].
    unfold buf in E. cbn [map concat] in E. unfold enc_tree_field at 1 in E.
    unfold len in E. rewrite !app_length, length_enc_fb in E. lia.
  - unfold buf. rewrite convert_loop_ok; auto.
    + fold buf. rewrite Forall_forall in Hc. apply Forall_forall. intros x Hx.
      apply read_canon; [auto|]. pose proof (in_concat_fields_len x ts Hx). fold buf in H. lia.
    + pose proof (fields_len_ge ts). fold buf in H |- *. lia.
Qed.

(* ---------- UnknownFieldsLength ---------- *)
Definition lens_ok (x : ufield) : Prop := field_len x = Ok (len (enc_tree x)).

Lemma len_elems_ok : forall l acc, Forall lens_ok l ->
  len_elems field_len l acc = Ok (acc + len (concat (map enc_tree l))).
Proof.
  induction l as [|x xs IH]; intros acc H.
  - cbn [len_elems map concat]. change (len (@nil N)) with 0. f_equal. lia.
  - pose proof (Forall_inv H) as Hx. pose proof (Forall_inv_tail H) as Hxs.
    cbn [len_elems map concat]. rewrite Hx. cbn [bind]. rewrite IH by assumption. rewrite len_app. f_equal. lia.
Qed.

Lemma len_pairs_ok kt vt : forall l i acc, Forall lens_ok l -> canon_pairs canon kt vt i l = true ->
  len_pairs field_len l acc = Ok (acc + len (concat (map enc_tree l))).
Proof.
  induction l as [|x|k v r IH] using list_pair_ind; intros i acc H Hc.
  - cbn [len_pairs map concat]. change (len (@nil N)) with 0. f_equal. lia.
  - discriminate.
  - pose proof (Forall_inv H) as Hk. pose proof (Forall_inv (Forall_inv_tail H)) as Hv.
    pose proof (Forall_inv_tail (Forall_inv_tail H)) as Hr.
    cbn [canon_pairs] in Hc. apply andb_true_iff in Hc as [_ Hc].
    cbn [len_pairs map concat]. rewrite Hk. cbn [bind]. rewrite Hv. cbn [bind].
    rewrite (IH (i + 1)) by assumption. rewrite !len_app. f_equal. lia.
Qed.

Lemma len_fields_ok : forall l acc, Forall lens_ok l ->
  len_fields field_len l acc = Ok (acc + len (concat (map enc_tree_field l))).
Proof.
  induction l as [|x xs IH]; intros acc H.
  - cbn [len_fields map concat]. change (len (@nil N)) with 0. f_equal. lia.
  - pose proof (Forall_inv H) as Hx. pose proof (Forall_inv_tail H) as Hxs.
    cbn [len_fields map concat]. rewrite Hx. cbn [bind]. rewrite IH by assumption.
    unfold enc_tree_field at 2. rewrite !len_app.
    replace (len (enc (IFieldBegin (uf_ty x) (uf_id x)))) with 3 by (unfold len; now rewrite length_enc_fb).
    change (l_item (IFieldBegin 0 0)) with 3. f_equal. lia.
Qed.

Lemma children_lens (l : list ufield) :
  Forall (fun x => canon x = true -> lens_ok x) l -> Forall (fun x => canon x = true) l -> Forall lens_ok l.
Proof. intros IH Hc. rewrite Forall_forall in *. auto. Qed.

Lemma len_canon : forall x, canon x = true -> lens_ok x.
Proof.
  induction x as [id ty kt vt v Hleaf|id ty kt vt l IH] using ufield_ind'; intros Hc;
    destruct (canon_shape _ Hc) as [Hid Hs];
    inversion Hs; subst; try (exfalso; eapply Hleaf; reflexivity); unfold lens_ok.
  - reflexivity.
  - reflexivity.
  - reflexivity.
  - reflexivity.
  - reflexivity.
  - reflexivity.
  - cbn [enc_tree enc]. rewrite len_app, be_len. reflexivity.
  - match goal with H : forallb canon l = true |- _ => apply forallb_all in H; rename H into Hall end.
    rewrite field_len_struct, enc_tree_struct, len_fields_ok by (apply children_lens; assumption).
    rewrite len_app. reflexivity.
  - match goal with H : canon_pairs _ _ _ _ _ = true |- _ => rename H into Hp end.
    pose proof (canon_pairs_all _ _ _ _ Hp) as Hall.
    rewrite field_len_map, enc_tree_map, (len_pairs_ok kt vt l 0) by (try apply children_lens; assumption).
    rewrite len_app. reflexivity.
  - match goal with H : canon_elems _ _ _ _ = true |- _ => rename H into Hp end.
    pose proof (canon_elems_all _ _ _ Hp) as Hall.
    rewrite field_len_set, enc_tree_set, len_elems_ok by (apply children_lens; assumption).
    rewrite len_app. reflexivity.
  - match goal with H : canon_elems _ _ _ _ = true |- _ => rename H into Hp end.
    pose proof (canon_elems_all _ _ _ Hp) as Hall.
    rewrite field_len_list, enc_tree_list, len_elems_ok by (apply children_lens; assumption).
    rewrite len_app. reflexivity.
Qed.

Lemma fields_len_canon ts : canon_fields ts = true -> fields_len ts = Ok (len (enc_tree_fields ts)).
Proof.
  intros Hc. apply forallb_all in Hc. unfold fields_len, enc_tree_fields.
  rewrite len_fields_ok; [f_equal; lia|].
  rewrite Forall_forall in *. intros x Hx. apply len_canon; auto.
Qed.

(* ---------- WriteUnknownFields ---------- *)
Definition writes_ok (wf : bytes -> ufield -> res (bytes * N)) (x : ufield) : Prop :=
  forall buf, len (enc_tree x) <= len buf ->
  wf buf x = Ok (enc_tree x ++ drop (len (enc_tree x)) buf, len (enc_tree x)).

Lemma on_slice_app {A} (pre tail : bytes) (k : bytes -> res (bytes * A)) :
  on_slice (pre ++ tail) (len pre) k = do (sub', a) <- k tail; Ok (pre ++ sub', a).
Proof.
  unfold on_slice, slice_from. rewrite len_app.
  destruct (N.leb_spec (len pre) (len pre + len tail)) as [_|Hbad]; [|lia].
  cbn [bind]. rewrite drop_app_len, take_app_len. reflexivity.
Qed.

Lemma w_elems_ok wf : forall l pre tail, Forall (writes_ok wf) l ->
  len (concat (map enc_tree l)) <= len tail ->
  w_elems wf l (pre ++ tail) (len pre) =
  Ok (pre ++ concat (map enc_tree l) ++ drop (len (concat (map enc_tree l))) tail,
      len pre + len (concat (map enc_tree l))).
Proof.
  induction l as [|x xs IH]; intros pre tail H Hfit.
  - cbn [w_elems map concat app]. change (len (@nil N)) with 0. rewrite drop_0. f_equal. f_equal. lia.
  - pose proof (Forall_inv H) as Hx. pose proof (Forall_inv_tail H) as Hxs.
    cbn [map concat] in *. rewrite len_app in Hfit.
    cbn [w_elems]. rewrite on_slice_app. rewrite Hx by lia. cbn [bind].
    rewrite app_assoc. rewrite <- (len_app pre).
    rewrite IH; [|assumption|rewrite drop_len; lia].
    rewrite drop_drop, !len_app, <- !app_assoc. f_equal. f_equal. lia.
Qed.

Lemma w_pairs_ok wf kt vt : forall l i pre tail, Forall (writes_ok wf) l ->
  canon_pairs canon kt vt i l = true ->
  len (concat (map enc_tree l)) <= len tail ->
  w_pairs wf l (pre ++ tail) (len pre) =
  Ok (pre ++ concat (map enc_tree l) ++ drop (len (concat (map enc_tree l))) tail,
      len pre + len (concat (map enc_tree l))).
Proof.
  induction l as [|x|k v r IH] using list_pair_ind; intros i pre tail H Hc Hfit.
  - cbn [w_pairs map concat app]. change (len (@nil N)) with 0. rewrite drop_0. f_equal. f_equal. lia.
  - discriminate.
  - pose proof (Forall_inv H) as Hk. pose proof (Forall_inv (Forall_inv_tail H)) as Hv.
    pose proof (Forall_inv_tail (Forall_inv_tail H)) as Hr.
    cbn [canon_pairs] in Hc. apply andb_true_iff in Hc as [_ Hc].
    cbn [map concat] in *. rewrite !len_app in Hfit.
    cbn [w_pairs]. rewrite on_slice_app. rewrite Hk by lia. cbn [bind].
    rewrite app_assoc. rewrite <- (len_app pre).
    rewrite on_slice_app. rewrite Hv by (rewrite drop_len; lia). cbn [bind].
    rewrite app_assoc. rewrite <- (len_app (pre ++ enc_tree k)).
    rewrite (IH (i + 1)); [|assumption|assumption|rewrite !drop_len; try lia; rewrite drop_len; lia].
    rewrite !drop_drop, !len_app, <- !app_assoc. f_equal. f_equal. lia.
Qed.

Lemma concat_fields_cons x xs :
  concat (map enc_tree_field (x :: xs)) =
  enc (IFieldBegin (uf_ty x) (uf_id x)) ++ enc_tree x ++ concat (map enc_tree_field xs).
Proof. cbn [map concat]. unfold enc_tree_field at 1. now rewrite <- app_assoc. Qed.

Lemma w_fields_ok wf : forall l pre tail, Forall (writes_ok wf) l ->
  len (concat (map enc_tree_field l)) <= len tail ->
  w_fields wf l (pre ++ tail) (len pre) =
  Ok (pre ++ concat (map enc_tree_field l) ++ drop (len (concat (map enc_tree_field l))) tail,
      len pre + len (concat (map enc_tree_field l))).
Proof.
  induction l as [|x xs IH]; intros pre tail H Hfit.
  - cbn [w_fields map concat app]. change (len (@nil N)) with 0. rewrite drop_0. f_equal. f_equal. lia.
  - pose proof (Forall_inv H) as Hx. pose proof (Forall_inv_tail H) as Hxs.
    rewrite concat_fields_cons in Hfit. rewrite !concat_fields_cons.
    rewrite !len_app in Hfit.
    cbn [w_fields]. rewrite on_slice_app.
    change (w_field_begin tail (uf_ty x) (uf_id x)) with (w_item tail (IFieldBegin (uf_ty x) (uf_id x))).
    rewrite w_item_enc by lia. cbn [bind].
    rewrite app_assoc. rewrite <- (len_app pre).
    rewrite on_slice_app. rewrite Hx by (rewrite drop_len; lia). cbn [bind].
    rewrite app_assoc. rewrite <- (len_app (pre ++ enc (IFieldBegin (uf_ty x) (uf_id x)))).
    rewrite IH; [|assumption|rewrite !drop_len; try lia; rewrite drop_len; lia].
    rewrite !drop_drop, !len_app, <- !app_assoc. f_equal. f_equal. lia.
Qed.

Lemma children_writes (l : list ufield) :
  Forall (fun x => canon x = true -> writes_ok write_field x) l -> Forall (fun x => canon x = true) l ->
  Forall (writes_ok write_field) l.
Proof. intros IH Hc. rewrite Forall_forall in *. auto. Qed.

Lemma write_canon : forall x, canon x = true -> writes_ok write_field x.
Proof.
  induction x as [id ty kt vt v Hleaf|id ty kt vt l IH] using ufield_ind'; intros Hc;
    destruct (canon_shape _ Hc) as [Hid Hs];
    inversion Hs; subst; try (exfalso; eapply Hleaf; reflexivity); intros buf Hfit.
  - exact (w_item_enc buf (IBool b) Hfit).
  - exact (w_item_enc buf (IByte z) Hfit).
  - exact (w_item_enc buf (II16 z) Hfit).
  - exact (w_item_enc buf (II32 z) Hfit).
  - exact (w_item_enc buf (II64 z) Hfit).
  - exact (w_item_enc buf (IDouble b) Hfit).
  - exact (w_item_enc buf (IString s) Hfit).
  - match goal with H : forallb canon l = true |- _ => apply forallb_all in H; rename H into Hall end.
    rewrite enc_tree_struct in *. rewrite len_app in Hfit. change (len (enc IFieldStop)) with 1 in Hfit.
    rewrite write_field_struct.
    change (w_fields write_field l buf 0) with (w_fields write_field l ([] ++ buf) (len (@nil N))).
    rewrite w_fields_ok by (try apply children_writes; try assumption; lia). cbn [bind app].
    change (len (@nil N)) with 0. rewrite N.add_0_l.
    rewrite on_slice_app.
    change (w_field_stop (drop (len (concat (map enc_tree_field l))) buf))
      with (w_item (drop (len (concat (map enc_tree_field l))) buf) IFieldStop).
    rewrite w_item_enc by (rewrite drop_len; change (len (enc IFieldStop)) with 1; lia). cbn [bind].
    rewrite drop_drop, len_app, <- app_assoc. reflexivity.
  - match goal with H : canon_pairs _ _ _ _ _ = true |- _ => rename H into Hp end.
    pose proof (canon_pairs_all _ _ _ _ Hp) as Hall.
    rewrite enc_tree_map in *. rewrite len_app in Hfit.
    rewrite write_field_map.
    change (w_map_begin buf kt vt (Z.of_N (len l / 2))) with (w_item buf (IMapBegin kt vt (Z.of_N (len l / 2)))).
    rewrite w_item_enc by lia. cbn [bind].
    rewrite (w_pairs_ok write_field kt vt l 0) by (try apply children_writes; try assumption; rewrite drop_len; lia).
    rewrite drop_drop, len_app, <- app_assoc. reflexivity.
  - match goal with H : canon_elems _ _ _ _ = true |- _ => rename H into Hp end.
    pose proof (canon_elems_all _ _ _ Hp) as Hall.
    rewrite enc_tree_set in *. rewrite len_app in Hfit.
    rewrite write_field_set.
    change (w_list_begin buf vt (Z.of_N (len l))) with (w_item buf (IListBegin vt (Z.of_N (len l)))).
    rewrite w_item_enc by lia. cbn [bind].
    rewrite w_elems_ok by (try apply children_writes; try assumption; rewrite drop_len; lia).
    rewrite drop_drop, len_app, <- app_assoc. reflexivity.
  - match goal with H : canon_elems _ _ _ _ = true |- _ => rename H into Hp end.
    pose proof (canon_elems_all _ _ _ Hp) as Hall.
    rewrite enc_tree_list in *. rewrite len_app in Hfit.
    rewrite write_field_list.
    change (w_list_begin buf vt (Z.of_N (len l))) with (w_item buf (IListBegin vt (Z.of_N (len l)))).
    rewrite w_item_enc by lia. cbn [bind].
    rewrite w_elems_ok by (try apply children_writes; try assumption; rewrite drop_len; lia).
    rewrite drop_drop, len_app, <- app_assoc. reflexivity.
Qed.

Lemma write_fields_canon ts buf : canon_fields ts = true -> len (enc_tree_fields ts) <= len buf ->
  write_fields buf ts = Ok (enc_tree_fields ts ++ drop (len (enc_tree_fields ts)) buf, len (enc_tree_fields ts)).
Proof.
  intros Hc Hfit. apply forallb_all in Hc. unfold write_fields, enc_tree_fields in *.
  change (w_fields write_field ts buf 0) with (w_fields write_field ts ([] ++ buf) (len (@nil N))).
  rewrite w_fields_ok; [reflexivity| |assumption].
  rewrite Forall_forall in *. intros x Hx. apply write_canon; auto.
Qed.

(* ====================================================================================== *)
(* typed values: the tree they denote is canonical and denotes the same bytes              *)
(* ====================================================================================== *)
Section TvalInd.
  Variable P : tval -> Prop.
  Hypothesis Hbool : forall b, P (TBool b).
  Hypothesis Hbyte : forall z, P (TByte z).
  Hypothesis Hi16 : forall z, P (TI16 z).
  Hypothesis Hi32 : forall z, P (TI32 z).
  Hypothesis Hi64 : forall z, P (TI64 z).
  Hypothesis Hdouble : forall b, P (TDouble b).
  Hypothesis Hstring : forall s, P (TString s).
  Hypothesis Hstruct : forall fs, Forall (fun p => P (snd p)) fs -> P (TStruct fs).
  Hypothesis Hmap : forall kt vt kvs, Forall (fun p => P (fst p) /\ P (snd p)) kvs -> P (TMap kt vt kvs).
  Hypothesis Hset : forall et l, Forall P l -> P (TSet et l).
  Hypothesis Hlist : forall et l, Forall P l -> P (TList et l).

  Fixpoint tval_ind' (v : tval) : P v :=
    match v with
    | TBool b => Hbool b | TByte z => Hbyte z | TI16 z => Hi16 z | TI32 z => Hi32 z | TI64 z => Hi64 z
    | TDouble b => Hdouble b | TString s => Hstring s
    | TStruct fs =>
      Hstruct fs ((fix go (l : list (Z * tval)) : Forall (fun p => P (snd p)) l :=
                     match l with
                     | [] => Forall_nil _
                     | p :: r => Forall_cons p (tval_ind' (snd p)) (go r)
                     end) fs)
    | TMap kt vt kvs =>
      Hmap kt vt kvs ((fix go (l : list (tval * tval)) : Forall (fun p => P (fst p) /\ P (snd p)) l :=
                         match l with
                         | [] => Forall_nil _
                         | p :: r => Forall_cons p (conj (tval_ind' (fst p)) (tval_ind' (snd p))) (go r)
                         end) kvs)
    | TSet et l =>
      Hset et l ((fix go (l : list tval) : Forall P l :=
                    match l with [] => Forall_nil _ | x :: r => Forall_cons x (tval_ind' x) (go r) end) l)
    | TList et l =>
      Hlist et l ((fix go (l : list tval) : Forall P l :=
                     match l with [] => Forall_nil _ | x :: r => Forall_cons x (tval_ind' x) (go r) end) l)
    end.
End TvalInd.

Lemma tree_of_ty id v : uf_ty (tree_of id v) = ttype v. Proof. destruct v; reflexivity. Qed.
Lemma tree_of_id id v : uf_id (tree_of id v) = id. Proof. destruct v; reflexivity. Qed.

Lemma int16_of_range i : in_signedb 16 (int16_of i) = true.
Proof.
  apply in_signedb_spec. unfold int16_of, i16. apply to_signed_range; [lia|].
  rewrite p16. unfold two16. apply N.mod_lt. lia.
Qed.

Lemma len_mapi {A B} (f : N -> A -> B) : forall l i, len (mapi_from f i l) = len l.
Proof. induction l as [|x xs IH]; intros i; [reflexivity|]. cbn [mapi_from]. rewrite !len_cons, IH. reflexivity. Qed.

Section Canon.
  Variables (id kt vt : Z).
  Lemma canon_struct l : canon (UF id T_STRUCT kt vt (VFields l)) =
    (in_signedb 16 id && ((kt =? 0)%Z && (vt =? 0)%Z && forallb canon l))%bool. Proof. reflexivity. Qed.
  Lemma canon_map l : canon (UF id T_MAP kt vt (VFields l)) =
    (in_signedb 16 id && (in_signedb 8 kt && in_signedb 8 vt && ((len l / 2 <? two32) && canon_pairs canon kt vt 0 l)))%bool.
  Proof. reflexivity. Qed.
  Lemma canon_set l : canon (UF id T_SET kt vt (VFields l)) =
    (in_signedb 16 id && ((kt =? 0)%Z && in_signedb 8 vt && ((len l <? two32) && canon_elems canon vt 0 l)))%bool.
  Proof. reflexivity. Qed.
  Lemma canon_list l : canon (UF id T_LIST kt vt (VFields l)) =
    (in_signedb 16 id && ((kt =? 0)%Z && in_signedb 8 vt && ((len l <? two32) && canon_elems canon vt 0 l)))%bool.
  Proof. reflexivity. Qed.
End Canon.

Definition denotes (v : tval) : Prop :=
  wf_val v = true -> forall id, in_signedb 16 id = true ->
  canon (tree_of id v) = true /\ enc_tree (tree_of id v) = enc_val v.

Lemma elems_denote et : forall l i,
  Forall denotes l -> forallb (fun x => (ttype x =? et)%Z && wf_val x) l = true ->
  canon_elems canon et i (mapi_from (fun i x => tree_of (int16_of i) x) i l) = true /\
  concat (map enc_tree (mapi_from (fun i x => tree_of (int16_of i) x) i l)) = concat (map enc_val l).
Proof.
  induction l as [|x xs IH]; intros i Hd Hw; [split; reflexivity|].
  pose proof (Forall_inv Hd) as Hx. pose proof (Forall_inv_tail Hd) as Hxs.
  cbn [forallb] in Hw. apply andb_true_iff in Hw as [Hw Hws]. apply andb_true_iff in Hw as [Ht Hwx].
  destruct (Hx Hwx (int16_of i) (int16_of_range i)) as [Hc He].
  destruct (IH (i + 1) Hxs Hws) as [Hc' He'].
  cbn [mapi_from canon_elems map concat]. rewrite tree_of_ty, tree_of_id, Ht, Z.eqb_refl, Hc, Hc', He, He'.
  split; reflexivity.
Qed.

Lemma pairs_denote kt vt : forall l i,
  Forall (fun p => denotes (fst p) /\ denotes (snd p)) l ->
  forallb (fun p => (ttype (fst p) =? kt)%Z && wf_val (fst p) && (ttype (snd p) =? vt)%Z && wf_val (snd p)) l = true ->
  let l' := concat (mapi_from (fun i p => [tree_of (int16_of i) (fst p); tree_of (int16_of i) (snd p)]) i l) in
  canon_pairs canon kt vt i l' = true /\
  concat (map enc_tree l') = concat (map (fun p => enc_val (fst p) ++ enc_val (snd p)) l) /\
  len l' = 2 * len l.
Proof.
  induction l as [|p ps IH]; intros i Hd Hw; [repeat split; reflexivity|].
  pose proof (Forall_inv Hd) as [Hk Hv]. pose proof (Forall_inv_tail Hd) as Hps.
  cbn [forallb] in Hw. apply andb_true_iff in Hw as [Hw Hws].
  apply andb_true_iff in Hw as [Hw Hwv]. apply andb_true_iff in Hw as [Hw Htv].
  apply andb_true_iff in Hw as [Htk Hwk].
  destruct (Hk Hwk (int16_of i) (int16_of_range i)) as [Hck Hek].
  destruct (Hv Hwv (int16_of i) (int16_of_range i)) as [Hcv Hev].
  destruct (IH (i + 1) Hps Hws) as (Hc' & He' & Hl').
  cbn [mapi_from concat app canon_pairs map]. cbv zeta.
  rewrite !tree_of_ty, !tree_of_id, Htk, Htv, !Z.eqb_refl, Hck, Hcv, Hc', Hek, Hev, He'.
  repeat split; try reflexivity.
  - now rewrite <- app_assoc.
  - rewrite !len_cons, Hl'. lia.
Qed.

Lemma fields_denote : forall fs,
  Forall (fun p => denotes (snd p)) fs -> forallb (fun p => in_signedb 16 (fst p) && wf_val (snd p)) fs = true ->
  forallb canon (map (fun p => tree_of (fst p) (snd p)) fs) = true /\
  concat (map enc_tree_field (map (fun p => tree_of (fst p) (snd p)) fs)) =
  concat (map (fun p => enc (IFieldBegin (ttype (snd p)) (fst p)) ++ enc_val (snd p)) fs).
Proof.
  induction fs as [|p ps IH]; intros Hd Hw; [split; reflexivity|].
  pose proof (Forall_inv Hd) as Hp. pose proof (Forall_inv_tail Hd) as Hps.
  cbn [forallb] in Hw. apply andb_true_iff in Hw as [Hw Hws]. apply andb_true_iff in Hw as [Hid Hwp].
  destruct (Hp Hwp (fst p) Hid) as [Hc He]. destruct (IH Hps Hws) as [Hc' He'].
  cbn [map forallb concat]. unfold enc_tree_field at 1. rewrite tree_of_ty, tree_of_id, Hc, Hc', He, He'.
  split; reflexivity.
Qed.

Lemma val_denotes : forall v, denotes v.
Proof.
  induction v as [b|z|z|z|z|b|s|fs IH|kt vt kvs IH|et l IH|et l IH] using tval_ind'; intros Hw id Hid;
    cbn [wf_val] in Hw; cbn [tree_of enc_val].
  - cbn [canon]. rewrite Hid. split; reflexivity.
  - cbn [canon]. rewrite Hid, Hw. split; reflexivity.
  - cbn [canon]. rewrite Hid, Hw. split; reflexivity.
  - cbn [canon]. rewrite Hid, Hw. split; reflexivity.
  - cbn [canon]. rewrite Hid, Hw. split; reflexivity.
  - cbn [canon]. rewrite Hid, Hw. split; reflexivity.
  - cbn [canon]. rewrite Hid. apply andb_true_iff in Hw as [H1 H2]. rewrite H1, H2. split; reflexivity.
  - destruct (fields_denote fs IH Hw) as [Hc He].
    rewrite canon_struct, enc_tree_struct, Hid, Hc, He. split; reflexivity.
  - apply andb_true_iff in Hw as [Hw Hall]. apply andb_true_iff in Hw as [Hw Hlen].
    apply andb_true_iff in Hw as [Hkt Hvt].
    destruct (pairs_denote kt vt kvs 0 IH Hall) as (Hc & He & Hl).
    rewrite canon_map, enc_tree_map, Hid, Hkt, Hvt, Hc, He, Hl.
    replace (2 * len kvs / 2) with (len kvs) by (rewrite N.mul_comm, N.div_mul; lia).
    rewrite Hlen. split; reflexivity.
  - apply andb_true_iff in Hw as [Hw Hall]. apply andb_true_iff in Hw as [Het Hlen].
    destruct (elems_denote et l 0 IH Hall) as (Hc & He).
    rewrite canon_set, enc_tree_set, Hid, Het, Hc, He, len_mapi, Hlen. split; reflexivity.
  - apply andb_true_iff in Hw as [Hw Hall]. apply andb_true_iff in Hw as [Het Hlen].
    destruct (elems_denote et l 0 IH Hall) as (Hc & He).
    rewrite canon_list, enc_tree_list, Hid, Het, Hc, He, len_mapi, Hlen. split; reflexivity.
Qed.

Lemma fields_denote_top fs : wf_fields fs = true ->
  canon_fields (tree_of_fields fs) = true /\ enc_tree_fields (tree_of_fields fs) = enc_fields fs.
Proof.
  intros Hw. unfold canon_fields, tree_of_fields, enc_tree_fields, enc_fields.
  apply fields_denote; [|exact Hw].
  apply Forall_forall. intros p _. apply val_denotes.
Qed.

(* ====================================================================================== *)
(* C13                                                                                     *)
(* ====================================================================================== *)
Lemma tree_bytes_tree ts : ts <> [] -> canon_fields ts = true ->
  let b := enc_tree_fields ts in
  fields_len ts = Ok (len b) /\
  (forall buf, len b <= len buf -> write_fields buf ts = Ok (b ++ drop (len b) buf, len b)) /\
  convert b = Ok ts.
Proof.
  intros Hne Hc b. split; [exact (fields_len_canon ts Hc)|]. split.
  - intros buf Hfit. exact (write_fields_canon ts buf Hc Hfit).
  - exact (convert_canon ts Hne Hc).
Qed.

Lemma tree_of_fields_nonempty fs : fs <> [] -> tree_of_fields fs <> [].
Proof. destruct fs; [congruence|discriminate]. Qed.

Lemma bytes_tree_bytes fs : fs <> [] -> wf_fields fs = true ->
  let b := enc_fields fs in
  let t := tree_of_fields fs in
  convert b = Ok t /\ canon_fields t = true /\ fields_len t = Ok (len b) /\
  (forall buf, len b <= len buf -> write_fields buf t = Ok (b ++ drop (len b) buf, len b)).
Proof.
  intros Hne Hw b t. destruct (fields_denote_top fs Hw) as [Hc He].
  destruct (tree_bytes_tree t (tree_of_fields_nonempty fs Hne) Hc) as (Hl & Hwr & Hcv).
  unfold t in *. rewrite He in *. fold b in Hl, Hwr, Hcv. auto.
Qed.

Lemma d9_without_reset_refuted :
  convert_gen false (enc_tree_fields (tree_of_fields d9_value)) <> Ok (tree_of_fields d9_value).
Proof. vm_compute. discriminate. Qed.

(* ====================================================================================== *)
(* convert on ARBITRARY bytes: no panic, consumed length within the buffer, budget never    *)
(* exhausted                                                                               *)
(* ====================================================================================== *)
Definition good_rd {A} (buf : bytes) (r : res (A * N)) : Prop :=
  match r with
  | Ok (_, l) => 1 <= l <= len buf
  | Err e => e <> e_fuel
  | _ => False
  end.

Lemma need_cases buf k e :
  (need buf k e = Ok tt /\ k <= len buf) \/ (need buf k e = Err e /\ len buf < k).
Proof. unfold need. destruct (N.ltb_spec (len buf) k); [right|left]; split; auto. Qed.

Ltac need_split buf k e :=
  let H := fresh "Hn" in let L := fresh "Hl" in
  destruct (need_cases buf k e) as [[H L]|[H L]]; rewrite H; cbn [bind good_rd].

Lemma r_bool_good buf : good_rd buf (r_bool buf).
Proof. unfold r_bool. need_split buf 1 e_read_bool; [lia|discriminate]. Qed.
Lemma r_byte_good buf : good_rd buf (r_byte buf).
Proof. unfold r_byte. need_split buf 1 e_read_byte; [lia|discriminate]. Qed.
Lemma r_i16_good buf : good_rd buf (r_i16 buf).
Proof. unfold r_i16. need_split buf 2 e_read_i16; [lia|discriminate]. Qed.
Lemma r_i32_good buf : good_rd buf (r_i32 buf).
Proof. unfold r_i32. need_split buf 4 e_read_i32; [lia|discriminate]. Qed.
Lemma r_i64_good buf : good_rd buf (r_i64 buf).
Proof. unfold r_i64. need_split buf 8 e_read_i64; [lia|discriminate]. Qed.
Lemma r_double_good buf : good_rd buf (r_double buf).
Proof. unfold r_double. need_split buf 8 e_read_double; [lia|discriminate]. Qed.
Lemma r_string_good buf : good_rd buf (r_string buf).
Proof.
  unfold r_string, r_binary_gen, r_i32.
  destruct (need_cases buf 4 e_read_i32) as [[Hn Hl]|[Hn Hl]]; rewrite Hn; cbn [bind good_rd]; [|discriminate].
  destruct (Z.ltb_spec (i32 (unbe (take 4 buf))) 0); [cbn [good_rd]; discriminate|].
  destruct (N.ltb_spec (len buf) (4 + Z.to_N (i32 (unbe (take 4 buf))))); cbn [good_rd]; [discriminate|lia].
Qed.
Lemma r_field_begin_good buf : good_rd buf (r_field_begin buf).
Proof.
  unfold r_field_begin.
  destruct (need_cases buf 1 e_read_field) as [[Hn Hl]|[Hn Hl]]; rewrite Hn; cbn [bind good_rd]; [|discriminate].
  match goal with |- context [if ?c then _ else _] => destruct c end; [cbn [good_rd]; lia|].
  destruct (need_cases buf 3 e_read_field) as [[Hn' Hl']|[Hn' Hl']]; rewrite Hn'; cbn [bind good_rd]; [lia|discriminate].
Qed.
Lemma r_list_begin_gen_good e buf : e <> e_fuel ->
  match r_list_begin_gen e buf with
  | Ok (_, size, l) => (0 <= size)%Z /\ l = 5 /\ 5 <= len buf
  | Err e' => e' <> e_fuel
  | _ => False
  end.
Proof.
  intros He. unfold r_list_begin_gen.
  destruct (need_cases buf 5 e) as [[Hn Hl]|[Hn Hl]]; rewrite Hn; cbn [bind]; [|assumption].
  repeat split; auto. lia.
Qed.
Lemma r_map_begin_good buf :
  match r_map_begin buf with
  | Ok (_, _, size, l) => (0 <= size)%Z /\ l = 6 /\ 6 <= len buf
  | Err e' => e' <> e_fuel
  | _ => False
  end.
Proof.
  unfold r_map_begin.
  destruct (need_cases buf 6 e_read_map) as [[Hn Hl]|[Hn Hl]]; rewrite Hn; cbn [bind]; [|discriminate].
  repeat split; auto. lia.
Qed.

Lemma length_drop (l : N) (cur : bytes) : l <= len cur -> length (drop l cur) = (length cur - N.to_nat l)%nat.
Proof. intros _. unfold drop. apply skipn_length. Qed.

Definition good_loop (lo blen : N) (r : res (list ufield * N)) : Prop :=
  match r with
  | Ok (_, n) => lo <= n <= blen
  | Err e => e <> e_fuel
  | _ => False
  end.

Lemma elems_loop_good rd size blen : forall lf cur pos i acc,
  (forall sub id, (length sub <= length cur)%nat -> good_rd sub (rd sub id)) ->
  pos + len cur = blen -> (length cur < lf)%nat ->
  good_loop pos blen (elems_loop rd lf blen cur pos i size acc).
Proof.
  induction lf as [|lf' IH]; intros cur pos i acc Hrd Hinv Hlf; [lia|].
  cbn [elems_loop]. destruct (i <? size); [|cbn [good_loop]; lia].
  rewrite slice_at_ok by lia. cbn [bind].
  pose proof (Hrd cur (int16_of i) (le_n _)) as Hg.
  destruct (rd cur (int16_of i)) as [[x l]|e|w|]; cbn [bind good_rd good_loop] in *; auto.
  assert (Hd : length (drop l cur) = (length cur - N.to_nat l)%nat) by (apply length_drop; lia).
  specialize (IH (drop l cur) (pos + l) (i + 1) (x :: acc)).
  assert (Hg' : good_loop (pos + l) blen (elems_loop rd lf' blen (drop l cur) (pos + l) (i + 1) size (x :: acc))).
  { apply IH.
    - intros sub id Hs. apply Hrd. lia.
    - rewrite drop_len by lia. lia.
    - unfold len in Hg. lia. }
  destruct (elems_loop rd lf' blen (drop l cur) (pos + l) (i + 1) size (x :: acc)) as [[xs n]|e|w|];
    cbn [good_loop] in *; auto. lia.
Qed.

Lemma pairs_loop_good rdk rdv size blen : forall lf cur pos i acc,
  (forall sub id, (length sub <= length cur)%nat -> good_rd sub (rdk sub id)) ->
  (forall sub id, (length sub <= length cur)%nat -> good_rd sub (rdv sub id)) ->
  pos + len cur = blen -> (length cur < lf)%nat ->
  good_loop pos blen (pairs_loop rdk rdv lf blen cur pos i size acc).
Proof.
  induction lf as [|lf' IH]; intros cur pos i acc Hrk Hrv Hinv Hlf; [lia|].
  cbn [pairs_loop]. destruct (i <? size); [|cbn [good_loop]; lia].
  rewrite slice_at_ok by lia. cbn [bind].
  pose proof (Hrk cur (int16_of i) (le_n _)) as Hg.
  destruct (rdk cur (int16_of i)) as [[k l]|e|w|]; cbn [bind good_rd good_loop] in *; auto.
  assert (Hd : length (drop l cur) = (length cur - N.to_nat l)%nat) by (apply length_drop; lia).
  assert (Hdl : len (drop l cur) = len cur - l) by (apply drop_len; lia).
  rewrite slice_at_ok by lia. cbn [bind].
  assert (Hle1 : (length (drop l cur) <= length cur)%nat) by lia.
  pose proof (Hrv (drop l cur) (int16_of i) Hle1) as Hg2.
  destruct (rdv (drop l cur) (int16_of i)) as [[v l2]|e|w|]; cbn [bind good_rd good_loop] in *; auto.
  assert (Hd2 : length (drop l2 (drop l cur)) = (length (drop l cur) - N.to_nat l2)%nat) by (apply length_drop; lia).
  assert (Hg' : good_loop (pos + l + l2) blen
           (pairs_loop rdk rdv lf' blen (drop l2 (drop l cur)) (pos + l + l2) (i + 1) size (v :: k :: acc))).
  { apply IH.
    - intros sub id Hs. apply Hrk. lia.
    - intros sub id Hs. apply Hrv. lia.
    - rewrite drop_len by lia. lia.
    - unfold len in Hg, Hg2. lia. }
  destruct (pairs_loop rdk rdv lf' blen (drop l2 (drop l cur)) (pos + l + l2) (i + 1) size (v :: k :: acc)) as [[xs n]|e|w|];
    cbn [good_loop] in *; auto. lia.
Qed.

Lemma fields_loop_good reset rd blen : forall lf cur pos field acc,
  (forall f0 sub t id, (length sub < length cur)%nat -> good_rd sub (rd f0 sub t id)) ->
  pos + len cur = blen -> (length cur < lf)%nat ->
  good_loop (pos + 1) blen (fields_loop reset rd lf blen cur pos field acc).
Proof.
  induction lf as [|lf' IH]; intros cur pos field acc Hrd Hinv Hlf; [lia|].
  cbn [fields_loop].
  rewrite slice_at_ok by lia. cbn [bind].
  pose proof (r_field_begin_good cur) as Hg.
  destruct (r_field_begin cur) as [[[t fid] l]|e|w|]; cbn [bind good_rd good_loop] in *; auto.
  destruct (t =? thrift_STOP)%Z; [cbn [good_loop]; lia|].
  assert (Hd : length (drop l cur) = (length cur - N.to_nat l)%nat) by (apply length_drop; lia).
  assert (Hdl : len (drop l cur) = len cur - l) by (apply drop_len; lia).
  rewrite slice_at_ok by lia. cbn [bind].
  assert (Hlt : (length (drop l cur) < length cur)%nat) by (unfold len in Hg; lia).
  pose proof (Hrd (if reset then uf_zero else field) (drop l cur) t fid Hlt) as Hg2.
  destruct (rd (if reset then uf_zero else field) (drop l cur) t fid) as [[f' l2]|e|w|];
    cbn [bind good_rd good_loop] in *; auto.
  assert (Hd2 : length (drop l2 (drop l cur)) = (length (drop l cur) - N.to_nat l2)%nat) by (apply length_drop; lia).
  assert (Hg' : good_loop (pos + l + l2 + 1) blen
           (fields_loop reset rd lf' blen (drop l2 (drop l cur)) (pos + l + l2) f' (f' :: acc))).
  { apply IH.
    - intros f0 sub t' id' Hs. apply Hrd. lia.
    - rewrite drop_len by lia. lia.
    - unfold len in Hg, Hg2. lia. }
  destruct (fields_loop reset rd lf' blen (drop l2 (drop l cur)) (pos + l + l2) f' (f' :: acc)) as [[xs n]|e|w|];
    cbn [good_loop] in *; auto. lia.
Qed.

Lemma read_field_good reset : forall fuel f0 buf ty id,
  (length buf < fuel)%nat -> good_rd buf (read_field reset fuel f0 buf ty id).
Proof.
  induction fuel as [|fuel' IH]; intros f0 buf ty id Hfuel; [lia|].
  destruct (Z.eq_dec ty T_BOOL) as [->|N1].
  { rewrite read_field_bool. pose proof (r_bool_good buf) as Hg.
    destruct (r_bool buf) as [[v l]|e|w|]; cbn [bind good_rd] in *; auto. }
  destruct (Z.eq_dec ty T_BYTE) as [->|N2].
  { rewrite read_field_byte. pose proof (r_byte_good buf) as Hg.
    destruct (r_byte buf) as [[v l]|e|w|]; cbn [bind good_rd] in *; auto. }
  destruct (Z.eq_dec ty T_I16) as [->|N3].
  { rewrite read_field_i16. pose proof (r_i16_good buf) as Hg.
    destruct (r_i16 buf) as [[v l]|e|w|]; cbn [bind good_rd] in *; auto. }
  destruct (Z.eq_dec ty T_I32) as [->|N4].
  { rewrite read_field_i32. pose proof (r_i32_good buf) as Hg.
    destruct (r_i32 buf) as [[v l]|e|w|]; cbn [bind good_rd] in *; auto. }
  destruct (Z.eq_dec ty T_I64) as [->|N5].
  { rewrite read_field_i64. pose proof (r_i64_good buf) as Hg.
    destruct (r_i64 buf) as [[v l]|e|w|]; cbn [bind good_rd] in *; auto. }
  destruct (Z.eq_dec ty T_DOUBLE) as [->|N6].
  { rewrite read_field_double. pose proof (r_double_good buf) as Hg.
    destruct (r_double buf) as [[v l]|e|w|]; cbn [bind good_rd] in *; auto. }
  destruct (Z.eq_dec ty T_STRING) as [->|N7].
  { rewrite read_field_string. pose proof (r_string_good buf) as Hg.
    destruct (r_string buf) as [[v l]|e|w|]; cbn [bind good_rd] in *; auto. }
  destruct (Z.eq_dec ty T_SET) as [->|N8].
  { rewrite read_field_set. pose proof (r_list_begin_gen_good e_read_set buf ltac:(discriminate)) as Hg.
    fold r_set_begin in Hg.
    destruct (r_set_begin buf) as [[[et size] l]|e|w|]; cbn [bind good_rd] in *; auto.
    destruct Hg as (Hs & -> & Hl).
    destruct (Z.ltb_spec size 0) as [Hneg|_]; [lia|].
    assert (Hd : length (drop 5 buf) = (length buf - 5)%nat) by (apply length_drop; lia).
    pose proof (elems_loop_good (fun sub i => read_field reset fuel' uf_zero sub et i) (Z.to_N size) (len buf)
                  (S (length buf)) (drop 5 buf) 5 0 []) as Hg.
    destruct (elems_loop _ _ _ _ _ _ _ _) as [[xs n]|e|w|]; cbn [bind good_rd good_loop] in *;
      (lapply Hg; [clear Hg; intros Hg|intros sub i Hsub; apply IH; unfold len in Hl; lia]);
      (lapply Hg; [clear Hg; intros Hg|rewrite drop_len; lia]);
      (lapply Hg; [clear Hg; intros Hg|lia]); auto; lia. }
  destruct (Z.eq_dec ty T_LIST) as [->|N9].
  { rewrite read_field_list. pose proof (r_list_begin_gen_good e_read_list buf ltac:(discriminate)) as Hg.
    fold r_list_begin in Hg.
    destruct (r_list_begin buf) as [[[et size] l]|e|w|]; cbn [bind good_rd] in *; auto.
    destruct Hg as (Hs & -> & Hl).
    destruct (Z.ltb_spec size 0) as [Hneg|_]; [lia|].
    assert (Hd : length (drop 5 buf) = (length buf - 5)%nat) by (apply length_drop; lia).
    pose proof (elems_loop_good (fun sub i => read_field reset fuel' uf_zero sub et i) (Z.to_N size) (len buf)
                  (S (length buf)) (drop 5 buf) 5 0 []) as Hg.
    destruct (elems_loop _ _ _ _ _ _ _ _) as [[xs n]|e|w|]; cbn [bind good_rd good_loop] in *;
      (lapply Hg; [clear Hg; intros Hg|intros sub i Hsub; apply IH; unfold len in Hl; lia]);
      (lapply Hg; [clear Hg; intros Hg|rewrite drop_len; lia]);
      (lapply Hg; [clear Hg; intros Hg|lia]); auto; lia. }
  destruct (Z.eq_dec ty T_MAP) as [->|N10].
  { rewrite read_field_map. pose proof (r_map_begin_good buf) as Hg.
    destruct (r_map_begin buf) as [[[[kt vt] size] l]|e|w|]; cbn [bind good_rd] in *; auto.
    destruct Hg as (Hs & -> & Hl).
    destruct (Z.ltb_spec (size * 2) 0) as [Hneg|_]; [lia|].
    assert (Hd : length (drop 6 buf) = (length buf - 6)%nat) by (apply length_drop; lia).
    pose proof (pairs_loop_good (fun sub i => read_field reset fuel' uf_zero sub kt i)
                  (fun sub i => read_field reset fuel' uf_zero sub vt i) (Z.to_N size) (len buf)
                  (S (length buf)) (drop 6 buf) 6 0 []) as Hg.
    destruct (pairs_loop _ _ _ _ _ _ _ _ _) as [[xs n]|e|w|]; cbn [bind good_rd good_loop] in *;
      (lapply Hg; [clear Hg; intros Hg|intros sub i Hsub; apply IH; unfold len in Hl; lia]);
      (lapply Hg; [clear Hg; intros Hg|intros sub i Hsub; apply IH; unfold len in Hl; lia]);
      (lapply Hg; [clear Hg; intros Hg|rewrite drop_len; lia]);
      (lapply Hg; [clear Hg; intros Hg|lia]); auto; lia. }
  destruct (Z.eq_dec ty T_STRUCT) as [->|N11].
  { rewrite read_field_struct.
    pose proof (fields_loop_good reset (read_field reset fuel') (len buf) (S (length buf)) buf 0 uf_zero []) as Hg.
    destruct (fields_loop _ _ _ _ _ _ _ _) as [[xs n]|e|w|]; cbn [bind good_rd good_loop] in *;
      (lapply Hg; [clear Hg; intros Hg|intros f1 sub t' i Hsub; apply IH; lia]);
      (lapply Hg; [clear Hg; intros Hg|lia]);
      (lapply Hg; [clear Hg; intros Hg|lia]); auto; lia. }
  rewrite read_field_other by assumption. cbn [good_rd]. discriminate.
Qed.

Definition good_top (r : res (list ufield)) : Prop :=
  match r with Ok _ => True | Err e => e <> e_fuel | _ => False end.

Lemma convert_loop_good reset fuel blen : forall lf cur pos acc,
  (length cur < fuel)%nat ->
  pos + len cur = blen -> (length cur < lf)%nat ->
  good_top (convert_loop reset lf fuel blen cur pos acc).
Proof.
  induction lf as [|lf' IH]; intros cur pos acc Hfuel Hinv Hlf; [lia|].
  cbn [convert_loop]. destruct (pos =? blen); [exact I|].
  rewrite slice_at_ok by lia. cbn [bind].
  pose proof (r_field_begin_good cur) as Hg.
  destruct (r_field_begin cur) as [[[t fid] l]|e|w|]; cbn [bind good_rd good_top] in *; auto.
  assert (Hd : length (drop l cur) = (length cur - N.to_nat l)%nat) by (apply length_drop; lia).
  assert (Hdl : len (drop l cur) = len cur - l) by (apply drop_len; lia).
  rewrite slice_at_ok by lia. cbn [bind].
  assert (Hlt : (length (drop l cur) < fuel)%nat) by lia.
  pose proof (read_field_good reset fuel uf_zero (drop l cur) t fid Hlt) as Hg2.
  destruct (read_field reset fuel uf_zero (drop l cur) t fid) as [[f l2]|e|w|];
    cbn [bind good_rd good_top] in *; auto.
  assert (Hd2 : length (drop l2 (drop l cur)) = (length (drop l cur) - N.to_nat l2)%nat) by (apply length_drop; lia).
  apply IH.
  - lia.
  - rewrite drop_len by lia. lia.
  - unfold len in Hg, Hg2. lia.
Qed.

Lemma convert_gen_good reset b : good_top (convert_gen reset b).
Proof.
  unfold convert_gen. destruct (len b =? 0); [cbn; discriminate|].
  apply convert_loop_good; lia.
Qed.

(* ConvertUnknownFields never panics, whatever the bytes (C03 reuses this) *)
Lemma convert_total : forall b, safe (convert b).
Proof.
  intros b. pose proof (convert_gen_good true b) as H. unfold convert.
  destruct (convert_gen true b); cbn [good_top safe] in *; auto.
Qed.
(* ... and the model's recursion / loop budgets are never exhausted: Err e_fuel is unreachable *)
Lemma convert_fuel_suffices : forall b, convert b <> Err e_fuel.
Proof.
  intros b E. pose proof (convert_gen_good true b) as H. unfold convert in E. rewrite E in H. now apply H.
Qed.
(* one value: consumed length is between 1 and the buffer length, whatever the bytes and the type *)
Lemma read_field_bounded : forall fuel f0 buf ty id f l,
  (length buf < fuel)%nat -> read_field true fuel f0 buf ty id = Ok (f, l) -> 1 <= l <= len buf.
Proof.
  intros fuel f0 buf ty id f l Hf E. pose proof (read_field_good true fuel f0 buf ty id Hf) as H.
  rewrite E in H. exact H.
Qed.

(* ====================================================================================== *)
(* every tree ConvertUnknownFields returns is canonical and as long as the bytes it came from *)
(* ====================================================================================== *)
Lemma wf_drop n (l : bytes) : wf l -> wf (drop n l).
Proof.
  unfold drop, wf. generalize (N.to_nat n) as k. intros k. revert l.
  induction k as [|k IH]; intros l H; cbn [skipn]; [exact H|].
  destruct l as [|x xs]; [constructor|]. apply IH. now inversion H.
Qed.
Lemma wf_take n (l : bytes) : wf l -> wf (take n l).
Proof.
  unfold take, wf. generalize (N.to_nat n) as k. intros k. revert l.
  induction k as [|k IH]; intros l H; cbn [firstn]; [constructor|].
  destruct l as [|x xs]; [constructor|]. inversion H; subst. constructor; [assumption|now apply IH].
Qed.
Lemma wf_nth0 (l : bytes) : wf l -> nth 0 l 0 < 256.
Proof. intros H. destruct l as [|x xs]; cbn [nth]; [lia|]. now inversion H. Qed.
Lemma wf_nth1 (l : bytes) : wf l -> nth 1 l 0 < 256.
Proof. intros H. destruct l as [|x [|y ys]]; cbn [nth]; try lia. inversion H as [|? ? _ H2]; subst. now inversion H2. Qed.

Lemma i8_range u : u < 256 -> in_signedb 8 (i8 u) = true.
Proof. intros H. apply in_signedb_spec. apply to_signed_range; [lia|]. now rewrite p8. Qed.
Lemma i16_range u : u < 65536 -> in_signedb 16 (i16 u) = true.
Proof. intros H. apply in_signedb_spec. apply to_signed_range; [lia|]. now rewrite p16. Qed.
Lemma i32_range u : u < 4294967296 -> in_signedb 32 (i32 u) = true.
Proof. intros H. apply in_signedb_spec. apply to_signed_range; [lia|]. now rewrite p32. Qed.
Lemma i64_range u : u < 18446744073709551616 -> in_signedb 64 (i64 u) = true.
Proof. intros H. apply in_signedb_spec. apply to_signed_range; [lia|]. now rewrite p64. Qed.

Lemma unbe_take_lt k (buf : bytes) : wf buf -> k <= len buf -> unbe (take k buf) < 256 ^ k.
Proof.
  intros H Hk. pose proof (unbe_lt (take k buf) (wf_take k buf H)) as Hlt.
  now rewrite take_len in Hlt by assumption.
Qed.

Ltac need_inv buf k e E :=
  let Hn := fresh "Hn" in let Hl := fresh "Hl" in
  destruct (need_cases buf k e) as [[Hn Hl]|[Hn Hl]]; rewrite Hn in E; cbn [bind] in E; [|discriminate].

Lemma r_bool_inv buf v l : r_bool buf = Ok (v, l) -> l = 1.
Proof. unfold r_bool. intros E. need_inv buf 1 e_read_bool E. now inversion E. Qed.
Lemma r_byte_inv buf v l : wf buf -> r_byte buf = Ok (v, l) -> l = 1 /\ in_signedb 8 v = true.
Proof.
  unfold r_byte. intros W E. need_inv buf 1 e_read_byte E. inversion E; subst.
  split; [reflexivity|]. apply i8_range, wf_nth0, W.
Qed.
Lemma r_i16_inv buf v l : wf buf -> r_i16 buf = Ok (v, l) -> l = 2 /\ in_signedb 16 v = true.
Proof.
  unfold r_i16. intros W E. need_inv buf 2 e_read_i16 E. inversion E; subst.
  split; [reflexivity|]. apply i16_range. rewrite <- p256_2. now apply unbe_take_lt.
Qed.
Lemma r_i32_inv buf v l : wf buf -> r_i32 buf = Ok (v, l) -> l = 4 /\ in_signedb 32 v = true /\ 4 <= len buf.
Proof.
  unfold r_i32. intros W E. need_inv buf 4 e_read_i32 E. inversion E; subst.
  split; [reflexivity|]. split; [|assumption]. apply i32_range. rewrite <- p256_4. now apply unbe_take_lt.
Qed.
Lemma r_i64_inv buf v l : wf buf -> r_i64 buf = Ok (v, l) -> l = 8 /\ in_signedb 64 v = true.
Proof.
  unfold r_i64. intros W E. need_inv buf 8 e_read_i64 E. inversion E; subst.
  split; [reflexivity|]. apply i64_range. rewrite <- p256_8. now apply unbe_take_lt.
Qed.
Lemma r_double_inv buf v l : wf buf -> r_double buf = Ok (v, l) -> l = 8 /\ (v <? two64) = true.
Proof.
  unfold r_double. intros W E. need_inv buf 8 e_read_double E. inversion E; subst.
  split; [reflexivity|]. pose proof (unbe_take_lt 8 buf W Hl) as H. rewrite p256_8 in H. unfold two64. lia.
Qed.
Lemma r_string_inv buf s l : wf buf -> r_string buf = Ok (s, l) ->
  l = 4 + len s /\ ((len s <? two31) && wfbb s)%bool = true.
Proof.
  unfold r_string, r_binary_gen. intros W E.
  destruct (r_i32 buf) as [[sz l0]|e|w|] eqn:E32; try discriminate.
  destruct (r_i32_inv buf sz l0 W E32) as (-> & Hr & Hl4).
  destruct (Z.ltb_spec sz 0) as [|Hnn]; [discriminate|].
  destruct (N.ltb_spec (len buf) (4 + Z.to_N sz)) as [|Hfit]; [discriminate|].
  inversion E; subst. clear E.
  assert (Hls : len (take (Z.to_N sz) (drop 4 buf)) = Z.to_N sz).
  { apply take_len. rewrite drop_len by lia. lia. }
  rewrite Hls. split; [reflexivity|].
  apply andb_true_iff. split.
  - apply in_signedb_spec in Hr. unfold in_signed in Hr. change (2 ^ (32 - 1)) with 2147483648 in Hr.
    unfold two31. lia.
  - apply wfbb_wf. apply wf_take, wf_drop, W.
Qed.
Lemma r_field_begin_inv buf t id l : wf buf -> r_field_begin buf = Ok (t, id, l) ->
  (t = thrift_STOP /\ l = 1) \/ (t <> thrift_STOP /\ l = 3 /\ in_signedb 8 t = true /\ in_signedb 16 id = true).
Proof.
  unfold r_field_begin. intros W E. need_inv buf 1 e_read_field E.
  destruct (Z.eqb_spec (i8 (nth 0 buf 0)) thrift_STOP) as [Es|Ens].
  - inversion E; subst. left. auto.
  - need_inv buf 3 e_read_field E. inversion E; subst. right. repeat split; auto.
    + apply i8_range, wf_nth0, W.
    + apply i16_range. rewrite <- p256_2. apply unbe_take_lt; [now apply wf_drop|]. rewrite drop_len; lia.
Qed.
Lemma r_list_begin_gen_inv e buf et size l : wf buf -> r_list_begin_gen e buf = Ok (et, size, l) ->
  l = 5 /\ in_signedb 8 et = true /\ (0 <= size < 4294967296)%Z /\ 5 <= len buf.
Proof.
  unfold r_list_begin_gen. intros W E. need_inv buf 5 e E. inversion E; subst.
  split; [reflexivity|]. split; [apply i8_range, wf_nth0, W|]. split; [|assumption].
  pose proof (unbe_take_lt 4 (drop 1 buf) (wf_drop 1 buf W)) as H. rewrite p256_4 in H.
  rewrite drop_len in H by lia. lia.
Qed.
Lemma r_map_begin_inv buf kt vt size l : wf buf -> r_map_begin buf = Ok (kt, vt, size, l) ->
  l = 6 /\ in_signedb 8 kt = true /\ in_signedb 8 vt = true /\ (0 <= size < 4294967296)%Z /\ 6 <= len buf.
Proof.
  unfold r_map_begin. intros W E. need_inv buf 6 e_read_map E. inversion E; subst.
  split; [reflexivity|]. split; [apply i8_range, wf_nth0, W|]. split; [apply i8_range, wf_nth1, W|]. split; [|assumption].
  pose proof (unbe_take_lt 4 (drop 2 buf) (wf_drop 2 buf W)) as H. rewrite p256_4 in H.
  rewrite drop_len in H by lia. lia.
Qed.

Definition post (ty id : Z) (r : res (ufield * N)) : Prop :=
  match r with
  | Ok (f, l) => canon f = true /\ uf_ty f = ty /\ uf_id f = id /\ l = len (enc_tree f)
  | _ => True
  end.

Lemma elems_loop_post rd et size blen : forall lf cur pos i acc,
  (forall sub id, wf sub -> in_signedb 16 id = true -> post et id (rd sub id)) ->
  wf cur -> i <= size ->
  match elems_loop rd lf blen cur pos i size acc with
  | Ok (l, n) => exists l', l = rev acc ++ l' /\ canon_elems canon et i l' = true /\
                            i + len l' = size /\ n = pos + len (concat (map enc_tree l'))
  | _ => True
  end.
Proof.
  induction lf as [|lf' IH]; intros cur pos i acc Hrd W Hi.
  - cbn [elems_loop]. destruct (N.ltb_spec i size); [exact I|].
    exists []. rewrite app_nil_r. cbn [canon_elems canon_pairs map concat]. change (len (@nil ufield)) with 0. change (len (@nil N)) with 0. repeat split; try reflexivity; lia.
  - cbn [elems_loop]. destruct (N.ltb_spec i size) as [Hlt|Hge].
    2:{ exists []. rewrite app_nil_r. cbn [canon_elems canon_pairs map concat]. change (len (@nil ufield)) with 0. change (len (@nil N)) with 0. repeat split; try reflexivity; lia. }
    unfold slice_at. destruct (pos <=? blen); [|exact I]. cbn [bind].
    pose proof (Hrd cur (int16_of i) W (int16_of_range i)) as Hp.
    destruct (rd cur (int16_of i)) as [[x l]|e|w|]; cbn [bind post] in *; auto.
    destruct Hp as (Hc & Hty & Hid & Hl).
    specialize (IH (drop l cur) (pos + l) (i + 1) (x :: acc) Hrd (wf_drop l cur W) ltac:(lia)).
    destruct (elems_loop rd lf' blen (drop l cur) (pos + l) (i + 1) size (x :: acc)) as [[xs n]|e|w|]; auto.
    destruct IH as (l' & -> & Hc' & Hn & Hpos).
    exists (x :: l'). cbn [rev canon_elems map concat]. rewrite <- app_assoc. cbn [app].
    rewrite Hty, Hid, !Z.eqb_refl, Hc, Hc'. rewrite len_cons, len_app.
    repeat split; try reflexivity; lia.
Qed.

Lemma pairs_loop_post rdk rdv kt vt size blen : forall lf cur pos i acc,
  (forall sub id, wf sub -> in_signedb 16 id = true -> post kt id (rdk sub id)) ->
  (forall sub id, wf sub -> in_signedb 16 id = true -> post vt id (rdv sub id)) ->
  wf cur -> i <= size ->
  match pairs_loop rdk rdv lf blen cur pos i size acc with
  | Ok (l, n) => exists l', l = rev acc ++ l' /\ canon_pairs canon kt vt i l' = true /\
                            2 * i + len l' = 2 * size /\ n = pos + len (concat (map enc_tree l'))
  | _ => True
  end.
Proof.
  induction lf as [|lf' IH]; intros cur pos i acc Hrk Hrv W Hi.
  - cbn [pairs_loop]. destruct (N.ltb_spec i size); [exact I|].
    exists []. rewrite app_nil_r. cbn [canon_elems canon_pairs map concat]. change (len (@nil ufield)) with 0. change (len (@nil N)) with 0. repeat split; try reflexivity; lia.
  - cbn [pairs_loop]. destruct (N.ltb_spec i size) as [Hlt|Hge].
    2:{ exists []. rewrite app_nil_r. cbn [canon_elems canon_pairs map concat]. change (len (@nil ufield)) with 0. change (len (@nil N)) with 0. repeat split; try reflexivity; lia. }
    unfold slice_at. destruct (pos <=? blen); [|exact I]. cbn [bind].
    pose proof (Hrk cur (int16_of i) W (int16_of_range i)) as Hp.
    destruct (rdk cur (int16_of i)) as [[k l]|e|w|]; cbn [bind post] in *; auto.
    destruct Hp as (Hc & Hty & Hid & Hl).
    destruct (pos + l <=? blen); [|exact I]. cbn [bind].
    pose proof (Hrv (drop l cur) (int16_of i) (wf_drop l cur W) (int16_of_range i)) as Hp2.
    destruct (rdv (drop l cur) (int16_of i)) as [[v l2]|e|w|]; cbn [bind post] in *; auto.
    destruct Hp2 as (Hc2 & Hty2 & Hid2 & Hl2).
    specialize (IH (drop l2 (drop l cur)) (pos + l + l2) (i + 1) (v :: k :: acc) Hrk Hrv
                   (wf_drop l2 _ (wf_drop l cur W)) ltac:(lia)).
    destruct (pairs_loop rdk rdv lf' blen (drop l2 (drop l cur)) (pos + l + l2) (i + 1) size (v :: k :: acc))
      as [[xs n]|e|w|]; auto.
    destruct IH as (l' & -> & Hc' & Hn & Hpos).
    exists (k :: v :: l'). cbn [rev canon_pairs map concat]. rewrite <- !app_assoc. cbn [app].
    rewrite Hty, Hid, Hty2, Hid2, !Z.eqb_refl, Hc, Hc2, Hc'. rewrite !len_cons, !len_app.
    repeat split; try reflexivity; lia.
Qed.

Lemma fields_loop_post rd blen : forall lf cur pos field acc,
  (forall sub t id, wf sub -> in_signedb 16 id = true -> post t id (rd uf_zero sub t id)) ->
  wf cur ->
  match fields_loop true rd lf blen cur pos field acc with
  | Ok (l, n) => exists l', l = rev acc ++ l' /\ forallb canon l' = true /\
                            n = pos + len (concat (map enc_tree_field l')) + 1
  | _ => True
  end.
Proof.
  induction lf as [|lf' IH]; intros cur pos field acc Hrd W; [exact I|].
  cbn [fields_loop].
  unfold slice_at at 1. destruct (pos <=? blen); [|exact I]. cbn [bind].
  destruct (r_field_begin cur) as [[[t fid] l]|e|w|] eqn:Efb; cbn [bind]; auto.
  destruct (r_field_begin_inv cur t fid l W Efb) as [[-> ->]|(Hns & -> & Ht & Hid)].
  - rewrite Z.eqb_refl. exists []. rewrite app_nil_r. repeat split; try reflexivity.
    cbn [map concat]. change (len (@nil N)) with 0. lia.
  - destruct (Z.eqb_spec t thrift_STOP) as [|_]; [contradiction|].
    unfold slice_at. destruct (pos + 3 <=? blen); [|exact I]. cbn [bind].
    pose proof (Hrd (drop 3 cur) t fid (wf_drop 3 cur W) Hid) as Hp.
    destruct (rd uf_zero (drop 3 cur) t fid) as [[f l2]|e|w|]; cbn [bind post] in *; auto.
    destruct Hp as (Hc & Hty & Hfid & Hl).
    specialize (IH (drop l2 (drop 3 cur)) (pos + 3 + l2) f (f :: acc) Hrd (wf_drop l2 _ (wf_drop 3 cur W))).
    destruct (fields_loop true rd lf' blen (drop l2 (drop 3 cur)) (pos + 3 + l2) f (f :: acc)) as [[xs n]|e|w|]; auto.
    destruct IH as (l' & -> & Hc' & Hn).
    exists (f :: l'). cbn [rev forallb]. rewrite <- app_assoc. cbn [app]. rewrite Hc, Hc'.
    repeat split; try reflexivity.
    rewrite concat_fields_cons, !len_app. unfold len at 1. rewrite length_enc_fb. lia.
Qed.

Lemma canon_leaf id ty v (body : bool) :
  in_signedb 16 id = true -> canon (UF id ty 0 0 v) = (in_signedb 16 id && body)%bool -> body = true ->
  canon (UF id ty 0 0 v) = true.
Proof. intros H E B. now rewrite E, H, B. Qed.

Lemma read_field_post : forall fuel buf ty id,
  wf buf -> in_signedb 16 id = true -> post ty id (read_field true fuel uf_zero buf ty id).
Proof.
  induction fuel as [|fuel' IH]; intros buf ty id W Hid; [exact I|].
  destruct (Z.eq_dec ty T_BOOL) as [->|N1].
  { rewrite read_field_bool. destruct (r_bool buf) as [[v l]|e|w|] eqn:E; cbn [bind post]; auto.
    pose proof (r_bool_inv buf v l E) as ->. cbn [uf_kt uf_vt uf_zero canon]. rewrite Hid. repeat split; reflexivity. }
  destruct (Z.eq_dec ty T_BYTE) as [->|N2].
  { rewrite read_field_byte. destruct (r_byte buf) as [[v l]|e|w|] eqn:E; cbn [bind post]; auto.
    destruct (r_byte_inv buf v l W E) as [-> Hr]. cbn [uf_kt uf_vt uf_zero canon]. rewrite Hid, Hr. repeat split; reflexivity. }
  destruct (Z.eq_dec ty T_I16) as [->|N3].
  { rewrite read_field_i16. destruct (r_i16 buf) as [[v l]|e|w|] eqn:E; cbn [bind post]; auto.
    destruct (r_i16_inv buf v l W E) as [-> Hr]. cbn [uf_kt uf_vt uf_zero canon]. rewrite Hid, Hr. repeat split; reflexivity. }
  destruct (Z.eq_dec ty T_I32) as [->|N4].
  { rewrite read_field_i32. destruct (r_i32 buf) as [[v l]|e|w|] eqn:E; cbn [bind post]; auto.
    destruct (r_i32_inv buf v l W E) as (-> & Hr & _). cbn [uf_kt uf_vt uf_zero canon]. rewrite Hid, Hr. repeat split; reflexivity. }
  destruct (Z.eq_dec ty T_I64) as [->|N5].
  { rewrite read_field_i64. destruct (r_i64 buf) as [[v l]|e|w|] eqn:E; cbn [bind post]; auto.
    destruct (r_i64_inv buf v l W E) as [-> Hr]. cbn [uf_kt uf_vt uf_zero canon]. rewrite Hid, Hr. repeat split; reflexivity. }
  destruct (Z.eq_dec ty T_DOUBLE) as [->|N6].
  { rewrite read_field_double. destruct (r_double buf) as [[v l]|e|w|] eqn:E; cbn [bind post]; auto.
    destruct (r_double_inv buf v l W E) as [-> Hr]. cbn [uf_kt uf_vt uf_zero canon]. rewrite Hid, Hr. repeat split; reflexivity. }
  destruct (Z.eq_dec ty T_STRING) as [->|N7].
  { rewrite read_field_string. destruct (r_string buf) as [[v l]|e|w|] eqn:E; cbn [bind post]; auto.
    destruct (r_string_inv buf v l W E) as [-> Hr]. cbn [uf_kt uf_vt uf_zero canon]. rewrite Hid.
    apply andb_true_iff in Hr as [H1 H2]. rewrite H1, H2. repeat split; try reflexivity.
    cbn [enc_tree enc]. rewrite len_app, be_len. reflexivity. }
  destruct (Z.eq_dec ty T_SET) as [->|N8].
  { rewrite read_field_set. destruct (r_set_begin buf) as [[[et size] l]|e|w|] eqn:E; cbn [bind post]; auto.
    destruct (r_list_begin_gen_inv _ buf et size l W E) as (-> & Het & Hsz & Hl).
    destruct (Z.ltb_spec size 0) as [|_]; [lia|].
    pose proof (elems_loop_post (fun sub i => read_field true fuel' uf_zero sub et i) et (Z.to_N size) (len buf)
                  (S (length buf)) (drop 5 buf) 5 0 [] (fun sub i Ws Hi => IH sub et i Ws Hi)
                  (wf_drop 5 buf W) ltac:(lia)) as Hp.
    destruct (elems_loop _ _ _ _ _ _ _ _) as [[xs n]|e|w|]; cbn [bind post]; auto.
    destruct Hp as (l' & -> & Hc & Hn & ->). cbn [rev app uf_kt uf_zero uf_ty uf_id].
    rewrite canon_set, enc_tree_set, Hid, Het, Hc, len_app.
    replace (len l' <? two32) with true by (symmetry; apply N.ltb_lt; unfold two32; lia).
    repeat split; reflexivity. }
  destruct (Z.eq_dec ty T_LIST) as [->|N9].
  { rewrite read_field_list. destruct (r_list_begin buf) as [[[et size] l]|e|w|] eqn:E; cbn [bind post]; auto.
    destruct (r_list_begin_gen_inv _ buf et size l W E) as (-> & Het & Hsz & Hl).
    destruct (Z.ltb_spec size 0) as [|_]; [lia|].
    pose proof (elems_loop_post (fun sub i => read_field true fuel' uf_zero sub et i) et (Z.to_N size) (len buf)
                  (S (length buf)) (drop 5 buf) 5 0 [] (fun sub i Ws Hi => IH sub et i Ws Hi)
                  (wf_drop 5 buf W) ltac:(lia)) as Hp.
    destruct (elems_loop _ _ _ _ _ _ _ _) as [[xs n]|e|w|]; cbn [bind post]; auto.
    destruct Hp as (l' & -> & Hc & Hn & ->). cbn [rev app uf_kt uf_zero uf_ty uf_id].
    rewrite canon_list, enc_tree_list, Hid, Het, Hc, len_app.
    replace (len l' <? two32) with true by (symmetry; apply N.ltb_lt; unfold two32; lia).
    repeat split; reflexivity. }
  destruct (Z.eq_dec ty T_MAP) as [->|N10].
  { rewrite read_field_map. destruct (r_map_begin buf) as [[[[kt vt] size] l]|e|w|] eqn:E; cbn [bind post]; auto.
    destruct (r_map_begin_inv buf kt vt size l W E) as (-> & Hkt & Hvt & Hsz & Hl).
    destruct (Z.ltb_spec (size * 2) 0) as [|_]; [lia|].
    pose proof (pairs_loop_post (fun sub i => read_field true fuel' uf_zero sub kt i)
                  (fun sub i => read_field true fuel' uf_zero sub vt i) kt vt (Z.to_N size) (len buf)
                  (S (length buf)) (drop 6 buf) 6 0 [] (fun sub i Ws Hi => IH sub kt i Ws Hi)
                  (fun sub i Ws Hi => IH sub vt i Ws Hi) (wf_drop 6 buf W) ltac:(lia)) as Hp.
    destruct (pairs_loop _ _ _ _ _ _ _ _ _) as [[xs n]|e|w|]; cbn [bind post]; auto.
    destruct Hp as (l' & -> & Hc & Hn & ->). cbn [rev app uf_ty uf_id].
    rewrite canon_map, enc_tree_map, Hid, Hkt, Hvt, Hc, len_app.
    assert (Hhalf : len l' / 2 = Z.to_N size).
    { replace (len l') with (Z.to_N size * 2) by lia. apply N.div_mul. lia. }
    rewrite Hhalf.
    replace (Z.to_N size <? two32) with true by (symmetry; apply N.ltb_lt; unfold two32; lia).
    repeat split; reflexivity. }
  destruct (Z.eq_dec ty T_STRUCT) as [->|N11].
  { rewrite read_field_struct.
    pose proof (fields_loop_post (read_field true fuel') (len buf) (S (length buf)) buf 0 uf_zero []
                  (fun sub t i Ws Hi => IH sub t i Ws Hi) W) as Hp.
    destruct (fields_loop _ _ _ _ _ _ _ _) as [[xs n]|e|w|]; cbn [bind post]; auto.
    destruct Hp as (l' & -> & Hc & ->). cbn [rev app uf_kt uf_vt uf_zero uf_ty uf_id].
    rewrite canon_struct, enc_tree_struct, Hid, Hc, len_app.
    repeat split; reflexivity. }
  rewrite read_field_other by assumption. exact I.
Qed.

Lemma convert_loop_post fuel blen : forall lf cur pos acc,
  wf cur ->
  match convert_loop true lf fuel blen cur pos acc with
  | Ok t => exists l', t = rev acc ++ l' /\ forallb canon l' = true /\
                       blen = pos + len (concat (map enc_tree_field l'))
  | _ => True
  end.
Proof.
  induction lf as [|lf' IH]; intros cur pos acc W; [exact I|].
  cbn [convert_loop]. destruct (N.eqb_spec pos blen) as [->|Hne].
  - exists []. rewrite app_nil_r. repeat split; try reflexivity. cbn [map concat]. change (len (@nil N)) with 0. lia.
  - unfold slice_at at 1. destruct (pos <=? blen); [|exact I]. cbn [bind].
    destruct (r_field_begin cur) as [[[t fid] l]|e|w|] eqn:Efb; cbn [bind]; auto.
    destruct (r_field_begin_inv cur t fid l W Efb) as [[-> ->]|(Hns & -> & Ht & Hid)].
    + (* a STOP byte at the top level: readUnknownField rejects type 0 *)
      unfold slice_at. destruct (pos + 1 <=? blen); [|exact I]. cbn [bind].
      destruct fuel as [|fuel']; [exact I|].
      rewrite read_field_other by (change thrift_STOP with 0%Z; discriminate). exact I.
    + unfold slice_at. destruct (pos + 3 <=? blen); [|exact I]. cbn [bind].
      pose proof (read_field_post fuel (drop 3 cur) t fid (wf_drop 3 cur W) Hid) as Hp.
      destruct (read_field true fuel uf_zero (drop 3 cur) t fid) as [[f l2]|e|w|]; cbn [bind post] in *; auto.
      destruct Hp as (Hc & Hty & Hfid & Hl).
      specialize (IH (drop l2 (drop 3 cur)) (pos + 3 + l2) (f :: acc) (wf_drop l2 _ (wf_drop 3 cur W))).
      destruct (convert_loop true lf' fuel blen (drop l2 (drop 3 cur)) (pos + 3 + l2) (f :: acc)) as [ts|e|w|]; auto.
      destruct IH as (l' & -> & Hc' & Hn).
      exists (f :: l'). cbn [rev forallb]. rewrite <- app_assoc. cbn [app]. rewrite Hc, Hc'.
      repeat split; try reflexivity.
      rewrite concat_fields_cons, !len_app. unfold len at 1. rewrite length_enc_fb. lia.
Qed.

(* whatever bytes were accepted: the tree is canonical and denotes exactly as many bytes as were given *)
Lemma convert_canonical : forall b t, wf b -> convert b = Ok t ->
  canon_fields t = true /\ t <> [] /\ len (enc_tree_fields t) = len b.
Proof.
  intros b t W E. unfold convert, convert_gen in E.
  destruct (N.eqb_spec (len b) 0) as [|Hne]; [discriminate|].
  pose proof (convert_loop_post (S (length b)) (len b) (S (length b)) b 0 [] W) as Hp.
  rewrite E in Hp. destruct Hp as (l' & -> & Hc & Hn). cbn [rev app] in *.
  unfold canon_fields, enc_tree_fields. split; [exact Hc|]. split; [|lia].
  intros ->. cbn [map concat] in Hn. change (len (@nil N)) with 0 in Hn. lia.
Qed.

(* hence every successful conversion survives write-then-convert, with length = byte count of the input *)
Lemma convert_then_write : forall b t, wf b -> convert b = Ok t ->
  let w := enc_tree_fields t in
  len w = len b /\ fields_len t = Ok (len b) /\
  (forall buf, len b <= len buf -> write_fields buf t = Ok (w ++ drop (len b) buf, len b)) /\
  convert w = Ok t.
Proof.
  intros b t W E w. destruct (convert_canonical b t W E) as (Hc & Hne & Hl).
  destruct (tree_bytes_tree t Hne Hc) as (H1 & H2 & H3). fold w in H1, H2, H3, Hl.
  rewrite Hl in H1, H2. auto.
Qed.
