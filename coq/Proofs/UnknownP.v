(* Proofs/UnknownP.v — C13: lemmas about Model/Unknown.v against Spec/UnknownSpec.v. *)
From GV Require Import Lib.Bytes Lib.Res Gen.Consts Model.Binary Spec.Wire Model.Unknown Spec.UnknownSpec.
From Coq Require Import ZifyN ZifyNat ZifyBool.
Open Scope N_scope.

(* the type codes the wire format fixes are the ones the Go source declares *)
Lemma consts_ok_unknown :
  thrift_STOP = T_STOP /\ thrift_BOOL = T_BOOL /\ thrift_BYTE = T_BYTE /\ thrift_DOUBLE = T_DOUBLE /\
  thrift_I16 = T_I16 /\ thrift_I32 = T_I32 /\ thrift_I64 = T_I64 /\ thrift_STRING = T_STRING /\
  thrift_STRUCT = T_STRUCT /\ thrift_MAP = T_MAP /\ thrift_SET = T_SET /\ thrift_LIST = T_LIST.
Proof. repeat split; reflexivity. Qed.

(* D9 witness: nested struct {1: map<i32,i64>{5:7}; 2: i32 9} *)
Definition d9_value : list (Z * tval) :=
  [(1%Z, TStruct [(1%Z, TMap 8 10 [(TI32 5, TI64 7)]); (2%Z, TI32 9)])].

Lemma d9_repaired : convert (enc_fields d9_value) = Ok (tree_of_fields d9_value).
Proof. vm_compute. reflexivity. Qed.

(* without the per-field reset the I32 member inherits KeyType/ValType of the map before it *)
Lemma d9_without_reset :
  convert_gen false (enc_fields d9_value) =
  Ok [UF 1 12 0 0 (VFields [UF 1 13 8 10 (VFields [UF 0 8 0 0 (VI32 5); UF 0 10 0 0 (VI64 7)]);
                             UF 2 8 8 10 (VI32 9)])].
Proof. vm_compute. reflexivity. Qed.
