(* Proofs/GenCorollariesNocopy.v — headline theorems of C15 (Properties/C15.v) and the write-side
   theorems of C11 (Properties/C11.v) restated for the definitions REGENERATED FROM THE GO SOURCE on
   every run (Gen/Funcs.v: g_thrift_WriteStringNocopy, g_base_Base_BLength / _FastWriteNocopy /
   _FastWrite, g_base_BaseResp_*; tools/gotrans phase 3), by rewriting with Proofs/GenEquivNocopy.v.

   Reading guide.  The struct's map is ANY Go map [m] (GoSem.gmap: the list of all assignments,
   newest first) and the `range` statement enumerates it in ANY order [ord] with
   [gmap_order_ok m ord] (each key exactly once): the hand model's struct is
   [gbase lg cl ad m ord], whose map is the association list [ordered_map m ord] in that order.
   The no-copy threshold is the regenerated Go constant (the hand theorems hold for every value).
   The direct writer is the reference writer of the hand model: state = its record so far,
   WriteDirect = [xwd]; the nil writer theorems hold for ANY state type and ANY WriteDirect.
   The two paths are compared under the SAME enumeration order. *)
From GV Require Import Lib.Bytes Lib.Res Lib.GoSem Gen.Consts Gen.Funcs Model.Binary Spec.Wire Model.Skip Model.Nocopy
     Model.FastCodec Spec.FastSpec Spec.FastRead Proofs.BinaryP Proofs.NocopyLib Proofs.NocopyP Proofs.FastCodecLib
     Proofs.FastCodecP Proofs.GenLib Proofs.GenLib3 Proofs.GenEquiv Proofs.GenEquivFast Proofs.GenEquivAppEx
     Proofs.GenEquivNocopy Proofs.GenCorollariesFast.
From Coq Require Import ZifyN ZifyNat ZifyBool Permutation.
Open Scope N_scope.

Notation thr := thrift_nocopyWriteThreshold.

Definition gbase (lg cl ad : bytes) (m : gmap bytes bytes) (ord : list bytes) : option base :=
  Some {| b_logid := lg; b_caller := cl; b_addr := ad; b_extra := ordered_map beqb [] m ord |}.
Definition gresp (ms : bytes) (cd : Z) (m : gmap bytes bytes) (ord : list bytes) : option baseresp :=
  Some {| r_msg := ms; r_code := cd; r_extra := ordered_map beqb [] m ord |}.

(* the reference direct writer as a model of WriteDirect *)
Definition xwd (log : list dpair) (v : bytes) (rc : Z) : res (list dpair * gerror) :=
  do log' <- write_direct log v (Z.to_N rc); Ok (log', gnil).
Lemma xwd_ok : false = false -> forall (st : list dpair) (v : bytes) (rc : Z), (0 <= rc)%Z ->
  match write_direct ((fun l => l) st) v (Z.to_N rc) with
  | Ok log' => exists st' e, xwd st v rc = Ok (st', e) /\ (fun l : list dpair => l) st' = log'
  | Panic _ => exists x, xwd st v rc = Panic x
  | _ => False
  end.
Proof.
  intros _ st v rc _. unfold xwd, write_direct. destruct (Z.to_N rc <? len v); cbn [bind].
  - eexists; reflexivity.
  - eexists. eexists. split; reflexivity.
Qed.
(* no requirement on the writer's model when w == nil *)
Lemma anymeth_ok {St} (meth : St -> bytes -> Z -> res (St * gerror)) :
  true = false -> forall (st : St) (v : bytes) (rc : Z), (0 <= rc)%Z ->
  match write_direct ((fun _ => []) st) v (Z.to_N rc) with
  | Ok log' => exists st' e, meth st v rc = Ok (st', e) /\ (fun _ : St => @nil dpair) st' = log'
  | Panic _ => exists x, meth st v rc = Panic x
  | _ => False
  end.
Proof. discriminate. Qed.

(* ---------- sizes: a struct that fits a buffer shorter than 2^63 has short strings ---------- *)
Lemma entries_blength_in l : forall off k v, In (k, v) l -> off + (4 + len k) + (4 + len v) <= entries_blength l off.
Proof.
  induction l as [|[k0 v0] r IH]; intros off k v H; cbn [In entries_blength] in *; [contradiction|].
  destruct H as [E|H].
  - inversion E; subst. apply entries_blength_mono.
  - specialize (IH (off + (4 + len k0) + (4 + len v0)) k v H). lia.
Qed.

Lemma kv_small_of_blength m ord off (b : bytes) :
  gmap_order_ok m ord -> map_blength (ordered_map beqb [] m ord) off <= len b -> glen_ok b -> kv_small m ord.
Proof.
  intros Hord H Hb k Hk. unfold glen_ok, glen in Hb. destruct m as [l|]; cbn [ordered_map map_blength] in H.
  - assert (In (k, gmap_get beqb (Some l) k []) (ordered_entries beqb [] (Some l) ord)) as Hin.
    { unfold ordered_entries. apply in_map_iff. exists k. auto. }
    pose proof (entries_blength_in _ (off + 3 + 6) _ _ Hin) as B. unfold small, glen. unfold bytes in *. split; lia.
  - destruct Hord as [_ HI]. apply HI in Hk. contradiction.
Qed.

Lemma map_blength_mono mm off : off <= map_blength mm off.
Proof. destruct mm as [l|]; cbn [map_blength]; [|lia]. pose proof (entries_blength_mono l (off + 3 + 6)). lia. Qed.

Lemma base_small lg cl ad m ord (b : bytes) :
  gmap_order_ok m ord -> base_blength (gbase lg cl ad m ord) <= len b -> glen_ok b ->
  small lg /\ small cl /\ small ad /\ kv_small m ord.
Proof.
  intros Hord H Hb. unfold gbase, base_blength in H. cbn [b_logid b_caller b_addr b_extra] in H.
  pose proof (map_blength_mono (ordered_map beqb [] m ord) (0 + 3 + (4 + len lg) + 3 + (4 + len cl) + 3 + (4 + len ad))) as M.
  pose proof Hb as Hb'. unfold glen_ok, glen in Hb'. unfold small, glen.
  split; [lia|]. split; [lia|]. split; [lia|].
  exact (kv_small_of_blength m ord (0 + 3 + (4 + len lg) + 3 + (4 + len cl) + 3 + (4 + len ad)) b Hord ltac:(lia) Hb).
Qed.

Lemma resp_small ms cd m ord (b : bytes) :
  gmap_order_ok m ord -> baseresp_blength (gresp ms cd m ord) <= len b -> glen_ok b ->
  small ms /\ kv_small m ord.
Proof.
  intros Hord H Hb. unfold gresp, baseresp_blength in H. cbn [r_msg r_code r_extra] in H.
  pose proof (map_blength_mono (ordered_map beqb [] m ord) (0 + 3 + (4 + len ms) + 3 + 4)) as M.
  pose proof Hb as Hb'. unfold glen_ok, glen in Hb'. unfold small, glen.
  split; [lia|].
  exact (kv_small_of_blength m ord (0 + 3 + (4 + len ms) + 3 + 4) b Hord ltac:(lia) Hb).
Qed.

(* ---------- transfer: whatever the hand model returns ---------- *)
Theorem g_base_nocopy_ok lg cl ad m ord (b : bytes) log b' n log' :
  gmap_order_ok m ord -> glen_ok b -> base_blength (gbase lg cl ad m ord) <= len b ->
  base_write_nocopy thr (gbase lg cl ad m ord) b (Some log) = Ok (b', n, Some log') ->
  g_base_Base_FastWriteNocopy (list dpair) xwd false lg cl ad m b false log ord = Ok (lg, cl, ad, m, b', log', Z.of_N n).
Proof.
  intros Hord Hb Hl E. destruct (base_small lg cl ad m ord b Hord Hl Hb) as (H1 & H2 & H3 & H4).
  pose proof (g_base_FastWriteNocopy_sim (list dpair) xwd (fun l => l) false xwd_ok m ord lg cl ad b log Hb H1 H2 H3 H4 Hord) as S.
  change (hw (list dpair) (fun l => l) false log) with (Some log) in S. unfold gbase in E. rewrite E in S.
  cbn [fw_sim] in S. destruct S as (st' & -> & Ew). inversion Ew. reflexivity.
Qed.

Theorem g_baseresp_nocopy_ok ms cd m ord (b : bytes) log b' n log' :
  gmap_order_ok m ord -> glen_ok b -> baseresp_blength (gresp ms cd m ord) <= len b ->
  baseresp_write_nocopy thr (gresp ms cd m ord) b (Some log) = Ok (b', n, Some log') ->
  g_base_BaseResp_FastWriteNocopy (list dpair) xwd false ms cd m b false log ord = Ok (ms, cd, m, b', log', Z.of_N n).
Proof.
  intros Hord Hb Hl E. destruct (resp_small ms cd m ord b Hord Hl Hb) as (H1 & H4).
  pose proof (g_baseresp_FastWriteNocopy_sim (list dpair) xwd (fun l => l) false xwd_ok m ord ms cd b log Hb H1 H4 Hord) as S.
  change (hw (list dpair) (fun l => l) false log) with (Some log) in S. unfold gresp in E. rewrite E in S.
  cbn [fw_sim] in S. destruct S as (st' & -> & Ew). inversion Ew. reflexivity.
Qed.

Theorem g_base_write_ok lg cl ad m ord (b : bytes) b' n :
  gmap_order_ok m ord -> glen_ok b -> base_blength (gbase lg cl ad m ord) <= len b ->
  base_write thr (gbase lg cl ad m ord) b = Ok (b', n) ->
  g_base_Base_FastWrite false lg cl ad m b ord = Ok (lg, cl, ad, m, b', Z.of_N n).
Proof.
  intros Hord Hb Hl E. destruct (base_small lg cl ad m ord b Hord Hl Hb) as (H1 & H2 & H3 & H4).
  pose proof (g_base_FastWrite_sim m ord lg cl ad b Hb H1 H2 H3 H4 Hord) as S.
  unfold gbase in E. rewrite E in S. exact S.
Qed.

Theorem g_baseresp_write_ok ms cd m ord (b : bytes) b' n :
  gmap_order_ok m ord -> glen_ok b -> baseresp_blength (gresp ms cd m ord) <= len b ->
  baseresp_write thr (gresp ms cd m ord) b = Ok (b', n) ->
  g_base_BaseResp_FastWrite false ms cd m b ord = Ok (ms, cd, m, b', Z.of_N n).
Proof.
  intros Hord Hb Hl E. destruct (resp_small ms cd m ord b Hord Hl Hb) as (H1 & H4).
  pose proof (g_baseresp_FastWrite_sim m ord ms cd b Hb H1 H4 Hord) as S.
  unfold gresp in E. rewrite E in S. exact S.
Qed.

(* ---------- C15_splice_eq_copy: with the reference direct writer attached, for every struct, map,
   enumeration order and buffer at least BLength long ---------- *)
Theorem g_C15_splice_eq_copy_base lg cl ad m ord (b : bytes) :
  let p := gbase lg cl ad m ord in
  gmap_order_ok m ord -> glen_ok b -> base_blength p <= len b ->
  exists lin pairs,
    g_base_Base_FastWriteNocopy (list dpair) xwd false lg cl ad m b false [] ord
      = Ok (lg, cl, ad, m, lin ++ drop (len lin) b, pairs, Z.of_N (len lin)) /\
    splice (lin ++ drop (len lin) b) pairs =
      Ok (base_stream p ++ take (len b - len (base_stream p)) (drop (len lin) b)) /\
    g_base_Base_FastWrite false lg cl ad m b ord
      = Ok (lg, cl, ad, m, base_stream p ++ drop (len (base_stream p)) b, Z.of_N (len (base_stream p))) /\
    map fst pairs = large thr (base_strings p) /\
    len lin + pieces_len pairs = len (base_stream p) /\
    ins lin 0 (positions (len b) pairs) = base_stream p.
Proof.
  intros p Hord Hb Hl.
  destruct (base_splice_eq_copy thr p b Hl) as (lin & pairs & E1 & E2 & E3 & E4 & E5 & E6).
  exists lin, pairs. split; [apply (g_base_nocopy_ok lg cl ad m ord b [] _ _ _ Hord Hb Hl E1)|].
  split; [exact E2|]. split; [apply (g_base_write_ok lg cl ad m ord b _ _ Hord Hb Hl E3)|]. auto.
Qed.

Theorem g_C15_splice_eq_copy_baseresp ms cd m ord (b : bytes) :
  let p := gresp ms cd m ord in
  gmap_order_ok m ord -> glen_ok b -> baseresp_blength p <= len b ->
  exists lin pairs,
    g_base_BaseResp_FastWriteNocopy (list dpair) xwd false ms cd m b false [] ord
      = Ok (ms, cd, m, lin ++ drop (len lin) b, pairs, Z.of_N (len lin)) /\
    splice (lin ++ drop (len lin) b) pairs =
      Ok (baseresp_stream p ++ take (len b - len (baseresp_stream p)) (drop (len lin) b)) /\
    g_base_BaseResp_FastWrite false ms cd m b ord
      = Ok (ms, cd, m, baseresp_stream p ++ drop (len (baseresp_stream p)) b, Z.of_N (len (baseresp_stream p))) /\
    map fst pairs = large thr (baseresp_strings p) /\
    len lin + pieces_len pairs = len (baseresp_stream p) /\
    ins lin 0 (positions (len b) pairs) = baseresp_stream p.
Proof.
  intros p Hord Hb Hl.
  destruct (baseresp_splice_eq_copy thr p b Hl) as (lin & pairs & E1 & E2 & E3 & E4 & E5 & E6).
  exists lin, pairs. split; [apply (g_baseresp_nocopy_ok ms cd m ord b [] _ _ _ Hord Hb Hl E1)|].
  split; [exact E2|]. split; [apply (g_baseresp_write_ok ms cd m ord b _ _ Hord Hb Hl E3)|]. auto.
Qed.

(* a single WriteStringNocopy / WriteBinaryNocopy, every length on both sides of the threshold *)
Theorem g_C15_splice_eq_copy_string v (b : bytes) :
  glen_ok b -> 4 + len v <= len b ->
  exists lin pairs,
    g_thrift_WriteStringNocopy (list dpair) xwd b false [] v = Ok (lin ++ drop (len lin) b, pairs, Z.of_N (len lin)) /\
    g_thrift_WriteBinaryNocopy (list dpair) xwd b false [] v = Ok (lin ++ drop (len lin) b, pairs, Z.of_N (len lin)) /\
    splice (lin ++ drop (len lin) b) pairs =
      Ok (enc (IString v) ++ take (len b - len (enc (IString v))) (drop (len lin) b)) /\
    g_thrift_WriteString b v = Ok (enc (IString v) ++ drop (len (enc (IString v))) b, Z.of_N (len (enc (IString v)))) /\
    map fst pairs = large thr [v] /\
    len lin + pieces_len pairs = len (enc (IString v)) /\
    ins lin 0 (positions (len b) pairs) = enc (IString v).
Proof.
  intros Hb Hl. assert (small v) as Hv by (unfold small, glen_ok, glen in *; lia).
  destruct (string_splice_eq_copy thr v b Hl) as (lin & pairs & E1 & E2 & E3 & E4 & E5 & E6).
  exists lin, pairs.
  pose proof (g_WriteStringNocopy_sim (list dpair) xwd (fun l => l) false xwd_ok b [] v Hv) as S.
  pose proof (g_WriteBinaryNocopy_sim (list dpair) xwd (fun l => l) false xwd_ok b [] v Hv) as S2.
  change (w_binary_nocopy thr b (hw (list dpair) (fun l => l) false []) v) with (w_string_nocopy thr b (hw (list dpair) (fun l => l) false []) v) in S2.
  change (hw (list dpair) (fun l => l) false []) with (Some (@nil dpair)) in S, S2. rewrite E1 in S, S2. cbn [wsn_sim] in S, S2.
  destruct S as (st' & -> & Ew & _). destruct S2 as (st2 & -> & Ew2 & _).
  change (hw (list dpair) (fun l => l) false st') with (Some st') in Ew. change (hw (list dpair) (fun l => l) false st2) with (Some st2) in Ew2.
  inversion Ew. inversion Ew2. subst st' st2.
  split; [reflexivity|]. split; [reflexivity|]. split; [exact E2|]. split.
  { rewrite g_thrift_WriteString_eq by exact Hv. rewrite E3. reflexivity. }
  auto.
Qed.

(* ---------- C15_nil_writer_identical / below_threshold_identical ---------- *)
(* w == nil: ANY state type and ANY WriteDirect (it is never called) *)
Theorem g_C15_nil_writer_identical {St} (meth : St -> bytes -> Z -> res (St * gerror)) st lg cl ad m ord (b : bytes) :
  let p := gbase lg cl ad m ord in
  gmap_order_ok m ord -> glen_ok b -> base_blength p <= len b ->
  exists st',
    g_base_Base_FastWriteNocopy St meth false lg cl ad m b true st ord
    = Ok (lg, cl, ad, m, base_stream p ++ drop (len (base_stream p)) b, st', Z.of_N (len (base_stream p))).
Proof.
  intros p Hord Hb Hl. destruct (base_small lg cl ad m ord b Hord Hl Hb) as (H1 & H2 & H3 & H4).
  pose proof (g_base_FastWriteNocopy_sim St meth (fun _ => []) true (anymeth_ok meth) m ord lg cl ad b st Hb H1 H2 H3 H4 Hord) as S.
  change (hw St (fun _ => []) true st) with (@None (list dpair)) in S.
  fold (gbase lg cl ad m ord) in S. fold p in S. rewrite (base_nil_writer thr p b Hl) in S. cbn [fw_sim] in S.
  destruct S as (st' & S & _). exists st'. exact S.
Qed.

Theorem g_C15_nil_writer_identical_baseresp {St} (meth : St -> bytes -> Z -> res (St * gerror)) st ms cd m ord (b : bytes) :
  let p := gresp ms cd m ord in
  gmap_order_ok m ord -> glen_ok b -> baseresp_blength p <= len b ->
  exists st',
    g_base_BaseResp_FastWriteNocopy St meth false ms cd m b true st ord
    = Ok (ms, cd, m, baseresp_stream p ++ drop (len (baseresp_stream p)) b, st', Z.of_N (len (baseresp_stream p))).
Proof.
  intros p Hord Hb Hl. destruct (resp_small ms cd m ord b Hord Hl Hb) as (H1 & H4).
  pose proof (g_baseresp_FastWriteNocopy_sim St meth (fun _ => []) true (anymeth_ok meth) m ord ms cd b st Hb H1 H4 Hord) as S.
  change (hw St (fun _ => []) true st) with (@None (list dpair)) in S.
  fold (gresp ms cd m ord) in S. fold p in S. rewrite (baseresp_nil_writer thr p b Hl) in S. cbn [fw_sim] in S.
  destruct S as (st' & S & _). exists st'. exact S.
Qed.

(* a writer is attached but no string reaches the threshold: byte-identical, nothing handed over *)
Theorem g_C15_below_threshold_identical lg cl ad m ord (b : bytes) log :
  let p := gbase lg cl ad m ord in
  gmap_order_ok m ord -> glen_ok b -> base_blength p <= len b -> large thr (base_strings p) = [] ->
  g_base_Base_FastWriteNocopy (list dpair) xwd false lg cl ad m b false log ord
  = Ok (lg, cl, ad, m, base_stream p ++ drop (len (base_stream p)) b, log, Z.of_N (len (base_stream p))).
Proof.
  intros p Hord Hb Hl Hs. apply (g_base_nocopy_ok lg cl ad m ord b log _ _ _ Hord Hb Hl).
  apply (base_small_identical thr p b log Hl Hs).
Qed.

Theorem g_C15_below_threshold_identical_baseresp ms cd m ord (b : bytes) log :
  let p := gresp ms cd m ord in
  gmap_order_ok m ord -> glen_ok b -> baseresp_blength p <= len b -> large thr (baseresp_strings p) = [] ->
  g_base_BaseResp_FastWriteNocopy (list dpair) xwd false ms cd m b false log ord
  = Ok (ms, cd, m, baseresp_stream p ++ drop (len (baseresp_stream p)) b, log, Z.of_N (len (baseresp_stream p))).
Proof.
  intros p Hord Hb Hl Hs. apply (g_baseresp_nocopy_ok ms cd m ord b log _ _ _ Hord Hb Hl).
  apply (baseresp_small_identical thr p b log Hl Hs).
Qed.

(* ---------- C11_blen_eq: BLength = number of bytes written = length of the stream, every order ---------- *)
Theorem g_C11_blen_eq_base lg cl ad m ord (b : bytes) :
  let p := gbase lg cl ad m ord in
  gmap_order_ok m ord -> glen_ok b -> base_blength p <= len b ->
  g_base_Base_BLength false lg cl ad m ord = Ok (lg, cl, ad, m, Z.of_N (len (base_stream p))) /\
  g_base_Base_FastWrite false lg cl ad m b ord
  = Ok (lg, cl, ad, m, base_stream p ++ drop (len (base_stream p)) b, Z.of_N (len (base_stream p))).
Proof.
  intros p Hord Hb Hl. split.
  - rewrite <- base_blength_eq. apply g_base_BLength_eq. fold (gbase lg cl ad m ord). fold p. unfold glen_ok, glen in Hb. lia.
  - apply (g_base_write_ok lg cl ad m ord b _ _ Hord Hb Hl). fold p. rewrite (base_write_ok thr p b Hl). rewrite base_blength_eq. reflexivity.
Qed.

Theorem g_C11_blen_eq_baseresp ms cd m ord (b : bytes) :
  let p := gresp ms cd m ord in
  gmap_order_ok m ord -> glen_ok b -> baseresp_blength p <= len b ->
  g_base_BaseResp_BLength false ms cd m ord = Ok (ms, cd, m, Z.of_N (len (baseresp_stream p))) /\
  g_base_BaseResp_FastWrite false ms cd m b ord
  = Ok (ms, cd, m, baseresp_stream p ++ drop (len (baseresp_stream p)) b, Z.of_N (len (baseresp_stream p))).
Proof.
  intros p Hord Hb Hl. split.
  - rewrite <- baseresp_blength_eq. apply g_baseresp_BLength_eq. fold (gresp ms cd m ord). fold p. unfold glen_ok, glen in Hb. lia.
  - apply (g_baseresp_write_ok ms cd m ord b _ _ Hord Hb Hl). fold p. rewrite (baseresp_write_ok thr p b Hl). rewrite baseresp_blength_eq. reflexivity.
Qed.

(* BLength does not depend on the order in which ITS range statement enumerates the map *)
Lemma ordered_entries_perm (m : gmap bytes bytes) o1 o2 :
  Permutation o1 o2 -> Permutation (ordered_entries beqb [] m o1) (ordered_entries beqb [] m o2).
Proof. intros H. unfold ordered_entries. apply Permutation_map. exact H. Qed.

Theorem g_C11_blen_any_order lg cl ad ms cd m ord ord' :
  gmap_order_ok m ord -> gmap_order_ok m ord' ->
  (Z.of_N (base_blength (gbase lg cl ad m ord)) < 2 ^ 63)%Z -> (Z.of_N (baseresp_blength (gresp ms cd m ord)) < 2 ^ 63)%Z ->
  g_base_Base_BLength false lg cl ad m ord = g_base_Base_BLength false lg cl ad m ord' /\
  g_base_BaseResp_BLength false ms cd m ord = g_base_BaseResp_BLength false ms cd m ord'.
Proof.
  intros H1 H2 B1 B2. pose proof (gmap_orders_perm m ord ord' H1 H2) as HP.
  assert (base_blength (gbase lg cl ad m ord) = base_blength (gbase lg cl ad m ord')) as E1.
  { unfold gbase. destruct m as [l|]; cbn [ordered_map]; [|reflexivity].
    apply (base_blength_perm {| b_logid := lg; b_caller := cl; b_addr := ad; b_extra := None |} _ _ (ordered_entries_perm (Some l) _ _ HP)). }
  assert (baseresp_blength (gresp ms cd m ord) = baseresp_blength (gresp ms cd m ord')) as E2.
  { unfold gresp. destruct m as [l|]; cbn [ordered_map]; [|reflexivity].
    apply (baseresp_blength_perm {| r_msg := ms; r_code := cd; r_extra := None |} _ _ (ordered_entries_perm (Some l) _ _ HP)). }
  split.
  - rewrite (g_base_BLength_eq m ord lg cl ad B1). fold (gbase lg cl ad m ord). rewrite E1.
    symmetry. apply g_base_BLength_eq. fold (gbase lg cl ad m ord'). rewrite <- E1. exact B1.
  - rewrite (g_baseresp_BLength_eq m ord ms cd B2). fold (gresp ms cd m ord). rewrite E2.
    symmetry. apply g_baseresp_BLength_eq. fold (gresp ms cd m ord'). rewrite <- E2. exact B2.
Qed.

(* nil receivers: one STOP byte *)
Theorem g_C11_nil_receiver lg cl ad ms cd m ord (b : bytes) :
  1 <= len b ->
  g_base_Base_BLength true lg cl ad m ord = Ok (lg, cl, ad, m, 1%Z) /\
  g_base_Base_FastWrite true lg cl ad m b ord = Ok (lg, cl, ad, m, [0] ++ drop 1 b, 1%Z) /\
  g_base_BaseResp_BLength true ms cd m ord = Ok (ms, cd, m, 1%Z) /\
  g_base_BaseResp_FastWrite true ms cd m b ord = Ok (ms, cd, m, [0] ++ drop 1 b, 1%Z).
Proof.
  intros H. split; [reflexivity|]. split; [|split; [reflexivity|]].
  - pose proof (g_base_FastWrite_nil m ord lg cl ad b) as S. rewrite (base_write_ok thr None b H) in S. exact S.
  - pose proof (g_baseresp_FastWrite_nil m ord ms cd b) as S. rewrite (baseresp_write_ok thr None b H) in S. exact S.
Qed.

(* ---------- C11_rt: what the regenerated FastWrite wrote into a buffer of exactly BLength bytes, the
   regenerated FastRead reads back into a zero-valued receiver ---------- *)
Section RT.
  Variable xs : bytes -> Z -> res (Z * gerror).
  Hypothesis xs_ok : forall sub t, wf sub -> sim Z.of_N (xs sub t) (skipf sub t).
  Variable en : bool.

  Theorem g_C11_rt_base fuel lg cl ad m ord (b : bytes) rest :
    let p := {| b_logid := lg; b_caller := cl; b_addr := ad; b_extra := ordered_map beqb [] m ord |} in
    gmap_order_ok m ord -> base_ok p -> len b = base_blength (Some p) ->
    wf (base_stream (Some p) ++ rest) -> glen_ok (b ++ rest) -> (S (length (b ++ rest)) < fuel)%nat ->
    exists bs ex',
      g_base_Base_FastWrite false lg cl ad m b ord = Ok (lg, cl, ad, m, bs, Z.of_N (len b)) /\ len bs = len b /\
      g_base_Base_FastRead xs fuel en false [] [] [] None (bs ++ rest) = Ok (lg, cl, ad, ex', Z.of_N (len b), gnil) /\
      mequiv ex' (ordered_map beqb [] m ord).
  Proof.
    intros p Hord Hok Hl W Hb Hf.
    assert (glen_ok b) as Hb1. { unfold glen_ok, glen in *. rewrite len_app in Hb. lia. }
    destruct (base_write_read thr p b rest Hok Hl) as (bs & E1 & E2 & E3).
    assert (bs = base_stream (Some p)) as ->.
    { rewrite (base_write_ok thr (Some p) b ltac:(lia)) in E1. apply ok_pair_inv in E1 as [E1 _].
      rewrite <- E1. apply exact_buf. rewrite <- base_blength_eq. exact Hl. }
    pose proof (g_base_write_ok lg cl ad m ord b _ _ Hord Hb1 ltac:(fold p; unfold gbase; fold p; lia) E1) as G.
    rewrite <- Hl in *.
    assert (len (base_stream (Some p)) = len b) as E4 by lia.
    destruct (g_base_read_ok xs xs_ok en fuel (base_stream (Some p) ++ rest) base_zero p (len b) W
                ltac:(unfold glen_ok, glen in *; rewrite len_app in *; lia)
                ltac:(rewrite app_length in *; unfold len in E4; lia) E3) as (ex' & R & Hm).
    exists (base_stream (Some p)), ex'. split; [exact G|]. split; [exact E4|]. split; [exact R|exact Hm].
  Qed.

  Theorem g_C11_rt_baseresp fuel ms cd m ord (b : bytes) rest :
    let p := {| r_msg := ms; r_code := cd; r_extra := ordered_map beqb [] m ord |} in
    gmap_order_ok m ord -> baseresp_ok p -> len b = baseresp_blength (Some p) ->
    wf (baseresp_stream (Some p) ++ rest) -> glen_ok (b ++ rest) -> (S (length (b ++ rest)) < fuel)%nat ->
    exists bs ex',
      g_base_BaseResp_FastWrite false ms cd m b ord = Ok (ms, cd, m, bs, Z.of_N (len b)) /\ len bs = len b /\
      g_base_BaseResp_FastRead xs fuel en false [] 0%Z None (bs ++ rest) = Ok (ms, cd, ex', Z.of_N (len b), gnil) /\
      mequiv ex' (ordered_map beqb [] m ord).
  Proof.
    intros p Hord Hok Hl W Hb Hf.
    assert (glen_ok b) as Hb1. { unfold glen_ok, glen in *. rewrite len_app in Hb. lia. }
    destruct (baseresp_write_read thr p b rest Hok Hl) as (bs & E1 & E2 & E3).
    assert (bs = baseresp_stream (Some p)) as ->.
    { rewrite (baseresp_write_ok thr (Some p) b ltac:(lia)) in E1. apply ok_pair_inv in E1 as [E1 _].
      rewrite <- E1. apply exact_buf. rewrite <- baseresp_blength_eq. exact Hl. }
    pose proof (g_baseresp_write_ok ms cd m ord b _ _ Hord Hb1 ltac:(fold p; unfold gresp; fold p; lia) E1) as G.
    rewrite <- Hl in *.
    assert (len (baseresp_stream (Some p)) = len b) as E4 by lia.
    destruct (g_baseresp_read_ok xs xs_ok en fuel (baseresp_stream (Some p) ++ rest) baseresp_zero p (len b) W
                ltac:(unfold glen_ok, glen in *; rewrite len_app in *; lia)
                ltac:(rewrite app_length in *; unfold len in E4; lia) E3) as (ex' & R & Hm).
    exists (baseresp_stream (Some p)), ex'. split; [exact G|]. split; [exact E4|]. split; [exact R|exact Hm].
  Qed.
End RT.

(* ---------- non-vacuity ---------- *)
(* a map with a re-assigned key (two assignments of [6]), enumerated in the order [9]; [6]; threshold
   4096: the 4100-byte value goes to the direct writer, everything else is copied *)
Example g_nocopy_nonvacuous :
  let m : gmap bytes bytes := Some [([6], [7; 7]); ([9], repeat 1 4100); ([6], [8])] in
  let ord := [[9]; [6]] in
  gmap_order_ok m ord /\
  ordered_map beqb [] m ord = Some [([9], repeat 1 4100); ([6], [7; 7])] /\
  g_base_Base_BLength false [1; 2] [3] [] m ord = Ok ([1; 2], [3], [], m, 4154%Z) /\
  (exists lin pairs, g_base_Base_FastWriteNocopy (list dpair) xwd false [1; 2] [3] [] m (repeat 238 4160) false [] ord
                     = Ok ([1; 2], [3], [], m, lin, pairs, 54%Z) /\ map fst pairs = [repeat 1 4100]) /\
  (exists b', g_base_Base_FastWrite false [1; 2] [3] [] m (repeat 238 4160) ord = Ok ([1; 2], [3], [], m, b', 4154%Z)) /\
  (exists w, g_base_Base_FastWrite false [1; 2] [3] [] m (repeat 238 4153) ord = Panic w) /\
  g_base_BaseResp_FastWrite true [] 0%Z None [5; 5] [] = Ok ([], 0%Z, None, [0; 5], 1%Z).
Proof.
  cbv zeta. split.
  { split; [repeat constructor; cbn; intuition discriminate|]. intros k. cbn. intuition. }
  split; [reflexivity|]. split; [vm_compute; reflexivity|].
  split; [eexists; eexists; split; vm_compute; reflexivity|].
  split; [eexists; vm_compute; reflexivity|]. split; [eexists; vm_compute; reflexivity|]. vm_compute. reflexivity.
Qed.
