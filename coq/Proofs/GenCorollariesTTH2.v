(* Proofs/GenCorollariesTTH2.v — the headline facts of C10 (Properties/C10.v: decode total,
   success exactly on the frames the layout admits, the values of a success, the section reader
   against the section grammar) restated for the definitions REGENERATED FROM THE GO SOURCE on
   every run (Gen/Funcs.v: g_ttheader_Decode, g_ttheader_readKVInfo and the loops and section
   readers below them), by rewriting with Proofs/GenEquivTTH2.v.

   [g_decode er fuel b] is the generated Decode over a reader that can deliver exactly the bytes
   [b] ([rd_next er]: Next(n) fails with the error [er], consuming nothing, when fewer than n
   bytes are left), started with all of [b] left and nothing consumed.  Its result is
   (reader state = (bytes left, bytes consumed), Flags, SeqID, ProtocolID, IntInfo, StrInfo,
   HeaderLen, PayloadLen, err).  Hypotheses: [wf b] (elements are bytes), [glen_ok b] (the
   length fits in int: true of every Go slice), and ANY fuel above [length b]. *)
From GV Require Import Lib.Bytes Lib.Res Lib.GoSem Gen.Consts Gen.Funcs Model.TTHeader Spec.FrameLayout
     Proofs.TTHeaderLib Proofs.TTHeaderSec Proofs.TTHeaderDec Proofs.TTHeaderP Proofs.GenLib
     Proofs.GenEquivTTH Proofs.GenEquivTTH2.
From Coq Require Import ZifyN ZifyNat ZifyBool.
Open Scope N_scope.

Definition g_decode (er : Z) (fuel : nat) (b : bytes) : res dres :=
  g_ttheader_Decode (bytes * N) (rd_next er) fuel (b, 0).

(* no panic, no out-of-bounds access, no exhausted fuel; never more consumed than the input
   holds nor than 14 + the declared size; the reader is left at exactly that position *)
Theorem g_decode_total er b fuel :
  wf b -> glen_ok b -> (length b < fuel)%nat ->
  match g_decode er fuel b with
  | Ok (st, _, _, _, _, _, _, _, _) =>
    snd st <= N.min (len b) (L_meta + declared b) /\ fst st = drop (snd st) b
  | Err _ | Panic _ | OOB => False
  end.
Proof.
  intros W Hb Hf. pose proof (g_ttheader_Decode_sim er b fuel W Hb Hf) as S.
  destruct (p_decode_total b) as (Hs & _ & Hc). unfold dec_sim in S. fold (g_decode er fuel b) in S.
  destruct (snd (decode b)) as [r|e|w|]; cbn in Hs; try contradiction.
  - rewrite S. cbn [fst snd]. split; [exact Hc|reflexivity].
  - destruct S as (fl & sq & pid & im & sm & hl & pl & S). rewrite S. cbn [fst snd]. split; [exact Hc|reflexivity].
Qed.

(* success (a nil error) exactly on the frames the layout admits *)
Theorem g_decode_ok_iff er b fuel :
  wf b -> glen_ok b -> (length b < fuel)%nat ->
  ((exists st fl sq pid im sm hl pl, g_decode er fuel b = Ok (st, fl, sq, pid, im, sm, hl, pl, gnil)) <-> accepts b).
Proof.
  intros W Hb Hf. pose proof (g_ttheader_Decode_sim er b fuel W Hb Hf) as S.
  unfold dec_sim in S. fold (g_decode er fuel b) in S.
  rewrite <- (decode_ok_iff b W). split.
  - intros (st & fl & sq & pid & im & sm & hl & pl & E). rewrite E in S.
    destruct (snd (decode b)) as [r|e|w|]; [eauto| |discriminate..].
    destruct S as (? & ? & ? & ? & ? & ? & ? & S). inversion S.
  - intros [r E]. rewrite E in S. rewrite S. repeat eexists.
Qed.

(* ... and then: everything declared is consumed, HeaderLen = 14 + declared, PayloadLen =
   total length + 4 - HeaderLen, flags / sequence id as in the frame, and for EVERY way of
   reading the info as protocol id, transform ids and sections, the protocol id and the two maps
   are the ones those sections denote *)
Theorem g_decode_ok_values er b fuel st fl sq pid im sm hl pl :
  wf b -> glen_ok b -> (length b < fuel)%nat ->
  g_decode er fuel b = Ok (st, fl, sq, pid, im, sm, hl, pl, gnil) ->
  st = (drop (L_meta + declared b) b, L_meta + declared b) /\
  hl = Z.of_N (L_meta + declared b) /\
  pl = (Z.of_N (field_at b 0 4) + 4 - hl)%Z /\
  fl = Z.of_N (field_at b 6 2) /\ sq = to_signed 32 (field_at b 8 4) /\
  forall pid' nt rest secs,
    info_of b = pid' :: nt :: rest -> secs_ok secs -> drop nt rest = enc_secs secs ->
    pid = Z.of_N pid' /\ im = option_map zk (fst (ointerp secs)) /\ sm = snd (ointerp secs).
Proof.
  intros W Hb Hf E. pose proof (g_ttheader_Decode_sim er b fuel W Hb Hf) as S.
  unfold dec_sim in S. fold (g_decode er fuel b) in S. rewrite E in S.
  destruct (snd (decode b)) as [r|e|w|] eqn:Ed; [| |discriminate..].
  2:{ destruct S as (? & ? & ? & ? & ? & ? & ? & S). inversion S. }
  destruct (p_decode_ok_values b r W Ed) as (Hc & Hh & Hp & Hfl & Hsq & Hsec).
  inversion S; subst. clear S. rewrite Hc.
  split; [reflexivity|]. split; [exact Hh|]. split; [exact Hp|]. split; [rewrite Hfl; reflexivity|].
  split; [exact Hsq|]. intros pid' nt rest secs Hi Hok Hd.
  destruct (Hsec _ _ _ _ Hi Hok Hd) as (P1 & P2 & P3). rewrite P1, P2, P3. repeat split.
Qed.

(* the section reader against the grammar (DESIGN A.6), both directions, from any index *)
Theorem g_sections_parse secs fuel buf idx :
  wf buf -> glen_ok buf -> idx <= len buf -> (length buf < fuel)%nat ->
  secs_ok secs -> drop idx buf = enc_secs secs ->
  g_ttheader_readKVInfo fuel (Z.of_N idx) buf = Ok (kvemb (ointerp secs), gnil).
Proof.
  intros W Hb Hi Hf Hok E. pose proof (g_ttheader_readKVInfo_sim fuel buf idx W Hb Hi Hf) as Sm.
  assert (Hl : (length (enc_secs secs) < S (length buf))%nat).
  { rewrite <- E. unfold drop. rewrite skipn_length. lia. }
  rewrite (kv_fwd secs (S (length buf)) buf idx None None Hok E Hl) in Sm. cbn [sim] in Sm.
  rewrite ointerp_spec in Sm. exact Sm.
Qed.

Theorem g_sections_only fuel buf idx r :
  wf buf -> glen_ok buf -> idx <= len buf -> (length buf < fuel)%nat ->
  g_ttheader_readKVInfo fuel (Z.of_N idx) buf = Ok (r, gnil) ->
  exists secs, secs_ok secs /\ drop idx buf = enc_secs secs /\ r = kvemb (ointerp secs).
Proof.
  intros W Hb Hi Hf E. pose proof (g_ttheader_readKVInfo_sim fuel buf idx W Hb Hi Hf) as Sm.
  rewrite E in Sm.
  destruct (read_kv_info (S (length buf)) buf idx None None) as [r'|e|w|] eqn:Ek; cbn [sim] in Sm;
    [|destruct Sm as [x Sx]; inversion Sx|discriminate..].
  destruct (kv_bwd _ _ _ _ _ _ W Ek) as (secs & Hok & Ed & Er).
  exists secs. rewrite ointerp_spec in Er. subst r'. inversion Sm. auto.
Qed.

(* a cut section, an unknown info id: the error classes of the hand model, told apart *)
Theorem g_sections_err fuel buf idx :
  wf buf -> glen_ok buf -> idx <= len buf -> (length buf < fuel)%nat ->
  match g_ttheader_readKVInfo fuel (Z.of_N idx) buf with
  | Ok (_, None) => True
  | Ok (_, Some e) => e = e_kv \/ e = e_infoid
  | Err _ | Panic _ | OOB => False
  end.
Proof.
  intros W Hb Hi Hf. pose proof (g_ttheader_readKVInfo_sim fuel buf idx W Hb Hi Hf) as Sm.
  pose proof (kv_total (S (length buf)) buf idx None None Hi ltac:(unfold len in *; lia)) as [Hs Hnf].
  destruct (read_kv_info (S (length buf)) buf idx None None) as [r'|e|w|] eqn:Ek; cbn [sim] in Sm; cbn in Hs;
    try contradiction.
  - rewrite Sm. exact I.
  - destruct Sm as [x Sx]. rewrite Sx. destruct (read_kv_info_errs _ _ _ _ _ _ Ek) as [E1|[E1|E1]]; [tauto..|].
    exfalso. apply Hnf. rewrite E1. reflexivity.
Qed.

(* non-vacuity: the example frame of Properties/C10.v through the generated Decode, and frames it rejects *)
Example g_decode_nonvacuous :
  let fr sf info := be 4 100 ++ be 2 L_magic16 ++ be 2 0 ++ be 4 1 ++ be 2 sf ++ info in
  (exists st, g_decode 2 40%nat (fr 2 [0; 0; 1; 0; 1; 0; 1; 97]) =
              Ok (st, 0%Z, 1%Z, 0%Z, None, Some [], 0%Z, 0%Z, Some e_kv)) /\
  (exists st, g_decode 2 40%nat (fr 3 [4; 1; 9; 16; 0; 1; 0; 7; 0; 1; 120; 0]) =
              Ok (st, 0%Z, 1%Z, 4%Z, Some [(7%Z, [120])], None, 26%Z, 78%Z, gnil)) /\
  g_decode 2 40%nat [0; 0; 0; 0; 16; 0] = Ok (([0; 0; 0; 0; 16; 0], 0), 0%Z, 0%Z, 0%Z, None, None, 0%Z, 0%Z, Some 2%Z) /\
  g_decode 2 2%nat (fr 3 [4; 1; 9; 16; 0; 1; 0; 7; 0; 1; 120; 0]) = Err gfuel.
Proof. vm_compute. repeat split; eexists; reflexivity. Qed.
