(* Proofs/ErrTypesP.v — C17: every error the reader models return carries the type id its cause
   demands (in-memory readers of Model/Binary.v), and every failure of the stream reader that
   comes from the underlying reader wraps that reader's error (Model/ErrTypes.v). *)
From GV Require Import Lib.Bytes Lib.Res Gen.Consts Model.Binary Model.BufReader Model.ErrTypes Spec.ErrKinds.
From Coq Require Import ZifyN ZifyNat ZifyBool Lia.
Open Scope N_scope.

(* the Thrift protocol-exception codes the property names, and the type id of every predeclared
   error of binary.go / exception.go, as the Go source has them now *)
Lemma consts_ok_errtypes :
  thrift_INVALID_DATA = 1%Z /\ thrift_NEGATIVE_SIZE = 2%Z /\ thrift_BAD_VERSION = 4%Z /\
  thrift_DEPTH_LIMIT = 6%Z /\ thrift_UNKNOWN_PROTOCOL_EXCEPTION = 0%Z.
Proof. repeat split; reflexivity. Qed.

Lemma etype_values :
  etype e_read_message = thrift_INVALID_DATA /\ etype e_bad_version = thrift_BAD_VERSION /\
  etype e_read_field = thrift_INVALID_DATA /\ etype e_read_map = thrift_INVALID_DATA /\
  etype e_read_list = thrift_INVALID_DATA /\ etype e_read_set = thrift_INVALID_DATA /\
  etype e_read_str = thrift_INVALID_DATA /\ etype e_read_bin = thrift_INVALID_DATA /\
  etype e_read_bool = thrift_INVALID_DATA /\ etype e_read_byte = thrift_INVALID_DATA /\
  etype e_read_i16 = thrift_INVALID_DATA /\ etype e_read_i32 = thrift_INVALID_DATA /\
  etype e_read_i64 = thrift_INVALID_DATA /\ etype e_read_double = thrift_INVALID_DATA /\
  etype e_depth = thrift_DEPTH_LIMIT /\ etype e_too_short = thrift_INVALID_DATA /\
  etype e_neg_size = thrift_NEGATIVE_SIZE /\ etype e_unknown_type = thrift_INVALID_DATA.
Proof. repeat split; reflexivity. Qed.

(* ---------- in-memory readers ---------- *)
Lemma need_cases buf k e :
  (len buf < k /\ need buf k e = Err e) \/ (k <= len buf /\ need buf k e = Ok tt).
Proof. unfold need. destruct (N.ltb_spec (len buf) k); [left|right]; split; auto. Qed.

Definition classified {A} (rc : option cause) (r : res A) : Prop :=
  match rc with
  | None => exists v, r = Ok v
  | Some cz => exists c, r = Err c /\ etype c = cause_type cz
  end.

Ltac fixed_kind n :=
  match goal with |- context [need ?buf ?k ?e] =>
    destruct (need_cases buf k e) as [[Hlt ->]|[Hge ->]];
    [destruct (N.ltb_spec (len buf) n) as [_|Hc]; [eexists; split; reflexivity|lia]
    |destruct (N.ltb_spec (len buf) n) as [Hc|_]; [lia|eexists; reflexivity]]
  end.

Lemma r_binary_gen_classified e buf :
  etype e = thrift_INVALID_DATA ->
  classified (ref_str buf) (r_binary_gen e buf).
Proof.
  intros He. unfold ref_str, r_binary_gen, r_i32, classified.
  destruct (need_cases buf 4 e_read_i32) as [[Hlt ->]|[Hge ->]]; cbn [bind].
  - destruct (N.ltb_spec (len buf) 4) as [_|Hc]; [|lia]. eexists; split; [reflexivity|exact He].
  - destruct (N.ltb_spec (len buf) 4) as [Hc|_]; [lia|].
    unfold i32. set (sz := to_signed 32 (unbe (take 4 buf))).
    destruct (Z.ltb_spec sz 0).
    + eexists; split; reflexivity.
    + destruct (N.ltb_spec (len buf) (4 + Z.to_N sz)).
      * eexists; split; [reflexivity|exact He].
      * eexists; reflexivity.
Qed.

(* every item reader: success exactly on a complete item; otherwise an error whose type id is
   the one the cause demands (truncation -> INVALID_DATA, negative length -> NEGATIVE_SIZE);
   never a panic *)
Lemma r_item_classified k buf : classified (ref_cause k buf) (r_item k buf).
Proof.
  destruct k; unfold ref_cause, fixed_size, r_item, classified;
    try (unfold r_bool, r_byte, r_i16, r_i32, r_i64, r_double, r_map_begin, r_list_begin, r_set_begin, r_list_begin_gen;
         cbn [bind];
         match goal with |- context [need ?buf ?k ?e] =>
           destruct (need_cases buf k e) as [[Hlt ->]|[Hge ->]]; cbn [bind];
           [destruct (N.ltb_spec (len buf) k) as [_|Hc]; [eexists; split; reflexivity|lia]
           |destruct (N.ltb_spec (len buf) k) as [Hc|_]; [lia|eexists; reflexivity]]
         end).
  - (* binary *)
    pose proof (r_binary_gen_classified e_read_bin buf eq_refl) as H. unfold r_binary, classified in *.
    destruct (ref_str buf) as [cz|].
    + destruct H as [c [-> Hc]]. cbn [bind]. eexists; split; [reflexivity|exact Hc].
    + destruct H as [[v n] ->]. cbn [bind]. eexists; reflexivity.
  - (* string *)
    pose proof (r_binary_gen_classified e_read_str buf eq_refl) as H. unfold r_string, classified in *.
    destruct (ref_str buf) as [cz|].
    + destruct H as [c [-> Hc]]. cbn [bind]. eexists; split; [reflexivity|exact Hc].
    + destruct H as [[v n] ->]. cbn [bind]. eexists; reflexivity.
  - (* field begin *)
    unfold r_field_begin.
    destruct (need_cases buf 1 e_read_field) as [[Hlt ->]|[Hge ->]]; cbn [bind].
    + destruct (N.ltb_spec (len buf) 1) as [_|Hc]; [eexists; split; reflexivity|lia].
    + destruct (N.ltb_spec (len buf) 1) as [Hc|_]; [lia|].
      unfold i8. change thrift_STOP with 0%Z. destruct (Z.eqb_spec (to_signed 8 (nth 0 buf 0)) 0) as [Es|Ens].
      * cbn [bind]. eexists; reflexivity.
      * destruct (need_cases buf 3 e_read_field) as [[Hlt ->]|[Hge3 ->]]; cbn [bind].
        -- destruct (N.ltb_spec (len buf) 3) as [_|Hc]; [eexists; split; reflexivity|lia].
        -- destruct (N.ltb_spec (len buf) 3) as [Hc|_]; [lia|eexists; reflexivity].
Qed.

Lemma r_item_err_cause k buf c :
  r_item k buf = Err c -> exists cz, ref_cause k buf = Some cz /\ etype c = cause_type cz.
Proof.
  intros E. pose proof (r_item_classified k buf) as H. unfold classified in H.
  destruct (ref_cause k buf) as [cz|].
  - destruct H as [c' [E' Hc]]. rewrite E in E'. inversion E'; subst c'. now exists cz.
  - destruct H as [v E']. congruence.
Qed.

Lemma r_item_ok_iff k buf : ref_cause k buf = None <-> exists v, r_item k buf = Ok v.
Proof.
  pose proof (r_item_classified k buf) as H. unfold classified in H. split.
  - intros E. now rewrite E in H.
  - intros [v E]. destruct (ref_cause k buf) as [cz|]; [|reflexivity].
    destruct H as [c [E' _]]. congruence.
Qed.

Lemma r_item_safe k buf : safe (r_item k buf).
Proof.
  pose proof (r_item_classified k buf) as H. unfold classified in H.
  destruct (ref_cause k buf) as [cz|]; [destruct H as [c [-> _]]|destruct H as [v ->]]; exact I.
Qed.

(* ---------- ReadMessageBegin ---------- *)
Lemma len_drop_le {A} n (l : list A) : len (drop n l) = len l - n.
Proof. unfold drop, len. rewrite skipn_length. lia. Qed.

Lemma slice_from_ok' {A} (b : list A) off : off <= len b -> slice_from b off = Ok (drop off b).
Proof. intros H. unfold slice_from. destruct (N.leb_spec off (len b)); [reflexivity|lia]. Qed.

(* what Binary.ReadMessageBegin returns for each cause: the type id the cause demands (a negative
   name length is NEGATIVE_SIZE since the repair of /repo 0c7ba6f; before it was INVALID_DATA) *)
Lemma r_message_begin_classified buf : classified (ref_msg buf) (r_message_begin buf).
Proof.
  unfold ref_msg, r_message_begin, classified.
  destruct (N.ltb_spec (len buf) 4) as [Hs|Hs]; [eexists; split; reflexivity|].
  change (Z.to_N thrift_msgVersionMask) with 4294901760. change (Z.to_N thrift_msgVersion1) with 2147549184.
  destruct (negb (N.land (unbe (take 4 buf)) 4294901760 =? 2147549184));
    [eexists; split; reflexivity|].
  rewrite slice_from_ok' by lia. cbn [bind].
  unfold ref_str, r_string, r_binary_gen, r_i32.
  destruct (need_cases (drop 4 buf) 4 e_read_i32) as [[Hlt ->]|[Hge ->]]; cbn [bind to_msg_err_name].
  - destruct (N.ltb_spec (len (drop 4 buf)) 4) as [_|Hc]; [|lia].
    change (e_read_str =? e_neg_size)%Z with false. cbv iota. eexists; split; reflexivity.
  - destruct (N.ltb_spec (len (drop 4 buf)) 4) as [Hc|_]; [lia|].
    unfold i32. set (sz := to_signed 32 (unbe (take 4 (drop 4 buf)))).
    destruct (Z.ltb_spec sz 0) as [Hneg|Hpos]; cbn [to_msg_err_name].
    + change (e_neg_size =? e_neg_size)%Z with true. cbv iota. eexists; split; reflexivity.
    + rewrite len_drop_le in *.
      destruct (N.ltb_spec (len buf - 4) (4 + Z.to_N sz)) as [Hc|Hc]; cbn [to_msg_err_name bind].
      * change (e_read_str =? e_neg_size)%Z with false. cbv iota. eexists; split; reflexivity.
      * rewrite slice_from_ok' by lia. cbn [bind].
        destruct (need_cases (drop (4 + (4 + Z.to_N sz)) buf) 4 e_read_i32) as [[Hlt ->]|[Hge2 ->]];
          cbn [bind to_msg_err]; rewrite len_drop_le in *.
        -- destruct (N.ltb_spec (len buf) (4 + (4 + Z.to_N sz) + 4)) as [_|Hc2]; [|lia]. eexists; split; reflexivity.
        -- destruct (N.ltb_spec (len buf) (4 + (4 + Z.to_N sz) + 4)) as [Hc2|_]; [lia|]. eexists; reflexivity.
Qed.

(* the full statement the property asks for: every error of Binary.ReadMessageBegin carries the
   type id of its cause *)
Definition msg_err_typed_statement : Prop :=
  forall buf c, r_message_begin buf = Err c ->
    exists cz, ref_msg buf = Some cz /\ etype c = cause_type cz.

Lemma msg_err_typed : msg_err_typed_statement.
Proof.
  intros buf c E. pose proof (r_message_begin_classified buf) as H. unfold classified in H.
  destruct (ref_msg buf) as [cz|].
  - destruct H as [c' [E' Hc]]. rewrite E in E'. inversion E'; subst c'. exists cz. split; [reflexivity|exact Hc].
  - destruct H as [v E']. congruence.
Qed.

(* regression of the repaired defect: version 1, CALL, name length -1 is NEGATIVE_SIZE *)
Lemma msg_negative_name_regression :
  r_message_begin [128; 1; 0; 1; 255; 255; 255; 255] = Err e_neg_size /\ etype e_neg_size = thrift_NEGATIVE_SIZE.
Proof. split; vm_compute; reflexivity. Qed.

Lemma msg_ok_iff buf : ref_msg buf = None <-> exists v, r_message_begin buf = Ok v.
Proof.
  pose proof (r_message_begin_classified buf) as H. unfold classified in H. split.
  - intros E. now rewrite E in H.
  - intros [v E]. destruct (ref_msg buf) as [cz|]; [|reflexivity]. destruct H as [c [E' _]]. congruence.
Qed.

(* ---------- the stream reader ---------- *)
Lemma s_wrap_matches x : s_is (SWrap x) x = true /\ s_unwrap (SWrap x) = Some x /\
                         s_typeid (SWrap x) = thrift_UNKNOWN_PROTOCOL_EXCEPTION.
Proof. repeat split. unfold s_is. apply Z.eqb_refl. Qed.

Lemma advance_rerr st n : rerr (advance st n) = rerr st.
Proof. reflexivity. Qed.

(* r.next(n), n >= 0: a failure wraps the bufiox reader's (sticky) error *)
Lemma s_next_err st n st' e :
  (0 <= n)%Z -> s_next st n = (st', SErr e) -> exists x, e = SWrap x /\ rerr st' = Some x.
Proof.
  intros Hn. unfold s_next, r_next. destruct (Z.ltb_spec n 0); [lia|].
  destruct (acquire st (Z.to_N n)) as [sa m]. destruct (m <? Z.to_N n).
  - unfold fail_out. destruct (rerr sa) as [x|] eqn:Ex; intros E; inversion E; subst. now exists x.
  - intros E. inversion E.
Qed.

Lemma s_skip_ok_err r st' e : s_skip_ok r = (st', SErr e) -> r = (st', SErr e).
Proof. destruct r as [st [a|e0|]]; cbn; intros E; inversion E; reflexivity. Qed.

Definition wraps_reader (st' : rstate) (e : serr) : Prop := exists x, e = SWrap x /\ rerr st' = Some x.

Lemma s_binary_err st st' e :
  s_binary st = (st', SErr e) -> e = SProto thrift_NEGATIVE_SIZE \/ wraps_reader st' e.
Proof.
  unfold s_binary. destruct (s_next st 4) as [st1 [b|e1|]] eqn:E1.
  - destruct (i32 (unbe b) <? 0)%Z.
    + intros E. inversion E. left. reflexivity.
    + unfold r_readbinary. destruct (acquire st1 (Z.to_N (i32 (unbe b)))) as [sa m].
      destruct (m <? Z.to_N (i32 (unbe b))).
      * destruct (rerr sa) as [x|] eqn:Ex; intros E; inversion E; subst. right. exists x. split; [reflexivity|].
        now rewrite advance_rerr.
      * intros E. inversion E.
  - intros E. inversion E; subst. right. apply (s_next_err st 4 st' e); [lia|assumption].
  - intros E. inversion E.
Qed.

(* every failure of an item reader of the stream reader: NEGATIVE_SIZE (binary/string only), or
   the bufiox reader's error wrapped (so errors.Is finds it) *)
Lemma s_item_err k st st' e :
  s_item k st = (st', SErr e) ->
  (e = SProto thrift_NEGATIVE_SIZE /\ (k = KBinary \/ k = KString)) \/ wraps_reader st' e.
Proof.
  destruct k; cbn [s_item]; intros E;
    try (apply s_skip_ok_err in E; right; eapply s_next_err; [|exact E]; lia).
  - destruct (s_binary_err _ _ _ E); auto.
  - destruct (s_binary_err _ _ _ E); auto.
  - unfold s_field_begin in E. destruct (s_next st 1) as [st1 [b|e1|]] eqn:E1.
    + destruct (Z.eqb (i8 (nth 0 b 0)) thrift_STOP); [inversion E|].
      apply s_skip_ok_err in E. right. eapply s_next_err; [|exact E]. lia.
    + inversion E; subst. right. eapply s_next_err; [|exact E1]. lia.
    + inversion E.
Qed.

Lemma s_message_begin_err st st' e :
  s_message_begin st = (st', SErr e) ->
  e = SProto thrift_BAD_VERSION \/ e = SProto thrift_NEGATIVE_SIZE \/ wraps_reader st' e.
Proof.
  unfold s_message_begin. destruct (s_next st 4) as [st1 [b|e1|]] eqn:E1.
  - destruct (negb _).
    + intros E. inversion E. left. reflexivity.
    + destruct (s_binary st1) as [st2 [u|e2|]] eqn:E2.
      * intros E. apply s_skip_ok_err in E. right. right. eapply s_next_err; [|exact E]. lia.
      * intros E. inversion E; subst. destruct (s_binary_err _ _ _ E2); auto.
      * intros E. inversion E.
  - intros E. inversion E; subst. right. right. eapply s_next_err; [|exact E1]. lia.
  - intros E. inversion E.
Qed.
