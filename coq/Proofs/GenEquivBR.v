(* Proofs/GenEquivBR.v — BufferReader.Skip / skipType / skipstr / skipn / next and the header
   readers ReadI32 / ReadFieldBegin / ReadMapBegin / ReadListBegin (protocol/thrift/bufferreader.go)
   as REGENERATED from the Go source (Gen/Funcs.v, tools/gotrans phase 2: the receiver
   *BufferReader is a struct of one abstract object, the bufiox.Reader r.r, whose methods Next and
   Skip are parameters) are equal to the hand-written models of Model/StreamSkip.v (br_next,
   br_skipn, br_read_u32, br_skipstr, br_field_begin, br_map_begin, br_list_begin, brskip, br_skip)
   over the bufiox reader model Model/BufReader.v (r_next, r_skip), the ones the theorems of
   C02 / C08 are about.

   Statement form: as in Proofs/GenEquivSkip.v ([ssim]: final reader state and error / nil;
   panics alike, codes aside; the hand model must not run out of ITS fuel, which the instance
   theorems exclude; ALL recursion fuel above the depth budget and ALL loop fuel above the hand
   model's).  The bytes Next returns must be bytes (< 256): from the states of an invariant [Inv]
   that r_next / r_skip preserve; discharged at the end for the invariant of Proofs/BufReaderP.v
   ("the reader state represents the wf data D at some cursor"). *)
From GV Require Import Lib.Bytes Lib.Res Lib.GoSem Gen.Consts Gen.Funcs Model.Binary Model.BufReader Model.Skip
     Model.StreamSkip Spec.Cursor Proofs.BufReaderP Proofs.GenLib Proofs.GenEquivSkip.
From Coq Require Import ZifyN ZifyNat ZifyBool.
Open Scope N_scope.

Lemma ecode_br_ok :
  ecode "thrift.skipType#thrift.NewProtocolException" = e_unknown_type /\
  (forall e, gwrapped e = e_wrap e).
Proof. split; reflexivity. Qed.

Lemma br_site_unsigned : tts_signed SBufferReader = false.
Proof. reflexivity. Qed.

(* the models of r.r.Next / r.r.Skip the generated definitions are applied to *)
Definition mNext (st : rstate) (n : Z) : res (rstate * bytes * gerror) :=
  match r_next st n with
  | (st', OBytes b) => Ok (st', b, gnil)
  | (st', OErr e) => Ok (st', (nil : bytes), Some e)
  | (st', ONil) => Ok (st', (nil : bytes), gnil)
  | (_, _) => Panic 9
  end.
Definition mSkip (st : rstate) (n : Z) : res (rstate * gerror) :=
  match r_skip st n with
  | (st', OUnit) => Ok (st', gnil)
  | (st', OErr e) => Ok (st', Some e)
  | (_, _) => Panic 9
  end.

Lemma i32_nonneg_lt u : u < 4294967296 -> (0 <= i32 u)%Z -> u < 2147483648.
Proof.
  intros H. unfold i32, to_signed. change (2 ^ (32 - 1)) with 2147483648. change (Z.of_N (2 ^ 32)) with 4294967296%Z.
  destruct (N.ltb_spec u 2147483648); lia.
Qed.

Lemma br_skip_unfold st t : br_skip st t = brskip depth0 (r_fuel st) st t.
Proof. reflexivity. Qed.

Lemma depth0_64 : Z.of_nat depth0 = 64%Z.
Proof. reflexivity. Qed.

Notation ssim := (ssim rstate).
Notation nofuel := (nofuel rstate).
Notation lsim := (lsim rstate).

Section BR.
  Variable Inv : rstate -> Prop.
  Hypothesis next_inv : forall st n st' o, Inv st -> r_next st n = (st', o) -> Inv st'.
  Hypothesis next_wf : forall st n st' b, Inv st -> r_next st n = (st', OBytes b) -> wf b.
  Hypothesis skip_inv : forall st n st' o, Inv st -> r_skip st n = (st', o) -> Inv st'.

  Notation g_next := (g_thrift_BufferReader_next rstate mNext).
  Notation g_skipn := (g_thrift_BufferReader_skipn rstate mSkip).
  Notation g_ReadI32 := (g_thrift_BufferReader_ReadI32 rstate mNext).
  Notation g_skipstr := (g_thrift_BufferReader_skipstr rstate mNext mSkip).
  Notation g_ReadFieldBegin := (g_thrift_BufferReader_ReadFieldBegin rstate mNext).
  Notation g_ReadMapBegin := (g_thrift_BufferReader_ReadMapBegin rstate mNext).
  Notation g_ReadListBegin := (g_thrift_BufferReader_ReadListBegin rstate mNext).

  (* r.next(n) *)
  Lemma next_sim st n :
    Inv st ->
    match br_next st n with
    | (st', Ok b) => g_next st (Z.of_N n) = Ok (st', b, gnil) /\ wf b /\ Inv st'
    | (st', Err e) => exists x, g_next st (Z.of_N n) = Ok (st', x, Some e)
    | (_, Panic _) => exists w, g_next st (Z.of_N n) = Panic w
    | (_, OOB) => False
    end /\ Inv (fst (br_next st n)).
  Proof.
    intros Is. unfold br_next, g_thrift_BufferReader_next, mNext.
    destruct (r_next st (Z.of_N n)) as [st' o] eqn:E. pose proof (next_inv _ _ _ _ Is E) as Is'.
    destruct o; cbn [bind is_nil gnil negb gpe_wrap fst]; (split; [|exact Is']).
    - repeat split; [exact (next_wf _ _ _ _ Is E)|exact Is'].
    - repeat split; [constructor|exact Is'].
    - eexists; reflexivity.
    - eexists; reflexivity.
    - eexists; reflexivity.
    - eexists; reflexivity.
  Qed.

  (* r.skipn(n) *)
  Lemma skipn_sim st n : Inv st -> ssim (g_skipn st n) (br_skipn st n) /\ Inv (fst (br_skipn st n)).
  Proof.
    intros Is. unfold br_skipn, g_thrift_BufferReader_skipn, mSkip.
    destruct (Z.ltb_spec n 0); [split; [reflexivity|exact Is]|].
    destruct (r_skip st n) as [st' o] eqn:E. pose proof (skip_inv _ _ _ _ Is E) as Is'.
    destruct o; cbn [bind is_nil gnil negb gpe_wrap fst ssim]; (split; [|exact Is']); try reflexivity; eexists; reflexivity.
  Qed.

  (* ReadI32: the hand model returns the uint32 pattern, its callers apply int32(..) *)
  Lemma read_i32_sim st :
    Inv st ->
    match br_read_u32 st with
    | (st', Ok u) => g_ReadI32 st = Ok (st', i32 u, gnil) /\ u < 4294967296 /\ Inv st'
    | (st', Err e) => exists x, g_ReadI32 st = Ok (st', x, Some e)
    | (_, Panic _) => exists w, g_ReadI32 st = Panic w
    | (_, OOB) => False
    end /\ Inv (fst (br_read_u32 st)).
  Proof.
    intros Is. unfold br_read_u32, g_thrift_BufferReader_ReadI32.
    destruct (next_sim st 4 Is) as [S I1]. change (Z.of_N 4) with 4%Z in S.
    destruct (br_next st 4) as [st' [b|e|w|]]; cbn [sbind fst] in *; try contradiction.
    - destruct S as (S & Wb & Is'). rewrite S. cbn [bind is_nil gnil negb].
      pose proof (gbe_load4_skip b Wb) as L.
      destruct (Skip.be_u32 b) as [u|e|w|]; try contradiction; (split; [|exact Is']).
      + destruct L as [L Hu]. rewrite L. cbn [bind]. rewrite wraps_ts32 by exact Hu. repeat split; assumption.
      + destruct L as [w' L]. rewrite L. eexists; reflexivity.
    - split; [|exact I1]. destruct S as [x S]. rewrite S. cbn [bind is_nil negb]. eexists; reflexivity.
    - split; [|exact I1]. destruct S as [w' S]. rewrite S. eexists; reflexivity.
  Qed.

  (* r.skipstr() *)
  Lemma skipstr_sim st : Inv st -> ssim (g_skipstr st) (br_skipstr st) /\ Inv (fst (br_skipstr st)).
  Proof.
    intros Is. unfold br_skipstr, g_thrift_BufferReader_skipstr.
    destruct (read_i32_sim st Is) as [S I1].
    destruct (br_read_u32 st) as [st' [u|e|w|]]; cbn [sbind fst] in *; try contradiction.
    - destruct S as (S & Hu & Is'). rewrite S. cbn [bind is_nil gnil negb].
      destruct (skipn_sim st' (i32 u) Is') as [S2 I2]. split; [|exact I2].
      destruct (br_skipn st' (i32 u)) as [st2 [x|e|w|]]; cbn [ssim] in *.
      + rewrite S2. reflexivity.
      + rewrite S2. reflexivity.
      + destruct S2 as [w' S2]. rewrite S2. eexists; reflexivity.
      + rewrite S2. reflexivity.
    - split; [|exact I1]. destruct S as [x S]. rewrite S. reflexivity.
    - split; [|exact I1]. destruct S as [w' S]. rewrite S. eexists; reflexivity.
  Qed.

  Lemma gbe_load2_skip b :
    match Skip.be_u16 b with
    | Ok _ => exists z, gbe_load 2 b = Ok z
    | Panic _ => exists w, gbe_load 2 b = Panic w
    | _ => False
    end.
  Proof.
    unfold Skip.be_u16, gbe_load. change (N.of_nat 2) with 2.
    destruct (N.ltb_spec (len b) 2); eexists; reflexivity.
  Qed.

  (* ReadMapBegin *)
  Lemma map_begin_sim st :
    Inv st ->
    match br_map_begin st with
    | (st', Ok (kt, vt, u)) =>
      g_ReadMapBegin st = Ok (st', i8 kt, i8 vt, Z.of_N u, gnil) /\ kt < 256 /\ vt < 256 /\ u < 4294967296 /\ Inv st'
    | (st', Err e) => exists a b c, g_ReadMapBegin st = Ok (st', a, b, c, Some e)
    | (_, Panic _) => exists w, g_ReadMapBegin st = Panic w
    | (_, OOB) => False
    end /\ Inv (fst (br_map_begin st)).
  Proof.
    intros Is. unfold br_map_begin, g_thrift_BufferReader_ReadMapBegin.
    destruct (next_sim st 6 Is) as [S I1]. change (Z.of_N 6) with 6%Z in S.
    destruct (br_next st 6) as [st' [b|e|w|]]; cbn [sbind fst] in *; try contradiction.
    2:{ split; [|exact I1]. destruct S as [x S]. rewrite S. cbn [bind is_nil negb]. repeat eexists. }
    2:{ split; [|exact I1]. destruct S as [w' S]. rewrite S. eexists; reflexivity. }
    destruct S as (S & Wb & Is'). rewrite S. cbn [bind is_nil gnil negb]. split; [|exact Is'].
    change (gindex b 0) with (do x <- index b 0; Ok (Z.of_N x)).
    change (gindex b 1) with (do x <- index b 1; Ok (Z.of_N x)).
    change (gslice_from b 2) with (slice_from b 2).
    destruct (index b 0) as [kt|e|w|] eqn:Ek; cbn [bind];
      [|exfalso; exact (index_not_err _ _ _ Ek)|eexists; reflexivity|].
    2:{ unfold index in Ek. destruct (nth_error b (N.to_nat 0)); discriminate. }
    destruct (index b 1) as [vt|e|w|] eqn:Ev; cbn [bind];
      [|exfalso; exact (index_not_err _ _ _ Ev)|eexists; reflexivity|].
    2:{ unfold index in Ev. destruct (nth_error b (N.to_nat 1)); discriminate. }
    pose proof (index_wf b 0 kt Wb Ek) as Hkt. pose proof (index_wf b 1 vt Wb Ev) as Hvt.
    unfold slice_from. destruct (N.leb_spec 2 (len b)); cbn [bind]; [|eexists; reflexivity].
    pose proof (gbe_load4_skip (drop 2 b) (wf_drop 2 b Wb)) as L.
    destruct (Skip.be_u32 (drop 2 b)) as [u|e|w|]; try contradiction.
    - destruct L as [L Hu]. rewrite L. cbn [bind]. rewrite !wraps8_i8 by assumption. repeat split; assumption.
    - destruct L as [w' L]. rewrite L. eexists; reflexivity.
  Qed.

  (* ReadListBegin *)
  Lemma list_begin_sim st :
    Inv st ->
    match br_list_begin st with
    | (st', Ok (et, u)) =>
      g_ReadListBegin st = Ok (st', i8 et, Z.of_N u, gnil) /\ et < 256 /\ u < 4294967296 /\ Inv st'
    | (st', Err e) => exists a b, g_ReadListBegin st = Ok (st', a, b, Some e)
    | (_, Panic _) => exists w, g_ReadListBegin st = Panic w
    | (_, OOB) => False
    end /\ Inv (fst (br_list_begin st)).
  Proof.
    intros Is. unfold br_list_begin, g_thrift_BufferReader_ReadListBegin.
    destruct (next_sim st 5 Is) as [S I1]. change (Z.of_N 5) with 5%Z in S.
    destruct (br_next st 5) as [st' [b|e|w|]]; cbn [sbind fst] in *; try contradiction.
    2:{ split; [|exact I1]. destruct S as [x S]. rewrite S. cbn [bind is_nil negb]. repeat eexists. }
    2:{ split; [|exact I1]. destruct S as [w' S]. rewrite S. eexists; reflexivity. }
    destruct S as (S & Wb & Is'). rewrite S. cbn [bind is_nil gnil negb]. split; [|exact Is'].
    change (gindex b 0) with (do x <- index b 0; Ok (Z.of_N x)).
    change (gslice_from b 1) with (slice_from b 1).
    destruct (index b 0) as [et|e|w|] eqn:Ek; cbn [bind];
      [|exfalso; exact (index_not_err _ _ _ Ek)|eexists; reflexivity|].
    2:{ unfold index in Ek. destruct (nth_error b (N.to_nat 0)); discriminate. }
    pose proof (index_wf b 0 et Wb Ek) as Het.
    unfold slice_from. destruct (N.leb_spec 1 (len b)); cbn [bind]; [|eexists; reflexivity].
    pose proof (gbe_load4_skip (drop 1 b) (wf_drop 1 b Wb)) as L.
    destruct (Skip.be_u32 (drop 1 b)) as [u|e|w|]; try contradiction.
    - destruct L as [L Hu]. rewrite L. cbn [bind]. rewrite !wraps8_i8 by assumption. repeat split; assumption.
    - destruct L as [w' L]. rewrite L. eexists; reflexivity.
  Qed.

  (* ReadFieldBegin: the field id is read and dropped *)
  Lemma field_begin_sim st :
    Inv st ->
    match br_field_begin st with
    | (st', Ok ft) => exists id, g_ReadFieldBegin st = Ok (st', i8 ft, id, gnil) /\ ft < 256 /\ Inv st'
    | (st', Err e) => exists a b, g_ReadFieldBegin st = Ok (st', a, b, Some e)
    | (_, Panic _) => exists w, g_ReadFieldBegin st = Panic w
    | (_, OOB) => False
    end /\ Inv (fst (br_field_begin st)).
  Proof.
    intros Is. unfold br_field_begin, g_thrift_BufferReader_ReadFieldBegin.
    destruct (next_sim st 1 Is) as [S I1]. change (Z.of_N 1) with 1%Z in S.
    destruct (br_next st 1) as [st1 [b|e|w|]]; cbn [sbind fst] in *; try contradiction.
    2:{ split; [|exact I1]. destruct S as [x S]. rewrite S. cbn [bind is_nil negb]. repeat eexists. }
    2:{ split; [|exact I1]. destruct S as [w' S]. rewrite S. eexists; reflexivity. }
    destruct S as (S & Wb & Is1). rewrite S. cbn [bind is_nil gnil negb].
    change (gindex b 0) with (do x <- index b 0; Ok (Z.of_N x)).
    destruct (index b 0) as [ft|e|w|] eqn:Ek; cbn [bind fst];
      [|exfalso; exact (index_not_err _ _ _ Ek)|split; [eexists; reflexivity|exact Is1]|].
    2:{ unfold index in Ek. destruct (nth_error b (N.to_nat 0)); discriminate. }
    pose proof (index_wf b 0 ft Wb Ek) as Hft. rewrite wraps8_i8 by exact Hft.
    unfold is_ty. change thrift_STOP with 0%Z.
    destruct (Z.eqb_spec (i8 ft) 0) as [Hstop|Hstop]; cbn [fst].
    { split; [|exact Is1]. exists 0%Z. rewrite Hstop. repeat split; assumption. }
    destruct (next_sim st1 2 Is1) as [S2 I2]. change (Z.of_N 2) with 2%Z in S2.
    destruct (br_next st1 2) as [st2 [b2|e|w|]]; cbn [sbind fst] in *; try contradiction.
    2:{ split; [|exact I2]. destruct S2 as [x S2]. rewrite S2. cbn [bind is_nil negb]. repeat eexists. }
    2:{ split; [|exact I2]. destruct S2 as [w' S2]. rewrite S2. eexists; reflexivity. }
    destruct S2 as (S2 & Wb2 & Is2). rewrite S2. cbn [bind is_nil gnil negb]. split; [|exact Is2].
    pose proof (gbe_load2_skip b2) as L.
    destruct (Skip.be_u16 b2) as [u|e|w|]; try contradiction; cbn [bind].
    - destruct L as [z L]. rewrite L. cbn [bind]. eexists. repeat split; assumption.
    - destruct L as [w' L]. rewrite L. eexists; reflexivity.
  Qed.

  (* ---------- one call `err = f(); if err != nil { return err }` inside a loop / at the end ---------- *)
  Lemma sbind_assoc {A B C} (m : sres rstate A) (f : rstate -> A -> sres rstate B) (g : rstate -> B -> sres rstate C) :
    sbind (sbind m f) g = sbind m (fun s a => sbind (f s a) g).
  Proof. destruct m as [s [a|e|w|]]; reflexivity. Qed.

  Lemma step_lsim {C} (mk : rstate -> C) (G : res (rstate * gerror)) (H : sres rstate unit)
        (F : rstate * gerror -> res (C + (rstate * gerror))) (Hk : rstate -> unit -> sres rstate unit) :
    (nofuel H -> ssim G H) -> nofuel (sbind H Hk) ->
    (forall st' e, F (st', Some e) = Ok (inr (st', Some e))) ->
    (forall st', H = (st', Ok tt) -> nofuel (Hk st' tt) -> lsim mk (F (st', gnil)) (Hk st' tt)) ->
    lsim mk (bind G F) (sbind H Hk).
  Proof.
    intros HS Hnf HF HK. destruct H as [st' [[]|e|w|]]; cbn [sbind ssim GenEquivSkip.lsim GenEquivSkip.nofuel snd] in *.
    - rewrite HS by discriminate. cbn [bind]. apply HK; [reflexivity|exact Hnf].
    - rewrite HS by exact Hnf. cbn [bind]. apply HF.
    - destruct HS as [w' HS]; [discriminate|]. rewrite HS. eexists; reflexivity.
    - rewrite HS by discriminate. reflexivity.
  Qed.

  Lemma step_ssim (G : res (rstate * gerror)) (H : sres rstate unit)
        (F : rstate * gerror -> res (rstate * gerror)) (Hk : rstate -> unit -> sres rstate unit) :
    (nofuel H -> ssim G H) -> nofuel (sbind H Hk) ->
    (forall st' e, F (st', Some e) = Ok (st', Some e)) ->
    (forall st', H = (st', Ok tt) -> nofuel (Hk st' tt) -> ssim (F (st', gnil)) (Hk st' tt)) ->
    ssim (bind G F) (sbind H Hk).
  Proof.
    intros HS Hnf HF HK. destruct H as [st' [[]|e|w|]]; cbn [sbind ssim GenEquivSkip.ssim GenEquivSkip.nofuel snd] in *.
    - rewrite HS by discriminate. cbn [bind]. apply HK; [reflexivity|exact Hnf].
    - rewrite HS by exact Hnf. cbn [bind]. apply HF.
    - destruct HS as [w' HS]; [discriminate|]. rewrite HS. eexists; reflexivity.
    - rewrite HS by discriminate. reflexivity.
  Qed.

  (* `return f()` *)
  Lemma tail_ssim (G : res (rstate * gerror)) (H : sres rstate unit) :
    ssim G H -> ssim (do (v_r, t) <- G; Ok (v_r, t)) H.
  Proof.
    destruct H as [st' [u|e|w|]]; cbn [GenEquivSkip.ssim]; intros S; try (rewrite S; reflexivity).
    destruct S as [w' S]. rewrite S. eexists; reflexivity.
  Qed.

  Notation rec_ok := (rec_ok rstate Inv).
  Notation keeps_inv := (keeps_inv rstate Inv).

  (* the three ways an element is skipped: fixed width / string / recursive call *)
  Lemma kv_inv hrec sz t st : keeps_inv hrec -> Inv st -> Inv (fst (br_kv hrec sz t st)).
  Proof.
    intros HI Is. unfold br_kv. destruct (0 <? sz)%Z; [apply skipn_sim, Is|].
    destruct (is_ty t thrift_STRING); [apply skipstr_sim, Is|apply HI, Is].
  Qed.

  Lemma kv_step {C} (mk : rstate -> C) rec hrec fuel md sz t st
        (F : rstate * gerror -> res (C + (rstate * gerror))) (Hk : rstate -> unit -> sres rstate unit) :
    rec_ok rec hrec fuel md -> keeps_inv hrec -> t < 256 -> Inv st ->
    nofuel (sbind (br_kv hrec sz t st) Hk) ->
    (forall st' e, F (st', Some e) = Ok (inr (st', Some e))) ->
    (forall st', Inv st' -> nofuel (Hk st' tt) -> lsim mk (F (st', gnil)) (Hk st' tt)) ->
    lsim mk (if (sz >? 0)%Z then bind (g_skipn st sz) F
             else if (i8 t =? 11)%Z then bind (g_skipstr st) F
                  else bind (rec fuel thrift_typeToSize st (i8 t) md) F)
         (sbind (br_kv hrec sz t st) Hk).
  Proof.
    intros HR HI Ht Is Hnf HF HK. pose proof (kv_inv hrec sz t st HI Is) as Ik. unfold br_kv in *. rewrite Z.gtb_ltb.
    unfold is_ty in *. change thrift_STRING with 11%Z in *.
    destruct (0 <? sz)%Z; [|destruct (i8 t =? 11)%Z].
    - apply step_lsim; [intros _; apply skipn_sim, Is|exact Hnf|exact HF|].
      intros st' E Hn. rewrite E in Ik. apply HK; [exact Ik|exact Hn].
    - apply step_lsim; [intros _; apply skipstr_sim, Is|exact Hnf|exact HF|].
      intros st' E Hn. rewrite E in Ik. apply HK; [exact Ik|exact Hn].
    - apply step_lsim; [intros Hn; apply HR; assumption|exact Hnf|exact HF|].
      intros st' E Hn. rewrite E in Ik. apply HK; [exact Ik|exact Hn].
  Qed.

  (* MAP slow path *)
  Lemma br_map_loop_sim rec hrec rfuel fuel md kt vt sz ksz vsz :
    rec_ok rec hrec fuel (wraps 64 (md - 1)) -> keeps_inv hrec -> kt < 256 -> vt < 256 -> sz < 2147483648 ->
    forall f lf st j, Inv st -> (f < lf)%nat -> j <= sz ->
      nofuel (br_loop (fun s => sbind (br_kv hrec ksz kt s) (fun s1 _ => br_kv hrec vsz vt s1)) f (sz - j) st) ->
      lsim (fun st' => (st', gnil, Z.of_N sz))
           (g_thrift_BufferReader_skipType_loop1 rstate mNext mSkip rec rfuel fuel thrift_typeToSize md
              (i8 kt) (i8 vt) (Z.of_N sz) ksz vsz lf st gnil (Z.of_N j))
           (br_loop (fun s => sbind (br_kv hrec ksz kt s) (fun s1 _ => br_kv hrec vsz vt s1)) f (sz - j) st).
  Proof.
    intros HR HI Hkt Hvt Hsz. induction f as [|f IH]; intros lf st j Is Hlf Hj Hnf; (destruct lf as [|lf]; [lia|]);
      cbn [br_loop g_thrift_BufferReader_skipType_loop1] in *.
    - destruct (N.eqb_spec (sz - j) 0) as [Hz|Hz]; [|exfalso; apply Hnf; reflexivity].
      destruct (Z.ltb_spec (Z.of_N j) (Z.of_N sz)); [lia|]. cbn [GenEquivSkip.lsim]. do 4 f_equal. lia.
    - destruct (N.eqb_spec (sz - j) 0) as [Hz|Hz].
      { destruct (Z.ltb_spec (Z.of_N j) (Z.of_N sz)); [lia|]. cbn [GenEquivSkip.lsim]. do 4 f_equal. lia. }
      destruct (Z.ltb_spec (Z.of_N j) (Z.of_N sz)); [|lia].
      rewrite sbind_assoc in *.
      apply kv_step; [exact HR|exact HI|exact Hkt|exact Is|exact Hnf|reflexivity|].
      intros st1 Is1 Hn1.
      apply kv_step; [exact HR|exact HI|exact Hvt|exact Is1|exact Hn1|reflexivity|].
      intros st2 Is2 Hn2. cbn [negb is_nil gnil].
      rewrite wraps64_small by lia. replace (Z.of_N j + 1)%Z with (Z.of_N (j + 1)) by lia.
      replace (sz - j - 1) with (sz - (j + 1)) in * by lia. apply IH; [exact Is2|lia|lia|exact Hn2].
  Qed.

  (* LIST / SET slow path *)
  Lemma lelem_inv hrec t st : keeps_inv hrec -> Inv st -> Inv (fst (br_lelem hrec t st)).
  Proof. intros HI Is. unfold br_lelem. destruct (is_ty t thrift_STRING); [apply skipstr_sim, Is|apply HI, Is]. Qed.

  Lemma lelem_step {C} (mk : rstate -> C) rec hrec fuel md t st
        (F : rstate * gerror -> res (C + (rstate * gerror))) (Hk : rstate -> unit -> sres rstate unit) :
    rec_ok rec hrec fuel md -> keeps_inv hrec -> t < 256 -> Inv st ->
    nofuel (sbind (br_lelem hrec t st) Hk) ->
    (forall st' e, F (st', Some e) = Ok (inr (st', Some e))) ->
    (forall st', Inv st' -> nofuel (Hk st' tt) -> lsim mk (F (st', gnil)) (Hk st' tt)) ->
    lsim mk (if (i8 t =? 11)%Z then bind (g_skipstr st) F
             else bind (rec fuel thrift_typeToSize st (i8 t) md) F)
         (sbind (br_lelem hrec t st) Hk).
  Proof.
    intros HR HI Ht Is Hnf HF HK. pose proof (lelem_inv hrec t st HI Is) as Ik. unfold br_lelem in *.
    unfold is_ty in *. change thrift_STRING with 11%Z in *.
    destruct (i8 t =? 11)%Z.
    - apply step_lsim; [intros _; apply skipstr_sim, Is|exact Hnf|exact HF|].
      intros st' E Hn. rewrite E in Ik. apply HK; [exact Ik|exact Hn].
    - apply step_lsim; [intros Hn; apply HR; assumption|exact Hnf|exact HF|].
      intros st' E Hn. rewrite E in Ik. apply HK; [exact Ik|exact Hn].
  Qed.

  Lemma br_list_loop_sim rec hrec rfuel fuel md vt sz :
    rec_ok rec hrec fuel (wraps 64 (md - 1)) -> keeps_inv hrec -> vt < 256 -> sz < 2147483648 ->
    forall f lf st j, Inv st -> (f < lf)%nat -> j <= sz ->
      nofuel (br_loop (br_lelem hrec vt) f (sz - j) st) ->
      lsim (fun st' => (st', gnil, Z.of_N sz))
           (g_thrift_BufferReader_skipType_loop2 rstate mNext mSkip rec rfuel fuel thrift_typeToSize md
              (i8 vt) (Z.of_N sz) lf st gnil (Z.of_N j))
           (br_loop (br_lelem hrec vt) f (sz - j) st).
  Proof.
    intros HR HI Hvt Hsz. induction f as [|f IH]; intros lf st j Is Hlf Hj Hnf; (destruct lf as [|lf]; [lia|]);
      cbn [br_loop g_thrift_BufferReader_skipType_loop2] in *.
    - destruct (N.eqb_spec (sz - j) 0) as [Hz|Hz]; [|exfalso; apply Hnf; reflexivity].
      destruct (Z.ltb_spec (Z.of_N j) (Z.of_N sz)); [lia|]. cbn [GenEquivSkip.lsim]. do 4 f_equal. lia.
    - destruct (N.eqb_spec (sz - j) 0) as [Hz|Hz].
      { destruct (Z.ltb_spec (Z.of_N j) (Z.of_N sz)); [lia|]. cbn [GenEquivSkip.lsim]. do 4 f_equal. lia. }
      destruct (Z.ltb_spec (Z.of_N j) (Z.of_N sz)); [|lia].
      apply lelem_step; [exact HR|exact HI|exact Hvt|exact Is|exact Hnf|reflexivity|].
      intros st1 Is1 Hn1. cbn [negb is_nil gnil].
      rewrite wraps64_small by lia. replace (Z.of_N j + 1)%Z with (Z.of_N (j + 1)) by lia.
      replace (sz - j - 1) with (sz - (j + 1)) in * by lia. apply IH; [exact Is1|lia|lia|exact Hn1].
  Qed.

  (* STRUCT *)
  Lemma field_inv hrec ft st : keeps_inv hrec -> Inv st -> Inv (fst (br_field hrec ft st)).
  Proof.
    intros HI Is. unfold br_field. apply (sbind_inv rstate Inv); [exact Is|]. intros st0 fsz Is0.
    destruct (0 <? fsz)%Z; [apply skipn_sim, Is0|apply HI, Is0].
  Qed.

  Lemma br_struct_loop_sim rec hrec rfuel fuel md :
    rec_ok rec hrec fuel (wraps 64 (md - 1)) -> keeps_inv hrec ->
    forall f lf st, Inv st -> (f < lf)%nat -> nofuel (br_struct_loop (br_field hrec) f st) ->
      ssim (g_thrift_BufferReader_skipType_loop3 rstate mNext mSkip rec rfuel fuel thrift_typeToSize md lf st)
           (br_struct_loop (br_field hrec) f st).
  Proof.
    intros HR HI. induction f as [|f IH]; intros lf st Is Hlf Hnf; [exfalso; apply Hnf; reflexivity|].
    destruct lf as [|lf]; [lia|].
    cbn [br_struct_loop g_thrift_BufferReader_skipType_loop3] in *.
    destruct (field_begin_sim st Is) as [S I1].
    destruct (br_field_begin st) as [st1 [ft|e|w|]]; cbn [sbind fst GenEquivSkip.ssim] in *; try contradiction.
    2:{ destruct S as (a & b & S). rewrite S. reflexivity. }
    2:{ destruct S as [w' S]. rewrite S. eexists; reflexivity. }
    destruct S as (id & S & Hft & Is1). rewrite S. cbn [bind is_nil gnil negb].
    unfold is_ty in *. change thrift_STOP with 0%Z in *.
    destruct (Z.eqb_spec (i8 ft) 0) as [Hstop|Hstop]; [reflexivity|].
    pose proof (field_inv hrec ft st1 HI Is1) as If. unfold br_field in If, Hnf |- *.
    destruct (gtable_tts_site SBufferReader ft br_site_unsigned Hft) as (fsz & Et & Eg & Hr).
    rewrite Et in *. rewrite Eg. cbn [sret sbind bind] in *. rewrite Z.gtb_ltb.
    destruct (0 <? fsz)%Z.
    - apply step_ssim; [intros _; apply skipn_sim, Is1|exact Hnf|reflexivity|].
      intros st' E Hn. rewrite E in If. apply IH; [exact If|lia|exact Hn].
    - apply step_ssim; [intros Hn; apply HR; assumption|exact Hnf|reflexivity|].
      intros st' E Hn. rewrite E in If. apply IH; [exact If|lia|exact Hn].
  Qed.

  (* ---------- the hand model preserves the invariant ---------- *)
  Lemma br_loop_inv body : (forall s, Inv s -> Inv (fst (body s))) ->
    forall f cnt st, Inv st -> Inv (fst (br_loop body f cnt st)).
  Proof.
    intros HB. induction f as [|f IH]; intros cnt st Is; cbn [br_loop]; destruct (cnt =? 0); try exact Is.
    apply (sbind_inv rstate Inv); [apply HB, Is|]. intros s' _ Is'. apply IH, Is'.
  Qed.

  Lemma br_struct_loop_inv fld : (forall ft s, Inv s -> Inv (fst (fld ft s))) ->
    forall f st, Inv st -> Inv (fst (br_struct_loop fld f st)).
  Proof.
    intros HF. induction f as [|f IH]; intros st Is; cbn [br_struct_loop]; [exact Is|].
    apply (sbind_inv rstate Inv); [apply field_begin_sim, Is|]. intros st1 ft Is1.
    destruct (is_ty ft thrift_STOP); [exact Is1|].
    apply (sbind_inv rstate Inv); [apply HF, Is1|]. intros st2 _ Is2. apply IH, Is2.
  Qed.

  Lemma brskip_inv fu : forall d, keeps_inv (brskip d fu).
  Proof.
    induction d as [|d IH]; intros st t Is; cbn [brskip]; [exact Is|].
    apply (sbind_inv rstate Inv); [exact Is|]. intros st0 n Is0.
    destruct (0 <? n)%Z; [apply skipn_sim, Is0|].
    destruct (is_ty t thrift_STRING); [apply skipstr_sim, Is0|].
    destruct (is_ty t thrift_MAP).
    { apply (sbind_inv rstate Inv); [apply map_begin_sim, Is0|]. intros st1 [[kt vt] sz] Is1.
      destruct (i32 sz <? 0)%Z; [exact Is1|].
      apply (sbind_inv rstate Inv); [exact Is1|]. intros st2 ksz Is2.
      apply (sbind_inv rstate Inv); [exact Is2|]. intros st3 vsz Is3.
      destruct ((0 <? ksz)%Z && (0 <? vsz)%Z); [apply skipn_sim, Is3|].
      apply br_loop_inv; [|exact Is3]. intros s Is'.
      apply (sbind_inv rstate Inv); [apply kv_inv; [exact IH|exact Is']|]. intros s1 _ Is1'. apply kv_inv; [exact IH|exact Is1']. }
    destruct (is_ty t thrift_LIST || is_ty t thrift_SET).
    { apply (sbind_inv rstate Inv); [apply list_begin_sim, Is0|]. intros st1 [vt sz] Is1.
      destruct (i32 sz <? 0)%Z; [exact Is1|].
      apply (sbind_inv rstate Inv); [exact Is1|]. intros st2 vsz Is2.
      destruct (0 <? vsz)%Z; [apply skipn_sim, Is2|].
      apply br_loop_inv; [|exact Is2]. intros s Is'. apply lelem_inv; [exact IH|exact Is']. }
    destruct (is_ty t thrift_STRUCT); [|exact Is0].
    apply br_struct_loop_inv; [|exact Is0]. intros ft s Is'. apply field_inv; [exact IH|exact Is'].
  Qed.

  (* ---------- skipType = brskip ---------- *)
  Theorem g_thrift_BufferReader_skipType_sim : forall d rfuel fuel fu st t,
    Inv st -> (d < rfuel)%nat -> (fu < fuel)%nat -> (Z.of_nat d < 2 ^ 63)%Z -> t < 256 ->
    nofuel (brskip d fu st t) ->
    ssim (g_thrift_BufferReader_skipType rstate mNext mSkip rfuel fuel thrift_typeToSize st (i8 t) (Z.of_nat d))
         (brskip d fu st t).
  Proof.
    induction d as [|d IH]; intros rfuel fuel fu st t Is Hr Hfu Hd Ht Hnf; (destruct rfuel as [|rfuel]; [lia|]).
    { cbn [brskip g_thrift_BufferReader_skipType]. reflexivity. }
    cbn [brskip g_thrift_BufferReader_skipType] in *.
    destruct (Z.eqb_spec (Z.of_nat (S d)) 0) as [Hz|_]; [lia|].
    destruct (gtable_tts_site SBufferReader t br_site_unsigned Ht) as (z & Et & Eg & Hzr). rewrite Et in *. rewrite Eg.
    cbn [sret sbind bind] in *. rewrite Z.gtb_ltb.
    destruct (Z.ltb_spec 0 z) as [Hpos|Hnpos]; [apply tail_ssim, skipn_sim, Is|].
    assert (HR : rec_ok (g_thrift_BufferReader_skipType rstate mNext mSkip rfuel) (brskip d fu) fuel (wraps 64 (Z.of_nat (S d) - 1))).
    { intros s' t' Is' Ht' Hnf'. rewrite wraps64_small by lia.
      replace (Z.of_nat (S d) - 1)%Z with (Z.of_nat d) by lia. apply IH; try assumption; lia. }
    pose proof (brskip_inv fu d) as HI.
    unfold is_ty in *.
    change thrift_STRING with 11%Z in *. change thrift_STRUCT with 12%Z in *. change thrift_MAP with 13%Z in *.
    change thrift_SET with 14%Z in *. change thrift_LIST with 15%Z in *.
    destruct (Z.eqb_spec (i8 t) 11) as [T11|T11]; [apply tail_ssim, skipstr_sim, Is|].
    destruct (Z.eqb_spec (i8 t) 13) as [T13|T13].
    { (* MAP *)
      destruct (map_begin_sim st Is) as [Sm _].
      destruct (br_map_begin st) as [st1 [[[kt vt] u]|e|w|]]; cbn [sbind GenEquivSkip.ssim] in *; try contradiction.
      2:{ destruct Sm as (a & b & c & Sm). rewrite Sm. reflexivity. }
      2:{ destruct Sm as [w' Sm]. rewrite Sm. eexists; reflexivity. }
      destruct Sm as (Sm & Hkt & Hvt & Hu & Is1). rewrite Sm. cbn [bind is_nil gnil negb].
      rewrite wraps_ts32 by exact Hu. fold (i32 u). pose proof (i32_range u Hu) as Hsz.
      destruct (Z.ltb_spec (i32 u) 0) as [Hneg|Hneg]; [reflexivity|].
      pose proof (i32_nonneg_lt u Hu Hneg) as Hu31.
      destruct (gtable_tts_site SBufferReader kt br_site_unsigned Hkt) as (ksz & Etk & Egk & Hkr).
      destruct (gtable_tts_site SBufferReader vt br_site_unsigned Hvt) as (vsz & Etv & Egv & Hvr).
      rewrite Etk, Etv in *. rewrite Egk, Egv. cbn [sbind sret bind] in *. rewrite !Z.gtb_ltb.
      destruct ((0 <? ksz)%Z && (0 <? vsz)%Z) eqn:Efast.
      { rewrite (wraps64_small (ksz + vsz)) by lia. rewrite wraps64_small by nia. apply tail_ssim, skipn_sim, Is1. }
      change (fun s t' => brskip d fu s t') with (brskip d fu) in *.
      pose proof (br_map_loop_sim _ _ (S rfuel) fuel (Z.of_nat (S d)) kt vt u ksz vsz HR HI Hkt Hvt Hu31 fu fuel st1 0 Is1 Hfu ltac:(lia)) as LL.
      rewrite N.sub_0_r in LL. specialize (LL Hnf). change (Z.of_N 0) with 0%Z in LL.
      destruct (br_loop (fun s => sbind (br_kv (brskip d fu) ksz kt s) (fun s1 _ => br_kv (brskip d fu) vsz vt s1)) fu u st1)
        as [s' [u'|e|w|]]; cbn [GenEquivSkip.lsim GenEquivSkip.ssim] in *.
      - rewrite LL. reflexivity.
      - rewrite LL. reflexivity.
      - destruct LL as [w' LL]. rewrite LL. eexists; reflexivity.
      - rewrite LL. reflexivity. }
    destruct (Z.eqb_spec (i8 t) 15) as [T15|T15]; destruct (Z.eqb_spec (i8 t) 14) as [T14|T14]; cbn [orb] in *.
    4:{ destruct (Z.eqb_spec (i8 t) 12) as [T12|T12]; [|reflexivity].
        change (fun s t' => brskip d fu s t') with (brskip d fu) in *.
        apply (br_struct_loop_sim _ _ (S rfuel) fuel (Z.of_nat (S d)) HR HI fu fuel st Is Hfu Hnf). }
    all: (* LIST, SET *)
      destruct (list_begin_sim st Is) as [Sm _];
      (destruct (br_list_begin st) as [st1 [[vt u]|e|w|]]; cbn [sbind GenEquivSkip.ssim] in *; try contradiction;
       [|destruct Sm as (a & b & Sm); rewrite Sm; reflexivity|destruct Sm as [w' Sm]; rewrite Sm; eexists; reflexivity]);
      destruct Sm as (Sm & Hvt & Hu & Is1); rewrite Sm; cbn [bind is_nil gnil negb];
      rewrite wraps_ts32 by exact Hu; fold (i32 u); pose proof (i32_range u Hu) as Hsz;
      (destruct (Z.ltb_spec (i32 u) 0) as [Hneg|Hneg]; [reflexivity|]);
      pose proof (i32_nonneg_lt u Hu Hneg) as Hu31;
      destruct (gtable_tts_site SBufferReader vt br_site_unsigned Hvt) as (vsz & Etv & Egv & Hvr);
      rewrite Etv in *; rewrite Egv; cbn [sbind sret bind] in *; rewrite !Z.gtb_ltb;
      (destruct (Z.ltb_spec 0 vsz) as [Hfast|Hfast]; [rewrite wraps64_small by nia; apply tail_ssim, skipn_sim, Is1|]);
      change (fun s t' => brskip d fu s t') with (brskip d fu) in *;
      pose proof (br_list_loop_sim _ _ (S rfuel) fuel (Z.of_nat (S d)) vt u HR HI Hvt Hu31 fu fuel st1 0 Is1 Hfu ltac:(lia)) as LL;
      rewrite N.sub_0_r in LL; specialize (LL Hnf); change (Z.of_N 0) with 0%Z in LL;
      (destruct (br_loop (br_lelem (brskip d fu) vt) fu u st1) as [s' [u'|e|w|]]; cbn [GenEquivSkip.lsim GenEquivSkip.ssim] in *;
       [rewrite LL; reflexivity|rewrite LL; reflexivity|destruct LL as [w' LL]; rewrite LL; eexists; reflexivity|rewrite LL; reflexivity]).
  Qed.

  (* BufferReader.Skip: the budget defaultRecursionDepth of the source *)
  Theorem g_thrift_BufferReader_Skip_sim rfuel fuel st t :
    Inv st -> (depth0 < rfuel)%nat -> (r_fuel st < fuel)%nat -> t < 256 ->
    nofuel (br_skip st t) ->
    ssim (g_thrift_BufferReader_Skip rstate mNext mSkip rfuel fuel thrift_typeToSize st (i8 t)) (br_skip st t).
  Proof.
    intros Is Hr Hf Ht Hnf. rewrite br_skip_unfold in *. unfold g_thrift_BufferReader_Skip.
    apply tail_ssim. rewrite <- depth0_64.
    apply g_thrift_BufferReader_skipType_sim; try assumption. rewrite depth0_64. reflexivity.
  Qed.
End BR.

(* ================= the hypotheses discharged for the bufiox reader model =================
   Inv := "the reader state represents the data D (final error F, fragmentation script CH) at
   some cursor" (Proofs/BufReaderP.v RInv, established by new_reader / new_bytes_reader and
   preserved by every operation), for wf D. *)
Section RealReader.
  Variables (D : bytes) (F : Z) (CH : list N).
  Hypothesis D_wf : wf D.

  Definition rd_inv (st : rstate) : Prop := exists c, RInv D F CH c st.

  Lemma rd_next_inv st n st' o : rd_inv st -> r_next st n = (st', o) -> rd_inv st'.
  Proof.
    intros [c HI] E. destruct (Z.ltb_spec n 0) as [Hn|Hn].
    - rewrite next_neg in E by exact Hn. inversion E; subst. exists c. exact HI.
    - destruct (rinv_next _ _ _ _ _ _ _ _ HI Hn E) as [(_ & _ & _ & HI' & _)|(e & _ & _ & HI' & _)]; eexists; exact HI'.
  Qed.

  Lemma rd_next_wf st n st' b : rd_inv st -> r_next st n = (st', OBytes b) -> wf b.
  Proof.
    intros [c HI] E. destruct (Z.ltb_spec n 0) as [Hn|Hn].
    - rewrite next_neg in E by exact Hn. inversion E.
    - destruct (rinv_next _ _ _ _ _ _ _ _ HI Hn E) as [(Eo & _)|(e & Eo & _)]; [|discriminate].
      inversion Eo; subst. unfold seg_at. apply wf_take, wf_drop, D_wf.
  Qed.

  Lemma rd_skip_inv st n st' o : rd_inv st -> r_skip st n = (st', o) -> rd_inv st'.
  Proof.
    intros [c HI] E. destruct (Z.ltb_spec n 0) as [Hn|Hn].
    - rewrite skip_neg in E by exact Hn. inversion E; subst. exists c. exact HI.
    - destruct (rinv_skip _ _ _ _ _ _ _ _ HI Hn E) as [(_ & _ & HI' & _)|(e & _ & _ & HI' & _)]; eexists; exact HI'.
  Qed.

  Theorem g_br_skipType_sim : forall d rfuel fuel fu st t,
    rd_inv st -> (d < rfuel)%nat -> (fu < fuel)%nat -> (Z.of_nat d < 2 ^ 63)%Z -> t < 256 ->
    nofuel (brskip d fu st t) ->
    ssim (g_thrift_BufferReader_skipType rstate mNext mSkip rfuel fuel thrift_typeToSize st (i8 t) (Z.of_nat d))
         (brskip d fu st t).
  Proof. exact (g_thrift_BufferReader_skipType_sim rd_inv rd_next_inv rd_next_wf rd_skip_inv). Qed.

  Theorem g_br_Skip_sim rfuel fuel st t :
    rd_inv st -> (depth0 < rfuel)%nat -> (r_fuel st < fuel)%nat -> t < 256 ->
    nofuel (br_skip st t) ->
    ssim (g_thrift_BufferReader_Skip rstate mNext mSkip rfuel fuel thrift_typeToSize st (i8 t)) (br_skip st t).
  Proof. exact (g_thrift_BufferReader_Skip_sim rd_inv rd_next_inv rd_next_wf rd_skip_inv rfuel fuel st t). Qed.
End RealReader.
