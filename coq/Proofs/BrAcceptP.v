(* Proofs/BrAcceptP.v — BufferReader.Skip (Model/StreamSkip.v brskip) against the reference
   parser [rp inl_br], ACCEPT direction, over the bufiox reader's refinement interface
   (Proofs/BufReaderP.v: RInv, rinv_next_ok, rinv_skip_ok; script that cannot stall), with no
   bound on the length of the stream.  The two-sided agreement (for streams shorter than 2^31
   bytes) is Proofs/StreamSkipP.v by skipm; the proof below follows that file's structure with
   the error branches removed, and reuses the generic loop lemmas of Proofs/TskipAcceptP.v. *)
From GV Require Import Lib.Bytes Lib.Res Gen.Consts Model.Binary Model.BufReader Model.Skip
  Model.StreamSkip Model.SkipDecoders Spec.ThriftGrammar Spec.RefParse Spec.Cursor
  Proofs.BufReaderLib Proofs.BufReaderP Proofs.RefLib Proofs.RefP Proofs.SkipLib Proofs.TskipAcceptP.
From Coq Require Import ZifyN ZifyNat ZifyBool Lia.
Open Scope N_scope.

Lemma br_loop_eq body : forall f c st, br_loop body f c st = t_loop body f c st.
Proof.
  induction f as [|f IH]; intros c st; cbn [br_loop t_loop]; [reflexivity|].
  destruct (c =? 0); [reflexivity|].
  destruct (body st) as [st' [u|e|w|]]; cbn [sbind]; try reflexivity; apply IH.
Qed.

Section Stream.
  Variables (D : bytes) (F : Z) (CH : list N).
  Hypothesis Hns : may_stall CH = false.
  Hypothesis D_wf : wf D.
  Variables (c0 rl0 : N).

  (* reader states along one skip that started at cursor c0 with ReadLen rl0 *)
  Definition br_rep (st : rstate) (r : bytes) : Prop :=
    exists c, RInv D F CH c st /\ c0 <= c <= len D /\ r = drop c D /\ r_readlen st = rl0 + (c - c0).

  Lemma br_rep_wf st r : br_rep st r -> wf r.
  Proof. intros [c (_ & _ & -> & _)]. apply wf_drop, D_wf. Qed.

  Lemma br_next_ok st r n : br_rep st r -> n <= len r ->
    exists st', br_next st n = (st', Ok (take n r)) /\ br_rep st' (drop n r).
  Proof.
    intros [c (A & Hc & -> & Hl)] Hn. rewrite len_drop in Hn.
    destruct (rinv_next_ok D F CH c st n A Hns ltac:(lia)) as [st' (E & _ & A' & Hl')].
    exists st'. unfold br_next. rewrite E. split; [reflexivity|].
    exists (c + n). rewrite drop_plus. split; [exact A'|]. split; [lia|]. split; [reflexivity|lia].
  Qed.

  Lemma br_skipn_ok st r n : br_rep st r -> n <= len r ->
    exists st', br_skipn st (Z.of_N n) = (st', Ok tt) /\ br_rep st' (drop n r).
  Proof.
    intros [c (A & Hc & -> & Hl)] Hn. rewrite len_drop in Hn.
    destruct (rinv_skip_ok D F CH c st n A Hns ltac:(lia)) as [st' (E & A' & Hl')].
    exists st'. unfold br_skipn. destruct (Z.ltb_spec (Z.of_N n) 0); [lia|]. rewrite E. split; [reflexivity|].
    exists (c + n). rewrite drop_plus. split; [exact A'|]. split; [lia|]. split; [reflexivity|lia].
  Qed.

  Notation bacc := (tacc rstate br_rep).

  Lemma br_skipn_exact st r w h : br_rep st r ->
    bacc (br_skipn st (Z.of_N w)) r (if hasn r w then Ok (w, h) else Err E_TRUNC).
  Proof.
    intros HR. rewrite hasn_le. destruct (N.leb_spec w (len r)) as [H|H]; [|exact I].
    destruct (br_skipn_ok st r w HR H) as [st' [E HR']]. rewrite E. exists st'. auto.
  Qed.

  Variable fu : nat.
  Notation P := (P fu).
  Lemma Pd r n : P r -> P (drop n r).
  Proof. unfold TskipAcceptP.P. intros H. unfold drop. rewrite skipn_length. lia. Qed.

  (* r.skipstr() *)
  Lemma br_skipstr_acc st r : br_rep st r -> P r -> bacc (br_skipstr st) r (gstring r).
  Proof.
    intros HR HP. unfold br_skipstr, br_read_u32, gstring. rewrite hasn_le.
    destruct (N.leb_spec 4 (len r)) as [H4|H4]; [|exact I].
    destruct (br_next_ok st r 4 HR H4) as [st1 [E1 HR1]]. rewrite E1. cbn [sbind].
    rewrite ta_be_u32_take by exact H4. cbn [sbind].
    pose proof (unbe4_lt r (br_rep_wf _ _ HR)) as Hu. set (u := unbe (take 4 r)) in *.
    destruct (N.leb_spec two31 u) as [Hneg|Hpos]; [exact I|].
    rewrite i32_small by exact Hpos.
    pose proof (br_skipn_exact st1 (drop 4 r) u O HR1) as X. unfold tacc in *.
    destruct (hasn (drop 4 r) u); [|exact I].
    destruct X as [st2 [E2 HR2]]. exists st2. split; [exact E2|]. rewrite drop_plus in HR2. exact HR2.
  Qed.

  (* ---------- ReadFieldBegin + struct loop ---------- *)
  Section StructLoop.
    Variables (fld : N -> rstate -> sres rstate unit) (eR : N -> bytes -> pres).
    Hypothesis HF : forall ft st r, ft < 256 -> br_rep st r -> P r -> bacc (fld ft st) r (eR ft r).

    Lemma br_struct_loop_acc : forall fuel1 fuel2 st r,
      br_rep st r -> P r -> (length r < fuel1)%nat -> (length r < fuel2)%nat ->
      bacc (br_struct_loop fld fuel1 st) r (gfields fuel2 eR r).
    Proof.
      induction fuel1 as [|f IH]; intros fuel2 st r HR HP Hf1 Hf2; [lia|].
      destruct fuel2 as [|f2]; [lia|]. cbn [br_struct_loop gfields]. unfold br_field_begin.
      destruct r as [|ft r1]; [exact I|].
      pose proof (br_rep_wf _ _ HR) as W. apply wf_cons in W as [Hft W1].
      destruct (br_next_ok st (ft :: r1) 1 HR ltac:(rewrite len_cons; lia)) as [st1 [E1 HR1]].
      rewrite E1. cbn [sbind]. change (take 1 (ft :: r1)) with [ft]. change (drop 1 (ft :: r1)) with r1 in HR1.
      cbn [index N.to_nat nth_error].
      destruct (is_ty_ok ft Hft) as (_&_&_&_&_&Hstop). rewrite Hstop.
      destruct (ft =? T_STOP) eqn:Est.
      { cbn [sbind]. rewrite Hstop. exists st1. auto. }
      assert (HP1 : P r1) by (apply (Pd (ft :: r1) 1 HP)).
      rewrite hasn_le. destruct (N.leb_spec 2 (len r1)) as [H2|H2]; [|exact I].
      destruct (br_next_ok st1 r1 2 HR1 H2) as [st2 [E2 HR2]]. rewrite E2. cbn [sbind].
      destruct (ta_be_u16_take r1 H2) as [x Ex]. rewrite Ex. cbn [bind sbind]. rewrite Hstop.
      specialize (HF ft st2 (drop 2 r1) Hft HR2 (Pd r1 2 HP1)). unfold tacc in HF.
      destruct (eR ft (drop 2 r1)) as [[n h]|er| |]; try exact I; cbn [bind].
      destruct HF as [st3 [E3 HR3]]. rewrite E3. cbn [sbind].
      assert (Hl : (length (drop n (drop 2 r1)) < length (ft :: r1))%nat).
      { unfold drop. rewrite !skipn_length. cbn [length]. lia. }
      specialize (IH f2 st3 (drop n (drop 2 r1)) HR3 (Pd _ n (Pd r1 2 HP1)) ltac:(lia) ltac:(lia)).
      unfold tacc in *.
      destruct (gfields f2 eR (drop n (drop 2 r1))) as [[m hm]|er| |]; try exact I; cbn [bind].
      destruct IH as [st4 [E4 HR4]]. exists st4. split; [exact E4|].
      rewrite !drop_plus in HR4. replace (3 + n + m) with (1 + (2 + (n + m))) by lia.
      rewrite drop_cons_succ. exact HR4.
    Qed.
  End StructLoop.

  (* ---------- members ---------- *)
  Section Member.
    Variables (self : rstate -> N -> sres rstate unit) (rec : N -> bytes -> pres).
    Hypothesis HS : forall t st r, t < 256 -> br_rep st r -> P r -> bacc (self st t) r (rec t r).

    Lemma br_kv_acc t st r : t < 256 -> br_rep st r -> P r ->
      bacc (br_kv self (Z.of_N (fixed_width t)) t st) r (member true true rec t r).
    Proof.
      intros Ht HR HP. unfold br_kv, member. rewrite fixed_width_pos.
      destruct (is_ty_ok t Ht) as (Hs&_). rewrite Hs. cbn [andb].
      destruct (is_fixed t) eqn:Fx; cbn [orb].
      - unfold is_fixed in Fx. destruct (kind_of t) eqn:K; try discriminate.
        rewrite (leaf_fixed t width K). unfold fixed_width. rewrite K. apply br_skipn_exact, HR.
      - destruct (is_str t) eqn:Sx.
        + unfold is_str in Sx. destruct (kind_of t) eqn:K; try discriminate.
          rewrite (leaf_str t K). apply br_skipstr_acc; assumption.
        + apply HS; assumption.
    Qed.

    Lemma br_lelem_acc t st r : t < 256 -> is_fixed t = false -> br_rep st r -> P r ->
      bacc (br_lelem self t st) r (member true true rec t r).
    Proof.
      intros Ht Fx HR HP. unfold br_lelem, member. rewrite Fx.
      destruct (is_ty_ok t Ht) as (Hs&_). rewrite Hs. cbn [andb orb].
      destruct (is_str t) eqn:Sx.
      - unfold is_str in Sx. destruct (kind_of t) eqn:K; try discriminate.
        rewrite (leaf_str t K). apply br_skipstr_acc; assumption.
      - apply HS; assumption.
    Qed.

    Lemma br_field_acc ft st r : ft < 256 -> br_rep st r -> P r ->
      bacc (br_field self ft st) r (member true false rec ft r).
    Proof.
      intros Ht HR HP. unfold br_field, member. rewrite (tts_ok SBufferReader ft Ht). unfold sret. cbn [sbind].
      rewrite fixed_width_pos. cbn [andb orb]. rewrite Bool.orb_false_r.
      destruct (is_fixed ft) eqn:Fx.
      - unfold is_fixed in Fx. destruct (kind_of ft) eqn:K; try discriminate.
        rewrite (leaf_fixed ft width K). unfold fixed_width. rewrite K. apply br_skipn_exact, HR.
      - apply HS; assumption.
    Qed.
  End Member.

  Lemma ldrop2' (kt vt : N) r2 : (length (drop 4 r2) < S (length (kt :: vt :: r2)))%nat.
  Proof. unfold drop. rewrite skipn_length. cbn [length]. lia. Qed.
  Lemma ldrop1' (et : N) r1 : (length (drop 4 r1) < S (length (et :: r1)))%nat.
  Proof. unfold drop. rewrite skipn_length. cbn [length]. lia. Qed.

  (* ---------- BufferReader.skipType ---------- *)
  Lemma brskip_acc : forall d st r t, br_rep st r -> t < 256 -> P r ->
    bacc (brskip d fu st t) r (rp inl_br d t r).
  Proof.
    induction d as [|d IH]; intros st r t HR Ht HP; [exact I|].
    assert (Hlen : (length r < fu)%nat) by apply HP.
    assert (IH' : forall t st r, t < 256 -> br_rep st r -> P r -> bacc (brskip d fu st t) r (rp inl_br d t r))
      by (intros; apply IH; assumption).
    rewrite rp_S. cbn [brskip]. rewrite (tts_ok SBufferReader t Ht). unfold sret at 1. cbn [sbind].
    rewrite fixed_width_pos.
    destruct (is_ty_ok t Ht) as (Hs&Hm&Hl&_&Hst&_). rewrite Hs, Hm, Hl, Hst. clear Hs Hm Hl Hst.
    unfold lvl, is_fixed, is_str, is_map, is_list, is_struct, fixed_width.
    destruct (kind_of t) eqn:K; cbv beta iota.
    - apply br_skipn_exact; exact HR.
    - apply br_skipstr_acc; assumption.
    - (* struct *)
      apply tacc_top. apply br_struct_loop_acc; try assumption; [|lia].
      intros ft st0 r0 Hft HR0 HP0. unfold rp_es. cbn [inl_br in_struct_fixed in_struct_str].
      apply br_field_acc; assumption.
    - (* map *)
      unfold br_map_begin.
      destruct r as [|kt [|vt r2]]; try exact I.
      rewrite hasn_le. destruct (N.leb_spec 4 (len r2)) as [H4|H4]; [|exact I].
      pose proof (br_rep_wf _ _ HR) as W. apply wf_cons in W as [Hkt W]. apply wf_cons in W as [Hvt W2].
      destruct (br_next_ok st (kt :: vt :: r2) 6 HR ltac:(rewrite !len_cons; lia)) as [st1 [E1 HR1]].
      rewrite E1. cbn [sbind]. rewrite (ta_hdr_map kt vt r2 H4). cbn [sbind]. cbv zeta.
      change (drop 6 (kt :: vt :: r2)) with (drop 4 r2) in HR1.
      assert (HP1 : P (drop 4 r2)) by (apply (Pd (kt :: vt :: r2) 6 HP)).
      pose proof (unbe4_lt r2 W2) as Hu. set (u := unbe (take 4 r2)) in *.
      rewrite i32_neg by exact Hu.   (* since /repo 2c7f196: if int32(sz) < 0 *)
      destruct (N.leb_spec two31 u) as [Hneg|Hpos]; [exact I|].
      rewrite (tts_ok SBufferReader kt Hkt), (tts_ok SBufferReader vt Hvt). unfold sret. cbn [sbind].
      rewrite !fixed_width_pos.
      unfold rp_em, rp_m. cbn [inl_br in_map_fixed in_map_str]. rewrite Bool.orb_true_r.
      apply (tacc_shift rstate br_rep _ (kt :: vt :: r2) 6). change (drop 6 (kt :: vt :: r2)) with (drop 4 r2).
      destruct (is_fixed kt && is_fixed vt) eqn:FF.
      + apply andb_true_iff in FF as [Fk Fv]. unfold is_fixed in Fk, Fv.
        destruct (kind_of kt) as [kw| | | | |] eqn:Kk; try discriminate.
        destruct (kind_of vt) as [vw| | | | |] eqn:Kv; try discriminate.
        unfold fixed_width. rewrite Kk, Kv.
        rewrite (gelems_ext _ _ (fixedp (kw + vw))).
        2:{ intros r. rewrite <- gpair_fixed. apply SkipLib.gpair_ext; apply ta_member_fixed_ext_p; assumption. }
        pose proof (kind_fixed_pos _ _ Kk). pose proof (kind_fixed_pos _ _ Kv).
        rewrite gelems_fixed; [|lia|apply ldrop2'].
        rewrite <- N2Z.inj_add, <- N2Z.inj_mul.
        apply br_skipn_exact. exact HR1.
      + rewrite br_loop_eq.
        apply (t_loop_acc rstate br_next br_rep br_next_ok br_rep_wf fu); try assumption.
        * apply (pair_acc rstate br_next br_rep br_next_ok br_rep_wf fu);
            intros s0 r0 HR0 HP0; apply br_kv_acc; assumption.
        * apply gpair_good; apply member_good, rp_good.
        * apply ldrop2'.
    - (* list / set *)
      unfold br_list_begin.
      destruct r as [|et r1]; try exact I.
      rewrite hasn_le. destruct (N.leb_spec 4 (len r1)) as [H4|H4]; [|exact I].
      pose proof (br_rep_wf _ _ HR) as W. apply wf_cons in W as [Het W1].
      destruct (br_next_ok st (et :: r1) 5 HR ltac:(rewrite !len_cons; lia)) as [st1 [E1 HR1]].
      rewrite E1. cbn [sbind]. rewrite (ta_hdr_list et r1 H4). cbn [sbind]. cbv zeta.
      change (drop 5 (et :: r1)) with (drop 4 r1) in HR1.
      assert (HP1 : P (drop 4 r1)) by (apply (Pd (et :: r1) 5 HP)).
      pose proof (unbe4_lt r1 W1) as Hu. set (u := unbe (take 4 r1)) in *.
      rewrite i32_neg by exact Hu.   (* since /repo 2c7f196: if int32(sz) < 0 *)
      destruct (N.leb_spec two31 u) as [Hneg|Hpos]; [exact I|].
      rewrite (tts_ok SBufferReader et Het). unfold sret. cbn [sbind].
      rewrite !fixed_width_pos.
      unfold rp_el. cbn [inl_br in_list_str].
      apply (tacc_shift rstate br_rep _ (et :: r1) 5). change (drop 5 (et :: r1)) with (drop 4 r1).
      destruct (is_fixed et) eqn:Fe.
      + unfold is_fixed in Fe. destruct (kind_of et) as [w| | | | |] eqn:Ke; try discriminate.
        unfold fixed_width. rewrite Ke. pose proof (kind_fixed_pos _ _ Ke).
        rewrite <- N2Z.inj_mul.
        rewrite (gelems_ext _ _ (fixedp w)) by (apply ta_member_fixed_ext_p; assumption).
        rewrite gelems_fixed; [|lia|apply ldrop1'].
        apply br_skipn_exact. exact HR1.
      + rewrite br_loop_eq.
        apply (t_loop_acc rstate br_next br_rep br_next_ok br_rep_wf fu); try assumption.
        * intros s0 r0 HR0 HP0; apply br_lelem_acc; assumption.
        * apply member_good, rp_good.
        * apply ldrop1'.
    - exact I.
  Qed.
End Stream.
