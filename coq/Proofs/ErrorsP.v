(* Proofs/ErrorsP.v — lemmas about Model/Errors.v (protocol/thrift/exception.go). *)
From GV Require Import Lib.Bytes Lib.Res Gen.Consts Model.Errors.
From Coq Require Import ZifyN ZifyNat ZifyBool.
Open Scope N_scope.

(* ---------- the evaluated constants are the generated ones ---------- *)
Lemma default_table_ok :
  default_table = map (fun kv => (fst kv, str_bytes (snd kv))) thrift_defaultApplicationExceptionMessage.
Proof. vm_compute. reflexivity. Qed.

Lemma unknown_lits_ok :
  unknown_pre = str_bytes "unknown exception type [" /\ unknown_post = str_bytes "]".
Proof. split; vm_compute; reflexivity. Qed.

(* consts_ok: wrapping uses the UNKNOWN_PROTOCOL_EXCEPTION code, which the property does not fix;
   the proofs below stay parametric in it. *)

Definition nonempty (b : bytes) : bool := match b with [] => false | _ :: _ => true end.

Lemma nonempty_spec b : nonempty b = true <-> b <> [].
Proof. destruct b; cbn; split; congruence. Qed.

(* every default message in the Go table is a non-empty string (checked on the generated table) *)
Lemma default_table_nonempty : forallb (fun kv => nonempty (snd kv)) default_table = true.
Proof. vm_compute. reflexivity. Qed.

Lemma lookup_forall (P : bytes -> bool) t tbl s :
  forallb (fun kv => P (snd kv)) tbl = true -> lookup t tbl = Some s -> P s = true.
Proof.
  induction tbl as [|[k v] r IH]; cbn [lookup forallb snd]; intros H E; [discriminate|].
  apply andb_true_iff in H as [Hv Hr].
  destruct (k =? t)%Z.
  - inversion E; subst. exact Hv.
  - exact (IH Hr E).
Qed.

Lemma default_text_nonempty t : default_text t <> [].
Proof.
  unfold default_text. destruct (lookup t default_table) as [s|] eqn:E.
  - apply nonempty_spec. exact (lookup_forall nonempty t default_table s default_table_nonempty E).
  - unfold unknown_pre. cbn [app]. discriminate.
Qed.

Lemma app_text_nonempty t m : app_text t m <> [].
Proof. destruct m as [|b m]; cbn [app_text]; [apply default_text_nonempty|discriminate]. Qed.

Lemma app_text_id t m : m <> [] -> app_text t m = m.
Proof. destruct m; [congruence|reflexivity]. Qed.

Lemma app_text_empty t : app_text t [] = default_text t.
Proof. reflexivity. Qed.

Lemma app_ne_r (p x : bytes) : x <> [] -> p ++ x <> [].
Proof. intros Hx H. apply app_eq_nil in H as [_ H]. exact (Hx H). Qed.

(* the three thrift kinds never have an empty Error() text *)
Lemma text_nonempty_thrift e :
  kind_of e = KTransport \/ kind_of e = KProtocol \/ kind_of e = KApp -> text e <> [].
Proof.
  destruct e; cbn [kind_of text]; intros [H|[H|H]]; try discriminate; apply app_text_nonempty.
Qed.

(* ---------- PrependError ---------- *)
Definition kind_after_prepend (k : kind) : kind :=
  match k with
  | KPlain | KWrapped | KOpaque => KPlain
  | KTransport => KTransport
  | KProtocol => KProtocol
  | KApp | KForeign => KApp
  end.

Lemma prepend_kind nid p e : kind_of (prepend nid p e) = kind_after_prepend (kind_of e).
Proof. destruct e; reflexivity. Qed.

Lemma prepend_type_id nid p e : type_id (prepend nid p e) = type_id e.
Proof. destruct e; reflexivity. Qed.

Lemma prepend_id nid p e : forall x, same (prepend nid p e) x = true ->
  match x with
  | Plain i _ | Wrapped i _ _ | Transport i _ _ | Protocol i _ _ _ | App i _ _ | Foreign _ i _ _ | Opaque i _ => i = nid
  end.
Proof.
  intros x. destruct e, x; cbn [prepend new_transport new_protocol new_app same]; intros H;
    try discriminate; lia.
Qed.

Lemma prepend_text_general nid p e :
  kind_of e <> KForeign \/ p ++ text e <> [] -> text (prepend nid p e) = p ++ text e.
Proof.
  intros H.
  destruct e as [i s|i s c|i t m|i t m c|i t m|bv i t s|i s];
    cbn [prepend new_transport new_protocol new_app]; cbn [text];
    try reflexivity;
    try (apply app_text_id, app_ne_r, app_text_nonempty).
  (* foreign *)
  apply app_text_id. destruct H as [H|H]; [cbn [kind_of] in H; congruence|exact H].
Qed.

Lemma prepend_text_foreign_empty nid p e t :
  kind_of e = KForeign -> type_id e = Some t -> p ++ text e = [] ->
  text (prepend nid p e) = default_text t.
Proof.
  destruct e as [i s|i s c|i t' m|i t' m c|i t' m|bv i t' s|i s]; cbn [kind_of]; try discriminate.
  cbn [type_id text prepend new_app]. intros _ E H. inversion E; subst. rewrite H. reflexivity.
Qed.

Lemma prepend_spec nid p e :
  kind_of (prepend nid p e) = kind_after_prepend (kind_of e) /\
  type_id (prepend nid p e) = type_id e /\
  (kind_of e <> KForeign \/ p ++ text e <> [] -> text (prepend nid p e) = p ++ text e) /\
  (forall t, kind_of e = KForeign -> type_id e = Some t -> p ++ text e = [] ->
             text (prepend nid p e) = default_text t /\ default_text t <> p ++ text e).
Proof.
  split; [apply prepend_kind|]. split; [apply prepend_type_id|]. split; [apply prepend_text_general|].
  intros t Hk Ht He. split; [exact (prepend_text_foreign_empty nid p e t Hk Ht He)|].
  rewrite He. apply default_text_nonempty.
Qed.

(* the unrestricted text clause of the property is false for the code as written *)
Definition prepend_text_statement : Prop :=
  forall nid p e, text (prepend nid p e) = p ++ text e.

Lemma prepend_text_statement_false : ~ prepend_text_statement.
Proof.
  intros H. specialize (H 1 [] (Foreign true 0 0%Z [])).
  vm_compute in H. discriminate.
Qed.

(* the prefix concatenation is what Msg() stores, for the thrift kinds *)
Lemma prepend_msg nid p e : kind_of e <> KPlain -> kind_of e <> KWrapped -> kind_of e <> KOpaque ->
  msg_of (prepend nid p e) = Some (p ++ text e).
Proof. destruct e; cbn [kind_of]; intros H1 H2 H3; try congruence; reflexivity. Qed.

Lemma prepend_no_cause nid p e : unwrap (prepend nid p e) = None.
Proof. destruct e; reflexivity. Qed.

(* ---------- errors.Is ---------- *)
(* Go's errors.Is applies [==] only to comparable targets; the modelled non-comparable type is [Opaque] *)
Definition comparable (e : err) : bool := match e with Opaque _ _ => false | _ => true end.

Lemma same_refl e : comparable e = true -> same e e = true.
Proof.
  destruct e as [i s|i s c|i t m|i t m c|i t m|[|] i t s|i s]; cbn [same comparable]; intros Hc;
    try apply N.eqb_refl; try discriminate.
  rewrite Z.eqb_refl. cbn [andb]. now apply beqb_eq.
Qed.

Lemma same_opaque_l i s x : same (Opaque i s) x = false.
Proof. destruct x; reflexivity. Qed.
Lemma same_opaque_r i s x : same x (Opaque i s) = false.
Proof. destruct x as [| | | | |[|]|]; reflexivity. Qed.

Lemma same_sym a b : same a b = same b a.
Proof.
  destruct a as [i s|i s c|i t m|i t m c|i t m|[|] i t s|i s],
           b as [j s'|j s' c'|j t' m'|j t' m' c'|j t' m'|[|] j t' s'|j s']; cbn [same];
    try reflexivity; try apply N.eqb_sym.
  rewrite Z.eqb_sym. f_equal.
  destruct (beqb s s') eqn:E1, (beqb s' s) eqn:E2; try reflexivity.
  - apply beqb_eq in E1. subst. assert (beqb s' s' = true) by now apply beqb_eq. congruence.
  - apply beqb_eq in E2. subst. assert (beqb s s = true) by now apply beqb_eq. congruence.
Qed.

Lemma is_unfold e x :
  is e x = same e x ||
           match e with
           | Protocol _ t m c => (texc_match t m x || is_o c x) || is_o c x
           | Wrapped _ _ c => is c x
           | _ => false
           end.
Proof. destruct e; reflexivity. Qed.

Lemma is_refl e : comparable e = true -> is e e = true.
Proof. intros Hc. rewrite is_unfold, (same_refl e Hc). reflexivity. Qed.

Lemma is_protocol i t m c x :
  is (Protocol i t m c) x = same (Protocol i t m c) x || texc_match t m x || is_o c x.
Proof.
  rewrite is_unfold.
  destruct (same (Protocol i t m c) x), (texc_match t m x), (is_o c x); reflexivity.
Qed.

Lemma texc_match_spec t m x :
  texc_match t m x = true <-> type_id x = Some t /\ text x = m.
Proof.
  unfold texc_match. destruct (type_id x) as [tx|].
  - rewrite andb_true_iff, Z.eqb_eq, beqb_eq. split.
    + intros [-> ->]. split; reflexivity.
    + intros [E ->]. inversion E. split; reflexivity.
  - split; [discriminate|intros [E _]; discriminate].
Qed.

Lemma is_protocol_iff i t m c x :
  is (Protocol i t m c) x = true <->
  same (Protocol i t m c) x = true \/
  (type_id x = Some t /\ text x = m) \/
  (exists c', c = Some c' /\ is c' x = true).
Proof.
  rewrite is_protocol, !orb_true_iff, texc_match_spec. split.
  - intros [[H|H]|H]; [left; exact H|right; left; exact H|].
    right; right. destruct c as [c'|]; cbn [is_o] in H; [exists c'; split; [reflexivity|exact H]|discriminate].
  - intros [H|[H|[c' [-> H]]]]; [left; left; exact H|left; right; exact H|right; exact H].
Qed.

Lemma is_wrapped i s c x : is (Wrapped i s c) x = same (Wrapped i s c) x || is c x.
Proof. reflexivity. Qed.

Lemma is_leaf e x :
  kind_of e <> KProtocol -> kind_of e <> KWrapped -> is e x = same e x.
Proof.
  destruct e; cbn [kind_of]; intros H1 H2; try congruence; cbn [is]; apply orb_false_r.
Qed.

(* ---------- NewProtocolExceptionWithErr ---------- *)
Lemma wrap_identity nid e : kind_of e = KProtocol -> wrap_protocol nid e = e.
Proof. destruct e; cbn [kind_of]; intros H; try discriminate; reflexivity. Qed.

Lemma wrap_shape nid e : kind_of e <> KProtocol ->
  wrap_protocol nid e = Protocol nid thrift_UNKNOWN_PROTOCOL_EXCEPTION (text e) (Some e).
Proof. destruct e; cbn [kind_of]; intros H; try congruence; reflexivity. Qed.

Lemma wrap_keeps_cause nid e : kind_of e <> KProtocol ->
  let r := wrap_protocol nid e in
  kind_of r = KProtocol /\
  type_id r = Some thrift_UNKNOWN_PROTOCOL_EXCEPTION /\
  msg_of r = Some (text e) /\
  unwrap r = Some e /\
  (comparable e = true -> is r e = true) /\
  (forall x, is e x = true -> is r x = true).
Proof.
  intros H r. subst r. rewrite (wrap_shape nid e H).
  repeat split; try reflexivity.
  - intros Hc. rewrite is_protocol. cbn [is_o]. rewrite (is_refl e Hc). apply orb_true_r.
  - intros x Hx. rewrite is_protocol. cbn [is_o]. rewrite Hx. apply orb_true_r.
Qed.

Lemma wrap_kind nid e : kind_of (wrap_protocol nid e) = KProtocol.
Proof. destruct e; reflexivity. Qed.

(* ---------- errors.Is as a walk along the Unwrap chain ---------- *)
Section ErrInd.
  Variable P : err -> Prop.
  Hypothesis HPl : forall i s, P (Plain i s).
  Hypothesis HWr : forall i s c, P c -> P (Wrapped i s c).
  Hypothesis HTr : forall i t m, P (Transport i t m).
  Hypothesis HPn : forall i t m, P (Protocol i t m None).
  Hypothesis HPs : forall i t m c, P c -> P (Protocol i t m (Some c)).
  Hypothesis HAp : forall i t m, P (App i t m).
  Hypothesis HFo : forall bv i t s, P (Foreign bv i t s).
  Hypothesis HOp : forall i s, P (Opaque i s).
  Fixpoint err_ind' (e : err) : P e :=
    match e with
    | Plain i s => HPl i s
    | Wrapped i s c => HWr i s c (err_ind' c)
    | Transport i t m => HTr i t m
    | Protocol i t m None => HPn i t m
    | Protocol i t m (Some c) => HPs i t m c (err_ind' c)
    | App i t m => HAp i t m
    | Foreign bv i t s => HFo bv i t s
    | Opaque i s => HOp i s
    end.
End ErrInd.

(* the objects errors.Unwrap visits starting from e *)
Fixpoint chain (e : err) : list err :=
  e :: match e with
       | Wrapped _ _ c => chain c
       | Protocol _ _ _ (Some c) => chain c
       | _ => []
       end.

Lemma chain_unwrap e : chain e = e :: match unwrap e with Some c => chain c | None => [] end.
Proof. destruct e as [| | |i t m [c|]| | |]; reflexivity. Qed.

(* one link of the chain matches the target: identical, or a protocol exception whose
   (type id, message) equal the target's (type id, text) *)
Definition link_match (y x : err) : bool :=
  same y x || match y with Protocol _ t m _ => texc_match t m x | _ => false end.

Lemma is_chain e x : is e x = existsb (fun y => link_match y x) (chain e).
Proof.
  induction e as [i s|i s c IH|i t m|i t m|i t m c IH|i t m|bv i t s|i s] using err_ind';
    unfold link_match in *.
  - cbn. now rewrite !orb_false_r.
  - rewrite is_wrapped, IH. cbn [chain existsb]. now rewrite orb_false_r.
  - cbn. now rewrite !orb_false_r.
  - rewrite is_protocol. cbn [is_o chain existsb]. now rewrite !orb_false_r.
  - rewrite is_protocol. cbn [is_o]. rewrite IH. cbn [chain existsb]. reflexivity.
  - cbn. now rewrite !orb_false_r.
  - cbn. now rewrite !orb_false_r.
  - cbn. rewrite ?orb_false_r. reflexivity.
Qed.

Lemma is_reaches_chain e y : comparable y = true -> In y (chain e) -> is e y = true.
Proof.
  intros Hy H. rewrite is_chain. apply existsb_exists. exists y. split; [exact H|].
  unfold link_match. now rewrite (same_refl y Hy).
Qed.

Lemma is_trans_chain e c x : In c (chain e) -> is c x = true -> is e x = true.
Proof.
  revert c x.
  induction e as [i s|i s c0 IH|i t m|i t m|i t m c0 IH|i t m|bv i t s|i s] using err_ind';
    intros c x Hin Hc; cbn [chain In] in Hin;
    try (destruct Hin as [<-|[]]; exact Hc).
  - destruct Hin as [<-|Hin]; [exact Hc|]. rewrite is_wrapped, (IH c x Hin Hc). apply orb_true_r.
  - destruct Hin as [<-|Hin]; [exact Hc|]. rewrite is_protocol. cbn [is_o].
    rewrite (IH c x Hin Hc). apply orb_true_r.
Qed.

(* ---------- the forms quoted by Properties/C18.v ---------- *)
Lemma prepend_text_not_foreign nid p e :
  kind_of e <> KForeign -> text (prepend nid p e) = p ++ text e.
Proof. intros H. apply prepend_text_general. left. exact H. Qed.

Lemma wrap_identity_on_protocol nid i t m c :
  wrap_protocol nid (Protocol i t m c) = Protocol i t m c.
Proof. reflexivity. Qed.

Lemma cause_chain_reachable e c x :
  In c (chain e) -> (comparable c = true -> is e c = true) /\ (is c x = true -> is e x = true).
Proof. intros H. split; [intros Hc; exact (is_reaches_chain e c Hc H)|exact (is_trans_chain e c x H)]. Qed.

(* a non-comparable value is matched by nothing — not even by itself — unless a protocol exception on
   the chain matches it by (type id, text), which needs a TypeId method it does not have *)
Lemma is_opaque_target e i s : is e (Opaque i s) = false.
Proof.
  rewrite is_chain. apply Bool.not_true_iff_false. intros H. apply existsb_exists in H as [y [_ Hy]].
  unfold link_match in Hy. rewrite same_opaque_r in Hy. cbn [orb] in Hy.
  destruct y; cbn in Hy; discriminate Hy.
Qed.
