(* Proofs/StrMapP.v — the read-only string map answers like an association list
   (DESIGN 5 C07, Appendix A.5).  Everything is proved for an ARBITRARY hash function and an
   ARBITRARY sort whose result is a permutation sorted by slot (section hypotheses). *)
From GV Require Import Lib.Bytes Lib.Res Gen.Consts Model.StrMap Spec.StrMap Proofs.StrMapLib.
From Coq Require Import ZifyN ZifyNat ZifyBool Permutation Sorted.
Open Scope N_scope.

(* ================= calcHashtableSlots ================= *)

Lemma primes_range :
  forallb (fun p => (1 <=? p)%Z && (p <? 2147483648)%Z) strmap_bits2primes = true.
Proof. vm_compute. reflexivity. Qed.

Lemma slots_range n s : slots n = Ok s -> (1 <= s < 2147483648)%Z.
Proof.
  unfold slots. destruct (nth_error strmap_bits2primes _) as [p|] eqn:E; [|discriminate].
  intros H; inversion H; subst.
  pose proof primes_range as Hr. rewrite forallb_forall in Hr.
  specialize (Hr s (nth_error_In _ _ E)). lia.
Qed.

Lemma primes_enough : (32 <= length strmap_bits2primes)%nat.
Proof. vm_compute. lia. Qed.

Lemma size_le_31 x : x < two31 -> N.size x <= 31.
Proof.
  intros H. destruct (N.leb_spec (N.size x) 31) as [|Hgt]; [assumption|exfalso].
  pose proof (N.size_le x) as Hs.
  assert (2 ^ 32 <= 2 ^ N.size x) by (apply N.pow_le_mono_r; lia).
  change (2 ^ 32) with 4294967296 in *. unfold two31 in H. lia.
Qed.

(* parametric in the load factor: only the length of the prime table matters *)
Lemma slots_ok n : count_ok n -> exists s, slots n = Ok s.
Proof.
  intros [_ Hx]. unfold slots.
  pose proof (size_le_31 _ Hx) as Hs.
  destruct (nth_error strmap_bits2primes _) as [p|] eqn:E.
  - eauto.
  - apply nth_error_None in E. pose proof primes_enough. lia.
Qed.

(* key counts up to any bound that is itself acceptable are acceptable *)
Lemma count_ok_mono n b : n <= b -> count_ok b -> count_ok n.
Proof.
  intros Hnb [Hb Hx]. split; [lia|].
  eapply N.le_lt_trans; [|exact Hx].
  apply N.div_le_mono.
  - destruct (Z.to_N strmap_loadfactor_num) eqn:E; [|discriminate].
    (* a zero numerator: both quotients are 0 *) exfalso. revert E. vm_compute. discriminate.
  - apply N.mul_le_mono_r. exact Hnb.
Qed.

Lemma count_ok_1e5 n : n <= 100000 -> count_ok n.
Proof.
  intros H. apply (count_ok_mono n 100000 H). split; vm_compute; reflexivity.
Qed.

(* ================= the map ================= *)
Section P.
Variable V : Type.
Variable hash : bytes -> N.
Notation item := (item V).
Notation strmap := (strmap V).

(* key bytes of an item inside data; slot of a key in a table of u slots *)
Definition ekey (d : bytes) (e : item) : bytes := match key_of d e with Ok k => k | _ => [] end.
Definition hslot (u : N) (k : bytes) : N := (hash k mod two32) mod u.
Definition good (d : bytes) (u : N) (e : item) : Prop :=
  key_of d e = Ok (ekey d e) /\ islot e = hslot u (ekey d e).
Definition kv (d : bytes) (e : item) : bytes * V := (ekey d e, ival e).

(* value of the first item whose key is s *)
Fixpoint find_key (d : bytes) (s : bytes) (its : list item) : option V :=
  match its with
  | [] => None
  | e :: r => if beqb (ekey d e) s then Some (ival e) else find_key d s r
  end.

Lemma find_key_assoc d s its : find_key d s its = assoc_pairs (map (kv d) its) s.
Proof.
  induction its as [|e r IH]; cbn [find_key map assoc_pairs kv]; [reflexivity|].
  destruct (beqb (ekey d e) s); [reflexivity|exact IH].
Qed.

Lemma find_key_none d u s its :
  Forall (good d u) its -> Forall (fun e => islot e <> hslot u s) its -> find_key d s its = None.
Proof.
  induction its as [|e r IH]; cbn [find_key]; [reflexivity|].
  intros Hg Hs. inversion Hg as [|? ? [_ Hge] Hg']; subst. inversion Hs as [|? ? Hse Hs']; subst.
  destruct (beqb (ekey d e) s) eqn:E.
  - apply beqb_eq in E. subst. congruence.
  - auto.
Qed.

Lemma find_key_app_skip d u s a b :
  Forall (good d u) a -> Forall (fun e => islot e <> hslot u s) a ->
  find_key d s (a ++ b) = find_key d s b.
Proof.
  induction a as [|e r IH]; cbn [app find_key]; [reflexivity|].
  intros Hg Hs. inversion Hg as [|? ? [_ Hge] Hg']; subst. inversion Hs as [|? ? Hse Hs']; subst.
  destruct (beqb (ekey d e) s) eqn:E.
  - apply beqb_eq in E. subst. congruence.
  - auto.
Qed.

(* the collision loop over a slot-sorted tail that starts at or after the probe's slot finds
   exactly what a scan of the whole tail would find *)
Lemma scan_sorted d u s r :
  Forall (good d u) r -> StronglySorted slot_le r ->
  Forall (fun e => hslot u s <= islot e) r ->
  scan d s (hslot u s) r = Ok (find_key d s r).
Proof.
  induction r as [|e r IH]; cbn [scan find_key]; [reflexivity|].
  intros Hg Hs Hle.
  inversion Hg as [|? ? [Hk Hge] Hg']; subst.
  inversion Hs as [|? ? Hs' Hfe]; subst.
  inversion Hle as [|? ? Hle1 Hle']; subst.
  destruct (N.eqb_spec (islot e) (hslot u s)) as [Heq|Hne]; cbn [negb].
  - rewrite Hk. cbn [bind]. destruct (beqb (ekey d e) s); [reflexivity|].
    apply IH; assumption.
  - assert (Hall : Forall (fun x => islot x <> hslot u s) (e :: r)).
    { constructor; [exact Hne|]. rewrite Forall_forall in *. intros x Hx.
      specialize (Hfe x Hx). unfold slot_le in Hfe. lia. }
    pose proof (find_key_none d u s (e :: r) Hg Hall) as Hn. cbn [find_key] in Hn.
    rewrite Hn. reflexivity.
Qed.

(* position of the first item in a slot *)
Fixpoint first_idx (s : N) (its : list item) : option nat :=
  match its with
  | [] => None
  | e :: r => if islot e =? s then Some O else option_map S (first_idx s r)
  end.

Lemma first_idx_none s its : first_idx s its = None -> Forall (fun e => islot e <> s) its.
Proof.
  induction its as [|e r IH]; cbn [first_idx]; [constructor|].
  destruct (N.eqb_spec (islot e) s) as [|Hne]; [discriminate|].
  destruct (first_idx s r); cbn [option_map]; [discriminate|]. intros _. constructor; auto.
Qed.

Lemma first_idx_some s its j : first_idx s its = Some j ->
  exists a e r, its = a ++ e :: r /\ length a = j /\ islot e = s /\ Forall (fun x => islot x <> s) a.
Proof.
  revert j; induction its as [|e r IH]; cbn [first_idx]; intros j; [discriminate|].
  destruct (N.eqb_spec (islot e) s) as [Heq|Hne].
  - intros H; inversion H; subst. exists [], e, r. repeat split. constructor.
  - destruct (first_idx s r) as [j'|]; cbn [option_map]; [|discriminate].
    intros H; inversion H; subst.
    destruct (IH j' eq_refl) as (a & e' & r' & -> & Hl & Hs & Hf).
    exists (e :: a), e', r'. cbn [app length]. repeat split; auto.
Qed.

Definition table_ok (tb : list Z) (its : list item) : Prop :=
  forall s, (s < length tb)%nat ->
    nth_error tb s = Some (match first_idx (N.of_nat s) its with
                           | Some j => Z.of_nat j | None => (-1)%Z end).

(* what every successful load establishes *)
Record loaded (st : strmap) : Prop := mkloaded {
  ld_tab : 1 <= len (table st) < two32;
  ld_n : len (items st) < two31;
  ld_good : Forall (good (data st) (len (table st))) (items st);
  ld_sorted : StronglySorted slot_le (items st);
  ld_table : table_ok (table st) (items st) }.

Lemma nth_error_mid {A} (a : list A) e r : nth_error (a ++ e :: r) (length a) = Some e.
Proof. rewrite nth_error_app2 by lia. now rewrite Nat.sub_diag. Qed.

Theorem get_loaded st s : loaded st -> get hash st s = Ok (find_key (data st) s (items st)).
Proof.
  intros [Htab Hn Hgood Hsorted Htable]. unfold get.
  destruct (N.eqb_spec (len (table st)) 0) as [|_]; [lia|].
  rewrite (N.mod_small (len (table st)) two32) by lia.
  destruct (N.eqb_spec (len (table st)) 0) as [|_]; [lia|].
  assert (Hlt : hslot (len (table st)) s < len (table st)) by (apply N.mod_lt; lia).
  assert (Hlt' : (N.to_nat (hslot (len (table st)) s) < length (table st))%nat).
  { clear -Hlt. unfold len in *. lia. }
  set (u := len (table st)) in *. fold (hslot u s).
  unfold index at 1.
  rewrite (Htable (N.to_nat (hslot u s)) Hlt').
  rewrite N2Nat.id. cbn [bind].
  destruct (first_idx (hslot u s) (items st)) as [j|] eqn:Ej.
  - destruct (first_idx_some _ _ _ Ej) as (a & e & r & Hits & Hl & Hse & Hfa).
    destruct (Z.ltb_spec (Z.of_nat j) 0) as [|_]; [lia|].
    rewrite Hits in *.
    apply Forall_app in Hgood. destruct Hgood as [Hga Hger].
    inversion Hger as [|? ? [Hk Hge] Hgr]; subst.
    apply ssorted_app_inv in Hsorted. destruct Hsorted as (_ & Hser & _).
    inversion Hser as [|? ? Hsr Hfe]; subst.
    unfold index. replace (N.to_nat (Z.to_N (Z.of_nat (length a)))) with (length a) by lia.
    rewrite nth_error_mid. cbn [bind]. rewrite Hk. cbn [bind].
    rewrite (find_key_app_skip _ u) by assumption. cbn [find_key].
    destruct (beqb (ekey (data st) e) s); [reflexivity|].
    rewrite signed32_small by exact Hn.
    assert (Hr : take (Z.to_N (Z.of_N (len (a ++ e :: r)) - (Z.of_nat (length a) + 1)))
                      (drop (Z.to_N (Z.of_nat (length a) + 1)) (a ++ e :: r)) = r).
    { unfold take, drop.
      replace (N.to_nat (Z.to_N (Z.of_nat (length a) + 1))) with (length (a ++ [e]))
        by (rewrite app_length; cbn [length]; lia).
      replace (a ++ e :: r) with ((a ++ [e]) ++ r) at 2 by (rewrite <- app_assoc; reflexivity).
      rewrite skipn_app, skipn_all, Nat.sub_diag. cbn [skipn app].
      apply firstn_all2. unfold len. rewrite app_length. cbn [length]. lia. }
    rewrite Hr. apply scan_sorted; try assumption.
    rewrite Forall_forall in *. intros x Hx. specialize (Hfe x Hx). unfold slot_le in Hfe.
    rewrite <- Hse. exact Hfe.
  - destruct (Z.ltb_spec (-1) 0) as [_|]; [|lia].
    rewrite (find_key_none _ u s); [reflexivity|assumption|].
    now apply first_idx_none.
Qed.

(* ================= LoadFromSlice establishes the invariant ================= *)
Variable sort : list item -> list item.
Hypothesis sort_is_ok : sort_ok sort.
Lemma sort_perm l : Permutation l (sort l).
Proof. apply sort_is_ok. Qed.
Lemma sort_sorted l : Sorted (@slot_le V) (sort l).
Proof. apply sort_is_ok. Qed.

Lemma key_of_mid pre k post (e : item) :
  ioff e = len pre -> isz e = len k -> key_of (pre ++ k ++ post) e = Ok k.
Proof.
  intros Ho Hs. unfold key_of, slice_range. rewrite Ho, Hs.
  destruct (N.leb_spec (len pre) (len pre + len k)) as [_|]; [|lia].
  destruct (N.leb_spec (len pre + len k) (len (pre ++ k ++ post))) as [_|Hc];
    [|rewrite !len_app in Hc; lia].
  cbn [andb]. replace (len pre + len k - len pre) with (len k) by lia.
  rewrite drop_app_len, take_app_len. reflexivity.
Qed.

(* an item as the load loop creates it: its key is readable, its slot is the untruncated hash *)
Definition pregood (d : bytes) (e : item) : Prop :=
  key_of d e = Ok (ekey d e) /\ islot e = hash (ekey d e) mod two32.

Lemma build_spec kk : forall (vv : list V) pre,
  length kk = length vv -> Forall small kk ->
  exists its, build hash (len pre) kk vv = (concat kk, its, Ok tt) /\
    length its = length kk /\
    forall post, map (kv (pre ++ concat kk ++ post)) its = combine kk vv /\
                 Forall (pregood (pre ++ concat kk ++ post)) its.
Proof.
  induction kk as [|k kk IH]; intros vv pre Hlen Hsm.
  - destruct vv; [|discriminate]. exists []. cbn [build concat map combine length].
    repeat split; constructor.
  - destruct vv as [|v vv]; [discriminate|]. cbn [length] in Hlen.
    inversion Hsm as [|? ? Hk Hsm']; subst. unfold small in Hk.
    destruct (IH vv (pre ++ k) ltac:(lia) Hsm') as (its & Hb & Hl & Hpost).
    cbn [build]. destruct (N.ltb_spec max_uint32 (len k)) as [|_]; [lia|].
    rewrite len_app in Hb. rewrite Hb.
    eexists. split; [reflexivity|]. split; [cbn [length]; lia|].
    intros post. cbn [concat].
    assert (Hsz : len k mod two32 = len k).
    { apply N.mod_small. unfold max_uint32, two32 in *. lia. }
    set (e := mkitem (len pre) (len k mod two32) (hash k mod two32) v).
    assert (Hke : key_of (pre ++ (k ++ concat kk) ++ post) e = Ok k).
    { rewrite <- app_assoc. apply key_of_mid; cbn [ioff isz e]; [reflexivity|exact Hsz]. }
    assert (Hek : ekey (pre ++ (k ++ concat kk) ++ post) e = k) by (unfold ekey; now rewrite Hke).
    destruct (Hpost post) as [Hm Hg].
    replace (pre ++ (k ++ concat kk) ++ post) with ((pre ++ k) ++ concat kk ++ post)
      by (rewrite <- !app_assoc; reflexivity).
    replace (pre ++ (k ++ concat kk) ++ post) with ((pre ++ k) ++ concat kk ++ post) in Hke, Hek
      by (rewrite <- !app_assoc; reflexivity).
    split.
    + cbn [map combine]. f_equal; [|exact Hm]. unfold kv. rewrite Hek. reflexivity.
    + constructor; [|exact Hg]. split; [now rewrite Hek|rewrite Hek; reflexivity].
Qed.

Lemma key_of_set_slot d u (e : item) : key_of d (set_slot u e) = key_of d e.
Proof. reflexivity. Qed.

Lemma good_set_slot d u (e : item) : pregood d e -> good d u (set_slot u e).
Proof.
  intros [Hk Hs]. unfold good, ekey. rewrite key_of_set_slot. fold (ekey d e).
  split; [exact Hk|]. cbn [set_slot islot]. rewrite Hs. reflexivity.
Qed.

Lemma kv_set_slot d u (e : item) : kv d (set_slot u e) = kv d e.
Proof. reflexivity. Qed.

(* the second loop of makeHashtable: a slot that is still -1 receives the index of the first
   item that names it; all other entries are left alone *)
Lemma fill_spec its : forall tbl i,
  Forall (fun e => islot e < len tbl) its -> i + len its <= two31 ->
  exists tbl', fill tbl i its = Ok tbl' /\ length tbl' = length tbl /\
    forall s, (s < length tbl)%nat ->
      nth_error tbl' s =
      match nth_error tbl s with
      | Some c => Some (if (c <? 0)%Z
                        then match first_idx (N.of_nat s) its with
                             | Some j => Z.of_N (i + N.of_nat j) | None => c end
                        else c)
      | None => None
      end.
Proof.
  induction its as [|e r IH]; intros tbl i Hsl Hi.
  - exists tbl. cbn [fill first_idx]. repeat split.
    intros s _. destruct (nth_error tbl s) as [c|]; [|reflexivity]. now destruct (c <? 0)%Z.
  - inversion Hsl as [|? ? He Hsl']; subst. rewrite len_cons in Hi.
    cbn [fill]. unfold index.
    assert (Hlt : (N.to_nat (islot e) < length tbl)%nat) by (unfold len in He; lia).
    destruct (nth_error tbl (N.to_nat (islot e))) as [cur|] eqn:Ecur;
      [|apply nth_error_None in Ecur; lia].
    cbn [bind]. rewrite signed32_small by lia.
    set (tbl1 := if (cur <? 0)%Z then upd tbl (N.to_nat (islot e)) (Z.of_N i) else tbl).
    assert (Hl1 : length tbl1 = length tbl) by (unfold tbl1; destruct (cur <? 0)%Z; [apply upd_length|reflexivity]).
    destruct (IH tbl1 (i + 1)) as (tbl' & Hf & Hl' & Hn).
    { unfold len in *. rewrite Hl1. exact Hsl'. }
    { lia. }
    exists tbl'. split; [exact Hf|]. split; [lia|].
    intros s Hs. rewrite Hn by lia. cbn [first_idx].
    destruct (Nat.eq_dec s (N.to_nat (islot e))) as [->|Hne].
    + rewrite N2Nat.id, N.eqb_refl, Ecur. unfold tbl1.
      destruct (Z.ltb_spec cur 0) as [Hneg|Hpos].
      * rewrite nth_error_upd_eq by exact Hlt.
        destruct (Z.ltb_spec (Z.of_N i) 0); [lia|]. f_equal. lia.
      * rewrite Ecur. destruct (Z.ltb_spec cur 0); [lia|reflexivity].
    + destruct (N.eqb_spec (islot e) (N.of_nat s)) as [Heq|_]; [lia|].
      assert (Hsame : nth_error tbl1 s = nth_error tbl s).
      { unfold tbl1. destruct (cur <? 0)%Z; [apply nth_error_upd_ne; congruence|reflexivity]. }
      rewrite Hsame. destruct (nth_error tbl s) as [c|]; [|reflexivity].
      destruct (c <? 0)%Z; [|reflexivity].
      destruct (first_idx (N.of_nat s) r) as [j|]; cbn [option_map]; [|reflexivity].
      f_equal. lia.
Qed.

Lemma sorted_strongly (l : list item) : Sorted slot_le l -> StronglySorted slot_le l.
Proof.
  apply Sorted_StronglySorted. intros a b c. unfold slot_le. lia.
Qed.

Lemma nth_error_const_map {A B} (c : B) (l : list A) s :
  (s < length l)%nat -> nth_error (map (fun _ => c) l) s = Some c.
Proof.
  revert s; induction l as [|x l IH]; intros [|s] H; cbn [map nth_error length] in *; try lia; [reflexivity|].
  apply IH. lia.
Qed.

(* makeHashtable on items as the load loop leaves them *)
Lemma make_hashtable_spec d dc its ic backing :
  Forall (pregood d) its -> count_ok (len its) ->
  exists st', make_hashtable sort d dc its ic backing = (st', Ok tt) /\
    loaded st' /\ data st' = d /\
    Permutation (map (kv d) its) (map (kv d) (items st')).
Proof.
  intros Hpg Hn. unfold make_hashtable.
  destruct (slots_ok _ Hn) as [s Hs]. rewrite Hs.
  pose proof (slots_range _ _ Hs) as Hr.
  destruct (Z.ltb_spec s 0) as [|_]; [lia|].
  set (sn := Z.to_N s).
  assert (Hsn : 1 <= sn < two31) by (unfold sn, two31; lia).
  set (tbsp := if len backing <? sn then (nrepeat 0%Z sn, []) else (take sn backing, drop sn backing)).
  assert (Htb : len (fst tbsp) = sn).
  { unfold tbsp. destruct (N.ltb_spec (len backing) sn); cbn [fst].
    - apply nrepeat_len.
    - apply take_len. assumption. }
  destruct tbsp as [tb sp]. cbn [fst] in Htb.
  rewrite (N.mod_small sn two32) by (unfold two31, two32 in *; lia).
  destruct (N.eqb_spec sn 0) as [|_]; [lia|]. cbn [andb].
  set (its1 := map (set_slot sn) its).
  set (its2 := sort its1).
  set (tb1 := map (fun _ => (-1)%Z) tb).
  assert (Hp : Permutation its1 its2) by apply sort_perm.
  assert (Hg1 : Forall (good d sn) its1).
  { unfold its1. rewrite Forall_map. eapply Forall_impl; [|exact Hpg].
    intros e He. now apply good_set_slot. }
  assert (Hg2 : Forall (good d sn) its2) by (eapply Permutation_Forall; eassumption).
  assert (Hlen2 : len its2 = len its).
  { unfold len. rewrite <- (Permutation_length Hp). unfold its1. now rewrite map_length. }
  assert (Hl1 : len tb1 = sn) by (unfold tb1, len in *; now rewrite map_length).
  assert (Hsl : Forall (fun e => islot e < len tb1) its2).
  { eapply Forall_impl; [|exact Hg2]. intros e [_ He]. rewrite He, Hl1. unfold hslot.
    apply N.mod_lt. lia. }
  destruct (fill_spec its2 tb1 0 Hsl) as (tb2 & Hf & Hl2 & Hnth).
  { rewrite Hlen2. destruct Hn as [Hn _]. unfold two31 in *. lia. }
  rewrite Hf. eexists. split; [reflexivity|].
  assert (Hlt2 : len tb2 = sn) by (unfold len in *; congruence).
  split; [|split; [reflexivity|]].
  - constructor; cbn [table items data].
    + rewrite Hlt2. unfold two31, two32 in *. lia.
    + rewrite Hlen2. apply Hn.
    + rewrite Hlt2. exact Hg2.
    + apply sorted_strongly, sort_sorted.
    + intros x Hx. rewrite Hl2 in Hx. rewrite (Hnth x Hx).
      unfold tb1 at 1. rewrite nth_error_const_map by (unfold tb1 in Hx; now rewrite map_length in Hx).
      destruct (Z.ltb_spec (-1) 0) as [_|]; [|lia].
      destruct (first_idx (N.of_nat x) its2); f_equal; lia.
  - cbn [items].
    replace (map (kv d) its) with (map (kv d) its1).
    + apply Permutation_map. exact Hp.
    + unfold its1. rewrite map_map. apply map_ext. intros e. apply kv_set_slot.
Qed.


(* the loader's first loop finds no key that is too large exactly when all keys are small *)
Lemma no_large_of_small kk : Forall small kk -> existsb (fun k => max_uint32 <? len k) kk = false.
Proof.
  induction 1 as [|k kk Hk _ IH]; [reflexivity|]. cbn [existsb]. rewrite IH.
  unfold small in Hk. destruct (N.ltb_spec max_uint32 (len k)); [lia|reflexivity].
Qed.

Theorem load_ok st kk (vv : list V) :
  length kk = length vv -> Forall small kk -> count_ok (len kk) ->
  exists st', load hash sort st kk vv = (st', Ok tt) /\ loaded st' /\
    Permutation (map (kv (data st')) (items st')) (combine kk vv).
Proof.
  intros Hlen Hsm Hn. unfold load.
  destruct (N.eqb_spec (len kk) (len vv)) as [_|Hne]; [|unfold len in Hne; lia]. cbn [negb].
  rewrite (no_large_of_small kk Hsm).
  destruct (build_spec kk vv [] Hlen Hsm) as (its & Hb & Hl & Hpost).
  change (len (@nil N)) with 0 in Hb. rewrite Hb.
  destruct (Hpost []) as [Hm Hg]. cbn [app] in Hm, Hg. rewrite app_nil_r in Hm, Hg.
  edestruct (make_hashtable_spec (concat kk)) as (st' & Hmk & Hld & Hd & Hperm); [exact Hg| |].
  { unfold len in *. rewrite Hl. exact Hn. }
  exists st'. split; [exact Hmk|]. split; [exact Hld|].
  rewrite Hd. rewrite <- Hm. apply Permutation_sym. exact Hperm.
Qed.

(* ================= the properties ================= *)
Theorem get_spec st kk (vv : list V) s :
  length kk = length vv -> NoDup kk -> loadable kk ->
  snd (load hash sort st kk vv) = Ok tt /\
  get hash (fst (load hash sort st kk vv)) s = Ok (assoc kk vv s).
Proof.
  intros Hlen Hnd [Hsm Hn].
  destruct (load_ok st kk vv Hlen Hsm Hn) as (st' & Hl & Hld & Hp).
  rewrite Hl. cbn [fst snd]. split; [reflexivity|].
  rewrite (get_loaded st' s Hld), find_key_assoc, assoc_combine.
  f_equal. symmetry. apply assoc_pairs_perm; [now apply Permutation_sym|].
  now rewrite map_fst_combine.
Qed.

Theorem len_spec st kk (vv : list V) :
  length kk = length vv -> loadable kk ->
  map_len (fst (load hash sort st kk vv)) = len kk.
Proof.
  intros Hlen [Hsm Hn].
  destruct (load_ok st kk vv Hlen Hsm Hn) as (st' & Hl & Hld & Hp).
  rewrite Hl. cbn [fst]. unfold map_len, len. f_equal.
  apply Permutation_length in Hp. rewrite map_length, combine_length in Hp. lia.
Qed.

Lemma skipn_nth {A} (l : list A) i e : nth_error l i = Some e -> skipn i l = e :: skipn (S i) l.
Proof.
  revert i; induction l as [|x l IH]; intros [|i] H; cbn [nth_error] in H; try discriminate.
  - inversion H; subst. reflexivity.
  - cbn [skipn]. rewrite (IH i H). reflexivity.
Qed.

Lemma item_at_loaded st i e : loaded st -> nth_error (items st) i = Some e ->
  item_at st (Z.of_nat i) = Ok (kv (data st) e).
Proof.
  intros Hld He. unfold item_at.
  destruct (Z.ltb_spec (Z.of_nat i) 0) as [|_]; [lia|].
  unfold index. replace (N.to_nat (Z.to_N (Z.of_nat i))) with i by lia.
  rewrite He. cbn [bind].
  pose proof (ld_good _ Hld) as Hg. rewrite Forall_forall in Hg.
  destruct (Hg e (nth_error_In _ _ He)) as [Hk _]. rewrite Hk. reflexivity.
Qed.

Lemma enumerate_from_loaded st : loaded st -> forall n i,
  (i + n = length (items st))%nat ->
  enumerate_from st (Z.of_nat i) n = Ok (map (kv (data st)) (skipn i (items st))).
Proof.
  intros Hld. induction n as [|n IH]; intros i Hi; cbn [enumerate_from].
  - rewrite skipn_all2 by lia. reflexivity.
  - destruct (nth_error (items st) i) as [e|] eqn:He; [|apply nth_error_None in He; lia].
    rewrite (item_at_loaded st i e Hld He). cbn [bind].
    replace (Z.of_nat i + 1)%Z with (Z.of_nat (S i)) by lia.
    rewrite IH by lia. cbn [bind]. rewrite (skipn_nth _ _ _ He). reflexivity.
Qed.

Theorem items_spec st kk (vv : list V) :
  length kk = length vv -> loadable kk ->
  exists l, enumerate (fst (load hash sort st kk vv)) = Ok l /\ Permutation l (combine kk vv).
Proof.
  intros Hlen [Hsm Hn].
  destruct (load_ok st kk vv Hlen Hsm Hn) as (st' & Hl & Hld & Hp).
  rewrite Hl. cbn [fst]. eexists. split; [|exact Hp].
  unfold enumerate. change 0%Z with (Z.of_nat 0). rewrite enumerate_from_loaded by (assumption || lia).
  reflexivity.
Qed.

(* Item(i) for 0 <= i < Len() is the i-th entry of that enumeration *)
Theorem item_spec st kk (vv : list V) :
  length kk = length vv -> loadable kk ->
  exists l, Permutation l (combine kk vv) /\
    forall i, (i < length kk)%nat ->
      exists kv, nth_error l i = Some kv /\ item_at (fst (load hash sort st kk vv)) (Z.of_nat i) = Ok kv.
Proof.
  intros Hlen [Hsm Hn].
  destruct (load_ok st kk vv Hlen Hsm Hn) as (st' & Hl & Hld & Hp).
  rewrite Hl. cbn [fst]. eexists. split; [exact Hp|].
  intros i Hi.
  assert (Hli : (i < length (items st'))%nat).
  { apply Permutation_length in Hp. rewrite map_length, combine_length in Hp. lia. }
  destruct (nth_error (items st') i) as [e|] eqn:He; [|apply nth_error_None in He; lia].
  exists (kv (data st') e). split.
  - rewrite nth_error_map, He. reflexivity.
  - now apply item_at_loaded.
Qed.

Theorem load_fail_noop st kk (vv : list V) :
  length kk <> length vv -> load hash sort st kk vv = (st, Err 1).
Proof.
  intros H. unfold load. destruct (N.eqb_spec (len kk) (len vv)) as [He|_]; [|reflexivity].
  unfold len in He. lia.
Qed.

(* ... and so does a load refused because a key is too large (since the repair of /repo: the test is made
   before anything is reset): every load that returns an error leaves the map as it was *)
Theorem load_fail_noop_large st kk (vv : list V) :
  length kk = length vv -> ~ Forall small kk -> load hash sort st kk vv = (st, Err 2).
Proof.
  intros Hl Hns. unfold load. destruct (N.eqb_spec (len kk) (len vv)) as [_|Hne]; [|unfold len in Hne; lia].
  cbn [negb]. destruct (existsb (fun k => max_uint32 <? len k) kk) eqn:E; [reflexivity|].
  exfalso. apply Hns. apply Forall_forall. intros k Hk. unfold small.
  destruct (N.ltb_spec max_uint32 (len k)) as [Hlt|Hle]; [|exact Hle].
  assert (existsb (fun k => max_uint32 <? len k) kk = true) as Et.
  { apply existsb_exists. exists k. split; [exact Hk|]. apply N.ltb_lt. exact Hlt. }
  congruence.
Qed.

Theorem load_err_noop st kk (vv : list V) e :
  snd (load hash sort st kk vv) = Err e -> fst (load hash sort st kk vv) = st \/ (Forall small kk /\ length kk = length vv).
Proof.
  intros H. unfold load in *. destruct (negb (len kk =? len vv)) eqn:E1; [left; reflexivity|].
  destruct (existsb (fun k => max_uint32 <? len k) kk) eqn:E2; [left; reflexivity|]. right. split.
  - apply Forall_forall. intros k Hk. unfold small. destruct (N.ltb_spec max_uint32 (len k)) as [Hlt|Hle]; [|exact Hle].
    assert (existsb (fun k => max_uint32 <? len k) kk = true) as Et.
    { apply existsb_exists. exists k. split; [exact Hk|]. apply N.ltb_lt. exact Hlt. }
    congruence.
  - apply Bool.negb_false_iff in E1. apply N.eqb_eq in E1. unfold len in E1. lia.
Qed.

Theorem get_unloaded s : get hash (@new_map V) s = Ok None.
Proof. reflexivity. Qed.

Theorem get_empty st s :
  snd (load hash sort st [] []) = Ok tt /\ get hash (fst (load hash sort st [] [])) s = Ok None.
Proof.
  apply (get_spec st [] [] s); [reflexivity|constructor|].
  split; [constructor|]. split; vm_compute; reflexivity.
Qed.

(* LoadFromMap: whatever order the range loop visits the pairs in *)
Theorem load_map_spec st kk (vv : list V) visit s :
  length kk = length vv -> NoDup kk -> loadable kk ->
  Permutation visit (combine kk vv) ->
  snd (load_map hash sort st visit) = Ok tt /\
  get hash (fst (load_map hash sort st visit)) s = Ok (assoc kk vv s) /\
  map_len (fst (load_map hash sort st visit)) = len kk.
Proof.
  intros Hlen Hnd [Hsm Hn] Hp. unfold load_map.
  assert (Hl : length (map fst visit) = length (map snd visit)) by now rewrite !map_length.
  assert (Hpk : Permutation (map fst visit) kk).
  { rewrite <- (map_fst_combine kk vv Hlen). now apply Permutation_map. }
  assert (Hld : loadable (map fst visit)).
  { split.
    - eapply Permutation_Forall; [apply Permutation_sym; exact Hpk|exact Hsm].
    - unfold len. rewrite (Permutation_length Hpk). exact Hn. }
  assert (Hnd' : NoDup (map fst visit)) by (eapply Permutation_NoDup; [apply Permutation_sym; exact Hpk|exact Hnd]).
  destruct (get_spec st _ _ s Hl Hnd' Hld) as [Hok Hget].
  split; [exact Hok|]. split.
  - rewrite Hget. f_equal. rewrite !assoc_combine, combine_map_fst_snd.
    apply assoc_pairs_perm; [exact Hp|].
    eapply Permutation_NoDup; [apply Permutation_sym; apply Permutation_map; exact Hp|].
    now rewrite map_fst_combine.
  - rewrite len_spec by assumption. unfold len. now rewrite (Permutation_length Hpk).
Qed.

(* histories: after any sequence of loads on one instance -- growing, shrinking, refused --
   the map answers like the pairs of the last accepted load; like nothing if there was none *)
Definition req_ok (q : list bytes * list V) : Prop :=
  length (fst q) = length (snd q) -> NoDup (fst q) /\ loadable (fst q).

Lemma history_gen h : forall st cur,
  (forall s, get hash st s = Ok (answer cur s)) -> Forall req_ok h ->
  forall s, get hash (run_loads hash sort st h) s = Ok (answer (last_accepted cur h) s).
Proof.
  induction h as [|[kk vv] h IH]; intros st cur Hst Hok s; cbn [run_loads last_accepted].
  - apply Hst.
  - inversion Hok as [|? ? Hq Hok']; subst. apply IH; [|exact Hok'].
    intros s'. destruct (Nat.eqb_spec (length kk) (length vv)) as [Heq|Hne].
    + destruct (Hq Heq) as [Hnd Hld]. cbn [fst snd] in *.
      apply (get_spec st kk vv s' Heq Hnd Hld).
    + rewrite load_fail_noop by exact Hne. cbn [fst]. apply Hst.
Qed.

Theorem history_spec h s : Forall req_ok h ->
  get hash (run_loads hash sort new_map h) s = Ok (answer (last_accepted None h) s).
Proof. intros H. apply history_gen; [intros s'; reflexivity|exact H]. Qed.

End P.

(* ================= a concrete sort satisfying the hypotheses ================= *)
(* [isort] (stable insertion sort by slot, used to execute the model) returns a permutation
   sorted by slot, so the section hypotheses above are satisfiable. *)
Section ISort.
Variable V : Type.
Notation item := (item V).

Lemma insert_by_slot_perm (e : item) l : Permutation (e :: l) (insert_by_slot e l).
Proof.
  induction l as [|x r IH]; cbn [insert_by_slot]; [apply Permutation_refl|].
  destruct (islot e <=? islot x); [apply Permutation_refl|].
  eapply perm_trans; [apply perm_swap|]. now apply perm_skip.
Qed.

Lemma isort_perm (l : list item) : Permutation l (isort l).
Proof.
  induction l as [|e l IH]; cbn [isort fold_right]; [constructor|].
  eapply perm_trans; [apply perm_skip; exact IH|]. apply insert_by_slot_perm.
Qed.

Lemma insert_by_slot_sorted (e : item) l :
  Sorted (@slot_le V) l -> Sorted (@slot_le V) (insert_by_slot e l).
Proof.
  induction l as [|x r IH]; cbn [insert_by_slot]; intros Hs.
  - repeat constructor.
  - destruct (N.leb_spec (islot e) (islot x)) as [Hle|Hgt].
    + constructor; [exact Hs|]. constructor. exact Hle.
    + inversion Hs as [|? ? Hr Hhd]; subst. constructor; [now apply IH|].
      destruct r as [|y r']; cbn [insert_by_slot].
      * constructor. unfold slot_le. lia.
      * inversion Hhd; subst. destruct (islot e <=? islot y); constructor; [unfold slot_le; lia|assumption].
Qed.

Lemma isort_sorted (l : list item) : Sorted (@slot_le V) (isort l).
Proof.
  induction l as [|e l IH]; cbn [isort fold_right]; [constructor|].
  now apply insert_by_slot_sorted.
Qed.

Theorem isort_ok : sort_ok (@isort V).
Proof. split; [exact isort_perm|exact isort_sorted]. Qed.

End ISort.
