(* Proofs/StrMapP.v — the read-only string map answers like an association list
   (DESIGN 5 C07, Appendix A.5).  Everything is proved for an ARBITRARY hash function and an
   ARBITRARY sort whose result is a permutation sorted by slot (section hypotheses). *)
From GV Require Import Lib.Bytes Lib.Res Gen.Consts Model.StrMap Spec.StrMap Proofs.StrMapLib.
From Coq Require Import ZifyN ZifyNat ZifyBool Permutation Sorted.
Open Scope N_scope.

(* ================= calcHashtableSlots ================= *)

(* the largest key count calcHashtableSlots accepts is max_items - 1 ("too many items" beyond) *)
Definition max_items : N := 1610612736.   (* 3 * 2^29 *)

Lemma primes_range :
  forallb (fun p => (1 <=? p)%Z && (p <? 2147483648)%Z) strmap_bits2primes = true.
Proof. vm_compute. reflexivity. Qed.

Lemma slots_range n s : slots n = Ok s -> (1 <= s < 2147483648)%Z.
Proof.
  unfold slots. destruct (nth_error strmap_bits2primes _) as [p|] eqn:E; [|discriminate].
  intros H; inversion H; subst.
  pose proof primes_range as Hr. rewrite forallb_forall in Hr.
  specialize (Hr s (nth_error_In _ _ E)). lia.
Qed.

Lemma consts_loadfactor : strmap_loadfactor_num = 3%Z /\ strmap_loadfactor_den = 4%Z.
Proof. split; reflexivity. Qed.

Lemma primes_enough : (32 <= length strmap_bits2primes)%nat.
Proof. vm_compute. lia. Qed.

Lemma size_le_31 x : x < two31 -> N.size x <= 31.
Proof.
  intros H. destruct (N.leb_spec (N.size x) 31) as [|Hgt]; [assumption|exfalso].
  pose proof (N.size_le x) as Hs.
  assert (2 ^ 32 <= 2 ^ N.size x) by (apply N.pow_le_mono_r; lia).
  change (2 ^ 32) with 4294967296 in *. unfold two31 in H. lia.
Qed.

Lemma slots_ok n : n < max_items -> exists s, slots n = Ok s.
Proof.
  intros H. unfold slots.
  destruct consts_loadfactor as [-> ->]. change (Z.to_N 4) with 4. change (Z.to_N 3) with 3.
  assert (Hx : n * 4 / 3 < two31).
  { apply N.div_lt_upper_bound; [lia|]. unfold max_items, two31 in *. lia. }
  pose proof (size_le_31 _ Hx) as Hs.
  destruct (nth_error strmap_bits2primes (N.to_nat (N.size (n * 4 / 3)))) as [p|] eqn:E.
  - eauto.
  - apply nth_error_None in E. pose proof primes_enough. lia.
Qed.

(* ================= the map ================= *)
Section P.
Variable V : Type.
Variable hash : bytes -> N.
Notation item := (item V).
Notation strmap := (strmap V).

Definition slot_le (a b : item) : Prop := islot a <= islot b.

(* key bytes of an item inside data; slot of a key in a table of u slots *)
Definition ekey (d : bytes) (e : item) : bytes := match key_of d e with Ok k => k | _ => [] end.
Definition hslot (u : N) (k : bytes) : N := (hash k mod two32) mod u.
Definition good (d : bytes) (u : N) (e : item) : Prop :=
  key_of d e = Ok (ekey d e) /\ islot e = hslot u (ekey d e).
Definition kv (d : bytes) (e : item) : bytes * V := (ekey d e, ival e).

(* value of the first item whose key is s *)
Fixpoint find_key (d : bytes) (s : bytes) (its : list item) : option V :=
  match its with
  | [] => None
  | e :: r => if beqb (ekey d e) s then Some (ival e) else find_key d s r
  end.

Lemma find_key_assoc d s its : find_key d s its = assoc_pairs (map (kv d) its) s.
Proof.
  induction its as [|e r IH]; cbn [find_key map assoc_pairs kv]; [reflexivity|].
  destruct (beqb (ekey d e) s); [reflexivity|exact IH].
Qed.

Lemma find_key_none d u s its :
  Forall (good d u) its -> Forall (fun e => islot e <> hslot u s) its -> find_key d s its = None.
Proof.
  induction its as [|e r IH]; cbn [find_key]; [reflexivity|].
  intros Hg Hs. inversion Hg as [|? ? [_ Hge] Hg']; subst. inversion Hs as [|? ? Hse Hs']; subst.
  destruct (beqb (ekey d e) s) eqn:E.
  - apply beqb_eq in E. subst. congruence.
  - auto.
Qed.

Lemma find_key_app_skip d u s a b :
  Forall (good d u) a -> Forall (fun e => islot e <> hslot u s) a ->
  find_key d s (a ++ b) = find_key d s b.
Proof.
  induction a as [|e r IH]; cbn [app find_key]; [reflexivity|].
  intros Hg Hs. inversion Hg as [|? ? [_ Hge] Hg']; subst. inversion Hs as [|? ? Hse Hs']; subst.
  destruct (beqb (ekey d e) s) eqn:E.
  - apply beqb_eq in E. subst. congruence.
  - auto.
Qed.

(* the collision loop over a slot-sorted tail that starts at or after the probe's slot finds
   exactly what a scan of the whole tail would find *)
Lemma scan_sorted d u s r :
  Forall (good d u) r -> StronglySorted slot_le r ->
  Forall (fun e => hslot u s <= islot e) r ->
  scan d s (hslot u s) r = Ok (find_key d s r).
Proof.
  induction r as [|e r IH]; cbn [scan find_key]; [reflexivity|].
  intros Hg Hs Hle.
  inversion Hg as [|? ? [Hk Hge] Hg']; subst.
  inversion Hs as [|? ? Hs' Hfe]; subst.
  inversion Hle as [|? ? Hle1 Hle']; subst.
  destruct (N.eqb_spec (islot e) (hslot u s)) as [Heq|Hne]; cbn [negb].
  - rewrite Hk. cbn [bind]. destruct (beqb (ekey d e) s); [reflexivity|].
    apply IH; assumption.
  - assert (Hall : Forall (fun x => islot x <> hslot u s) (e :: r)).
    { constructor; [exact Hne|]. rewrite Forall_forall in *. intros x Hx.
      specialize (Hfe x Hx). unfold slot_le in Hfe. lia. }
    pose proof (find_key_none d u s (e :: r) Hg Hall) as Hn. cbn [find_key] in Hn.
    rewrite Hn. reflexivity.
Qed.

(* position of the first item in a slot *)
Fixpoint first_idx (s : N) (its : list item) : option nat :=
  match its with
  | [] => None
  | e :: r => if islot e =? s then Some O else option_map S (first_idx s r)
  end.

Lemma first_idx_none s its : first_idx s its = None -> Forall (fun e => islot e <> s) its.
Proof.
  induction its as [|e r IH]; cbn [first_idx]; [constructor|].
  destruct (N.eqb_spec (islot e) s) as [|Hne]; [discriminate|].
  destruct (first_idx s r); cbn [option_map]; [discriminate|]. intros _. constructor; auto.
Qed.

Lemma first_idx_some s its j : first_idx s its = Some j ->
  exists a e r, its = a ++ e :: r /\ length a = j /\ islot e = s /\ Forall (fun x => islot x <> s) a.
Proof.
  revert j; induction its as [|e r IH]; cbn [first_idx]; intros j; [discriminate|].
  destruct (N.eqb_spec (islot e) s) as [Heq|Hne].
  - intros H; inversion H; subst. exists [], e, r. repeat split. constructor.
  - destruct (first_idx s r) as [j'|]; cbn [option_map]; [|discriminate].
    intros H; inversion H; subst.
    destruct (IH j' eq_refl) as (a & e' & r' & -> & Hl & Hs & Hf).
    exists (e :: a), e', r'. cbn [app length]. repeat split; auto.
Qed.

Definition table_ok (tb : list Z) (its : list item) : Prop :=
  forall s, (s < length tb)%nat ->
    nth_error tb s = Some (match first_idx (N.of_nat s) its with
                           | Some j => Z.of_nat j | None => (-1)%Z end).

(* what every successful load establishes *)
Record loaded (st : strmap) : Prop := mkloaded {
  ld_tab : 1 <= len (table st) < two32;
  ld_n : len (items st) < two31;
  ld_good : Forall (good (data st) (len (table st))) (items st);
  ld_sorted : StronglySorted slot_le (items st);
  ld_table : table_ok (table st) (items st) }.

Lemma nth_error_mid {A} (a : list A) e r : nth_error (a ++ e :: r) (length a) = Some e.
Proof. rewrite nth_error_app2 by lia. now rewrite Nat.sub_diag. Qed.

Theorem get_loaded st s : loaded st -> get hash st s = Ok (find_key (data st) s (items st)).
Proof.
  intros [Htab Hn Hgood Hsorted Htable]. unfold get.
  destruct (N.eqb_spec (len (table st)) 0) as [|_]; [lia|].
  rewrite (N.mod_small (len (table st)) two32) by lia.
  destruct (N.eqb_spec (len (table st)) 0) as [|_]; [lia|].
  assert (Hlt : hslot (len (table st)) s < len (table st)) by (apply N.mod_lt; lia).
  assert (Hlt' : (N.to_nat (hslot (len (table st)) s) < length (table st))%nat).
  { clear -Hlt. unfold len in *. lia. }
  set (u := len (table st)) in *. fold (hslot u s).
  unfold index at 1.
  rewrite (Htable (N.to_nat (hslot u s)) Hlt').
  rewrite N2Nat.id. cbn [bind].
  destruct (first_idx (hslot u s) (items st)) as [j|] eqn:Ej.
  - destruct (first_idx_some _ _ _ Ej) as (a & e & r & Hits & Hl & Hse & Hfa).
    destruct (Z.ltb_spec (Z.of_nat j) 0) as [|_]; [lia|].
    rewrite Hits in *.
    apply Forall_app in Hgood. destruct Hgood as [Hga Hger].
    inversion Hger as [|? ? [Hk Hge] Hgr]; subst.
    apply ssorted_app_inv in Hsorted. destruct Hsorted as (_ & Hser & _).
    inversion Hser as [|? ? Hsr Hfe]; subst.
    unfold index. replace (N.to_nat (Z.to_N (Z.of_nat (length a)))) with (length a) by lia.
    rewrite nth_error_mid. cbn [bind]. rewrite Hk. cbn [bind].
    rewrite (find_key_app_skip _ u) by assumption. cbn [find_key].
    destruct (beqb (ekey (data st) e) s); [reflexivity|].
    rewrite signed32_small by exact Hn.
    assert (Hr : take (Z.to_N (Z.of_N (len (a ++ e :: r)) - (Z.of_nat (length a) + 1)))
                      (drop (Z.to_N (Z.of_nat (length a) + 1)) (a ++ e :: r)) = r).
    { unfold take, drop.
      replace (N.to_nat (Z.to_N (Z.of_nat (length a) + 1))) with (length (a ++ [e]))
        by (rewrite app_length; cbn [length]; lia).
      replace (a ++ e :: r) with ((a ++ [e]) ++ r) at 2 by (rewrite <- app_assoc; reflexivity).
      rewrite skipn_app, skipn_all, Nat.sub_diag. cbn [skipn app].
      apply firstn_all2. unfold len. rewrite app_length. cbn [length]. lia. }
    rewrite Hr. apply scan_sorted; try assumption.
    rewrite Forall_forall in *. intros x Hx. specialize (Hfe x Hx). unfold slot_le in Hfe.
    rewrite <- Hse. exact Hfe.
  - destruct (Z.ltb_spec (-1) 0) as [_|]; [|lia].
    rewrite (find_key_none _ u s); [reflexivity|assumption|].
    now apply first_idx_none.
Qed.

End P.
