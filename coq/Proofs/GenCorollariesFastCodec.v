(* Proofs/GenCorollariesFastCodec.v — C11_marshal / C11_marshal_unmarshal_* (Properties/C11.v) and
   C12_marshal_rt / C12_marshal_empty_name (Properties/C12.v) restated for fastcodec.go's FastMarshal,
   FastUnmarshal and MarshalFastMsg REGENERATED FROM THE GO SOURCE on every run (Gen/Funcs.v,
   tools/gotrans phase 3), by rewriting with Proofs/GenEquivFastCodec.v.

   Two kinds of statements:
     * the FastCodec is one of the SHIPPED structs, and its three methods are THEMSELVES the
       regenerated definitions (ApplicationException: exception.go; Base: base/k-base.go, with the
       enumeration order [ord] of its map as the oracle): regenerated code all the way down;
     * the FastCodec is ANY payload struct whose method models refine pure functions that round-trip
       (the hypotheses of C12_marshal_rt). *)
From GV Require Import Lib.Bytes Lib.Res Lib.GoSem Gen.Consts Gen.Funcs Model.Binary Spec.Wire Model.Skip Model.Nocopy
     Model.FastCodec Spec.FastSpec Spec.FastRead Proofs.BinaryP Proofs.NocopyLib Proofs.NocopyP Proofs.FastCodecLib
     Proofs.FastCodecP Proofs.GenLib Proofs.GenLib3 Proofs.GenEquiv Proofs.GenEquivFast Proofs.GenEquivAppEx
     Proofs.GenEquivNocopy Proofs.GenCorollariesFast Proofs.GenCorollariesAppEx Proofs.GenCorollariesNocopy
     Proofs.GenEquivFastCodec.
From GV Require Model.Message Proofs.MessageP.
From Coq Require Import ZifyN ZifyNat ZifyBool.
Open Scope N_scope.

(* dirtmake.Bytes(n, n) hands out n bytes of the arbitrary content [dirt] *)
Definition xdirty (dirt : bytes) (n c : Z) : res bytes :=
  if ((n <? 0) || (c <? n))%Z%bool then Panic 7 else Ok (dirty dirt (Z.to_N n)).
Lemma xdirty_ok dirt n : xdirty dirt (Z.of_N n) (Z.of_N n) = Ok (dirty dirt n).
Proof.
  unfold xdirty. destruct (Z.ltb_spec (Z.of_N n) 0); [lia|]. destruct (Z.ltb_spec (Z.of_N n) (Z.of_N n)); [lia|].
  cbn [orb]. rewrite N2Z.id. reflexivity.
Qed.

Definition xdirtbuf (dirt : bytes) (n c : Z) : res bytes :=
  if ((n <? 0) || (c <? n))%Z%bool then Panic 7 else Ok (Model.Message.dirtbuf dirt (Z.to_N n)).
Lemma xdirtbuf_ok dirt n : xdirtbuf dirt (Z.of_N n) (Z.of_N n) = Ok (Model.Message.dirtbuf dirt n).
Proof.
  unfold xdirtbuf. destruct (Z.ltb_spec (Z.of_N n) 0); [lia|]. destruct (Z.ltb_spec (Z.of_N n) (Z.of_N n)); [lia|].
  cbn [orb]. rewrite N2Z.id. reflexivity.
Qed.

(* ---------- the FastCodec is a *thrift.ApplicationException: its methods are the regenerated ones ---------- *)
Section AppExCodec.
  Variable xs : bytes -> Z -> res (Z * gerror).
  Hypothesis xs_ok : forall sub t, wf sub -> sim Z.of_N (xs sub t) (skipf sub t).
  Variable en : bool.
  Variable fuel : nat.

  Definition ax_St : Type := (Z * bytes)%type.     (* the fields t, m of a non-nil receiver *)
  Definition ax_BL (s : ax_St) : res (ax_St * Z) :=
    do (t', m', n) <- g_thrift_ApplicationException_BLength false (fst s) (snd s); Ok ((t', m'), n).
  Definition ax_FW (s : ax_St) (buf : bytes) : res (ax_St * bytes * Z) :=
    do (t', m', b', n) <- g_thrift_ApplicationException_FastWriteNocopy false (fst s) (snd s) buf; Ok ((t', m'), b', n).
  Definition ax_FR (s : ax_St) (buf : bytes) : res (ax_St * Z * gerror) :=
    do (t', m', off, e) <- g_thrift_ApplicationException_FastRead xs fuel en false (fst s) (snd s) buf; Ok ((t', m'), off, e).

  (* C11_marshal, ApplicationException: FastMarshal returns exactly the Thrift encoding, whatever the
     uninitialised buffer held *)
  Theorem g_C11_marshal_appex dirt e :
    (glen (x_msg e) + 15 < 2 ^ 62)%Z ->
    g_thrift_FastMarshal ax_St ax_BL ax_FW (xdirty dirt) (x_type e, x_msg e)
    = Ok ((x_type e, x_msg e), appex_stream (x_msg e) (x_type e)).
  Proof.
    intros Hm. set (s := appex_stream (x_msg e) (x_type e)).
    assert (len s = len (x_msg e) + 15) as Hs.
    { subst s. unfold appex_stream, enc_string_field, enc_i32_field. cbn [enc]. rewrite !len_app, !be_len, !len_cons, !len_nil. lia. }
    assert (len (dirty dirt (len s)) = len s) as Hd by apply len_dirty.
    destruct (g_appex_blen_eq e (dirty dirt (len s)) ltac:(unfold glen_ok, glen in *; lia) ltac:(fold s; lia)) as (EB & _ & EW).
    fold s in EB, EW.
    cbv delta [g_thrift_FastMarshal] beta. unfold ax_BL. cbn [fst snd]. rewrite EB. cbn [bind].
    rewrite xdirty_ok. cbn [bind]. unfold ax_FW. cbn [fst snd]. rewrite EW. cbn [bind].
    rewrite drop_all by lia. rewrite app_nil_r. reflexivity.
  Qed.

  (* C11_marshal_unmarshal, ApplicationException: FastUnmarshal of what FastMarshal returned gives the value back *)
  Theorem g_C11_marshal_unmarshal_appex dirt e e0 :
    appex_ok e -> wf (x_msg e) -> (S (length (appex_stream (x_msg e) (x_type e))) < fuel)%nat ->
    exists bs,
      g_thrift_FastMarshal ax_St ax_BL ax_FW (xdirty dirt) (x_type e, x_msg e) = Ok ((x_type e, x_msg e), bs) /\
      g_thrift_FastUnmarshal ax_St ax_FR bs (x_type e0, x_msg e0) = Ok ((x_type e, x_msg e), gnil).
  Proof.
    intros Hok Wm Hf. exists (appex_stream (x_msg e) (x_type e)).
    destruct Hok as [Hl Hi]. unfold two31 in Hl.
    split; [apply g_C11_marshal_appex; unfold glen; lia|].
    cbv delta [g_thrift_FastUnmarshal] beta. unfold ax_FR. cbn [fst snd].
    rewrite (g_appex_read_ok xs xs_ok en fuel (appex_stream (x_msg e) (x_type e)) e0 e (len (appex_stream (x_msg e) (x_type e)))).
    - reflexivity.
    - apply wf_appex_stream. exact Wm.
    - unfold glen_ok, glen. unfold appex_stream, enc_string_field, enc_i32_field. cbn [enc].
      rewrite !len_app, !be_len, !len_cons, !len_nil. lia.
    - exact Hf.
    - rewrite <- (app_nil_r (appex_stream (x_msg e) (x_type e))) at 1. apply appex_rt_gen. split; assumption.
  Qed.
End AppExCodec.

(* ---------- the FastCodec is a *base.Base: BLength and FastWriteNocopy(buf, nil) are the regenerated ones,
   the enumeration order [ord] of the map is the oracle of both ---------- *)
Section BaseCodec.
  Variables (lg cl ad : bytes) (m : gmap bytes bytes) (ord : list bytes).

  Definition bs_BL (_ : unit) : res (unit * Z) := do r <- g_base_Base_BLength false lg cl ad m ord; Ok (tt, snd r).
  Definition bs_FW (_ : unit) (buf : bytes) : res (unit * bytes * Z) :=
    do r <- g_base_Base_FastWriteNocopy unit nilmeth false lg cl ad m buf true tt ord;
    Ok (tt, snd (fst (fst r)), snd r).

  Theorem g_C11_marshal_base dirt :
    let p := gbase lg cl ad m ord in
    gmap_order_ok m ord -> (Z.of_N (base_blength p) < 2 ^ 62)%Z ->
    g_thrift_FastMarshal unit bs_BL bs_FW (xdirty dirt) tt = Ok (tt, base_stream p).
  Proof.
    intros p Hord Hsz.
    assert (len (dirty dirt (base_blength p)) = base_blength p) as Hd by apply len_dirty.
    cbv delta [g_thrift_FastMarshal] beta. unfold bs_BL.
    rewrite (g_base_BLength_eq m ord lg cl ad) by (fold (gbase lg cl ad m ord); fold p; lia). cbn [bind snd].
    fold (gbase lg cl ad m ord). fold p. rewrite xdirty_ok. cbn [bind]. unfold bs_FW.
    destruct (g_C15_nil_writer_identical nilmeth tt lg cl ad m ord (dirty dirt (base_blength p)) Hord
                ltac:(unfold glen_ok, glen; lia) ltac:(fold p; lia)) as [st' E].
    fold p in E. rewrite E. cbn [bind fst snd]. rewrite drop_all by (rewrite <- base_blength_eq; lia).
    rewrite app_nil_r. reflexivity.
  Qed.
End BaseCodec.

(* ---------- ANY payload struct: the hypotheses of C12_marshal_rt, for method models that refine the pure functions ---------- *)
Section AnyPayload.
  Import Model.Message Proofs.MessageP.
  Variable St : Type.
  Variable mBL : St -> res (St * Z).
  Variable mFW : St -> bytes -> res (St * bytes * Z).
  Variable P : Type.
  Variables (p_blen : P -> N) (p_write : P -> bytes -> res (bytes * N)) (p_read : P -> bytes -> P * res N).
  Variables (p_enc : P -> bytes) (p_target : P -> Prop).
  Hypothesis PC_blen : forall m, p_blen m = len (p_enc m).
  Hypothesis PC_write : forall m s, len (p_enc m) <= len s ->
    p_write m s = Ok (p_enc m ++ drop (len (p_enc m)) s, len (p_enc m)).
  Hypothesis PC_read : forall m0 m rest, p_target m0 -> p_read m0 (p_enc m ++ rest) = (m, Ok (len (p_enc m))).
  Variable repr : St -> P -> Prop.
  Hypothesis bl_ok : forall st msg, repr st msg -> exists st1, mBL st = Ok (st1, Z.of_N (p_blen msg)) /\ repr st1 msg.
  Hypothesis fw_ok : forall st msg buf, repr st msg -> glen_ok buf ->
    rrel (fun bk r => snd (fst r) = fst bk /\ snd r = Z.of_N (snd bk) /\ repr (fst (fst r)) msg) (p_write msg buf) (mFW st buf).

  (* C12_marshal_rt: marshal with the regenerated MarshalFastMsg, unmarshal: same method, sequence id, payload *)
  Theorem g_C12_marshal_rt dirt skipf name ty seq m m0 st :
    repr st m -> (glen name + 12 + Z.of_N (len (p_enc m)) < 2 ^ 63)%Z ->
    name <> [] -> len name < two31 -> in_signed 32 seq -> (ty mod 65536)%Z <> thrift_EXCEPTION -> p_target m0 ->
    exists st' b, g_thrift_MarshalFastMsg St mBL mFW (xdirtbuf dirt) name ty seq st
                  = Ok (st', b, gnil) /\ repr st' m /\
                  b = enc_msg name ty seq ++ p_enc m /\
                  unmarshal_fast_msg P p_read skipf b m0 = Ok (mkures name seq UNil m).
  Proof.
    intros Hr Hsz Hne Hn Hs Hty Ht.
    destruct (marshal_rt P p_blen p_write p_read p_enc p_target PC_blen PC_write PC_read dirt skipf name ty seq m m0 Hne Hn Hs Hty Ht)
      as (b & E1 & E2 & E3).
    pose proof (g_MarshalFastMsg_sim St mBL mFW (xdirtbuf dirt) P p_blen p_write repr bl_ok fw_ok dirt (xdirtbuf_ok dirt)
                  name ty seq st m Hr ltac:(rewrite PC_blen; exact Hsz)) as S.
    rewrite E1 in S. destruct S as (st' & S & Hr'). exists st', b. auto.
  Qed.

  (* C12_marshal_empty_name: an empty method name is reported by MarshalFastMsg itself; nothing is allocated or written *)
  Theorem g_C12_marshal_empty_name xd ty seq st :
    g_thrift_MarshalFastMsg St mBL mFW xd [] ty seq st = Ok (st, (nil : bytes), Some (ecode "thrift.MarshalFastMsg#errors.New")).
  Proof. reflexivity. Qed.
End AnyPayload.

(* ---------- non-vacuity ---------- *)
Example g_fastcodec_nonvacuous :
  g_thrift_FastMarshal ax_St ax_BL ax_FW (xdirty [9; 9; 9]) (6%Z, [7; 8])
  = Ok ((6%Z, [7; 8]), [11; 0; 1; 0; 0; 0; 2; 7; 8; 8; 0; 2; 0; 0; 0; 6; 0]) /\
  g_thrift_FastUnmarshal ax_St (ax_FR xskip true 40) [11; 0; 1; 0; 0; 0; 2; 7; 8; 8; 0; 2; 0; 0; 0; 6; 0] (0%Z, [])
  = Ok ((6%Z, [7; 8]), gnil) /\
  g_thrift_FastUnmarshal ax_St (ax_FR xskip true 40) [11; 0; 1; 0; 0; 0; 9; 7] (0%Z, []) = Ok ((0%Z, []), Some e_read_str) /\
  g_thrift_FastMarshal unit (bs_BL [1] [] [] (Some [([5], [6])]) [[5]]) (bs_FW [1] [] [] (Some [([5], [6])]) [[5]]) (xdirty []) tt
  = Ok (tt, [11; 0; 1; 0; 0; 0; 1; 1; 11; 0; 2; 0; 0; 0; 0; 11; 0; 3; 0; 0; 0; 0; 13; 0; 6; 11; 11; 0; 0; 0; 1; 0; 0; 0; 1; 5; 0; 0; 0; 1; 6; 0]).
Proof. vm_compute. repeat split. Qed.
