(* Proofs/C08P.v — C08 assembled: from "model accepts exactly when its reference instance does"
   (SkipP, SkipDecodersP, SkipInstP, StreamSkipP/StreamSkipInst) and "reference vs grammar" (RefP)
   to the statements of the property about each of the five skippers against the grammar
   (GrammarP, engineer skipv): exact below 64 levels, never a wrong extent, rejection from 65,
   rejection of everything the grammar rejects (truncation, negative sizes, unknown tags that
   have to be parsed), rejection of every strict prefix of a valid encoding, and "accepted =>
   the bytes are the encoding of a well-typed value".  Plus the finding: with >= 2^31 bytes of
   input the template accepts a string length with the sign bit set. *)
From GV Require Import Lib.Bytes Lib.Res Gen.Consts Spec.Cursor Model.Binary Model.BufReader Model.Skip
  Model.StreamSkip Model.SkipDecoders Spec.ThriftGrammar Spec.RefParse
  Proofs.RefLib Proofs.RefP Proofs.SkipLib Proofs.SkipP Proofs.SkipDecodersP Proofs.ReadFullP Proofs.SkipInstP
  Proofs.StreamSkipP Proofs.BufReaderP Proofs.StreamSkipInst Proofs.GrammarP.
From Coq Require Import ZifyN ZifyNat ZifyBool Lia.
Open Scope N_scope.

(* ---------- extents reported by the decoders and stream skippers, as [res N] ---------- *)
Definition ext_of {St} (x : sres St bytes) : res N :=
  match snd x with Ok out => Ok (len out) | Err e => Err e | Panic w => Panic w | OOB => OOB end.
Definition bs_extent (b : bytes) (t : N) : res N := ext_of (bs_next (bs_new b) t).
Definition rf_extent (src : source) (blen : N) (t : N) : res N := ext_of (rf_next (rf_new src blen) t).
Definition pk_extent (st : rstate) (rn0 : N) (t : N) : res N := ext_of (pk_next {| pk_r := st; pk_rn := rn0 |} t).
(* BufferReader.Skip: the growth of ReadLen *)
Definition br_extent (st : rstate) (t : N) : res N :=
  match br_skip st t with
  | (st', Ok _) => Ok (r_readlen st' - r_readlen st)
  | (_, Err e) => Err e | (_, Panic w) => Panic w | (_, OOB) => OOB
  end.

(* ---------- "accepts exactly when the reference does" ---------- *)
Definition acc_iff_ref (x : res N) (i : inl) (t : N) (r : bytes) : Prop :=
  (forall n, x = Ok n <-> refparse i 64 t r = Ok n) /\
  ((exists n, x = Ok n) \/ (exists c, x = Err c /\ c <> e_fuel)).

Lemma gp_nocrash f : forall t, nocrash (gp f t).
Proof.
  induction f as [|f IH]; intros t r; [right; eexists; reflexivity|].
  rewrite gp_S. apply lvl_nocrash.
  - exact IH.
  - intros kt vt. apply gpair_nocrash; apply IH.
  - exact IH.
Qed.
Lemma gparse_total t r : (exists x, gparse t r = Ok x) \/ (exists e, gparse t r = Err e).
Proof. apply gp_nocrash. Qed.

(* the zones of the property, for any skipper that is its reference instance *)
Section Zones.
  Variables (x : res N) (i : inl) (t : N) (r : bytes).
  Hypothesis HX : acc_iff_ref x i t r.

  Lemma z_rejects_unless_ref : (forall n, refparse i 64 t r <> Ok n) -> exists c, x = Err c /\ c <> e_fuel.
  Proof.
    intros Hn. destruct HX as [Hiff [[n E]|E]]; [|exact E]. apply Hiff in E. destruct (Hn n E).
  Qed.

  (* exact agreement up to 63 levels *)
  Lemma z_exact_le63 n h : gparse t r = Ok (n, h) -> (h <= 63)%nat -> x = Ok n.
  Proof. intros G Hh. apply (proj1 HX). eapply ref_agrees; eauto. lia. Qed.

  (* never a different extent, never accepts what the grammar rejects, never deeper than 64 *)
  Lemma z_sound n : x = Ok n -> exists h, (h <= 64)%nat /\ gparse t r = Ok (n, h).
  Proof. intros E. apply (proj1 HX) in E. apply ref_sound in E. exact E. Qed.

  (* 65 levels or more: always rejected *)
  Lemma z_rejects_ge65 n h : gparse t r = Ok (n, h) -> (65 <= h)%nat -> exists c, x = Err c /\ c <> e_fuel.
  Proof.
    intros G Hh. apply z_rejects_unless_ref. intros n' E.
    apply ref_sound in E as [h' [Hle G']]. rewrite G in G'. assert (h = h') by congruence. lia.
  Qed.

  (* whatever the grammar rejects is rejected: truncation, negative sizes, unknown tags *)
  Lemma z_rejects_malformed e : gparse t r = Err e -> exists c, x = Err c /\ c <> e_fuel.
  Proof.
    intros G. apply z_rejects_unless_ref. intros n' E.
    apply ref_sound in E as [h' [_ G']]. rewrite G in G'. discriminate.
  Qed.

  (* what is accepted is the encoding of a well-typed value of height <= 64 *)
  Lemma z_accepts_values n : wf r -> x = Ok n ->
    exists v, wt t v = true /\ enc v = take n r /\ (ch v <= 64)%nat.
  Proof.
    intros W E. apply z_sound in E as [h [Hh G]].
    destruct (gparse_sound t r n h G W) as [v (Hw & He & Hc)]. exists v. repeat split; auto. lia.
  Qed.
End Zones.

(* every strict prefix of a valid encoding is rejected *)
Lemma z_prefix_rejected (f : bytes -> res N) i t v p s :
  acc_iff_ref (f p) i t p -> wt t v = true -> enc v = p ++ s -> s <> [] ->
  exists c, f p = Err c /\ c <> e_fuel.
Proof.
  intros HX Hw He Hs. destruct (gparse_total t p) as [[[n h] G]|[e G]].
  - destruct (enc_prefix_free t v p s Hw He Hs n h G).
  - eapply z_rejects_malformed; eauto.
Qed.

(* ---------- the five skippers are their reference instances ---------- *)
Lemma binary_acc b t : wf b -> t < 256 -> acc_iff_ref (binary_skip b t) inl_all t b.
Proof.
  intros W Ht. split.
  - intros n. apply bskip_is_ref; assumption.
  - apply bskip_total; assumption.
Qed.

Lemma bs_acc b t : wf b -> t < 256 -> acc_iff_ref (bs_extent b t) inl_none t b.
Proof.
  intros W Ht. pose proof (bs_next_is_ref b t 64 W Ht) as T.
  pose proof (rp_good inl_none 64 t b) as G.
  unfold acc_iff_ref, bs_extent, ext_of, bs_next. rewrite depth_ok.
  split; [intros n; rewrite ref_inv|];
    destruct (rp inl_none 64 t b) as [[n' h]|e| |]; try contradiction.
  - specialize (G n' h eq_refl). rewrite T. cbn [snd]. rewrite take_len by lia. split.
    + intros E. exists h. congruence.
    + intros [h' E]. congruence.
  - destruct T as [s [c [E _]]]. rewrite E. cbn [snd]. split; [discriminate|intros [h' E']; discriminate].
  - rewrite T. cbn [snd]. left. eauto.
  - destruct T as [s [c [E Hc]]]. rewrite E. cbn [snd]. right. eauto.
Qed.

Lemma rf_acc src blen t :
  wf (sdata src) -> spos src <= len (sdata src) -> sfinal src <> e_fuel -> t < 256 ->
  acc_iff_ref (rf_extent src blen t) inl_none t (drop (spos src) (sdata src)).
Proof.
  intros W Hp Hf Ht. pose proof (rf_next_is_ref src blen t 64 W Hp Hf Ht) as T.
  set (r := drop (spos src) (sdata src)) in *.
  pose proof (rp_good inl_none 64 t r) as G.
  unfold acc_iff_ref, rf_extent, ext_of, rf_next. rewrite depth_ok.
  split; [intros n; rewrite ref_inv|];
    destruct (rp inl_none 64 t r) as [[n' h]|e| |]; try contradiction.
  - specialize (G n' h eq_refl). destruct T as [s' [E _]]. rewrite E. cbn [snd]. rewrite take_len by lia. split.
    + intros E'. exists h. congruence.
    + intros [h' E']. congruence.
  - destruct T as [s [c [E _]]]. rewrite E. cbn [snd]. split; [discriminate|intros [h' E']; discriminate].
  - destruct T as [s' [E _]]. rewrite E. cbn [snd]. left. eauto.
  - destruct T as [s [c [E Hc]]]. rewrite E. cbn [snd]. right. eauto.
Qed.

Lemma pk_acc S c st rn0 t :
  wf S -> SAt S c st -> t < 256 ->
  acc_iff_ref (pk_extent st rn0 t) inl_none t (drop c S).
Proof.
  intros W A Ht.
  assert (Hc : c <= len S) by (destruct A as (F & CH & HI & _); eapply rinv_cursor_le; eauto).
  pose proof (pk_next_is_ref_closed S c st t 64 rn0 W A Hc Ht) as T.
  set (r := drop c S) in *.
  pose proof (rp_good inl_none 64 t r) as G.
  unfold acc_iff_ref, pk_extent, ext_of, pk_next. rewrite depth_ok.
  split; [intros n; rewrite ref_inv|];
    destruct (rp inl_none 64 t r) as [[n' h]|e| |]; try contradiction.
  - specialize (G n' h eq_refl). destruct T as [s' [E _]]. rewrite E. cbn [snd]. rewrite take_len by lia. split.
    + intros E'. exists h. congruence.
    + intros [h' E']. congruence.
  - destruct T as [s [c' [E _]]]. rewrite E. cbn [snd]. split; [discriminate|intros [h' E']; discriminate].
  - destruct T as [s' [E _]]. rewrite E. cbn [snd]. left. eauto.
  - destruct T as [s [c' [E Hc']]]. rewrite E. cbn [snd]. right. eauto.
Qed.

Lemma br_acc S c st t :
  wf S -> SAt S c st -> t < 256 ->
  acc_iff_ref (br_extent st t) inl_br t (drop c S).
Proof.
  intros W A Ht.
  assert (Hc : c <= len S) by (destruct A as (F & CH & HI & _); eapply rinv_cursor_le; eauto).
  pose proof (brskip_is_ref_closed S c st t 64 W A Hc Ht) as T.
  set (r := drop c S) in *.
  unfold acc_iff_ref, br_extent, br_skip. rewrite depth_ok.
  split; [intros n; rewrite ref_inv|];
    destruct (rp inl_br 64 t r) as [[n' h]|e| |]; try contradiction.
  - destruct T as [st' [E [_ Hr]]]. rewrite E. rewrite Hr. replace (r_readlen st + n' - r_readlen st) with n' by lia. split.
    + intros E'. exists h. congruence.
    + intros [h' E']. congruence.
  - destruct T as [s [c' [E _]]]. rewrite E. split; [discriminate|intros [h' E']; discriminate].
  - destruct T as [st' [E _]]. rewrite E. left. eauto.
  - destruct T as [s [c' [E Hc']]]. rewrite E. right. eauto.
Qed.

(* ---------- regression of the repaired finding (commit 2c7f196) ----------
   Before the repair the template read a STRING length as int(uint32) and BufferReader read container
   counts as int(uint32): a size with the sign bit set followed by >= 2^31 bytes was ACCEPTED (the
   statements below were refuted by 80 00 00 00 ++ 2^31 bytes / 02 80 00 00 00 ++ 2^31 bytes).  Now every
   skipper is its reference instance for inputs of ANY length, so a negative declared size that the
   parse reaches is rejected whatever follows it. *)
Lemma len_repeat {A} (x : A) n : len (repeat x n) = N.of_nat n.
Proof. unfold len. rewrite repeat_length. reflexivity. Qed.
Lemma wf_repeat0 n : wf (repeat 0 n).
Proof. unfold wf. apply Forall_forall. intros x Hx. apply repeat_spec in Hx. subst. unfold wfb. lia. Qed.

(* the former witnesses, with a tail of any length (2^31 included): grammar and skippers reject *)
Lemma neg_string_rejected tail : wf tail ->
  let b := be 4 two31 ++ tail in
  gparse T_STRING b = Err E_NEGSIZE /\ (exists c, bs_extent b T_STRING = Err c /\ c <> e_fuel) /\
  (exists c, binary_skip b T_STRING = Err c /\ c <> e_fuel).
Proof.
  intros W b.
  assert (Wb : wf b) by (apply wf_app; [apply be_wf|exact W]).
  assert (Hu : unbe (take 4 b) = two31).
  { unfold b. rewrite be4_take. apply unbe_be4. apply two31_lt_two32. }
  assert (G : gparse T_STRING b = Err E_NEGSIZE).
  { unfold gparse; destruct (length b) eqn:E; cbn [gp]; change (kind_of T_STRING) with KString;
      unfold gstring; unfold b at 1; rewrite be4_hasn, Hu, N.leb_refl; reflexivity. }
  split; [exact G|]. split.
  - exact (z_rejects_malformed _ _ _ _ (bs_acc b T_STRING Wb ltac:(unfold T_STRING; lia)) _ G).
  - exact (z_rejects_malformed _ _ _ _ (binary_acc b T_STRING Wb ltac:(unfold T_STRING; lia)) _ G).
Qed.

Lemma neg_count_rejected tail : wf tail ->
  let S := 2 :: be 4 two31 ++ tail in
  let st := new_bytes_reader S (len S) in
  gparse T_LIST S = Err E_NEGSIZE /\ (exists c, br_extent st T_LIST = Err c /\ c <> e_fuel).
Proof.
  intros W S st.
  assert (WS : wf S).
  { unfold S. constructor; [unfold wfb; lia|]. apply wf_app; [apply be_wf|exact W]. }
  assert (A : SAt S 0 st) by (apply sat_new_bytes_reader; lia).
  assert (G : gparse T_LIST S = Err E_NEGSIZE).
  { unfold gparse. destruct (length S) eqn:E; [discriminate|]. unfold S at 1. cbn [gp].
    change (kind_of T_LIST) with KList. cbv iota. rewrite be4_hasn. cbv zeta.
    rewrite be4_take, unbe_be4 by apply two31_lt_two32. rewrite N.leb_refl. reflexivity. }
  split; [exact G|].
  exact (z_rejects_malformed _ _ _ _ (br_acc S 0 st T_LIST WS A ltac:(unfold T_LIST; lia)) _ G).
Qed.
