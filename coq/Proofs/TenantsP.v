(* Proofs/TenantsP.v — many tenants over one world (Model/Tenants.v): the single-object
   ownership invariants of C09, each stated with "the rest of the world" X := the other tenants'
   blocks with their present contents, hold together in every reachable state. *)
From Coq Require Import ZifyN ZifyNat ZifyBool Permutation.
From GV Require Import Lib.Bytes Lib.Res Lib.Heap Model.Own Model.OwnReader Model.OwnWriter Model.OwnSkipDec Model.Tenants
  Spec.Ownership Spec.OwnRegions Proofs.OwnLib Proofs.OwnTrace Proofs.OwnReaderP Proofs.OwnWriterP Proofs.OwnSkipDecP.
Open Scope N_scope.

Definition tstate := (tenant * list event)%type.
Definition allfoot (ts : list tstate) : list nat := concat (map (fun p => footprint (fst p)) ts).
Fixpoint others (ts : list tstate) (i : nat) : list nat :=
  match ts with
  | [] => []
  | p :: r => match i with O => allfoot r | S i' => footprint (fst p) ++ others r i' end
  end.
Definition snap (h : heap) (l : list nat) : list (nat * bytes) := map (fun b => (b, block h b)) l.

Lemma xblocks_snap h l : xblocks (snap h l) = l.
Proof. unfold xblocks, snap. rewrite map_map. cbn. apply map_id. Qed.
Lemma xsnap_snap h l : xsnap (snap h l) h.
Proof. unfold xsnap, snap. rewrite Forall_forall. intros p Hp. apply in_map_iff in Hp as (b & <- & _). reflexivity. Qed.
Lemma snap_same h h' l : same_on l h h' -> snap h' l = snap h l.
Proof. intros Hs. unfold snap. apply map_ext_in. intros b Hb. now rewrite (Hs b Hb). Qed.
Lemma xsnap_same_on h h' l : xsnap (snap h l) h' -> same_on l h h'.
Proof.
  unfold xsnap, snap. rewrite Forall_forall. intros H b Hb.
  apply (H (b, block h b)). apply in_map_iff. now exists b.
Qed.

Lemma allfoot_cons p r : allfoot (p :: r) = footprint (fst p) ++ allfoot r.
Proof. reflexivity. Qed.
Lemma allfoot_app a b : allfoot (a ++ b) = allfoot a ++ allfoot b.
Proof. unfold allfoot. now rewrite map_app, concat_app. Qed.

Lemma others_perm : forall ts i t tr, nth_error ts i = Some (t, tr) -> Permutation (footprint t ++ others ts i) (allfoot ts).
Proof.
  induction ts as [|p r IH]; intros [|i] t tr H; cbn [nth_error others] in *; try discriminate.
  - inversion H; subst. apply Permutation_refl.
  - rewrite allfoot_cons. specialize (IH _ _ _ H).
    rewrite app_assoc. eapply perm_trans; [apply Permutation_app_tail, Permutation_app_comm|].
    rewrite <- app_assoc. now apply Permutation_app_head.
Qed.
Lemma others_set_same : forall ts i x, others (set_nth i x ts) i = others ts i.
Proof.
  induction ts as [|p r IH]; intros [|i] x; cbn [set_nth others]; try reflexivity. now rewrite IH.
Qed.
Lemma allfoot_set : forall ts i t tr x, nth_error ts i = Some (t, tr) ->
  Permutation (allfoot (set_nth i x ts)) (footprint (fst x) ++ others ts i).
Proof.
  induction ts as [|p r IH]; intros [|i] t tr x H; cbn [nth_error set_nth others] in *; try discriminate.
  - apply Permutation_refl.
  - rewrite allfoot_cons. specialize (IH _ _ _ x H).
    eapply perm_trans; [apply Permutation_app_head, IH|].
    rewrite !app_assoc. apply Permutation_app_tail, Permutation_app_comm.
Qed.
Lemma nth_error_set_nth_eq {A} : forall (l : list A) i x, (i < length l)%nat -> nth_error (set_nth i x l) i = Some x.
Proof. induction l as [|y l IH]; intros [|i] x H; cbn in *; try lia; [reflexivity|apply IH; lia]. Qed.
Lemma nth_error_set_nth_ne {A} : forall (l : list A) i j x, i <> j -> nth_error (set_nth i x l) j = nth_error l j.
Proof. induction l as [|y l IH]; intros [|i] [|j] x H; cbn; try congruence; try reflexivity. apply IH. congruence. Qed.
Lemma others_app_old : forall ts i x, (i < length ts)%nat -> others (ts ++ [x]) i = others ts i ++ footprint (fst x).
Proof.
  induction ts as [|p r IH]; intros [|i] x H; cbn [length app others] in *; try lia.
  - rewrite allfoot_app. cbn [allfoot map concat]. now rewrite app_nil_r.
  - rewrite IH by lia. now rewrite app_assoc.
Qed.
Lemma others_app_new : forall ts x, others (ts ++ [x]) (length ts) = allfoot ts.
Proof.
  induction ts as [|p r IH]; intros x; cbn [length app others]; [reflexivity|]. now rewrite IH.
Qed.

(* the footprints of Model/Tenants.v are those of the single-object proofs *)
Lemma footprint_TR st : footprint (TR st) = rowned st ++ [] ++ rcaller st. Proof. reflexivity. Qed.
Lemma footprint_TW st : footprint (TW st) = wowned st ++ wlent st ++ wgiven st. Proof. reflexivity. Qed.
Lemma footprint_TK st : footprint (TK st) = kowned st ++ [] ++ []. Proof. reflexivity. Qed.

(* the single-object invariant of a tenant, against the rest of the world X *)
Definition tinv (X : list (nat * bytes)) (t : tenant) (e : env) : Prop :=
  match t with
  | TR st => rinv X (sdata (rsrc st)) st e
  | TW st => winv X st e
  | TK st => kinv X st e
  end.
Definition tinv_e (X : list (nat * bytes)) (t : tenant) (e : env) : Prop :=
  match t with
  | TR st => einv X (rowned st) [] (rcaller st) e
  | TW st => einv X (wowned st) (wlent st) (wgiven st) e
  | TK st => einv X (kowned st) [] [] e
  end.
Lemma tinv_einv X t e : tinv X t e -> tinv_e X t e.
Proof. destruct t; cbn; intros H; [exact (rv_e _ _ _ _ H)|exact (wv_e _ _ _ H)|exact (kv_e _ _ _ H)]. Qed.

(* moving a tenant's invariant to another world that agrees on its footprint *)
Lemma tinv_transfer X X' t e e' :
  tinv X t e -> tinv_e X' t e' -> same_on (footprint t) (wh (ew e)) (wh (ew e')) -> tinv X' t e'.
Proof.
  destruct t as [st|st|st]; cbn [tinv tinv_e]; intros Hi He Hs.
  - apply rinv_of; [exact He|]. eapply rshape_frame; [exact (rinv_shape _ _ _ _ Hi)|].
    intros b Hb. apply Hs. rewrite footprint_TR. cbn [app]. exact Hb.
  - destruct Hi as [A B C D E F G G' H]. apply winv_of; try assumption.
    eapply wshape_frame; [split; eassumption|]. intros b Hb. apply Hs. rewrite footprint_TW. now apply In_wblocks_foot.
  - destruct Hi as [Ie Is Ib Ic Ir].
    assert (Hblk : forall b, In b (kowned st) -> block (wh (ew e')) b = block (wh (ew e)) b).
    { intros b Hb. apply Hs. rewrite footprint_TK. rewrite !app_nil_r. exact Hb. }
    split; try assumption.
    + destruct (kb st) as [s|] eqn:Hb; [|assumption]. unfold whole in *.
      rewrite Hblk by (unfold kowned; rewrite Hb; now left). assumption.
    + intros H. specialize (Ic H). destruct (kb st) as [s|] eqn:Hb; [|exact I].
      rewrite <- Ic. apply rd_same. apply Hblk. unfold kowned. rewrite Hb. now left.
    + destruct (kres st) as [l|]; [|exact I]. destruct Ir as [A B]. split; [assumption|].
      rewrite <- B. apply rd_same. now apply Hblk.
Qed.

(* the einv of a tenant in a new world, from the global separation *)
Lemma einv_rebase X X' O L R e e' :
  einv X O L R e -> wok (ew e') -> sep (O ++ L ++ R ++ xblocks X') (ew e') -> xsnap X' (wh (ew e')) ->
  eev e' = eev e -> einv X' O L R e'.
Proof. intros [A B C D] Wk Sp Hx Ht. split; try assumption. now rewrite Ht. Qed.
Lemma tinv_e_rebase X X' t e e' :
  tinv_e X t e -> wok (ew e') -> sep (footprint t ++ xblocks X') (ew e') -> xsnap X' (wh (ew e')) ->
  eev e' = eev e -> tinv_e X' t e'.
Proof.
  destruct t as [st|st|st]; cbn [tinv_e]; intros He Wk Sp Hx Ht; eapply einv_rebase; try eassumption.
  - rewrite footprint_TR in Sp. now rewrite <- !app_assoc in Sp.
  - rewrite footprint_TW in Sp. now rewrite <- !app_assoc in Sp.
  - rewrite footprint_TK in Sp. now rewrite <- !app_assoc in Sp.
Qed.

(* ---------- the global invariant ---------- *)
Record ginv (g : gstate) : Prop := mkginv {
  gi_wok : wok (gw g);
  gi_sep : sep (allfoot (gts g)) (gw g);
  gi_each : forall i t tr, nth_error (gts g) i = Some (t, tr) ->
              tinv (snap (wh (gw g)) (others (gts g) i)) t (env_of (gw g) tr)
}.

(* well-formed steps: sources start inside their data *)
Definition top_wf (o : top) : Prop := match o with OpK k => kop_wf k | _ => True end.
Definition gstep_wf (s : gstep) : Prop :=
  match s with
  | GOp _ o _ _ _ => top_wf o
  | GNewReader src => spos src = 0
  | GNewSkip src => spos src <= len (sdata src)
  | _ => True
  end.

Lemma t_step_inv X t e o t' e' out :
  top_wf o -> tinv X t e -> t_step t e o = (t', e', out) -> tinv X t' e'.
Proof.
  intros Hwf Hi E. destruct t as [st|st|st], o as [op|op|op]; cbn [t_step] in E;
    try (inversion E; subst; exact Hi).
  - destruct (h_step st e op) as [[st' e1] o1] eqn:Es. inversion E; subst; clear E. cbn [tinv] in *.
    pose proof (h_step_inv _ _ _ _ _ _ _ _ Hi Es) as Hi'.
    assert (Hsd : sdata (rsrc st') = sdata (rsrc st)) by (destruct (rv_S _ _ _ _ Hi') as [H _]; exact H).
    now rewrite Hsd.
  - destruct (w_step st e op) as [[st' e1] o1] eqn:Es. inversion E; subst; clear E. cbn [tinv] in *.
    eapply w_step_inv; eassumption.
  - destruct (k_step st e op) as [[st' e1] o1] eqn:Es. inversion E; subst; clear E. cbn [tinv] in *.
    eapply k_step_inv; eassumption.
Qed.

Lemma tinv_env X t e e' : ew e' = ew e -> eev e' = eev e -> tinv X t e -> tinv X t e'.
Proof.
  intros Hw Ht. destruct t; cbn [tinv]; intros Hi.
  - eapply rinv_env; eassumption.
  - eapply winv_env; eassumption.
  - eapply kinv_env; eassumption.
Qed.

Lemma sep_of_einv_t X t e : tinv_e X t e -> sep (footprint t ++ xblocks X) (ew e).
Proof.
  destruct t as [st|st|st]; cbn [tinv_e]; intros [_ Sp _ _].
  - rewrite footprint_TR. now rewrite <- !app_assoc.
  - rewrite footprint_TW. now rewrite <- !app_assoc.
  - rewrite footprint_TK. now rewrite <- !app_assoc.
Qed.

(* one tenant moves: every other tenant's invariant survives *)
Lemma ginv_op g i t tr t' e' :
  ginv g -> nth_error (gts g) i = Some (t, tr) ->
  tinv (snap (wh (gw g)) (others (gts g) i)) t' e' ->
  ginv (mkG (ew e') (set_nth i (t', eev e') (gts g))).
Proof.
  intros [Wk Sp Each] Hn Hi'.
  set (Xi := snap (wh (gw g)) (others (gts g) i)) in *.
  pose proof (tinv_einv _ _ _ Hi') as He'.
  pose proof (sep_of_einv_t _ _ _ He') as Sp'. unfold Xi in Sp'. rewrite xblocks_snap in Sp'.
  assert (Wk' : wok (ew e')) by (destruct t'; cbn in He'; apply He').
  assert (Hxs : xsnap Xi (wh (ew e'))) by (destruct t'; cbn in He'; apply He').
  pose proof (xsnap_same_on _ _ _ Hxs) as Hsame.
  assert (Hlen : (i < length (gts g))%nat) by (apply nth_error_Some; congruence).
  assert (Sall : sep (allfoot (set_nth i (t', eev e') (gts g))) (ew e')).
  { eapply sep_perm; [|exact Sp']. apply Permutation_sym. now apply (allfoot_set _ _ t tr (t', eev e')). }
  split; cbn [gw gts]; [assumption|assumption|].
  intros j tj trj Hj. destruct (Nat.eq_dec j i) as [->|Hne].
  - rewrite nth_error_set_nth_eq in Hj by assumption. inversion Hj; subst.
    rewrite others_set_same. rewrite (snap_same _ _ _ Hsame). fold Xi.
    eapply tinv_env; [| |exact Hi']; reflexivity.
  - rewrite nth_error_set_nth_ne in Hj by congruence.
    pose proof (Each _ _ _ Hj) as Hj0.
    assert (Hjfoot : incl (footprint tj) (others (gts g) i)).
    { intros b Hb. pose proof (others_perm _ _ _ _ Hj) as P1. pose proof (others_perm _ _ _ _ Hn) as P2.
      assert (Hall : In b (allfoot (gts g))) by (eapply Permutation_in; [exact P1|rewrite in_app_iff; now left]).
      apply Permutation_sym in P2. apply (Permutation_in _ P2) in Hall. apply in_app_or in Hall as [Hall|Hall]; [|assumption].
      (* b in both footprints: impossible, they are separated *)
      exfalso. destruct Sp as [Sn _ _]. apply (Permutation_NoDup (Permutation_sym P1)) in Sn.
      assert (In b (others (gts g) j)).
      { clear -Hn Hne Hall. revert i j Hn Hne. induction (gts g) as [|p r IH]; intros [|i] [|j] Hn Hne; cbn [nth_error others] in *; try discriminate; try congruence.
        - inversion Hn; subst. rewrite in_app_iff. now left.
        - unfold allfoot. apply in_concat. exists (footprint t). split; [|assumption].
          apply in_map_iff. exists (t, tr). split; [reflexivity|eapply nth_error_In; eassumption].
        - rewrite in_app_iff. right. eapply IH; [eassumption|congruence]. }
      exact (NoDup_app_disj _ _ _ Sn Hb H). }
    eapply tinv_transfer; [exact Hj0| |].
    + eapply tinv_e_rebase; [exact (tinv_einv _ _ _ Hj0)|exact Wk'| |apply xsnap_snap|reflexivity].
      rewrite xblocks_snap. cbn [env_of ew].
      eapply sep_perm; [|exact Sall]. apply Permutation_sym.
      apply (others_perm _ _ tj trj). now rewrite nth_error_set_nth_ne by congruence.
    + cbn [env_of ew]. intros b Hb. apply Hsame. now apply Hjfoot.
Qed.

Lemma In_allfoot ts j t tr b : nth_error ts j = Some (t, tr) -> In b (footprint t) -> In b (allfoot ts).
Proof.
  intros Hj Hb. unfold allfoot. apply in_concat. exists (footprint t). split; [|assumption].
  apply in_map_iff. exists (t, tr). split; [reflexivity|eapply nth_error_In; eassumption].
Qed.

(* a new tenant joins *)
Lemma ginv_new g t' e' :
  ginv g -> tinv (snap (wh (gw g)) (allfoot (gts g))) t' e' ->
  ginv (mkG (ew e') (gts g ++ [(t', eev e')])).
Proof.
  intros [Wk Sp Each] Hi'.
  set (Xn := snap (wh (gw g)) (allfoot (gts g))) in *.
  pose proof (tinv_einv _ _ _ Hi') as He'.
  pose proof (sep_of_einv_t _ _ _ He') as Sp'. unfold Xn in Sp'. rewrite xblocks_snap in Sp'.
  assert (Wk' : wok (ew e')) by (destruct t'; cbn in He'; apply He').
  assert (Hxs : xsnap Xn (wh (ew e'))) by (destruct t'; cbn in He'; apply He').
  pose proof (xsnap_same_on _ _ _ Hxs) as Hsame.
  assert (Sall : sep (allfoot (gts g ++ [(t', eev e')])) (ew e')).
  { eapply sep_perm; [|exact Sp']. rewrite allfoot_app. cbn [allfoot map concat fst]. rewrite app_nil_r.
    apply Permutation_app_comm. }
  split; cbn [gw gts]; [assumption|assumption|].
  intros j tj trj Hj. destruct (Nat.lt_ge_cases j (length (gts g))) as [Hlt|Hge].
  - rewrite nth_error_app1 in Hj by assumption.
    pose proof (Each _ _ _ Hj) as Hj0.
    rewrite others_app_old by assumption. cbn [fst].
    eapply tinv_transfer; [exact Hj0| |].
    + eapply tinv_e_rebase; [exact (tinv_einv _ _ _ Hj0)|exact Wk'| |apply xsnap_snap|reflexivity].
      rewrite xblocks_snap. cbn [env_of ew].
      eapply sep_perm; [|exact Sall]. apply Permutation_sym.
      rewrite allfoot_app. cbn [allfoot map concat fst]. rewrite app_nil_r.
      rewrite app_assoc. apply Permutation_app_tail. now apply (others_perm _ _ tj trj).
    + cbn [env_of ew]. intros b Hb. apply Hsame. eapply In_allfoot; eassumption.
  - rewrite nth_error_app2 in Hj by assumption.
    destruct (j - length (gts g))%nat as [|k] eqn:Ek; cbn [nth_error] in Hj; [|destruct k; discriminate].
    inversion Hj; subst. assert (j = length (gts g)) as -> by lia.
    rewrite others_app_new. rewrite (snap_same _ _ _ Hsame). fold Xn.
    eapply tinv_env; [| |exact Hi']; reflexivity.
Qed.

Lemma xok_global g : ginv g -> xok (snap (wh (gw g)) (allfoot (gts g))) (gw g).
Proof.
  intros [Wk Sp _]. split; [assumption|split; [now rewrite xblocks_snap|apply xsnap_snap]].
Qed.

Lemma g_step_inv g s : gstep_wf s -> ginv g -> ginv (fst (g_step g s)).
Proof.
  intros Hwf Hg. destruct s as [i o al adv padv|l|src|pre data spare|failk|isnil pre data spare|src]; cbn [g_step].
  - destruct (nth_error (gts g) i) as [[t tr]|] eqn:Hn; [|exact Hg].
    destruct (t_step t (mkE (gw g) al adv padv tr) o) as [[t' e'] out] eqn:Es. cbn [fst].
    eapply ginv_op; [exact Hg|exact Hn|].
    eapply t_step_inv; [exact Hwf| |exact Es].
    eapply tinv_env; [| |exact (gi_each _ Hg _ _ _ Hn)]; reflexivity.
  - cbn [fst]. destruct Hg as [Wk Sp Each].
    destruct (co_run_spec l _ _ Wk Sp) as (A1 & A2 & A3 & A4).
    split; cbn [gw gts]; [assumption|assumption|].
    intros j tj trj Hj. pose proof (Each _ _ _ Hj) as Hj0.
    assert (Hsame : same_on (others (gts g) j) (wh (gw g)) (wh (co_run (gw g) l))).
    { intros b Hb. apply A3. pose proof (others_perm _ _ _ _ Hj) as P.
      eapply Permutation_in; [exact P|]. rewrite in_app_iff. now right. }
    rewrite (snap_same _ _ _ Hsame).
    destruct tj as [st|st|st]; cbn [tinv] in *.
    + exact (rinv_co _ _ _ _ l [] [] [] Hj0).
    + exact (winv_co _ _ _ l [] [] [] Hj0).
    + exact (kinv_co _ _ _ l [] [] [] Hj0).
  - cbn [fst]. change (mkG (gw g) (gts g ++ [(TR (new_reader src), [])]))
      with (mkG (ew (env_of (gw g) [])) (gts g ++ [(TR (new_reader src), eev (env_of (gw g) []))])).
    apply ginv_new; [exact Hg|]. cbn [tinv]. cbn [gstep_wf] in Hwf.
    apply rinv_new_reader; [now apply xok_global|assumption].
  - destruct (new_bytes_reader (mkE (gw g) [] [] [] []) pre data spare) as [st e] eqn:En. cbn [fst].
    apply ginv_new; [exact Hg|]. cbn [tinv].
    pose proof (rinv_new_bytes_reader _ _ _ _ _ _ _ (xok_global _ Hg) En) as Hi.
    assert (Hsd : sdata (rsrc st) = data).
    { destruct (rv_S _ _ _ _ Hi) as [H _]. exact H. }
    now rewrite Hsd.
  - cbn [fst]. change (mkG (gw g) (gts g ++ [(TW (new_writer failk), [])]))
      with (mkG (ew (env_of (gw g) [])) (gts g ++ [(TW (new_writer failk), eev (env_of (gw g) []))])).
    apply ginv_new; [exact Hg|]. cbn [tinv]. apply winv_new_writer. now apply xok_global.
  - destruct (new_bytes_writer (mkE (gw g) [] [] [] []) isnil pre data spare) as [st e] eqn:En. cbn [fst].
    apply ginv_new; [exact Hg|]. cbn [tinv].
    exact (winv_new_bytes_writer _ _ _ _ _ _ _ _ (xok_global _ Hg) En).
  - cbn [fst]. change (mkG (gw g) (gts g ++ [(TK (new_skip src), [])]))
      with (mkG (ew (env_of (gw g) [])) (gts g ++ [(TK (new_skip src), eev (env_of (gw g) []))])).
    apply ginv_new; [exact Hg|]. cbn [tinv]. cbn [gstep_wf] in Hwf.
    apply kinv_new; [now apply xok_global|assumption].
Qed.

Lemma g_run_inv : forall h g, Forall gstep_wf h -> ginv g -> ginv (fst (g_run g h)).
Proof.
  induction h as [|s h IH]; intros g Hwf Hg; cbn [g_run]; [exact Hg|].
  inversion Hwf as [|? ? Hs Hr]; subst.
  destruct (g_step g s) as [g' o] eqn:Es. destruct (g_run g' h) as [g'' outs] eqn:Er. cbn [fst].
  assert (Hg' : ginv g') by (change g' with (fst (g', o)); rewrite <- Es; now apply g_step_inv).
  specialize (IH g' Hr Hg'). now rewrite Er in IH.
Qed.

Lemma ginv_init w : wok w -> ginv (mkG w []).
Proof.
  intros Wk. split; cbn [gw gts allfoot map concat]; [assumption| |].
  - split; [constructor|constructor|intros b []].
  - intros i t tr H. destruct i; discriminate.
Qed.

(* ---------- the theorems of C14 about tenants ---------- *)
Definition reachable (w0 : world) (h : list gstep) (g : gstate) : Prop :=
  wok w0 /\ Forall gstep_wf h /\ fst (g_run (mkG w0 []) h) = g.

Lemma reachable_ginv w0 h g : reachable w0 h g -> ginv g.
Proof. intros (Wk & Hwf & <-). apply g_run_inv; [assumption|now apply ginv_init]. Qed.

(* the blocks of all tenants, the pool and the outsiders' blocks are pairwise distinct; every
   tenant's own trace is accepted by the ownership monitor (each access hits a block the tenant
   holds at that moment), hence satisfies the trace specifications *)
Theorem ownership_inv w0 h g :
  reachable w0 h g ->
  NoDup (allfoot (gts g) ++ wpool (gw g) ++ wcot (gw g)) /\
  forall i t tr, nth_error (gts g) i = Some (t, tr) ->
    montr tr <> None /\
    no_use_after_free (rev tr) /\ caller_untouched (rev tr) /\ frees_whole_blocks (rev tr).
Proof.
  intros Hr. pose proof (reachable_ginv _ _ _ Hr) as [Wk Sp Each]. split.
  - destruct Wk as [Wn _]. destruct Sp as [Sn _ So].
    induction (allfoot (gts g)) as [|b l IH]; cbn [app]; [assumption|].
    inversion Sn as [|? ? Hb Hl]; subst. constructor.
    + rewrite in_app_iff. intros [H|H]; [tauto|]. apply (So b); [now left|assumption].
    + apply IH; [assumption|]. intros x Hx. apply So. now right.
  - intros i t tr Hn. pose proof (tinv_einv _ _ _ (Each _ _ _ Hn)) as He.
    assert (Hm : exists m, montr tr = Some m).
    { destruct t; cbn [tinv_e] in He; destruct He as [_ _ (m & Hm & _) _]; now exists m. }
    destruct Hm as [m Hm]. split; [congruence|]. eapply montr_spec; eassumption.
Qed.

(* what a tenant sees of its own data: exactly the single-object results of C09 *)
Definition tenant_results_ok (t : tenant) (w : world) : Prop :=
  match t with
  | TR st => live_intact (sdata (rsrc st)) st w
  | TW st => ForallOrdPairs pdisj (wregs st) /\ Forall (region_held st (wh w)) (wregs st)
  | TK st => result_intact st w
  end.

Theorem noninterference_results w0 h g :
  reachable w0 h g ->
  forall i t tr, nth_error (gts g) i = Some (t, tr) -> tenant_results_ok t (gw g).
Proof.
  intros Hr i t tr Hn. pose proof (reachable_ginv _ _ _ Hr) as Hg.
  pose proof (gi_each _ Hg _ _ _ Hn) as Hi. destruct t as [st|st|st]; cbn [tinv tenant_results_ok] in *.
  - exact (rinv_live _ _ _ _ Hi).
  - exact (winv_regions _ _ _ Hi).
  - unfold result_intact. pose proof (kv_res _ _ _ Hi) as Hres. destruct (kres st); [exact (proj2 Hres)|exact I].
Qed.

(* a step of one tenant changes no other tenant's state or trace and no byte of any block another
   tenant stands on *)
Theorem noninterference_frame w0 h g i o al adv padv g' out :
  reachable w0 h g -> top_wf o -> g_step g (GOp i o al adv padv) = (g', out) ->
  forall j tj trj, j <> i -> nth_error (gts g) j = Some (tj, trj) ->
    nth_error (gts g') j = Some (tj, trj) /\ same_on (footprint tj) (wh (gw g)) (wh (gw g')).
Proof.
  intros Hr Hwf Es j tj trj Hne Hj. pose proof (reachable_ginv _ _ _ Hr) as Hg.
  cbn [g_step] in Es. destruct (nth_error (gts g) i) as [[t tr]|] eqn:Hn.
  - destruct (t_step t (mkE (gw g) al adv padv tr) o) as [[t' e'] out'] eqn:Et. inversion Es; subst; clear Es.
    cbn [gts gw]. split; [rewrite nth_error_set_nth_ne by congruence; exact Hj|].
    assert (Hi' : tinv (snap (wh (gw g)) (others (gts g) i)) t' e').
    { eapply t_step_inv; [exact Hwf| |exact Et]. eapply tinv_env; [| |exact (gi_each _ Hg _ _ _ Hn)]; reflexivity. }
    pose proof (tinv_einv _ _ _ Hi') as He'.
    assert (Hxs : xsnap (snap (wh (gw g)) (others (gts g) i)) (wh (ew e'))) by (destruct t'; cbn in He'; apply He').
    pose proof (xsnap_same_on _ _ _ Hxs) as Hsame.
    intros b Hb. apply Hsame.
    (* tj's blocks are among the others of i *)
    pose proof (others_perm _ _ _ _ Hn) as P2. destruct Hg as [_ Sp _].
    assert (Hall : In b (allfoot (gts g))) by (eapply In_allfoot; eassumption).
    apply Permutation_sym in P2. apply (Permutation_in _ P2) in Hall. apply in_app_or in Hall as [Hall|Hall]; [|assumption].
    exfalso. pose proof (others_perm _ _ _ _ Hj) as P1. destruct Sp as [Sn _ _].
    apply (Permutation_NoDup (Permutation_sym P1)) in Sn.
    assert (In b (others (gts g) j)).
    { clear -Hn Hne Hall. revert i j Hn Hne. induction (gts g) as [|p r IH]; intros [|i] [|j] Hn Hne; cbn [nth_error others] in *; try discriminate; try congruence.
      - inversion Hn; subst. rewrite in_app_iff. now left.
      - eapply In_allfoot; eassumption.
      - rewrite in_app_iff. right. eapply IH; [eassumption|congruence]. }
    exact (NoDup_app_disj _ _ _ Sn Hb H).
  - inversion Es; subst. split; [assumption|apply same_on_refl].
Qed.

(* ---------- concurrent Get ---------- *)
Section GetPure.
  Variables (M K A : Type) (getf : M -> K -> A) (havoc : M -> K -> M).

  Lemma nth_set_nth_same {B} : forall (l : list B) i x d, (i < length l)%nat -> nth i (set_nth i x l) d = x.
  Proof. intros l i x d H. now apply nth_set_nth_eq. Qed.

  (* with a Get that does not write the receiver: the map never changes, and every goroutine's
     answers are, in order, the sequential answers [getf m k] for the keys it has asked so far *)
  Lemma get_run_pure : forall sched m todo done,
    length done = length todo ->
    let r := get_run M K A getf 0 havoc m sched todo done in
    fst r = m /\
    forall i, exists n, nth i (snd r) [] = nth i done [] ++ map (getf m) (firstn n (nth i todo [])).
  Proof.
    induction sched as [|j r IH]; intros m todo done Hlen; cbn [get_run].
    - split; [reflexivity|]. intros i. exists O. cbn [firstn map]. now rewrite app_nil_r.
    - destruct (nth_error todo j) as [[|k ks]|] eqn:Hj; try (now apply IH).
      unfold get_step. cbn [Z.eqb].
      assert (Hjl : (j < length todo)%nat) by (apply nth_error_Some; congruence).
      assert (Hlen' : length (set_nth j (nth j done [] ++ [getf m k]) done) = length (set_nth j ks todo))
        by (now rewrite !set_nth_length).
      destruct (IH m _ _ Hlen') as [H1 H2]. split; [exact H1|].
      intros i. destruct (H2 i) as [n Hn]. rewrite Hn.
      destruct (Nat.eq_dec i j) as [->|Hne].
      + rewrite !nth_set_nth_same by lia. exists (S n).
        assert (Hk : nth j todo [] = k :: ks) by (apply nth_error_nth with (d := []) in Hj; exact Hj).
        rewrite Hk. cbn [firstn map]. now rewrite <- app_assoc.
      + rewrite !nth_set_nth_ne by congruence. now exists n.
  Qed.
End GetPure.
