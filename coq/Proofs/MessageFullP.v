(* Proofs/MessageFullP.v — C12 with the FULL skipper.
   Proofs/MessageP.v proves that ApplicationException.FastRead and UnmarshalFastMsg never panic for
   any skip function that is safe and bounded on EVERY list ([skip_ok]).  The model of
   thrift.Binary.Skip (Model/Skip.v [binary_skip], the subject of C02/C03/C08) is safe and bounded on
   every list of BYTES ([wf]) — exactly what a Go []byte is.  This file restates the three lemmas
   relative to a class of inputs [W] closed under [drop] and instantiates them with [W := wf] and
   the full skipper [FastCodec.skipf], which is what the correspondence run of C12 now uses. *)
From GV Require Import Lib.Bytes Lib.Res Gen.Consts Model.Binary Model.Skip Model.FastCodec Model.Message
     Spec.Wire Spec.SkipCauses Proofs.BinaryP Proofs.MessageP Proofs.SkipP Proofs.ErrTypesSkipExactP.
From Coq Require Import ZifyN ZifyNat ZifyBool Lia.
Open Scope N_scope.

Section On.
  Variable W : bytes -> Prop.
  Hypothesis W_drop : forall n b, W b -> W (drop n b).

  Definition skip_ok_on (skipf : bytes -> Z -> res N) : Prop :=
    (forall s t, W s -> safe (skipf s t)) /\ (forall s t n, W s -> skipf s t = Ok n -> n <= len s).

  Lemma appex_read_loop_total_on skipf : skip_ok_on skipf ->
    forall fuel e b off, W b -> off <= len b ->
    safe (snd (appex_read_loop skipf fuel e b off)) /\
    (forall n, snd (appex_read_loop skipf fuel e b off) = Ok n -> n <= len b).
  Proof.
    intros [Hsafe Hbound]. induction fuel as [|f IH]; intros e b off HW Hoff; cbn [appex_read_loop].
    - cbn [snd safe]. split; [exact I|discriminate].
    - rewrite slice_from_ok by exact Hoff. cbn [bind].
      pose proof (r_field_begin_total (drop off b)) as Hft.
      destruct (r_field_begin (drop off b)) as [[[tp id] l]|x|w|] eqn:Ef; cbn [safe] in Hft; try contradiction;
        [|cbn [snd safe]; split; [exact I|discriminate]].
      apply r_field_begin_bounded in Ef. rewrite drop_len in Ef by exact Hoff.
      destruct (Z.eqb tp thrift_STOP).
      { cbn [snd safe]. split; [exact I|]. intros n Hn. inversion Hn; subst. lia. }
      rewrite slice_from_ok by lia.
      destruct ((id =? 1)%Z && (tp =? thrift_STRING)%Z).
      { pose proof (r_string_total (drop (off + l) b)) as Hst.
        destruct (r_string (drop (off + l) b)) as [[m l2]|x|w|] eqn:Es; cbn [safe] in Hst; try contradiction;
          [|cbn [snd safe]; split; [exact I|discriminate]].
        apply r_string_bounded in Es. rewrite drop_len in Es by lia. apply IH; [exact HW|lia]. }
      destruct ((id =? 2)%Z && (tp =? thrift_I32)%Z).
      { pose proof (r_i32_total (drop (off + l) b)) as Hst.
        destruct (r_i32 (drop (off + l) b)) as [[t l2]|x|w|] eqn:Es; cbn [safe] in Hst; try contradiction;
          [|cbn [snd safe]; split; [exact I|discriminate]].
        apply r_i32_bounded in Es. rewrite drop_len in Es by lia. apply IH; [exact HW|lia]. }
      pose proof (Hsafe (drop (off + l) b) tp (W_drop _ _ HW)) as Hst.
      destruct (skipf (drop (off + l) b) tp) as [l2|x|w|] eqn:Es; cbn [safe] in Hst; try contradiction;
        [|cbn [snd safe]; split; [exact I|discriminate]].
      apply Hbound in Es; [|apply W_drop; exact HW]. rewrite drop_len in Es by lia. apply IH; [exact HW|lia].
  Qed.

  Lemma appex_read_total_on skipf e b : skip_ok_on skipf -> W b ->
    safe (snd (appex_read skipf e b)) /\ (forall n, snd (appex_read skipf e b) = Ok n -> n <= len b).
  Proof. intros H HW. unfold appex_read. apply appex_read_loop_total_on; [exact H|exact HW|lia]. Qed.

  Lemma appex_read_loop_fuel_on skipf : skip_ok_on skipf ->
    forall fuel e b off, W b -> off <= len b -> (N.to_nat (len b - off) < fuel)%nat ->
    snd (appex_read_loop skipf fuel e b off) <> Err Message.e_fuel \/ exists s t, W s /\ skipf s t = Err Message.e_fuel.
  Proof.
    intros [Hsafe Hbound]. induction fuel as [|f IH]; intros e b off HW Hoff Hf; [lia|]. cbn [appex_read_loop].
    rewrite slice_from_ok by exact Hoff. cbn [bind].
    destruct (r_field_begin (drop off b)) as [[[tp id] l]|x|w|] eqn:Ef; cbn [snd]; try (left; discriminate).
    - pose proof (r_field_begin_bounded _ _ _ _ Ef) as Hb. rewrite drop_len in Hb by exact Hoff.
      assert (Hl : 1 <= l).
      { unfold r_field_begin, need in Ef. destruct (N.ltb_spec (len (drop off b)) 1); cbn [bind] in Ef; [discriminate|].
        destruct (Z.eqb _ _); [inversion Ef; lia|]. destruct (N.ltb_spec (len (drop off b)) 3); cbn [bind] in Ef; [discriminate|inversion Ef; lia]. }
      destruct (Z.eqb tp thrift_STOP); [left; discriminate|].
      rewrite slice_from_ok by lia.
      destruct ((id =? 1)%Z && (tp =? thrift_STRING)%Z).
      { destruct (r_string (drop (off + l) b)) as [[m l2]|x|w|] eqn:Es; cbn [snd]; try (left; discriminate).
        - apply r_string_bounded in Es. rewrite drop_len in Es by lia. apply IH; [exact HW|lia|lia].
        - left. apply r_binary_gen_err in Es. intros Hx. inversion Hx; subst. destruct Es; discriminate. }
      destruct ((id =? 2)%Z && (tp =? thrift_I32)%Z).
      { destruct (r_i32_cases (drop (off + l) b)) as [[_ ->]|[H4 ->]]; cbn [snd]; [left; discriminate|].
        rewrite drop_len in H4 by lia. apply IH; [exact HW|lia|lia]. }
      destruct (skipf (drop (off + l) b) tp) as [l2|x|w|] eqn:Es; cbn [snd]; try (left; discriminate).
      + apply Hbound in Es; [|apply W_drop; exact HW]. rewrite drop_len in Es by lia. apply IH; [exact HW|lia|lia].
      + destruct (Z.eqb_spec x Message.e_fuel) as [->|Hne]; [right; exists (drop (off + l) b), tp; split; [apply W_drop; exact HW|exact Es]|left; congruence].
    - left. unfold r_field_begin, need in Ef.
      destruct (N.ltb_spec (len (drop off b)) 1); cbn [bind] in Ef; [inversion Ef; discriminate|].
      destruct (Z.eqb _ _); [discriminate|].
      destruct (N.ltb_spec (len (drop off b)) 3); cbn [bind] in Ef; [inversion Ef; discriminate|discriminate].
  Qed.

  Lemma unmarshal_total_on (P : Type) (p_read : P -> bytes -> P * res N) skipf b (m0 : P) :
    skip_ok_on skipf -> (forall m s, W s -> safe (snd (p_read m s))) -> W b ->
    safe (unmarshal_fast_msg P p_read skipf b m0).
  Proof.
    intros Hsk Hp HW. unfold unmarshal_fast_msg.
    pose proof (r_message_begin_total b) as Hm.
    destruct (r_message_begin b) as [[[[name ty] seq] i]|x|w|] eqn:Er; cbn [safe] in Hm; try contradiction; [|exact I].
    apply r_message_begin_bounded in Er. rewrite slice_from_ok by exact Er. cbn [bind].
    destruct (Z.eqb ty thrift_EXCEPTION).
    - destruct (appex_read_total_on skipf (mkex thrift_UNKNOWN_APPLICATION_EXCEPTION []) (drop i b) Hsk (W_drop _ _ HW)) as [Hs _].
      destruct (appex_read skipf _ (drop i b)) as [ex r]. cbn [snd] in Hs. destruct r; cbn [safe] in *; auto.
    - pose proof (Hp m0 (drop i b) (W_drop _ _ HW)) as Hs. destruct (p_read m0 (drop i b)) as [m' r]. cbn [snd] in Hs.
      destruct r; cbn [safe] in *; auto.
  Qed.
End On.

(* ---------- instance: byte lists and the full skipper ---------- *)
Lemma wf_drop_full n b : wf b -> wf (drop n b).
Proof.
  unfold wf, drop. generalize (N.to_nat n) as k. intros k. revert b.
  induction k as [|k IH]; intros [|x b] H; cbn [skipn]; auto.
  inversion H; subst. apply IH. assumption.
Qed.

Lemma u8_lt256 t : u8 t < 256.
Proof. exact (u8_lt t). Qed.

Lemma skipf_full_ok : skip_ok_on wf FastCodec.skipf.
Proof.
  split.
  - intros s t Hw. unfold FastCodec.skipf. apply bskip_safe; [exact Hw|apply u8_lt256].
  - intros s t n Hw E. unfold FastCodec.skipf in E.
    pose proof (bskip_bounded s (u8 t) n Hw (u8_lt256 t) E). lia.
Qed.

(* [Message.e_fuel] (41) is the read loop's own out-of-fuel code; the skipper's error codes are the four
   protocol causes (C17's skip_err_typed), so it never returns 41 — nor its own out-of-fuel code 99 *)
Lemma skipf_full_no_fuel s t : wf s -> FastCodec.skipf s t <> Err Message.e_fuel.
Proof.
  intros Hw E. unfold FastCodec.skipf in E.
  destruct (skip_err_typed _ _ _ Hw (u8_lt256 t) E) as [_ [cz [Hc _]]]. vm_compute in Hc. discriminate.
Qed.

Theorem appex_read_full_no_panic e b : wf b ->
  safe (snd (appex_read FastCodec.skipf e b)) /\
  (forall n, snd (appex_read FastCodec.skipf e b) = Ok n -> n <= len b).
Proof. intros Hw. apply (appex_read_total_on wf wf_drop_full); [exact skipf_full_ok|exact Hw]. Qed.

Theorem appex_read_full_fuel e b : wf b -> snd (appex_read FastCodec.skipf e b) <> Err Message.e_fuel.
Proof.
  intros Hw. unfold appex_read.
  destruct (appex_read_loop_fuel_on wf wf_drop_full FastCodec.skipf skipf_full_ok (S (length b)) e b 0 Hw)
    as [H|(s & t & Hs & H)]; [lia| |exact H|].
  - rewrite N.sub_0_r. unfold len. lia.
  - exfalso. exact (skipf_full_no_fuel s t Hs H).
Qed.

Theorem unmarshal_full_no_panic (P : Type) (p_read : P -> bytes -> P * res N) b (m0 : P) :
  (forall m s, wf s -> safe (snd (p_read m s))) -> wf b ->
  safe (unmarshal_fast_msg P p_read FastCodec.skipf b m0).
Proof. intros Hp Hw. apply (unmarshal_total_on wf wf_drop_full); [exact skipf_full_ok|exact Hp|exact Hw]. Qed.

(* the payload of an exception message, read with the full skipper, never makes UnmarshalFastMsg panic *)
Theorem unmarshal_appex_full_no_panic b e0 : wf b ->
  safe (unmarshal_fast_msg appex (appex_read FastCodec.skipf) FastCodec.skipf b e0).
Proof.
  intros Hw. apply unmarshal_full_no_panic; [|exact Hw].
  intros m s Hs. apply (appex_read_full_no_panic m s Hs).
Qed.
