From GV Require Import Lib.Bytes Lib.Heap Model.Unsafex.
From Coq Require Import ZifyN ZifyNat ZifyBool.
Open Scope N_scope.

Lemma b2s_content h b : string_bytes h (binary_to_string b) = slice_bytes h b.
Proof. reflexivity. Qed.

Lemma b2s_len b : tlen (binary_to_string b) = slen b.
Proof. reflexivity. Qed.

Lemma b2s_shares b : tptr (binary_to_string b) = sptr b.
Proof. reflexivity. Qed.

Lemma s2b_content h s : slice_bytes h (string_to_binary s) = string_bytes h s.
Proof. reflexivity. Qed.

Lemma s2b_len_cap s : slen (string_to_binary s) = tlen s /\ scap (string_to_binary s) = tlen s.
Proof. split; reflexivity. Qed.

Lemma s2b_shares s : sptr (string_to_binary s) = tptr s.
Proof. reflexivity. Qed.

Lemma roundtrip_s s : binary_to_string (string_to_binary s) = s.
Proof. destruct s; reflexivity. Qed.

Lemma nil_empty h :
  string_bytes h (binary_to_string nil_slice) = [] /\
  slen (string_to_binary empty_string) = 0 /\ scap (string_to_binary empty_string) = 0.
Proof. repeat split; reflexivity. Qed.

Definition string_valid (h : heap) (s : gstring) : Prop :=
  match tptr s with
  | None => tlen s = 0
  | Some (b, off) => (b < length h)%nat /\ off + tlen s <= len (block h b)
  end.

Lemma string_valid_len h s : string_valid h s -> len (string_bytes h s) = tlen s.
Proof.
  unfold string_valid, string_bytes, read. destruct (tptr s) as [[b off]|].
  - intros [_ H]. rewrite take_len; [reflexivity|]. rewrite drop_len; lia.
  - intros ->. reflexivity.
Qed.

(* Appending a non-empty x to the slice obtained from a string never writes an existing block:
   the heap is only extended (cap = len forces reallocation), so the string's memory is
   untouched, and the result holds the string's bytes followed by x. *)
Lemma append_after_s2b_fresh h s x newcap :
  x <> [] -> string_valid h s ->
  forall h' r, go_append h (string_to_binary s) x newcap = (h', r) ->
  (forall b, (b < length h)%nat -> block h' b = block h b) /\
  slice_bytes h' r = string_bytes h s ++ x.
Proof.
  intros Hx Hv h' r. unfold go_append, string_to_binary. cbn [slen scap sptr].
  assert (Hl : 0 < len x) by (destruct x; [congruence|rewrite len_cons; lia]).
  destruct (N.leb_spec (tlen s + len x) (tlen s)) as [Hle|Hgt]; [lia|].
  unfold alloc. intros E. inversion E; subst h' r; clear E. split.
  - intros b Hb. unfold block. now rewrite app_nth1.
  - unfold slice_bytes at 1. unfold read. cbn [sptr slen].
    unfold block. rewrite app_nth2 by lia. rewrite Nat.sub_diag. cbn [nth].
    rewrite drop_0. unfold slice_bytes. cbn [sptr slen].
    fold (string_bytes h s).
    pose proof (string_valid_len h s Hv) as Hc.
    set (c := string_bytes h s) in *.
    rewrite app_assoc. rewrite <- Hc, <- len_app. apply take_app_len.
Qed.
